(* Source tie for tensorly/metrics/{factors,similarity,leverage_scores}.py -- definitions only.
   On every run the harness reads the CURRENT Python source (ast), follows its statements with a small symbolic executor
   (harness/props/C20.py: SrcFactors / SrcSimilarity / SrcLeverage) and emits one closed term of the record types below:
   the DECISIONS the source makes (which checks it performs, what is normalised by what, which products, reductions,
   comparisons, cut-off factors ...).  The interpreters below give such a term its meaning with the combinators of
   Model/Metrics.v.  Proofs/MetricsSrcTie.v proves, for ALL inputs, that the interpretation of the canonical term is the
   hand-written model; the per-run check is then `translated term = canonical term` (closed terms, by computation).  A term
   that differs is still interpreted and compared with the model on every correspondence case; a source the executor cannot
   follow is a broken tie (fail closed). *)
From Coq Require Import List Arith Bool ZArith.
From TLV Require Import Base.Shape Base.PyList Base.Tensor Base.Ops Model.Metrics.
Import ListNotations.

Inductive which2 := W1 | W2.
(* a loop variable of `for mat1, mat2 in zip(matrix1, matrix2)`: as given, or divided by T.norm(<raw by>, axis=0) *)
Inductive pmat := PRaw (k : which2) | PNormed (k by_ : which2).
Inductive absmode := AbsIf | AbsAlways | AbsNever.

Record cong_src := mkCS {
  cs_len : bool;            (* if len(matrix1) != len(matrix2): raise *)
  cs_cols : bool;           (* if len(np.unique(columns)) > 1: raise *)
  cs_rows : bool;           (* per pair: if shape(mat1)[0] != shape(mat2)[0]: raise *)
  cs_zero1 : bool; cs_zero2 : bool;   (* per pair: if prod(norm(mat1)) == 0 [or prod(norm(mat2)) == 0]: raise *)
  cs_L : pmat; cs_R : pmat; (* list.append(T.dot(T.transpose(L), R)) *)
  cs_abs : absmode          (* if absolute_value: list[-1] = T.abs(list[-1]) *)
}.
Definition canonical_cs : cong_src := mkCS true true true true true (PNormed W1 W1) (PNormed W2 W2) AbsIf.

Inductive nexp := NRows | NCols | NAdd (a b : nexp) | NTwice (a : nexp).
(* vectors derived from c = |x1^H x2| : tl.max(c, axis) (axis 1: one entry per row), then pointwise maps *)
Inductive vexp := VMax (axis : nat) | VSubOne (v : vexp) | VOneSub (v : vexp) | VAbs (v : vexp).
Inductive cexp := COne | CNat (n : nexp) | CSum (v : vexp) | CAdd (a b : cexp) | CMul (a b : cexp) | CDiv (a b : cexp).
Inductive cmpop := CLt | CLe.
Inductive reduction := RdFirst | RdMax | RdMin | RdMean.

Record ci_src := mkCI {
  ci_rank : bool;                        (* for factors in [f1, f2]: if len({shape(A)[1] for A in factors}) != 1: raise *)
  ci_methods : list cmethod;             (* if method not in options: raise *)
  ci_stack : bool;                       (* method == "stacked": X_k = [concatenate(factors_k, 0)], else X_k = factors_k *)
  ci_shapes : bool;                      (* for x1, x2 in zip(X_1, X_2): if shape(x1) != shape(x2): raise *)
  ci_zero1 : bool; ci_zero2 : bool;      (* if any(cn1 == 0) [or any(cn2 == 0)]: raise *)
  ci_norm1 : bool; ci_norm2 : bool;      (* X_k = [x / cn for x, cn in zip(X_k, col_norm_k)] *)
  ci_red : cmethod -> option reduction;  (* the if / elif chain on method (None: the trailing else, score = 1.0) *)
  ci_abs : bool;                         (* c = abs(matmul(conj(transpose(x1)), x2)) *)
  ci_score : cexp;                       (* the score formula of _compute_correlation_index *)
  ci_cmp : cmpop                         (* if score < tol: score = 0 *)
}.
Definition canonical_score : cexp :=
  CMul (CDiv COne (CNat (NAdd NCols NRows)))
       (CAdd (CSum (VAbs (VSubOne (VMax 1)))) (CSum (VAbs (VSubOne (VMax 0))))).
Definition canonical_red (m : cmethod) : option reduction :=
  match m with Stacked => Some RdFirst | MaxScore => Some RdMax | MinScore => Some RdMin | AvgScore => Some RdMean end.
Definition canonical_ci : ci_src :=
  mkCI true [Stacked; MaxScore; MinScore; AvgScore] true true true true true true canonical_red true canonical_score CLt.

Inductive cutf := FMaxS | FMaxShape | FMinShape | FEps.
Record lev_src := mkLV {
  lv_cut : list cutf;      (* rank_cutoff = product of these, left to right *)
  lv_cmp : cmpop;          (* S > cutoff (CLt: cutoff < S) or S >= cutoff (CLe) *)
  lv_renorm : bool         (* if dtype != float64: cast and divide by the sum *)
}.
Definition canonical_lv : lev_src := mkLV [FMaxS; FMaxShape; FEps] CLt true.

(* cp_tensor.py : cp_permute_factors.  Enforced as patterns by the executor: copies are permuted (cp_copy), the congruence is
   taken as congruence_coefficient(reference.factors, tensor.factors) with the default absolute_value, every factor of the copy is
   indexed [:, col], a single tensor comes back unwrapped.  Switches: *)
Record cpp_src := mkCPP {
  pp_norm_ref : bool;      (* ref_cp_tensor = cp_normalize(ref_cp_tensor) *)
  pp_norm_list : bool;     (* list branch: tensors_to_permute[i] = cp_normalize(tensors_to_permute[i]) *)
  pp_factors : bool;       (* for f in range(n_factors): copy.factors[f] = copy.factors[f][:, col] *)
  pp_weights : bool        (* copy.weights = copy.weights[col] *)
}.
Definition canonical_pp : cpp_src := mkCPP true true true true.

Section S.
Context {F : Type} (Op : fops F).
Local Notation zero := (f0 Op).
Local Notation one := (f1 Op).

(* ---------- factors.py ---------- *)
Definition pick (k : which2) {X} (a b : X) : X := match k with W1 => a | W2 => b end.
Definition pmat_eval (m : cmode F) (x : pmat) : mat F :=
  match x with
  | PRaw k => pick k (mA m) (mB m)
  | PNormed k b => normalise Op (pick k (mA m) (mB m)) (pick b (nA m) (nB m))
  end.
Definition cong_pair (s : cong_src) (absv : bool) (m : cmode F) : mat F :=
  let c := dotT Op (pmat_eval m (cs_L s)) (pmat_eval m (cs_R s)) in
  match cs_abs s with AbsIf => if absv then mabs Op c else c | AbsAlways => mabs Op c | AbsNever => c end.
Definition cong_matrix_src (s : cong_src) (absv : bool) (As Bs : list (mat F)) (nas nbs : list (list F)) : res (nat * mat F) :=
  if cs_len s && negb (Nat.eqb (length As) (length Bs)) then Err else
  match As with
  | [] => Err                                  (* all_congruences stays the scalar 1: linear_sum_assignment raises *)
  | A0 :: _ =>
    let r := ncols A0 in
    if cs_cols s && negb (forallb (fun M => Nat.eqb (ncols M) r) (As ++ Bs)) then Err else
    if cs_rows s && negb (forallb (fun ab => Nat.eqb (nrows (fst ab)) (nrows (snd ab))) (combine As Bs)) then Err else
    if (cs_zero1 s && existsb (has_zero_col Op) As) || (cs_zero2 s && existsb (has_zero_col Op) Bs) then Err else
    Ok (r, fold_left (fun acc m => hadamard Op r acc (cong_pair s absv m)) (zip_modes As Bs nas nbs) (ones Op r))
  end.
(* the assignment maximises (linear_sum_assignment(-C) or (C, maximize=True)), permutation[i] = column matched to row i,
   value = mean of the matched entries: enforced by the executor, not switches *)
Definition congruence_src (s : cong_src) (absv : bool) (As Bs : list (mat F)) (nas nbs : list (list F)) (assign : mat F -> list nat)
  : res (F * list nat) :=
  match cong_matrix_src s absv As Bs nas nbs with
  | Err => Err
  | Ok (r, C) => let p := assign C in Ok (score Op r C p, p)
  end.

(* ---------- similarity.py ---------- *)
Fixpoint neval (c : mat F) (n : nexp) : nat :=
  match n with NRows => nrows c | NCols => ncols c | NAdd a b => neval c a + neval c b | NTwice a => 2 * neval c a end.
(* a vector as (length, entry function) *)
Fixpoint veval (c : mat F) (v : vexp) : nat * (nat -> F) :=
  match v with
  | VMax 0 => (ncols c, fun j => maxn Op (nrows c) (fun i => mget Op c i j))
  | VMax _ => (nrows c, fun i => maxn Op (ncols c) (fun j => mget Op c i j))
  | VSubOne w => let '(n, f) := veval c w in (n, fun i => fsub Op (f i) one)
  | VOneSub w => let '(n, f) := veval c w in (n, fun i => fsub Op one (f i))
  | VAbs w => let '(n, f) := veval c w in (n, fun i => fabs Op (f i))
  end.
Fixpoint ceval (c : mat F) (e : cexp) : F :=
  match e with
  | COne => one
  | CNat n => nat2F Op (neval c n)
  | CSum v => let '(n, f) := veval c v in sumn Op n f
  | CAdd a b => fadd Op (ceval c a) (ceval c b)
  | CMul a b => fmul Op (ceval c a) (ceval c b)
  | CDiv a b => fdiv Op (ceval c a) (ceval c b)
  end.
Definition corr_index_one_src (s : ci_src) (tol : F) (X1 X2 : mat F) (n1 n2 : list F) : F :=
  let Y1 := if ci_norm1 s then normalise Op X1 n1 else X1 in
  let Y2 := if ci_norm2 s then normalise Op X2 n2 else X2 in
  let d := dotT Op Y1 Y2 in
  let c := if ci_abs s then mabs Op d else d in
  let sc := ceval c (ci_score s) in
  if (match ci_cmp s with CLt => fltb Op sc tol | CLe => fleb Op sc tol end) then zero else sc.
Definition cmethod_eqb (a b : cmethod) : bool :=
  match a, b with Stacked, Stacked | MaxScore, MaxScore | MinScore, MinScore | AvgScore, AvgScore => true | _, _ => false end.
Definition correlation_index_src (s : ci_src) (meth : option cmethod) (tol : F) (f1s f2s : list (mat F)) (n1s n2s : list (list F)) : res F :=
  if ci_rank s && negb (one_rank f1s && one_rank f2s) then Err else
  match meth with
  | None => Err
  | Some me =>
    if negb (existsb (cmethod_eqb me) (ci_methods s)) then Err else
    let stacked := match me with Stacked => ci_stack s | _ => false end in
    let X1 := if stacked then [concat f1s] else f1s in
    let X2 := if stacked then [concat f2s] else f2s in
    if ci_shapes s && negb (forallb (fun ab => same_shape (fst ab) (snd ab)) (combine X1 X2)) then Err else
    if (ci_zero1 s && existsb (has_zero_col Op) X1) || (ci_zero2 s && existsb (has_zero_col Op) X2) then Err else
    let idxs := map (fun m => corr_index_one_src s tol (mA m) (mB m) (nA m) (nB m)) (zip_modes X1 X2 n1s n2s) in
    match ci_red s me with
    | Some RdFirst => Ok (hd zero idxs)
    | Some RdMax => Ok (list_max Op idxs)
    | Some RdMin => Ok (list_min Op idxs)
    | Some RdMean => Ok (list_mean Op idxs)
    | None => Ok one
    end
  end.

(* ---------- cp_tensor.py : cp_permute_factors ----------
   the two cp_normalize switches have no effect on the meaning: positive column rescaling leaves the congruence matrix unchanged
   (Proofs/MetricsProofs10.v: cong_all_rescaled), which is why the model does not contain them *)
Definition cp_permute_factors_src (s : cpp_src) (ref fs : list (mat F)) (w : list F) (nas nbs : list (list F)) (assign : mat F -> list nat)
  : res (list F * list (mat F) * list nat) :=
  match congruence Op true ref fs nas nbs assign with
  | Ok (_, p) => Ok ((if pp_weights s then map (fun k => nth k w zero) p else w,
                      if pp_factors s then map (permute_cols Op p) fs else fs), p)
  | Err => Err
  end.
Fixpoint cp_permute_factors_list_src (s : cpp_src) (ref : list (mat F)) (nas : list (list F)) (ts : list (list F * list (mat F) * list (list F)))
  (assign : mat F -> list nat) : res (list (list F * list (mat F) * list nat)) :=
  match ts with
  | [] => Ok []
  | (w, fs, nbs) :: rest =>
    match cp_permute_factors_src s ref fs w nas nbs assign, cp_permute_factors_list_src s ref nas rest assign with
    | Ok x, Ok xs => Ok (x :: xs)
    | _, _ => Err
    end
  end.

(* ---------- leverage_scores.py ---------- *)
Definition cutf_eval (sv : list F) (nr nc : nat) (eps : F) (f : cutf) : F :=
  match f with
  | FMaxS => list_max Op sv
  | FMaxShape => nat2F Op (Nat.max nr nc)
  | FMinShape => nat2F Op (Nat.min nr nc)
  | FEps => eps
  end.
Definition cut_eval (sv : list F) (nr nc : nat) (eps : F) (l : list cutf) : F :=
  match l with
  | [] => one
  | f :: r => fold_left (fun acc g => fmul Op acc (cutf_eval sv nr nc eps g)) r (cutf_eval sv nr nc eps f)
  end.
Definition num_rank_src (s : lev_src) (sv : list F) (nr nc : nat) (eps : F) : nat :=
  let cutoff := cut_eval sv nr nc eps (lv_cut s) in
  fold_left (fun acc k => if (match lv_cmp s with CLt => fltb Op cutoff (nth k sv zero) | CLe => fleb Op cutoff (nth k sv zero) end)
                          then S k else acc) (seq 0 (length sv)) 0.
(* low = the input dtype is not float64 *)
Definition leverage_src (s : lev_src) (low : bool) (U : mat F) (sv : list F) (nr nc : nat) (eps : F) : res (list F) :=
  let k := num_rank_src s sv nr nc eps in
  if Nat.eqb k 0 then Err else
  let l := leverage_k Op U nr k in
  Ok (if low && lv_renorm s then (let t := fsum Op l in map (fun x => fdiv Op x t) l) else l).
End S.
