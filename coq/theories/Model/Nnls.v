(* Model of tensorly/solvers/nnls.py (hals_nnls, fista, active_set_nnls) and of the
   n_const=None branch of tensorly/solvers/admm.py, written once over a record of field
   operations (executed at Qops, proved at Rops).  Matrices are lists of rows.
   LAPACK calls (tl.solve, the leading singular value inside fista) are NOT re-implemented:
   their answers enter as data (answer tape) or as a function argument with a contract
   hypothesis in the theorems.  Definitions only. *)
From Coq Require Import List Arith Bool.
From TLV Require Import Base.Ops Base.PyList Base.Tensor.
Import ListNotations.

Section M.
Context {F : Type} (Op : fops F).
Let zero := f0 Op.
Let add := fadd Op.
Let sub := fsub Op.
Let mul := fmul Op.
Let div := fdiv Op.

Definition two : F := fadd Op (f1 Op) (f1 Op).

(* ---------- dense helpers (index-level meaning of the NumPy expressions used) ---------- *)
Fixpoint dot (a b : list F) : F :=
  match a, b with x :: a', y :: b' => fadd Op (fmul Op x y) (dot a' b') | _, _ => f0 Op end.
Definition mrow (A : list (list F)) (i : nat) : list F := nth i A [].
Definition mget (A : list (list F)) (i j : nat) : F := nth j (mrow A i) (f0 Op).
Definition mcol (A : list (list F)) (j : nat) : list F := map (fun row => nth j row (f0 Op)) A.
(* tl.dot(g, V) for a vector g and a matrix V with n columns *)
Definition vecmat (n : nat) (g : list F) (V : list (list F)) : list F :=
  map (fun j => dot g (mcol V j)) (seq 0 n).
(* tl.dot(A, B), B with n columns *)
Definition matmul (n : nat) (A B : list (list F)) : list (list F) := map (fun a => vecmat n a B) A.
Definition mtranspose (n : nat) (A : list (list F)) : list (list F) := map (fun j => mcol A j) (seq 0 n).
Definition vsum (l : list F) : F := fold_left (fadd Op) l (f0 Op).
Definition msum (A : list (list F)) : F := vsum (map vsum A).
Definition map2 (f : F -> F -> F) (a b : list F) : list F := map (fun p => f (fst p) (snd p)) (combine a b).
Definition mmap2 (f : F -> F -> F) (A B : list (list F)) : list (list F) :=
  map (fun p => map2 f (fst p) (snd p)) (combine A B).
Definition mmap (f : F -> F) (A : list (list F)) : list (list F) := map (map f) A.
Definition sq (x : F) : F := fmul Op x x.
Definition vmax (d : F) (l : list F) : F := fold_left (fmax Op) l d.
Definition mmax (A : list (list F)) : F := vmax (mget A 0 0) (map (fun r => vmax (nth 0 r (f0 Op)) r) A).
Definition is0 (x : F) : bool := feqb Op x (f0 Op).

(* ====================================================================================== *)
(*  hals_nnls                                                                             *)
(* ====================================================================================== *)
(* options: sparsity_coefficient, ridge_coefficient (None = not given), nonzero_rows, epsilon,
   meps = tl.eps(V.dtype) (machine epsilon, data of the dtype) *)
Record hopts := mkH { h_sp : option F; h_ridge : option F; h_nz : bool; h_eps : F; h_meps : F }.

Section Hals.
Variables (UtM UtU : list (list F)) (n : nat) (o : hopts).

(* newV = clip(num / den, a_min=epsilon) for row k *)
Definition hals_newrow (V : list (list F)) (k : nat) : list F :=
  let gkk := mget UtU k k in
  let gV := vecmat n (mrow UtU k) V in
  let den := match h_ridge o with Some r => fadd Op gkk (fmul Op two r) | None => gkk end in
  map (fun j =>
         let num0 := fadd Op (fsub Op (mget UtM k j) (nth j gV (f0 Op))) (fmul Op gkk (mget V k j)) in
         let num := match h_sp o with Some s => fsub Op num0 s | None => num0 end in
         fmax Op (h_eps o) (fdiv Op num den))
      (seq 0 n).

(* the body of `for k in range(rank)` on V *)
Definition hals_step (V : list (list F)) (k : nat) : list (list F) :=
  if is0 (mget UtU k k) then V
  else
    let nr := hals_newrow V k in
    let V' := set_nth k nr V in
    if h_nz o && forallb is0 nr then set_nth k (map (fun _ => fmul Op (h_meps o) (mmax V')) nr) V' else V'.

(* rec_error += tl.norm(V - newV) ** 2 : V is r x n, newV has length n, NumPy BROADCASTS newV
   against every row of V (as written in the code) *)
Definition hals_err (V : list (list F)) (k : nat) : F :=
  if is0 (mget UtU k k) then f0 Op
  else let nr := hals_newrow V k in
       msum (map (fun row => map2 (fun a b => sq (fsub Op a b)) row nr) V).

Definition hals_step_e (st : list (list F) * F) (k : nat) : list (list F) * F :=
  (hals_step (fst st) k, fadd Op (snd st) (hals_err (fst st) k)).

Definition hals_pass (V : list (list F)) : list (list F) := fold_left hals_step (seq 0 (length UtM)) V.
Definition hals_pass_e (V : list (list F)) : list (list F) * F :=
  fold_left hals_step_e (seq 0 (length UtM)) (V, f0 Op).

(* for iteration in range(n_iter_max): ... if rec_error < tol * rec_error0: break *)
Fixpoint hals_loop (tol : F) (fuel : nat) (first : bool) (err0 : F) (V : list (list F)) : list (list F) :=
  match fuel with
  | O => V
  | S f =>
    let st := hals_pass_e V in
    let err0' := if first then snd st else err0 in
    if fltb Op (snd st) (fmul Op tol err0') then fst st else hals_loop tol f false err0' (fst st)
  end.

(* with the optional callback: `retVal = callback(V, rec_error); if retVal is True: break` (after the pass, before the
   stopping rule).  cb = fun _ _ => false is the loop without callback (Proofs: hals_loop_cb_none). *)
Fixpoint hals_loop_cb (cb : list (list F) -> F -> bool) (tol : F) (fuel : nat) (first : bool) (err0 : F) (V : list (list F)) : list (list F) :=
  match fuel with
  | O => V
  | S f =>
    let st := hals_pass_e V in
    if cb (fst st) (snd st) then fst st
    else
      let err0' := if first then snd st else err0 in
      if fltb Op (snd st) (fmul Op tol err0') then fst st else hals_loop_cb cb tol f false err0' (fst st)
  end.

(* the same loop, also returning the stopping decisions it took: one pair (rec_error, tol * rec_error0) per executed
   pass (Proofs: snd (hals_trace ...) = hals_loop ...).  Used by the correspondence to decide whether the decisions
   were numerically clear-cut. *)
Fixpoint hals_trace (tol : F) (fuel : nat) (first : bool) (err0 : F) (V : list (list F)) : list (F * F) * list (list F) :=
  match fuel with
  | O => ([], V)
  | S f =>
    let st := hals_pass_e V in
    let err0' := if first then snd st else err0 in
    let d := (snd st, fmul Op tol err0') in
    if fltb Op (snd st) (fmul Op tol err0') then ([d], fst st)
    else let r := hals_trace tol f false err0' (fst st) in (d :: fst r, snd r)
  end.

(* V = clip(solve(UtU, UtM), 0); normalization = sum(UtU * V V^T);
   if normalization > 0: V = V * (sum(UtM*V) / normalization).   `sol` is the recorded answer of tl.solve.
   (Repaired code, /repo 5f3eaf7: when the clipped solution is identically zero the rescaling is skipped;
   before, 0/0 poisoned every entry with NaN.) *)
Definition hals_init (sol : list (list F)) : list (list F) :=
  let V := mmap (fmax Op (f0 Op)) sol in
  let num := msum (mmap2 (fmul Op) UtM V) in
  let den := msum (mmap2 (fmul Op) UtU (matmul (length UtM) V (mtranspose n V))) in
  if fltb Op (f0 Op) den then mmap (fun x => fmul Op x (fdiv Op num den)) V else V.

Definition zero_diag : bool := existsb (fun k => is0 (mget UtU k k)) (seq 0 (length UtM)).

End Hals.

(* `raise ValueError("Column k of U is zero with nonzero condition")`: reached in the first pass *)
Definition hals_rejects (UtM UtU : list (list F)) (n_iter_max : nat) (o : hopts) : bool :=
  h_nz o && zero_diag UtM UtU && negb (Nat.eqb n_iter_max 0).

(* hals_nnls(UtM, UtU, V, n_iter_max, tol, sparsity_coefficient, ridge_coefficient, nonzero_rows, exact, epsilon).
   V0 = None: cold start, `sol` = answer of tl.solve(UtU, UtM).  `exact` replaces (n_iter_max, tol) by
   (50000, 1e-16): the caller of the model passes the replaced pair `big` (no large nat literals here).
   Result: Err = raises ValueError, Ok V. *)
Definition hals_nnls (UtM UtU : list (list F)) (n : nat) (V0 : option (list (list F))) (sol : list (list F))
           (n_iter_max : nat) (tol : F) (o : hopts) : res (list (list F)) :=
  if hals_rejects UtM UtU n_iter_max o then Err
  else
    let V := match V0 with Some V => V | None => hals_init UtM UtU n sol end in
    Ok (hals_loop UtM UtU n o tol n_iter_max true (f0 Op) V).

(* KKT residuals of a point (used by the correspondence and stated in the theorems):
   g = UtU V - UtM + l1 + 2 l2 V *)
Definition kkt_grad (UtM UtU : list (list F)) (n : nat) (l1 l2 : F) (V : list (list F)) : list (list F) :=
  mmap2 (fun a v => fadd Op (fadd Op a l1) (fmul Op (fmul Op two l2) v))
        (mmap2 (fsub Op) (matmul n UtU V) UtM) V.

(* ====================================================================================== *)
(*  fista                                                                                 *)
(* ====================================================================================== *)
(* lr: the step (given, or 1/(sigma_max + 2 ridge) from the recorded leading singular value);
   betas: the momentum coefficients (momentum_old - 1)/momentum, a data-independent sequence
   involving sqrt, recorded; its length is n_iter_max. *)
Section Fista.
Variables (UtM UtU : list (list F)) (n : nat) (nonneg : bool) (sp rd lr tol eps : F).

Definition fista_grad (xu : list (list F)) : list (list F) :=
  mmap2 (fun a v => fadd Op (fadd Op a sp) (fmul Op (fmul Op two rd) v))
        (mmap2 (fadd Op) (mmap (fopp Op) UtM) (matmul n UtU xu)) xu.
Definition fista_prox (y : F) : F := if nonneg then (if fltb Op y eps then eps else y) else y.
Definition fista_new (xu : list (list F)) : list (list F) :=
  mmap fista_prox (mmap2 (fun a g => fsub Op a (fmul Op lr g)) xu (fista_grad xu)).

(* norm = tl.sum(tl.abs(x - x_new)): the l1 norm of the step (repaired code, /repo f4b2876; before, the absolute
   value of the SIGNED sum, which cancels) *)
Definition fista_nrm (x xn : list (list F)) : F := msum (mmap (fabs Op) (mmap2 (fsub Op) x xn)).
Fixpoint fista_loop (betas : list F) (first : bool) (norm0 : F) (x xu : list (list F)) : list (list F) :=
  match betas with
  | [] => x
  | beta :: rest =>
    let xn := fista_new xu in
    let xu' := mmap2 (fun a d => fadd Op a (fmul Op beta d)) xn (mmap2 (fsub Op) xn x) in
    let nrm := fista_nrm x xn in
    let norm0' := if first then nrm else norm0 in
    if fltb Op nrm (fmul Op tol norm0') then xn else fista_loop rest false norm0' xn xu'
  end.
Definition fista (x0 : list (list F)) (betas : list F) : list (list F) := fista_loop betas true (f0 Op) x0 x0.
(* the same loop, also returning its stopping decisions (norm, tol * norm_0), one per executed iteration *)
Fixpoint fista_trace (betas : list F) (first : bool) (norm0 : F) (x xu : list (list F)) : list (F * F) * list (list F) :=
  match betas with
  | [] => ([], x)
  | beta :: rest =>
    let xn := fista_new xu in
    let xu' := mmap2 (fun a d => fadd Op a (fmul Op beta d)) xn (mmap2 (fsub Op) xn x) in
    let nrm := fista_nrm x xn in
    let norm0' := if first then nrm else norm0 in
    let d := (nrm, fmul Op tol norm0') in
    if fltb Op nrm (fmul Op tol norm0') then ([d], xn)
    else let r := fista_trace rest false norm0' xn xu' in (d :: fst r, snd r)
  end.
End Fista.

(* ====================================================================================== *)
(*  fista with a LIST of matrices as UtU (`isinstance(UtU, list)`), order-2 unknown       *)
(* ====================================================================================== *)
(* x_gradient = -UtM + multi_mode_dot(x_update, UtU, transpose=False) + sparsity_coef + 2 ridge_coef x_update; for a
   matrix unknown x (r1 x r2) and UtU = [A, B] this is A x B^T: the core update of non_negative_tucker_hals for an order-2
   core.  lr must be given (the default would take the SVD of a list).  Everything else is the loop of `fista`; the loop
   is written directly with its decision trace. *)
Section Fista2.
Variables (UtM A B : list (list F)) (r2 : nat) (nonneg : bool) (sp rd lr tol eps : F).
Definition mmd2 (xu : list (list F)) : list (list F) := matmul r2 A (matmul r2 xu (mtranspose r2 B)).
Definition fista2_grad (xu : list (list F)) : list (list F) :=
  mmap2 (fun a v => fadd Op (fadd Op a sp) (fmul Op (fmul Op two rd) v))
        (mmap2 (fadd Op) (mmap (fopp Op) UtM) (mmd2 xu)) xu.
Definition fista2_new (xu : list (list F)) : list (list F) :=
  mmap (fista_prox nonneg eps) (mmap2 (fun a g => fsub Op a (fmul Op lr g)) xu (fista2_grad xu)).
Fixpoint fista2_trace (betas : list F) (first : bool) (norm0 : F) (x xu : list (list F)) : list (F * F) * list (list F) :=
  match betas with
  | [] => ([], x)
  | beta :: rest =>
    let xn := fista2_new xu in
    let xu' := mmap2 (fun a d => fadd Op a (fmul Op beta d)) xn (mmap2 (fsub Op) xn x) in
    let nrm := fista_nrm x xn in
    let norm0' := if first then nrm else norm0 in
    let d := (nrm, fmul Op tol norm0') in
    if fltb Op nrm (fmul Op tol norm0') then ([d], xn)
    else let r := fista2_trace rest false norm0' xn xu' in (d :: fst r, snd r)
  end.
Definition fista2 (x0 : list (list F)) (betas : list F) : list (list F) := snd (fista2_trace betas true (f0 Op) x0 x0).
End Fista2.

(* ====================================================================================== *)
(*  admm, n_const = None                                                                  *)
(* ====================================================================================== *)
(* x : m x r, UtM : m x r, UtU : r x r.  `solve` stands for tl.solve (contract in the theorems).
   rho = trace(UtU) / shape(x)[1];  the proximal operator with n_const=None is the identity and its
   result is discarded; returns (x, x_split, dual_var). *)
Definition meye (r : nat) : list (list F) :=
  map (fun i => map (fun j => if Nat.eqb i j then f1 Op else f0 Op) (seq 0 r)) (seq 0 r).
Definition mtrace (A : list (list F)) : F := vsum (map (fun i => mget A i i) (seq 0 (length A))).
Definition admm_none (solve : list (list F) -> list (list F) -> list (list F))
           (UtM UtU x dual : list (list F)) (m r : nat) (n_iter_max : nat)
  : list (list F) * option (list (list F)) * list (list F) :=
  match n_iter_max with
  | O => (x, None, dual)   (* the loop body never runs (x_split would be unbound: the caller never does this) *)
  | S _ =>
    let rho := fdiv Op (mtrace UtU) (nat2F Op r) in
    let x_split := solve (mtranspose r (mmap2 (fadd Op) UtU (mmap (fmul Op rho) (meye r))))
                         (mtranspose r (mmap2 (fadd Op) UtM (mmap (fmul Op rho) (mmap2 (fadd Op) x dual)))) in
    (mtranspose m (solve (mtranspose r UtU) (mtranspose r UtM)), Some x_split, dual)
  end.

(* ====================================================================================== *)
(*  active_set_nnls                                                                       *)
(* ====================================================================================== *)
(* Boolean masks as lists of bool.  `solve A b` stands for tl.solve on the passive block and returns
   None when LAPACK raises (singular block): the code's `except:` path.  `rnd` models the rounding of the
   interpolation step x + alpha (s - x): the identity in exact arithmetic. *)
Section ActiveSet.
Variables (solve : list (list F) -> list F -> option (list F)) (rnd : F -> F).
Variables (Utm : list F) (UtU : list (list F)) (tol : F).

Fixpoint select {A} (mask : list bool) (l : list A) : list A :=
  match mask, l with true :: m', x :: l' => x :: select m' l' | false :: m', _ :: l' => select m' l' | _, _ => [] end.
Definition sub_block (mask : list bool) : list (list F) := map (select mask) (select mask UtU).
(* scatter the passive solution back: support_vec[i] = passive_solution[#passive before i] or 0 *)
Fixpoint scatter (mask : list bool) (ps : list F) : list F :=
  match mask with
  | [] => []
  | true :: m' => match ps with p :: ps' => p :: scatter m' ps' | [] => f0 Op :: scatter m' [] end
  | false :: m' => f0 Op :: scatter m' ps
  end.
Definition gradient (x : list F) : list F := map2 (fsub Op) Utm (map (fun row => dot row x) UtU).
Fixpoint argmax_from (best : F) (bi i : nat) (l : list F) : nat :=
  match l with [] => bi | y :: l' => if fltb Op best y then argmax_from y i (S i) l' else argmax_from best bi (S i) l' end.
Definition argmax (l : list F) : nat := match l with [] => 0 | y :: l' => argmax_from y 0 1 l' end.
Definition vmin (d : F) (l : list F) : F := fold_left (fmin Op) l d.
Definition vmin' (l : list F) : option F := match l with [] => None | y :: l' => Some (vmin y l') end.
Definition posmask (x : list F) : list bool := map (fun v => fltb Op (f0 Op) v) x.
Definition anyb (m : list bool) : bool := existsb (fun b => b) m.
Definition solve_scatter (passive : list bool) : option (list F) :=
  match solve (sub_block passive) (select passive Utm) with Some ps => Some (scatter passive ps) | None => None end.

(* the `for i in range(len(passive_set))` loop; returns None when a Python exception escapes
   (min of an empty selection, LAPACK error outside the try).
   blocking = passive_set & (support_vec <= 0); ratio = x[blocking] / (x[blocking] - s[blocking]); alpha = min(ratio);
   x = x + alpha (s - x); x[blocking] = where(ratio <= alpha, 0, x[blocking])
   (repaired code, /repo dadc3ff: the coordinates attaining alpha are put exactly on the bound; before, rounding
   of the step -- `rnd` -- could leave them positive and passive) *)
Fixpoint map3 {A B C D} (f : A -> B -> C -> D) (a : list A) (b : list B) (c : list C) : list D :=
  match a, b, c with x :: a', y :: b', z :: c' => f x y z :: map3 f a' b' c' | _, _, _ => [] end.
Definition ratio (a b : F) : F := fdiv Op a (fsub Op a b).
Definition blocking (passive : list bool) (s : list F) : list bool :=
  map (fun pb => fst pb && fleb Op (snd pb) (f0 Op)) (combine passive s).
Definition as_step (alpha : F) (passive : list bool) (x s : list F) : list F :=
  map3 (fun (p : bool) a b =>
          if p && fleb Op b (f0 Op) && fleb Op (ratio a b) alpha then f0 Op
          else rnd (fadd Op a (fmul Op alpha (fsub Op b a)))) passive x s.
Fixpoint inner (fuel : nat) (x s : list F) (passive : list bool) : option (list F * list F * list bool) :=
  match fuel with
  | O => Some (x, s, passive)
  | S f =>
    match vmin' (select (blocking passive s) (map2 ratio x s)) with
    | None => None
    | Some alpha =>
      let x' := as_step alpha passive x s in
      let passive' := posmask x' in
      match solve_scatter passive' with
      | None => None
      | Some s' =>
        if negb (anyb passive') then Some (x', s', passive')
        else match vmin' (select passive' s') with
             | Some mn => if fltb Op (f0 Op) mn then Some (x', s', passive') else inner f x' s' passive'
             | None => Some (x', s', passive')
             end
      end
    end
  end.

Definition negmask (m : list bool) : list bool := map negb m.

(* state: x_vec, x_gradient, passive_set, active_set (kept separately, as in the code: the try block
   updates both, the inner loop recomputes both from x_vec).
   as_body: one iteration of the outer loop up to `x_vec = clip(support_vec, 0)`: returns the support vector and
   the two masks, None when a Python exception escapes. *)
Definition as_body (iter0 : bool) (x g : list F) (passive active : list bool) : option (list F * list bool * list bool) :=
  let add_idx := negb iter0 || forallb is0 x in
  let passive1 := if add_idx then set_nth (argmax g) true passive else passive in
  let active1 := if add_idx then set_nth (argmax g) false active else active in
  (* try: solve on the passive block; except: restart from zeros *)
  let attempt :=
    match solve_scatter passive1 with
    | Some s => Some (x, s, passive1, active1)
    | None =>
      let x0 := map (fun _ => f0 Op) x in
      let p0 := posmask x0 in let a0 := negmask p0 in
      let p1 := if anyb a0 then set_nth (argmax g) true p0 else p0 in
      let a1 := if anyb a0 then set_nth (argmax g) false a0 else a0 in
      match solve_scatter p1 with Some s => Some (x0, s, p1, a1) | None => None end
    end in
  match attempt with
  | None => None
  | Some (x1, s1, p1, a1) =>
    match vmin' (select p1 s1) with
    | None => None   (* tl.min of an empty selection raises *)
    | Some mn =>
      if fleb Op mn (f0 Op) then
        match inner (length p1) x1 s1 p1 with
        | Some (x2, s2, p2) => Some (s2, p2, negmask p2)   (* active_set = x_vec <= 0 *)
        | None => None end
      else Some (s1, p1, a1)
    end
  end.

(* `if tl.any(active_set) != True or tl.max(x_gradient[active_set]) <= tol: break`  (max = - min of the opposites) *)
Definition as_done (active : list bool) (g : list F) : bool :=
  negb (anyb active) ||
  match vmin' (map (fopp Op) (select active g)) with Some nm => fleb Op (fopp Op nm) tol | None => true end.

(* the outer loop; the flag tells whether the loop was left through the termination test (true) or because
   n_iter_max ran out (false) *)
Fixpoint as_loop (fuel : nat) (iter0 : bool) (x g : list F) (passive active : list bool) : option (list F * bool) :=
  match fuel with
  | O => Some (x, false)
  | S f =>
    match as_body iter0 x g passive active with
    | None => None
    | Some (s2, p2, a2) =>
      let x3 := map (fmax Op (f0 Op)) s2 in
      let g3 := gradient x3 in
      if as_done a2 g3 then Some (x3, true) else as_loop f false x3 g3 p2 a2
    end
  end.

Definition active_set_run (x0 : option (list F)) (n_iter_max : nat) : option (list F * bool) :=
  let x := match x0 with Some x => x | None => map (fun _ => f0 Op) (nth 0 UtU []) end in
  as_loop n_iter_max true x (gradient x) (posmask x) (negmask (posmask x)).
Definition active_set_nnls (x0 : option (list F)) (n_iter_max : nat) : option (list F) :=
  match active_set_run x0 n_iter_max with Some (x, _) => Some x | None => None end.
End ActiveSet.

(* exact Gaussian elimination with the first non-zero pivot: the executed instance of `solve`
   for square systems (its answer is checked against the contract A x = b by the correspondence,
   so it is not trusted).  None when a pivot column vanishes (singular). *)
Fixpoint find_pivot (rows : list (list F * F)) : option ((list F * F) * list (list F * F)) :=
  match rows with
  | [] => None
  | (a, b) :: rest =>
    match a with
    | p :: _ => if is0 p then match find_pivot rest with Some (pv, others) => Some (pv, (a, b) :: others) | None => None end
                else Some ((a, b), rest)
    | [] => None
    end
  end.
Fixpoint gauss (fuel : nat) (rows : list (list F * F)) : option (list F) :=
  match fuel with
  | O => match rows with [] => Some [] | _ => None end
  | S f =>
    match rows with
    | [] => Some []
    | _ =>
      match find_pivot rows with
      | None => None
      | Some ((pa, pb), others) =>
        match pa with
        | [] => None
        | p :: pa' =>
          let elim := map (fun ab : list F * F =>
                             let '(a, b) := ab in
                             match a with
                             | [] => ([], b)
                             | h :: a' => let c := fdiv Op h p in
                                          (map2 (fun u v => fsub Op u (fmul Op c v)) a' pa', fsub Op b (fmul Op c pb))
                             end) others in
          match gauss f elim with
          | None => None
          | Some xs => Some (fdiv Op (fsub Op pb (dot pa' xs)) p :: xs)
          end
        end
      end
    end
  end.
Definition gauss_solve (A : list (list F)) (b : list F) : option (list F) := gauss (length A) (combine A b).

End M.
