(* Model of the WHOLE function tensorly/solvers/admm.py `admm` (Model/Nnls.v admm_none is only its n_const=None
   branch): rho, the loop `for iteration in range(n_iter_max)`, x_split by tl.solve, the call of proximal_operator with
   admm's n_const / order (order None read as 0 since /repo a5b9e5b; incl. the ways that call raises), the early return of the n_const=None branch, the dual
   update, the two residuals and the stopping rule, and the final `return x, x_split, dual_var` (x_split = x^T is bound
   before the loop since /repo fe4edf7; before, it was unbound when the loop body never ran).  Written once over a record of field operations (executed at Qops, proved at Rops).
   tl.solve is an argument (contract hypothesis in the theorems; exact elimination in the correspondence).
   The proximal operator enters through the selection made by validate_constraints for ONE scalar constraint (or
   none); the elementwise operators below are, definition for definition, those of the C12 model Model/Prox.v
   (Proofs/NnlsProofsAdmmLoop.v: the prox_is_C12 lemmas).  tl.norm (a square root) is not re-implemented: the stopping rule
   `norm(a) < tol * norm(b)` is written in its square-root-free form (Proofs: norm_lt_spec shows the equivalence over R).
   Definitions only. *)
From Coq Require Import List Arith Bool.
From TLV Require Import Base.Ops Base.PyList Base.Tensor Model.Nnls.
Import ListNotations.

Section M.
Context {F : Type} (Op : fops F).
Notation mat := (list (list F)).

Definition madd : mat -> mat -> mat := mmap2 (fadd Op).
Definition msub : mat -> mat -> mat := mmap2 (fsub Op).
Definition mscale (c : F) : mat -> mat := mmap (fmul Op c).
(* tl.norm(A) ** 2 *)
Definition nrm2 (A : mat) : F := msum Op (mmap (sq Op) A).

(* `tl.norm(a) < tol * tl.norm(b)`: both norms are >= 0, so for tol >= 0 this is |a|^2 < tol^2 |b|^2 and for tol < 0 it
   is false *)
Definition norm_lt (tol : F) (a b : mat) : bool :=
  if fltb Op tol (f0 Op) then false else fltb Op (nrm2 a) (fmul Op (fmul Op tol tol) (nrm2 b)).

(* ---------- the constraint handed to proximal_operator (one scalar constraint for all modes, or none) ---------- *)
Inductive constr := KNone | KNonneg | KL1 (t : F) | KL2sq (t : F).

Definition relu (x : F) : F := if fleb Op (f0 Op) x then x else f0 Op.
Definition fsign (x : F) : F :=
  if fltb Op (f0 Op) x then f1 Op else if fltb Op x (f0 Op) then fopp Op (f1 Op) else f0 Op.
Definition soft1 (t x : F) : F := fmul Op (fsign x) (relu (fsub Op (fabs Op x) t)).

(* `if each_constraint:` -- a regularisation parameter 0 (falsy) registers nothing: constraint is None, the tensor is
   returned unchanged *)
Definition apply_constr (k : constr) (T : mat) : mat :=
  match k with
  | KNone => T
  | KNonneg => mmap relu T                                            (* tl.clip(tensor, a_min=0) *)
  | KL1 t => if is0 Op t then T else mmap (soft1 t) T                 (* sign(x) * clip(|x| - t, a_min=0) *)
  | KL2sq t => if is0 Op t then T else mmap (fun x => fdiv Op x (fadd Op (f1 Op) (fmul Op (two Op) t))) T
  end.

(* proximal_operator(tensor, <constraint>, n_const=n_const, order=order) as admm calls it (repaired code, /repo a5b9e5b: admm
   first reads its own default order=None as mode 0 -- `if order is None: order = 0` --, like proximal_operator's default):
   n_const None -> tensor;  otherwise validate_constraints builds lists of length n_const and returns constraints[order]:
   order >= n_const -> IndexError (Err); orders >= 0 only *)
Definition order_eff (order : option nat) : nat := match order with Some o => o | None => 0 end.
Definition prox_call (n_const order : option nat) (k : constr) (T : mat) : res mat :=
  match n_const with
  | None => Ok T
  | Some nc => if Nat.ltb (order_eff order) nc then Ok (apply_constr k T) else Err
  end.
(* the rule before /repo a5b9e5b: order None was forwarded, constraints[None] raised TypeError *)
Definition prox_call_before_a5b9e5b (n_const order : option nat) (k : constr) (T : mat) : res mat :=
  match n_const, order with
  | Some _, None => Err
  | _, _ => prox_call n_const order k T
  end.

Section Loop.
Variables (solve : mat -> mat -> mat) (prox : mat -> mat).
Variables (UtM UtU : mat) (m r : nat) (tol : F).

(* rho = tl.trace(UtU) / tl.shape(x)[1] *)
Definition admm_rho : F := fdiv Op (mtrace Op UtU) (nat2F Op r).
(* x_split = solve((UtU + rho I)^T, (UtM + rho (x + dual_var))^T) : r x m *)
Definition admm_lhs : mat := mtranspose Op r (madd UtU (mscale admm_rho (meye Op r))).
Definition admm_xsplit (x dual : mat) : mat :=
  solve admm_lhs (mtranspose Op r (madd UtM (mscale admm_rho (madd x dual)))).

(* one loop body for n_const not None: (x, x_split, dual_var) after the dual update *)
Definition admm_body (x dual : mat) : mat * mat * mat :=
  let xs := admm_xsplit x dual in
  let xsT := mtranspose Op m xs in
  let x' := prox (msub xsT dual) in
  (x', xs, msub (madd dual x') xsT).

(* dual_residual = x - x_split^T; primal_residual = x - x_old;
   `norm(dual_residual) < tol * norm(x) and norm(primal_residual) < tol * norm(dual_var)` *)
Definition admm_stop (x_old x' xs dual' : mat) : bool :=
  norm_lt tol (msub x' (mtranspose Op m xs)) x' && norm_lt tol (msub x' x_old) dual'.

Fixpoint admm_loop (fuel : nat) (x : mat) (xs : option mat) (dual : mat) : mat * option mat * mat :=
  match fuel with
  | O => (x, xs, dual)
  | S f =>
    let '(x', xs', dual') := admm_body x dual in
    if admm_stop x x' xs' dual' then (x', Some xs', dual') else admm_loop f x' (Some xs') dual'
  end.

(* the same loop, also returning the comparisons it evaluated, as pairs (|a|^2, tol^2 |b|^2): the first test of every
   executed iteration, the second one only when the first held (Python's `and`); none for tol < 0 *)
Definition dec_pair (a b : mat) : F * F := (nrm2 a, fmul Op (fmul Op tol tol) (nrm2 b)).
Definition admm_decisions (x_old x' xs dual' : mat) : list (F * F) :=
  if fltb Op tol (f0 Op) then []
  else let d1 := dec_pair (msub x' (mtranspose Op m xs)) x' in
       if fltb Op (fst d1) (snd d1) then [d1; dec_pair (msub x' x_old) dual'] else [d1].
Fixpoint admm_trace (fuel : nat) (x : mat) (xs : option mat) (dual : mat) : list (F * F) * (mat * option mat * mat) :=
  match fuel with
  | O => ([], (x, xs, dual))
  | S f =>
    let '(x', xs', dual') := admm_body x dual in
    let ds := admm_decisions x x' xs' dual' in
    if admm_stop x x' xs' dual' then (ds, (x', Some xs', dual'))
    else let t := admm_trace f x' (Some xs') dual' in (ds ++ fst t, snd t)
  end.
End Loop.

(* admm(UtM, UtU, x, dual_var, n_iter_max, n_const, order, <one scalar constraint or none>, tol).
   Repaired code (/repo fe4edf7): `x_split = tl.transpose(x)` is bound before the loop, so with n_iter_max = 0 the call returns
   (x, x^T, dual_var); before, `return x, x_split, dual_var` raised UnboundLocalError (flag zero_raises = true: the old rule).
   Err = the call raises: proximal_operator raises in the first iteration (order >= n_const: IndexError).
   n_const None: the first iteration computes x_split, discards the (identity) proximal step, solves the normal
   equations and returns.  `pc` is the model of the proximal_operator call (prox_call; prox_call_before_a5b9e5b for the old rule). *)
Definition admm_gen (zero_raises : bool) (pc : option nat -> option nat -> constr -> mat -> res mat)
           (solve : mat -> mat -> mat) (n_const order : option nat) (k : constr)
           (UtM UtU x dual : mat) (m r : nat) (n_iter_max : nat) (tol : F) : res (mat * mat * mat) :=
  match n_iter_max with
  | O => if zero_raises then Err else Ok (x, mtranspose Op r x, dual)
  | S _ =>
    match n_const with
    | None => Ok (mtranspose Op m (solve (mtranspose Op r UtU) (mtranspose Op r UtM)),
                  admm_xsplit solve UtM UtU r x dual, dual)
    | Some nc =>
      match pc n_const order k x with    (* only whether the call raises depends on (n_const, order) *)
      | Err => Err
      | Ok _ =>
        match admm_loop solve (apply_constr k) UtM UtU m r tol n_iter_max x (Some (mtranspose Op r x)) dual with
        | (x', Some xs', dual') => Ok (x', xs', dual')
        | (_, None, _) => Err             (* unreachable: x_split is bound before the loop *)
        end
      end
    end
  end.
Definition admm := admm_gen false prox_call.
Definition admm_before_fe4edf7 := admm_gen true prox_call.
Definition admm_before_a5b9e5b := admm_gen true prox_call_before_a5b9e5b.

End M.
