(* Argument handling of the entry point tensorly.solvers.nnls.fista, as written (definitions only):
     if sparsity_coef is None: sparsity_coef = 0
     if ridge_coef is None: ridge_coef = 0            (repaired code, /repo ae57725)
     if x is None: x = tl.zeros(tl.shape(UtM), **tl.context(UtM))
     if lr is None: lr = 1 / (tl.truncated_svd(UtU)[1][0] + 2 * ridge_coef)
   Before ae57725 ridge_coef = None -- a value the docstring offers ("ridge_coef : float or None") -- was multiplied as a
   number and raised TypeError: fista_call_before_ae57725 keeps that rule (Err) for the regression Example.
   sigma = the leading singular value of UtU (recorded LAPACK answer, data).  The result type stays `res` (always Ok now). *)
From Coq Require Import List Arith Bool.
From TLV Require Import Base.Ops Base.PyList Base.Tensor Model.Nnls.
Import ListNotations.

Section E.
Context {F : Type} (Op : fops F).

Definition zeros_like (A : list (list F)) : list (list F) := mmap (fun _ => f0 Op) A.

Definition fista_default_lr (sigma rd : F) : F := fdiv Op (f1 Op) (fadd Op sigma (fmul Op (two Op) rd)).

Definition fista_call (UtM UtU : list (list F)) (n : nat) (nonneg : bool) (sp rd lr : option F) (sigma tol eps : F)
           (x0 : option (list (list F))) (betas : list F) : res (list (list F)) :=
  let spv := match sp with Some s => s | None => f0 Op end in
  let rdv := match rd with Some v => v | None => f0 Op end in
  let x := match x0 with Some x => x | None => zeros_like UtM end in
  let lrv := match lr with Some l => l | None => fista_default_lr sigma rdv end in
  Ok (fista Op UtM UtU n nonneg spv rdv lrv tol eps x betas).

(* the rule before /repo ae57725: ridge_coef = None raised TypeError *)
Definition fista_call_before_ae57725 (UtM UtU : list (list F)) (n : nat) (nonneg : bool) (sp rd lr : option F) (sigma tol eps : F)
           (x0 : option (list (list F))) (betas : list F) : res (list (list F)) :=
  match rd with None => Err | Some _ => fista_call UtM UtU n nonneg sp rd lr sigma tol eps x0 betas end.
End E.
