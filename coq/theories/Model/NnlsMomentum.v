(* The momentum sequence of tensorly/solvers/nnls.py `fista`, computed in the model (Model/Nnls.v `fista` takes the
   coefficients (momentum_old - 1) / momentum as a list):
       momentum_old = 1.0
       momentum = (1 + sqrt(1 + 4 * momentum_old**2)) / 2 ;  coefficient (momentum_old - 1) / momentum ;  momentum_old = momentum
   over a record of field operations and a square-root function (R: sqrt; Q: qsqrt below, the floor of the square root
   on the grid 2^-60, Proofs/NnlsProofsMomentum.v qsqrt_spec), and the whole call fista(..., n_iter_max) with it.
   Definitions only. *)
From Coq Require Import List ZArith QArith.
From TLV Require Import Base.Ops Base.PyList Base.Tensor Model.Nnls Model.NnlsEntry.
Import ListNotations.

Section Mo.
Context {F : Type} (Op : fops F) (sqrtf : F -> F).
Definition four : F := fadd Op (two Op) (two Op).
Definition momentum_next (mo : F) : F :=
  fdiv Op (fadd Op (f1 Op) (sqrtf (fadd Op (f1 Op) (fmul Op four (fmul Op mo mo))))) (two Op).
Fixpoint momentum_betas (mo : F) (K : nat) : list F :=
  match K with
  | O => []
  | S k => let m := momentum_next mo in fdiv Op (fsub Op mo (f1 Op)) m :: momentum_betas m k
  end.
Definition fista_betas (K : nat) : list F := momentum_betas (f1 Op) K.

(* fista(UtM, UtU, x, n_iter_max, non_negative, sparsity_coef, ridge_coef, lr, tol, epsilon): the entry point with its
   argument handling (Model/NnlsEntry.v) and its own momentum sequence; sigma = recorded leading singular value *)
Definition fista_full (UtM UtU : list (list F)) (n : nat) (nonneg : bool) (sp rd lr : option F) (sigma tol eps : F)
           (x0 : option (list (list F))) (n_iter_max : nat) : res (list (list F)) :=
  fista_call Op UtM UtU n nonneg sp rd lr sigma tol eps x0 (fista_betas n_iter_max).
End Mo.

(* floor(sqrt(q) * 2^60) / 2^60 for q >= 0 (0 for q < 0) *)
Definition qsqrt (q : Q) : Q :=
  Qred (Z.sqrt ((Qnum q * 4 ^ 60) / Zpos (Qden q)) # 2 ^ 60).
