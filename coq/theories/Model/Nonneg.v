(* C10 -- model of the non-negative decompositions of TensorLy (definitions only).

   tensorly/decomposition/_nn_cp.py      non_negative_parafac (multiplicative updates), non_negative_parafac_hals
   tensorly/decomposition/_tucker.py     non_negative_tucker (MU), non_negative_tucker_hals (HALS + FISTA | active set)
   tensorly/solvers/nnls.py              hals_nnls, fista, active_set_nnls
   tensorly/solvers/admm.py + _constrained_cp.py   constrained_parafac(non_negative=...)
   tensorly/decomposition/_parafac2.py   parafac2(nn_modes=...), _BroThesisLineSearch.line_step
   tensorly/cp_tensor.py cp_normalize, tensorly/tucker_tensor.py tucker_normalize, initialize_cp / initialize_tucker (abs)

   Everything is written once over an arbitrary carrier (Base/Ops.v): executed over Q (Qops), proved over R (Rops).
   Two layers:
   * concrete formulas: MTTKRP, Gram/Hadamard products, the MU entry formulas, the HALS row update and sweep, the FISTA
     step, the active-set final clip, cp_normalize / tucker_normalize (executed against the implementation);
   * the iteration skeletons of the six entry points, where everything that depends on the DATA TENSOR or on LAPACK
     (numerators, denominators, MTTKRPs, Gram matrices, solves, SVD projections, stopping tests, number of inner
     sweeps, line-search acceptance) is a function argument ("oracle") -- the sign theorems quantify over all of them.
     [cp_mu_num]/[cp_mu_den]/[cp_hals_utm]/[cp_hals_utu] below are the oracles of the real algorithm. *)
From Coq Require Import List Arith Bool.
From TLV Require Import Base.Shape Base.PyList Base.Tensor Base.Ops.
Import ListNotations.

Fixpoint map2 {A B C} (f : A -> B -> C) (a : list A) (b : list B) : list C :=
  match a, b with x :: a', y :: b' => f x y :: map2 f a' b' | _, _ => [] end.
Fixpoint map3 {A B C D} (f : A -> B -> C -> D) (a : list A) (b : list B) (c : list C) : list D :=
  match a, b, c with x :: a', y :: b', z :: c' => f x y z :: map3 f a' b' c' | _, _, _ => [] end.
Fixpoint iter_n {A} (n : nat) (f : A -> A) (a : A) : A := match n with O => a | S k => iter_n k f (f a) end.
(* `for it in range(n): a = f(it, a)` with the iteration index starting at k *)
Fixpoint iter_idx {A} (n k : nat) (f : nat -> A -> A) (a : A) : A := match n with O => a | S m => iter_idx m (S k) f (f k a) end.
Fixpoint mapi_from {A B} (k : nat) (f : nat -> A -> B) (l : list A) : list B :=
  match l with [] => [] | x :: r => f k x :: mapi_from (S k) f r end.
Definition map_first {A} (f : A -> A) (l : list A) : list A := match l with [] => [] | x :: r => f x :: r end.

(* `for it in range(n): s = body(it, s); if stop: [fin_break]; break;  [fin_cont]`   (stop is an oracle) *)
Fixpoint outer_loop {St} (n it : nat) (body : nat -> St -> St) (stop : nat -> St -> bool) (fin_break fin_cont : St -> St) (s : St) : St :=
  match n with
  | O => s
  | S n' => let s1 := body it s in
            if stop it s1 then fin_break s1 else outer_loop n' (S it) body stop fin_break fin_cont (fin_cont s1)
  end.

Section Model.
Context {F : Type} (Op : fops F).
Local Notation "x [+] y" := (fadd Op x y) (at level 50, left associativity).
Local Notation "x [-] y" := (fsub Op x y) (at level 50, left associativity).
Local Notation "x [*] y" := (fmul Op x y) (at level 40, left associativity).
Local Notation "x [/] y" := (fdiv Op x y) (at level 40, left associativity).
Local Notation zero := (f0 Op).
Local Notation one := (f1 Op).

Definition vec := list F.
Definition mat := list (list F).
Definition mmap (f : F -> F) (M : mat) : mat := map (map f) M.

(* ---------------------------------------------------------------- entry formulas *)
(* np.clip(x, a_min=eps, a_max=None) = maximum(x, eps) *)
Definition clip_min (eps x : F) : F := fmax Op eps x.
(* tl.where(x < eps, eps, x) *)
Definition where_lt (eps x : F) : F := if fltb Op x eps then eps else x.
(* tl.abs *)
Definition abs_mat (M : mat) : mat := mmap (fabs Op) M.
(* _nn_cp.py:  factor = factors[mode] * numerator / denominator   with both clipped at eps *)
Definition mu_entry (eps x n d : F) : F := (x [*] clip_min eps n) [/] clip_min eps d.
(* _tucker.py:  nn_factors[mode] *= numerator / denominator *)
Definition mu_entry_tk (eps x n d : F) : F := x [*] (clip_min eps n [/] clip_min eps d).
Definition mu_update (eps : F) (X N D : mat) : mat := map3 (map3 (mu_entry eps)) X N D.
Definition mu_update_tk (eps : F) (X N D : mat) : mat := map3 (map3 (mu_entry_tk eps)) X N D.

(* ---------------------------------------------------------------- small dense linear algebra *)
Definition dotv (a b : vec) : F := fsum Op (map2 (fmul Op) a b).
Definition col (j : nat) (M : mat) : vec := map (fun row => nth j row zero) M.
Definition ncols (M : mat) : nat := length (hd [] M).
Definition transp (M : mat) : mat := map (fun j => col j M) (seq 0 (ncols M)).
Definition matmul (A B : mat) : mat := map (fun row => map (fun j => dotv row (col j B)) (seq 0 (ncols B))) A.
Definition gram (R : nat) (A : mat) : mat :=
  map (fun r => map (fun s => dotv (col r A) (col s A)) (seq 0 R)) (seq 0 R).
Definition ones_mat (R : nat) : mat := repeat (repeat one R) R.
Definition had (A B : mat) : mat := map2 (map2 (fmul Op)) A B.
(* Hadamard product of the Gram matrices of all factors but `mode` *)
Definition gram_skip (R mode : nat) (Fs : list mat) : mat :=
  fold_left (fun acc kf => if Nat.eqb (fst kf) mode then acc else had acc (gram R (snd kf)))
            (combine (seq 0 (length Fs)) Fs) (ones_mat R).
(* reshape(w,(-1,1)) * G * reshape(w,(1,-1)) *)
Definition wscale (w : vec) (G : mat) : mat := map2 (fun wr row => map2 (fun ws g => (wr [*] g) [*] ws) w row) w G.
(* w_r * prod_{k <> mode} F_k[idx_k, r] : one entry of the weighted Khatri-Rao product *)
Definition kr_entry (w : vec) (Fs : list mat) (mode : nat) (idx : list nat) (r : nat) : F :=
  fold_left (fun acc kf => if Nat.eqb (fst kf) mode then acc
                           else acc [*] nth r (nth (nth (fst kf) idx 0) (snd kf) []) zero)
            (combine (seq 0 (length Fs)) Fs) (nth r w one).
(* unfolding_dot_khatri_rao(tensor, (weights, factors), mode) *)
Definition mttkrp (T : tensor F) (w : vec) (Fs : list mat) (mode : nat) : mat :=
  let s := shape T in
  map (fun i => map (fun r =>
         fsum Op (map (fun p => let idx := unravel s p in
                                if Nat.eqb (nth mode idx 0) i then nth p (data T) zero [*] kr_entry w Fs mode idx r else zero)
                      (seq 0 (prod s))))
       (seq 0 (length w))) (seq 0 (nth mode s 0)).

(* ---------------------------------------------------------------- normalisation *)
Section Norm.
Context (nrm : vec -> F).            (* tl.norm(column): sqrt of the sum of squares (over R: Proofs); a tape over Q *)
Definition nz (s : F) : F := if feqb Op s zero then one else s.          (* where(scales == 0, 1, scales) *)
Definition scales (R : nat) (M : mat) : vec := map (fun r => nrm (col r M)) (seq 0 R).
Definition div_cols (M : mat) (sc : vec) : mat := map (fun row => map2 (fun x s => x [/] nz s) row sc) M.
Definition mul_cols (M : mat) (w : vec) : mat := map (fun row => map2 (fmul Op) row w) M.

Definition cp_state := (vec * list mat)%type.
(* cp_normalize: factor 0 absorbs the weights, every factor is divided by its (non-zero) column norms,
   the weights become the product of the norms *)
Definition cp_normalize (st : cp_state) : cp_state :=
  let '(w, Fs) := st in
  let R := length w in
  let Fs1 := map_first (fun M => mul_cols M w) Fs in
  (fold_left (fun acc M => map2 (fmul Op) acc (scales R M)) Fs1 (repeat one R),
   map (fun M => div_cols M (scales R M)) Fs1).

Definition tk_state := (tensor F * list mat)%type.
(* core * reshape(scales, (1,..,-1,..,1)) along mode i *)
Definition scale_core (core : tensor F) (i : nat) (sc : vec) : tensor F :=
  mk (shape core) (map (fun p => nth p (data core) zero [*] nth (nth i (unravel (shape core) p) 0) sc zero)
                       (seq 0 (length (data core)))).
Definition tucker_normalize (st : tk_state) : tk_state :=
  let '(core, Fs) := st in
  (fold_left (fun c kf => scale_core c (fst kf) (scales (nth (fst kf) (shape core) 0) (snd kf)))
             (combine (seq 0 (length Fs)) Fs) core,
   map (fun kf => div_cols (snd kf) (scales (nth (fst kf) (shape core) 0) (snd kf))) (combine (seq 0 (length Fs)) Fs)).
End Norm.

(* ---------------------------------------------------------------- solvers/nnls.py *)
(* one row of hals_nnls:  if UtU[k,k]: V[k,:] = clip((UtM[k,:] - UtU[k,:]@V + UtU[k,k]*V[k,:] - sp) / (UtU[k,k] + 2*ridge), eps) *)
Definition hals_row (eps : F) (sp rg : option F) (UtM UtU V : mat) (k : nat) : mat :=
  let ukk := nth k (nth k UtU []) zero in
  if feqb Op ukk zero then V else
  let urow := nth k UtU [] in
  let vk := nth k V [] in
  let uv := map (fun j => dotv urow (col j V)) (seq 0 (length vk)) in
  let num := map3 (fun m x v => (m [-] x) [+] (ukk [*] v)) (nth k UtM []) uv vk in
  let num := match sp with None => num | Some s => map (fun x => x [-] s) num end in
  let den := match rg with None => ukk | Some r => ukk [+] ((one [+] one) [*] r) end in
  set_nth k (map (fun x => clip_min eps (x [/] den)) num) V.
Definition hals_sweep (eps : F) (sp rg : option F) (UtM UtU : mat) (V : mat) : mat :=
  fold_left (hals_row eps sp rg UtM UtU) (seq 0 (length UtM)) V.
(* n = number of sweeps actually executed (the early stop `rec_error < tol*rec_error0` is data dependent) *)
Definition hals_nnls (eps : F) (sp rg : option F) (UtM UtU V : mat) (n : nat) : mat :=
  iter_n n (hals_sweep eps sp rg UtM UtU) V.

(* the early stop of hals_nnls.  `rec_error += tl.norm(V - newV) ** 2`: V is r x n and newV has length n, NumPy broadcasts the
   new row against EVERY row of V (as written in the code); rows with a zero diagonal entry contribute nothing *)
Definition sqdist (a b : vec) : F := fsum Op (map2 (fun x y => (x [-] y) [*] (x [-] y)) a b).
Definition hals_row_err (eps : F) (sp rg : option F) (UtM UtU : mat) (Ve : mat * F) (k : nat) : mat * F :=
  let '(V, e) := Ve in
  let V' := hals_row eps sp rg UtM UtU V k in
  (V', if feqb Op (nth k (nth k UtU []) zero) zero then e
       else e [+] fsum Op (map (fun row => sqdist row (nth k V' [])) V)).
Definition hals_sweep_err (eps : F) (sp rg : option F) (UtM UtU V : mat) : mat * F :=
  fold_left (hals_row_err eps sp rg UtM UtU) (seq 0 (length UtM)) (V, zero).
(* for iteration in range(n_iter_max): sweep; if iteration == 0: rec_error0 = rec_error; if rec_error < tol * rec_error0: break
   -> the number of sweeps executed *)
Fixpoint hals_count_from (eps : F) (sp rg : option F) (UtM UtU : mat) (tol : F) (fuel it : nat) (e0 : F) (V : mat) : nat :=
  match fuel with
  | O => it
  | S f => let '(V', e) := hals_sweep_err eps sp rg UtM UtU V in
           let e0' := if Nat.eqb it 0 then e else e0 in
           if fltb Op e (tol [*] e0') then S it else hals_count_from eps sp rg UtM UtU tol f (S it) e0' V'
  end.
Definition hals_count (eps : F) (sp rg : option F) (UtM UtU V : mat) (n_iter_max : nat) (tol : F) : nat :=
  hals_count_from eps sp rg UtM UtU tol n_iter_max 0 zero V.
(* hals_nnls(UtM, UtU, V, n_iter_max, tol, ...) with its own stopping rule *)
Definition hals_nnls_auto (eps : F) (sp rg : option F) (UtM UtU V : mat) (n_iter_max : nat) (tol : F) : mat :=
  hals_nnls eps sp rg UtM UtU V (hals_count eps sp rg UtM UtU V n_iter_max tol).

(* fista: one iteration; state (x, x_update); beta = (momentum_old - 1)/momentum (data independent, irrational: a tape);
   lin = the linear part of the gradient (tl.dot(UtU, .) or multi_mode_dot(., UtU)) *)
Definition fista_step (eps lr sp rg : F) (nonneg : bool) (lin : vec -> vec) (UtM : vec) (st : vec * vec) (beta : F) : vec * vec :=
  let '(x, xu) := st in
  let g := map3 (fun m l u => ((fopp Op m [+] l) [+] sp) [+] (((one [+] one) [*] rg) [*] u)) UtM (lin xu) xu in
  let xn := map2 (fun u gi => u [-] (lr [*] gi)) xu g in
  let xn := if nonneg then map (where_lt eps) xn else xn in
  (xn, map2 (fun a b => a [+] (beta [*] (a [-] b))) xn x).
Definition fista (eps lr sp rg : F) (nonneg : bool) (lin : vec -> vec) (UtM : vec) (x : vec) (betas : list F) : vec :=
  fst (fold_left (fista_step eps lr sp rg nonneg lin UtM) betas (x, x)).
Definition matvec (A : mat) (v : vec) : vec := map (fun row => dotv row v) A.

(* active_set_nnls: every executed iteration ends with  x_vec = clip(support_vec, a_min=0);
   support it x = the support vector the passive-set solves (LAPACK) and the inner feasibility loop leave at iteration `it`
   (it depends on the whole history - passive set, gradient - which for a given run is a function of `it`: any function),
   n = executed iterations *)
Definition active_set (support : nat -> vec -> vec) (x : vec) (n : nat) : vec :=
  iter_idx n 0 (fun it x => map (clip_min zero) (support it x)) x.

(* ---------------------------------------------------------------- active_set_nnls, statement by statement
   (control flow transcribed as in Model/Nnls.v of C13; here it carries the sign theorem and the executed correspondence of the
   Tucker core path).  `solve A b` = tl.solve on the passive block, None when LAPACK raises (the code's `except:` path).
   Boolean masks are lists of bool.  Result None = a Python exception escapes (min of an empty selection, LAPACK error outside the try). *)
Section ActiveSetDetail.
Variable solve : mat -> vec -> option vec.
Variables (Utm : vec) (UtU : mat) (tol : F).
Fixpoint select {A} (mask : list bool) (l : list A) : list A :=
  match mask, l with true :: m', x :: l' => x :: select m' l' | false :: m', _ :: l' => select m' l' | _, _ => [] end.
Definition sub_block (mask : list bool) : mat := map (select mask) (select mask UtU).
(* support_vec[i] = passive_solution[#passive before i] on the passive set, 0 elsewhere *)
Fixpoint scatter (mask : list bool) (ps : vec) : vec :=
  match mask with
  | [] => []
  | true :: m' => match ps with p :: ps' => p :: scatter m' ps' | [] => zero :: scatter m' [] end
  | false :: m' => zero :: scatter m' ps
  end.
Definition as_gradient (x : vec) : vec := map2 (fsub Op) Utm (matvec UtU x).
Fixpoint argmax_from (best : F) (bi i : nat) (l : vec) : nat :=
  match l with [] => bi | y :: l' => if fltb Op best y then argmax_from y i (S i) l' else argmax_from best bi (S i) l' end.
Definition argmax (l : vec) : nat := match l with [] => 0 | y :: l' => argmax_from y 0 1 l' end.
Definition vmin' (l : vec) : option F := match l with [] => None | y :: l' => Some (fold_left (fmin Op) l' y) end.
Definition posmask (x : vec) : list bool := map (fun v => fltb Op zero v) x.
Definition anyb (m : list bool) : bool := existsb (fun b => b) m.
Definition negmask (m : list bool) : list bool := map negb m.
Definition solve_scatter (passive : list bool) : option vec :=
  match solve (sub_block passive) (select passive Utm) with Some ps => Some (scatter passive ps) | None => None end.
(* the `for i in range(len(passive_set))` loop:  blocking = passive & (support <= 0); ratio = x / (x - s) on it; alpha = min ratio;
   x = x + alpha (s - x); the coordinates attaining alpha are put exactly on the bound; passive = x > 0; re-solve; stop when the
   passive block is empty or strictly positive *)
Definition as_ratio (a b : F) : F := a [/] (a [-] b).
Definition as_blocking (passive : list bool) (s : vec) : list bool :=
  map (fun pb => fst pb && fleb Op (snd pb) zero) (combine passive s).
Definition as_step (alpha : F) (passive : list bool) (x s : vec) : vec :=
  map3 (fun (p : bool) a b => if p && fleb Op b zero && fleb Op (as_ratio a b) alpha then zero else a [+] (alpha [*] (b [-] a))) passive x s.
Fixpoint as_inner (fuel : nat) (x s : vec) (passive : list bool) : option (vec * vec * list bool) :=
  match fuel with
  | O => Some (x, s, passive)
  | S f =>
    match vmin' (select (as_blocking passive s) (map2 as_ratio x s)) with
    | None => None
    | Some alpha =>
      let x' := as_step alpha passive x s in
      let passive' := posmask x' in
      match solve_scatter passive' with
      | None => None
      | Some s' =>
        if negb (anyb passive') then Some (x', s', passive')
        else match vmin' (select passive' s') with
             | Some mn => if fltb Op zero mn then Some (x', s', passive') else as_inner f x' s' passive'
             | None => Some (x', s', passive')
             end
      end
    end
  end.
(* one iteration of the outer loop up to (excluding) `x_vec = clip(support_vec, a_min=0)`: the support vector and the two masks *)
Definition as_body (iter0 : bool) (x g : vec) (passive active : list bool) : option (vec * list bool * list bool) :=
  let add_idx := negb iter0 || forallb (fun v => feqb Op v zero) x in
  let passive1 := if add_idx then set_nth (argmax g) true passive else passive in
  let active1 := if add_idx then set_nth (argmax g) false active else active in
  let attempt :=
    match solve_scatter passive1 with
    | Some s => Some (x, s, passive1, active1)
    | None =>
      let x0 := map (fun _ => zero) x in
      let p0 := posmask x0 in let a0 := negmask p0 in
      let p1 := if anyb a0 then set_nth (argmax g) true p0 else p0 in
      let a1 := if anyb a0 then set_nth (argmax g) false a0 else a0 in
      match solve_scatter p1 with Some s => Some (x0, s, p1, a1) | None => None end
    end in
  match attempt with
  | None => None
  | Some (x1, s1, p1, a1) =>
    match vmin' (select p1 s1) with
    | None => None
    | Some mn =>
      if fleb Op mn zero then
        match as_inner (length p1) x1 s1 p1 with
        | Some (x2, s2, p2) => Some (s2, p2, negmask p2)
        | None => None end
      else Some (s1, p1, a1)
    end
  end.
(* `if tl.any(active_set) != True or tl.max(x_gradient[active_set]) <= tol: break` *)
Definition as_done (active : list bool) (g : vec) : bool :=
  negb (anyb active) ||
  match vmin' (map (fopp Op) (select active g)) with Some nm => fleb Op (fopp Op nm) tol | None => true end.
Fixpoint as_loop (fuel : nat) (iter0 : bool) (x g : vec) (passive active : list bool) : option vec :=
  match fuel with
  | O => Some x
  | S f =>
    match as_body iter0 x g passive active with
    | None => None
    | Some (s2, p2, a2) =>
      let x3 := map (clip_min zero) s2 in
      let g3 := as_gradient x3 in
      if as_done a2 g3 then Some x3 else as_loop f false x3 g3 p2 a2
    end
  end.
(* active_set_nnls(Utm, UtU, x=x0, n_iter_max) *)
Definition active_set_nnls (x0 : vec) (n_iter_max : nat) : option vec :=
  as_loop n_iter_max true x0 (as_gradient x0) (posmask x0) (negmask (posmask x0)).
End ActiveSetDetail.

(* ---------------------------------------------------------------- non_negative_parafac (MU) *)
Section Skeletons.
Context (nrm : vec -> F).

Definition cp_mu_mode (eps : F) (numf denf : cp_state -> nat -> mat) (normalize : bool) (lastmode : nat)
           (st : cp_state) (mode : nat) : cp_state :=
  let '(w, Fs) := st in
  let Fs' := set_nth mode (mu_update eps (nth mode Fs []) (numf st mode) (denf st mode)) Fs in
  if normalize && negb (Nat.eqb mode lastmode) then cp_normalize nrm (w, Fs') else (w, Fs').
Definition cp_mu_sweep eps numf denf normalize (modes : list nat) (st : cp_state) : cp_state :=
  fold_left (cp_mu_mode eps numf denf normalize (last modes 0)) modes st.
Definition cp_fin (normalize : bool) (st : cp_state) : cp_state := if normalize then cp_normalize nrm st else st.
(* modes = the modes that are not fixed; init = initialize_cp(non_negative=True) *)
Definition non_negative_parafac (eps : F) (numf denf : nat -> cp_state -> nat -> mat) (stop : nat -> cp_state -> bool)
           (normalize : bool) (modes : list nat) (n_iter_max : nat) (init : cp_state) : cp_state :=
  outer_loop n_iter_max 0 (fun it => cp_mu_sweep eps (numf it) (denf it) normalize modes) stop
             (cp_fin normalize) (cp_fin normalize) init.
(* the oracles of the real algorithm (no mask) *)
Definition cp_mu_num (T : tensor F) (st : cp_state) (mode : nat) : mat := mttkrp T (fst st) (snd st) mode.
Definition cp_mu_den (st : cp_state) (mode : nat) : mat :=
  matmul (nth mode (snd st) []) (wscale (fst st) (gram_skip (length (fst st)) mode (snd st))).

(* ---------------------------------------------------------------- non_negative_parafac_hals *)
(* utm/utu: transpose(mttkrp) and the weighted Hadamard-Gram matrix; solve: tl.solve for unconstrained modes;
   inner: number of executed HALS sweeps of this call *)
Definition cp_hals_mode (utm utu : cp_state -> nat -> mat) (solve : mat -> mat -> mat) (inner : cp_state -> nat -> nat)
           (nn : list nat) (sps : list (option F)) (normalize : bool) (lastmode : nat) (st : cp_state) (mode : nat) : cp_state :=
  let '(w, Fs) := st in
  let newf := if memb mode nn
              then transp (hals_nnls zero (nth mode sps None) None (utm st mode) (utu st mode)
                                     (transp (nth mode Fs [])) (inner st mode))
              else transp (solve (transp (utu st mode)) (utm st mode)) in
  let Fs' := set_nth mode newf Fs in
  if normalize && negb (Nat.eqb mode lastmode) then cp_normalize nrm (w, Fs') else (w, Fs').
(* `if not modes: return the initialisation` (every mode fixed) *)
Definition non_negative_parafac_hals (utm utu : nat -> cp_state -> nat -> mat) (solve : mat -> mat -> mat)
           (inner : nat -> cp_state -> nat -> nat) (stop : nat -> cp_state -> bool)
           (nn : list nat) (sps : list (option F)) (normalize : bool) (modes : list nat) (n_iter_max : nat) (init : cp_state) : cp_state :=
  match modes with
  | [] => init
  | _ => outer_loop n_iter_max 0
           (fun it st => fold_left (cp_hals_mode (utm it) (utu it) solve (inner it) nn sps normalize (last modes 0)) modes st)
           stop (cp_fin normalize) (cp_fin normalize) init
  end.
Definition cp_hals_utm (T : tensor F) (st : cp_state) (mode : nat) : mat := transp (mttkrp T (fst st) (snd st) mode).
Definition cp_hals_utu (st : cp_state) (mode : nat) : mat := wscale (fst st) (gram_skip (length (fst st)) mode (snd st)).

(* non_negative_parafac_hals with a user (weights, factors) (after 3d55b5c): when the LAST mode is fixed the weights are pulled into the
   last updated mode instead of the last factor (no updated mode: initialize_cp's last factor); then optional normalisation *)
Definition absorb_at (k : nat) (w : vec) (Fs : list mat) : list mat := set_nth k (mul_cols (nth k Fs []) w) Fs.
Definition initialize_cp_user_hals (w : vec) (Fs : list mat) (modes : list nat) (normalize : bool) : cp_state :=
  let lastm := length Fs - 1 in
  let k := if memb lastm modes then lastm else last modes lastm in
  cp_fin normalize (repeat one (length w), absorb_at k w Fs).

(* the number of inner sweeps of the real algorithm: hals_nnls(..., n_iter_max=100, tol=tol) (tol = 1e-8 unless exact) *)
Definition cp_hals_inner (T : tensor F) (sps : list (option F)) (tol : F) (st : cp_state) (mode : nat) : nat :=
  hals_count zero (nth mode sps None) None (cp_hals_utm T st mode) (cp_hals_utu st mode) (transp (nth mode (snd st) [])) 100 tol.

(* initialize_cp: 'svd'/'random' -> abs of every factor (then optionally cp_normalize); weights = ones *)
Definition initialize_cp_nn (R : nat) (raw : list mat) (normalize : bool) : cp_state :=
  cp_fin normalize (repeat one R, map abs_mat raw).
(* user (weights, factors): the weights are multiplied into the last factor, no abs *)
Definition initialize_cp_user (w : vec) (Fs : list mat) : cp_state :=
  (repeat one (length w), match rev Fs with [] => [] | L :: r => rev r ++ [mul_cols L w] end).
(* initialize_cp with a user (weights, factors) as called by the decompositions: optionally normalised afterwards *)
Definition initialize_cp_user_norm (w : vec) (Fs : list mat) (normalize : bool) : cp_state :=
  cp_fin normalize (initialize_cp_user w Fs).
(* initialize_cp(init='svd', non_negative=True): mode 0 is scaled by the singular values, then abs, then optional normalisation *)
Definition initialize_cp_nn_svd (R : nat) (Us : list mat) (S0 : vec) (normalize : bool) : cp_state :=
  initialize_cp_nn R (map_first (fun U => mul_cols U S0) Us) normalize.


(* ---------------------------------------------------------------- non_negative_tucker (MU) *)
Definition tk_mu_mode (eps : F) (numf denf : tk_state -> nat -> mat) (st : tk_state) (mode : nat) : tk_state :=
  let '(core, Fs) := st in
  (core, set_nth mode (mu_update_tk eps (nth mode Fs []) (numf st mode) (denf st mode)) Fs).
Definition tk_mu_core (eps : F) (numc denc : tk_state -> vec) (st : tk_state) : tk_state :=
  let '(core, Fs) := st in
  (mk (shape core) (map3 (mu_entry_tk eps) (data core) (numc st) (denc st)), Fs).
Definition tk_fin (normalize : bool) (st : tk_state) : tk_state := if normalize then tucker_normalize nrm st else st.
(* normalize_factors: the start is normalised, every sweep ends with a normalisation, also on the convergence exit *)
Definition non_negative_tucker (eps : F) (numf denf : nat -> tk_state -> nat -> mat) (numc denc : nat -> tk_state -> vec)
           (stop : nat -> tk_state -> bool) (normalize : bool) (n_modes n_iter_max : nat) (init : tk_state) : tk_state :=
  outer_loop n_iter_max 0
    (fun it st => tk_mu_core eps (numc it) (denc it) (fold_left (tk_mu_mode eps (numf it) (denf it)) (seq 0 n_modes) st))
    stop (tk_fin normalize) (tk_fin normalize) (tk_fin normalize init).
(* the oracles of the real algorithm, index level.
   prod_k M_k[idx_k, c_k] over the modes k (but `skip`) *)
Definition tk_kron_entry (Ms : list mat) (skip : option nat) (idx c : list nat) : F :=
  fold_left (fun acc kf =>
               let e := nth (nth (fst kf) c 0) (nth (nth (fst kf) idx 0) (snd kf) []) zero in
               match skip with Some m => if Nat.eqb (fst kf) m then acc else acc [*] e | None => acc [*] e end)
            (combine (seq 0 (length Ms)) Ms) one.
(* B = transpose(unfold(tucker_to_tensor((core, factors), skip_factor=mode), mode)):
   B[(idx without mode), r] = sum_{c, c_mode = r} core[c] * prod_{k <> mode} F_k[idx_k, c_k] *)
Definition tk_B_entry (core : tensor F) (Fs : list mat) (mode : nat) (idx : list nat) (r : nat) : F :=
  fsum Op (map (fun p => let c := unravel (shape core) p in
                         if Nat.eqb (nth mode c 0) r then nth p (data core) zero [*] tk_kron_entry Fs (Some mode) idx c else zero)
               (seq 0 (prod (shape core)))).
(* the rows of B, computed once: one per index tuple of the other modes (the full index with idx_mode = 0) *)
Definition tk_B_rows (core : tensor F) (Fs : list mat) (mode : nat) : list (list nat * vec) :=
  let sh := map (@length (list F)) Fs in
  let R := nth mode (shape core) 0 in
  flat_map (fun p => let idx := unravel sh p in
                     if Nat.eqb (nth mode idx 0) 0 then [(idx, map (tk_B_entry core Fs mode idx) (seq 0 R))] else [])
           (seq 0 (prod sh)).
(* numerator = dot(unfold(tensor, mode), B) *)
Definition tk_mu_num (T : tensor F) (st : tk_state) (mode : nat) : mat :=
  let '(core, Fs) := st in
  let rows := tk_B_rows core Fs mode in
  map (fun i => fold_left (fun acc ib =>
                             let t := nth (ravel (shape T) (set_nth mode i (fst ib))) (data T) zero in
                             map2 (fun a b => a [+] (t [*] b)) acc (snd ib))
                          rows (repeat zero (nth mode (shape core) 0)))
      (seq 0 (nth mode (shape T) 0)).
(* dot(transpose(B), B) *)
Definition tk_BtB (st : tk_state) (mode : nat) : mat :=
  let '(core, Fs) := st in
  let rows := tk_B_rows core Fs mode in
  let R := nth mode (shape core) 0 in
  map (fun r => map (fun s => fsum Op (map (fun ib => nth r (snd ib) zero [*] nth s (snd ib) zero) rows)) (seq 0 R)) (seq 0 R).
(* denominator = dot(nn_factors[mode], dot(transpose(B), B)) *)
Definition tk_mu_den (st : tk_state) (mode : nat) : mat := matmul (nth mode (snd st) []) (tk_BtB st mode).
(* core numerator = tucker_to_tensor((tensor, factors), transpose_factors=True) *)
Definition tk_mu_numc (T : tensor F) (st : tk_state) : vec :=
  let '(core, Fs) := st in
  map (fun q => let c := unravel (shape core) q in
                fsum Op (map (fun p => nth p (data T) zero [*] tk_kron_entry Fs None (unravel (shape T) p) c) (seq 0 (prod (shape T)))))
      (seq 0 (prod (shape core))).
(* core denominator = core x_0 F_0^T F_0 x_1 ... x_{N-1} F_{N-1}^T F_{N-1} *)
Definition tk_mu_denc (st : tk_state) : vec :=
  let '(core, Fs) := st in
  let Gs := map (fun M => gram (ncols M) M) Fs in
  map (fun q => let c := unravel (shape core) q in
                fsum Op (map (fun p => nth p (data core) zero [*] tk_kron_entry Gs None c (unravel (shape core) p)) (seq 0 (prod (shape core)))))
      (seq 0 (prod (shape core))).
(* non_negative_tucker_hals: UtM = transpose(unfold(tensor_cross, mode) . unfold(core, mode)^T) and
   UtU = unfold(core_cross, mode) . unfold(core, mode)^T are the same contractions as the MU numerator (transposed) and B^T B *)
Definition tk_hals_utm (T : tensor F) (st : tk_state) (mode : nat) : mat := transp (tk_mu_num T st mode).
Definition tk_hals_utu (st : tk_state) (mode : nat) : mat := tk_BtB st mode.
Definition tk_hals_inner (T : tensor F) (sps : list (option F)) (tol : F) (st : tk_state) (mode : nat) : nat :=
  hals_count zero (nth mode sps None) None (tk_hals_utm T st mode) (tk_hals_utu st mode) (transp (nth mode (snd st) [])) 100 tol.
(* the linear part of the FISTA gradient of the core: multi_mode_dot(x, [F_k^T F_k]) on the flattened core *)
Definition tk_core_lin (st : tk_state) (x : vec) : vec := tk_mu_denc (mk (shape (fst st)) x, snd st).
(* initialize_tucker(non_negative=True): abs of every factor and of the core *)
Definition initialize_tucker_nn (core : tensor F) (raw : list mat) : tk_state :=
  (mk (shape core) (map (fabs Op) (data core)), map abs_mat raw).

(* ---------------------------------------------------------------- non_negative_tucker_hals *)
Inductive core_alg := Fista | ActiveSet.
Definition tk_hals_mode (utm utu : tk_state -> nat -> mat) (inner : tk_state -> nat -> nat) (sps : list (option F))
           (st : tk_state) (mode : nat) : tk_state :=
  let '(core, Fs) := st in
  (core, set_nth mode (transp (hals_nnls zero (nth mode sps None) None (utm st mode) (utu st mode)
                                         (transp (nth mode Fs [])) (inner st mode))) Fs).
(* fista: lr, the linear map and UtM depend on the state (oracles), betas = one momentum coefficient per executed
   iteration; active set: the support oracle and the number of executed iterations *)
Definition tk_hals_core (alg : core_alg) (feps : F) (lr : tk_state -> F) (csp : F) (lin : tk_state -> vec -> vec)
           (cutm : tk_state -> vec) (betas : tk_state -> list F) (support : tk_state -> nat -> vec -> vec) (as_n : tk_state -> nat)
           (st : tk_state) : tk_state :=
  let '(core, Fs) := st in
  match alg with
  | Fista => (mk (shape core) (fista feps (lr st) csp zero true (lin st) (cutm st) (data core) (betas st)), Fs)
  | ActiveSet => (mk (shape core) (active_set (support st) (data core) (as_n st)), Fs)
  end.
Definition non_negative_tucker_hals (alg : core_alg) (feps : F)
           (utm utu : nat -> tk_state -> nat -> mat) (inner : nat -> tk_state -> nat -> nat) (sps : list (option F))
           (lr : nat -> tk_state -> F) (csp : F) (lin : nat -> tk_state -> vec -> vec) (cutm : nat -> tk_state -> vec)
           (betas : nat -> tk_state -> list F) (support : nat -> tk_state -> nat -> vec -> vec) (as_n : nat -> tk_state -> nat)
           (stop : nat -> tk_state -> bool) (normalize : bool) (modes : list nat) (n_iter_max : nat) (init : tk_state) : tk_state :=
  outer_loop n_iter_max 0
    (fun it st => tk_hals_core alg feps (lr it) csp (lin it) (cutm it) (betas it) (support it) (as_n it)
                    (fold_left (tk_hals_mode (utm it) (utu it) (inner it) sps) modes st))
    stop (tk_fin normalize) (tk_fin normalize) (tk_fin normalize init).

(* ---------------------------------------------------------------- constrained_parafac(non_negative={modes}) *)
(* admm: x_split = solve(...) (oracle `split`), x = prox(x_split^T - dual); prox = clip(., a_min=0) on the declared modes,
   any other operator elsewhere; n = executed inner iterations; returns x (the prox output) *)
Definition prox_nn (declared : bool) (other : mat -> mat) (M : mat) : mat :=
  if declared then mmap (clip_min zero) M else other M.
Definition admm (declared : bool) (other : mat -> mat) (split : mat -> mat -> mat) (x dual : mat) (n : nat) : mat * mat :=
  iter_n n (fun xd => let '(x, dual) := xd in
                      let xs := split x dual in
                      let x' := prox_nn declared other (map2 (map2 (fsub Op)) xs dual) in
                      (x', map2 (map2 (fsub Op)) (map2 (map2 (fadd Op)) dual x') xs)) (x, dual).
Definition ccp_state := (list mat * list mat)%type.      (* factors, dual variables *)
Definition ccp_mode (nn : list nat) (other : nat -> mat -> mat) (split : ccp_state -> nat -> mat -> mat -> mat)
           (inner : ccp_state -> nat -> nat) (st : ccp_state) (mode : nat) : ccp_state :=
  let '(Fs, Ds) := st in
  let '(x, d) := admm (memb mode nn) (other mode) (split st mode) (nth mode Fs []) (nth mode Ds []) (inner st mode) in
  (set_nth mode x Fs, set_nth mode d Ds).
Definition constrained_parafac (nn : list nat) (other : nat -> mat -> mat)
           (split : nat -> ccp_state -> nat -> mat -> mat -> mat) (inner : nat -> ccp_state -> nat -> nat)
           (stop : nat -> ccp_state -> bool) (modes : list nat) (n_iter_max : nat) (init : ccp_state) : ccp_state :=
  outer_loop n_iter_max 0 (fun it st => fold_left (ccp_mode nn other (split it) (inner it)) modes st)
             stop (fun st => st) (fun st => st) init.
(* the real ADMM split step (solve = tl.solve with a matrix right-hand side, LAPACK: an argument):
   rho = trace(UtU) / rank; x_split = solve((UtU + rho I)^T, (UtM + rho (x + dual))^T); the skeleton uses x_split^T *)
Definition admm_split (solve : mat -> mat -> mat) (UtM UtU x dual : mat) : mat :=
  let R := length UtU in
  let rho := fsum Op (map (fun k => nth k (nth k UtU []) zero) (seq 0 R)) [/] nat2F Op R in
  let A := map (fun r => map (fun c => nth c (nth r UtU []) zero [+] (if Nat.eqb r c then rho else zero)) (seq 0 R)) (seq 0 R) in
  let B := map3 (fun um xr dr => map3 (fun u a d => u [+] (rho [*] (a [+] d))) um xr dr) UtM x dual in
  transp (solve (transp A) (transp B)).
(* constrained_parafac: mttkrp = unfolding_dot_khatri_rao(tensor, (None, factors), mode), pseudo_inverse = Hadamard of the other Grams *)
Definition ccp_split (solve : mat -> mat -> mat) (T : tensor F) (R : nat) (st : ccp_state) (mode : nat) (x dual : mat) : mat :=
  admm_split solve (mttkrp T (repeat one R) (fst st) mode) (gram_skip R mode (fst st)) x dual.
(* initialize_constrained_parafac ('svd'/'random'): the prox of every raw factor *)
Definition initialize_ccp (nn : list nat) (other : nat -> mat -> mat) (raw : list mat) : list mat :=
  mapi_from 0 (fun k M => prox_nn (memb k nn) (other k) M) raw.

(* ---------------------------------------------------------------- parafac2(nn_modes=...) *)
(* line_step: factors_ls = last + (cur - last)*jump, clipped at 0 on every declared mode (nn_modes='all' = [0;1;2]) *)
Definition line_entry (nn : list nat) (jump : F) (k : nat) (L C : mat) : mat :=
  let E := map2 (map2 (fun l c => l [+] ((c [-] l) [*] jump))) L C in
  if memb k nn then mmap (clip_min zero) E else E.
Fixpoint line_step_from (k : nat) (nn : list nat) (jump : F) (last cur : list mat) : list mat :=
  match last, cur with
  | L :: last', C :: cur' => line_entry nn jump k L C :: line_step_from (S k) nn jump last' cur'
  | _, _ => []
  end.
Definition line_step := line_step_from 0.
(* one outer iteration: weights into factor 1, HALS CP on the projected tensor (n_iter_parafac sweeps, user init
   -> no abs), optional line search (jump and acceptance are oracles), optional cp_normalize *)
Definition parafac2_iter (utm utu : nat -> nat -> cp_state -> nat -> mat) (solve : mat -> mat -> mat)
           (inner : nat -> nat -> cp_state -> nat -> nat) (istop : nat -> nat -> cp_state -> bool)
           (nn : list nat) (n_iter_parafac : nat)
           (line : nat -> option F) (accept : nat -> cp_state -> bool) (normalize : bool)
           (it : nat) (st : cp_state) : cp_state :=
  let '(w, Fs) := st in
  let Fs0 := set_nth 1 (mul_cols (nth 1 Fs []) w) Fs in
  let w0 := repeat one (length w) in
  let '(_, Fs1) := non_negative_parafac_hals (utm it) (utu it) solve (inner it) (istop it) nn
                     (repeat None 3) false [0; 1; 2] n_iter_parafac (initialize_cp_user w0 Fs0) in
  let Fs2 := match line it with
             | Some jump => if accept it (w0, Fs1) then line_step nn jump Fs0 Fs1 else Fs1
             | None => Fs1 end in
  if normalize then cp_normalize nrm (w0, Fs2) else (w0, Fs2).
(* normalize_factors: the start is normalised (returned as is when no iteration runs) *)
Definition parafac2 utm utu solve inner istop nn n_iter_parafac line accept normalize
           (stop : nat -> cp_state -> bool) (n_iter_max : nat) (init : cp_state) : cp_state :=
  outer_loop n_iter_max 0 (parafac2_iter utm utu solve inner istop nn n_iter_parafac line accept normalize)
             stop (fun st => st) (fun st => st) (cp_fin normalize init).
(* the built-in initialisations ('random', 'svd') with nn_modes: the raw factors (A, B, C) are projected on the declared modes *)
Definition initialize_parafac2_nn (nn : list nat) (raw : list mat) : list mat :=
  mapi_from 0 (fun k M => if memb k nn then mmap (clip_min zero) M else M) raw.
End Skeletons.
End Model.
