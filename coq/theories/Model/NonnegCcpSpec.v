(* C10 -- the RAW `non_negative` argument of constrained_parafac (definitions only).

   tenalg/proximal.py validate_constraints / registrer_constraint: a constraint argument that is falsy (None, False, {}, []) registers nothing; a DICTIONARY
   registers every KEY (`constraints[key] = 'non_negative'`, whatever the value stored under it; a negative key indexes from the end, Python list indexing);
   a LIST registers its truthy positions; any other truthy value (True) registers every mode.  proximal_operator / admm then clip exactly the registered
   modes (`if constraint == 'non_negative': return tl.clip(tensor, 0)`).  _constrained_cp.py constrained_parafac: fixed_modes None -> [], the last mode is
   removed from fixed_modes (as non_negative_parafac does: Model/NonnegOptions.v unfix_last). *)
From Coq Require Import List Arith Bool ZArith.
From TLV Require Import Base.Shape Base.PyList Base.Tensor Base.Ops Model.Nonneg Model.NonnegOptions.
Import ListNotations.

Inductive nn_spec := NSNone | NSBool (b : bool) | NSList (l : list bool) | NSDict (l : list (Z * bool)).
(* constraints[key] for -n <= key < n *)
Definition py_index (n : nat) (k : Z) : nat := Z.to_nat (k mod Z.of_nat n).
(* the modes whose constraint is 'non_negative' after validate_constraints: these are clipped *)
Definition registered (n : nat) (s : nn_spec) : list nat :=
  match s with
  | NSNone => []
  | NSBool b => if b then seq 0 n else []
  | NSList l => filter (fun m => nth m l false) (seq 0 n)
  | NSDict l => map (fun kv => py_index n (fst kv)) l
  end.
(* the modes the caller DECLARES non-negative: True -> all, the truthy positions of a list, the keys of a dictionary stored with a truthy value *)
Definition declared (n : nat) (s : nn_spec) : list nat :=
  match s with
  | NSDict l => map (fun kv => py_index n (fst kv)) (filter (fun kv => snd kv) l)
  | _ => registered n s
  end.

Section Entry.
Context {F : Type} (Op : fops F).
(* constrained_parafac(tensor, rank, init=(weights, Fs), non_negative=spec, fixed_modes=fixed, ...) on an order-n tensor: a user initialisation has its
   weights pulled into the LAST factor (initialize_constrained_parafac: `factors[-1] = factors[-1] * weights`), the dual variables start at zero *)
Definition ccp_user_init (w : list F) (Fs : list (list (list F))) : list (list (list F)) :=
  match rev Fs with [] => [] | L :: r => rev r ++ [mul_cols Op L w] end.
Definition constrained_parafac_entry (other : nat -> list (list F) -> list (list F))
           (split : nat -> @ccp_state F -> nat -> list (list F) -> list (list F) -> list (list F)) (inner : nat -> @ccp_state F -> nat -> nat)
           (stop : nat -> @ccp_state F -> bool) (n : nat) (spec : nn_spec) (fixed : option (list nat)) (n_iter_max : nat)
           (w : list F) (Fs : list (list (list F))) : @ccp_state F :=
  let Fs0 := ccp_user_init w Fs in
  constrained_parafac Op (registered n spec) other split inner stop (modes_of n (unfix_last n (parse_fixed fixed))) n_iter_max
                      (Fs0, map (fun M => map (map (fun _ => f0 Op)) M) Fs0).
End Entry.
