(* C10 -- a FLOW-SENSITIVE sign analysis over structured commands (definitions only).  Same expression language and bag-of-entries
   semantics as Model/NonnegSign.v, but the body is kept structured: sequence, nondeterministic choice (if / try), loops with
   break, blocks with early exit (inlined callees), return.  Assignments are strong updates; in-place updates are weak.
   Used for the bodies whose sign argument depends on the order of statements: active_set_nnls, the initialisers, parafac2. *)
From Coq Require Import List Arith Bool Reals.
From TLV Require Import Base.Shape Base.PyList Base.Tensor Base.Ops Model.Nonneg Model.NonnegSign.
Import ListNotations.
Open Scope R_scope.

Inductive cmd :=
| CSkip
| CAssign (xs : list nat) (e : sx)       (* every target receives a sub-bag of the value *)
| CUpdate (x : nat) (e : sx)             (* in place: the new bag is within the old one plus the value *)
| CSeq (c1 c2 : cmd)
| CIf (c1 c2 : cmd)                      (* either branch (the test is not interpreted) *)
| CLoop (c : cmd)                        (* any number of iterations; CBreak leaves the innermost loop / block *)
| CBlock (c : cmd)                       (* executed once; CBreak leaves it (an inlined callee: `return` = assign the results; break) *)
| CBreak
| CReturn (e : sx).

Inductive outc := ONorm | OBrk | ORet (l : list R).

Inductive exec : cmd -> state -> outc -> state -> Prop :=
| x_skip st : exec CSkip st ONorm st
| x_assign xs e l st st' : ev st e l -> (forall x, In x xs -> incl (st' x) l) -> (forall x, ~ In x xs -> st' x = st x) ->
    exec (CAssign xs e) st ONorm st'
| x_update x e l st st' : ev st e l -> incl (st' x) (st x ++ l) -> (forall y, y <> x -> st' y = st y) ->
    exec (CUpdate x e) st ONorm st'
| x_seq_n c1 c2 st st1 o st2 : exec c1 st ONorm st1 -> exec c2 st1 o st2 -> exec (CSeq c1 c2) st o st2
| x_seq_b c1 c2 st st1 : exec c1 st OBrk st1 -> exec (CSeq c1 c2) st OBrk st1
| x_seq_r c1 c2 st st1 l : exec c1 st (ORet l) st1 -> exec (CSeq c1 c2) st (ORet l) st1
| x_if_l c1 c2 st o st1 : exec c1 st o st1 -> exec (CIf c1 c2) st o st1
| x_if_r c1 c2 st o st1 : exec c2 st o st1 -> exec (CIf c1 c2) st o st1
| x_loop_0 c st : exec (CLoop c) st ONorm st
| x_loop_n c st st1 o st2 : exec c st ONorm st1 -> exec (CLoop c) st1 o st2 -> exec (CLoop c) st o st2
| x_loop_b c st st1 : exec c st OBrk st1 -> exec (CLoop c) st ONorm st1
| x_loop_r c st st1 l : exec c st (ORet l) st1 -> exec (CLoop c) st (ORet l) st1
| x_block_n c st st1 : exec c st ONorm st1 -> exec (CBlock c) st ONorm st1
| x_block_b c st st1 : exec c st OBrk st1 -> exec (CBlock c) st ONorm st1
| x_block_r c st st1 l : exec c st (ORet l) st1 -> exec (CBlock c) st (ORet l) st1
| x_break st : exec CBreak st OBrk st
| x_return e l st : ev st e l -> exec (CReturn e) st (ORet l) st.

(* ---------------------------------------------------------------- abstract execution *)
Fixpoint ajoin (a b : aenv) : aenv :=
  match a, b with x :: a', y :: b' => sg_join x y :: ajoin a' b' | _, _ => [] end.
Definition ojoin (a b : option aenv) : option aenv :=
  match a, b with None, o | o, None => o | Some x, Some y => Some (ajoin x y) end.
Fixpoint aset1 (a : aenv) (x : nat) (s : sg) : aenv :=
  match a, x with [] , _ => [] | _ :: t, O => s :: t | h :: t, S k => h :: aset1 t k s end.
Definition aset (a : aenv) (xs : list nat) (s : sg) : aenv := fold_left (fun a' x => aset1 a' x s) xs a.
Definition ole (o : option aenv) (a : aenv) : bool := match o with None => true | Some b => env_le b a end.
Fixpoint aenv_eqb (a b : aenv) : bool :=
  match a, b with [], [] => true | x :: a', y :: b' => sg_le x y && sg_le y x && aenv_eqb a' b' | _, _ => false end.

(* result: the environment on normal exit (None = no normal exit), on break, and whether every check passed
   (every returned expression has an established sign, every loop invariant found is inductive) *)
Definition ares := (option aenv * option aenv * bool)%type.
(* the loop invariant: iterate inv := inv join (normal exit of the body from inv) until stable (f = the abstract body) *)
Fixpoint loop_inv (f : aenv -> ares) (k : nat) (inv : aenv) : aenv :=
  match k with
  | O => inv
  | S k' => let '(n, _, _) := f inv in
            let inv' := match n with None => inv | Some an => ajoin inv an end in
            if aenv_eqb inv' inv then inv else loop_inv f k' inv'
  end.
Fixpoint aexec (fuel : nat) (c : cmd) (a : aenv) {struct c} : ares :=
  match c with
  | CSkip => (Some a, None, true)
  | CAssign xs e => (Some (aset a xs (asign a e)), None, true)
  | CUpdate x e => (Some (raise a x (asign a e)), None, true)
  | CSeq c1 c2 =>
      let '(n1, b1, r1) := aexec fuel c1 a in
      match n1 with
      | None => (None, b1, r1)
      | Some a1 => let '(n2, b2, r2) := aexec fuel c2 a1 in (n2, ojoin b1 b2, r1 && r2)
      end
  | CIf c1 c2 =>
      let '(n1, b1, r1) := aexec fuel c1 a in
      let '(n2, b2, r2) := aexec fuel c2 a in
      (ojoin n1 n2, ojoin b1 b2, r1 && r2)
  | CLoop c0 =>
      let inv := loop_inv (aexec fuel c0) fuel a in
      let '(n, b, r) := aexec fuel c0 inv in
      (ojoin (Some inv) b, None, r && ole n inv && env_le a inv)
  | CBlock c0 => let '(n, b, r) := aexec fuel c0 a in (ojoin n b, None, r)
  | CBreak => (None, Some a, true)
  | CReturn e => (None, None, sg_le (asign a e) SgNN)
  end.
(* 0 = every value the body can return is entrywise >= 0; 2 = not established *)
Definition flow_verdict (c : cmd) (a0 : aenv) : nat :=
  let '(_, _, r) := aexec (2 * length a0 + 2) c a0 in if r then 0%nat else 2%nat.
