(* C10 -- two branches of the anchored code that Model/Nonneg.v leaves out (definitions only):

   (1) the MASKED multiplicative update of non_negative_parafac (tensorly/decomposition/_nn_cp.py): before the numerator of every mode
           if mask is not None: tensor = tensor * mask + tl.cp_to_tensor((weights, factors), mask=1 - mask)
       i.e. the unobserved entries are replaced by the current reconstruction; the numerator is the MTTKRP of the imputed tensor.  The skeleton
       `non_negative_parafac` of Model/Nonneg.v takes the numerator as an arbitrary function of the state, so the masked algorithm is the
       instance `cp_mu_num_mask`.  The implementation overwrites `tensor` cumulatively; for a 0/1 mask the imputation of an imputed tensor is the
       imputation of the original one (Proofs/NonnegMaskProofs.v impute_entry_idem), so the imputed tensor is a function of the current state.
   (2) the COLD START of hals_nnls (tensorly/solvers/nnls.py, `if V is None`): V = clip(solve(UtU, UtM), 0) scaled by
       sum(UtM * V) / sum(UtU * (V V^T)) when that denominator is positive (S below = the recorded answer of tl.solve), and the
       `nonzero_rows` safety step of the row update.  The decompositions always pass a warm start and never set nonzero_rows: solver-level glue. *)
From Coq Require Import List Arith Bool.
From TLV Require Import Base.Shape Base.PyList Base.Tensor Base.Ops Model.Nonneg.
Import ListNotations.

Section Mask.
Context {F : Type} (Op : fops F).
Let mat := list (list F).

(* cp_to_tensor((weights, factors))[idx] = sum_r w_r * prod_k F_k[idx_k, r]   (kr_entry with a mode index beyond the order skips no factor) *)
Definition cp_entry (w : list F) (Fs : list mat) (idx : list nat) : F :=
  fsum Op (map (fun r => kr_entry Op w Fs (length Fs) idx r) (seq 0 (length w))).
(* one entry of  tensor * mask + reconstruction * (1 - mask) *)
Definition impute_entry (t m c : F) : F := fadd Op (fmul Op t m) (fmul Op c (fsub Op (f1 Op) m)).
Definition impute (T mask : tensor F) (st : @cp_state F) : tensor F :=
  let s := shape T in
  mk s (map (fun p => impute_entry (nth p (data T) (f0 Op)) (nth p (data mask) (f0 Op)) (cp_entry (fst st) (snd st) (unravel s p)))
            (seq 0 (prod s))).
(* the numerator oracle of the masked algorithm *)
Definition cp_mu_num_mask (T mask : tensor F) (st : @cp_state F) (mode : nat) : mat := cp_mu_num Op (impute T mask st) st mode.

(* ---- hals_nnls cold start *)
Definition msum (A B : mat) : F := fsum Op (map2 (fun a b => dotv Op a b) A B).     (* tl.sum(A * B) *)
Definition hals_cold_start (UtM UtU S : mat) : mat :=
  let V := mmap (clip_min Op (f0 Op)) S in
  let normalization := msum UtU (matmul Op V (transp Op V)) in
  if fltb Op (f0 Op) normalization then
    let c := fdiv Op (msum UtM V) normalization in mmap (fun v => fmul Op v c) V
  else V.
(* the row update followed by the safety step `if nonzero_rows and tl.all(V[k, :] == 0): V[k, :] = tl.eps(V.dtype) * tl.max(V)`
   (epsm = tl.eps(dtype); the generator keeps UtU[k, k] <> 0: the `elif nonzero_rows: raise` branch is not reached) *)
Definition vmax_all (V : mat) : F := match concat V with [] => f0 Op | x :: l => fold_left (fmax Op) l x end.
Definition hals_row_nzr (epsm eps : F) (sp rg : option F) (UtM UtU V : mat) (k : nat) : mat :=
  let V' := hals_row Op eps sp rg UtM UtU V k in
  let d := nth k (nth k UtU []) (f0 Op) in
  if negb (feqb Op d (f0 Op)) && forallb (fun x => feqb Op x (f0 Op)) (nth k V' [])
  then set_nth k (map (fun _ => fmul Op epsm (vmax_all V')) (nth k V' [])) V' else V'.
Definition hals_nnls_nzr (epsm eps : F) (sp rg : option F) (UtM UtU V : mat) (n : nat) : mat :=
  iter_n n (fun V => fold_left (hals_row_nzr epsm eps sp rg UtM UtU) (seq 0 (length UtM)) V) V.
End Mask.
