(* C10 -- option parsing / glue of the non-negative entry points (definitions only): what the entry points do with the RAW
   arguments fixed_modes, nn_modes, sparsity_coefficients before the iteration starts, and the entry points themselves as
   functions of the raw options (composed with the skeletons of Model/Nonneg.v).

   _nn_cp.py non_negative_parafac:       fixed_modes None -> []; the last mode is removed from fixed_modes (warning); modes_list
   _nn_cp.py non_negative_parafac_hals:  fixed_modes None -> [] (the last mode MAY be fixed); nn_modes 'all' -> every mode, None -> no mode;
                                         sparsity_coefficients None / float -> repeated, reset to None on the fixed modes; modes
   _tucker.py non_negative_tucker_hals:  as non_negative_parafac for fixed_modes; sparsity_coefficients None / scalar -> repeated, reset on fixed *)
From Coq Require Import List Arith Bool.
From TLV Require Import Base.Shape Base.PyList Base.Tensor Base.Ops Model.Nonneg.
Import ListNotations.

Inductive nn_opt := NNAll | NNNone | NNList (l : list nat).
Definition parse_nn_modes (n : nat) (o : nn_opt) : list nat :=
  match o with NNAll => seq 0 n | NNNone => [] | NNList l => l end.
Definition parse_fixed (o : option (list nat)) : list nat := match o with None => [] | Some l => l end.
(* list.remove(x): the first occurrence *)
Fixpoint remove_first (x : nat) (l : list nat) : list nat :=
  match l with [] => [] | y :: r => if Nat.eqb x y then r else y :: remove_first x r end.
(* `if ndim - 1 in fixed_modes: warn(...); fixed_modes.remove(ndim - 1)` *)
Definition unfix_last (n : nat) (fixed : list nat) : list nat :=
  if memb (n - 1) fixed then remove_first (n - 1) fixed else fixed.
(* [mode for mode in range(n) if mode not in fixed_modes] *)
Definition modes_of (n : nat) (fixed : list nat) : list nat := filter (fun m => negb (memb m fixed)) (seq 0 n).

Section Options.
Context {F : Type} (Op : fops F).
Inductive sp_opt := SpNone | SpScalar (c : F) | SpList (l : list (option F)).
(* [c] * n_modes or list(c); then `for fixed_value in fixed_modes: sparsity_coefficients[fixed_value] = None` *)
Definition parse_sps (n : nat) (o : sp_opt) (fixed : list nat) : list (option F) :=
  let l := match o with SpNone => repeat None n | SpScalar c => repeat (Some c) n | SpList l => l end in
  mapi_from 0 (fun k s => if memb k fixed then None else s) l.

Context (nrm : list F -> F).
(* non_negative_parafac(tensor, rank, init=(w, Fs), fixed_modes=fixed, normalize_factors, n_iter_max) on an order-n tensor *)
Definition non_negative_parafac_entry (eps : F) (numf denf : nat -> @cp_state F -> nat -> list (list F)) (stop : nat -> @cp_state F -> bool)
           (n : nat) (fixed : option (list nat)) (normalize : bool) (n_iter_max : nat) (w : list F) (Fs : list (list (list F))) : @cp_state F :=
  non_negative_parafac Op nrm eps numf denf stop normalize (modes_of n (unfix_last n (parse_fixed fixed))) n_iter_max
                       (initialize_cp_user_norm Op nrm w Fs normalize).
(* non_negative_parafac_hals(tensor, rank, init=(w, Fs), fixed_modes, nn_modes, sparsity_coefficients, normalize_factors, n_iter_max) *)
Definition non_negative_parafac_hals_entry (utm utu : nat -> @cp_state F -> nat -> list (list F)) (solve : list (list F) -> list (list F) -> list (list F))
           (inner : nat -> @cp_state F -> nat -> nat) (stop : nat -> @cp_state F -> bool)
           (n : nat) (fixed : option (list nat)) (nn : nn_opt) (sp : sp_opt) (normalize : bool) (n_iter_max : nat)
           (w : list F) (Fs : list (list (list F))) : @cp_state F :=
  let fx := parse_fixed fixed in
  let modes := modes_of n fx in
  non_negative_parafac_hals Op nrm utm utu solve inner stop (parse_nn_modes n nn) (parse_sps n sp fx) normalize modes n_iter_max
                            (initialize_cp_user_hals Op nrm w Fs modes normalize).
(* non_negative_tucker_hals(tensor, rank, init=(core, Fs), fixed_modes, sparsity_coefficients, ...): initialize_tucker(non_negative=True) takes abs *)
Definition non_negative_tucker_hals_entry (alg : core_alg) (feps : F)
           (utm utu : nat -> @tk_state F -> nat -> list (list F)) (inner : nat -> @tk_state F -> nat -> nat)
           (lr : nat -> @tk_state F -> F) (csp : F) (lin : nat -> @tk_state F -> list F -> list F) (cutm : nat -> @tk_state F -> list F)
           (betas : nat -> @tk_state F -> list F) (support : nat -> @tk_state F -> nat -> list F -> list F) (as_n : nat -> @tk_state F -> nat)
           (stop : nat -> @tk_state F -> bool)
           (n : nat) (fixed : option (list nat)) (sp : sp_opt) (normalize : bool) (n_iter_max : nat)
           (core : tensor F) (Fs : list (list (list F))) : @tk_state F :=
  let fx := unfix_last n (parse_fixed fixed) in
  non_negative_tucker_hals Op nrm alg feps utm utu inner (parse_sps n sp fx) lr csp lin cutm betas support as_n stop normalize
                           (modes_of n fx) n_iter_max (initialize_tucker_nn Op core Fs).
End Options.
