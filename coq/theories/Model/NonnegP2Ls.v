(* C10 -- parafac2 with a USER-SUPPLIED line-search object (definitions only).

   tensorly/decomposition/_parafac2.py: `if linesearch and not isinstance(linesearch, _BroThesisLineSearch): linesearch = _BroThesisLineSearch(...,
   nn_modes=nn_modes, ...)` -- a _BroThesisLineSearch INSTANCE given by the caller is used as it is, and line_step clips the extrapolated
   factors on the instance's OWN nn_modes (ls_nn below), not on the nn_modes of the decomposition (nn below: the modes the inner
   non_negative_parafac_hals constrains and the built-in start is projected on).  Model/Nonneg.v's parafac2 is the instance ls_nn = nn. *)
From Coq Require Import List Arith Bool.
From TLV Require Import Base.Shape Base.PyList Base.Tensor Base.Ops Model.Nonneg.
Import ListNotations.

Section P2Ls.
Context {F : Type} (Op : fops F) (nrm : list F -> F).

Definition parafac2_iter_ls (utm utu : nat -> nat -> @cp_state F -> nat -> list (list F)) (solve : list (list F) -> list (list F) -> list (list F))
           (inner : nat -> nat -> @cp_state F -> nat -> nat) (istop : nat -> nat -> @cp_state F -> bool)
           (nn ls_nn : list nat) (n_iter_parafac : nat)
           (line : nat -> option F) (accept : nat -> @cp_state F -> bool) (normalize : bool)
           (it : nat) (st : @cp_state F) : @cp_state F :=
  let '(w, Fs) := st in
  let Fs0 := set_nth 1 (mul_cols Op (nth 1 Fs []) w) Fs in
  let w0 := repeat (f1 Op) (length w) in
  let '(_, Fs1) := non_negative_parafac_hals Op nrm (utm it) (utu it) solve (inner it) (istop it) nn
                     (repeat None 3) false [0; 1; 2] n_iter_parafac (initialize_cp_user Op w0 Fs0) in
  let Fs2 := match line it with
             | Some jump => if accept it (w0, Fs1) then line_step Op ls_nn jump Fs0 Fs1 else Fs1
             | None => Fs1 end in
  if normalize then cp_normalize Op nrm (w0, Fs2) else (w0, Fs2).

Definition parafac2_ls utm utu solve inner istop nn ls_nn n_iter_parafac line accept normalize
           (stop : nat -> @cp_state F -> bool) (n_iter_max : nat) (init : @cp_state F) : @cp_state F :=
  outer_loop n_iter_max 0 (parafac2_iter_ls utm utu solve inner istop nn ls_nn n_iter_parafac line accept normalize)
             stop (fun st => st) (fun st => st) (cp_fin Op nrm normalize init).
End P2Ls.
