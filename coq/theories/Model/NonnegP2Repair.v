(* C10 -- candidate repair v2 of the known finding parafac2_user_linesearch_own_nn_modes (definitions only):
   parafac2 projects the factors returned by `linesearch.line_step(...)` on the declared modes,
       factors = [tl.clip(factor, 0) if mode in nn_modes_ls else factor for mode, factor in enumerate(factors)]
   (build/fix_candidates/C10_parafac2_user_linesearch_v2.diff; the caller's line-search object is left untouched). *)
From Coq Require Import List Arith Bool.
From TLV Require Import Base.Shape Base.PyList Base.Tensor Base.Ops Model.Nonneg Model.NonnegP2Ls.
Import ListNotations.

Section Repair.
Context {F : Type} (Op : fops F).
Fixpoint clip_modes_from (k : nat) (nn : list nat) (Fs : list (list (list F))) : list (list (list F)) :=
  match Fs with
  | [] => []
  | M :: r => (if memb k nn then mmap (clip_min Op (f0 Op)) M else M) :: clip_modes_from (S k) nn r
  end.
Definition clip_modes := clip_modes_from 0.
(* the repaired run: the step of a line search that clips on ls_nn, projected on nn = a step that clips on ls_nn ++ nn
   (Proofs/NonnegP2RepairProofs.v line_step_then_clip) *)
Definition parafac2_repaired (nrm : list F -> F) utm utu solve inner istop (nn ls_nn : list nat) n_iter_parafac line accept normalize stop n_iter_max init :=
  parafac2_ls Op nrm utm utu solve inner istop nn (ls_nn ++ nn) n_iter_parafac line accept normalize stop n_iter_max init.
End Repair.
