(* C10 -- a sign analysis for the bodies of the non-negative decompositions (definitions only).

   The harness translates, on every run, the CURRENT Python source of the entry points (ast) into a `list stmt`: one statement per
   assignment of the function body, whatever its nesting (loops, branches, early exits), over a small expression language whose
   values are BAGS OF ENTRIES (list R: the entries of an array, of a list of arrays, of a tuple).  Every NumPy-level operation is
   over-approximated entrywise: an entry of `a * b` is a product of some entry of a and some entry of b (any broadcasting), an entry
   of dot / multi_mode_dot / tucker_to_tensor is a finite sum of products of entries, transpose / reshape / copy / indexing / unfold return a sub-bag.
   Calls of the solvers, normalisations and initialisers evaluate to what the functions of Model/Nonneg.v compute ([contract]).
   The execution model is "any statement of the body, in any order, any number of times" (every control flow is an instance).
   [analyse] infers an abstract environment (one sign per variable) and CHECKS it to be preserved by every statement; the soundness
   theorem is in Proofs/NonnegSignProofs.v.  Anything the translator does not recognise becomes XAny. *)
From Coq Require Import List Arith Bool Reals.
From TLV Require Import Base.Shape Base.PyList Base.Tensor Base.Ops Model.Nonneg.
Import ListNotations.
Open Scope R_scope.

Inductive sg := SgPos | SgNN | SgAny.          (* every entry > 0 | every entry >= 0 | no information *)
Definition sg_le (a b : sg) : bool :=
  match a, b with SgPos, _ => true | SgNN, SgPos => false | SgNN, _ => true | SgAny, SgAny => true | SgAny, _ => false end.
Definition sg_join (a b : sg) : sg :=
  match a, b with SgAny, _ | _, SgAny => SgAny | SgNN, _ | _, SgNN => SgNN | SgPos, SgPos => SgPos end.
Definition sg_best (a b : sg) : sg :=
  match a, b with SgPos, _ | _, SgPos => SgPos | SgNN, _ | _, SgNN => SgNN | SgAny, SgAny => SgAny end.

(* the callees with a sign contract *)
Inductive fn := FHalsNnls | FFista | FActiveSet | FCpNormalize | FTuckerNormalize | FInitCp | FInitTucker.

Inductive sx :=
| XVar (x : nat)
| XNonneg            (* a literal >= 0, tl.ones, tl.zeros, a norm *)
| XPos               (* a literal > 0, tl.eps(dtype) *)
| XAny               (* the data tensor, LAPACK, anything not recognised *)
| XSub (e : sx)      (* transpose, reshape, copy, unfold, indexing, CPTensor(..), list(..): a sub-bag *)
| XAbs (e : sx)
| XClip (lo e : sx)  (* tl.clip(e, a_min=lo, a_max=None) *)
| XMul (a b : sx) | XAdd (a b : sx) | XDiv (a b : sx)
| XPoly (e : sx)     (* tl.dot, mode_dot, multi_mode_dot, tucker_to_tensor, kronecker, khatri_rao, tl.sum: sums of products of entries *)
| XPair (a b : sx)   (* tuples / lists: the union of the bags *)
| XCall (f : fn) (arg : sx).

Inductive stmt :=
| SAssign (xs : list nat) (e : sx)     (* x = e ; a, b = e : every target receives a sub-bag of the value *)
| SUpdate (x : nat) (e : sx).          (* x[i] = e ; x[i] op= .. : the new bag is within the old one plus the value *)

Definition vnnR (l : list R) : Prop := Forall (fun v => 0 <= v) l.
Definition cp_bag (st : @cp_state R) : list R := fst st ++ concat (concat (snd st)).
Definition tk_bag (st : @tk_state R) : list R := data (fst st) ++ concat (concat (snd st)).
(* the weights and the entries of the factors of the DECLARED modes only *)
Definition dbag (D : list nat) (Fs : list (list (list R))) : list R := concat (concat (map (fun m => nth m Fs []) D)).
Definition cp_dbag (D : list nat) (st : @cp_state R) : list R := fst st ++ dbag D (snd st).

(* what a call evaluates to: the corresponding function of Model/Nonneg.v (tied to the implementation by the executed correspondence) *)
Inductive contract : fn -> list R -> list R -> Prop :=
| c_hals eps sp rg UtM UtU V n : 0 <= eps ->                      (* epsilon is left at its default 0.0 by the decompositions *)
    contract FHalsNnls (concat V) (concat (hals_nnls Rops eps sp rg UtM UtU V n))
| c_fista eps lr sp rg lin UtM x betas : 0 <= eps ->              (* non_negative=True (default), epsilon default 1e-8 *)
    contract FFista x (fista Rops eps lr sp rg true lin UtM x betas)
| c_aset solve Utm UtU tol x0 n out : active_set_nnls Rops solve Utm UtU tol x0 n = Some out ->
    contract FActiveSet x0 out
| c_cpnorm nrm w Fs : (forall v, 0 <= nrm v) ->
    contract FCpNormalize (cp_bag (w, Fs)) (cp_bag (cp_normalize Rops nrm (w, Fs)))
| c_cpnorm_D nrm w Fs D : (forall v, 0 <= nrm v) ->             (* cp_normalize, as far as the weights and the declared modes are concerned *)
    contract FCpNormalize (cp_dbag D (w, Fs)) (cp_dbag D (cp_normalize Rops nrm (w, Fs)))
| c_tknorm nrm core Fs : (forall v, 0 <= nrm v) ->
    contract FTuckerNormalize (tk_bag (core, Fs)) (tk_bag (tucker_normalize Rops nrm (core, Fs)))
| c_initcp_builtin nrm Rk raw nm l0 : (forall v, 0 <= nrm v) ->   (* init = 'svd' / 'random' (a string has no entries), non_negative=True *)
    contract FInitCp l0 (cp_bag (initialize_cp_nn Rops nrm Rk raw nm))
| c_initcp_user nrm w Fs nm : (forall v, 0 <= nrm v) ->           (* init = (weights, factors) *)
    contract FInitCp (cp_bag (w, Fs)) (cp_bag (initialize_cp_user_norm Rops nrm w Fs nm))
| c_inittk core raw l0 :                                          (* initialize_tucker(non_negative=True): abs of everything, user init included *)
    contract FInitTucker l0 (tk_bag (initialize_tucker_nn Rops core raw)).

Definition state := nat -> list R.
Inductive ev (st : state) : sx -> list R -> Prop :=
| ev_var x : ev st (XVar x) (st x)
| ev_nonneg l : Forall (fun v => 0 <= v) l -> ev st XNonneg l
| ev_pos l : Forall (fun v => 0 < v) l -> ev st XPos l
| ev_any l : ev st XAny l
| ev_sub e l0 l : ev st e l0 -> incl l l0 -> ev st (XSub e) l
| ev_abs e l0 l : ev st e l0 -> (forall v, In v l -> exists u, In u l0 /\ v = Rabs u) -> ev st (XAbs e) l
| ev_clip lo e l1 l2 l : ev st lo l1 -> ev st e l2 ->
    (forall v, In v l -> exists a b, In a l1 /\ In b l2 /\ v = Rmax a b) -> ev st (XClip lo e) l
| ev_mul a b l1 l2 l : ev st a l1 -> ev st b l2 ->
    (forall v, In v l -> exists p q, In p l1 /\ In q l2 /\ v = p * q) -> ev st (XMul a b) l
| ev_add a b l1 l2 l : ev st a l1 -> ev st b l2 ->
    (forall v, In v l -> exists p q, In p l1 /\ In q l2 /\ v = p + q) -> ev st (XAdd a b) l
| ev_div a b l1 l2 l : ev st a l1 -> ev st b l2 ->
    (forall v, In v l -> exists p q, In p l1 /\ In q l2 /\ v = p / q) -> ev st (XDiv a b) l
| ev_poly e l0 l : ev st e l0 ->
    (forall v, In v l -> exists ms : list (list R), (forall m, In m ms -> incl m l0) /\
                                                  v = fold_right (fun m acc => fold_right Rmult 1 m + acc) 0 ms) ->
    ev st (XPoly e) l
| ev_pair a b l1 l2 l : ev st a l1 -> ev st b l2 -> incl l (l1 ++ l2) -> ev st (XPair a b) l
| ev_call f arg l0 l1 l : ev st arg l0 -> contract f l0 l1 -> incl l l1 -> ev st (XCall f arg) l.

Inductive step (st : state) : stmt -> state -> Prop :=
| step_assign xs e l st' : ev st e l -> (forall x, In x xs -> incl (st' x) l) -> (forall x, ~ In x xs -> st' x = st x) ->
    step st (SAssign xs e) st'
| step_update x e l st' : ev st e l -> incl (st' x) (st x ++ l) -> (forall y, y <> x -> st' y = st y) ->
    step st (SUpdate x e) st'.
(* any statement of the body, any order, any number of times *)
Inductive reach (prog : list stmt) : state -> state -> Prop :=
| reach_refl st : reach prog st st
| reach_step st s st1 st2 : In s prog -> step st s st1 -> reach prog st1 st2 -> reach prog st st2.

(* ---------------------------------------------------------------- the analysis (executed by vm_compute on the regenerated programs) *)
Definition aenv := list sg.
Definition alook (a : aenv) (x : nat) : sg := nth x a SgAny.
Fixpoint asign (a : aenv) (e : sx) : sg :=
  match e with
  | XVar x => alook a x
  | XNonneg => SgNN | XPos => SgPos | XAny => SgAny
  | XSub e => asign a e
  | XAbs e => match asign a e with SgPos => SgPos | _ => SgNN end
  | XClip lo e => sg_best (asign a lo) (asign a e)
  | XMul p q => match asign a p, asign a q with SgPos, SgPos => SgPos | SgAny, _ | _, SgAny => SgAny | _, _ => SgNN end
  | XAdd p q => match asign a p, asign a q with SgAny, _ | _, SgAny => SgAny | SgNN, SgNN => SgNN | _, _ => SgPos end
  | XDiv p q => match asign a q with SgPos => asign a p | _ => SgAny end
  | XPoly e => if sg_le (asign a e) SgNN then SgNN else SgAny
  | XPair p q => sg_join (asign a p) (asign a q)
  | XCall _ arg => if sg_le (asign a arg) SgNN then SgNN else SgAny
  end.
Definition check_stmt (a : aenv) (s : stmt) : bool :=
  match s with
  | SAssign xs e => forallb (fun x => sg_le (asign a e) (alook a x)) xs
  | SUpdate x e => sg_le (asign a e) (alook a x)
  end.
Fixpoint raise (a : aenv) (x : nat) (s : sg) : aenv :=
  match a, x with
  | [], _ => []
  | h :: t, O => sg_join h s :: t
  | h :: t, S k => h :: raise t k s
  end.
Definition infer_stmt (a : aenv) (s : stmt) : aenv :=
  match s with
  | SAssign xs e => let v := asign a e in fold_left (fun a' x => raise a' x v) xs a
  | SUpdate x e => raise a x (asign a e)
  end.
Definition env_le (a0 a : aenv) : bool :=
  Nat.eqb (length a0) (length a) && forallb (fun p => sg_le (fst p) (snd p)) (combine a0 a).
(* a0: the assumptions on the parameters (SgPos for the locals: an unassigned variable has no entries) *)
Definition analyse (prog : list stmt) (a0 : aenv) (fuel : nat) : option aenv :=
  let a := iter_n fuel (fun a => fold_left infer_stmt prog a) a0 in
  if forallb (check_stmt a) prog && env_le a0 a then Some a else None.
(* verdict for one function body: 0 = the returned expression is entrywise >= 0 in every reachable state;
   1 = the inferred environment is not inductive (cannot happen unless the fuel is too small); 2 = the sign of the result is not established *)
Definition sign_verdict (prog : list stmt) (a0 : aenv) (ret : sx) : nat :=
  match analyse prog a0 (2 * length a0 + 2) with
  | Some a => if sg_le (asign a ret) SgNN then 0%nat else 2%nat
  | None => 1%nat
  end.
