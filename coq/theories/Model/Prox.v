(* Model of tensorly/tenalg/proximal.py (as of the current tree: clip(a_min=0), -inf filled
   helper in monotonicity_prox, column-shaped simplex output).  Every operator is written ONCE
   over a record of field operations (Base/Ops.v): executed at Qops, proved about at Rops.
   Vectors / columns are lists; matrices are lists of rows (column-wise operators are lifted
   with [colwise]).  Definitions only.
   sqrt (tl.norm) and the LAPACK solve are not re-implemented: the norm is an argument [s]
   (answer tape, contract  s*s = sum of squares, 0 <= s), the solve has the certificate
   [sm_apply t x = v]; an executable tridiagonal elimination is provided for running the model. *)
From Coq Require Import List Arith Bool.
From TLV Require Import Base.Ops.
Import ListNotations.

Section Prox.
Context {F : Type} (Op : fops F).
Local Notation zero := (f0 Op).
Local Notation one := (f1 Op).
Local Infix "+f" := (fadd Op) (at level 50, left associativity).
Local Infix "-f" := (fsub Op) (at level 50, left associativity).
Local Infix "*f" := (fmul Op) (at level 40, left associativity).
Local Infix "/f" := (fdiv Op) (at level 40, left associativity).
Local Infix "<f" := (fltb Op) (at level 70).
Local Infix "<=f" := (fleb Op) (at level 70).

(* ---------- generic list arithmetic (also the vocabulary of the specifications) *)
Fixpoint lsum (l : list F) : F := match l with [] => zero | x :: r => x +f lsum r end.
Definition sumsq (l : list F) : F := lsum (map (fun x => x *f x) l).
Definition l1n (l : list F) : F := lsum (map (fabs Op) l).
Fixpoint dot (a b : list F) : F := match a, b with x :: a', y :: b' => x *f y +f dot a' b' | _, _ => zero end.
Fixpoint dist2 (a b : list F) : F :=
  match a, b with x :: a', y :: b' => (x -f y) *f (x -f y) +f dist2 a' b' | _, _ => zero end.
Definition two : F := one +f one.

(* np.clip(x, a_min=0) = maximum(x, 0), np.sign *)
Definition relu (x : F) : F := if zero <=f x then x else zero.
Definition fsign (x : F) : F := if zero <f x then one else if x <f zero then fopp Op one else zero.

(* proximal_operator(..., non_negative=True):  tl.clip(tensor, a_min=0) *)
Definition non_negative (v : list F) : list F := map relu v.

(* soft_thresholding: tl.sign(tensor) * tl.clip(tl.abs(tensor) - threshold, a_min=0) *)
Definition soft1 (t x : F) : F := fsign x *f relu (fabs Op x -f t).
Definition soft_thresholding (t : F) (v : list F) : list F := map (soft1 t) v.
(* threshold given as an array of the tensor's shape *)
Definition soft_thresholding_arr (ts v : list F) : list F :=
  map (fun tx => soft1 (fst tx) (snd tx)) (combine ts v).

(* l2_square_prox: tensor / (1 + 2 * regularizer) *)
Definition l2_square_prox (t : F) (v : list F) : list F := map (fun x => x /f (one +f two *f t)) v.

(* l2_prox: norm = tl.norm(tensor); if norm > regularizer: tensor - (tensor * regularizer / norm), else: tensor * 0
   (the branch structure of the repaired code, 5c51b61).   [s] is the value of tl.norm(tensor). *)
Definition l2_prox_with (s t : F) (v : list F) : list F :=
  if t <f s then map (fun x => x -f (x *f t) /f s) v else map (fun x => x *f zero) v.

(* smoothness_prox: solve (diag(2t+1) + offdiag(-t)) x = v.  Row i of the coded matrix applied to x: *)
Fixpoint sm_apply (t prev : F) (x : list F) : list F :=
  match x with
  | [] => []
  | a :: r => (((two *f t +f one) *f a -f t *f prev) -f t *f hd zero r) :: sm_apply t a r
  end.
(* executable elimination for the tridiagonal system (forward sweep, back substitution) *)
Fixpoint sm_forward (t cp dp : F) (first : bool) (v : list F) : list (F * F) :=
  match v with
  | [] => []
  | y :: r =>
    let b := two *f t +f one in let a := fopp Op t in
    let den := if first then b else b -f a *f cp in
    let cp' := a /f den in
    let dp' := if first then y /f den else (y -f a *f dp) /f den in
    (cp', dp') :: sm_forward t cp' dp' false r
  end.
Fixpoint sm_back (l : list (F * F)) : list F :=
  match l with
  | [] => []
  | cd :: r => let xs := sm_back r in
               match xs with [] => [snd cd] | xn :: _ => (snd cd -f fst cd *f xn) :: xs end
  end.
Definition smoothness_solve (t : F) (v : list F) : list F := sm_back (sm_forward t zero zero true v).

(* simplex_prox on one column *)
Fixpoint insert_desc (x : F) (l : list F) : list F :=
  match l with [] => [x] | y :: r => if y <=f x then x :: y :: r else y :: insert_desc x r end.
Fixpoint sort_desc (l : list F) : list F := match l with [] => [] | x :: r => insert_desc x (sort_desc r) end.
Fixpoint cumsum_from (acc : F) (l : list F) : list F :=
  match l with [] => [] | x :: r => let a := acc +f x in a :: cumsum_from a r end.
(* (cumsum(sorted) - parameter) / [1,2,3,...] *)
Definition simplex_thr (p : F) (u : list F) : list F :=
  map (fun ck => (fst ck -f p) /f nat2F Op (S (snd ck))) (combine (cumsum_from zero u) (seq 0 (length u))).
(* sum(where(sorted > thr, 1, 0)) *)
Definition simplex_count (u thr : list F) : nat :=
  length (filter (fun ut => snd ut <f fst ut) (combine u thr)).
(* thr[count - 1]  with Python's wrap-around for count = 0 *)
Definition simplex_tau (p : F) (v : list F) : F :=
  let u := sort_desc v in let thr := simplex_thr p u in
  match simplex_count u thr with O => last thr zero | S c => nth c thr zero end.
Definition simplex_prox (p : F) (v : list F) : list F :=
  let tau := simplex_tau p v in map (fun x => relu (x -f tau)) v.

(* soft_sparsity_prox: simplex_prox(abs(tensor), threshold) * sign(tensor) *)
Definition soft_sparsity_prox (p : F) (v : list F) : list F :=
  map (fun ab => fst ab *f fsign (snd ab)) (combine (simplex_prox p (map (fabs Op) v)) v).

(* monotonicity_prox on one column.  Column l of the helper matrix holds the means of
   v[i..l], i <= l (entries below stay -inf); its maximum is taken, then the backward pass
   x[i] = min(x[i], x[i+1]).  (cum_sum[l] - cum_sum[i-1] is the sum of v[i..l].) *)
Fixpoint maxl (d : F) (l : list F) : F := match l with [] => d | x :: r => maxl (fmax Op d x) r end.
Definition means_of (sums : list F) : list F :=
  map (fun sk => fst sk /f nat2F Op (S (snd sk))) (combine sums (seq 0 (length sums))).
Fixpoint run_max_means (sums : list F) (l : list F) : list F :=
  match l with
  | [] => []
  | a :: r => let sums' := a :: map (fun s => s +f a) sums in
              maxl a (tl (means_of sums')) :: run_max_means sums' r
  end.
Fixpoint back_min (l : list F) : list F :=
  match l with
  | [] => []
  | a :: r => let r' := back_min r in
              match r' with [] => [a] | b :: _ => (if b <f a then b else a) :: r' end
  end.
Definition monotone_inc (v : list F) : list F := back_min (run_max_means [] v).
Definition monotonicity_prox (decreasing : bool) (v : list F) : list F :=
  if decreasing then rev (monotone_inc (rev v)) else monotone_inc v.

(* hard_thresholding on the flattened tensor:
   ranks = argsort(flip(argsort(abs(vec)))); keep where rank < k.
   flip(argsort(|v|)) is the list of positions in descending order of |v|; the rank of a position is
   its place in that list, so "rank < k" selects the first k positions of the order.  Ties: the model
   uses the order a stable argsort would give (later position first); NumPy's default argsort is not
   stable, the correspondence therefore compares tie cases up to the choice among tied entries. *)
Definition key_before (v : list F) (a b : nat) : bool :=
  let ka := fabs Op (nth a v zero) in let kb := fabs Op (nth b v zero) in
  if kb <f ka then true else if ka <f kb then false else Nat.leb b a.
Fixpoint insert_idx (v : list F) (a : nat) (l : list nat) : list nat :=
  match l with [] => [a] | b :: r => if key_before v a b then a :: b :: r else b :: insert_idx v a r end.
Definition order_desc (v : list F) : list nat := fold_right (insert_idx v) [] (seq 0 (length v)).
Definition hard_mask (k : nat) (v : list F) : list bool :=
  let kept := firstn k (order_desc v) in map (fun i => existsb (Nat.eqb i) kept) (seq 0 (length v)).
Definition apply_mask (m : list bool) (v : list F) : list F :=
  map (fun mx : bool * F => if fst mx then snd mx else zero) (combine m v).
Definition hard_thresholding (k : nat) (v : list F) : list F := apply_mask (hard_mask k v) v.

(* normalized_sparsity_prox: hard / tl.norm(hard); [s] is the value of tl.norm(hard) *)
Definition normalized_sparsity_with (s : F) (k : nat) (v : list F) : list F :=
  map (fun x => x /f s) (hard_thresholding k v).

(* proximal_operator(..., normalize=True): tensor / tl.max(tl.abs(tensor)) *)
Definition maxabs (v : list F) : F := fold_right (fun x m => fmax Op (fabs Op x) m) zero v.
Definition normalize (v : list F) : list F := let m := maxabs v in map (fun x => x /f m) v.

(* ---------- unimodality_prox (whole matrix: the fill value of non-peak rows is the GLOBAL maximum) *)
Fixpoint cumsum_excl (acc : F) (l : list F) : list F :=   (* cumsum(l) - l : sums of strictly earlier entries *)
  match l with [] => [] | x :: r => acc :: cumsum_excl (acc +f x) r end.
Definition absdiff (a b : list F) : list F := map (fun xy => fabs Op (fst xy -f snd xy)) (combine a b).
Definition peak_flags (v inc dec : list F) : list bool :=
  map (fun t => (zero <=f fst t -f snd (snd t)) && (zero <=f fst t -f fst (snd t))) (combine v (combine inc dec)).
(* per column: (flags, sum_inc + flip(sum_dec)) before the fill *)
Definition uni_scores (v : list F) : list bool * list F :=
  let inc := monotone_inc v in let dec := monotonicity_prox true v in
  let fl := peak_flags v inc dec in
  let si := cumsum_excl zero (absdiff v inc) in
  let sd := rev (cumsum_excl zero (rev (absdiff v dec))) in
  (fl, map (fun t : bool * (F * F) => if fst t then fst (snd t) +f snd (snd t) else zero) (combine fl (combine si sd))).
Fixpoint argmin_from (best : F) (bi i : nat) (l : list F) : nat :=
  match l with [] => bi | x :: r => if x <f best then argmin_from x i (S i) r else argmin_from best bi (S i) r end.
Definition argmin (l : list F) : nat := match l with [] => O | x :: r => argmin_from x O 1 r end.
Definition uni_assemble (m : nat) (v : list F) : list F :=
  let inc := monotone_inc v in let dec := monotonicity_prox true v in
  firstn m inc ++ firstn 1 (skipn m v) ++ skipn (S m) dec.
Definition uni_difference (gmax : F) (sc : list bool * list F) : list F :=
  map (fun bs : bool * F => if fst bs then snd bs else gmax) (combine (fst sc) (snd sc)).
Definition unimodality_cols (cols : list (list F)) : list (list F) :=
  let scs := map uni_scores cols in
  let gmax := match concat (map snd scs) with [] => zero | x :: r => maxl x r end in
  map (fun cv => uni_assemble (argmin (uni_difference gmax (fst cv))) (snd cv)) (combine scs cols).

(* ---------- executable certificate checkers (specification side; decided in Q by the correspondence,
   proved sound over R in Proofs/) *)
Definition fnz (x : F) : bool := negb (feqb Op x zero).
(* x is "v with all but (at most) k entries of largest magnitude set to 0", whatever the tie-breaking *)
Definition valid_ht (k : nat) (v x : list F) : bool :=
  let vx := combine v x in
  Nat.eqb (length x) (length v)
  && forallb (fun p : F * F => feqb Op (snd p) (fst p) || feqb Op (snd p) zero) vx
  && Nat.leb (length (filter fnz x)) k
  && forallb (fun kept : F * F => forallb (fun drop : F * F =>
        negb (fnz (snd kept)) || fnz (snd drop) || (fabs Op (fst drop) <=f fabs Op (fst kept))) vx) vx
  && (Nat.leb k (length (filter fnz x)) || forallb (fun p : F * F => fnz (snd p) || negb (fnz (fst p))) vx).
(* KKT certificate of isotonic regression: x nondecreasing, residual r = v - x with
   sum r = 0, every suffix sum of r <= 0, <r, x> = 0 *)
Fixpoint nondecr (l : list F) : bool :=
  match l with [] => true | a :: r => match r with [] => true | b :: _ => (a <=f b) && nondecr r end end.
Fixpoint suffix_sums_nonpos (r : list F) : bool :=
  match r with [] => true | _ :: r' => (lsum r <=f zero) && suffix_sums_nonpos r' end.
Definition iso_cert (v x : list F) : bool :=
  let r := map (fun p : F * F => fst p -f snd p) (combine v x) in
  Nat.eqb (length x) (length v) && nondecr x && feqb Op (lsum r) zero && suffix_sums_nonpos r
  && feqb Op (dot r x) zero.
(* simplex certificate: x = relu(v - tau) for the model's tau is by construction; feasibility: *)
Definition simplex_cert (p : F) (x : list F) : bool := forallb (fun a => zero <=f a) x && feqb Op (lsum x) p.

(* ---------- matrices as lists of rows; column-wise lifting *)
Definition cols_of (rows : list (list F)) : list (list F) :=
  match rows with [] => [] | r :: _ => map (fun j => map (fun row => nth j row zero) rows) (seq 0 (length r)) end.
Definition colwise (f : list F -> list F) (rows : list (list F)) : list (list F) := cols_of (map f (cols_of rows)).
Fixpoint chunk (fuel c : nat) (l : list F) : list (list F) :=
  match fuel with O => [] | S fu => match l with [] => [] | _ :: _ => firstn c l :: chunk fu c (skipn c l) end end.
Definition flatwise (f : list F -> list F) (rows : list (list F)) : list (list F) :=
  match rows with [] => [] | r :: _ => chunk (length rows) (length r) (f (concat rows)) end.

(* ---------- svd_thresholding / procrustes over an SVD answer tape: U (m x k, rows), s (k), V (k x n, rows) are the
   values returned by tl.truncated_svd(matrix, n_eigenvecs=min(shape)); the SVD itself is never re-implemented.
   svd_thresholding: tl.dot(U, reshape(soft_thresholding(s, threshold), (-1, 1)) * V);  procrustes: tl.dot(U, V) *)
Definition mat_mul (A B : list (list F)) : list (list F) :=
  let Bc := cols_of B in map (fun row => map (fun col => dot row col) Bc) A.
Definition scale_rows (s : list F) (V : list (list F)) : list (list F) :=
  map (fun sr : F * list F => map (fun x => fst sr *f x) (snd sr)) (combine s V).
Definition svd_thresholding_with (U : list (list F)) (s : list F) (V : list (list F)) (t : F) : list (list F) :=
  mat_mul U (scale_rows (soft_thresholding t s) V).
Definition procrustes_with (U V : list (list F)) : list (list F) := mat_mul U V.
Definition identity_mat (k : nat) : list (list F) :=
  map (fun i => map (fun j => if Nat.eqb i j then one else zero) (seq 0 k)) (seq 0 k).

End Prox.
