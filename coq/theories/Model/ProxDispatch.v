(* Glue between proximal_operator's keyword arguments and the operators of Model/Prox.v.
   The decision logic itself (validate_constraints: truthiness, dict / list / scalar values, Python int keys incl. negative ones,
   the ValueError branches) is NOT modelled here: the authoritative model is C11's Model/Constraints.v (zvalidate, theorem
   C11_validate_order); this file only says how the keywords a caller wrote are presented to it.  Definitions only. *)
From Coq Require Import List QArith Bool.
From TLV Require Import Base.Tensor.
From TLV Require Model.Constraints.
Import ListNotations.

Definition qtruthy (q : Q) : bool := negb (Qeq_bool q 0).       (* bool(parameter) *)
Definition kwargs := list (Constraints.kind * @Constraints.zspec Q).
(* the value the caller wrote for keyword k (None if not written); the code visits the twelve keywords in its own fixed order,
   so the order in which they were written is irrelevant *)
Definition spec_of (specs : kwargs) (k : Constraints.kind) : @Constraints.zspec Q :=
  match find (fun ks : Constraints.kind * @Constraints.zspec Q => Constraints.kind_eqb k (fst ks)) specs with
  | Some ks => snd ks | None => Constraints.ZNone end.
(* validate_constraints with the written keywords, n_const = n, order = order: Ok (Some (kind, parameter)) | Ok None | Err (raises) *)
Definition validate_kwargs (n order : nat) (specs : kwargs) : res (option (Constraints.kind * Q)) :=
  Constraints.zvalidate qtruthy n (Constraints.zkeywords (spec_of specs)) order.
