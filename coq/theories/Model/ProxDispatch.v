(* Model of proximal.py:validate_constraints (the decision logic of proximal_operator): which constraint and which parameter
   end up on the selected mode.  Constraints are numbered in the code's fixed registration order
     0 non_negative, 1 l1_reg, 2 l2_reg, 3 l2_square_reg, 4 unimodality, 5 normalize, 6 simplex, 7 normalized_sparsity,
     8 soft_sparsity, 9 smoothness, 10 monotonicity, 11 hard_sparsity.
   A keyword argument is a dict {mode: parameter}, a list [parameter or None per mode] or a scalar (all modes); falsy
   arguments are never passed by the harness.  Definitions only. *)
From Coq Require Import List Arith Bool.
Import ListNotations.

Section Dispatch.
Context {P : Type}.
Inductive cspec := CDict (entries : list (nat * P)) | CList (entries : list (option P)) | CScalar (p : P).

Definition table := list (option (nat * P)).      (* constraints[i], parameters[i] *)
Fixpoint set_at (i : nat) (x : option (nat * P)) (t : table) : table :=
  match t, i with [] , _ => [] | _ :: r, O => x :: r | y :: r, S j => y :: set_at j x r end.
(* registrer_constraint *)
Fixpoint reg_list (c : nat) (i : nat) (l : list (option P)) (t : table) : table :=
  match l with [] => t | e :: r => reg_list c (S i) r (match e with Some p => set_at i (Some (c, p)) t | None => t end) end.
Definition register (t : table) (cs : nat * cspec) : table :=
  let (c, s) := cs in
  match s with
  | CDict es => fold_left (fun t (mp : nat * P) => set_at (fst mp) (Some (c, snd mp)) t) es t
  | CList l => reg_list c 0 l t
  | CScalar p => map (fun _ => Some (c, p)) t
  end.
(* the keyword arguments are visited in the fixed order of the constraint numbers, whatever order the caller wrote them in *)
Fixpoint insert_c (x : nat * cspec) (l : list (nat * cspec)) : list (nat * cspec) :=
  match l with [] => [x] | y :: r => if Nat.leb (fst x) (fst y) then x :: y :: r else y :: insert_c x r end.
Definition sort_c (l : list (nat * cspec)) : list (nat * cspec) := fold_right insert_c [] l.
Definition validate (n_const order : nat) (specs : list (nat * cspec)) : option (nat * P) :=
  nth order (fold_left register (sort_c specs) (repeat None n_const)) None.

(* the modes a keyword argument registers *)
Definition modes_of (n_const : nat) (s : cspec) : list nat :=
  match s with
  | CDict es => map fst es
  | CList l => map fst (filter (fun ie : nat * option P => match snd ie with Some _ => true | None => false end) (combine (seq 0 (length l)) l))
  | CScalar _ => seq 0 n_const
  end.
Definition param_at (s : cspec) (mode : nat) : option P :=
  match s with
  | CDict es => match find (fun mp : nat * P => Nat.eqb (fst mp) mode) (rev es) with Some mp => Some (snd mp) | None => None end
  | CList l => nth mode l None
  | CScalar p => Some p
  end.
End Dispatch.
Arguments cspec P : clear implicits.
