(* Glue between proximal_operator's keyword arguments and the operators of Model/Prox.v.
   The decision logic of validate_constraints (truthiness, dict / list / scalar values, Python int keys incl. negative ones,
   the ValueError branches) is NOT re-modelled here: the authoritative model is C11's Model/Constraints.v (zvalidate, theorem
   C11_validate_order); this file says how the keywords a caller wrote are presented to it, and models proximal_operator's own
   body (early exit, twelve-way dispatch, parameter passing).  Definitions only. *)
From Coq Require Import List ZArith QArith Qround Bool.
From TLV Require Import Base.Ops Base.Tensor Model.Prox.
From TLV Require Model.Constraints.
Import ListNotations.

Definition qtruthy (q : Q) : bool := negb (Qeq_bool q 0).       (* bool(parameter) *)
Definition kwargs := list (Constraints.kind * @Constraints.zspec Q).
(* the value the caller wrote for keyword k (None if not written); the code visits the twelve keywords in its own fixed order,
   so the order in which they were written is irrelevant *)
Definition spec_of (specs : kwargs) (k : Constraints.kind) : @Constraints.zspec Q :=
  match find (fun ks : Constraints.kind * @Constraints.zspec Q => Constraints.kind_eqb k (fst ks)) specs with
  | Some ks => snd ks | None => Constraints.ZNone end.
(* validate_constraints with the written keywords, n_const = n, order = order: Ok (Some (kind, parameter)) | Ok None | Err (raises) *)
Definition validate_kwargs (n order : nat) (specs : kwargs) : res (option (Constraints.kind * Q)) :=
  Constraints.zvalidate qtruthy n (Constraints.zkeywords (spec_of specs)) order.

(* ------------------------------------------------------------------------------------------------------------------
   proximal_operator itself: the early exit n_const is None, the call of validate_constraints, the twelve-way dispatch on the
   selected constraint name, and how the selected parameter reaches the operator.  Written once over a record of field operations
   (executed at Qops by the correspondence, proved about at Rops); a tensor is a list of rows.  The keyword values stay rationals
   (Python floats / ints / True are rationals); [conv] embeds the selected parameter into the carrier (identity at Q, Q2R at R). *)

(* hard_thresholding(tensor, p) keeps the positions whose rank r (a natural number) satisfies r < p: that is ceil(p) positions for
   p > 0 and none for p <= 0 (p is an int in sensible calls, but any float / True is accepted by the code) *)
Definition rank_bound (p : Q) : nat := Z.to_nat (Qceiling p).

Section Run.
Context {F : Type} (Op : fops F) (conv : Q -> F).
Inductive pop :=
| PNonneg | PSoft (t : F) | PL2 (t s : F) | PL2sq (t : F) | PUnimodal | PNormalize | PSimplex (p : F)
| PNormSparsity (k : nat) (s : F) | PSoftSparsity (p : F) | PSmooth (t : F) | PMonotone (dec : bool) | PHard (k : nat)
| PIdentity.

(* the body of each `elif constraint == ...: return ...` branch; [aux] is the value of tl.norm the branch will ask for (norm tape) *)
Definition pop_of (k : Constraints.kind) (p : Q) (aux : F) : pop :=
  match k with
  | Constraints.KNonNeg => PNonneg                                   (* tl.clip(tensor, a_min=0) *)
  | Constraints.KL1 => PSoft (conv p)                                (* soft_thresholding(tensor, parameter) *)
  | Constraints.KL2 => PL2 (conv p) aux                              (* l2_prox(tensor, parameter) *)
  | Constraints.KL2sq => PL2sq (conv p)                              (* l2_square_prox(tensor, parameter) *)
  | Constraints.KUnimodal => PUnimodal                               (* unimodality_prox(tensor) *)
  | Constraints.KNormalize => PNormalize                             (* tensor / tl.max(tl.abs(tensor)) *)
  | Constraints.KSimplex => PSimplex (conv p)                        (* simplex_prox(tensor, parameter) *)
  | Constraints.KNormSparsity => PNormSparsity (rank_bound p) aux    (* normalized_sparsity_prox(tensor, parameter) *)
  | Constraints.KSoftSparsity => PSoftSparsity (conv p)              (* soft_sparsity_prox(tensor, parameter) *)
  | Constraints.KSmooth => PSmooth (conv p)                          (* smoothness_prox(tensor, parameter) *)
  | Constraints.KMonotone => PMonotone false                         (* monotonicity_prox(tensor): decreasing defaults to False *)
  | Constraints.KHardSparsity => PHard (rank_bound p)                (* hard_thresholding(tensor, parameter) *)
  end.

(* which operators work column by column and which on the flattened tensor *)
Definition prun (o : pop) (rows : list (list F)) : list (list F) :=
  match o with
  | PNonneg => flatwise (non_negative Op) rows
  | PSoft t => flatwise (soft_thresholding Op t) rows
  | PL2 t s => flatwise (l2_prox_with Op s t) rows
  | PL2sq t => flatwise (l2_square_prox Op t) rows
  | PUnimodal => cols_of Op (unimodality_cols Op (cols_of Op rows))
  | PNormalize => flatwise (normalize Op) rows
  | PSimplex p => colwise Op (simplex_prox Op p) rows
  | PNormSparsity k s => flatwise (normalized_sparsity_with Op s k) rows
  | PSoftSparsity p => colwise Op (soft_sparsity_prox Op p) rows
  | PSmooth t => colwise Op (smoothness_solve Op t) rows
  | PMonotone d => colwise Op (monotonicity_prox Op d) rows
  | PHard k => flatwise (hard_thresholding Op k) rows
  | PIdentity => rows
  end.

(* number of dimensions: monotonicity_prox / unimodality_prox treat a 1-D tensor as one column and raise ValueError for more than two
   dimensions (explicit validation); simplex_prox / soft_sparsity_prox unpack `row, col = shape`, which raises ValueError as well; the
   operators on the flattened tensor accept any number of dimensions (the tensor is then presented to prun as its first axis x the rest).
   smoothness_prox with more than two dimensions (NumPy's stacked solve) is modelled separately: smooth_nd below. *)
Definition ndim_ok (o : pop) (ndim : nat) : bool :=
  match o with
  | PMonotone _ | PUnimodal | PSimplex _ | PSoftSparsity _ => (1 <=? ndim)%nat && (ndim <=? 2)%nat
  | _ => true
  end.

(* smoothness_prox on a tensor with three or more dimensions, as coded: `tl.solve(diag_matrix, tensor)` with the d0 x d0 matrix
   (d0 = shape[0]) and a right-hand side of shape (..., p, q) is NumPy's stacked solve: the matrix is broadcast against the stack of
   p x q matrices, so the call raises ValueError unless p = shape[-2] equals d0, and otherwise solves the tridiagonal system along
   axis -2 of every p x q slice (for three dimensions: it smooths along axis 1, not axis 0 - the code as it is; the candidate
   build/fix_candidates/C12_smoothness_ndim.* is not applied).  The tensor is presented as the rows of its slices, one slice after the other. *)
Fixpoint rchunk (fuel c : nat) (l : list (list F)) : list (list (list F)) :=
  match fuel with O => [] | S fu => match l with [] => [] | _ :: _ => firstn c l :: rchunk fu c (skipn c l) end end.
Definition smooth_slices (t : F) (slices : list (list (list F))) : list (list (list F)) :=
  map (colwise Op (smoothness_solve Op t)) slices.
Definition smooth_nd (t : F) (d0 p : nat) (rows : list (list F)) : res (list (list F)) :=
  if Nat.eqb p d0 then Ok (concat (smooth_slices t (rchunk (length rows) p rows))) else Err.

(* `if n_const is None: return tensor`; `constraint, parameter = validate_constraints(...)` (may raise); `if constraint is None:
   return tensor`; else the branch of the selected name *)
Definition selected_pop (n_const : option nat) (order : nat) (specs : kwargs) (aux : F) : res pop :=
  match n_const with
  | None => Ok PIdentity
  | Some n =>
      match validate_kwargs n order specs with
      | Ok (Some (k, p)) => Ok (pop_of k p aux)
      | Ok None => Ok PIdentity
      | Err => Err
      end
  end.
(* `order` as the Python int the caller wrote: `constraints[order]` / `parameters[order]` index lists of length n_const, so a negative
   order counts from the last mode and an order outside [-n_const, n_const) raises IndexError - after validate_constraints' own checks
   (ValueError); either way the call raises *)
Definition selected_pop_z (n_const : option nat) (order : Z) (specs : kwargs) (aux : F) : res pop :=
  match n_const with
  | None => Ok PIdentity
  | Some n => match Constraints.resolve n order with Some o => selected_pop (Some n) o specs aux | None => Err end
  end.
Definition proximal_operator (n_const : option nat) (order : nat) (specs : kwargs) (aux : F) (rows : list (list F)) : res (list (list F)) :=
  match selected_pop n_const order specs aux with Ok o => Ok (prun o rows) | Err => Err end.
(* the same for a tensor with [ndim] dimensions: the selected operator may refuse it *)
Definition proximal_operator_nd (ndim : nat) (n_const : option nat) (order : nat) (specs : kwargs) (aux : F) (rows : list (list F)) : res (list (list F)) :=
  match selected_pop n_const order specs aux with
  | Ok o => if ndim_ok o ndim then Ok (prun o rows) else Err
  | Err => Err
  end.
End Run.
Arguments PNonneg {F}. Arguments PUnimodal {F}. Arguments PNormalize {F}. Arguments PIdentity {F}.
Arguments PMonotone {F}. Arguments PHard {F}.
