(* An a-posteriori bound for svd_thresholding computed from the recorded SVD answer alone (no exactness assumed): the amount by which the
   objective of the matrix the code returns can exceed the minimum (Proofs/ProxProofsSvtGap.svt_gap_sound).  Written once over a record of
   field operations: decided at Q on every svd_thresholding case of the correspondence, proved about at R.  Definitions only.
   e : the entrywise tolerance within which the Gram matrices of the singular vectors equal the identity. *)
From Coq Require Import List Arith Bool.
From TLV Require Import Base.Ops Model.Prox.
Import ListNotations.

Section Gap.
Context {F : Type} (Op : fops F).
Local Notation zero := (f0 Op).
Local Notation one := (f1 Op).
Local Infix "+f" := (fadd Op) (at level 50, left associativity).
Local Infix "-f" := (fsub Op) (at level 50, left associativity).
Local Infix "*f" := (fmul Op) (at level 40, left associativity).
Local Infix "/f" := (fdiv Op) (at level 40, left associativity).

(* Frobenius inner product, entrywise combination *)
Definition mat_frob (A B : list (list F)) : F := lsum Op (map (fun rr : list F * list F => dot Op (fst rr) (snd rr)) (combine A B)).
Definition mat_zip (f : F -> F -> F) (A B : list (list F)) : list (list F) :=
  map (fun rr : list F * list F => map (fun xy : F * F => f (fst xy) (snd xy)) (combine (fst rr) (snd rr))) (combine A B).
(* the weights of the dual certificate: min(s, t) / t = (s - soft_t(s)) / t  (0 when t = 0) *)
Definition svt_weights (t : F) (s : list F) : list F :=
  map (fun x => if feqb Op t zero then zero else (x -f soft1 Op t x) /f t) s.
Definition svt_gap (e : F) (U : list (list F)) (s : list F) (V : list (list F)) (t : F) (M : list (list F)) : F :=
  let sf := soft_thresholding Op t s in
  let X := mat_mul Op U (scale_rows Op sf V) in
  let c := one -f nat2F Op (length s) *f e in
  let W := map (map (fun x => c *f x)) (mat_mul Op U (scale_rows Op (svt_weights t s) V)) in
  let E := mat_zip (fun m xw => m -f xw) M (mat_zip (fun x w => x +f t *f w) X W) in
  t *f ((one +f e) *f lsum Op sf -f mat_frob W X) +f mat_frob E E /f two Op.
(* the two Gram matrices the SVD contract is about *)
Definition gram_cols (U : list (list F)) : list (list F) := mat_mul Op (cols_of Op U) U.     (* U^T U *)
Definition gram_rows (V : list (list F)) : list (list F) := mat_mul Op V (cols_of Op V).     (* V V^T *)
(* procrustes without the exact SVD contract: <Q, M> <= <U V, M> + procrustes_gap for every Q with orthonormal columns (rows); d > 0 is a free
   weight of the Cauchy-Schwarz step for the reconstruction residual M - U diag(s) V *)
Definition procrustes_gap (e d : F) (U : list (list F)) (s : list F) (V M : list (list F)) : F :=
  let R := mat_zip (fun a b => a -f b) M (mat_mul Op U (scale_rows Op s V)) in
  let mn := nat2F Op (if Nat.leb (length M) (length (hd [] M)) then length (hd [] M) else length M) in     (* max(m, n) *)
  ((one +f e) *f lsum Op s +f (d *f mn +f mat_frob R R /f d) /f two Op) -f mat_frob (mat_mul Op U V) M.
End Gap.
