(* The CANDIDATE repair of unimodality_prox (build/fix_candidates/C12_unimodality_exact.diff), not the current code: for every row m the
   non-decreasing fit of the first m + 1 entries followed by the non-increasing fit of the others; the candidate nearest to the column
   (first one among equals, as the patch's `error < best_error`) is returned.  Definitions only; proved exact in Proofs/ProxProofsUniExact.v.
   Nothing in Props/C12.v or Corr/C12.v refers to this file. *)
From Coq Require Import List Arith Bool.
From TLV Require Import Base.Ops Model.Prox.
Import ListNotations.

Section UniExact.
Context {F : Type} (Op : fops F).
Definition uni_split (m : nat) (v : list F) : list F :=
  monotone_inc Op (firstn (S m) v) ++ monotonicity_prox Op true (skipn (S m) v).
Definition uni_candidates (v : list F) : list (list F) := map (fun m => uni_split m v) (seq 0 (length v)).
Definition uni_exact (v : list F) : list F :=
  let cands := uni_candidates v in nth (argmin Op (map (fun c => dist2 Op c v) cands)) cands v.
End UniExact.
