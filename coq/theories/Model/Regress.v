(* Model of tensorly/regression: what CPRegressor / TuckerRegressor store at the end of fit
   and how predict uses it (same composition of partial_tensor_to_vec, reshape(-1), dot as the
   source, re-using the model of tensorly/base.py), and of CP_PLSR.fit / transform / predict
   (mean-centring, per-component score + deflation, coefficient regression) with the inner
   power iteration (initialize_cp's SVD, the normalisations, the stopping test) and lstsq as
   black boxes.  Polymorphic in the carrier through a record of operations: executed at Z and
   at Q (reduced after every operation), theorems over any commutative ring / over R.
   Definitions only. *)
From Coq Require Import List Arith Lia Bool Ring.
From TLV Require Import Base.Shape Base.PyList Base.Tensor Base.BigSum Base.Ops Model.Base.
Import ListNotations.

Section M.
Context {F : Type} (Op : fops F).

Definition fsumn (n : nat) (f : nat -> F) : F := bigsum F (f0 Op) (fadd Op) n f.
Definition fsum_idx (s : list nat) (f : list nat -> F) : F := sum_idx F (f0 Op) (fadd Op) s f.
Definition tget (t : tensor F) (idx : list nat) : F := get (f0 Op) t idx.

(* np.dot for the two operand ranks that occur: (n,k).(k,) and (n,k).(k,m) *)
Definition dot (a b : tensor F) : res (tensor F) :=
  match shape a, shape b with
  | [n; k], [k'] =>
      if Nat.eqb k k' then
        Ok (tabulate [n] (fun idx => fsumn k (fun j => fmul Op (tget a [nth 0 idx 0; j]) (tget b [j]))))
      else Err
  | [n; k], [k'; m] =>
      if Nat.eqb k k' then
        Ok (tabulate [n; m] (fun idx =>
              fsumn k (fun j => fmul Op (tget a [nth 0 idx 0; j]) (tget b [j; nth 1 idx 0]))))
      else Err
  | _, _ => Err
  end.

(* ---------------------------------------------------------------- CPRegressor.predict
   out_shape = (-1, *W.shape[ndim(X)-1:])
   weight_shape = (-1, prod(W.shape[ndim(X)-1:])) if ndim(W) > ndim(X)-1 else (-1,)
   reshape(dot(partial_tensor_to_vec(X), reshape(W, weight_shape)), out_shape) *)
Definition predict_cp (W X : tensor F) : res (tensor F) :=
  let k := ndim X - 1 in
  let tail := skipn k (shape W) in
  let out_spec := None :: map Some tail in
  let w_spec := if k <? ndim W then [None; Some (prod tail)] else [None] in
  rbind (partial_tensor_to_vec (f0 Op) X 1 0) (fun xv =>
  rbind (reshape_spec w_spec W) (fun wm =>
  rbind (dot xv wm) (fun p => reshape_spec out_spec p))).

(* ---------------------------------------------------------------- TuckerRegressor.predict
   dot(partial_tensor_to_vec(X), self.vec_W_) *)
Definition predict_tucker (vecW X : tensor F) : res (tensor F) :=
  rbind (partial_tensor_to_vec (f0 Op) X 1 0) (fun xv => dot xv vecW).

(* ---------------------------------------------------------------- what fit stores
   cp_to_tensor / tucker_to_tensor by their entrywise meaning (their code-level models belong
   to C02 / C03):   W[i1..iN] = sum_r w[r] * prod_k U_k[i_k, r]
                    W[i1..iN] = sum_J G[J] * prod_k U_k[i_k, J_k]          *)
Fixpoint cp_coeff (fs : list (tensor F)) (idx : list nat) (r : nat) : F :=
  match fs, idx with
  | U :: fs', i :: idx' => fmul Op (tget U [i; r]) (cp_coeff fs' idx' r)
  | _, _ => f1 Op
  end.
Definition factor_rows (fs : list (tensor F)) : list nat := map (fun U => nth 0 (shape U) 0) fs.
Definition cp_to_tensor (w : tensor F) (fs : list (tensor F)) : tensor F :=
  tabulate (factor_rows fs)
           (fun idx => fsumn (nth 0 (shape w) 0) (fun r => fmul Op (tget w [r]) (cp_coeff fs idx r))).

Fixpoint tk_coeff (fs : list (tensor F)) (idx J : list nat) : F :=
  match fs, idx, J with
  | U :: fs', i :: idx', j :: J' => fmul Op (tget U [i; j]) (tk_coeff fs' idx' J')
  | _, _, _ => f1 Op
  end.
Definition tucker_to_tensor (G : tensor F) (fs : list (tensor F)) : tensor F :=
  tabulate (factor_rows fs)
           (fun idx => fsum_idx (shape G) (fun J => fmul Op (tget G J) (tk_coeff fs idx J))).

(* the tail of fit:  self.weight_tensor_ = cp_to_tensor((weights, W)); self.cp_weight_ = (weights, W);
                     self.vec_W_ = cp_to_vec((weights, W)) = tensor_to_vec(cp_to_tensor(...)) *)
Record stored := mkStored { weight_tensor_ : tensor F; vec_W_ : res (tensor F) }.
Definition cp_fit_tail (w : tensor F) (fs : list (tensor F)) : stored :=
  mkStored (cp_to_tensor w fs) (tensor_to_vec (cp_to_tensor w fs)).
Definition tucker_fit_tail (G : tensor F) (fs : list (tensor F)) : stored :=
  mkStored (tucker_to_tensor G fs) (tensor_to_vec (tucker_to_tensor G fs)).

(* predictions of a fitted regressor *)
Definition cp_regressor_predict (w : tensor F) (fs : list (tensor F)) (X : tensor F) : res (tensor F) :=
  predict_cp (weight_tensor_ (cp_fit_tail w fs)) X.
Definition tucker_regressor_predict (G : tensor F) (fs : list (tensor F)) (X : tensor F) : res (tensor F) :=
  rbind (vec_W_ (tucker_fit_tail G fs)) (fun v => predict_tucker v X).

(* ---------------------------------------------------------------- CP_PLSR
   Samples along mode 0.  One component = one loading vector per non-sample mode. *)
Definition nsamp (X : tensor F) : nat := hd 0 (shape X).
Definition sshape (X : tensor F) : list nat := tl (shape X).

(* T.mean(X, axis=0) *)
Definition mean0 (X : tensor F) : tensor F :=
  tabulate (sshape X) (fun J => fdiv Op (fsumn (nsamp X) (fun i => tget X (i :: J))) (nat2F Op (nsamp X))).
(* X -= mean  (broadcast over the samples) *)
Definition center (X m : tensor F) : tensor F :=
  tabulate (shape X) (fun idx => fsub Op (tget X idx) (tget m (tl idx))).

(* entry J of outer(loading vectors) *)
Fixpoint rank1 (ls : list (tensor F)) (J : list nat) : F :=
  match ls, J with
  | l :: ls', j :: J' => fmul Op (tget l [j]) (rank1 ls' J')
  | _, _ => f1 Op
  end.
(* multi_mode_dot(X, loading vectors, range(1, ndim X))[i] *)
Definition score (X : tensor F) (ls : list (tensor F)) (i : nat) : F :=
  fsum_idx (sshape X) (fun J => fmul Op (tget X (i :: J)) (rank1 ls J)).
Definition scores (X : tensor F) (ls : list (tensor F)) : list F := map (score X ls) (seq 0 (nsamp X)).
(* X -= outer([t] + loading vectors) *)
Definition deflate (X : tensor F) (ls : list (tensor F)) (t : list F) : tensor F :=
  tabulate (shape X)
           (fun idx => fsub Op (tget X idx) (fmul Op (nth (hd 0 idx) t (f0 Op)) (rank1 ls (tl idx)))).

(* the component loop shared by transform and predict (X already centred) *)
Fixpoint transform_cols (X : tensor F) (loads : list (list (tensor F))) : list (list F) :=
  match loads with
  | [] => []
  | ls :: rest => let t := scores X ls in t :: transform_cols (deflate X ls t) rest
  end.
Definition cols_to_matrix (n : nat) (cols : list (list F)) : tensor F :=
  tabulate [n; length cols] (fun idx => nth (nth 0 idx 0) (nth (nth 1 idx 0) cols []) (f0 Op)).
(* CP_PLSR.transform(X) *)
Definition transform (xmean : tensor F) (loads : list (list (tensor F))) (X : tensor F) : tensor F :=
  cols_to_matrix (nsamp X) (transform_cols (center X xmean) loads).
(* CP_PLSR.predict(X) = dot(dot(X_projection, coef_), transpose(Y_factors[1])) + Y_mean_ *)
Definition plsr_predict (xmean ymean : tensor F) (loads : list (list (tensor F))) (coef yload : tensor F)
           (X : tensor F) : tensor F :=
  let S := transform xmean loads X in
  let C := length loads in
  tabulate [nsamp X; nth 0 (shape yload) 0]
    (fun idx => let i := nth 0 idx 0 in let o := nth 1 idx 0 in
       fadd Op (fsumn C (fun c' => fmul Op (fsumn C (fun c => fmul Op (tget S [i; c]) (tget coef [c; c'])))
                                             (tget yload [o; c'])))
               (tget ymean [o])).

(* fit: the power iteration of one component (initialize_cp / SVD, normalisations, stopping test) and
   lstsq are functions of the CURRENT (deflated) data only; they are black boxes here. *)
Section Fit.
Variable inner : tensor F -> tensor F -> list (tensor F) * tensor F.   (* -> loading vectors, comp_Y_factors_1 *)
Variable lstsq : list (list F) -> list F -> list F.                    (* score columns so far, u -> B *)

Record comp := mkComp { c_load : list (tensor F); c_score : list F; c_yload : tensor F; c_yscore : list F; c_B : list F }.

Definition yscore (Y q : tensor F) : list F :=
  map (fun i => fsumn (nth 1 (shape Y) 0) (fun o => fmul Op (tget Y [i; o]) (tget q [o]))) (seq 0 (nsamp Y)).
(* Y -= dot(dot(X_factors[0], B), comp_Y_factors_1') *)
Definition ydeflate (Y : tensor F) (Tc : list (list F)) (B : list F) (q : tensor F) : tensor F :=
  tabulate (shape Y) (fun idx => let i := nth 0 idx 0 in let o := nth 1 idx 0 in
    fsub Op (tget Y idx)
         (fmul Op (fsumn (length Tc) (fun c => fmul Op (nth i (nth c Tc []) (f0 Op)) (nth c B (f0 Op)))) (tget q [o]))).

Fixpoint fit_loop (k : nat) (X Y : tensor F) (Tprev : list (list F)) : list comp :=
  match k with
  | O => []
  | S k' =>
      let lq := inner X Y in
      let ls := fst lq in let q := snd lq in
      let t := scores X ls in
      let u := yscore Y q in
      let Tc := Tprev ++ [t] in
      let B := lstsq Tc u in
      mkComp ls t q u B :: fit_loop k' (deflate X ls t) (ydeflate Y Tc B q) Tc
  end.

Record plsr := mkPlsr { X_mean_ : tensor F; Y_mean_ : tensor F; comps : list comp }.
Definition fit (ncomp : nat) (X Y : tensor F) : plsr :=
  let mx := mean0 X in let my := mean0 Y in
  mkPlsr mx my (fit_loop ncomp (center X mx) (center Y my) []).

Definition loadings (p : plsr) : list (list (tensor F)) := map c_load (comps p).
Definition fitted_scores (p : plsr) : list (list F) := map c_score (comps p).
Definition fit_transform_X (p : plsr) (X : tensor F) : tensor F := transform (X_mean_ p) (loadings p) X.
(* coef_[:, c] = B of component c ; Y_factors[1][:, c] = comp_Y_factors_1 of component c *)
Definition coef_of (cs : list comp) : tensor F :=
  tabulate [length cs; length cs] (fun idx => nth (nth 0 idx 0) (nth (nth 1 idx 0) (map c_B cs) []) (f0 Op)).
Definition yload_of (m : nat) (cs : list comp) : tensor F :=
  tabulate [m; length cs] (fun idx => tget (nth (nth 1 idx 0) (map c_yload cs) (mk [] [])) [nth 0 idx 0]).
Definition fit_predict (p : plsr) (X : tensor F) : tensor F :=
  plsr_predict (X_mean_ p) (Y_mean_ p) (loadings p) (coef_of (comps p)) (yload_of (hd 0 (shape (Y_mean_ p))) (comps p)) X.
End Fit.

(* the Y branch of CP_PLSR.transform(X, Y) (Y already centred): per component the Y score Y.q, then
   Y -= (X_scores @ coef_[:, component]) q'.  Tc = all X score columns, bs = the columns of coef_ (entries beyond
   the end of a column read as 0, as coef_of pads them), qs = the Y loadings *)
Fixpoint ytransform_cols (Y : tensor F) (Tc : list (list F)) (bs : list (list F)) (qs : list (tensor F)) : list (list F) :=
  match bs, qs with
  | b :: bs', q :: qs' => yscore Y q :: ytransform_cols (ydeflate Y Tc b q) Tc bs' qs'
  | _, _ => []
  end.
(* the second component of CP_PLSR.transform(X, Y) of a fitted model *)
Definition fit_transform_Y (p : plsr) (X Y : tensor F) : list (list F) :=
  ytransform_cols (center Y (Y_mean_ p)) (transform_cols (center X (X_mean_ p)) (loadings p))
                  (map c_B (comps p)) (map c_yload (comps p)).

(* ---------------------------------------------------------------- the inner power iteration of CP_PLSR.fit
   (the body of `for iter in range(self.n_iter_max)`), concretely.  What stays a black box:
     sqrtF    the square root inside T.norm
     init     initialize_cp(Z, 1, normalize_factors=True).factors reshaped to vectors (SVD of the unfoldings of Z):
              a function of Z only
     ne_solve T.lstsq(X_factors[0], u) read as a function of the normal-equation data (T'T, T'u)
              (the minimum-norm least-squares solution pinv(T) u = pinv(T'T) T'u is such a function)
     tol      the stopping threshold *)
Section Inner.
Variable sqrtF : F -> F.
Variable init : tensor F -> list (tensor F).
Variable ne_solve : list (list F) -> list F -> list F.
Variable tol : F.

Definition sumsq (v : tensor F) : F := fsum_idx (shape v) (fun J => fmul Op (tget v J) (tget v J)).
Definition norm2 (v : tensor F) : F := sqrtF (sumsq v).
(* v / T.norm(v) *)
Definition normalize (v : tensor F) : tensor F :=
  tabulate (shape v) (fun J => fdiv Op (tget v J) (norm2 v)).

(* "l is the result of a normalisation" *)
Definition is_normalized (l : tensor F) : Prop := exists v, l = normalize v.

(* T.tensordot(X, u, axes=((0,), (0,)));  also T.dot(T.transpose(Y), t) for a matrix Y *)
Definition xty (X : tensor F) (u : list F) : tensor F :=
  tabulate (sshape X) (fun J => fsumn (nsamp X) (fun i => fmul Op (tget X (i :: J)) (nth i u (f0 Op)))).

(* multi_mode_dot(Z, Z_comp, skip=mode): every mode but `mode` contracted with its vector *)
Definition mode_factor (Z : tensor F) (ls : list (tensor F)) (mode : nat) : tensor F :=
  tabulate [nth mode (shape Z) 0] (fun idx =>
    fsum_idx (remove_nth mode (shape Z))
             (fun J' => fmul Op (tget Z (insert_at mode (nth 0 idx 0) J')) (rank1 (remove_nth mode ls) J'))).
(* for mode in range(len(Z_comp)): Z_comp[mode] = factor / T.norm(factor, 2) *)
Fixpoint mode_sweep (Z : tensor F) (ls : list (tensor F)) (modes : list nat) : list (tensor F) :=
  match modes with
  | [] => ls
  | m :: rest => mode_sweep Z (set_nth m (normalize (mode_factor Z ls m)) ls) rest
  end.

Definition col0 (Y : tensor F) : list F := map (fun i => tget Y [i; 0]) (seq 0 (nsamp Y)).

Record istate := mkI { i_ls : list (tensor F); i_t : list F; i_q : tensor F; i_u : list F }.
(* one pass of the body: Z, (first pass only) the SVD initialisation, the mode updates, the X scores,
   the normalised Y loading, the Y scores *)
Definition inner_step (X Y : tensor F) (ls0 : list (tensor F)) (u : list F) (first : bool) : istate :=
  let Z := xty X u in
  let ls1 := if first then init Z else ls0 in
  let ls2 := if 2 <=? ndim Z then mode_sweep Z ls1 (seq 0 (length ls1)) else [normalize Z] in
  let t := scores X ls2 in
  let q := normalize (xty Y t) in
  mkI ls2 t q (yscore Y q).
(* T.norm(old_comp_Y_factors_0 - comp_Y_factors_0) *)
Definition ldist (n : nat) (a b : list F) : F :=
  sqrtF (fsumn n (fun i => let dlt := fsub Op (nth i a (f0 Op)) (nth i b (f0 Op)) in fmul Op dlt dlt)).
(* passes 2, 3, ...: stop (keeping the values just computed) when the Y scores moved by less than tol *)
Fixpoint inner_loop (fuel : nat) (X Y : tensor F) (st : istate) : istate :=
  match fuel with
  | O => st
  | S k => let st' := inner_step X Y (i_ls st) (i_u st) false in
           if fltb Op (ldist (nsamp Y) (i_u st) (i_u st')) tol then st' else inner_loop k X Y st'
  end.
(* the first pass compares with +inf and never stops; the budget n_iter_max = 0 is rejected by cp_plsr_fit below (the source
   raises), inner_state itself is only used with n_iter_max >= 1 *)
Definition inner_state (n_iter_max : nat) (X Y : tensor F) : istate :=
  inner_loop (n_iter_max - 1) X Y (inner_step X Y [] (col0 Y) true).
Definition inner_cp (n_iter_max : nat) (X Y : tensor F) : list (tensor F) * tensor F :=
  let st := inner_state n_iter_max X Y in (i_ls st, i_q st).

Definition ldot (n : nat) (a b : list F) : F := fsumn n (fun i => fmul Op (nth i a (f0 Op)) (nth i b (f0 Op))).
Definition lstsq_ne (Tc : list (list F)) (u : list F) : list F :=
  ne_solve (map (fun a => map (fun b => ldot (length u) a b) Tc) Tc) (map (fun a => ldot (length u) a u) Tc).

(* CP_PLSR(n_components, tol, n_iter_max).fit(X, Y) *)
Definition fit_cp (n_iter_max ncomp : nat) (X Y : tensor F) : plsr :=
  fit (inner_cp n_iter_max) lstsq_ne ncomp X Y.
(* ... as the source behaves on the budget 0: with n_iter_max = 0 and at least one component the body of the pass loop
   never runs and fit raises (comp_Y_factors_1 is unbound); with no component nothing is computed and fit returns *)
Definition cp_plsr_fit (n_iter_max ncomp : nat) (X Y : tensor F) : res plsr :=
  if (n_iter_max =? 0) && (0 <? ncomp) then Err else Ok (fit_cp n_iter_max ncomp X Y).
End Inner.

(* ---------------------------------------------------------------- the iteration of CPRegressor.fit /
   TuckerRegressor.fit around the block updates: which iterate the stored attributes are taken from.
   `sweep` = one pass over all blocks (ridge solves; their models belong to C07), `rebuild` = cp_to_tensor /
   tucker_to_tensor of the current blocks, `nrm` = T.norm(., 2), `small a b` = |a - b| / a <= tol. *)
Section RegLoop.
Context {P : Type}.
Variable sweep : P -> P.
Variable rebuild : P -> tensor F.
Variable nrm : tensor F -> F.
Variable small : F -> F -> bool.

(* state after the loop: current blocks, the local weight_tensor_ (None before the first pass), the norms (latest first) *)
Fixpoint reg_loop (fuel iteration : nat) (w : P) (wt : option (tensor F)) (norms : list F) : P * option (tensor F) * list F :=
  match fuel with
  | O => (w, wt, norms)
  | S k =>
      let w' := sweep w in
      let wt' := rebuild w' in
      let norms' := nrm wt' :: norms in
      if (1 <? iteration) && (match norms' with a :: b :: _ => small a b | _ => false end)
      then (w', Some wt', norms')
      else reg_loop k (S iteration) w' (Some wt') norms'
  end.
Record reg_stored := mkReg { r_weight_tensor : tensor F; r_blocks : P; r_vec : res (tensor F) }.
(* self.weight_tensor_ = weight_tensor_; self.cp_weight_ = (weights, W); self.vec_W_ = cp_to_vec((weights, W)) *)
Definition reg_fit (n_iter_max : nat) (w0 : P) : res reg_stored :=
  match reg_loop n_iter_max 0 w0 None [] with
  | (w, Some wt, _) => Ok (mkReg wt w (tensor_to_vec (rebuild w)))
  | (_, None, _) => Err        (* n_iter_max = 0: weight_tensor_ is unbound, the source raises *)
  end.
End RegLoop.

(* ---------------------------------------------------------------- the ridge block updates of CPRegressor.fit, concretely.
   X : n :: sx (samples first), y : n :: so, fs = the factors of the sx modes followed by those of the so modes,
   all with R columns; weights are ones.  T.solve is a black box `solve block A B` (its answer is data).
   Entry-level transcription of the reshapes / transposes of the source:
     input mode i:   phi[(s, o), (j, r)] = sum_J' X[s, J' with j inserted at i] * prod_{k <> i} fs_k[(J' ++ o)_k, r]
                     W_i = reshape(solve(phi'phi + reg I, phi' reshape(y, -1)), (d_i, R))
     output mode l:  phi[(s, o'), r]     = sum_J X[s, J] * prod_{k <> i} fs_k[(J ++ o')_k, r]      (o' = o without position l)
                     Y_r[(s, o'), c]     = y[s, o' with c inserted at l]
                     W_i = transpose(solve(phi'phi + reg I, phi' Y_r)) *)
Section CpBlocks.
Variable solve : nat -> tensor F -> tensor F -> tensor F.
Variable reg : F.

Definition row_split (n : nat) (s : list nat) (row : nat) : nat * list nat :=
  let idx := unravel (n :: s) row in (hd 0 idx, tl idx).

Definition cp_phi_in (X : tensor F) (fs : list (tensor F)) (so : list nat) (R i : nat) : tensor F :=
  let n := nsamp X in let sx := sshape X in
  tabulate [n * prod so; nth i sx 0 * R] (fun idx =>
    let so_idx := row_split n so (nth 0 idx 0) in
    let j := nth 1 idx 0 / R in let r := nth 1 idx 0 mod R in
    fsum_idx (remove_nth i sx)
      (fun J' => fmul Op (tget X (fst so_idx :: insert_at i j J')) (cp_coeff (remove_nth i fs) (J' ++ snd so_idx) r))).

Definition cp_phi_out (X : tensor F) (fs : list (tensor F)) (so : list nat) (R i : nat) : tensor F :=
  let n := nsamp X in let sx := sshape X in let so' := remove_nth (i - length sx) so in
  tabulate [n * prod so'; R] (fun idx =>
    let so_idx := row_split n so' (nth 0 idx 0) in
    fsum_idx sx (fun J => fmul Op (tget X (fst so_idx :: J)) (cp_coeff (remove_nth i fs) (J ++ snd so_idx) (nth 1 idx 0)))).

(* reshape(moveaxis(y, l + 1, -1), (-1, y.shape[l + 1])) *)
Definition cp_y_out (y : tensor F) (so : list nat) (l : nat) : tensor F :=
  let n := nsamp y in let so' := remove_nth l so in
  tabulate [n * prod so'; nth l so 0] (fun idx =>
    let so_idx := row_split n so' (nth 0 idx 0) in
    tget y (fst so_idx :: insert_at l (nth 1 idx 0) (snd so_idx))).

(* dot(transpose(phi), phi) + reg * eye *)
Definition ridge_lhs (phi : tensor F) : tensor F :=
  let m := nth 0 (shape phi) 0 in let p := nth 1 (shape phi) 0 in
  tabulate [p; p] (fun idx => let a := nth 0 idx 0 in let b := nth 1 idx 0 in
    fadd Op (fsumn m (fun t => fmul Op (tget phi [t; a]) (tget phi [t; b])))
            (fmul Op reg (if a =? b then f1 Op else f0 Op))).
(* dot(transpose(phi), B) for a vector or a matrix B *)
Definition ridge_rhs (phi B : tensor F) : tensor F :=
  let m := nth 0 (shape phi) 0 in let p := nth 1 (shape phi) 0 in
  match shape B with
  | [_] => tabulate [p] (fun idx => fsumn m (fun t => fmul Op (tget phi [t; nth 0 idx 0]) (tget B [t])))
  | _ => tabulate [p; nth 1 (shape B) 0]
           (fun idx => fsumn m (fun t => fmul Op (tget phi [t; nth 0 idx 0]) (tget B [t; nth 1 idx 0])))
  end.
Definition mtranspose (M : tensor F) : tensor F :=
  tabulate [nth 1 (shape M) 0; nth 0 (shape M) 0] (fun idx => tget M [nth 1 idx 0; nth 0 idx 0]).

Definition cp_block (X y : tensor F) (so : list nat) (R : nat) (fs : list (tensor F)) (i : nat) : tensor F :=
  if i <? length (sshape X) then
    let phi := cp_phi_in X fs so R i in
    reshape [nth i (sshape X) 0; R] (solve i (ridge_lhs phi) (ridge_rhs phi (reshape [prod (shape y)] y)))
  else
    let phi := cp_phi_out X fs so R i in
    mtranspose (solve i (ridge_lhs phi) (ridge_rhs phi (cp_y_out y so (i - length (sshape X))))).
(* for i in range(len(W)): W[i] = ... (each block sees the blocks already updated in this pass) *)
Definition cp_sweep (X y : tensor F) (so : list nat) (R : nat) (fs : list (tensor F)) : list (tensor F) :=
  fold_left (fun cur i => set_nth i (cp_block X y so R cur i) cur) (seq 0 (length fs)) fs.
End CpBlocks.

(* ---------------------------------------------------------------- the ridge block updates of TuckerRegressor.fit, concretely.
   X : n :: sx, y : [n], G : core of shape gs, fs_k : (d_k x g_k).
     mode i:  phi[s, (j, q)] = sum_J' X[s, J' with j at i] * sum_K' G[K' with q at i] * prod_{k <> i} fs_k[J'_k, K'_k]
              W_i = vec_to_tensor(solve(phi'phi + reg I, phi'y), (d_i, g_i))
     core:    phi[s, K] = sum_J X[s, J] * prod_k fs_k[J_k, K_k];   G = vec_to_tensor(solve(phi'phi + reg I, phi'y), gs) *)
Section TkBlocks.
Variable solve : nat -> tensor F -> tensor F -> tensor F.
Variable reg : F.

Definition tk_phi_mode (X G : tensor F) (fs : list (tensor F)) (i : nat) : tensor F :=
  let sx := sshape X in let qi := nth i (shape G) 0 in
  tabulate [nsamp X; nth i sx 0 * qi] (fun idx =>
    let j := nth 1 idx 0 / qi in let q := nth 1 idx 0 mod qi in
    fsum_idx (remove_nth i sx) (fun J' => fmul Op (tget X (nth 0 idx 0 :: insert_at i j J'))
      (fsum_idx (remove_nth i (shape G))
                (fun K' => fmul Op (tget G (insert_at i q K')) (tk_coeff (remove_nth i fs) J' K'))))).
Definition tk_phi_core (X : tensor F) (fs : list (tensor F)) (gs : list nat) : tensor F :=
  tabulate [nsamp X; prod gs] (fun idx =>
    fsum_idx (sshape X) (fun J => fmul Op (tget X (nth 0 idx 0 :: J)) (tk_coeff fs J (unravel gs (nth 1 idx 0))))).
Definition tk_block (X y G : tensor F) (fs : list (tensor F)) (i : nat) : tensor F :=
  let phi := tk_phi_mode X G fs i in
  reshape [nth i (sshape X) 0; nth i (shape G) 0] (solve i (ridge_lhs reg phi) (ridge_rhs phi y)).
Definition tk_core_update (X y G : tensor F) (fs : list (tensor F)) : tensor F :=
  let phi := tk_phi_core X fs (shape G) in
  reshape (shape G) (solve (length fs) (ridge_lhs reg phi) (ridge_rhs phi y)).
(* one pass: the factors in turn (each sees the ones already updated), then the core *)
Definition tk_concrete_sweep (X y : tensor F) (b : tensor F * list (tensor F)) : tensor F * list (tensor F) :=
  let fs' := fold_left (fun cur i => set_nth i (tk_block X y (fst b) cur i) cur) (seq 0 (length (snd b))) (snd b) in
  (tk_core_update X y (fst b) fs', fs').
End TkBlocks.

(* the two instances of `rebuild`: blocks = (weights, factors) resp. (core, factors) *)
Definition cp_rebuild (b : tensor F * list (tensor F)) : tensor F := cp_to_tensor (fst b) (snd b).
Definition tucker_rebuild (b : tensor F * list (tensor F)) : tensor F := tucker_to_tensor (fst b) (snd b).

(* one pass of CPRegressor.fit over the blocks (weights, factors): the weights stay ones *)
Definition cp_concrete_sweep (solve : nat -> tensor F -> tensor F -> tensor F) (reg : F) (X y : tensor F) (so : list nat) (R : nat)
  (b : tensor F * list (tensor F)) : tensor F * list (tensor F) := (fst b, cp_sweep solve reg X y so R (snd b)).

(* helpers for statements: adding a constant tensor to every sample; re-ordering samples *)
Definition shift (X c : tensor F) : tensor F :=
  tabulate (shape X) (fun idx => fadd Op (tget X idx) (tget c (tl idx))).
Definition tadd (a b : tensor F) : tensor F :=
  tabulate (shape a) (fun idx => fadd Op (tget a idx) (tget b idx)).
Definition perm_samples (p : list nat) (X : tensor F) : tensor F :=
  tabulate (shape X) (fun idx => tget X (nth (hd 0 idx) p 0 :: tl idx)).
Definition rows_ok (n : nat) (p : list nat) : Prop := forall i, i < n -> nth i p 0 < n.
Definition pick (n : nat) (p : list nat) (t : list F) : list F := map (fun i => nth (nth i p 0) t (f0 Op)) (seq 0 n).

End M.

(* "Op is a commutative ring" (the hypothesis of the ring-regime theorems; Z and R are instances) *)
Definition is_ring {F} (Op : fops F) : Prop :=
  ring_theory (f0 Op) (f1 Op) (fadd Op) (fmul Op) (fsub Op) (fopp Op) (@eq F).
