(* Model of the estimator OBJECTS of tensorly/regression: what a sequence of calls on one CPRegressor / TuckerRegressor /
   CP_PLSR object does to its attributes and what each call returns.
     - the regressors' fit also stores n_iterations_ (= iteration + 1) and norm_W_ (reg_fit_full);
     - regressor object: attributes are absent before the first successful fit (predict raises AttributeError), a fit that
       raises (n_iter_max = 0) assigns nothing, a successful fit re-binds every attribute, set_params only touches the
       constructor parameters, predict reads the attributes only;
     - CP_PLSR object: the argument validation of fit / predict / transform (coupled first modes, ndim X >= 2, ndim Y in
       {1, 2}, vector Y -> column, per-sample shape of new data), the attributes fit assigns BEFORE the component loop (so that
       a fit raising inside the loop, budget n_iter_max = 0, leaves zero factors behind), predict / transform reading
       n_components at CALL time (set_params after fit: predict raises unless it equals the fitted width, transform(X) returns
       the leading columns when it is smaller), fit_transform = fit then transform(X, Y).
   Definitions only. *)
From Coq Require Import List Arith Lia Bool.
From Coq Require String.
Import String.StringSyntax.
Delimit Scope string_scope with string.
From TLV Require Import Base.Shape Base.PyList Base.Tensor Base.BigSum Base.Ops Model.Base Model.Regress.
Import ListNotations.

Fixpoint nl_eqb (a b : list nat) : bool :=
  match a, b with [], [] => true | x :: a', y :: b' => Nat.eqb x y && nl_eqb a' b' | _, _ => false end.

(* the stopping test of both regressors: weight_evolution = |norm_W[-1] - norm_W[-2]| / norm_W[-1] <= tol *)
Definition rel_small {F : Type} (Op : fops F) (tol a b : F) : bool := fleb Op (fdiv Op (fabs Op (fsub Op a b)) a) tol.

(* the shape tests of CP_PLSR as functions of the shapes alone (the entry points below raise exactly when these say so;
   harness/props/C19.py regenerates them from the current Python source on every run and re-proves the equalities) *)
Definition plsr_fit_rejects (sx sy : list nat) : bool :=
  match sx, sy with
  | nx :: _, ny :: _ => negb (nx =? ny) || (length sx <? 2) || negb ((length sy =? 1) || (length sy =? 2))
  | _, _ => true
  end.
Definition y_matrix_shape (sy : list nat) : list nat := match sy with [n] => [n; 1] | _ => sy end.
Definition plsr_new_x_rejects (xshape s : list nat) : bool := negb (nl_eqb (tl xshape) (tl s)).
Definition plsr_new_y_rejects (yshape sy : list nat) : bool :=
  negb ((length sy =? 1) || (length sy =? 2)) || negb (nl_eqb (tl yshape) (tl (y_matrix_shape sy))).
(* the attributes CP_PLSR.fit binds before its component loop (what a fit raising inside the loop leaves behind) *)
Definition plsr_pre_loop_attrs : list String.string :=
  ["X_shape_"; "Y_shape_"; "X_mean_"; "Y_mean_"; "X_factors"; "Y_factors"; "coef_"]%string.

(* ---------------------------------------------------------------- n_iterations_ and norm_W_ of the regressors' fit *)
Section Trace.
Context {F P : Type}.
Variable sweep : P -> P.
Variable rebuild : P -> tensor F.
Variable nrm : tensor F -> F.
Variable small : F -> F -> bool.

Record reg_full := mkFull { rf_stored : reg_stored (F:=F) (P:=P); rf_n_iterations : nat; rf_norm_W : list F }.
(* self.n_iterations_ = iteration + 1 (one norm is appended per executed pass); self.norm_W_ = norm_W (oldest first) *)
Definition reg_fit_full (n_iter_max : nat) (w0 : P) : res reg_full :=
  match reg_loop sweep rebuild nrm small n_iter_max 0 w0 None [] with
  | (w, Some wt, norms) => Ok (mkFull (mkReg wt w (tensor_to_vec (rebuild w))) (length norms) (rev norms))
  | (_, None, _) => Err
  end.

(* specification vocabulary: the blocks after k passes, the norm after pass j, the stopping test made in pass j (1-based;
   `iteration > 1` = from the third pass on) *)
Fixpoint passes (k : nat) (w0 : P) : P := match k with O => w0 | S k' => sweep (passes k' w0) end.
Definition norm_at (w0 : P) (j : nat) : F := nrm (rebuild (passes j w0)).
Definition stop_test (w0 : P) (j : nat) : bool := small (norm_at w0 j) (norm_at w0 (j - 1)).
End Trace.

(* ---------------------------------------------------------------- a regressor object under a sequence of calls
   Prm = the constructor parameters (what get_params returns), D = the arguments of fit, St = the attributes fit assigns *)
Section RegObj.
Context {F Prm D St : Type}.
Variable fit_of : Prm -> D -> res St.
Variable predict_of : St -> tensor F -> res (tensor F).

Record robj := mkRobj { o_params : Prm; o_attrs : option St }.
Inductive rcall := RFit (d : D) | RPredict (X : tensor F) | RSetParams (p : Prm) | RGetParams.
Inductive rout := OSelf | ORaise | OTensor (t : tensor F) | OParams (p : Prm).

Definition rstep (o : robj) (c : rcall) : robj * rout :=
  match c with
  | RFit d => match fit_of (o_params o) d with
              | Ok st => (mkRobj (o_params o) (Some st), OSelf)
              | Err => (o, ORaise)                      (* the attributes are assigned after the loop only *)
              end
  | RPredict X => (o, match o_attrs o with
                      | None => ORaise                  (* AttributeError: weight_tensor_ / vec_W_ *)
                      | Some st => match predict_of st X with Ok t => OTensor t | Err => ORaise end
                      end)
  | RSetParams p => (mkRobj p (o_attrs o), OSelf)
  | RGetParams => (o, OParams (o_params o))
  end.
Fixpoint rrun (o : robj) (cs : list rcall) : robj * list rout :=
  match cs with
  | [] => (o, [])
  | c :: rest => let s := rstep o c in let r := rrun (fst s) rest in (fst r, snd s :: snd r)
  end.
(* a call that cannot re-bind the attributes *)
Definition keeps_attrs (o : robj) (c : rcall) : Prop :=
  match c with RFit d => fit_of (o_params o) d = Err | _ => True end.
(* a history without a successful fit *)
Fixpoint no_refit (o : robj) (cs : list rcall) : Prop :=
  match cs with [] => True | c :: rest => keeps_attrs o c /\ no_refit (fst (rstep o c)) rest end.
(* the constructor parameters in force after a history: those of the last set_params *)
Definition last_params (p : Prm) (cs : list rcall) : Prm :=
  fold_left (fun q c => match c with RSetParams q' => q' | _ => q end) cs p.
End RegObj.

(* ---------------------------------------------------------------- the CP_PLSR object *)
Section PlsrObj.
Context {F : Type} (Op : fops F).
Variable sqrtF : F -> F.
Variable init : tensor F -> list (tensor F).
Variable ne_solve : list (list F) -> list F -> list F.

Record pprm := mkPprm { pp_ncomp : nat; pp_niter : nat; pp_tol : F }.
(* X_shape_, Y_shape_, and (X_mean_, Y_mean_, one record per column of X_factors / Y_factors / coef_) *)
Record pattrs := mkPattrs { a_xshape : list nat; a_yshape : list nat; a_fit : plsr (F:=F) }.

(* if T.ndim(Y) == 1: Y = T.reshape(Y, (-1, 1)) *)
Definition as_matrix (Y : tensor F) : tensor F :=
  match shape Y with [n] => mk [n; 1] (data Y) | _ => Y end.
(* the constant added to the targets, as the row the matrix form of Y is shifted by (vector Y: d is a scalar) *)
Definition y_offset (Y d : tensor F) : tensor F := match shape Y with [_] => mk [1] (data d) | _ => d end.
Definition zeros (s : list nat) : tensor F := tabulate s (fun _ => f0 Op).
(* the attributes as fit initialises them before the component loop: T.zeros columns *)
Definition zero_comp (X Y : tensor F) : comp (F:=F) :=
  mkComp (map (fun d => zeros [d]) (sshape X)) (repeat (f0 Op) (nsamp X)) (zeros [nth 1 (shape Y) 0])
         (repeat (f0 Op) (nsamp Y)) [].
Definition zero_plsr (ncomp : nat) (X Y : tensor F) : plsr (F:=F) :=
  mkPlsr (mean0 Op X) (mean0 Op Y) (repeat (zero_comp X Y) ncomp).

Inductive fit_outcome :=
| FitRaiseClean                      (* raised by the validation: no attribute touched *)
| FitRaisePartial (a : pattrs)       (* raised inside the component loop: shapes, means and zero factors are already assigned *)
| FitOk (a : pattrs).

(* CP_PLSR.fit(X, Y): validation in the source's order, then the assignments, then the component loop *)
Definition plsr_fit_entry (p : pprm) (X Y : tensor F) : fit_outcome :=
  match shape X, shape Y with
  | nx :: _, ny :: _ =>
      if negb (nx =? ny) then FitRaiseClean                                   (* first modes must be coupled *)
      else if ndim X <? 2 then FitRaiseClean                                  (* X must be at least a 2-mode tensor *)
      else if negb ((ndim Y =? 1) || (ndim Y =? 2)) then FitRaiseClean        (* only a vector or a matrix Y *)
      else
        let Y2 := as_matrix Y in
        match cp_plsr_fit Op sqrtF init ne_solve (pp_tol p) (pp_niter p) (pp_ncomp p) X Y2 with
        | Ok r => FitOk (mkPattrs (shape X) (shape Y2) r)
        | Err => FitRaisePartial (mkPattrs (shape X) (shape Y2) (zero_plsr (pp_ncomp p) X Y2))
        end
  | _, _ => FitRaiseClean                                                     (* T.shape(.)[0] of a 0-d array *)
  end.

(* a fit during which the lstsq call of component c raises (LinAlgError): the columns of components < c are complete, component c
   has its loadings and scores written (index_update precedes lstsq) but a zero coef_ column, later columns are still zero *)
Fixpoint fit_loop_until (inner : tensor F -> tensor F -> list (tensor F) * tensor F) (lstsq : list (list F) -> list F -> list F)
  (c k : nat) (X Y : tensor F) (Tprev : list (list F)) : list (comp (F:=F)) :=
  match k with
  | O => []
  | S k' =>
      let lq := inner X Y in
      let ls := fst lq in let q := snd lq in
      let t := scores Op X ls in
      let u := yscore Op Y q in
      let Tc := Tprev ++ [t] in
      match c with
      | O => mkComp ls t q u [] :: repeat (zero_comp X Y) k'
      | S c' => let B := lstsq Tc u in
                mkComp ls t q u B :: fit_loop_until inner lstsq c' k' (deflate Op X ls t) (ydeflate Op Y Tc B q) Tc
      end
  end.
Definition plsr_fit_entry_raising (c : nat) (p : pprm) (X Y : tensor F) : fit_outcome :=
  match plsr_fit_entry p X Y with
  | FitOk a =>
      if c <? pp_ncomp p then
        let Y2 := as_matrix Y in
        let mx := mean0 Op X in let my := mean0 Op Y2 in
        FitRaisePartial (mkPattrs (shape X) (shape Y2)
          (mkPlsr mx my (fit_loop_until (inner_cp Op sqrtF init (pp_tol p) (pp_niter p)) (lstsq_ne Op ne_solve) c (pp_ncomp p)
                                        (center Op X mx) (center Op Y2 my) [])))
      else FitOk a                                  (* that call is never reached *)
  | o => o                                          (* rejected, or raised before any lstsq call *)
  end.

(* a component whose coef_ column was not written *)
Definition strip_B (c : comp (F:=F)) : comp (F:=F) := mkComp (c_load c) (c_score c) (c_yload c) (c_yscore c) [].

Definition fitted_width (a : pattrs) : nat := length (comps (a_fit a)).
(* what the recorded shapes of any fit call look like *)
Definition attrs_shapes_ok (a : pattrs) : Prop :=
  2 <= length (a_xshape a) /\ length (a_yshape a) = 2 /\ hd 0 (a_xshape a) = hd 0 (a_yshape a).

(* CP_PLSR.predict(X): per-sample shape check; the loop runs over the CURRENT n_components: a larger value indexes past the
   fitted columns, a smaller one gives a (n, k') projection that cannot be multiplied with the (k, k) coef_ *)
Definition plsr_predict_entry (p : pprm) (a : pattrs) (X : tensor F) : res (tensor F) :=
  if negb (nl_eqb (tl (a_xshape a)) (tl (shape X))) then Err
  else if negb (pp_ncomp p =? fitted_width a) then Err
  else Ok (fit_predict Op (a_fit a) X).

(* CP_PLSR.transform(X, Y=None): X scores over the first n_components (current value) fitted components; with Y: validation
   of Y, then the Y scores, each deflation multiplying the (n, k') X scores with a length-k column of coef_.
   a Y with another number of samples than X is accepted by NumPy's in-place broadcast only for a single X sample *)
Definition plsr_transform_entry (p : pprm) (a : pattrs) (X : tensor F) (Yo : option (tensor F))
  : res (tensor F * option (tensor F)) :=
  let k' := pp_ncomp p in
  if negb (nl_eqb (tl (a_xshape a)) (tl (shape X))) then Err
  else if fitted_width a <? k' then Err
  else
    let loads := firstn k' (loadings (a_fit a)) in
    let Tcols := transform_cols Op (center Op X (X_mean_ (a_fit a))) loads in
    let Tx := cols_to_matrix Op (nsamp X) Tcols in
    match Yo with
    | None => Ok (Tx, None)
    | Some Y =>
        if negb ((ndim Y =? 1) || (ndim Y =? 2)) then Err
        else
          let Y2 := as_matrix Y in
          if negb (nl_eqb (tl (a_yshape a)) (tl (shape Y2))) then Err
          else if (0 <? k') && negb (k' =? fitted_width a) then Err
          (* Y -= (X_scores @ coef_[:, c]) q' in place: the (n_x, m) update must broadcast onto the (n_y, m) array *)
          else if (0 <? k') && negb (nsamp X =? nsamp Y2) && negb (nsamp X =? 1) then Err
          else
            let Tcols' := if nsamp X =? nsamp Y2 then Tcols
                          else map (fun col => repeat (hd (f0 Op) col) (nsamp Y2)) Tcols in    (* one sample: its row is broadcast *)
            Ok (Tx, Some (cols_to_matrix Op (nsamp Y2)
                     (ytransform_cols Op (center Op Y2 (Y_mean_ (a_fit a))) Tcols'
                        (firstn k' (map (c_B (F:=F)) (comps (a_fit a))))
                        (firstn k' (map (c_yload (F:=F)) (comps (a_fit a)))))))
    end.

(* CP_PLSR.score(X, Y) = R2_score(Y - Y_mean_, predict(X) - Y_mean_) = 1 - |predict(X) - Y|^2 / |Y - Y_mean_|^2
   (T.norm(.) ** 2 is modelled as the sum of squares) for a matrix Y *)
Definition plsr_score (a : pattrs) (X Y : tensor F) : F :=
  let Pr := fit_predict Op (a_fit a) X in
  let num := fsum_idx Op (shape Y) (fun J => let e := fsub Op (tget Op Pr J) (tget Op Y J) in fmul Op e e) in
  let den := fsum_idx Op (shape Y) (fun J => let e := fsub Op (tget Op Y J) (tget Op (Y_mean_ (a_fit a)) (tl J)) in fmul Op e e) in
  fsub Op (f1 Op) (fdiv Op num den).

Record pobj := mkPobj { po_prm : pprm; po_attrs : option pattrs }.
Inductive pcall :=
| PFit (X Y : tensor F) | PPredict (X : tensor F) | PTransform (X : tensor F) (Yo : option (tensor F))
| PFitTransform (X Y : tensor F) | PSetParams (p : pprm).
Inductive pout := PSelf | PRaise | PTensor (t : tensor F) | PPair (t u : tensor F).

Definition out_of_transform (r : res (tensor F * option (tensor F))) : pout :=
  match r with
  | Err => PRaise
  | Ok (t, None) => PTensor t
  | Ok (t, Some u) => PPair t u
  end.

Definition pstep (o : pobj) (c : pcall) : pobj * pout :=
  match c with
  | PFit X Y =>
      match plsr_fit_entry (po_prm o) X Y with
      | FitRaiseClean => (o, PRaise)
      | FitRaisePartial a => (mkPobj (po_prm o) (Some a), PRaise)
      | FitOk a => (mkPobj (po_prm o) (Some a), PSelf)
      end
  | PPredict X =>
      (o, match po_attrs o with
          | None => PRaise                              (* AttributeError: X_shape_ *)
          | Some a => match plsr_predict_entry (po_prm o) a X with Ok t => PTensor t | Err => PRaise end
          end)
  | PTransform X Yo =>
      (o, match po_attrs o with
          | None => PRaise
          | Some a => out_of_transform (plsr_transform_entry (po_prm o) a X Yo)
          end)
  | PFitTransform X Y =>                                (* return self.fit(X, Y).transform(X, Y) *)
      match plsr_fit_entry (po_prm o) X Y with
      | FitRaiseClean => (o, PRaise)
      | FitRaisePartial a => (mkPobj (po_prm o) (Some a), PRaise)
      | FitOk a => (mkPobj (po_prm o) (Some a), out_of_transform (plsr_transform_entry (po_prm o) a X (Some Y)))
      end
  | PSetParams p => (mkPobj p (po_attrs o), PSelf)
  end.
Fixpoint prun (o : pobj) (cs : list pcall) : pobj * list pout :=
  match cs with
  | [] => (o, [])
  | c :: rest => let s := pstep o c in let r := prun (fst s) rest in (fst r, snd s :: snd r)
  end.
End PlsrObj.
