(* Model of tensorly/regression, additions of round 7 (definitions only):
     - CP_PLSR.fit interrupted by initialize_cp raising (LinAlgError of its SVD, e.g. on non-finite data) in the first pass of
       component c: the columns of the components before c are complete, nothing of component c has been written (the
       index_update calls follow the pass loop), the later columns are still the zeros bound before the component loop;
     - CP_PLSR.score(X, Y) at the level of the entry point (it calls predict, so it raises exactly when predict raises);
     - "the samples of X are all equal" (degenerate training data). *)
From Coq Require Import List Arith Lia Bool.
From TLV Require Import Base.Shape Base.PyList Base.Tensor Base.BigSum Base.Ops Model.Base Model.Regress Model.RegressObj.
Import ListNotations.

Section PlsrObj2.
Context {F : Type} (Op : fops F).
Variable sqrtF : F -> F.
Variable init : tensor F -> list (tensor F).
Variable ne_solve : list (list F) -> list F -> list F.

(* the component loop with initialize_cp raising in component c *)
Fixpoint fit_loop_init_until (inner : tensor F -> tensor F -> list (tensor F) * tensor F) (lstsq : list (list F) -> list F -> list F)
  (c k : nat) (X Y : tensor F) (Tprev : list (list F)) : list (comp (F:=F)) :=
  match k with
  | O => []
  | S k' =>
      match c with
      | O => repeat (zero_comp Op X Y) (S k')
      | S c' =>
          let lq := inner X Y in
          let ls := fst lq in let q := snd lq in
          let t := scores Op X ls in
          let u := yscore Op Y q in
          let Tc := Tprev ++ [t] in
          let B := lstsq Tc u in
          mkComp ls t q u B :: fit_loop_init_until inner lstsq c' k' (deflate Op X ls t) (ydeflate Op Y Tc B q) Tc
      end
  end.

Definition plsr_fit_entry_init_raising (c : nat) (p : pprm) (X Y : tensor F) : fit_outcome (F:=F) :=
  match plsr_fit_entry Op sqrtF init ne_solve p X Y with
  | FitOk a =>
      if c <? pp_ncomp p then
        let Y2 := as_matrix Y in
        let mx := mean0 Op X in let my := mean0 Op Y2 in
        FitRaisePartial (mkPattrs (shape X) (shape Y2)
          (mkPlsr mx my (fit_loop_init_until (inner_cp Op sqrtF init (pp_tol p) (pp_niter p)) (lstsq_ne Op ne_solve) c (pp_ncomp p)
                                             (center Op X mx) (center Op Y2 my) [])))
      else FitOk a                                  (* that call is never reached *)
  | o => o                                          (* rejected, or raised before any initialize_cp call *)
  end.

(* CP_PLSR.score(X, Y) = R2_score(Y - self.Y_mean_, self.predict(X) - self.Y_mean_): it raises when predict raises.  The value
   is modelled for a MATRIX Y with one row per sample of X and one column per fitted target only (the statements about it carry
   that hypothesis); a vector Y is broadcast by the source against the (n, 1) predictions into an (n, n) array -- reported, see
   build/fix_candidates/C19_plsr_score_vector_y.md *)
Definition plsr_score_entry (p : pprm) (a : pattrs (F:=F)) (X Y : tensor F) : res F :=
  match plsr_predict_entry Op p a X with
  | Err => Err
  | Ok _ => Ok (plsr_score Op a X Y)
  end.

(* every sample of X is the same tensor *)
Definition constant_samples (X : tensor F) : Prop :=
  forall i J, i < nsamp X -> inb (sshape X) J -> tget Op X (i :: J) = tget Op X (0 :: J).
End PlsrObj2.
