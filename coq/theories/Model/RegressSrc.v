(* Support for the source tie of the ridge blocks of CPRegressor.fit / TuckerRegressor.fit (harness/props/C19.py regenerates the
   body of `for i in range(len(W))` -- and, for Tucker, the core update after it -- from the CURRENT Python source as a Gallina term
   over the code-level models of the functions the source calls, and compares it with Model/Regress.cp_sweep / tk_concrete_sweep on a
   finite box of integer problems by vm_compute):
     partial_unfold, partial_tensor_to_vec, unfold, vec_to_tensor, reshape(-1), moveaxis, transpose   Model/Base.v, Base/Tensor.v (C01)
     khatri_rao, kronecker                                                                           Model/Tenalg.v (C02)
     np.dot for an N-d first and a 1-d / 2-d second operand, eye, scalar * array, array + array       below
   Integer arrays (tensor Z); every array expression evaluates in the res monad (a shape error of the source is Err); integer
   expressions of the source (modes, shape entries, `i - T.ndim(X) + 2`) are Z-valued, Python's negative indices included.
   Definitions only. *)
From Coq Require Import List Arith ZArith Bool.
From TLV Require Import Base.Shape Base.PyList Base.Tensor Base.BigSum Base.Ops Model.Base Model.Tenalg Model.Regress.
Import ListNotations.

Definition RZ := res (tensor Z).
Definition rb2 {A B C} (f : A -> B -> res C) (a : res A) (b : res B) : res C := rbind a (fun x => rbind b (fun y => f x y)).
Definition zsum (n : nat) (f : nat -> Z) : Z := bigsum Z 0%Z Z.add n f.
Definition zget (t : tensor Z) (idx : list nat) : Z := get 0%Z t idx.

(* np.dot(A, B): the last axis of A against the first axis of a 1-d or 2-d B *)
Definition ndot (A B : tensor Z) : RZ :=
  let sa := shape A in let k := last sa 0 in let pre := removelast sa in let np := length pre in
  if length sa =? 0 then Err else
  match shape B with
  | [k'] => if k =? k' then Ok (tabulate pre (fun idx => zsum k (fun j => (zget A (idx ++ [j]) * zget B [j])%Z))) else Err
  | [k'; m] => if k =? k' then
                 Ok (tabulate (pre ++ [m]) (fun idx => zsum k (fun j => (zget A (firstn np idx ++ [j]) * zget B [j; nth np idx 0%nat])%Z)))
               else Err
  | _ => Err
  end.

(* Python indexing of a shape tuple by an integer: s[e], negative e from the end; out of range -> a poison value no shape has *)
Definition shape_at (s : list nat) (e : Z) : Z :=
  let n := Z.of_nat (length s) in
  let e' := if (e <? 0)%Z then (e + n)%Z else e in
  if ((0 <=? e') && (e' <? n))%Z then Z.of_nat (nth (Z.to_nat e') s 0) else (-1000003)%Z.
(* a non-negative integer as a mode / dimension; negative -> None *)
Definition znat (e : Z) : option nat := if (e <? 0)%Z then None else Some (Z.to_nat e).
(* a reshape target: -1 is the inferred dimension, other negative entries are errors *)
Definition spec_of (es : list Z) : option (list (option nat)) :=
  fold_right (fun e acc => match acc with None => None
                                     | Some l => if (e =? -1)%Z then Some (None :: l) else
                                                 match znat e with Some n => Some (Some n :: l) | None => None end end) (Some []) es.
Definition rreshape (t : tensor Z) (es : list Z) : RZ :=
  match spec_of es with Some spec => reshape_spec spec t | None => Err end.
(* np.transpose(t, p) / np.transpose(t) *)
Definition is_permb_n (p : list nat) (n : nat) : bool :=
  (length p =? n) && forallb (fun a => existsb (Nat.eqb a) p) (seq 0 n).
Definition rtranspose (t : tensor Z) (p : option (list Z)) : RZ :=
  match p with
  | None => Ok (transpose 0%Z (rev (seq 0 (ndim t))) t)
  | Some zs => match fold_right (fun e acc => match acc, znat e with Some l, Some n => Some (n :: l) | _, _ => None end) (Some []) zs with
               | Some q => if is_permb_n q (ndim t) then Ok (transpose 0%Z q t) else Err
               | None => Err
               end
  end.
(* np.moveaxis(t, src, dst), Python's negative axes *)
Definition axis_of (n : nat) (e : Z) : option nat :=
  let e' := if (e <? 0)%Z then (e + Z.of_nat n)%Z else e in
  if ((0 <=? e') && (e' <? Z.of_nat n))%Z then Some (Z.to_nat e') else None.
Definition rmoveaxis (t : tensor Z) (src dst : Z) : RZ :=
  match axis_of (ndim t) src, axis_of (ndim t) dst with
  | Some a, Some b => Ok (moveaxis 0%Z t a b)
  | _, _ => Err
  end.
Definition reye (e : Z) : RZ :=
  match znat e with Some n => Ok (tabulate [n; n] (fun idx => if nth 0 idx 0 =? nth 1 idx 0 then 1%Z else 0%Z)) | None => Err end.
Definition rscale (c : Z) (t : tensor Z) : RZ := Ok (tabulate (shape t) (fun idx => (c * zget t idx)%Z)).
Definition radd2 (a b : tensor Z) : RZ :=
  if nat_list_eq (shape a) (shape b) then Ok (tabulate (shape a) (fun idx => (zget a idx + zget b idx)%Z)) else Err.
(* the functions of tensorly the blocks call, with the source's keyword defaults filled in by the translator *)
Definition r_partial_unfold (t : tensor Z) (mode skip_begin skip_end : Z) (rav : bool) : RZ :=
  match znat mode, znat skip_begin, znat skip_end with
  | Some m, Some sb, Some se => partial_unfold 0%Z t m sb se rav
  | _, _, _ => Err
  end.
Definition r_partial_tensor_to_vec (t : tensor Z) (skip_begin skip_end : Z) : RZ := r_partial_unfold t 0%Z skip_begin skip_end true.
Definition r_unfold (t : tensor Z) (mode : Z) : RZ := match znat mode with Some m => unfold 0%Z t m | None => Err end.
Definition r_vec_to_tensor (v : tensor Z) (es : list Z) : RZ :=
  match fold_right (fun e acc => match acc, znat e with Some l, Some n => Some (n :: l) | _, _ => None end) (Some []) es with
  | Some s => vec_to_tensor v s | None => Err end.
Definition r_khatri_rao (Ms : list (tensor Z)) (skip : option Z) : RZ :=
  match skip with
  | None => khatri_rao ZR Ms None None None
  | Some e => match znat e with Some i => khatri_rao ZR Ms None None (Some i) | None => Err end
  end.
Definition r_kronecker (Ms : list (tensor Z)) (skip : option Z) : RZ :=
  match skip with
  | None => kronecker ZR Ms None false
  | Some e => match znat e with Some i => kronecker ZR Ms (Some i) false | None => Err end
  end.
Definition zshape (t : tensor Z) : list Z := map Z.of_nat (shape t).

(* the instrumented T.solve of the box comparison: an answer of the right shape that depends on every entry of both arguments *)
Definition box_solve (_ : nat) (A B : tensor Z) : tensor Z :=
  let p := nth 0 (shape A) 0 in
  match shape B with
  | [_] => tabulate [p] (fun idx => zsum p (fun t => (zget A [nth 0%nat idx 0%nat; t] * zget B [t])%Z))
  | _ => tabulate [p; nth 1 (shape B) 0] (fun idx => zsum p (fun t => (zget A [nth 0%nat idx 0%nat; t] * zget B [t; nth 1%nat idx 0%nat])%Z))
  end.

Fixpoint zts_eqb (a b : list (tensor Z)) : bool :=
  match a, b with
  | [], [] => true
  | x :: a', y :: b' => nat_list_eq (shape x) (shape y) && forallb (fun p => Z.eqb (fst p) (snd p)) (combine (data x) (data y))
                        && (length (data x) =? length (data y)) && zts_eqb a' b'
  | _, _ => false
  end.

(* ---- additions for the source tie of CP_PLSR.predict / transform (component loops; exact in Z: no division) ---- *)
(* a - b / a + b with NumPy's broadcast of a trailing-shape operand (X -= X_mean_, ... + Y_mean_) *)
Definition is_suffix (s t : list nat) : bool := (length s <=? length t) && nat_list_eq s (skipn (length t - length s) t).
Definition rbin_b (f : Z -> Z -> Z) (a b : tensor Z) : RZ :=
  if is_suffix (shape b) (shape a)
  then Ok (tabulate (shape a) (fun idx => f (zget a idx) (zget b (skipn (ndim a - ndim b) idx))))
  else Err.
Definition rzeros (es : list Z) : RZ :=
  match fold_right (fun e acc => match acc, znat e with Some l, Some n => Some (n :: l) | _, _ => None end) (Some []) es with
  | Some s => Ok (tabulate s (fun _ => 0%Z)) | None => Err end.
(* M[:, c] (total: the box keeps c inside the matrix) and T.index_update(M, T.index[:, c], v) *)
Definition zcol (M : tensor Z) (c : Z) : tensor Z := tabulate [nth 0 (shape M) 0] (fun idx => zget M [nth 0 idx 0; Z.to_nat c]).
Definition rset_col (c : Z) (M v : tensor Z) : RZ :=
  match shape M, shape v, znat c with
  | [n; k], [n'], Some j =>
      if (n =? n') && (j <? k) then Ok (tabulate [n; k] (fun idx => if nth 1 idx 0 =? j then zget v [nth 0 idx 0] else zget M idx)) else Err
  | _, _, _ => Err
  end.
Definition zrange (a b : Z) : list Z := map (fun k => (a + Z.of_nat k)%Z) (seq 0 (Z.to_nat (b - a))).
Definition r_multi_mode_dot (t : tensor Z) (Ms : list (tensor Z)) (modes : list Z) : RZ :=
  match fold_right (fun e acc => match acc, znat e with Some l, Some n => Some (n :: l) | _, _ => None end) (Some []) modes with
  | Some ms => if length ms =? length Ms then multi_mode_dot ZR t Ms (Some ms) None false else Err
  | None => Err
  end.
Definition r_outer (ts : list (tensor Z)) : RZ := outer ZR ts.
Definition zt_eqb1 (a b : tensor Z) : bool := zts_eqb [a] [b].
