(* C08 -- model of the STRUCTURE of the decompositions' outputs (definitions only).

   (a) the rank validators of cp_tensor.py / tucker_tensor.py / tt_tensor.py / tr_tensor.py /
       tt_matrix.py (int / list / fraction incl. 'same' = fraction 1; rounding modes),
   (b) the shape flow of tensor_train, tensor_train_matrix, tensor_ring (mode rotation as coded),
       tucker / partial_tucker (truncated_svd clipping), parafac*, parafac2, tensor_ring_als, CMTF,
   (c) the loop skeleton shared by parafac / non_negative_parafac / non_negative_parafac_hals with
       respect to factor normalisation (abstract state, explicit decision sequence).

   Everything is nat / Z / Q logic: no tensor entries occur.  brentq (Tucker fractions) and the
   closed-form quadratic root (TT fractions) are ORACLES: their answer is an argument [c] of the
   model, its defining equation is evaluated on the answer by [tucker_residual] / [tt_residual]. *)
From Coq Require Import List Arith ZArith QArith Qround Bool Lia.
From TLV Require Import Base.Shape Base.PyList Base.Tensor.
Import ListNotations.
Local Open Scope nat_scope.

(* ------------------------------------------------------------------ rank specifications *)
Inductive rounding := RRound | RFloor | RCeil.
Inductive rspec :=
| RInt (r : nat)              (* rank = 3 *)
| RList (l : list nat)        (* rank = [1, 2, 3, 1] *)
| RFrac (q : Q).              (* rank = 0.5 ; rank = 'same' is RFrac 1 *)

Definition sum_list (l : list nat) : nat := fold_right Nat.add 0 l.
Definition n2q (n : nat) : Q := inject_Z (Z.of_nat n).

(* np.round rounds half to even; np.floor; np.ceil -- on an exact rational *)
Definition round_half_even (x : Q) : Z :=
  let f := Qfloor x in
  match Qcompare (Qred (x - inject_Z f)%Q) (1 # 2)%Q with
  | Lt => f | Gt => (f + 1)%Z | Eq => if Z.even f then f else (f + 1)%Z end.
Definition qround (rd : rounding) (x : Q) : Z :=
  match rd with RRound => round_half_even x | RFloor => Qfloor x | RCeil => Qceiling x end.
Definition qround_nat (rd : rounding) (x : Q) : nat := Z.to_nat (qround rd x).

(* rounding_fun(np.sqrt(x)) for a non-negative rational x = a/b, decided exactly with integer square roots *)
Definition sqrt_round (rd : rounding) (x : Q) : Z :=
  let a := Qnum x in let b := Zpos (Qden x) in
  let n := (Z.sqrt (a * b) / b)%Z in                       (* floor (sqrt (a/b)) *)
  match rd with
  | RFloor => n
  | RCeil => if (n * n * b =? a)%Z then n else (n + 1)%Z
  | RRound => match ((2 * n + 1) * (2 * n + 1) * b ?= 4 * a)%Z with
              | Gt => n | Lt => (n + 1)%Z | Eq => if Z.even n then n else (n + 1)%Z end
  end.

(* ------------------------------------------------------------------ validate_cp_rank *)
Definition validate_cp_rank (shape : list nat) (spec : rspec) (rd : rounding) : res nat :=
  match spec with
  | RInt r => Ok r
  | RList _ => Err                                            (* returned unchanged by the code: not a CP rank *)
  | RFrac q => if sum_list shape =? 0 then Err
               else Ok (qround_nat rd (Qred (n2q (prod shape) * q / n2q (sum_list shape))%Q))
  end.

(* ------------------------------------------------------------------ validate_tucker_rank (fixed_modes = None) *)
(* c = brentq root of   P x^N + (sum s^2) x - q P = 0  on [0, max(q,1)] *)
Fixpoint qpow (x : Q) (n : nat) : Q := match n with O => 1%Q | S k => Qred (x * qpow x k)%Q end.
Definition sumsq_list (l : list nat) : nat := sum_list (map (fun s => s * s) l).
Definition tucker_residual (shape : list nat) (q c : Q) : Q :=
  let P := n2q (prod shape) in
  Qred (P * qpow c (length shape) + n2q (sumsq_list shape) * c - q * P)%Q.
Definition frac_ranks (rd : rounding) (c : Q) (dims : list Q) : list nat :=
  map (fun d => Nat.max (qround_nat rd (Qred (d * c)%Q)) 1) dims.
Definition validate_tucker_rank (shape : list nat) (spec : rspec) (rd : rounding) (c : Q) : res (list nat) :=
  match spec with
  | RInt r => Ok (repeat r (length shape))
  | RList l => Ok l
  | RFrac _ => Ok (frac_ranks rd c (map n2q shape))
  end.

(* ------------------------------------------------------------------ validate_tt_rank *)
Definition avg_dims (shape : list nat) : list Q :=
  map (fun p => Qred ((n2q (fst p) + n2q (snd p)) / 2)%Q) (combine shape (tl shape)).
Definition qsum (l : list Q) : Q := fold_right (fun a b => Qred (a + b)%Q) 0%Q l.
(* coefficients (a, b, c0) of the quadratic solved by the proportional-rank branch *)
Definition tt_quadratic (shape : list nat) (q : Q) : Q * Q * Q :=
  let av := avg_dims shape in
  let a := match av with
           | [a0] => Qred (a0 * a0 * n2q (hd 0%nat shape))%Q
           | _ => qsum (map (fun i => Qred (nth (i - 1)%nat av 0%Q * n2q (nth i shape 0%nat) * nth i av 0%Q)%Q)
                            (seq 1 (length shape - 2)))
           end in
  let b := Qred (n2q (hd 0%nat shape) * hd 0%Q av + n2q (last shape 0%nat) * last av 0%Q)%Q in
  (a, b, Qred (- (n2q (prod shape) * q))%Q).
(* constant-rank branch: a = sum shape[1:-1], b = shape[0] + shape[-1] *)
Definition tt_quadratic_const (shape : list nat) (q : Q) : Q * Q * Q :=
  (n2q (sum_list (removelast (tl shape))), n2q (hd 0 shape + last shape 0), Qred (- (n2q (prod shape) * q))%Q).
Definition tt_residual (abc : Q * Q * Q) (c : Q) : Q :=
  let '(a, b, c0) := abc in Qred (a * c * c + b * c + c0)%Q.

(* the ranks to the right of each core, as produced by the clipping recursion of TT-SVD: rk is the bond obtained on the left *)
Fixpoint tt_ranks (rk : nat) (shape ranks : list nat) : list nat :=
  match shape with
  | [] => []
  | s :: rest =>
      match rest with
      | [] => [1]
      | _ :: _ => let cur := Nat.min (Nat.min (rk * s) (prod rest)) (hd 0 ranks) in cur :: tt_ranks cur rest (tl ranks)
      end
  end.
Definition tt_clip (shape rank : list nat) : list nat :=
  (* allow_overparametrization = False (after 03a63dd): exactly the recursion of TT-SVD,
     validated[i+1] = min(validated[i]*s_i, prod shape[i+1:], rank[i+1]), boundary ranks 1 *)
  1 :: tt_ranks 1 shape (tl rank).

Definition validate_tt_rank (shape : list nat) (spec : rspec) (constant : bool) (rd : rounding)
           (allow_over : bool) (c : Q) : res (list nat) :=
  let n := length shape in
  let r :=
    match spec with
    | RFrac _ =>
        if constant then
          if n <=? 2 then Err                                 (* a = 0: 0/0 = nan, int(nan) raises *)
          else Ok (1 :: repeat (qround_nat rd c) (n - 1) ++ [1])
        else if n <=? 1 then Err
        else Ok (1 :: frac_ranks rd c (avg_dims shape) ++ [1])
    | RInt r => Ok (1 :: repeat r (n - 1) ++ [1])
    | RList l =>
        if negb (S n =? length l) then Err
        else if negb (hd 0 l =? 1) then Err
        else if negb (last l 0 =? 1) then Err
        else Ok l
    end in
  rbind r (fun rank => if allow_over then Ok rank else Ok (tt_clip shape rank)).

Definition validate_tt_matrix_rank (tshape : list nat) (spec : rspec) (c : Q) : res (list nat) :=
  let n := length tshape / 2 in
  if negb (n * 2 =? length tshape) then Err
  else validate_tt_rank (map (fun p => fst p * snd p) (combine (firstn n tshape) (skipn n tshape)))
                        spec false RRound true c.

(* ------------------------------------------------------------------ validate_tr_rank *)
Definition validate_tr_rank (shape : list nat) (spec : rspec) (rd : rounding) : res (list nat) :=
  let n := length shape in
  match spec with
  | RFrac q => if sum_list shape =? 0 then Err
               else Ok (repeat (Z.to_nat (sqrt_round rd (Qred (n2q (prod shape) * q / n2q (sum_list shape))%Q))) (S n))
  | RInt r => Ok (repeat r (S n))
  | RList l => if negb (S n =? length l) then Err
               else if negb (hd 0 l =? last l 0) then Err else Ok l
  end.

(* ------------------------------------------------------------------ truncated_svd (shapes only) *)
(* matrix m x n, n_eigenvecs = k: returns (columns of U, length of S, rows of V) *)
Definition svd_shapes (m n k : nat) : nat * nat * nat :=
  let k := Nat.min k (Nat.max m n) in
  if Nat.min m n <? k then (Nat.min k m, Nat.min m n, Nat.min k n) else (k, k, k).

(* ------------------------------------------------------------------ tensor_train *)
(* rk: rank carried from the left; ranks: the requested rank[k+1 ..]; result: shapes of the cores *)
Fixpoint tt_cores (rk : nat) (shape ranks : list nat) : list (list nat) :=
  match shape with
  | [] => []
  | s :: rest =>
      match rest with
      | [] => [[rk; s; 1]]
      | _ :: _ => let cur := Nat.min (Nat.min (rk * s) (prod rest)) (hd 0 ranks) in
                  [rk; s; cur] :: tt_cores cur rest (tl ranks)
      end
  end.
Definition core_ranks (cores : list (list nat)) : list nat :=
  map (fun c => nth 0 c 0) cores ++ [nth 2 (last cores []) 0].
Definition core_modes (cores : list (list nat)) : list nat := map (fun c => nth 1 c 0) cores.

Definition tensor_train (shape : list nat) (spec : rspec) (c : Q) : res (list (list nat)) :=
  rbind (validate_tt_rank shape spec false RRound true c) (fun rank =>
  if length shape <=? 1 then Err                              (* (prev_rank, last_dim) = unfolding.shape fails *)
  else Ok (tt_cores (hd 0 rank) shape (tl rank))).

(* what the TTTensor constructor recomputes from the factors: (factor shapes ..., shape, rank) *)
Definition tt_observe (cores : list (list nat)) : list (list nat) := cores ++ [core_modes cores; core_ranks cores].

Definition tensor_train_matrix (tshape : list nat) (spec : rspec) (c : Q) : res (list (list nat)) :=
  let n := length tshape / 2 in
  if negb (n * 2 =? length tshape) then Err
  else let ins := firstn n tshape in let outs := skipn n tshape in
  if n =? 1 then Ok [[1; hd 0 ins; hd 0 outs; 1]]
  else rbind (tensor_train (map (fun p => fst p * snd p) (combine ins outs)) spec c) (fun cores =>
       Ok (map (fun t => let '(cr, io) := t in [nth 0 cr 0; fst io; snd io; nth 2 cr 0]) (combine cores (combine ins outs)))).

(* ------------------------------------------------------------------ tensor_ring *)
Definition rot {A} (m : nat) (l : list A) : list A := skipn m l ++ firstn m l.   (* l[m:] + l[:m] *)
Fixpoint tr_mid (r0 rk : nat) (shape ranks : list nat) : list (list nat) :=
  match shape with
  | [] => []
  | s :: rest =>
      match rest with
      | [] => [[rk; s; r0]]
      | _ :: _ => let cur := Nat.min (Nat.min (rk * s) (prod rest * r0)) (hd 0 ranks) in
                  [rk; s; cur] :: tr_mid r0 cur rest (tl ranks)
      end
  end.
Definition tr_cores (shape rank : list nat) : res (list (list nat)) :=
  match shape, rank with
  | s0 :: rest, r0 :: r1 :: rks =>
      match rest with
      | [] => Err
      | _ :: _ => if Nat.min s0 (prod rest) <? r0 * r1 then Err
                  else Ok ([r0; s0; r1] :: tr_mid r0 r1 rest rks)
      end
  | _, _ => Err
  end.
(* the rank rotation of the cyclic (n+1)-entry rank list: rank[mode:n_dim] + rank[:mode+1]  (repair e10d22b) *)
Definition rot_ring (m : nat) (rank : list nat) : list nat := skipn m (removelast rank) ++ firstn (S m) rank.
Definition tensor_ring (shape : list nat) (spec : rspec) (mode : nat) : res (list (list nat)) :=
  rbind (validate_tr_rank shape spec RRound) (fun rank =>
  let n := length shape in
  if n <=? mode then Err else
  rbind (tr_cores (rot mode shape) (if mode =? 0 then rank else rot_ring mode rank)) (fun cores => Ok (rot (n - mode) cores))).
(* the pre-repair rotation rank[mode:] + rank[:mode] (duplicates the boundary entry), kept for the regression witness *)
Definition tensor_ring_pinned (shape : list nat) (spec : rspec) (mode : nat) : res (list (list nat)) :=
  rbind (validate_tr_rank shape spec RRound) (fun rank =>
  let n := length shape in
  if n <=? mode then Err else
  rbind (tr_cores (rot mode shape) (rot mode rank)) (fun cores => Ok (rot (n - mode) cores))).

(* ------------------------------------------------------------------ tucker (HOOI) *)
(* every factor is U[:, :rank] of a truncated SVD of an (I_k x anything) unfolding *)
Definition tucker_factor_cols (s r : nat) (other : nat) : nat := fst (fst (svd_shapes s other r)).
Definition tucker (shape : list nat) (spec : rspec) (c : Q) (random_init : bool) (n_iter : nat) : res (list (list nat)) :=
  rbind (validate_tucker_rank shape spec RRound c) (fun rank =>
  if negb (length rank =? length shape) then Err else
  let cols := if random_init && (n_iter =? 0) then rank
              else map (fun p => Nat.min (snd p) (fst p)) (combine shape rank) in
  Ok (cols :: map (fun p => [fst p; snd p]) (combine shape cols))).

Definition memb (x : nat) (l : list nat) : bool := existsb (Nat.eqb x) l.
(* partial_tucker on the listed modes (rank: one entry per LISTED mode, not validated): factor j is I_m x min(rank_j, I_m) for m = modes_j,
   the core keeps the full size on the other modes *)
Definition partial_tucker (shape : list nat) (rank modes : list nat) : res (list (list nat)) :=
  if negb (length rank =? length modes) then Err
  else if negb (forallb (fun m => m <? length shape) modes) then Err
  else
    let cols := map (fun p => Nat.min (snd p) (nth (fst p) shape 0)) (combine modes rank) in
    let core := fold_left (fun sh p => set_nth (fst p) (snd p) sh) (combine modes cols) shape in
    Ok (core :: map (fun p => [nth (fst p) shape 0; snd p]) (combine modes cols)).
(* tucker(fixed_factors=fixed, init=(core, factors) with factor m of shape I_m x rank_m), after the repair 86b5335: the rank is
   validated and sub-selected for the updated modes; a fixed mode keeps the user's factor (rank_m columns), an updated mode m gets
   min(rank_m, I_m) columns.  Before 86b5335 (aligned = false, kept for the regression witness) the full per-mode rank list was
   handed to partial_tucker, which indexes it by POSITION: updated mode m got rank[(number of non-fixed modes below m)]. *)
Definition pos_nonfixed (fixed : list nat) (m : nat) : nat := length (filter (fun i => negb (memb i fixed)) (seq 0 m)).
Definition tucker_fixed_cols (aligned : bool) (shape rank fixed : list nat) : list nat :=
  map (fun m => if memb m fixed then nth m rank 0
                else Nat.min (nth (if aligned then m else pos_nonfixed fixed m) rank 0) (nth m shape 0)) (seq 0 (length shape)).
Definition tucker_fixed (shape rank fixed : list nat) : res (list (list nat)) :=
  if negb (length rank =? length shape) then Err
  else let cols := tucker_fixed_cols true shape rank fixed in
  Ok (cols :: map (fun p => [fst p; snd p]) (combine shape cols)).
Definition tucker_fixed_old (shape rank fixed : list nat) : res (list (list nat)) :=
  if negb (length rank =? length shape) then Err
  else let cols := tucker_fixed_cols false shape rank fixed in
  Ok (cols :: map (fun p => [fst p; snd p]) (combine shape cols)).

(* ------------------------------------------------------------------ CP family, PARAFAC2, TR-ALS, CMTF *)
Definition cp_shapes (shape : list nat) (r : nat) : list (list nat) := [r] :: map (fun s => [s; r]) shape.
Definition parafac (shape : list nat) (spec : rspec) : res (list (list nat)) :=
  rbind (validate_cp_rank shape spec RRound) (fun r => Ok (cp_shapes shape r)).
(* slices: list of (J_i, K); returns weights, A, B, C, projections *)
Definition parafac2 (slices : list (nat * nat)) (r : nat) : res (list (list nat)) :=
  let k := snd (hd (0, 0) slices) in
  if k <? r then Err
  else if negb (forallb (fun p => snd p =? k) slices) then Err
  else Ok ([r] :: [length slices; r] :: [r; r] :: [k; r] :: map (fun p => [fst p; r]) slices).
Definition tensor_ring_als (shape : list nat) (spec : rspec) : res (list (list nat)) :=
  rbind (validate_tr_rank shape spec RRound) (fun rank =>
  Ok (map (fun i => [nth i rank 0; nth i shape 0; nth (S i) rank 0]) (seq 0 (length shape)))).
Definition cmtf (shape3 : list nat) (m : nat) (spec : rspec) : res (list (list nat)) :=
  rbind (validate_cp_rank shape3 spec RRound) (fun r =>
  Ok (cp_shapes shape3 r ++ cp_shapes [hd 0 shape3; m] r)).

(* ------------------------------------------------------------------ loop skeleton: normalisation *)
(* The three CP drivers share this control flow (after the repairs fe25b5c and 3de556b):
     state <- initialize_cp       (normalised iff normalize_factors, for every kind of initialisation)
     [parafac only: if every mode is fixed: return state]
     for iteration in range(n_iter_max):
         sweep                                   (includes in-sweep normalisations in the nn variants)
         [parafac only: if callback(...) is True: [normalise if requested]; break]
         if tol and iteration >= 1 and <converged>:  [normalise if requested]; break
         [normalise if requested]
     return state
   The data-dependent tests (callback's answer, <converged>) are abstracted by an explicit decision
   sequence: one pair (callback asked to stop, convergence test fired) per executed sweep. *)
Inductive init_kind := InitRandom | InitSvd | InitUser.
Section Skeleton.
  Variable St : Type.
  Variables (sweep normalise : St -> St).
  Definition norm_if (nf : bool) (s : St) : St := if nf then normalise s else s.
  Fixpoint cp_loop (nf tol_set : bool) (it fuel : nat) (decisions : list (bool * bool)) (s : St) : St :=
    match fuel with
    | O => s
    | S fuel' =>
        let s1 := sweep s in
        let d := hd (false, false) decisions in
        if fst d then norm_if nf s1                                   (* `if retVal is True: ...; break` *)
        else if tol_set && (1 <=? it) && snd d then norm_if nf s1     (* convergence exit *)
        else cp_loop nf tol_set (S it) fuel' (tl decisions) (norm_if nf s1)
    end.
  (* the kind of initialisation does not matter any more; the argument is kept so that the statements quantify over it *)
  Definition cp_run (nf tol_set : bool) (ik : init_kind) (all_fixed : bool) (n_iter_max : nat)
             (decisions : list (bool * bool)) (s0 : St) : St :=
    let s := norm_if nf s0 in
    if all_fixed then s else cp_loop nf tol_set 0 n_iter_max decisions s.

  (* the control flow before 3de556b, kept for the regression witnesses: a user initialisation was handed on as it
     came, and the callback exit did not normalise *)
  Definition init_state_old (nf : bool) (ik : init_kind) (s0 : St) : St :=
    match ik with InitUser => s0 | _ => norm_if nf s0 end.
  Fixpoint cp_loop_old (nf tol_set : bool) (it fuel : nat) (decisions : list (bool * bool)) (s : St) : St :=
    match fuel with
    | O => s
    | S fuel' =>
        let s1 := sweep s in
        let d := hd (false, false) decisions in
        if fst d then s1
        else if tol_set && (1 <=? it) && snd d then norm_if nf s1
        else cp_loop_old nf tol_set (S it) fuel' (tl decisions) (norm_if nf s1)
    end.
  Definition cp_run_old (nf tol_set : bool) (ik : init_kind) (all_fixed : bool) (n_iter_max : nat)
             (decisions : list (bool * bool)) (s0 : St) : St :=
    let s := init_state_old nf ik s0 in
    if all_fixed then s else cp_loop_old nf tol_set 0 n_iter_max decisions s.

  (* the control flow before fe25b5c (break BEFORE the end-of-sweep normalisation), kept for the regression witness *)
  Fixpoint cp_loop_pinned (nf tol_set : bool) (it fuel : nat) (decisions : list bool) (s : St) : St :=
    match fuel with
    | O => s
    | S fuel' =>
        let s1 := sweep s in
        if tol_set && (1 <=? it) && hd false decisions then s1
        else cp_loop_pinned nf tol_set (S it) fuel' (tl decisions) (if nf then normalise s1 else s1)
    end.
End Skeleton.

(* ------------------------------------------------------------------ loop skeletons of the other drivers with normalize_factors *)
(* non_negative_tucker / non_negative_tucker_hals (scale carried by the core, tucker_normalize), after the repair 1c1a684:
     state <- initialize_tucker ; [normalise if requested]
     for iteration in range(n_iter_max):
         sweep
         if [tol and] iteration > 1 and <converged>: [normalise if requested]; break
         [normalise if requested]
     return state
   parafac2:
     state <- initialize_decomposition ; [normalise if requested]
     for iteration in range(n_iter_max):
         sweep ; [normalise if requested]
         if tol and iteration >= 1 and <converged>: break
     return state
   One boolean decision (the convergence test fired) per executed sweep. *)
Section Skeleton2.
  Variable St : Type.
  Variables (sweep normalise : St -> St).
  Fixpoint nt_loop (nf tol_set : bool) (it fuel : nat) (decisions : list bool) (s : St) : St :=
    match fuel with
    | O => s
    | S fuel' =>
        let s1 := norm_if St normalise nf (sweep s) in
        if tol_set && (2 <=? it) && hd false decisions then s1
        else nt_loop nf tol_set (S it) fuel' (tl decisions) s1
    end.
  Definition nt_run (nf tol_set : bool) (n_iter_max : nat) (decisions : list bool) (s0 : St) : St :=
    nt_loop nf tol_set 0 n_iter_max decisions (norm_if St normalise nf s0).
  Fixpoint p2_loop (nf tol_set : bool) (it fuel : nat) (decisions : list bool) (s : St) : St :=
    match fuel with
    | O => s
    | S fuel' =>
        let s1 := norm_if St normalise nf (sweep s) in
        if tol_set && (1 <=? it) && hd false decisions then s1
        else p2_loop nf tol_set (S it) fuel' (tl decisions) s1
    end.
  Definition p2_run (nf tol_set : bool) (n_iter_max : nat) (decisions : list bool) (s0 : St) : St :=
    p2_loop nf tol_set 0 n_iter_max decisions (norm_if St normalise nf s0).
  (* the control flow before 1c1a684, kept for the regression witnesses: the initialisation was never normalised, and the
     convergence break of the Tucker drivers preceded the normalisation *)
  Fixpoint nt_loop_old (nf tol_set : bool) (it fuel : nat) (decisions : list bool) (s : St) : St :=
    match fuel with
    | O => s
    | S fuel' =>
        let s1 := sweep s in
        if tol_set && (2 <=? it) && hd false decisions then s1
        else nt_loop_old nf tol_set (S it) fuel' (tl decisions) (norm_if St normalise nf s1)
    end.
  Definition nt_run_old (nf tol_set : bool) (n_iter_max : nat) (decisions : list bool) (s0 : St) : St :=
    nt_loop_old nf tol_set 0 n_iter_max decisions s0.
  Definition p2_run_old (nf tol_set : bool) (n_iter_max : nat) (decisions : list bool) (s0 : St) : St :=
    p2_loop nf tol_set 0 n_iter_max decisions s0.
End Skeleton2.

(* ------------------------------------------------------------------ the skeleton run on event traces *)
(* EvU m: the factor of mode m is replaced (one unfolding_dot_khatri_rao call per update in all three drivers);
   EvN: cp_normalize is applied to the current (weights, factors). *)
Inductive ev := EvU (mode : nat) | EvN.
Inductive driver := Parafac | NnMu | NnHals.
Definition is_nn (d : driver) : bool := match d with Parafac => false | _ => true end.
(* the modes that are updated: parafac / non_negative_parafac refuse to fix the last mode, HALS accepts it *)
Definition modes_list (d : driver) (n_modes : nat) (fixed : list nat) : list nat :=
  let fixed' := match d with NnHals => fixed | _ => filter (fun m => negb (m =? n_modes - 1)) fixed end in
  filter (fun m => negb (memb m fixed')) (seq 0 n_modes).
(* the nn drivers normalise after every mode update except the last of the sweep *)
Definition trace_sweep (in_sweep_norm : bool) (modes : list nat) (s : list ev) : list ev :=
  s ++ flat_map (fun m => EvU m :: (if in_sweep_norm && negb (m =? last modes 0) then [EvN] else [])) modes.
Fixpoint nlist_eqb (a b : list nat) : bool :=
  match a, b with [], [] => true | x :: a', y :: b' => (x =? y) && nlist_eqb a' b' | _, _ => false end.
(* parafac: `if fixed_modes == list(range(ndim)): return the initialisation` *)
Definition all_fixed (d : driver) (n_modes : nat) (fixed : list nat) : bool :=
  match d with Parafac => nlist_eqb fixed (seq 0 n_modes) | _ => false end.
Definition trace_run (d : driver) (nf tol_set : bool) (ik : init_kind) (n_modes : nat) (fixed : list nat)
           (n_iter_max : nat) (decisions : list (bool * bool)) : list ev :=
  cp_run (list ev) (trace_sweep (nf && is_nn d) (modes_list d n_modes fixed)) (fun s => s ++ [EvN])
         nf tol_set ik (all_fixed d n_modes fixed) n_iter_max decisions [].
(* what the property is about: the schedule of factor updates, whether a normalisation follows the last update
   (no update: whether any normalisation happened), whether any normalisation happened at all *)
Definition updates (t : list ev) : list nat := flat_map (fun e => match e with EvU m => [m] | EvN => [] end) t.
Definition ends_normalised (t : list ev) : bool := match rev t with EvN :: _ => true | _ => false end.
Definition any_normalise (t : list ev) : bool := existsb (fun e => match e with EvN => true | _ => false end) t.

(* the other drivers on event traces: EvU 0 stands for one whole sweep *)
Inductive driver2 := NnTucker | NnTuckerHals | Parafac2.
Definition trace_run2 (d : driver2) (nf tol_set : bool) (n_iter_max : nat) (decisions : list bool) : list ev :=
  match d with
  | Parafac2 => p2_run (list ev) (fun s => s ++ [EvU 0]) (fun s => s ++ [EvN]) nf tol_set n_iter_max decisions []
  | _ => nt_run (list ev) (fun s => s ++ [EvU 0]) (fun s => s ++ [EvN]) nf tol_set n_iter_max decisions []
  end.

(* ------------------------------------------------------------------ a loop skeleton as DATA (read off the source by the harness) *)
(* init_norm: the state is normalised before the loop when requested; cb_norm / conv_norm: the callback / convergence break is
   preceded by the normalisation; pre_test_norm: the normalisation follows the sweep BEFORE the tests (parafac2 style);
   end_norm: it closes the sweep; conv_first: first iteration at which the convergence test is evaluated *)
Record desc := mkDesc { init_norm : bool; cb_norm : bool; conv_norm : bool; pre_test_norm : bool; end_norm : bool; conv_first : nat }.
Definition desc_ok (d : desc) : bool := init_norm d && (pre_test_norm d || (cb_norm d && conv_norm d && end_norm d)).
Section Gen.
  Variable St : Type.
  Variables (sweep normalise : St -> St).
  Definition nif (b nf : bool) (s : St) : St := if b then norm_if St normalise nf s else s.
  Fixpoint gen_loop (d : desc) (nf tol_set : bool) (it fuel : nat) (decisions : list (bool * bool)) (s : St) : St :=
    match fuel with
    | O => s
    | S fuel' =>
        let s1 := nif (pre_test_norm d) nf (sweep s) in
        let dd := hd (false, false) decisions in
        if fst dd then nif (cb_norm d) nf s1
        else if tol_set && (conv_first d <=? it) && snd dd then nif (conv_norm d) nf s1
        else gen_loop d nf tol_set (S it) fuel' (tl decisions) (nif (end_norm d) nf s1)
    end.
  Definition gen_run (d : desc) (nf tol_set : bool) (n : nat) (decisions : list (bool * bool)) (s0 : St) : St :=
    gen_loop d nf tol_set 0 n decisions (nif (init_norm d) nf s0).
End Gen.
(* the three hand-written skeletons above as descriptions *)
Definition cp_desc := mkDesc true true true false true 1.
Definition nt_desc := mkDesc true true true false true 2.
Definition p2_desc := mkDesc true true false true false 1.
Definition lift (ds : list bool) : list (bool * bool) := map (fun b => (false, b)) ds.
