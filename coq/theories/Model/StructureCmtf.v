(* C08 -- model of the SHAPE flow of the loop of coupled_matrix_tensor_3d_factorization (tensorly/decomposition/_cmtf_als.py), definitions only.

     tensor_cp = initialize_cp(tensor_3d, rank); tensor_cp.factors[0] = coupled_init.factors[0]          factors I_k x r
     for iteration in range(n_iter_max):
         V = transpose(lstsq(tensor_cp.factors[0], matrix)[0])
         for ii in reversed(range(ndim(tensor_3d))):
             kr = khatri_rao(tensor_cp.factors, skip_matrix=ii); unfolded = unfold(tensor_3d, ii)
             if ii == 0: kr = concatenate((kr, V), axis=0); unfolded = concatenate((unfolded, matrix), axis=1)
             tensor_cp.factors[ii] = transpose(lstsq(kr, transpose(unfolded))[0])
         if iteration > 0 and <converged>: break
     matrix_pred = CPTensor((None, [tensor_cp.factors[0], V]))                     V is unbound when no sweep ran
     [normalize_factors: cp_normalize both]
     return tensor_cp, matrix_pred, rec_errors

   Matrices are [rows; columns]; every step fails (Err) where NumPy would raise. *)
From Coq Require Import List Arith Bool Lia.
From TLV Require Import Base.Shape Base.PyList Base.Tensor Model.Structure.
Import ListNotations.
Local Open Scope nat_scope.

Definition cm_lstsq (a b : list nat) : res (list nat) :=          (* lstsq(a : m x k, b : m x p) : k x p *)
  match a, b with
  | [m; k], [m'; p] => if m =? m' then Ok [k; p] else Err
  | _, _ => Err
  end.
Definition cm_transpose (a : list nat) : list nat := match a with [m; k] => [k; m] | _ => a end.
Definition cm_concat0 (a b : list nat) : res (list nat) :=
  match a, b with [m; k], [m'; k'] => if k =? k' then Ok [m + m'; k] else Err | _, _ => Err end.
Definition cm_concat1 (a b : list nat) : res (list nat) :=
  match a, b with [m; k], [m'; k'] => if m =? m' then Ok [m; k + k'] else Err | _, _ => Err end.
(* khatri_rao(factors, skip_matrix=ii): the remaining matrices must have the same number of columns *)
Definition cm_khatri_rao (factors : list (list nat)) (skip : nat) : res (list nat) :=
  match remove_nth skip factors with
  | [] => Err
  | f :: rest =>
      let r := nth 1 f 0 in
      if forallb (fun g => (length g =? 2) && (nth 1 g 0 =? r)) (f :: rest)
      then Ok [prod (map (fun g => nth 0 g 0) (f :: rest)); r] else Err
  end.
Definition cm_unfold (shape : list nat) (ii : nat) : list nat := [nth ii shape 0; prod (remove_nth ii shape)].

(* one factor update; returns (shape of the design matrix, shape of the right-hand side, new factor shapes) *)
Definition cmtf_update (shape3 mshape V : list nat) (factors : list (list nat)) (ii : nat) : res (list nat * list nat * list (list nat)) :=
  rbind (cm_khatri_rao factors ii) (fun kr =>
  rbind (if ii =? 0 then cm_concat0 kr V else Ok kr) (fun kr' =>
  rbind (if ii =? 0 then cm_concat1 (cm_unfold shape3 ii) mshape else Ok (cm_unfold shape3 ii)) (fun unf =>
  rbind (cm_lstsq kr' (cm_transpose unf)) (fun sol =>
  Ok (kr', cm_transpose unf, set_nth ii (cm_transpose sol) factors))))).

Fixpoint cmtf_updates (shape3 mshape V : list nat) (iis : list nat) (factors : list (list nat)) : res (list (list nat * list nat) * list (list nat)) :=
  match iis with
  | [] => Ok ([], factors)
  | ii :: rest => rbind (cmtf_update shape3 mshape V factors ii) (fun u =>
                  rbind (cmtf_updates shape3 mshape V rest (snd u)) (fun r => Ok ((fst (fst u), snd (fst u)) :: fst r, snd r)))
  end.
(* one sweep: (systems solved: design matrix and right-hand side of the four lstsq calls, V, factors) *)
Definition cmtf_sweep (shape3 mshape : list nat) (factors : list (list nat)) : res (list (list nat * list nat) * list nat * list (list nat)) :=
  rbind (cm_lstsq (nth 0 factors []) mshape) (fun vt =>
  let V := cm_transpose vt in
  rbind (cmtf_updates shape3 mshape V (rev (seq 0 (length shape3))) factors) (fun r =>
  Ok ((nth 0 factors [], mshape) :: fst r, V, snd r))).

(* decisions: per executed sweep, did the convergence test fire (looked at from iteration 1 on) *)
Fixpoint cmtf_loop (shape3 mshape : list nat) (it fuel : nat) (decisions : list bool) (V : option (list nat)) (factors : list (list nat))
  : res (option (list nat) * list (list nat)) :=
  match fuel with
  | O => Ok (V, factors)
  | S fuel' =>
      rbind (cmtf_sweep shape3 mshape factors) (fun r =>
      if (1 <=? it) && hd false decisions then Ok (Some (snd (fst r)), snd r)
      else cmtf_loop shape3 mshape (S it) fuel' (tl decisions) (Some (snd (fst r))) (snd r))
  end.

(* weights, tensor factors, weights, matrix factors [A; V]; with no sweep V is unbound: the call raises *)
Definition cmtf_run (shape3 : list nat) (m : nat) (spec : rspec) (n_iter_max : nat) (decisions : list bool) : res (list (list nat)) :=
  rbind (validate_cp_rank shape3 spec RRound) (fun r =>
  rbind (cmtf_loop shape3 [hd 0 shape3; m] 0 n_iter_max decisions None (map (fun s => [s; r]) shape3)) (fun out =>
  match fst out with
  | None => Err
  | Some V => Ok (([r] :: snd out) ++ [[r]; nth 0 (snd out) []; V])
  end)).
