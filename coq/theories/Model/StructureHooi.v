(* C08 -- control-flow skeleton of tucker / partial_tucker (Higher-Order Orthogonal Iteration) with respect to the canonical form
   "every returned factor is a (truncated) SVD output and the returned core is the projection of the data onto the RETURNED
   factors" (definitions only).

   partial_tucker (tensorly/decomposition/_tucker.py):
     state <- initialize_tucker        init='svd': one svd_interface per listed mode, then core = multi_mode_dot(tensor, factors, transpose=True)
                                       init='random' / a user Tucker tensor: core and factors as drawn / as given (NO projection)
     for iteration in range(n_iter_max):
         [mask: tensor <- tensor*mask + multi_mode_dot(core, factors)*(1-mask)]
         for index, mode in enumerate(modes):
             factors[index] <- svd_interface(unfold(multi_mode_dot(tensor, factors, skip=index, transpose=True), mode))
         core <- multi_mode_dot(tensor, factors, transpose=True)
         [mask: error from multi_mode_dot(core, factors)]
         if iteration > 1 and tol and <converged>: break
     return core, factors
   tucker(fixed_factors=F, init=(core, factors)):
     every mode fixed: return the initialisation as given
     otherwise: core <- multi_mode_dot(core, fixed factors); partial_tucker on the other modes with the user initialisation;
                core <- multi_mode_dot(core, fixed factors, transpose=True)
   The data-dependent convergence test is an explicit decision sequence (one boolean per executed sweep, answer tape). *)
From Coq Require Import List Arith Bool Lia QArith.
From TLV Require Import Base.Shape Base.PyList Base.Tensor Model.Structure.
Import ListNotations.
Local Open Scope nat_scope.

Section Hooi.
  Variable St : Type.                                   (* (tensor, core, factors) *)
  Variables (svd_init impute project recon : St -> St) (update : nat -> St -> St).
  Definition when (b : bool) (f : St -> St) (s : St) : St := if b then f s else s.
  Definition hooi_sweep (k : nat) (s : St) : St := fold_left (fun s i => update i s) (seq 0 k) s.
  Fixpoint hooi_loop (k : nat) (mask tol_set : bool) (it fuel : nat) (decisions : list bool) (s : St) : St :=
    match fuel with
    | O => s
    | S fuel' =>
        let s1 := when mask recon (project (hooi_sweep k (when mask impute s))) in
        if (2 <=? it) && tol_set && hd false decisions then s1
        else hooi_loop k mask tol_set (S it) fuel' (tl decisions) s1
    end.
  Definition hooi_init (ik : init_kind) (s : St) : St :=
    match ik with InitSvd => project (svd_init s) | _ => s end.
  (* partial_tucker on k listed modes *)
  Definition hooi_run (ik : init_kind) (k : nat) (mask tol_set : bool) (n_iter_max : nat) (decisions : list bool) (s0 : St) : St :=
    hooi_loop k mask tol_set 0 n_iter_max decisions (hooi_init ik s0).
  (* tucker with n_fixed fixed factors out of n_modes (n_fixed > 0; the initialisation is the user's Tucker tensor) *)
  Variables (absorb_fixed project_fixed : St -> St).
  Definition tucker_fixed_run (n_modes n_fixed : nat) (mask tol_set : bool) (n_iter_max : nat) (decisions : list bool) (s0 : St) : St :=
    if n_modes <=? n_fixed then s0
    else project_fixed (hooi_run InitUser (n_modes - n_fixed) mask tol_set n_iter_max decisions (absorb_fixed s0)).
End Hooi.

(* ------------------------------------------------------------------ the skeleton run on event traces *)
(* HS i: svd_interface called for the factor at position i of the listed modes (its U output becomes factors[i]);
   HP None: multi_mode_dot(tensor, factors, transpose=True) over all listed modes (its output becomes the core);
   HP (Some i): the same with skip=i (a temporary: the core approximation handed to the SVD);
   HR: multi_mode_dot(core, factors, transpose=False) (reconstruction: mask imputation / error; absorbing fixed factors) *)
Inductive hev := HS (index : nat) | HP (skip : option nat) | HR.
Definition tr_update (i : nat) (t : list hev) : list hev := t ++ [HP (Some i); HS i].
Definition tr_svd_init (k : nat) (t : list hev) : list hev := t ++ map HS (seq 0 k).
Definition tr_project (t : list hev) : list hev := t ++ [HP None].
Definition tr_recon (t : list hev) : list hev := t ++ [HR].
Definition hooi_trace (ik : init_kind) (k : nat) (mask tol_set : bool) (n : nat) (decisions : list bool) : list hev :=
  hooi_run (list hev) (tr_svd_init k) tr_recon tr_project tr_recon tr_update ik k mask tol_set n decisions [].
Definition tucker_fixed_trace (n_modes n_fixed : nat) (mask tol_set : bool) (n : nat) (decisions : list bool) : list hev :=
  tucker_fixed_run (list hev) (tr_svd_init 0) tr_recon tr_project tr_recon tr_update tr_recon tr_project
                   n_modes n_fixed mask tol_set n decisions [].

(* what the property is about: the core was assigned last by a full projection, after the last factor assignment; every listed
   position received an SVD output *)
Definition assigns (e : hev) : bool := match e with HS _ | HP None => true | _ => false end.
Definition ends_projected (t : list hev) : bool := match rev (filter assigns t) with HP None :: _ => true | _ => false end.
Definition has_svd (t : list hev) (i : nat) : bool := existsb (fun e => match e with HS j => j =? i | _ => false end) t.
Definition factors_from_svd (k : nat) (t : list hev) : bool := forallb (has_svd t) (seq 0 k).
Definition sweeps_of (t : list hev) : nat := length (filter (fun e => match e with HP (Some 0) => true | _ => false end) t).
(* the encoding compared with the implementation's call log *)
Definition code (e : hev) : nat := match e with HS i => 100 + i | HP None => 2 | HP (Some i) => 10 + i | HR => 3 end.

(* ------------------------------------------------------------------ the loop of partial_tucker as DATA (read off the source by the harness) *)
(* One constructor per statement kind of the loop body, in source order:
   SImpute: `if mask is not None: tensor = ...` ; SSweep: the `for index, mode in enumerate(modes)` loop assigning factors[index] from svd_interface ;
   SProject: `core = multi_mode_dot(tensor, factors, ..., transpose=True)` without skip ; SRecon: a mask-only computation that assigns no state ;
   SBreakTest c g: a `break` reachable from iteration c on, guarded by `tol` (g) and a data-dependent test.
   hp_init_projects: the init == 'svd' branch of initialize_tucker ends with the projection. *)
Inductive hstmt := SImpute | SSweep | SProject | SRecon | SBreakTest (first_it : nat) (tol_guarded : bool).
Record hprog := mkHprog { hp_init_projects : bool; hp_body : list hstmt }.
(* is the core clean (= projection onto the current factors of the current tensor) at every exit of the body?  `clean` at entry is false:
   nothing is known about the state a sweep starts from *)
Fixpoint scan (clean : bool) (l : list hstmt) : bool :=
  match l with
  | [] => clean
  | SImpute :: l' => scan false l'
  | SSweep :: l' => scan false l'
  | SProject :: l' => scan true l'
  | SRecon :: l' => scan clean l'
  | SBreakTest _ _ :: l' => clean && scan clean l'
  end.
Definition prog_ok (p : hprog) : bool := hp_init_projects p && scan false (hp_body p).
Section Prog.
  Variable St : Type.
  Variables (svd_init impute project recon : St -> St) (update : nat -> St -> St).
  Fixpoint run_body (k : nat) (mask tol_set : bool) (it : nat) (d : bool) (l : list hstmt) (s : St) : St * bool :=
    match l with
    | [] => (s, false)
    | SImpute :: l' => run_body k mask tol_set it d l' (when St mask impute s)
    | SSweep :: l' => run_body k mask tol_set it d l' (hooi_sweep St update k s)
    | SProject :: l' => run_body k mask tol_set it d l' (project s)
    | SRecon :: l' => run_body k mask tol_set it d l' (when St mask recon s)
    | SBreakTest c g :: l' => if (c <=? it) && (tol_set || negb g) && d then (s, true) else run_body k mask tol_set it d l' s
    end.
  Fixpoint prog_loop (body : list hstmt) (k : nat) (mask tol_set : bool) (it fuel : nat) (decisions : list bool) (s : St) : St :=
    match fuel with
    | O => s
    | S fuel' => let r := run_body k mask tol_set it (hd false decisions) body s in
                 if snd r then fst r else prog_loop body k mask tol_set (S it) fuel' (tl decisions) (fst r)
    end.
  Definition prog_run (p : hprog) (ik : init_kind) (k : nat) (mask tol_set : bool) (n : nat) (decisions : list bool) (s0 : St) : St :=
    prog_loop (hp_body p) k mask tol_set 0 n decisions
      (match ik with InitSvd => (if hp_init_projects p then project (svd_init s0) else svd_init s0) | _ => s0 end).
End Prog.
(* the hand-written skeleton above as a program *)
Definition hooi_prog : hprog := mkHprog true [SImpute; SSweep; SProject; SRecon; SBreakTest 2 true].

(* ------------------------------------------------------------------ partial_tucker: the rank argument *)
(* partial_tucker's handling of its rank argument: None -> the sizes of the listed modes (with a warning), an int -> that rank for every
   listed mode (with a warning), a list -> tuple(rank); a float is not iterable (TypeError) *)
Definition partial_tucker_spec (shape : list nat) (spec : option rspec) (modes : list nat) : res (list (list nat)) :=
  match spec with
  | None => partial_tucker shape (map (fun m => nth m shape 0) modes) modes
  | Some (RInt r) => partial_tucker shape (repeat r (length modes)) modes
  | Some (RList l) => partial_tucker shape l modes
  | Some (RFrac _) => Err
  end.


(* partial_tucker(init='random', n_iter_max=0): nothing is computed, the drawn core and factors are returned.  After 7b9d0bb the core is drawn with
   the tensor's shape, rank[index] at position modes[index]; before, with one axis per LISTED mode ([rank[index] for index in range(len(modes))],
   kept for the regression witness).  Factors: I_m x rank_j, not clipped. *)
Definition pt_random0_factors (shape rank modes : list nat) : list (list nat) := map (fun p => [nth (fst p) shape 0; snd p]) (combine modes rank).
Definition partial_tucker_random0 (shape rank modes : list nat) : res (list (list nat)) :=
  if negb (length rank =? length modes) then Err
  else if negb (forallb (fun m => m <? length shape) modes) then Err
  else Ok (fold_left (fun sh p => set_nth (fst p) (snd p) sh) (combine modes rank) shape :: pt_random0_factors shape rank modes).
Definition partial_tucker_random0_old (shape rank modes : list nat) : res (list (list nat)) :=
  if negb (length rank =? length modes) then Err
  else if negb (forallb (fun m => m <? length shape) modes) then Err
  else Ok (rank :: pt_random0_factors shape rank modes).

(* ------------------------------------------------------------------ the SVD calls of tensor_train / tensor_ring / tensor_train_matrix *)
(* one svd_interface call per core but the last: (n_row, n_column, n_eigenvecs) of each call, in order -- compared with the implementation's call log *)
Fixpoint tt_calls (rk : nat) (shape ranks : list nat) : list (list nat) :=
  match shape with
  | [] => []
  | s :: rest =>
      match rest with
      | [] => []
      | _ :: _ => let cur := Nat.min (Nat.min (rk * s) (prod rest)) (hd 0 ranks) in
                  [rk * s; prod rest; cur] :: tt_calls cur rest (tl ranks)
      end
  end.
Definition tensor_train_calls (shape : list nat) (spec : rspec) (c : Q) : res (list (list nat)) :=
  rbind (validate_tt_rank shape spec false RRound true c) (fun rank =>
  if length shape <=? 1 then Err else Ok (tt_calls (hd 0 rank) shape (tl rank))).
Fixpoint tr_mid_calls (r0 rk : nat) (shape ranks : list nat) : list (list nat) :=
  match shape with
  | [] => []
  | s :: rest =>
      match rest with
      | [] => []
      | _ :: _ => let cur := Nat.min (Nat.min (rk * s) (prod rest * r0)) (hd 0 ranks) in
                  [rk * s; prod rest * r0; cur] :: tr_mid_calls r0 cur rest (tl ranks)
      end
  end.
Definition tr_calls (shape rank : list nat) : res (list (list nat)) :=
  match shape, rank with
  | s0 :: rest, r0 :: r1 :: rks =>
      match rest with
      | [] => Err
      | _ :: _ => if Nat.min s0 (prod rest) <? r0 * r1 then Err
                  else Ok ([s0; prod rest; r0 * r1] :: tr_mid_calls r0 r1 rest rks)
      end
  | _, _ => Err
  end.
Definition tensor_ring_calls (shape : list nat) (spec : rspec) (mode : nat) : res (list (list nat)) :=
  rbind (validate_tr_rank shape spec RRound) (fun rank =>
  if length shape <=? mode then Err else tr_calls (rot mode shape) (if mode =? 0 then rank else rot_ring mode rank)).
Definition tensor_train_matrix_calls (tshape : list nat) (spec : rspec) (c : Q) : res (list (list nat)) :=
  let n := length tshape / 2 in
  if negb (n * 2 =? length tshape) then Err
  else if n =? 1 then Ok []
  else tensor_train_calls (map (fun p => fst p * snd p) (combine (firstn n tshape) (skipn n tshape))) spec c.

(* ------------------------------------------------------------------ parafac2: the outer loop with respect to the projections *)
(* state <- initialize_decomposition        init='svd': C from an SVD, then projections = _compute_projections ; random / user: as drawn / given
   [nn_modes with a built-in init: clip; init='svd': projections = _compute_projections again]   [normalise if requested]
   for iteration in range(n_iter_max):
       absorb the weights into factors[1] ; line_iter = linesearch and iteration % 2 == 0 and iteration > 5
       projections = _compute_projections(factors) ; factors = parafac_updates(projected tensor)
       if line_iter: line_step: computes _compute_projections of the extrapolated factors and returns them if the error decreased, else the inputs
       [normalise if requested] ; if tol and iteration >= 1 and <converged>: break
   decisions: one pair (line search jump accepted, convergence test fired) per executed sweep. *)
Section Parafac2.
  Variable St : Type.
  Variables (svd_init clip compute_proj absorb updates jump normalise : St -> St).
  Variable discard : St -> St -> St.          (* a rejected line-search jump: the computed candidate is dropped, the iterate of the sweep is kept *)
  Definition p2_sweep (nf line_iter accept : bool) (s : St) : St :=
    let s1 := updates (compute_proj (absorb s)) in
    let s2 := if line_iter then (let t := compute_proj (jump s1) in if accept then t else discard t s1) else s1 in
    if nf then normalise s2 else s2.
  Definition is_line_iter (linesearch : bool) (it : nat) : bool := linesearch && Nat.even it && (6 <=? it).
  Fixpoint p2o_loop (nf tol_set linesearch : bool) (it fuel : nat) (decisions : list (bool * bool)) (s : St) : St :=
    match fuel with
    | O => s
    | S fuel' =>
        let d := hd (false, false) decisions in
        let s1 := p2_sweep nf (is_line_iter linesearch it) (fst d) s in
        if tol_set && (1 <=? it) && snd d then s1 else p2o_loop nf tol_set linesearch (S it) fuel' (tl decisions) s1
    end.
  Definition p2o_init (ik : init_kind) (nn_builtin nf : bool) (s0 : St) : St :=
    let s1 := match ik with InitSvd => compute_proj (svd_init s0) | _ => s0 end in
    let s2 := if nn_builtin then (match ik with InitSvd => compute_proj (clip s1) | InitRandom => clip s1 | InitUser => s1 end) else s1 in
    if nf then normalise s2 else s2.
  Definition p2o_run (ik : init_kind) (nn_builtin nf tol_set linesearch : bool) (n : nat) (decisions : list (bool * bool)) (s0 : St) : St :=
    p2o_loop nf tol_set linesearch 0 n decisions (p2o_init ik nn_builtin nf s0).
End Parafac2.

(* the run on a call counter: (number of _compute_projections calls so far, index of the call whose output is the current `projections`; 0 = the initial ones) *)
Definition p2o_trace (ik : init_kind) (nn_builtin nf tol_set linesearch : bool) (n : nat) (decisions : list (bool * bool)) : nat * nat :=
  p2o_run (nat * nat) (fun s => s) (fun s => s) (fun s => (S (fst s), S (fst s))) (fun s => s) (fun s => s) (fun s => s) (fun s => s)
          (fun t s1 => (fst t, snd s1)) ik nn_builtin nf tol_set linesearch n decisions (0, 0).
