(* C08 -- exact rational evaluation of the canonical-form statements on the implementation's outputs (definitions only):
   column orthonormality of a matrix, Tucker core = projection of the data onto the factors, and a transcription of
   cp_tensor.cp_normalize in which the column norms (sqrt) are oracle answers whose defining equation is checked.
   Matrices are row-major lists of Q with an explicit number of columns; tensors are (shape, row-major data). *)
From Coq Require Import List Arith ZArith QArith Qabs Bool.
From TLV Require Import Base.Shape.
Import ListNotations.

Definition qsum_list (l : list Q) : Q := fold_right (fun a b => Qred (a + b)) 0 l.
Definition qdot (a b : list Q) : Q := qsum_list (map (fun p => Qred (fst p * snd p)) (combine a b)).
Definition nrows_of (k : nat) (M : list Q) : nat := length M / k.
Definition entry (k : nat) (M : list Q) (i c : nat) : Q := nth (i * k + c) M 0.
Definition col (k : nat) (M : list Q) (c : nat) : list Q := map (fun i => entry k M i c) (seq 0 (nrows_of k M)).
Definition gram_entry (k : nat) (M : list Q) (a b : nat) : Q := qdot (col k M a) (col k M b).
Definition qdelta (a b : nat) : Q := if Nat.eqb a b then 1 else 0.
Definition within (x tol : Q) : bool := Qle_bool (Qabs x) tol.
(* | M^T M - I | <= tol entrywise, M with k columns *)
Definition orth_ok (k : nat) (M : list Q) (tol : Q) : bool :=
  forallb (fun a => forallb (fun b => within (Qred (gram_entry k M a b - qdelta a b)) tol) (seq 0 k)) (seq 0 k).

(* core[j] = sum_i X[i] * prod_k U_k[i_k, j_k]   (multi_mode_dot(X, factors, transpose=True)); factor k is I_k x r_k *)
Fixpoint fprod (ranks : list nat) (fs : list (list Q)) (idx jdx : list nat) : Q :=
  match ranks, fs, idx, jdx with
  | r :: ranks', f :: fs', i :: idx', j :: jdx' => entry r f i j * fprod ranks' fs' idx' jdx'
  | _, _, _, _ => 1
  end.
(* the data entries paired with their multi-indices, computed once *)
Definition indexed (shape : list nat) (X : list Q) : list (Q * list nat) :=
  combine X (map (unravel shape) (seq 0 (prod shape))).
Definition project_entry_ix (ranks : list nat) (xs : list (Q * list nat)) (fs : list (list Q)) (j : nat) : Q :=
  let jdx := unravel ranks j in
  qsum_list (map (fun p => Qred (fst p * fprod ranks fs (snd p) jdx)) xs).
Definition project_entry (shape ranks : list nat) (X : list Q) (fs : list (list Q)) (j : nat) : Q :=
  project_entry_ix ranks (indexed shape X) fs j.
Definition projection_ok (shape ranks : list nat) (X core : list Q) (fs : list (list Q)) (tol : Q) : bool :=
  let xs := indexed shape X in
  (length core =? prod ranks) && (length X =? prod shape) &&
  forallb (fun j => within (Qred (project_entry_ix ranks xs fs j - nth j core 0)) tol) (seq 0 (prod ranks)).
Definition tucker_ok (shape ranks : list nat) (X core : list Q) (fs : list (list Q)) (tol_orth tol_proj : Q) : bool :=
  forallb (fun p => orth_ok (fst p) (snd p) tol_orth) (combine ranks fs) && projection_ok shape ranks X core fs tol_proj.

(* cp_normalize: weights (None = ones), factors I_k x R; scales: the column norms the implementation's sqrt would give (tape) *)
Definition scale_cols_q (R : nat) (M w : list Q) : list Q := map (fun p => Qred (snd p * nth (fst p mod R) w 0)) (combine (seq 0 (length M)) M).
Definition nz_q (x : Q) : Q := if Qeq_bool x 0 then 1 else x.
Definition colnorm2_q (R : nat) (M : list Q) (c : nat) : Q := qdot (col R M c) (col R M c).
Definition tape_ok (R : nat) (M sc : list Q) (tol : Q) : bool :=
  forallb (fun c => let s := nth c sc 0 in Qle_bool 0 s && within (Qred (s * s - colnorm2_q R M c)) (Qred (tol * (1 + colnorm2_q R M c)))) (seq 0 R).
Fixpoint cpn_loop (R : nat) (w : list Q) (fs scales : list (list Q)) (tol : Q) : option (list Q * list (list Q)) :=
  match fs, scales with
  | f :: fs', sc :: scales' =>
      if tape_ok R f sc tol then
        let w' := map (fun p => Qred (fst p * snd p)) (combine w sc) in
        let f' := map (fun p => Qred (snd p / nz_q (nth (fst p mod R) sc 0))) (combine (seq 0 (length f)) f) in
        match cpn_loop R w' fs' scales' tol with Some (wo, fo) => Some (wo, f' :: fo) | None => None end
      else None
  | [], [] => Some (w, [])
  | _, _ => None
  end.
Definition cp_normalize_q (R : nat) (w : option (list Q)) (fs scales : list (list Q)) (tol : Q) : option (list Q * list (list Q)) :=
  match fs with
  | [] => None
  | f0 :: rest =>
      let w0 := match w with Some w => w | None => repeat 1 R end in
      cpn_loop R (repeat 1 R) (scale_cols_q R f0 w0 :: rest) scales tol
  end.

(* ------------------------------------------------------------------ the same checks over the Gaussian rationals Q[i] (complex data) *)
(* a complex number is a pair (re, im); orthonormality is M^H M = I and the Tucker core is the projection X x_k U_k^H,
   core[j] = sum_i X[i] * prod_k conj(U_k[i_k, j_k])  (multi_mode_dot(X, factors, transpose=True) conjugates) *)
Definition CQ := (Q * Q)%type.
Definition c0 : CQ := (0, 0).
Definition c1 : CQ := (1, 0).
Definition cadd (a b : CQ) : CQ := (Qred (fst a + fst b), Qred (snd a + snd b)).
Definition csub (a b : CQ) : CQ := (Qred (fst a - fst b), Qred (snd a - snd b)).
Definition cmul (a b : CQ) : CQ := (Qred (fst a * fst b - snd a * snd b), Qred (fst a * snd b + snd a * fst b)).
Definition cconj (a : CQ) : CQ := (fst a, Qred (- snd a)).
Definition csum_list (l : list CQ) : CQ := fold_right cadd c0 l.
Definition cwithin (x : CQ) (tol : Q) : bool := within (fst x) tol && within (snd x) tol.
Definition centry (k : nat) (M : list CQ) (i c : nat) : CQ := nth (i * k + c) M c0.
Definition ccol (k : nat) (M : list CQ) (c : nat) : list CQ := map (fun i => centry k M i c) (seq 0 (length M / k)).
(* <a, b> = sum conj(a_i) b_i *)
Definition cdot (a b : list CQ) : CQ := csum_list (map (fun p => cmul (cconj (fst p)) (snd p)) (combine a b)).
Definition cgram_entry (k : nat) (M : list CQ) (a b : nat) : CQ := cdot (ccol k M a) (ccol k M b).
Definition cdelta (a b : nat) : CQ := if Nat.eqb a b then c1 else c0.
Definition corth_ok (k : nat) (M : list CQ) (tol : Q) : bool :=
  forallb (fun a => forallb (fun b => cwithin (csub (cgram_entry k M a b) (cdelta a b)) tol) (seq 0 k)) (seq 0 k).
Fixpoint cfprod (ranks : list nat) (fs : list (list CQ)) (idx jdx : list nat) : CQ :=
  match ranks, fs, idx, jdx with
  | r :: ranks', f :: fs', i :: idx', j :: jdx' => cmul (cconj (centry r f i j)) (cfprod ranks' fs' idx' jdx')
  | _, _, _, _ => c1
  end.
Definition cindexed (shape : list nat) (X : list CQ) : list (CQ * list nat) := combine X (map (unravel shape) (seq 0 (prod shape))).
Definition cproject_entry_ix (ranks : list nat) (xs : list (CQ * list nat)) (fs : list (list CQ)) (j : nat) : CQ :=
  let jdx := unravel ranks j in csum_list (map (fun p => cmul (fst p) (cfprod ranks fs (snd p) jdx)) xs).
Definition cproject_entry (shape ranks : list nat) (X : list CQ) (fs : list (list CQ)) (j : nat) : CQ :=
  cproject_entry_ix ranks (cindexed shape X) fs j.
Definition cprojection_ok (shape ranks : list nat) (X core : list CQ) (fs : list (list CQ)) (tol : Q) : bool :=
  let xs := cindexed shape X in
  (length core =? prod ranks) && (length X =? prod shape) &&
  forallb (fun j => cwithin (csub (cproject_entry_ix ranks xs fs j) (nth j core c0)) tol) (seq 0 (prod ranks)).
Definition ctucker_ok (shape ranks : list nat) (X core : list CQ) (fs : list (list CQ)) (tol_orth tol_proj : Q) : bool :=
  forallb (fun p => corth_ok (fst p) (snd p) tol_orth) (combine ranks fs) && cprojection_ok shape ranks X core fs tol_proj.
