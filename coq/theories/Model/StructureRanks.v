(* C08 -- the rank validators, second part (definitions only):
   (a) validate_tucker_rank WITH fixed_modes (tucker_tensor.py), as coded: the fixed modes are popped from the shape in descending
       order, the equation handed to brentq counts their factors as (size^2) * x, the computed ranks are re-inserted in ascending order;
       an int rank keeps the size of a fixed mode; a list is returned as it is;
   (b) the number of parameters of a CP / Tucker / TT / TR tensor as a function of its (rational, not yet rounded) ranks -- what the
       fractions handed to the validators are fractions OF. *)
From Coq Require Import List Arith ZArith QArith Qround Bool Lia.
From TLV Require Import Base.Shape Base.PyList Base.Tensor Model.Structure.
Import ListNotations.
Local Open Scope nat_scope.

(* ------------------------------------------------------------------ sorted(fixed_modes, reverse=True) *)
Fixpoint insert_desc (x : nat) (l : list nat) : list nat :=
  match l with
  | [] => [x]
  | y :: t => if y <=? x then x :: l else y :: insert_desc x t
  end.
Definition sort_desc (l : list nat) : list nat := fold_right insert_desc [] l.

(* [(mode, tensor_shape.pop(mode)) for mode in sorted(fixed_modes, reverse=True)][::-1] : ms is the descending list; the accumulator
   is consed, i.e. the result is already reversed; pop of an index beyond the end raises *)
Fixpoint pop_modes (ms sh : list nat) (acc : list (nat * nat)) : res (list (nat * nat) * list nat) :=
  match ms with
  | [] => Ok (acc, sh)
  | m :: ms' => if m <? length sh then pop_modes ms' (remove_nth m sh) ((m, nth m sh 0) :: acc) else Err
  end.
(* for mode, size in fixed_modes: rank.insert(mode, size) *)
Definition reinsert (fixed : list (nat * nat)) (rank : list nat) : list nat :=
  fold_left (fun r p => insert_at (fst p) (snd p) r) fixed rank.

(* the function handed to brentq:  P x^(N - #fixed) + (sum of the squared free sizes) x + (sum of the squared fixed sizes) x - q P *)
Definition tucker_residual_fm (shape : list nat) (fixed : list (nat * nat)) (free : list nat) (q c : Q) : Q :=
  let P := n2q (prod shape) in
  Qred (P * qpow c (length shape - length fixed) + n2q (sumsq_list free) * c + n2q (sumsq_list (map snd fixed)) * c - q * P)%Q.

(* brentq(fun, 0.0, max(rank, 1.0)) raises unless fun(a) and fun(b) have different signs (fun(a) * fun(b) > 0 is rejected).  Without fixed
   modes the signs always differ (fun(0) = -q P <= 0 <= fun(max(q, 1))); with every mode fixed they need not *)
Definition brentq_bracket_ok (f : Q -> Q) (q : Q) : bool :=
  let b := if Qle_bool q 1 then 1%Q else q in Qle_bool (Qred (f 0%Q * f b)) 0.
Definition spec_frac (s : rspec) : Q := match s with RFrac q => q | _ => 0%Q end.

Definition validate_tucker_rank_fm (shape : list nat) (spec : rspec) (rd : rounding) (fixed_modes : option (list nat)) (c : Q)
  : res (list nat) :=
  match spec with
  | RList l => Ok l
  | RInt r =>
      match fixed_modes with
      | None => Ok (repeat r (length shape))
      | Some fm => Ok (map (fun p => if Structure.memb (fst p) fm then snd p else r) (combine (seq 0 (length shape)) shape))
      end
  | RFrac _ =>
      match fixed_modes with
      | None => Ok (frac_ranks rd c (map n2q shape))
      | Some fm => rbind (pop_modes (sort_desc fm) shape []) (fun pf =>
                   if brentq_bracket_ok (tucker_residual_fm shape (fst pf) (snd pf) (spec_frac spec)) (spec_frac spec)
                   then Ok (reinsert (fst pf) (frac_ranks rd c (map n2q (snd pf)))) else Err)
      end
  end.
(* the residual of the oracle answer for a case of the correspondence (0 when no equation is solved) *)
Definition validate_tucker_rank_fm_residual (shape : list nat) (spec : rspec) (fixed_modes : option (list nat)) (c : Q) : Q :=
  match spec, fixed_modes with
  | RFrac q, Some fm => match pop_modes (sort_desc fm) shape [] with
                        | Ok pf => tucker_residual_fm shape (fst pf) (snd pf) q c
                        | Err => 0%Q
                        end
  | RFrac q, None => tucker_residual shape q c
  | _, _ => 0%Q
  end.

(* ------------------------------------------------------------------ parameter counts at rational ranks *)
Definition qprod (l : list Q) : Q := fold_right Qmult 1%Q l.
Definition qsum0 (l : list Q) : Q := fold_right Qplus 0%Q l.
(* the rational ranks c * d_k the validators round *)
Definition scaled (c : Q) (dims : list Q) : list Q := map (fun d => (c * d)%Q) dims.
(* CP of rank r: r (I_1 + ... + I_N) *)
Definition cp_params (shape : list nat) (r : Q) : Q := (r * n2q (sum_list shape))%Q.
(* Tucker with ranks rk: prod rk (core) + sum_k I_k rk_k (factors) *)
Definition tucker_params (shape : list nat) (rk : list Q) : Q :=
  (qprod rk + qsum0 (map (fun p => n2q (fst p) * snd p) (combine shape rk)))%Q.
(* TT with ranks rk (N+1 entries): sum_k rk_k I_k rk_k+1 ; TR the same with rk_0 = rk_N *)
Fixpoint tt_params (shape : list nat) (rk : list Q) : Q :=
  match shape, rk with
  | s :: shape', r0 :: ((r1 :: _) as rk') => (r0 * n2q s * r1 + tt_params shape' rk')%Q
  | _, _ => 0%Q
  end.
