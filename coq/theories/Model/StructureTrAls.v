(* C08 -- model of the SHAPE flow of the loop of tensor_ring_als (tensorly/decomposition/_tr_als.py), definitions only.

     tr_decomp = random_tr(shape, rank)                       cores (rank[i], shape[i], rank[i+1])
     for iter in range(n_iter_max):
         for dim in range(n_dim):
             tensor_unf = matricize(tensor, [n != dim], [dim])                      (prod of the other sizes, shape[dim])
             trals_subchain = tr_decomp[(dim+1) % n_dim]
             for j in range(2, n_dim): trals_subchain = tensordot(trals_subchain, tr_decomp[(dim+j) % n_dim], axes=1)
             trals_subchain = transpose(trals_subchain, trals_idx)
             design_mat = reshape(trals_subchain, (-1, rank[dim] * rank[dim+1]))
             sol = lstsq(design_mat, tensor_unf)   |   solve(design_mat^T design_mat, design_mat^T tensor_unf)
             tr_decomp[dim] = transpose(reshape(sol, (rank[dim], rank[dim+1], shape[dim])), [0, 2, 1])
         [callback asked to stop: break]   [tol > 0 and iter >= 1 and decrease < tol: break]
     return tr_decomp

   Only shapes flow through the model; every step can fail (Err) exactly where NumPy would raise: tensordot on
   mismatching bond sizes, reshape(-1, c) when c does not divide the number of entries, lstsq / matmul on different
   row counts, reshape of the solution. *)
From Coq Require Import List Arith Bool Lia.
From TLV Require Import Base.Shape Base.PyList Base.Tensor Model.Structure.
Import ListNotations.
Local Open Scope nat_scope.

Definition trals_core (shape rank : list nat) (i : nat) : list nat := [nth i rank 0; nth i shape 0; nth (S i) rank 0].
Definition trals_cores (shape rank : list nat) : list (list nat) := map (trals_core shape rank) (seq 0 (length shape)).

(* tl.tensordot(a, b, axes=1): the last axis of a against the first axis of b *)
Definition trals_tensordot1 (a b : list nat) : res (list nat) :=
  match a, b with
  | _ :: _, b0 :: b' => if last a 0 =? b0 then Ok (removelast a ++ b') else Err
  | _, _ => Err
  end.

Fixpoint trals_subchain (cores : list (list nat)) (n d : nat) (js : list nat) (acc : list nat) : res (list nat) :=
  match js with
  | [] => Ok acc
  | j :: js' => rbind (trals_tensordot1 acc (nth ((d + j) mod n) cores [])) (trals_subchain cores n d js')
  end.

Definition trals_idx (n d : nat) : list nat := map (fun i => i + n - d) (seq 0 d) ++ map (fun i => i + 1) (seq 0 (n - d - 1)) ++ [n; 0].
Definition trals_permute_axes (idx sh : list nat) : list nat := map (fun i => nth i sh 0) idx.
(* np.reshape(x, (-1, c)) *)
Definition trals_reshape_m1 (sh : list nat) (c : nat) : res (list nat) :=
  if c =? 0 then Err else if prod sh mod c =? 0 then Ok [prod sh / c; c] else Err.

(* one update of core d: returns (shape of design_mat, shape of tensor_unf, new core shapes) *)
Definition tr_als_update (shape rank : list nat) (cores : list (list nat)) (d : nat) : res (list nat * list nat * list (list nat)) :=
  let n := length shape in
  rbind (trals_subchain cores n d (seq 2 (n - 2)) (nth ((d + 1) mod n) cores [])) (fun sub =>
  if negb (length sub =? S n) then Err else
  let c := nth d rank 0 * nth (S d) rank 0 in
  rbind (trals_reshape_m1 (trals_permute_axes (trals_idx n d) sub) c) (fun dm =>
  let unf := [prod (remove_nth d shape); nth d shape 0] in
  if negb (hd 0 dm =? hd 0 unf) then Err                      (* lstsq / matmul: same number of rows *)
  else Ok (dm, unf, set_nth d [nth d rank 0; nth d shape 0; nth (S d) rank 0] cores))).

Fixpoint tr_als_sweep (shape rank : list nat) (dims : list nat) (cores : list (list nat)) : res (list (list nat)) :=
  match dims with
  | [] => Ok cores
  | d :: ds => rbind (tr_als_update shape rank cores d) (fun r => tr_als_sweep shape rank ds (snd r))
  end.

(* decisions: per executed sweep (callback asked to stop, convergence test fired) *)
Fixpoint tr_als_loop (shape rank : list nat) (tol_pos : bool) (it fuel : nat) (decisions : list (bool * bool)) (cores : list (list nat))
  : res (list (list nat)) :=
  match fuel with
  | O => Ok cores
  | S fuel' =>
      rbind (tr_als_sweep shape rank (seq 0 (length shape)) cores) (fun cores1 =>
      let dcs := hd (false, false) decisions in
      if fst dcs then Ok cores1
      else if tol_pos && (1 <=? it) && snd dcs then Ok cores1
      else tr_als_loop shape rank tol_pos (S it) fuel' (tl decisions) cores1)
  end.

Definition tr_als_run (shape : list nat) (spec : rspec) (tol_pos : bool) (n_iter_max : nat) (decisions : list (bool * bool)) : res (list (list nat)) :=
  rbind (validate_tr_rank shape spec RRound) (fun rank =>
  tr_als_loop shape rank tol_pos 0 n_iter_max decisions (trals_cores shape rank)).

(* the (design_mat, tensor_unf) shapes of one sweep, for the per-run comparison with the logged lstsq / solve calls *)
Fixpoint tr_als_sweep_log (shape rank : list nat) (dims : list nat) (cores : list (list nat)) : res (list (list nat * list nat)) :=
  match dims with
  | [] => Ok []
  | d :: ds => rbind (tr_als_update shape rank cores d) (fun r =>
               rbind (tr_als_sweep_log shape rank ds (snd r)) (fun l => Ok ((fst (fst r), snd (fst r)) :: l)))
  end.
