(* C08 -- "otherwise the CP weights are all ones": the assignments to the weights inside a CP driver as a PROGRAM (definitions only).
   The harness extracts, from the current source of parafac / non_negative_parafac / non_negative_parafac_hals (ast), EVERY statement that
   assigns a weights-valued variable (weights, weights_last, new_weights, ...):
     WAssign v (WVar a)        v = a  /  v = tl.copy(a)
     WAssign v (WAffine a b)   v = a + (b - a) * jump                 (the line-search extrapolation of parafac)
     WAssign v WOnes           v = tl.ones(rank)
     WNormalize g              weights, factors = cp_normalize((weights, factors)), g: inside an `if normalize_factors ...`
   Variables are numbered, variable 0 is `weights`.  An execution is ANY sequence of these statements (whatever the control flow), each with its own
   jump value; reading a variable that was never assigned aborts the run (NameError). *)
From Coq Require Import List Arith Bool.
Import ListNotations.

Inductive wexpr := WVar (a : nat) | WAffine (a b : nat) | WOnes.
Inductive wstmt := WAssign (v : nat) (e : wexpr) | WNormalize (guarded : bool).
Definition wstmt_ok (s : wstmt) : bool := match s with WNormalize g => g | _ => true end.
Definition wprog_ok (p : list wstmt) : bool := forallb wstmt_ok p.
Definition wexpr_eqb (a b : wexpr) : bool :=
  match a, b with WVar x, WVar y => x =? y | WAffine x1 x2, WAffine y1 y2 => (x1 =? y1) && (x2 =? y2) | WOnes, WOnes => true | _, _ => false end.
Definition wstmt_eqb (a b : wstmt) : bool :=
  match a, b with WAssign v e, WAssign v' e' => (v =? v') && wexpr_eqb e e' | WNormalize g, WNormalize g' => Bool.eqb g g' | _, _ => false end.

Section WExec.
  Variable K : Type.
  Variables (k1 : K) (kadd kmul ksub : K -> K -> K).
  Variable normalise : (nat -> K) -> (nat -> K).                      (* what cp_normalize makes of the weights *)
  Definition wstate := nat -> option (nat -> K).
  Definition wupd (st : wstate) (v : nat) (w : nat -> K) : wstate := fun x => if x =? v then Some w else st x.
  Definition wstep (nf : bool) (s : wstmt) (jump : K) (st : wstate) : option wstate :=
    match s with
    | WAssign v (WVar a) => match st a with Some w => Some (wupd st v w) | None => None end
    | WAssign v (WAffine a b) =>
        match st a, st b with
        | Some wa, Some wb => Some (wupd st v (fun r => kadd (wa r) (kmul (ksub (wb r) (wa r)) jump)))
        | _, _ => None
        end
    | WAssign v WOnes => Some (wupd st v (fun _ => k1))
    | WNormalize g => if nf || negb g then match st 0 with Some w => Some (wupd st 0 (normalise w)) | None => None end else Some st
    end.
  Fixpoint wexec (nf : bool) (trace : list (wstmt * K)) (st : wstate) : option wstate :=
    match trace with
    | [] => Some st
    | (s, j) :: t => match wstep nf s j st with Some st' => wexec nf t st' | None => None end
    end.
End WExec.

(* ------------------------------------------------------------------ initialize_cp: the initial state of the weights *)
(* Every control-flow PATH of initialize_cp from its entry to a `return kt`, as the list of the statements on it that assign the CP tensor kt:
     IFresh         kt = random_cp(..., normalise_factors=False)  /  kt = CPTensor((None, factors))      (weights: all ones)
     IUser          kt = CPTensor(init)                                                                 (weights: whatever the caller supplied)
     INormalize g   kt = cp_normalize(kt), g: inside an `if normalize_factors`
     IFactors       kt.factors = ...                                                                    (the weights are not touched)
   The harness enumerates the paths of the CURRENT source (ast) and Coq evaluates ipaths_ok on them. *)
Inductive istmt := IFresh | IUser | INormalize (guarded : bool) | IFactors.
(* abstract run with normalize_factors = False: are the weights at the end of the path known to be all ones? *)
Fixpoint ipath_ones (known : bool) (p : list istmt) : bool :=
  match p with
  | [] => known
  | IFresh :: t => ipath_ones true t
  | IUser :: t => ipath_ones false t
  | INormalize g :: t => ipath_ones (known && g) t
  | IFactors :: t => ipath_ones known t
  end.
Definition ipaths_ok (ps : list (list istmt)) : bool := forallb (ipath_ones false) ps.
Section IExec.
  Variable K : Type.
  Variable k1 : K.
  Variable normalise : (nat -> K) -> (nat -> K).
  (* concrete run: the weights of kt (None: kt is not bound yet); users: the weights the caller supplied, one entry per IUser statement *)
  Fixpoint iexec (nf : bool) (p : list istmt) (users : list (nat -> K)) (w : option (nat -> K)) : option (nat -> K) :=
    match p with
    | [] => w
    | IFresh :: t => iexec nf t users (Some (fun _ => k1))
    | IUser :: t => iexec nf t (tl users) (Some (hd (fun _ => k1) users))
    | INormalize g :: t => iexec nf t users (if nf || negb g then option_map normalise w else w)
    | IFactors :: t => iexec nf t users w
    end.
End IExec.
