(* Model of tensorly/tenalg/svd.py (code as of commits b4786a7, 5074a8d, 45ef7df).  Definitions only.
   Matrices are lists of rows.  LAPACK (svd, eigh, qr), sqrt, the Gaussian test matrix and a callable back end are
   NOT re-implemented: they enter as function arguments ("oracles") whose answers the harness tapes.
   truncated_svd is polymorphic in the element type: it cannot inspect, round or re-type an entry. *)
From Coq Require Import List Arith Bool.
From TLV Require Import Base.Ops Base.Tensor.
Import ListNotations.

(* ---------- svd_checks: n_eigenvecs clamping ---------- *)
(* if n_eigenvecs is None: n_eigenvecs = max_dim ; if n_eigenvecs > max_dim: (warn) n_eigenvecs = max_dim *)
Definition svd_checks (d1 d2 : nat) (n : option nat) : nat * nat * nat :=
  let mn := Nat.min d1 d2 in
  let mx := Nat.max d1 d2 in
  let k := match n with None => mx | Some r => if mx <? r then mx else r end in
  (k, mn, mx).

Section Poly.
Context {A : Type}.
Definition triple := (list (list A) * list A * list (list A))%type.

(* U[:, :k] , S[:k] , V[:k, :] *)
Definition slice3 (k : nat) (t : triple) : triple :=
  let '(U, Sg, V) := t in (map (firstn k) U, firstn k Sg, firstn k V).

(* n_eigenvecs, min_dim, _ = svd_checks(...) ; full_matrices = n_eigenvecs > min_dim ;
   U, S, V = tl.svd(matrix, full_matrices=full_matrices) ; slice *)
Definition truncated_svd (oracle : bool -> triple) (d1 d2 : nat) (n : option nat) : triple :=
  let '(k, mn, _) := svd_checks d1 d2 n in
  let full := mn <? k in
  slice3 k (oracle full).

Definition ncols (M : list (list A)) : nat := length (hd [] M).
End Poly.
Arguments triple : clear implicits.

Section Num.
Context {F : Type} (Op : fops F).
Definition mat := list (list F).
Definition mget (M : mat) (i j : nat) : F := nth j (nth i M []) (f0 Op).
Definition col (j : nat) (M : mat) : list F := map (fun r => nth j r (f0 Op)) M.

(* np.sign *)
Definition fsign (x : F) : F :=
  if fltb Op (f0 Op) x then f1 Op else if fltb Op x (f0 Op) then fopp Op (f1 Op) else f0 Op.

(* v[argmax(abs(v))]: the FIRST entry of maximal magnitude (np.argmax returns the first maximiser) *)
Fixpoint pick (l : list F) (best : F) : F :=
  match l with
  | [] => best
  | x :: r => if fltb Op (fabs Op best) (fabs Op x) then pick r x else pick r best
  end.
Definition deciding (l : list F) : F := match l with [] => f0 Op | x :: r => pick r x end.

(* row * signs  (NumPy broadcasting of a 1-D array against the last axis) *)
Definition mul_vec (r sg : list F) : list F := map (fun p => fmul Op (fst p) (snd p)) (combine r sg).
Definition scale_cols (sg : list F) (U : mat) : mat := map (fun r => mul_vec r sg) U.
(* V * signs[:, None] *)
Definition scale_rows (sg : list F) (V : mat) : mat :=
  map (fun p => map (fun x => fmul Op x (fst p)) (snd p)) (combine sg V).
(* concatenate((signs, ones(n - len signs))) if n > len signs, then signs[:n] *)
Fixpoint fit (n : nat) (l : list F) : list F :=
  match n with
  | 0 => []
  | S n' => match l with [] => f1 Op :: fit n' [] | x :: r => x :: fit n' r end
  end.

Definition signs_u (U : mat) : list F := map (fun j => fsign (deciding (col j U))) (seq 0 (ncols U)).
Definition signs_v (V : mat) : list F := map (fun r => fsign (deciding r)) V.

Definition svd_flip (U V : mat) (u_based : bool) : mat * mat :=
  if u_based then
    let sg := signs_u U in (scale_cols sg U, scale_rows (fit (length V) sg) V)
  else
    let sg := signs_v V in (scale_cols (fit (ncols U) sg) U, scale_rows sg V).

(* ---------- dense helpers ---------- *)
Definition dot (a b : list F) : F := fold_left (fun acc p => fadd Op acc (fmul Op (fst p) (snd p))) (combine a b) (f0 Op).
Definition cols_of (n : nat) (M : mat) : mat := map (fun j => col j M) (seq 0 n).
Definition transp (n : nat) (M : mat) : mat := cols_of n M.         (* n = number of columns of M *)
Definition mmul (n : nat) (X Y : mat) : mat :=                       (* n = number of columns of Y *)
  let Yt := cols_of n Y in map (fun r => map (fun c => dot r c) Yt) X.
Definition mzip (f : F -> F -> F) (X Y : mat) : mat :=
  map (fun p => map (fun q => f (fst q) (snd q)) (combine (fst p) (snd p))) (combine X Y).

(* ---------- mask imputation step of svd_interface ----------
   St = eye(U.shape[1], V.shape[0]); St[i,i] = S[i] ; matrix*mask + (U @ St @ V)*(1-mask) *)
Definition st_matrix (r c : nat) (Sg : list F) : mat :=
  map (fun a => map (fun b => if Nat.eqb a b then (if a <? length Sg then nth a Sg (f0 Op) else f1 Op) else f0 Op) (seq 0 c)) (seq 0 r).
Definition impute (d2 : nat) (M mask : mat) (U : mat) (Sg : list F) (V : mat) : mat :=
  let St := st_matrix (ncols U) (length V) Sg in
  let R := mmul d2 (mmul (length V) U St) V in
  mzip (fadd Op) (mzip (fmul Op) M mask) (mzip (fun x m => fmul Op x (fsub Op (f1 Op) m)) R mask).

(* ---------- symeig_svd ----------  eigh : Gram -> (eigenvalues ascending, eigenvectors as columns); sq = sqrt *)
Definition clip_lo (eps x : F) : F := if fleb Op x eps then eps else x.     (* np.clip(x, a_min=eps) *)
Definition div_cols (X : mat) (s : list F) : mat := map (fun r => map (fun p => fdiv Op (fst p) (snd p)) (combine r s)) X.
Definition symeig_svd (eigh : mat -> list F * mat) (sq : F -> F) (eps : F) (M : mat) (d1 d2 : nat) (n : option nat)
  : triple F :=
  let '(k, _, _) := svd_checks d1 d2 n in
  let Mt := transp d2 M in
  let '(U, Sg, V) :=
    if d2 <? d1 then
      let '(lam, W) := eigh (mmul d1 M Mt) in
      let Sg := map (fun x => sq (clip_lo eps x)) lam in
      (W, Sg, mmul d1 Mt (div_cols W Sg))                (* V : d2 x d1 *)
    else
      let '(lam, W) := eigh (mmul d2 Mt M) in
      let Sg := map (fun x => sq (clip_lo eps x)) lam in
      (div_cols (mmul d2 M W) Sg, Sg, W) in              (* U : d1 x d2 *)
  let c := if d2 <? d1 then d1 else d2 in               (* number of columns of U and of V before the transpose *)
  let U := map (@rev F) U in                            (* flip(U, axis=1) *)
  let Sg := rev Sg in
  let V := rev (transp c V) in                          (* flip(transpose(V), axis=0) *)
  (map (firstn (Nat.min d1 k)) U, firstn (Nat.min (Nat.min d1 d2) k) Sg, firstn (Nat.min d2 k) V).

(* ---------- randomized_range_finder / randomized_svd ----------
   qr k X = the Q factor of the k-th tl.qr(X) call (reduced QR, oracle); G = the taped rng.normal(size=(dim_2, n_dims));
   svd X full = tl.svd(X, full_matrices=full) (oracle).  Matrix products, transposes, the branch condition,
   n_dims, the inner truncated_svd and the lifting by Q are modelled. *)
Fixpoint power_iter (qr : nat -> mat -> mat) (A At : mat) (n_iter call : nat) (Q : mat) : mat :=
  match n_iter with
  | 0 => Q
  | S k => let Q1 := qr call (mmul (ncols Q) At Q) in                        (* Q, _ = qr(A_H @ Q) *)
           power_iter qr A At k (S (S call)) (qr (S call) (mmul (ncols Q1) A Q1))  (* Q, _ = qr(A @ Q)   *)
  end.
(* cA = number of columns of A; qr k X = the Q factor returned by the k-th tl.qr call of this run, handed X *)
Definition range_finder (qr : nat -> mat -> mat) (A : mat) (cA : nat) (G : mat) (n_iter : nat) : mat :=
  power_iter qr A (transp cA A) n_iter 1 (qr 0 (mmul (ncols G) A G)).

Definition randomized_svd (svd : mat -> bool -> triple F) (qr : nat -> mat -> mat) (G : mat)
    (M : mat) (d1 d2 : nat) (n : option nat) (n_over n_iter : nat) : triple F :=
  let '(k, mn, mx) := svd_checks d1 d2 n in
  let n_dims := Nat.min (k + n_over) mx in
  let t := Nat.min mn n_dims in
  if ((d2 <? d1) && (t <? k)) || ((d1 <? d2) && (k <? t)) then
    let Mt := transp d2 M in                                           (* d2 x d1 *)
    let Q := range_finder qr Mt d1 G n_iter in                         (* d2 x c  *)
    let c := ncols Q in
    let Mred := transp d1 (mmul d1 (transp c Q) Mt) in                 (* transpose(Q_H @ matrix_T): d1 x c *)
    let '(U, Sg, V) := truncated_svd (svd Mred) d1 c (Some k) in
    (U, Sg, mmul d2 V (transp c Q))                                    (* V @ transpose(Q) *)
  else
    let Q := range_finder qr M d2 G n_iter in                          (* d1 x c *)
    let c := ncols Q in
    let Mred := mmul d2 (transp c Q) M in                              (* Q_H @ matrix: c x d2 *)
    let '(U, Sg, V) := truncated_svd (svd Mred) c d2 (Some k) in
    (mmul (ncols U) Q U, Sg, V).                                       (* Q @ U *)

(* ---------- NNDSVD / NNDSVDA, final step ----------
   nndsvda:  where(W < eps, avg, W) with avg = |mean(tensor)|    nndsvd: soft_thresholding(W, eps) = sign(W) * max(|W| - eps, 0) *)
Definition fill_avg (eps avg : F) (W : mat) : mat := map (map (fun w => if fltb Op w eps then avg else w)) W.
Definition soft_thr (eps : F) (W : mat) : mat :=
  map (map (fun w => fmul Op (fsign w) (let a := fsub Op (fabs Op w) eps in if fleb Op a (f0 Op) then f0 Op else a))) W.
Definition fmean (M : mat) : F := fdiv Op (fsum Op (concat M)) (nat2F Op (length (concat M))).

(* NNDSVD core: column j of W / row j of H from the j-th singular triplet; sq = sqrt *)
Definition pos_part (v : list F) : list F := map (fun x => if fleb Op x (f0 Op) then f0 Op else x) v.     (* clip(x, a_min=0) *)
Definition neg_part (v : list F) : list F := map (fun x => fabs Op (if fleb Op (f0 Op) x then f0 Op else x)) v. (* abs(clip(x, a_max=0)) *)
Definition nrm (sq : F -> F) (v : list F) : F := sq (dot v v).
Definition nn_pair (sq : F -> F) (j : nat) (s : F) (x y : list F) : list F * list F :=
  match j with
  | 0 => (map (fun a => fmul Op (sq s) (fabs Op a)) x, map (fun a => fmul Op (sq s) (fabs Op a)) y)
  | _ =>
    let xp := pos_part x in let yp := pos_part y in let xn := neg_part x in let yn := neg_part y in
    let xpn := nrm sq xp in let ypn := nrm sq yp in let xnn := nrm sq xn in let ynn := nrm sq yn in
    let mp := fmul Op xpn ypn in let mn_ := fmul Op xnn ynn in
    if feqb Op mp (f0 Op) && feqb Op mn_ (f0 Op) then
      (* `if m_p == 0 and m_n == 0: continue`: the zero column of W / zero row of H is left as it is *)
      (map (fun _ => f0 Op) x, map (fun _ => f0 Op) y)
    else if fltb Op mn_ mp then
      let lbd := sq (fmul Op s mp) in
      (map (fun a => fmul Op lbd (fdiv Op a xpn)) xp, map (fun a => fmul Op lbd (fdiv Op a ypn)) yp)
    else
      let lbd := sq (fmul Op s mn_) in
      (map (fun a => fmul Op lbd (fdiv Op a xnn)) xn, map (fun a => fmul Op lbd (fdiv Op a ynn)) yn)
  end.
Inductive nntype := NNDSVD | NNDSVDA.
(* W = zeros_like(U), H = zeros_like(V); columns/rows j < min(U.shape[1], V.shape[0]) are filled *)
Definition make_svd_non_negative (sq : F -> F) (eps : F) (M U : mat) (Sg : list F) (V : mat) (ty : nntype) : mat * mat :=
  let c := ncols U in let r := length V in let q := Nat.min c r in
  let pairs := map (fun j => nn_pair sq j (nth j Sg (f0 Op)) (col j U) (nth j V [])) (seq 0 q) in
  let Wt := map fst pairs ++ repeat (repeat (f0 Op) (length U)) (c - q) in      (* columns of W *)
  let H := map snd pairs ++ map (fun row => map (fun _ => f0 Op) row) (skipn q V) in
  let W := cols_of (length U) Wt in
  match ty with
  | NNDSVD => (soft_thr eps W, soft_thr eps H)
  | NNDSVDA => let avg := fabs Op (fmean M) in (fill_avg eps avg W, fill_avg eps avg H)      (* avg = tl.abs(tl.mean(tensor)) *)
  end.

(* ---------- svd_interface: dispatch + post-processing ---------- *)
Inductive method := MTruncated | MSymeig | MRandomized | MCallable | MUnknown.
(* svd_fun k M: the answer of the dispatched function on its k-th call of this run, handed the matrix M
   (the harness tapes the answers of LAPACK and of the back ends that are not modelled; the index only
   lets a tape disambiguate calls).  Masks: one imputation step per iteration, then svd_fun again. *)
Fixpoint mask_loop (svd_fun : nat -> mat -> triple F) (d2 : nat) (mask : mat) (iters call : nat) (M : mat) (t : triple F)
  : mat * triple F :=
  match iters with
  | 0 => (M, t)
  | S it => let '(U, Sg, V) := t in
            let M' := impute d2 M mask U Sg V in
            mask_loop svd_fun d2 mask it (S call) M' (svd_fun call M')
  end.

(* The dispatch of svd_interface: method name -> the function that is run.
     if method == "truncated_svd": svd_fun = truncated_svd   elif method == "symeig_svd": svd_fun = symeig_svd
     elif method == "randomized_svd": svd_fun = randomized_svd   elif callable(method): svd_fun = method   else: raise ValueError
   (the table is re-derived from the Python ast on every run and proved equal to `dispatch`). *)
Inductive fname := FTruncated | FSymeig | FRandomized | FUser.
Definition dispatch (meth : method) : option fname :=
  match meth with
  | MTruncated => Some FTruncated
  | MSymeig => Some FSymeig
  | MRandomized => Some FRandomized
  | MCallable => Some FUser
  | MUnknown => None
  end.

(* funs f k M: the answer of function f (with this request's n_eigenvecs / kwargs) on the k-th call of this run, handed M *)
Definition svd_interface (funs : fname -> nat -> mat -> triple F) (meth : method) (d2 : nat) (M : mat) (n : option nat)
    (flip_sign u_based : bool) (nn : option nntype) (mask : option mat) (iters : nat) (sq : F -> F) (eps : F)
  : res (triple F) :=
  match dispatch meth with
  | None => Err
  | Some f =>
    let svd_fun := funs f in
    let t0 := svd_fun 0 M in
    let '(M1, t1) := match mask, n with
                     | Some msk, Some _ => mask_loop svd_fun d2 msk iters 1 M t0
                     | _, _ => (M, t0) end in
    let '(U, Sg, V) := t1 in
    let '(U, V) := if flip_sign then svd_flip U V u_based else (U, V) in
    let '(U, V) := match nn with Some ty => make_svd_non_negative sq eps M1 U Sg V ty | None => (U, V) end in
    Ok (U, Sg, V)
  end.

(* the table of functions of one request: the three built-in methods applied to this request's arguments, and a callable *)
Definition svd_funs (tr sy ra us : nat -> mat -> triple F) (f : fname) : nat -> mat -> triple F :=
  match f with FTruncated => tr | FSymeig => sy | FRandomized => ra | FUser => us end.
End Num.
