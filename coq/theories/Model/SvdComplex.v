(* Gaussian rationals Q[i] as the scalar type of the EXECUTABLE complex model: complex float64 inputs are exactly representable,
   ring operations are exact (every component reduced by Qred), |z| and np.sign(z) = z / |z| go through a square-root function sq
   that is an argument (the correspondence passes the rational approximation qsqrt).  Definitions only. *)
From Coq Require Import List Arith ZArith QArith Bool.
From TLV Require Import Base.Ops Base.Tensor Model.Svd Model.SvdConj.
Import ListNotations.

Definition C := (Q * Q)%type.
Definition c0 : C := (0, 0).
Definition c1 : C := (1, 0).
Definition cadd (a b : C) : C := (Qred (fst a + fst b), Qred (snd a + snd b)).
Definition csub (a b : C) : C := (Qred (fst a - fst b), Qred (snd a - snd b)).
Definition cmul (a b : C) : C := (Qred (fst a * fst b - snd a * snd b), Qred (fst a * snd b + snd a * fst b)).
Definition copp (a : C) : C := (Qred (- fst a), Qred (- snd a)).
Definition cconj (a : C) : C := (fst a, Qred (- snd a)).
Definition cnorm2 (a : C) : Q := Qred (fst a * fst a + snd a * snd a).
Definition cdiv (a b : C) : C :=
  let n := cnorm2 b in
  (Qred ((fst a * fst b + snd a * snd b) / n), Qred ((snd a * fst b - fst a * snd b) / n)).
(* the order is that of the REAL parts: the code only orders real quantities held in a complex array (clipping of eigenvalues) *)
Definition Cops : fops C := mkF c0 c1 cadd csub cmul cdiv copp (fun a b => Qle_bool (fst a) (fst b)).

Definition of_real (x : Q) : C := (x, 0).
(* np.sign on complex numbers: z / |z|, and 0 for 0 *)
Definition cphase (sq : Q -> Q) (z : C) : C :=
  let n := cnorm2 z in
  if Qeq_bool n 0 then c0 else let a := sq n in (Qred (fst z / a), Qred (snd z / a)).
(* |a| < |b|, decided exactly on the squared magnitudes *)
Definition cabsltb (a b : C) : bool := negb (Qle_bool (cnorm2 b) (cnorm2 a)).

Definition svd_flip_c (sq : Q -> Q) : list (list C) -> list (list C) -> bool -> list (list C) * list (list C) :=
  svd_flip_conj c0 c1 cmul cconj (cphase sq) cabsltb.
Definition csq (sq : Q -> Q) (z : C) : C := of_real (sq (fst z)).      (* sqrt of a real quantity held in a complex array *)
Definition symeig_svd_c (sq : Q -> Q) (eps : Q) (lam : list C) (W : list (list C)) (M : list (list C)) (d1 d2 : nat) (n : option nat)
  : triple C := symeig_svd_conj Cops cconj (fun _ => (lam, W)) (csq sq) (of_real eps) M d1 d2 n.
