(* Model of svd_flip as of commit ca31a67 (complex-aware): the deciding factor is multiplied by the CONJUGATE of the phases,
   the other factor by the phases themselves.  Polymorphic in the scalar type: kmul, cj (conjugation), phase (np.sign: z / |z|,
   0 for 0) and absltb a b (|a| < |b|, the comparison behind argmax(abs(.))) are arguments.  Definitions only.
   The real model Model/Svd.v svd_flip is the instance cj = identity, phase = fsign (Proofs/SvdConjProofs.v). *)
From Coq Require Import List Arith Bool.
From TLV Require Import Base.Ops Base.Tensor Model.Svd.
Import ListNotations.

Section Conj.
Context {K : Type} (k0 k1 : K) (kmul : K -> K -> K) (cj : K -> K) (phase : K -> K) (absltb : K -> K -> bool).

Fixpoint cpick (l : list K) (best : K) : K :=
  match l with
  | [] => best
  | x :: r => if absltb best x then cpick r x else cpick r best
  end.
Definition cdeciding (l : list K) : K := match l with [] => k0 | x :: r => cpick r x end.
Definition ccol (j : nat) (M : list (list K)) : list K := map (fun r => nth j r k0) M.
Definition cmul_vec (r sg : list K) : list K := map (fun p => kmul (fst p) (snd p)) (combine r sg).
Definition cscale_cols (sg : list K) (U : list (list K)) : list (list K) := map (fun r => cmul_vec r sg) U.
Definition cscale_rows (sg : list K) (V : list (list K)) : list (list K) :=
  map (fun p => map (fun x => kmul x (fst p)) (snd p)) (combine sg V).
Fixpoint cfit (n : nat) (l : list K) : list K :=
  match n with
  | 0 => []
  | S n' => match l with [] => k1 :: cfit n' [] | x :: r => x :: cfit n' r end
  end.
Definition csigns_u (U : list (list K)) : list K := map (fun j => phase (cdeciding (ccol j U))) (seq 0 (ncols U)).
Definition csigns_v (V : list (list K)) : list K := map (fun r => phase (cdeciding r)) V.

(* u-based: U = U * conj(signs); signs padded with ones; V = V * signs[:rows V][:, None]
   v-based: V = V * conj(signs)[:, None]; signs padded with ones; U = U * signs[:cols U] *)
Definition svd_flip_conj (U V : list (list K)) (u_based : bool) : list (list K) * list (list K) :=
  if u_based then
    let sg := csigns_u U in (cscale_cols (map cj sg) U, cscale_rows (cfit (length V) sg) V)
  else
    let sg := csigns_v V in (cscale_cols (cfit (ncols U) sg) U, cscale_rows (map cj sg) V).
End Conj.

(* ---------- symeig_svd as of commit d995974: the Gram matrix is formed with the CONJUGATE transpose matrix_h = conj(transpose(matrix)),
   and the returned V is conj(transpose(V)).  Same structure as Model/Svd.v symeig_svd, with the conjugation cj as an argument. ---------- *)
Section SymeigConj.
Context {F : Type} (Op : fops F) (cj : F -> F).
Definition cjmat (M : list (list F)) : list (list F) := map (map cj) M.
Definition symeig_svd_conj (eigh : list (list F) -> list F * list (list F)) (sq : F -> F) (eps : F) (M : list (list F)) (d1 d2 : nat)
    (n : option nat) : triple F :=
  let '(k, _, _) := svd_checks d1 d2 n in
  let Mh := cjmat (transp Op d2 M) in
  let '(U, Sg, V) :=
    if d2 <? d1 then
      let '(lam, W) := eigh (mmul Op d1 M Mh) in
      let Sg := map (fun x => sq (clip_lo Op eps x)) lam in
      (W, Sg, mmul Op d1 Mh (div_cols Op W Sg))
    else
      let '(lam, W) := eigh (mmul Op d2 Mh M) in
      let Sg := map (fun x => sq (clip_lo Op eps x)) lam in
      (div_cols Op (mmul Op d2 M W) Sg, Sg, W) in
  let c := if d2 <? d1 then d1 else d2 in
  let U := map (@rev F) U in
  let Sg := rev Sg in
  let V := rev (cjmat (transp Op c V)) in
  (map (firstn (Nat.min d1 k)) U, firstn (Nat.min (Nat.min d1 d2) k) Sg, firstn (Nat.min d2 k) V).

(* svd_interface without mask / non_negative, with the sign-resolution function as an argument (the real model uses svd_flip Op,
   complex requests use the conjugate-aware flip) *)
Definition svd_interface_flip (flipf : list (list F) -> list (list F) -> bool -> list (list F) * list (list F))
    (funs : fname -> nat -> list (list F) -> triple F) (meth : method) (M : list (list F)) (flip_sign u_based : bool) : res (triple F) :=
  match dispatch meth with
  | None => Err
  | Some f =>
    let '(U, Sg, V) := funs f 0 M in
    let '(U, V) := if flip_sign then flipf U V u_based else (U, V) in
    Ok (U, Sg, V)
  end.
End SymeigConj.

