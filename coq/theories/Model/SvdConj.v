(* Model of svd_flip as of commit ca31a67 (complex-aware): the deciding factor is multiplied by the CONJUGATE of the phases,
   the other factor by the phases themselves.  Polymorphic in the scalar type: kmul, cj (conjugation), phase (np.sign: z / |z|,
   0 for 0) and absltb a b (|a| < |b|, the comparison behind argmax(abs(.))) are arguments.  Definitions only.
   The real model Model/Svd.v svd_flip is the instance cj = identity, phase = fsign (Proofs/SvdConjProofs.v). *)
From Coq Require Import List Arith Bool.
From TLV Require Import Base.Ops Base.Tensor Model.Svd.
Import ListNotations.

Section Conj.
Context {K : Type} (k0 k1 : K) (kmul : K -> K -> K) (cj : K -> K) (phase : K -> K) (absltb : K -> K -> bool).

Fixpoint cpick (l : list K) (best : K) : K :=
  match l with
  | [] => best
  | x :: r => if absltb best x then cpick r x else cpick r best
  end.
Definition cdeciding (l : list K) : K := match l with [] => k0 | x :: r => cpick r x end.
Definition ccol (j : nat) (M : list (list K)) : list K := map (fun r => nth j r k0) M.
Definition cmul_vec (r sg : list K) : list K := map (fun p => kmul (fst p) (snd p)) (combine r sg).
Definition cscale_cols (sg : list K) (U : list (list K)) : list (list K) := map (fun r => cmul_vec r sg) U.
Definition cscale_rows (sg : list K) (V : list (list K)) : list (list K) :=
  map (fun p => map (fun x => kmul x (fst p)) (snd p)) (combine sg V).
Fixpoint cfit (n : nat) (l : list K) : list K :=
  match n with
  | 0 => []
  | S n' => match l with [] => k1 :: cfit n' [] | x :: r => x :: cfit n' r end
  end.
Definition csigns_u (U : list (list K)) : list K := map (fun j => phase (cdeciding (ccol j U))) (seq 0 (ncols U)).
Definition csigns_v (V : list (list K)) : list K := map (fun r => phase (cdeciding r)) V.

(* u-based: U = U * conj(signs); signs padded with ones; V = V * signs[:rows V][:, None]
   v-based: V = V * conj(signs)[:, None]; signs padded with ones; U = U * signs[:cols U] *)
Definition svd_flip_conj (U V : list (list K)) (u_based : bool) : list (list K) * list (list K) :=
  if u_based then
    let sg := csigns_u U in (cscale_cols (map cj sg) U, cscale_rows (cfit (length V) sg) V)
  else
    let sg := csigns_v V in (cscale_cols (cfit (ncols U) sg) U, cscale_rows (map cj sg) V).
End Conj.

(* ---------- symeig_svd as of commit d995974: the Gram matrix is formed with the CONJUGATE transpose matrix_h = conj(transpose(matrix)),
   and the returned V is conj(transpose(V)).  Same structure as Model/Svd.v symeig_svd, with the conjugation cj as an argument. ---------- *)
Section SymeigConj.
Context {F : Type} (Op : fops F) (cj : F -> F).
Definition cjmat (M : list (list F)) : list (list F) := map (map cj) M.
Definition symeig_svd_conj (eigh : list (list F) -> list F * list (list F)) (sq : F -> F) (eps : F) (M : list (list F)) (d1 d2 : nat)
    (n : option nat) : triple F :=
  let '(k, _, _) := svd_checks d1 d2 n in
  let Mh := cjmat (transp Op d2 M) in
  let '(U, Sg, V) :=
    if d2 <? d1 then
      let '(lam, W) := eigh (mmul Op d1 M Mh) in
      let Sg := map (fun x => sq (clip_lo Op eps x)) lam in
      (W, Sg, mmul Op d1 Mh (div_cols Op W Sg))
    else
      let '(lam, W) := eigh (mmul Op d2 Mh M) in
      let Sg := map (fun x => sq (clip_lo Op eps x)) lam in
      (div_cols Op (mmul Op d2 M W) Sg, Sg, W) in
  let c := if d2 <? d1 then d1 else d2 in
  let U := map (@rev F) U in
  let Sg := rev Sg in
  let V := rev (cjmat (transp Op c V)) in
  (map (firstn (Nat.min d1 k)) U, firstn (Nat.min (Nat.min d1 d2) k) Sg, firstn (Nat.min d2 k) V).

(* svd_interface without mask / non_negative, with the sign-resolution function as an argument (the real model uses svd_flip Op,
   complex requests use the conjugate-aware flip) *)
Definition svd_interface_flip (flipf : list (list F) -> list (list F) -> bool -> list (list F) * list (list F))
    (funs : fname -> nat -> list (list F) -> triple F) (meth : method) (M : list (list F)) (flip_sign u_based : bool) : res (triple F) :=
  match dispatch meth with
  | None => Err
  | Some f =>
    let '(U, Sg, V) := funs f 0 M in
    let '(U, V) := if flip_sign then flipf U V u_based else (U, V) in
    Ok (U, Sg, V)
  end.

(* svd_interface with a mask (imputation loop of Model/Svd.v mask_loop, ring operations of Op) and the sign-resolution function as an
   argument, without non_negative: the complex requests with a mask run this at the Gaussian rationals *)
Definition svd_interface_cmask (flipf : list (list F) -> list (list F) -> bool -> list (list F) * list (list F))
    (funs : fname -> nat -> list (list F) -> triple F) (meth : method) (d2 : nat) (M : list (list F)) (n : option nat)
    (flip_sign u_based : bool) (mask : option (list (list F))) (iters : nat) : res (triple F) :=
  match dispatch meth with
  | None => Err
  | Some f =>
    let svd_fun := funs f in
    let t0 := svd_fun 0 M in
    let '(_, t1) := match mask, n with
                    | Some msk, Some _ => mask_loop Op svd_fun d2 msk iters 1 M t0
                    | _, _ => (M, t0) end in
    let '(U, Sg, V) := t1 in
    let '(U, V) := if flip_sign then flipf U V u_based else (U, V) in
    Ok (U, Sg, V)
  end.

(* ---------- randomized_range_finder / randomized_svd as of the conjugate-aware code: A_H = conj(transpose(A)) in the power iterations,
   Q_H = conj(transpose(Q)) for the reduced matrix; the transposed branch works on transpose(matrix) (no conjugate) and lifts by
   transpose(Q) (no conjugate).  Same structure as Model/Svd.v randomized_svd. ---------- *)
Definition range_finder_conj (qr : nat -> list (list F) -> list (list F)) (A : list (list F)) (cA : nat) (G : list (list F)) (n_iter : nat)
  : list (list F) :=
  power_iter Op qr A (cjmat (transp Op cA A)) n_iter 1 (qr 0 (mmul Op (ncols G) A G)).

Definition randomized_svd_conj (svd : list (list F) -> bool -> triple F) (qr : nat -> list (list F) -> list (list F)) (G : list (list F))
    (M : list (list F)) (d1 d2 : nat) (n : option nat) (n_over n_iter : nat) : triple F :=
  let '(k, mn, mx) := svd_checks d1 d2 n in
  let n_dims := Nat.min (k + n_over) mx in
  let t := Nat.min mn n_dims in
  if ((d2 <? d1) && (t <? k)) || ((d1 <? d2) && (k <? t)) then
    let Mt := transp Op d2 M in
    let Q := range_finder_conj qr Mt d1 G n_iter in
    let c := ncols Q in
    let Mred := transp Op d1 (mmul Op d1 (cjmat (transp Op c Q)) Mt) in
    let '(U, Sg, V) := truncated_svd (svd Mred) d1 c (Some k) in
    (U, Sg, mmul Op d2 V (transp Op c Q))
  else
    let Q := range_finder_conj qr M d2 G n_iter in
    let c := ncols Q in
    let Mred := mmul Op d2 (cjmat (transp Op c Q)) M in
    let '(U, Sg, V) := truncated_svd (svd Mred) c d2 (Some k) in
    (mmul Op (ncols U) Q U, Sg, V).

(* the LAST tl.qr call of the range finder: its index and the test matrix P it sketches A with (A @ P); generic in the scalar operations
   (Proofs/SvdRandE2E.v final_test is the instance at Rops) *)
Fixpoint last_test_g (qr : nat -> list (list F) -> list (list F)) (A At : list (list F)) (n_iter call : nat) (Q P : list (list F))
  : nat * list (list F) :=
  match n_iter with
  | 0 => (call - 1, P)
  | S k => let Q1 := qr call (mmul Op (ncols Q) At Q) in
           last_test_g qr A At k (S (S call)) (qr (S call) (mmul Op (ncols Q1) A Q1)) Q1
  end.
Definition final_test_g (qr : nat -> list (list F) -> list (list F)) (A : list (list F)) (cA : nat) (G : list (list F)) (n_iter : nat)
  : nat * list (list F) :=
  last_test_g qr A (transp Op cA A) n_iter 1 (qr 0 (mmul Op (ncols G) A G)) G.
End SymeigConj.
