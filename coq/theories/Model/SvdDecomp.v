(* Model of the SVD-based decompositions of TensorLy (C09):
     tensorly/tenalg/svd.py           truncated_svd (slicing), svd_flip (u-based), svd_interface
     tensorly/decomposition/_tt.py    tensor_train, tensor_train_matrix
     tensorly/decomposition/_tr_svd.py tensor_ring (every start mode)
     tensorly/decomposition/_tucker.py initialize_tucker (init="svd") + HOOI sweeps of partial_tucker (tol=0)
     tensorly/tt_tensor.py / tr_tensor.py / tucker_tensor.py  validate_*_rank for int / list ranks
   LAPACK's svd is NOT re-implemented: it is the oracle `svd : nat -> tensor F -> svdans`
   (call index, query matrix) -> (U, S, Vh).  For execution the harness instantiates it with the
   answers recorded from the real backend (Corr/C09.v); for the theorems it is a Section variable
   whose answers are constrained by contract predicates (Proofs/SvdDecompProofs.v).
   Written once over a record of operations `fops F`.  Definitions only. *)
From Coq Require Import List Arith Lia Bool.
From TLV Require Import Base.Shape Base.PyList Base.Tensor Base.BigSum Base.Ops Model.Base.
Import ListNotations.

Section M.
Context {F : Type} (Op : fops F).

Definition svdans : Type := (tensor F * list F * tensor F)%type.

Definition fsumn (n : nat) (f : nat -> F) : F := bigsum F (f0 Op) (fadd Op) n f.
Definition g (t : tensor F) (idx : list nat) : F := get (f0 Op) t idx.
Definition nrows (t : tensor F) : nat := nth 0 (shape t) 0.
Definition ncols (t : tensor F) : nat := nth 1 (shape t) 0.

Fixpoint nat_list_eqb (a b : list nat) : bool :=
  match a, b with [], [] => true | x :: a', y :: b' => Nat.eqb x y && nat_list_eqb a' b' | _, _ => false end.

(* ---------------------------------------------------------------- tenalg/svd.py *)
(* np.sign *)
Definition fsign (x : F) : F :=
  if fltb Op (f0 Op) x then f1 Op else if fltb Op x (f0 Op) then fopp Op (f1 Op) else f0 Op.

(* np.argmax(np.abs(col)): first index of the largest magnitude *)
Fixpoint argmax_from (l : list F) (i best : nat) (bv : F) : nat :=
  match l with
  | [] => best
  | x :: l' => if fltb Op bv (fabs Op x) then argmax_from l' (S i) i (fabs Op x)
               else argmax_from l' (S i) best bv
  end.
Definition argmax_abs (l : list F) : nat :=
  match l with [] => 0 | x :: l' => argmax_from l' 1 0 (fabs Op x) end.

Definition column (U : tensor F) (j : nat) : list F := map (fun i => g U [i; j]) (seq 0 (nrows U)).

(* signs = sign(U[argmax |U[:, j]|, j]) for every column j *)
Definition flip_signs (U : tensor F) : list F :=
  map (fun j => let c := column U j in fsign (nth (argmax_abs c) c (f0 Op))) (seq 0 (ncols U)).

(* U[:, :r]  and  V[:r, :]  (NumPy slicing clips r to the available extent) *)
Definition cols_firstn (r : nat) (U : tensor F) : tensor F :=
  tabulate [nrows U; Nat.min r (ncols U)] (fun idx => g U idx).
Definition rows_firstn (r : nat) (V : tensor F) : tensor F :=
  tabulate [Nat.min r (nrows V); ncols V] (fun idx => g V idx).

(* U * signs ;  V * signs[:rows V][:, None]  with signs padded by ones when V has more rows *)
Definition scale_cols (U : tensor F) (sg : list F) : tensor F :=
  tabulate (shape U) (fun idx => fmul Op (g U idx) (nth (nth 1 idx 0) sg (f1 Op))).
Definition scale_rows (V : tensor F) (sg : list F) : tensor F :=
  tabulate (shape V) (fun idx => fmul Op (g V idx) (nth (nth 0 idx 0) sg (f1 Op))).

(* truncated_svd: U[:, :n], S[:n], V[:n, :] of the backend's answer *)
Definition truncated_svd (ans : svdans) (ne : nat) : svdans :=
  let '(U, Sv, V) := ans in (cols_firstn ne U, firstn ne Sv, rows_firstn ne V).

(* svd_flip(U, V, u_based_decision=True) *)
Definition svd_flip (ans : svdans) : svdans :=
  let '(U, Sv, V) := ans in let sg := flip_signs U in (scale_cols U sg, Sv, scale_rows V sg).

(* svd_interface(matrix, n_eigenvecs=ne) with the defaults (truncated_svd, flip_sign, u based) *)
Definition svd_interface (ans : svdans) (ne : nat) : svdans := svd_flip (truncated_svd ans ne).

(* tl.reshape(S, (-1, 1)) * V *)
Definition sv_mul (Sv : list F) (V : tensor F) : tensor F :=
  tabulate (shape V) (fun idx => fmul Op (nth (nth 0 idx 0) Sv (f0 Op)) (g V idx)).

(* the shapes the code relies on when it reshapes U and multiplies S into V *)
Definition fact_shapes_ok (m n r : nat) (a : svdans) : bool :=
  let '(U, Sv, V) := a in
  nat_list_eqb (shape U) [m; r] && wfb U && Nat.eqb (length Sv) r && nat_list_eqb (shape V) [r; n] && wfb V.

(* ---------------------------------------------------------------- the oracle *)
Variable svd : nat -> tensor F -> svdans.

(* ---------------------------------------------------------------- _tt.py / _tr_svd.py main loop
   sizes: the remaining mode sizes (current one first); ranks: the requested ranks rank[k+1..];
   rk: the rank actually obtained on the left (rank[k] after clipping); r0: trailing bond dimension
   (1 for TT, rank[0] for the ring); W: row-major data of the working unfolding, i.e. of the
   array of shape (rk, sizes..., r0).  k: index of the SVD call (for the oracle). *)
Fixpoint chain_loop (k : nat) (sizes ranks : list nat) (rk r0 : nat) (W : list F) : res (list (tensor F)) :=
  match sizes with
  | [] => Err
  | n :: rest =>
    match rest with
    | [] => Ok [mk [rk; n; r0] W]                     (* last factor: reshape of the remainder *)
    | _ :: _ =>
      let n_row := rk * n in
      let n_col := prod rest * r0 in                   (* reshape(unfolding, (n_row, -1)) *)
      let r := Nat.min n_row (Nat.min n_col (hd 1 ranks)) in   (* rank clipping *)
      let a := svd_interface (svd k (mk [n_row; n_col] W)) r in
      if fact_shapes_ok n_row n_col r a then
        let '(U, Sv, V) := a in
        rbind (chain_loop (S k) rest (tl ranks) r r0 (data (sv_mul Sv V)))
              (fun cs => Ok (reshape [rk; n; r] U :: cs))   (* k-th factor: reshape of U *)
      else Err
    end
  end.

Definition rank_spec : Type := (nat + list nat)%type.

(* validate_tt_rank for int / list ranks (allow_overparametrization=True) *)
Definition validate_tt_rank (n : nat) (rank : rank_spec) : res (list nat) :=
  match rank with
  | inl r => Ok (1 :: repeat r (n - 1) ++ [1])
  | inr l => if Nat.eqb (length l) (n + 1) && Nat.eqb (hd 0 l) 1 && Nat.eqb (last l 0) 1 then Ok l else Err
  end.

(* an order-1 (or order-0) input: `(prev_rank, last_dim) = unfolding.shape` fails on the 1-D array -> ValueError *)
Definition tensor_train (X : tensor F) (rank : rank_spec) : res (list (tensor F)) :=
  rbind (validate_tt_rank (ndim X) rank) (fun rk =>
    if ndim X <=? 1 then Err else chain_loop 0 (shape X) (tl rk) 1 1 (data X)).

(* tensor_train_matrix: interleave input/output modes, merge the pairs, TT-SVD, split again *)
Fixpoint zip3 {A B C D} (f : A -> B -> C -> D) (la : list A) (lb : list B) (lc : list C) : list D :=
  match la, lb, lc with a :: la', b :: lb', c :: lc' => f a b c :: zip3 f la' lb' lc' | _, _, _ => [] end.
Fixpoint zip2 {A B C} (f : A -> B -> C) (la : list A) (lb : list B) : list C :=
  match la, lb with a :: la', b :: lb' => f a b :: zip2 f la' lb' | _, _ => [] end.

Definition interleave_idx (ni : nat) : list nat := flat_map (fun i => [i; ni + i]) (seq 0 ni).

Definition tensor_train_matrix (X : tensor F) (rank : rank_spec) : res (list (tensor F)) :=
  let order := ndim X in
  let ni := order / 2 in
  if negb (Nat.eqb order (2 * ni)) then Err else
  let ins := firstn ni (shape X) in
  let outs := skipn ni (shape X) in
  if Nat.eqb ni 1 then Ok [mk [1; hd 0 ins; hd 0 outs; 1] (data X)] else
  let T := reshape (zip2 Nat.mul ins outs) (transpose (f0 Op) (interleave_idx ni) X) in
  rbind (tensor_train T rank) (fun fs =>
    Ok (zip3 (fun f a b => reshape [nth 0 (shape f) 0; a; b; nth 2 (shape f) 0] f) fs ins outs)).

(* validate_tr_rank for int / list ranks *)
Definition validate_tr_rank (n : nat) (rank : rank_spec) : res (list nat) :=
  match rank with
  | inl r => Ok (repeat r (n + 1))
  | inr l => if Nat.eqb (length l) (n + 1) && Nat.eqb (hd 0 l) (last l 0) then Ok l else Err
  end.

Definition rotate {A} (m : nat) (l : list A) : list A := skipn m l ++ firstn m l.

(* rank = rank[mode:n_dim] + rank[: mode + 1]   (source after fix e10d22b): bond j of the rotated ring is
   bond (mode + j) mod n of the request, the closing bond listed at both ends.
   tr_rotate_rank_old is the rule before the fix, rank[mode:] + rank[:mode]: the (n+1)-entry list has
   rank[0] = rank[n] twice, so for mode >= 2 every bond after the wrap-around was shifted by one
   (kept only for the documented counterexample C09_tr_old_rotation_refuted). *)
Definition tr_rotate_rank (n mode : nat) (rk : list nat) : list nat :=
  firstn (n - mode) (skipn mode rk) ++ firstn (mode + 1) rk.
Definition tr_rotate_rank_old (mode : nat) (rk : list nat) : list nat := rotate mode rk.
Definition tr_rotate_rank_spec (n mode : nat) (rk : list nat) : list nat :=
  map (fun j => nth ((mode + j) mod n) rk 0) (seq 0 (n + 1)).

(* the body of tensor_ring after the rotation: first SVD with rank[0]*rank[1] kept triplets, first factor
   = transpose(reshape(U, (s0, r0, r1)), (1,0,2)), remainder reshaped to (r0, r1, -1) and transposed to
   (r1, -1, r0), then the sequential loop shared with tensor_train (calls 1, 2, ...) *)
Definition tr_core (Xp : tensor F) (rk : list nat) : res (list (tensor F)) :=
  let s0 := hd 0 (shape Xp) in
  let rest := tl (shape Xp) in
  let r0 := nth 0 rk 0 in
  let r1 := nth 1 rk 0 in
  let n_col := prod rest in
  if Nat.min s0 n_col <? r0 * r1 then Err else
  let a := svd_interface (svd 0 (mk [s0; n_col] (data Xp))) (r0 * r1) in
  if fact_shapes_ok s0 n_col (r0 * r1) a then
    let '(U, Sv, V) := a in
    let factor0 := transpose (f0 Op) [1; 0; 2] (reshape [s0; r0; r1] U) in
    let W := transpose (f0 Op) [1; 2; 0] (reshape [r0; r1; n_col] (sv_mul Sv V)) in
    rbind (chain_loop 1 rest (skipn 2 rk) r1 r0 (data W)) (fun cs => Ok (factor0 :: cs))
  else Err.

Definition tensor_ring (X : tensor F) (rank : rank_spec) (mode : nat) : res (list (tensor F)) :=
  let n := ndim X in
  rbind (validate_tr_rank n rank) (fun rk0 =>
    if negb (mode <? n) then Err else
    let Xp := if Nat.eqb mode 0 then X else transpose (f0 Op) (rotate mode (seq 0 n)) X in
    let rk := if Nat.eqb mode 0 then rk0 else tr_rotate_rank n mode rk0 in
    rbind (tr_core Xp rk) (fun fs =>
      Ok (if Nat.eqb mode 0 then fs else lastn mode fs ++ firstn (n - mode) fs))).

(* ---------------------------------------------------------------- _tucker.py *)
(* mode_dot(X, M, k) / mode_dot(X, M^T, k), index-level definition of the n-mode product *)
Definition mode_dot (X M : tensor F) (k : nat) (tr : bool) : res (tensor F) :=
  let nk := nth k (shape X) 0 in
  if (k <? ndim X) && Nat.eqb (ndim M) 2 && Nat.eqb (if tr then nrows M else ncols M) nk then
    Ok (tabulate (set_nth k (if tr then ncols M else nrows M) (shape X))
         (fun idx => fsumn nk (fun j =>
            fmul Op (if tr then g M [j; nth k idx 0] else g M [nth k idx 0; j]) (g X (set_nth k j idx)))))
  else Err.

(* multi_mode_dot(X, Ms, modes = 0.., skip, transpose) *)
Fixpoint multi_mode_dot (X : tensor F) (Ms : list (tensor F)) (k : nat) (skip : option nat) (tr : bool) : res (tensor F) :=
  match Ms with
  | [] => Ok X
  | M :: Ms' =>
    if match skip with Some s => Nat.eqb s k | None => false end
    then multi_mode_dot X Ms' (S k) skip tr
    else rbind (mode_dot X M k tr) (fun Y => multi_mode_dot Y Ms' (S k) skip tr)
  end.

Definition validate_tucker_rank (n : nat) (rank : rank_spec) : list nat :=
  match rank with inl r => repeat r n | inr l => l end.

Definition fst3 (a : svdans) : tensor F := let '(U, _, _) := a in U.

(* initialize_tucker(init="svd"): factor m = U of svd_interface(unfold(X, m), rank[m]); calls c0, c0+1, ... *)
Fixpoint hosvd_factors (X : tensor F) (ranks : list nat) (m c : nat) : res (list (tensor F)) :=
  match ranks with
  | [] => Ok []
  | r :: ranks' =>
    rbind (unfold (f0 Op) X m) (fun Xm =>
    rbind (hosvd_factors X ranks' (S m) (S c)) (fun fs =>
      Ok (fst3 (svd_interface (svd c Xm) r) :: fs)))
  end.

(* one HOOI sweep: for every mode, project on all other factors, take the leading left singular vectors *)
Fixpoint hooi_modes (X : tensor F) (ranks : list nat) (m c : nat) (fs : list (tensor F)) : res (list (tensor F)) :=
  match ranks with
  | [] => Ok fs
  | r :: ranks' =>
    rbind (multi_mode_dot X fs 0 (Some m) true) (fun Y =>
    rbind (unfold (f0 Op) Y m) (fun Ym =>
      hooi_modes X ranks' (S m) (S c) (set_nth m (fst3 (svd_interface (svd c Ym) r)) fs)))
  end.

Fixpoint hooi_iter (X : tensor F) (ranks : list nat) (n_iter c : nat) (fs : list (tensor F)) : res (list (tensor F)) :=
  match n_iter with
  | O => Ok fs
  | S it => rbind (hooi_modes X ranks 0 c fs) (fun fs' => hooi_iter X ranks it (c + length ranks) fs')
  end.

(* tucker(X, rank, n_iter_max=n_iter, init="svd", tol=0): (core, factors) *)
Definition tucker (X : tensor F) (rank : rank_spec) (n_iter : nat) : res (tensor F * list (tensor F)) :=
  let ranks := validate_tucker_rank (ndim X) rank in
  if negb (Nat.eqb (length ranks) (ndim X)) then Err else
  if ndim X <=? 1 then Err else      (* TuckerTensor: "should be composed of at least two factors and a core" *)
  rbind (hosvd_factors X ranks 0 0) (fun fs0 =>
  rbind (hooi_iter X ranks n_iter (ndim X) fs0) (fun fs =>
  rbind (multi_mode_dot X fs 0 None true) (fun core => Ok (core, fs)))).

(* ---------------------------------------------------------------- reconstruction SPECS (textbook formulas) *)
(* entry (a, c) of the matrix product G_k[i_k] G_{k+1}[i_{k+1}] ... *)
Fixpoint chain (cores : list (tensor F)) (a : nat) (idx : list nat) (c : nat) : F :=
  match cores, idx with
  | [], [] => if Nat.eqb a c then f1 Op else f0 Op
  | G :: cs, i :: idx' => fsumn (nth 2 (shape G) 0) (fun b => fmul Op (g G [a; i; b]) (chain cs b idx' c))
  | _, _ => f0 Op
  end.
Definition tt_entry (cores : list (tensor F)) (idx : list nat) : F := chain cores 0 idx 0.
Definition tr_entry (cores : list (tensor F)) (idx : list nat) : F :=
  fsumn (nth 0 (shape (hd (mk [] []) cores)) 0) (fun a => chain cores a idx a).
Definition tt_to_tensor (cores : list (tensor F)) : tensor F :=
  tabulate (map (fun G => nth 1 (shape G) 0) cores) (tt_entry cores).
Definition tr_to_tensor (cores : list (tensor F)) : tensor F :=
  tabulate (map (fun G => nth 1 (shape G) 0) cores) (tr_entry cores).
Definition tucker_to_tensor (core : tensor F) (fs : list (tensor F)) : res (tensor F) :=
  multi_mode_dot core fs 0 None false.

End M.

(* ---------------------------------------------------------------- tt_tensor.py: validate_tt_rank(allow_overparametrization=False)
   for list ranks, as the code is, and the ranks TT-SVD realises (see Proofs/SvdDecompValidate.v) *)
(* the loop of the code (after fix 03a63dd), with its accumulator:
     validated_rank = [1]
     for i, s in enumerate(shape[:-1]):
         validated_rank.append(min(validated_rank[i] * s, prod(shape[i+1:]), rank[i+1]))
     validated_rank.append(1) *)
Fixpoint strict_loop_code (sizes : list nat) (i : nat) (validated rank : list nat) : list nat :=
  match sizes with
  | [] => validated
  | s :: rest =>
    match rest with
    | [] => validated
    | _ :: _ =>
      strict_loop_code rest (S i)
        (validated ++ [Nat.min (nth i validated 0 * s) (Nat.min (prod rest) (nth (S i) rank 0))]) rank
    end
  end.
Definition validate_tt_rank_strict_code (shape rank : list nat) : list nat :=
  strict_loop_code shape 0 [1] rank ++ [1].

(* the bonds TT-SVD realises: the left factor is the bond obtained at the previous step *)
Fixpoint realised_body (sizes : list nat) (rk : nat) (ranks : list nat) : list nat :=
  match sizes with
  | [] => []
  | s :: rest =>
    match rest with
    | [] => []
    | _ :: _ => let r := Nat.min (rk * s) (Nat.min (prod rest) (hd 1 ranks)) in r :: realised_body rest r (tl ranks)
    end
  end.
Definition realised_tt_rank (shape rank : list nat) : list nat := 1 :: realised_body shape 1 (tl rank) ++ [1].


