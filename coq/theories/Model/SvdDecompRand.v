(* Model of tensorly/tenalg/svd.py randomized_svd + randomized_range_finder (svd="randomized_svd" of tensor_train /
   tensor_train_matrix / tensor_ring / tucker), as a TRANSCRIPTION: the choice of the branch, n_dims, the products with Q and
   Q^T and the power iterations are computed by the model; the Gaussian test matrix Omega, LAPACK's QR (reduced; only Q is
   used) and the SVD of the reduced matrix are oracles (data).
       n_eigenvecs <- min(n_eigenvecs, max_dim)                       (svd_checks)
       n_dims = min(n_eigenvecs + n_oversamples, max_dim)
       if dim_1 > dim_2 and n_eigenvecs > min(min_dim, n_dims) or dim_1 < dim_2 and n_eigenvecs < min(min_dim, n_dims):
           Q = range_finder(M^T) ; reduced = (Q^T M^T)^T ; U, S, V = truncated_svd(reduced, n_eigenvecs) ; V = V Q^T
       else:
           Q = range_finder(M)   ; reduced = Q^T M       ; U, S, V = truncated_svd(reduced, n_eigenvecs) ; U = Q U
       range_finder(A): Q = qr(A Omega) ; n_iter times: Q = qr(A^T Q) ; Q = qr(A Q)
   Definitions only. *)
From Coq Require Import List Arith Lia Bool.
From TLV Require Import Base.Shape Base.PyList Base.Tensor Base.BigSum Base.Ops Model.Base Model.SvdDecomp Model.SvdDecompSymeig.
Import ListNotations.

Section M.
Context {F : Type} (Op : fops F).
Variable qr : nat -> tensor F -> tensor F.          (* call index within this SVD call, query -> Q *)

Fixpoint range_iter (A At : tensor F) (c n_iter : nat) (Q : tensor F) : tensor F :=
  match n_iter with
  | O => Q
  | S it => let Q1 := qr c (matmul Op At Q) in
            let Q2 := qr (S c) (matmul Op A Q1) in
            range_iter A At (S (S c)) it Q2
  end.

Definition range_finder (A Omega : tensor F) (n_iter : nat) : tensor F :=
  range_iter A (mtrans Op A) 1 n_iter (qr 0 (matmul Op A Omega)).

Definition rand_transposed (d1 d2 ne n_dims : nat) : bool :=
  let mn := Nat.min (Nat.min d1 d2) n_dims in
  ((d2 <? d1) && (mn <? ne)) || ((d1 <? d2) && (ne <? mn)).

Definition rand_n_eigenvecs (d1 d2 ne : nat) : nat := Nat.min ne (Nat.max d1 d2).
Definition rand_n_dims (d1 d2 ne n_over : nat) : nat := Nat.min (rand_n_eigenvecs d1 d2 ne + n_over) (Nat.max d1 d2).

(* inner: the backend's SVD of the reduced matrix (untruncated answer; truncated_svd slices it) *)
Definition randomized_svd (inner : tensor F -> svdans) (M Omega : tensor F) (ne n_over n_iter : nat) : svdans :=
  let d1 := nrows M in
  let d2 := ncols M in
  let ne' := rand_n_eigenvecs d1 d2 ne in
  let n_dims := rand_n_dims d1 d2 ne n_over in
  if rand_transposed d1 d2 ne' n_dims then
    let Mt := mtrans Op M in
    let Q := range_finder Mt Omega n_iter in
    let red := mtrans Op (matmul Op (mtrans Op Q) Mt) in
    let '(U, Sv, V) := truncated_svd Op (inner red) ne' in
    (U, Sv, matmul Op V (mtrans Op Q))
  else
    let Q := range_finder M Omega n_iter in
    let red := matmul Op (mtrans Op Q) M in
    let '(U, Sv, V) := truncated_svd Op (inner red) ne' in
    (matmul Op Q U, Sv, V).

End M.
