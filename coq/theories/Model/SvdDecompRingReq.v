(* C09: a decidable form of "the tensor-ring request keeps everything" (definitions only): r0 * r1 = min(s0, n_col) for the first
   SVD of the (rotated) input and no request of the sequential loop clipping below min(n_row, n_col) of its step.  Evaluated by the
   correspondence (Corr/C09.v, kind KFullReq) on every tensor_ring input the harness labels "sufficient"; Proofs/SvdDecompRingRank.v
   proves that it implies the premise of the exactness theorem C09_tensor_ring_exact_full_request. *)
From Coq Require Import List Arith Bool.
From TLV Require Import Base.Shape Base.PyList Base.Tensor Model.Base Model.SvdDecomp.
Import ListNotations.

Fixpoint full_boundsb (sizes ranks : list nat) (rk r0 : nat) : bool :=
  match sizes with
  | [] => true
  | n :: rest =>
    match rest with
    | [] => true
    | _ :: _ =>
      let r := Nat.min (rk * n) (prod rest * r0) in
      (r <=? hd 1 ranks) && full_boundsb rest (tl ranks) r r0
    end
  end.


Definition tr_full_requestb {F : Type} (X : tensor F) (rank : rank_spec) (mode : nat) : bool :=
  let n := ndim X in
  match validate_tr_rank n rank with
  | Ok rk0 =>
    let shp := if Nat.eqb mode 0 then shape X else rotate mode (shape X) in
    let rk := if Nat.eqb mode 0 then rk0 else tr_rotate_rank n mode rk0 in
    let s0 := hd 0 shp in
    let rest := tl shp in
    let r0 := nth 0 rk 0 in
    let r1 := nth 1 rk 0 in
    (0 <? prod rest * r0) && Nat.eqb (r0 * r1) (Nat.min s0 (prod rest)) && full_boundsb rest (skipn 2 rk) r1 r0
  | Err => false
  end.

