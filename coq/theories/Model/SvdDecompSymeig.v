(* Model of tensorly/tenalg/svd.py symeig_svd (svd="symeig_svd" of tensor_train / tensor_train_matrix /
   tensor_ring / tucker), as a TRANSCRIPTION: the Gram matrix, the clip of the eigenvalues at eps, the
   division by the clipped square roots, the flips and the slices are plain arithmetic and are computed
   by the model; only LAPACK's eigh (eigenvalues ascending, eigenvectors as columns) and the square root
   are oracles (their answers W and s are data; Corr/C09.v checks the query and s^2 = clip(lambda, eps)).
       dim_1 > dim_2 :  S, U = eigh(M M^T) ; S = sqrt(clip(S, eps)) ; V = M^T (U / S)
       otherwise     :  S, V = eigh(M^T M) ; S = sqrt(clip(S, eps)) ; U = (M V) / S
       U, S, V = flip(U, axis=1), flip(S), flip(V^T, axis=0)
       return U[:, :min(dim_1, n)], S[:min(dim_1, dim_2, n)], V[:min(dim_2, n), :]
   symeig_ans is the answer sliced by the DIMENSIONS only; the generic model (Model/SvdDecomp.v) then
   slices by the requested number of triplets, which composes to the return expression of the code
   (Proofs/SvdDecompSymeig.v symeig_truncation_eq).  Plugging `fun k M => symeig_ans M (W k) (s k)` in
   for the oracle `svd` of Model/SvdDecomp.v gives the four decompositions with svd="symeig_svd".
   Definitions only. *)
From Coq Require Import List Arith Lia Bool.
From TLV Require Import Base.Shape Base.PyList Base.Tensor Base.BigSum Base.Ops Model.Base Model.SvdDecomp.
Import ListNotations.

Section M.
Context {F : Type} (Op : fops F).
Notation gg := (g Op).

(* tl.dot(A, B) *)
Definition matmul (A B : tensor F) : tensor F :=
  tabulate [nrows A; ncols B]
    (fun idx => fsumn Op (ncols A) (fun j => fmul Op (gg A [nth 0 idx 0; j]) (gg B [j; nth 1 idx 0]))).
(* tl.transpose(A) *)
Definition mtrans (A : tensor F) : tensor F :=
  tabulate [ncols A; nrows A] (fun idx => gg A [nth 1 idx 0; nth 0 idx 0]).
(* A / tl.reshape(s, (1, -1)) *)
Definition div_cols (A : tensor F) (s : list F) : tensor F :=
  tabulate (shape A) (fun idx => fdiv Op (gg A idx) (nth (nth 1 idx 0) s (f1 Op))).
(* tl.flip(A, axis=1) / tl.flip(A, axis=0) *)
Definition flip_cols (A : tensor F) : tensor F :=
  tabulate (shape A) (fun idx => gg A [nth 0 idx 0; ncols A - 1 - nth 1 idx 0]).
Definition flip_rows (A : tensor F) : tensor F :=
  tabulate (shape A) (fun idx => gg A [nrows A - 1 - nth 0 idx 0; nth 1 idx 0]).

(* the matrix handed to eigh *)
Definition gram_query (M : tensor F) : tensor F :=
  if ncols M <? nrows M then matmul M (mtrans M) else matmul (mtrans M) M.

(* tl.clip(x, a_min=eps) *)
Definition clip_min (eps x : F) : F := if fltb Op x eps then eps else x.

(* the body of symeig_svd after eigh and sqrt: W = eigenvectors, s = sqrt(clip(eigenvalues, eps)) *)
Definition symeig_raw (M W : tensor F) (s : list F) : svdans :=
  if ncols M <? nrows M then
    let V := matmul (mtrans M) (div_cols W s) in
    (flip_cols W, rev s, flip_rows (mtrans V))
  else
    let U := div_cols (matmul M W) s in
    (flip_cols U, rev s, flip_rows (mtrans W)).

(* the return expression of symeig_svd for n_eigenvecs = ne *)
Definition symeig_truncate (d1 d2 ne : nat) (a : svdans) : svdans :=
  let '(U, Sv, V) := a in
  (cols_firstn Op (Nat.min d1 ne) U, firstn (Nat.min d1 (Nat.min d2 ne)) Sv, rows_firstn Op (Nat.min d2 ne) V).

(* sliced by the dimensions only *)
Definition symeig_ans (M W : tensor F) (s : list F) : svdans :=
  let '(U, Sv, V) := symeig_raw M W s in
  (cols_firstn Op (nrows M) U, firstn (Nat.min (nrows M) (ncols M)) Sv, rows_firstn Op (ncols M) V).

(* symeig_svd(M, n_eigenvecs = ne) given the two oracle answers *)
Definition symeig_svd (M W : tensor F) (s : list F) (ne : nat) : svdans :=
  symeig_truncate (nrows M) (ncols M) ne (symeig_raw M W s).

End M.
