(* Model of the argument validation and of the keyword-argument forwarding of tensorly/tenalg/svd.py.  Definitions only.
   - svd_checks:              `if tl.ndim(matrix) != 2: raise ValueError` (first statement of truncated_svd / symeig_svd / randomized_svd)
   - svd_interface:           unknown method name -> ValueError (Model/Svd.v dispatch); a callable gets the array as it is
   - make_svd_non_negative:   `if nntype is True: nntype = "nndsvda"`; "nndsvd" / "nndsvda"; anything else -> ValueError
   - svd_interface:           `svd_fun(matrix, n_eigenvecs=n_eigenvecs, **kwargs)` on EVERY call (also inside the mask loop);
                              truncated_svd / symeig_svd absorb and ignore **kwargs, randomized_svd reads n_oversamples, n_iter, random_state *)
From Coq Require Import List Arith Bool.
From TLV Require Import Base.Ops Base.Tensor Model.Svd.
Import ListNotations.

(* non_negative = None / False / True / "nndsvd" / "nndsvda" / any other value (0, "", "foo", ...) *)
Inductive nnreq := NRnone | NRfalse | NRtrue | NRnndsvd | NRnndsvda | NRother.
Definition parse_nn (a : nnreq) : res (option nntype) :=
  match a with
  | NRnone | NRfalse => Ok None                 (* `non_negative is not False and non_negative is not None` fails: step skipped *)
  | NRtrue | NRnndsvda => Ok (Some NNDSVDA)
  | NRnndsvd => Ok (Some NNDSVD)
  | NRother => Err
  end.

Definition svd_checks_nd (shape : list nat) (n : option nat) : res (nat * nat * nat) :=
  match shape with [d1; d2] => Ok (svd_checks d1 d2 n) | _ => Err end.

(* does svd_interface raise, as a function of the array's shape, the method and the non_negative value (a built-in back end that
   received a matrix always returns; a callable is assumed to accept its input: tensorly does not validate for it) *)
Definition request_rejected (shape : list nat) (meth : method) (nn : nnreq) : bool :=
  match dispatch meth with
  | None => true
  | Some FUser => match parse_nn nn with Err => true | Ok _ => false end
  | Some _ => match svd_checks_nd shape None, parse_nn nn with Ok _, Ok _ => false | _, _ => true end
  end.

(* keyword arguments: KW is whatever the caller passed as **kwargs; every back end is a function of (kwargs, n_eigenvecs, call index,
   matrix); svd_interface hands the request's own kwargs and n_eigenvecs to the selected back end on every call *)
Definition svd_interface_kw {F KW : Type} (Op : fops F) (backends : fname -> KW -> option nat -> nat -> list (list F) -> triple F) (kw : KW)
    (meth : method) (d2 : nat) (M : list (list F)) (n : option nat) (flip_sign u_based : bool) (nn : option nntype)
    (mask : option (list (list F))) (iters : nat) (sq : F -> F) (eps : F) : res (triple F) :=
  svd_interface Op (fun f => backends f kw n) meth d2 M n flip_sign u_based nn mask iters sq eps.

(* the keyword arguments the built-in back ends understand: randomized_svd reads n_oversamples, n_iter and random_state (here: the
   Gaussian matrix the state produces); truncated_svd and symeig_svd absorb and ignore them *)
Record rkw (F : Type) := mkRkw { kw_n_oversamples : nat; kw_n_iter : nat; kw_draw : list (list F) }.
Arguments kw_n_oversamples {F}. Arguments kw_n_iter {F}. Arguments kw_draw {F}.
Definition builtin_backends {F : Type} (Op : fops F) (svd : list (list F) -> bool -> triple F) (eigh : list (list F) -> list F * list (list F))
    (qr : nat -> list (list F) -> list (list F)) (user : rkw F -> option nat -> nat -> list (list F) -> triple F) (sq : F -> F) (eps : F)
    (d1 d2 : nat) (f : fname) (kw : rkw F) (n : option nat) (call : nat) (X : list (list F)) : triple F :=
  match f with
  | FTruncated => truncated_svd (svd X) d1 d2 n
  | FSymeig => symeig_svd Op eigh sq eps X d1 d2 n
  | FRandomized => randomized_svd Op svd qr (kw_draw kw) X d1 d2 n (kw_n_oversamples kw) (kw_n_iter kw)
  | FUser => user kw n call X
  end.
