(* Model of tensorly/tenalg: core_tenalg/*.py and einsum_tenalg/*.py (+ sample_khatri_rao of
   decomposition/_cp.py).  Every function is the same composition of unfold / fold / dot /
   reshape / broadcast-multiply / np.kron / np.einsum and the same list surgery as the source.
   Written once over a record of ring operations (with conjugation); executed at Z and at the
   Gaussian integers Z[i]; theorems (Proofs/TenalgProofs*.v) hold for every commutative ring.
   Definitions only. *)
From Coq Require Import List Arith ZArith Bool.
From TLV Require Import Base.Shape Base.PyList Base.Tensor Base.BigSum Model.Base.
Import ListNotations.

(* ------------------------------------------------------------------ ring operations *)
Record rops (F : Type) := mkR {
  r0 : F; r1 : F; radd : F -> F -> F; rmul : F -> F -> F; rsub : F -> F -> F; ropp : F -> F;
  rconj : F -> F }.
Arguments mkR {F}. Arguments r0 {F}. Arguments r1 {F}. Arguments radd {F}. Arguments rmul {F}.
Arguments rsub {F}. Arguments ropp {F}. Arguments rconj {F}.

Definition ZR : rops Z := mkR 0%Z 1%Z Z.add Z.mul Z.sub Z.opp (fun x => x).
Definition GI : Type := (Z * Z)%type.      (* a + b i *)
Definition GR : rops GI :=
  mkR (0, 0)%Z (1, 0)%Z
      (fun a b => (fst a + fst b, snd a + snd b)%Z)
      (fun a b => (fst a * fst b - snd a * snd b, fst a * snd b + snd a * fst b)%Z)
      (fun a b => (fst a - fst b, snd a - snd b)%Z)
      (fun a => (- fst a, - snd a)%Z)
      (fun a => (fst a, - snd a)%Z).

(* ------------------------------------------------------------------ list helpers *)
Definition skipl {A} (skip : option nat) (l : list A) : list A :=
  match skip with None => l | Some i => remove_nth i l end.
Definition is_skip (skip : option nat) (i : nat) : bool :=
  match skip with None => false | Some s => Nat.eqb i s end.
Fixpoint dedup (l : list nat) : list nat :=
  match l with [] => [] | x :: r => x :: filter (fun y => negb (Nat.eqb y x)) (dedup r) end.
(* [s for (i, s) in enumerate(shape) if i in ms] *)
Definition sel_in (ms s : list nat) : list nat :=
  map snd (filter (fun p => memb (fst p) ms) (combine (seq 0 (length s)) s)).
Definition not_in (ms : list nat) (n : nat) : list nat := filter (fun i => negb (memb i ms)) (seq 0 n).

Section M.
Context {F : Type} (Op : rops F).
Notation d := (r0 Op).
Notation "x *r y" := (rmul Op x y) (at level 40, left associativity).
Definition bsum (n : nat) (f : nat -> F) : F := bigsum F (r0 Op) (radd Op) n f.
Definition ssum (s : list nat) (f : list nat -> F) : F := sum_idx F (r0 Op) (radd Op) s f.
Definition rprod (l : list F) : F := fold_right (rmul Op) (r1 Op) l.

Definition nrows (M : tensor F) : nat := nth 0 (shape M) 0.
Definition ncols (M : tensor F) : nat := nth 1 (shape M) 0.

(* ------------------------------------------------------------------ NumPy primitives *)
Definition tmap (f : F -> F) (t : tensor F) : tensor F := mk (shape t) (map f (data t)).
Definition conj_t : tensor F -> tensor F := tmap (rconj Op).
(* T.transpose(M): reverses the axes; identity on 1-D arrays *)
Definition transpose_rev (M : tensor F) : tensor F := transpose d (rev (seq 0 (ndim M))) M.
Definition ones (s : list nat) : tensor F := tabulate s (fun _ => r1 Op).

(* np.dot(2-D, 2-D) and np.dot(1-D, 2-D) *)
Definition matmul (A B : tensor F) : tensor F :=
  tabulate [nrows A; ncols B]
    (fun idx => bsum (ncols A) (fun k => get d A [nth 0 idx 0; k] *r get d B [k; nth 1 idx 0])).
Definition vecmat (v B : tensor F) : tensor F :=
  tabulate [ncols B] (fun idx => bsum (nrows v) (fun k => get d v [k] *r get d B [k; nth 0 idx 0])).

(* res * reshape(weights, (1, -1))  and  res * reshape(mask, (-1, 1))  for a 2-D res *)
Definition scale_cols (M w : tensor F) : tensor F :=
  tabulate (shape M) (fun idx => get d M idx *r nth (nth 1 idx 0) (data w) d).
Definition scale_rows (M m : tensor F) : tensor F :=
  tabulate (shape M) (fun idx => get d M idx *r nth (nth 0 idx 0) (data m) d).

(* reshape(res,(s1,1,s2)) * reshape(e,(1,s3,s4)) reshaped to (-1, n_columns)   [s2 = s4 = n_columns] *)
Definition kr_step (A B : tensor F) : tensor F :=
  reshape [nrows A * nrows B; ncols A]
    (tabulate [nrows A; nrows B; ncols A]
       (fun idx => get d A [nth 0 idx 0; nth 2 idx 0] *r get d B [nth 1 idx 0; nth 2 idx 0])).

(* np.kron for two matrices *)
Definition kron2 (A B : tensor F) : tensor F :=
  tabulate [nrows A * nrows B; ncols A * ncols B]
    (fun idx => let p := nth 0 idx 0 in let q := nth 1 idx 0 in
       get d A [p / nrows B; q / ncols B] *r get d B [p mod nrows B; q mod ncols B]).

(* reshape(a, sa + (1,)*nb) * reshape(b, (1,)*na + sb) *)
Definition outer2 (A B : tensor F) : tensor F :=
  tabulate (shape A ++ shape B)
    (fun idx => get d A (firstn (ndim A) idx) *r get d B (skipn (ndim A) idx)).
(* reshape(a, sa + (1,)*(nb-1)) * reshape(b, (n,) + (1,)*(na-1) + sb[1:]) *)
Definition bouter2 (A B : tensor F) : tensor F :=
  tabulate (shape A ++ tl (shape B))
    (fun idx => get d A (firstn (ndim A) idx) *r get d B (nth 0 idx 0 :: skipn (ndim A) idx)).

(* tl.matmul on stacks of matrices: batch shape bs, then (p, c) @ (c, q) *)
Definition bmatmul (nb : nat) (A B : tensor F) : tensor F :=
  let bs := firstn nb (shape A) in
  let p := nth nb (shape A) 0 in let c := nth (S nb) (shape A) 0 in let q := nth (S nb) (shape B) 0 in
  tabulate (bs ++ [p; q])
    (fun idx => let b := firstn nb idx in
       bsum c (fun k => get d A (b ++ [nth nb idx 0; k]) *r get d B (b ++ [k; nth (S nb) idx 0]))).

(* tl.sum(t, axis=0) *)
Definition sum_axis0 (t : tensor F) : tensor F :=
  tabulate (tl (shape t)) (fun idx => bsum (nth 0 (shape t) 0) (fun s => get d t (s :: idx))).
(* f[:, r] *)
Definition column (M : tensor F) (r : nat) : tensor F := tabulate [nrows M] (fun idx => get d M [nth 0 idx 0; r]).
(* T.stack(vectors, axis=1) *)
Definition stack_cols (n : nat) (vs : list (tensor F)) : tensor F :=
  tabulate [n; length vs] (fun idx => get d (nth (nth 1 idx 0) vs (mk [] [])) [nth 0 idx 0]).

(* ------------------------------------------------------------------ np.einsum, labels as nat *)
Definition env := nat -> nat.
Definition upd (e : env) (l v : nat) : env := fun l' => if Nat.eqb l' l then v else e l'.
Fixpoint esum (ls : list (nat * nat)) (e : env) (f : env -> F) : F :=
  match ls with [] => f e | (l, n) :: r => bsum n (fun v => esum r (upd e l v) f) end.
Fixpoint bind (labels idx : list nat) (e : env) : env :=
  match labels, idx with l :: ls, i :: is_ => upd (bind ls is_ e) l i | _, _ => e end.
Definition term (ins : list (list nat)) (ts : list (tensor F)) (e : env) : F :=
  rprod (map (fun p => get d (snd p) (map e (fst p))) (combine ins ts)).
Definition label_size (ins : list (list nat)) (ts : list (tensor F)) (l : nat) : nat :=
  match find (fun p => Nat.eqb (fst p) l)
             (concat (map (fun p => combine (fst p) (shape (snd p))) (combine ins ts))) with
  | Some p => snd p | None => 0 end.
Definition summed_labels (ins : list (list nat)) (out : list nat) : list nat :=
  dedup (filter (fun l => negb (memb l out)) (concat ins)).
Definition einsum (ins : list (list nat)) (out : list nat) (ts : list (tensor F)) : tensor F :=
  let sz := label_size ins ts in
  tabulate (map sz out)
    (fun oidx => esum (map (fun l => (l, sz l)) (summed_labels ins out)) (bind out oidx (fun _ => 0)) (term ins ts)).

(* ================================================================== core_tenalg *)

(* n_mode_product.py: mode_dot *)
Definition mode_dot (T M : tensor F) (mode : nat) (tr : bool) : res (tensor F) :=
  match shape M with
  | [a; b] =>
      let dim := if tr then a else b in
      if (mode <? ndim T) && (dim =? nth mode (shape T) 0) then
        let M' := if tr then conj_t (transpose_rev M) else M in
        let new_shape := set_nth mode (nrows M') (shape T) in
        rbind (unfold d T mode) (fun U => fold d (matmul M' U) mode new_shape)
      else Err
  | [a] =>
      if (mode <? ndim T) && (a =? nth mode (shape T) 0) then
        let new_shape := remove_nth mode (shape T) in
        rbind (unfold d T mode) (fun U => vec_to_tensor (vecmat M U) new_shape)
      else Err
  | _ => Err
  end.

(* sorted(zip(list, modes, range(len(list))), key=mode): stable insertion sort *)
Definition triple := (tensor F * nat * nat)%type.
Definition t_mode (x : triple) : nat := snd (fst x).
Fixpoint insert_sorted (x : triple) (l : list triple) : list triple :=
  match l with
  | [] => [x]
  | y :: r => if t_mode x <=? t_mode y then x :: y :: r else y :: insert_sorted x r
  end.
Definition sort_by_mode (l : list triple) : list triple := fold_right insert_sorted [] l.
Definition zip3 (Ms : list (tensor F)) (modes : option (list nat)) : list triple :=
  let ms := match modes with Some m => m | None => seq 0 (length Ms) end in
  combine (combine Ms ms) (seq 0 (length Ms)).

Fixpoint mmd_loop (l : list triple) (skip : option nat) (tr : bool) (dec : nat) (acc : tensor F) : res (tensor F) :=
  match l with
  | [] => Ok acc
  | (M, mode, i) :: r =>
      if is_skip skip i then mmd_loop r skip tr dec acc
      else rbind (mode_dot acc (if tr then conj_t (transpose_rev M) else M) (mode - dec) false)
                 (fun acc' => mmd_loop r skip tr (if ndim M =? 1 then S dec else dec) acc')
  end.
Definition multi_mode_dot (T : tensor F) (Ms : list (tensor F)) (modes : option (list nat))
           (skip : option nat) (tr : bool) : res (tensor F) :=
  mmd_loop (sort_by_mode (zip3 Ms modes)) skip tr 0 T.

(* _khatri_rao.py *)
(* res * reshape(weights, (1, -1)) is the NumPy broadcast of (n, R) with (1, L): L = R scales the columns, L = 1 scales by one
   scalar, any other length raises.  (The degenerate R = 1 < L, which NumPy broadcasts to an (n, L) result, is outside the
   model: Err.)  res * reshape(mask, (-1, 1)) likewise on the rows. *)
Definition scale_all (M : tensor F) (c : F) : tensor F := tabulate (shape M) (fun idx => get d M idx *r c).
Definition apply_w (w : option (tensor F)) (M : tensor F) : res (tensor F) :=
  match w with
  | None => Ok M
  | Some w => let L := prod (shape w) in
      if L =? ncols M then Ok (scale_cols M w)
      else if L =? 1 then Ok (scale_all M (nth 0 (data w) d)) else Err
  end.
Definition apply_mask (m : option (tensor F)) (M : tensor F) : res (tensor F) :=
  match m with
  | None => Ok M
  | Some m => let L := prod (shape m) in
      if L =? nrows M then Ok (scale_rows M m)
      else if L =? 1 then Ok (scale_all M (nth 0 (data m) d)) else Err
  end.
Definition kr_valid (Ms : list (tensor F)) : bool :=
  match Ms with [] => false
  | M0 :: _ => forallb (fun M => (ndim M =? 2) && (ncols M =? ncols M0)) Ms end.
Definition khatri_rao (Ms : list (tensor F)) (w mask : option (tensor F)) (skip : option nat) : res (tensor F) :=
  match skipl skip Ms with
  | [] => Err
  | [M] => rbind (apply_w w M) (apply_mask mask)
  | M0 :: rest =>
      if kr_valid (M0 :: rest)
      then rbind (apply_w w M0) (fun M0' => apply_mask mask (fold_left kr_step rest M0')) else Err
  end.

(* _kronecker.py *)
Definition kronecker (Ms : list (tensor F)) (skip : option nat) (reverse : bool) : res (tensor F) :=
  let l := skipl skip Ms in
  match (if reverse then rev l else l) with
  | [] => Err
  | M0 :: rest => Ok (fold_left kron2 rest M0)
  end.

(* generalised_inner_product.py *)
Definition lastn' (k : nat) (l : list nat) : list nat := skipn (length l - k) l.
Fixpoint nat_list_eq (a b : list nat) : bool :=
  match a, b with [], [] => true | x :: a', y :: b' => Nat.eqb x y && nat_list_eq a' b' | _, _ => false end.
Definition inner (A B : tensor F) (n_modes : option nat) : res (tensor F) :=
  match n_modes with
  | None =>
      if nat_list_eq (shape A) (shape B)
      then Ok (mk [] [ssum (shape A) (fun idx => get d A idx *r get d B idx)]) else Err
  | Some n =>
      let s1 := shape A in let s2 := shape B in
      let common := lastn' n s1 in
      let csize := prod common in
      (* shape_t1[: len(shape_t1) - n_modes] + shape_t2[n_modes:] *)
      let out_shape := firstn (length s1 - n) s1 ++ skipn n s2 in
      if (n <=? length s1) && nat_list_eq common (firstn n s2) then
        rbind (reshape_spec [None; Some csize] A) (fun A2 =>
        rbind (reshape_spec [Some csize; None] B) (fun B2 =>
        reshape_spec (map Some out_shape) (matmul A2 B2)))
      else Err
  end.

(* outer_product.py *)
Definition outer (ts : list (tensor F)) : res (tensor F) :=
  match ts with [] => Err | t0 :: rest => Ok (fold_left outer2 rest t0) end.
Fixpoint bouter_loop (rest : list (tensor F)) (acc : tensor F) : res (tensor F) :=
  match rest with
  | [] => Ok acc
  | t :: r => if nth 0 (shape t) 0 =? nth 0 (shape acc) 0 then bouter_loop r (bouter2 acc t) else Err
  end.
Definition batched_outer (ts : list (tensor F)) : res (tensor F) :=
  match ts with [] => Err | t0 :: rest => bouter_loop rest t0 end.

(* tenalg_utils._validate_contraction_modes for explicit (modes1, modes2) lists of non-negative modes *)
Definition validate_modes (s1 s2 m1 m2 : list nat) : bool :=
  (length m1 =? length m2) &&
  forallb (fun p => (fst p <? length s1) && (snd p <? length s2) && (nth (fst p) s1 0 =? nth (snd p) s2 0))
          (combine m1 m2).

(* ------------------------------------------------------------------ tenalg_utils._validate_contraction_modes *)
(* the argument forms of tensordot's `modes` / `batched_modes`: an int, or a sequence whose entries are ints or sequences of
   ints (a 2-entry sequence is read as the pair (modes1, modes2), any other length as the same modes for both tensors) *)
Inductive mside := SInt (z : Z) | SList (l : list Z).
Inductive marg := MInt (k : Z) | MSeq (l : list mside).
Definition side_list (s : mside) : list Z := match s with SInt z => [z] | SList l => l end.
Fixpoint ints_of (l : list mside) : option (list Z) :=
  match l with
  | [] => Some []
  | SInt z :: r => match ints_of r with Some zs => Some (z :: zs) | None => None end
  | SList _ :: _ => None          (* shape[[..]] raises TypeError *)
  end.
(* Python indexing of a length-n sequence: -n <= z < n, negative entries count from the end *)
Definition py_index (n : nat) (z : Z) : option nat :=
  if ((0 <=? z) && (z <? Z.of_nat n))%Z then Some (Z.to_nat z)
  else if ((z <? 0) && (- Z.of_nat n <=? z))%Z then Some (Z.to_nat (z + Z.of_nat n)) else None.
(* the length check and the loop over the pairs: sizes compared with Python indexing, then negative modes normalised *)
Fixpoint norm_modes (s1 s2 : list nat) (l1 l2 : list Z) : res (list nat * list nat) :=
  match l1, l2 with
  | [], [] => Ok ([], [])
  | z1 :: r1, z2 :: r2 =>
      match py_index (length s1) z1, py_index (length s2) z2 with
      | Some i, Some j =>
          if nth i s1 0 =? nth j s2 0
          then rbind (norm_modes s1 s2 r1 r2) (fun p => Ok (i :: fst p, j :: snd p)) else Err
      | _, _ => Err
      end
  | _, _ => Err
  end.
Definition validate_contraction (s1 s2 : list nat) (a : marg) (batched : bool) : res (list nat * list nat) :=
  match a with
  | MInt k =>
      if batched then norm_modes s1 s2 [k] [k]
      else let n := Z.to_nat k in       (* range(-k, 0) and range(0, k); both empty for k <= 0 *)
           norm_modes s1 s2 (map (fun i => (Z.of_nat i - Z.of_nat n)%Z) (seq 0 n)) (map Z.of_nat (seq 0 n))
  | MSeq [a1; a2] => norm_modes s1 s2 (side_list a1) (side_list a2)
  | MSeq l => match ints_of l with Some zs => norm_modes s1 s2 zs zs | None => Err end
  end.

(* _batched_tensordot.py *)
Fixpoint final_modes_loop (is_ : list nat) (m1 b1 : list nat) (nb bc fc : nat) : list nat :=
  match is_ with
  | [] => []
  | i :: r =>
      if memb i m1 then final_modes_loop r m1 b1 nb bc fc
      else if memb i b1 then bc :: final_modes_loop r m1 b1 nb (S bc) fc
      else (fc + nb) :: final_modes_loop r m1 b1 nb bc (S fc)
  end.
(* batch_order = sorted(range(len(batch_modes1)), key=lambda i: batch_modes1[i]): stable insertion sort of the pairs *)
Fixpoint insert_pair (x : nat * nat) (l : list (nat * nat)) : list (nat * nat) :=
  match l with
  | [] => [x]
  | y :: r => if fst x <=? fst y then x :: y :: r else y :: insert_pair x r
  end.
Definition sort_pairs (l : list (nat * nat)) : list (nat * nat) := fold_right insert_pair [] l.
Definition tensordot (A B : tensor F) (m1 m2 b1 b2 : list nat) : res (tensor F) :=
  let s1 := shape A in let s2 := shape B in
  if validate_modes s1 s2 m1 m2 && validate_modes s1 s2 b1 b2 then
    let bp := sort_pairs (combine b1 b2) in
    let b1 := map fst bp in let b2 := map snd bp in
    let cdim := prod (sel_in m1 s1) in
    let bshape := sel_in b1 s1 in
    let final0 := final_modes_loop (seq 0 (length s1)) m1 b1 (length b1) 0 0 in
    let new1 := not_in (b1 ++ m1) (length s1) in
    let nshape1 := permute 0 new1 s1 in
    let new2 := not_in (b2 ++ m2) (length s2) in
    let nshape2 := permute 0 new2 s2 in
    let p1 := b1 ++ new1 ++ m1 in let p2 := b2 ++ m2 ++ new2 in
    if is_permb (length s1) p1 && is_permb (length s2) p2 then
      rbind (reshape_spec (map Some bshape ++ [None; Some cdim]) (transpose d p1 A)) (fun A2 =>
      rbind (reshape_spec (map Some bshape ++ [Some cdim; None]) (transpose d p2 B)) (fun B2 =>
      rbind (reshape_spec (map Some (bshape ++ nshape1 ++ nshape2)) (bmatmul (length bshape) A2 B2)) (fun R =>
      let final := final0 ++ filter (fun i => negb (memb i final0)) (seq 0 (ndim R)) in
      match final with [] => Ok R | _ => if is_permb (ndim R) final then Ok (transpose d final R) else Err end)))
    else Err
  else Err.

(* mttkrp.py *)
Definition mttkrp (T : tensor F) (w : option (tensor F)) (fs : list (tensor F)) (mode : nat) : res (tensor F) :=
  rbind (khatri_rao fs w None (Some mode)) (fun KR =>
  rbind (unfold d T mode) (fun U =>
  if ncols U =? nrows KR then Ok (matmul U (conj_t KR)) else Err)).

Fixpoint collect {A} (l : list (res A)) : res (list A) :=
  match l with [] => Ok [] | x :: r => rbind x (fun a => rbind (collect r) (fun ar => Ok (a :: ar))) end.
Definition mttkrp_memory (T : tensor F) (w : option (tensor F)) (fs : list (tensor F)) (mode : nat) : res (tensor F) :=
  match fs with
  | [] => Err
  | f0 :: _ =>
    let rank := ncols f0 in
    rbind (collect (map (fun r => multi_mode_dot T (map (fun f => conj_t (column f r)) fs) None (Some mode) false)
                        (seq 0 rank))) (fun parts =>
    let St := stack_cols (nth mode (shape T) 0) parts in
    apply_w (match w with None => None | Some w => Some (conj_t w) end) St)
  end.

(* moments.py; the model returns n_samples * moment, i.e. the sum over axis 0 (the mean divides by shape[0]) *)
Fixpoint iter_res {A} (n : nat) (f : A -> res A) (a : A) : res A :=
  match n with O => Ok a | S k => rbind (f a) (iter_res k f) end.
Definition moment_sum (bo : list (tensor F) -> res (tensor F)) (T : tensor F) (order : nat) : res (tensor F) :=
  if order =? 0 then Err else
  rbind (iter_res (order - 1) (fun m => bo [m; T]) T) (fun m => Ok (sum_axis0 m)).
Definition higher_order_moment_sum := moment_sum batched_outer.

(* decomposition/_cp.py: sample_khatri_rao with a given indices_list *)
Definition sample_kr_rows (Ms : list (tensor F)) (skip : option nat) (inds : list (list nat)) (n : nat) : tensor F :=
  let Ms := skipl skip Ms in
  let rank := ncols (hd (mk [] []) Ms) in
  fold_left (fun acc p => tabulate [n; rank]
               (fun idx => get d acc idx *r get d (snd p) [nth (nth 0 idx 0) (fst p) 0; nth 1 idx 0]))
            (combine inds Ms) (ones [n; rank]).
Definition sample_kr_indices (Ms : list (tensor F)) (skip : option nat) (inds : list (list nat)) (n : nat) : list nat :=
  let Ms := skipl skip Ms in
  fold_left (fun acc p => map (fun q => fst q * fst p + snd q) (combine acc (snd p)))
            (combine (map nrows Ms) inds) (repeat 0 n).

(* ================================================================== einsum_tenalg *)
(* letters chr(ord('a') + i) are the labels i *)

Definition mode_dot_e (T M : tensor F) (mode : nat) (tr : bool) : res (tensor F) :=
  let N := ndim T in
  let tensor_modes := seq 0 N in
  let result_modes := set_nth mode (N + 1) tensor_modes in
  match shape M with
  | [a; b] =>
      let dim := if tr then a else b in
      if (mode <? N) && (dim =? nth mode (shape T) 0) then
        let M' := if tr then conj_t (transpose_rev M) else M in
        Ok (einsum [tensor_modes; [N + 1; nth mode tensor_modes 0]] result_modes [T; M'])
      else Err
  | [a] =>
      if (mode <? N) && (a =? nth mode (shape T) 0) then
        Ok (einsum [tensor_modes; [nth mode tensor_modes 0]] (remove_nth mode result_modes) [T; M])
      else Err
  | _ => Err
  end.

(* ------------------------------------------------------------------ mode_dot with the mode as a Python int *)
(* core_tenalg.mode_dot indexes shapes and moves axes with `mode`, which NumPy resolves from the end when negative; an
   out-of-range mode raises IndexError *)
Definition mode_dot_z (T M : tensor F) (z : Z) (tr : bool) : res (tensor F) :=
  match py_index (ndim T) z with Some k => mode_dot T M k tr | None => Err end.
(* einsum_tenalg.mode_dot (repaired by /repo 92eb2a5): a negative mode in range is resolved first, like the core backend *)
Definition mode_dot_e_z (T M : tensor F) (z : Z) (tr : bool) : res (tensor F) :=
  match py_index (ndim T) z with Some k => mode_dot_e T M k tr | None => Err end.
(* the rule BEFORE 92eb2a5 (kept for the regression Example): the operand's labels were picked with tensor_modes[mode] and a
   vector popped result_modes[mode] (both right for negative modes), but the new label of a matrix operand was placed by the
   comparison `i == mode`, never true for a negative mode: the result labels stayed those of the tensor, the new label was summed out *)
Definition mode_dot_e_z_before_92eb2a5 (T M : tensor F) (z : Z) (tr : bool) : res (tensor F) :=
  match py_index (ndim T) z with
  | None => Err
  | Some k =>
      if (0 <=? z)%Z then mode_dot_e T M k tr
      else match shape M with
           | [a; b] =>
               let N := ndim T in
               if (if tr then a else b) =? nth k (shape T) 0 then
                 let M' := if tr then conj_t (transpose_rev M) else M in
                 Ok (einsum [seq 0 N; [N + 1; k]] (seq 0 N) [T; M'])
               else Err
           | _ => mode_dot_e T M k tr
           end
  end.

(* state of the equation-building loop of einsum multi_mode_dot *)
Record mmd_state := mkS { s_ins : list (list nat); s_ops : list (tensor F); s_out : list nat;
                          s_counter : nat; s_dec : nat }.
(* /repo a6246d0: every operand is contracted with the CURRENT label at position mode - decrement of the result labels (the label a
   previous operand on the same mode introduced), as the core backend contracts the running result; an index outside the current
   labels raises IndexError.  (nat modes: faithful when decrement <= mode, e.g. modes=None; explicit modes go through mmd_e_loop_z) *)
Fixpoint mmd_e_loop (l : list triple) (skip : option nat) (tr : bool) (order : nat) (st : mmd_state) : res mmd_state :=
  match l with
  | [] => Ok st
  | (M, mode, i) :: r =>
      if is_skip skip i then mmd_e_loop r skip tr order st
      else let q := mode - s_dec st in
      if negb (q <? length (s_out st)) then Err
      else match ndim M with
      | 1 => mmd_e_loop r skip tr order
               (mkS (s_ins st ++ [[nth q (s_out st) 0]]) (s_ops st ++ [if tr then conj_t M else M])
                    (remove_nth q (s_out st)) (s_counter st) (S (s_dec st)))
      | 2 => mmd_e_loop r skip tr order
               (mkS (s_ins st ++ [[s_counter st; nth q (s_out st) 0]]) (s_ops st ++ [if tr then conj_t (transpose_rev M) else M])
                    (set_nth q (s_counter st) (s_out st)) (S (s_counter st)) (s_dec st))
      | _ => Err
      end
  end.
(* the loop before a6246d0 (operand label = the tensor's ORIGINAL label of the mode), kept for the regression Examples *)
Fixpoint mmd_e_loop_before_a6246d0 (l : list triple) (skip : option nat) (tr : bool) (order : nat) (st : mmd_state) : res mmd_state :=
  match l with
  | [] => Ok st
  | (M, mode, i) :: r =>
      if is_skip skip i then mmd_e_loop_before_a6246d0 r skip tr order st
      else if negb (mode <? order) then Err        (* tensor_modes[mode] raises IndexError *)
      else match ndim M with
      | 1 => mmd_e_loop_before_a6246d0 r skip tr order
               (mkS (s_ins st ++ [[mode]]) (s_ops st ++ [if tr then conj_t M else M])
                    (remove_nth (mode - s_dec st) (s_out st)) (s_counter st) (S (s_dec st)))
      | 2 => mmd_e_loop_before_a6246d0 r skip tr order
               (mkS (s_ins st ++ [[s_counter st; mode]]) (s_ops st ++ [if tr then conj_t (transpose_rev M) else M])
                    (set_nth (mode - s_dec st) (s_counter st) (s_out st)) (S (s_counter st)) (s_dec st))
      | _ => Err
      end
  end.
(* all axes with the same label have the same size and every operand has one label per axis: then np.einsum broadcasts nothing *)
Definition einsum_sizes_ok (ins : list (list nat)) (ts : list (tensor F)) : bool :=
  forallb (fun p => (length (fst p) =? ndim (snd p))
                    && forallb (fun q => snd q =? label_size ins ts (fst q)) (combine (fst p) (shape (snd p))))
          (combine ins ts).
(* /repo 8b25fc6: before building its equation the einsum multi_mode_dot checks that the contracted dimension of every non-skipped
   matrix / vector operand equals the size of ITS mode in the given tensor (np.einsum would broadcast a size-1 dimension) *)
Definition fit_one (sT : list nat) (tr : bool) (M : tensor F) (k : nat) : bool :=
  if k <? length sT then
    match ndim M with
    | 1 => nth 0 (shape M) 0 =? nth k sT 0
    | 2 => (if tr then nth 0 (shape M) 0 else nth 1 (shape M) 0) =? nth k sT 0
    | _ => true
    end
  else true.     (* tl.shape(tensor)[mode] raises IndexError: the loop rejects the mode *)
Definition mmd_e_fits (sT : list nat) (tr : bool) (skip : option nat) (l : list triple) : bool :=
  forallb (fun x => is_skip skip (snd x) || fit_one sT tr (fst (fst x)) (t_mode x)) l.
(* np.einsum itself: the size of a label is the largest size among its axes, an axis of size 1 under a longer label is
   broadcast (its only entry is used for every value of the label), any other disagreement raises *)
Definition label_full (ins : list (list nat)) (ts : list (tensor F)) (l : nat) : nat :=
  fold_right Nat.max 0 (map snd (filter (fun p => Nat.eqb (fst p) l)
                                        (concat (map (fun p => combine (fst p) (shape (snd p))) (combine ins ts))))).
Definition einsum_bcast_ok (ins : list (list nat)) (ts : list (tensor F)) : bool :=
  forallb (fun p => (length (fst p) =? ndim (snd p))
                    && forallb (fun q => (snd q =? label_full ins ts (fst q)) || (snd q =? 1)) (combine (fst p) (shape (snd p))))
          (combine ins ts).
Definition bcast_operand (ins : list (list nat)) (ts : list (tensor F)) (ls : list nat) (t : tensor F) : tensor F :=
  let full := map (label_full ins ts) ls in
  if nat_list_eq (shape t) full then t
  else tabulate full (fun idx => get d t (map (fun p => if snd p =? 1 then 0 else fst p) (combine idx (shape t)))).
Definition einsum_np (ins : list (list nat)) (out : list nat) (ts : list (tensor F)) : res (tensor F) :=
  if einsum_bcast_ok ins ts
  then Ok (einsum ins out (map (fun p => bcast_operand ins ts (fst p) (snd p)) (combine ins ts))) else Err.
(* the size check of 8b25fc6 / a6246d0 (contracted dimension of the operand = CURRENT size at its position) is, for the labels the
   loop assigns, exactly "all axes with the same label have the same size": einsum_sizes_ok on the final equation *)
Definition multi_mode_dot_e (T : tensor F) (Ms : list (tensor F)) (modes : option (list nat))
           (skip : option nat) (tr : bool) : res (tensor F) :=
  let order := ndim T in
  rbind (mmd_e_loop (sort_by_mode (zip3 Ms modes)) skip tr order
                    (mkS [] [] (seq 0 order) (order + 1) 0)) (fun st =>
  if einsum_sizes_ok (seq 0 order :: s_ins st) (T :: s_ops st)
  then Ok (einsum (seq 0 order :: s_ins st) (s_out st) (T :: s_ops st)) else Err).
(* the routine between 8b25fc6 and a6246d0 (original labels, sizes checked against the ORIGINAL tensor) and before 8b25fc6 (no
   check: np.einsum broadcast a size-1 mismatch), kept for the regression Examples *)
Definition multi_mode_dot_e_before_a6246d0 (T : tensor F) (Ms : list (tensor F)) (modes : option (list nat))
           (skip : option nat) (tr : bool) : res (tensor F) :=
  let order := ndim T in
  if mmd_e_fits (shape T) tr skip (sort_by_mode (zip3 Ms modes)) then
  rbind (mmd_e_loop_before_a6246d0 (sort_by_mode (zip3 Ms modes)) skip tr order
                    (mkS [] [] (seq 0 order) (order + 1) 0)) (fun st =>
  einsum_np (seq 0 order :: s_ins st) (s_out st) (T :: s_ops st))
  else Err.
Definition multi_mode_dot_e_before_8b25fc6 (T : tensor F) (Ms : list (tensor F)) (modes : option (list nat))
           (skip : option nat) (tr : bool) : res (tensor F) :=
  let order := ndim T in
  rbind (mmd_e_loop_before_a6246d0 (sort_by_mode (zip3 Ms modes)) skip tr order
                    (mkS [] [] (seq 0 order) (order + 1) 0)) (fun st =>
  einsum_np (seq 0 order :: s_ins st) (s_out st) (T :: s_ops st)).

(* ------------------------------------------------------------------ multi_mode_dot with the modes as Python ints *)
(* both backends sort the operands by the mode numbers (raw before 92eb2a5, resolved since) and then use mode - decrement (resolved from the end when negative by
   NumPy / by Python list indexing), which presumes that a smaller mode number is an earlier mode of the tensor *)
Definition ztriple := (tensor F * Z * nat)%type.
Definition zt_mode (x : ztriple) : Z := snd (fst x).
Fixpoint insert_sorted_z (x : ztriple) (l : list ztriple) : list ztriple :=
  match l with
  | [] => [x]
  | y :: r => if (zt_mode x <=? zt_mode y)%Z then x :: y :: r else y :: insert_sorted_z x r
  end.
Definition sort_by_mode_z (l : list ztriple) : list ztriple := fold_right insert_sorted_z [] l.
Definition zip3z (Ms : list (tensor F)) (ms : list Z) : list ztriple := combine (combine Ms ms) (seq 0 (length Ms)).
Fixpoint mmd_loop_z (l : list ztriple) (skip : option nat) (tr : bool) (dec : Z) (acc : tensor F) : res (tensor F) :=
  match l with
  | [] => Ok acc
  | (M, z, i) :: r =>
      if is_skip skip i then mmd_loop_z r skip tr dec acc
      else rbind (mode_dot_z acc (if tr then conj_t (transpose_rev M) else M) (z - dec)%Z false)
                 (fun acc' => mmd_loop_z r skip tr (if ndim M =? 1 then (dec + 1)%Z else dec) acc')
  end.
(* 92eb2a5: modes = [mode + order if -order <= mode < 0 else mode for mode in modes], before the sort *)
Definition norm_mode (order : nat) (z : Z) : Z :=
  if ((- Z.of_nat order <=? z) && (z <? 0))%Z then (z + Z.of_nat order)%Z else z.
Definition multi_mode_dot_z (T : tensor F) (Ms : list (tensor F)) (ms : list Z) (skip : option nat) (tr : bool) : res (tensor F) :=
  mmd_loop_z (sort_by_mode_z (zip3z Ms (map (norm_mode (ndim T)) ms))) skip tr 0%Z T.
Definition multi_mode_dot_z_before_92eb2a5 (T : tensor F) (Ms : list (tensor F)) (ms : list Z) (skip : option nat) (tr : bool) : res (tensor F) :=
  mmd_loop_z (sort_by_mode_z (zip3z Ms ms)) skip tr 0%Z T.
(* einsum backend (a6246d0): the operand's label is the CURRENT label at position mode - decrement (Python list indexing) *)
Fixpoint mmd_e_loop_z (l : list ztriple) (skip : option nat) (tr : bool) (st : mmd_state) : res mmd_state :=
  match l with
  | [] => Ok st
  | (M, z, i) :: r =>
      if is_skip skip i then mmd_e_loop_z r skip tr st
      else match py_index (length (s_out st)) (z - Z.of_nat (s_dec st))%Z with
      | Some q =>
          match ndim M with
          | 1 => mmd_e_loop_z r skip tr
                   (mkS (s_ins st ++ [[nth q (s_out st) 0]]) (s_ops st ++ [if tr then conj_t M else M])
                        (remove_nth q (s_out st)) (s_counter st) (S (s_dec st)))
          | 2 => mmd_e_loop_z r skip tr
                   (mkS (s_ins st ++ [[s_counter st; nth q (s_out st) 0]]) (s_ops st ++ [if tr then conj_t (transpose_rev M) else M])
                        (set_nth q (s_counter st) (s_out st)) (S (s_counter st)) (s_dec st))
          | _ => Err
          end
      | None => Err
      end
  end.
(* the loop before a6246d0: tensor_modes[mode] picked the operand's label *)
Fixpoint mmd_e_loop_z_before_a6246d0 (l : list ztriple) (skip : option nat) (tr : bool) (order : nat) (st : mmd_state) : res mmd_state :=
  match l with
  | [] => Ok st
  | (M, z, i) :: r =>
      if is_skip skip i then mmd_e_loop_z_before_a6246d0 r skip tr order st
      else match py_index order z, py_index (length (s_out st)) (z - Z.of_nat (s_dec st))%Z with
      | Some k, Some q =>
          match ndim M with
          | 1 => mmd_e_loop_z_before_a6246d0 r skip tr order
                   (mkS (s_ins st ++ [[k]]) (s_ops st ++ [if tr then conj_t M else M])
                        (remove_nth q (s_out st)) (s_counter st) (S (s_dec st)))
          | 2 => mmd_e_loop_z_before_a6246d0 r skip tr order
                   (mkS (s_ins st ++ [[s_counter st; k]]) (s_ops st ++ [if tr then conj_t (transpose_rev M) else M])
                        (set_nth q (s_counter st) (s_out st)) (S (s_counter st)) (s_dec st))
          | _ => Err
          end
      | _, _ => match ndim M with 1 | 2 => Err | _ => Err end
      end
  end.
Definition mmd_e_fits_z (sT : list nat) (tr : bool) (skip : option nat) (l : list ztriple) : bool :=
  forallb (fun x => is_skip skip (snd x) ||
                    match py_index (length sT) (zt_mode x) with Some k => fit_one sT tr (fst (fst x)) k | None => true end) l.
Definition multi_mode_dot_e_z (T : tensor F) (Ms : list (tensor F)) (ms : list Z) (skip : option nat) (tr : bool) : res (tensor F) :=
  let order := ndim T in
  rbind (mmd_e_loop_z (sort_by_mode_z (zip3z Ms (map (norm_mode order) ms))) skip tr (mkS [] [] (seq 0 order) (order + 1) 0)) (fun st =>
  if einsum_sizes_ok (seq 0 order :: s_ins st) (T :: s_ops st)
  then Ok (einsum (seq 0 order :: s_ins st) (s_out st) (T :: s_ops st)) else Err).
(* before 92eb2a5: raw mode numbers, original labels, no size check *)
Definition multi_mode_dot_e_z_before_92eb2a5 (T : tensor F) (Ms : list (tensor F)) (ms : list Z) (skip : option nat) (tr : bool) : res (tensor F) :=
  let order := ndim T in
  rbind (mmd_e_loop_z_before_a6246d0 (sort_by_mode_z (zip3z Ms ms)) skip tr order (mkS [] [] (seq 0 order) (order + 1) 0)) (fun st =>
  einsum_np (seq 0 order :: s_ins st) (s_out st) (T :: s_ops st)).


(* np.einsum operand checks: the weights need exactly one axis, of length R or 1 (broadcast); the mask one axis per matrix with
   the row counts (masks with broadcastable size-1 axes are outside the model: Err) *)
Definition einsum_weights (R : nat) (w : option (tensor F)) : res (option (tensor F)) :=
  match w with
  | None => Ok None
  | Some w =>
      if ndim w =? 1 then
        if prod (shape w) =? R then Ok (Some w)
        else if prod (shape w) =? 1 then Ok (Some (tabulate [R] (fun _ => nth 0 (data w) d))) else Err
      else Err
  end.
Definition khatri_rao_e (Ms : list (tensor F)) (w mask : option (tensor F)) (skip : option nat) : res (tensor F) :=
  match skipl skip Ms with
  | [] => Err
  | [M] => rbind (apply_w w M) (apply_mask mask)
  | M0 :: rest =>
      let Ms' := M0 :: rest in
      if kr_valid Ms' then
        rbind (einsum_weights (ncols M0) w) (fun w' =>
        if match mask with Some m => nat_list_eq (shape m) (map nrows Ms') | None => true end then
          let n := length Ms' in
          let individual := seq 1 n in
          let ins := map (fun i => [i; 0]) individual
                     ++ (match w' with Some _ => [[0]] | None => [] end)
                     ++ (match mask with Some _ => [individual] | None => [] end) in
          let ops := Ms' ++ (match w' with Some w => [w] | None => [] end)
                         ++ (match mask with Some m => [m] | None => [] end) in
          reshape_spec [None; Some (ncols M0)] (einsum ins (individual ++ [0]) ops)
        else Err)
      else Err
  end.

Definition kronecker_e (Ms : list (tensor F)) (skip : option nat) (reverse : bool) : res (tensor F) :=
  let l := skipl skip Ms in
  match l with
  | [] => Err
  | _ =>
    let n := length l in
    let ins := map (fun i => [i; n + i]) (seq 0 n) in
    let out := seq 0 n ++ seq n n in
    Ok (reshape [prod (map nrows l); prod (map ncols l)] (einsum ins out (if reverse then rev l else l)))
  end.

Definition inner_e (A B : tensor F) (n_modes : option nat) : res (tensor F) :=
  match n_modes with
  | None =>
      if nat_list_eq (shape A) (shape B)
      then Ok (mk [] [ssum (shape A) (fun idx => get d A idx *r get d B idx)]) else Err
  | Some n =>
      let s1 := shape A in let s2 := shape B in
      let offset := length s1 - n in
      if (n <=? length s1) && nat_list_eq (skipn offset s1) (firstn n s2) then
        let m1 := seq 0 (length s1) in
        let m2 := seq offset (length s2) in
        Ok (einsum [m1; m2] (firstn offset m1 ++ skipn n m2) [A; B])
      else Err
  end.

Definition tensordot_e (A B : tensor F) (m1 m2 b1 b2 : list nat) : res (tensor F) :=
  let s1 := shape A in let s2 := shape B in
  if validate_modes s1 s2 m1 m2 && validate_modes s1 s2 b1 b2 then
    let n1 := length s1 in
    let all1 := seq 0 n1 in
    let all2 := fold_left (fun acc p => set_nth (snd p) (nth (fst p) all1 0) acc)
                          (combine (m1 ++ b1) (m2 ++ b2)) (seq n1 (length s2)) in
    let rem1 := map snd (filter (fun p => negb (memb (fst p) m1)) (combine (seq 0 n1) all1)) in
    let rem2 := map snd (filter (fun p => negb (memb (fst p) (m2 ++ b2))) (combine (seq 0 (length s2)) all2)) in
    Ok (einsum [all1; all2] (rem1 ++ rem2) [A; B])
  else Err.

(* tensordot as called: modes / batched_modes in any accepted argument form *)
Definition tensordot_raw (core : bool) (A B : tensor F) (ma ba : marg) : res (tensor F) :=
  rbind (validate_contraction (shape A) (shape B) ma false) (fun pm =>
  rbind (validate_contraction (shape A) (shape B) ba true) (fun pb =>
  (if core then tensordot else tensordot_e) A B (fst pm) (snd pm) (fst pb) (snd pb))).

Definition outer_e (ts : list (tensor F)) : res (tensor F) :=
  match ts with [] => Err
  | t0 :: rest => fold_left (fun acc t => rbind acc (fun a => tensordot_e a t [] [] [] [])) rest (Ok t0) end.
Definition batched_outer_e (ts : list (tensor F)) : res (tensor F) :=
  match ts with [] => Err
  | t0 :: rest => fold_left (fun acc t => rbind acc (fun a => tensordot_e a t [] [] [0] [0])) rest (Ok t0) end.
Definition higher_order_moment_sum_e := moment_sum batched_outer_e.

Definition mttkrp_e (T : tensor F) (w : option (tensor F)) (fs : list (tensor F)) (mode : nat) : res (tensor F) :=
  match fs with
  | [] => Err
  | f0 :: _ =>
    let N := ndim T in
    let rank := N + 1 in
    let w' := match w with Some w => w | None => ones [ncols f0] end in
    let others := not_in [mode] N in
    let used := remove_nth mode fs in
    (* np.einsum: all operands must agree on the size of a label, a size-1 axis is broadcast *)
    let Lw := prod (shape w') in
    let R := if Lw =? 1 then match used with f :: _ => ncols f | [] => 1 end else Lw in
    let w'' := if Lw =? R then w' else tabulate [R] (fun _ => nth 0 (data w') d) in
    if (mode <? N) && (ndim w' =? 1)
       && forallb (fun f => (ndim f =? 2) && (ncols f =? R)) used
       && nat_list_eq (map nrows used) (map (fun l => nth l (shape T) 0) others) then
      Ok (einsum ([seq 0 N; [rank]] ++ map (fun i => [i; rank]) others) [mode; rank]
                 ([T; conj_t w''] ++ map conj_t used))
    else Err
  end.

End M.
