(* Model of tensorly/tenalg, as-is variants: routines whose CURRENT code accepts a request the routine of Model/Tenalg.v (the
   documented behaviour, which the index-formula theorems are about) rejects.  Definitions only. *)
From Coq Require Import List Arith ZArith Bool.
From TLV Require Import Base.Shape Base.PyList Base.Tensor Base.BigSum Model.Base Model.Tenalg.
Import ListNotations.

Section M.
Context {F : Type} (Op : rops F).

(* core_tenalg/generalised_inner_product.py: inner with n_modes = n, for EVERY natural n.  The code slices the shape of tensor1 with
   len(shape_t1) - n_modes; when n_modes exceeds the order L of tensor1 that number is negative and Python counts it from the end:
   shape_t1[L - n:] = shape_t1[max(2L - n, 0):] and shape_t1[:L - n] = shape_t1[:max(2L - n, 0)] (nat subtraction truncates at 0).
   Nothing else in the routine looks at n_modes except shape_t2[:n_modes] / shape_t2[n_modes:]. *)
Definition inner_cut (L n : nat) : nat := if n <=? L then L - n else 2 * L - n.
Definition inner_as_is (A B : tensor F) (n : nat) : res (tensor F) :=
  let s1 := shape A in let s2 := shape B in
  let k := inner_cut (length s1) n in
  let common := skipn k s1 in
  let csize := prod common in
  let out_shape := firstn k s1 ++ skipn n s2 in
  if nat_list_eq common (firstn n s2) then
    rbind (reshape_spec [None; Some csize] A) (fun A2 =>
    rbind (reshape_spec [Some csize; None] B) (fun B2 =>
    reshape_spec (map Some out_shape) (matmul Op A2 B2)))
  else Err.

End M.
