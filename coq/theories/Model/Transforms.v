(* Model of the canonicalising / algebraic transforms on factorised tensors (C04):
     tensorly/cp_tensor.py      cp_normalize, cp_flip_sign, cp_permute_factors (application of the assignment), cp_mode_dot
     tensorly/tucker_tensor.py  tucker_normalize, tucker_mode_dot
     tensorly/parafac2_tensor.py parafac2_normalise, Parafac2Tensor.from_CPTensor (QR answer as data)
     tensorly/tt_tensor.py      pad_tt_rank (TT and, with pad_boundaries, TR)
     tensorly/preprocessing.py  svd_compress_tensor_slices (SVD answer as data) / svd_decompress_parafac2_tensor
   together with entry-level definitions of the dense tensor each format represents
   (cp_entry, tucker_entry, tt_entry / tr_entry, pf2_entry).
   Written once over a record of operations (Base/Ops.v): executed at Z (exact) and Q (reduced), proved over
   an abstract commutative ring / over R.  Matrices are lists of rows; reading outside a list yields 0.
   Square roots and LAPACK answers never appear here: they are arguments ("answer tape").  Definitions only. *)
From Coq Require Import List Arith Bool.
From TLV Require Import Base.Shape Base.PyList Base.Tensor Base.BigSum Base.Ops.
Import ListNotations.

Section M.
Context {F : Type} (Op : fops F).
Local Notation fz := (f0 Op).
Local Notation fone := (f1 Op).
Local Notation "a *f b" := (fmul Op a b) (at level 40, left associativity).

Local Notation mat := (list (list F)) (only parsing).
Definition vget (v : list F) (r : nat) : F := nth r v fz.
Definition mget (A : mat) (i r : nat) : F := nth r (nth i A []) fz.
Definition sumn (n : nat) (f : nat -> F) : F := bigsum F fz (fadd Op) n f.
Definition ncols (A : mat) : nat := length (hd [] A).
Definition zipw (f : F -> F -> F) (a b : list F) : list F := map (fun p => f (fst p) (snd p)) (combine a b).
Definition ones (n : nat) : list F := repeat fone n.
Definition rectb (n : nat) (A : mat) : bool := forallb (fun row => Nat.eqb (length row) n) A.

(* A * c[newaxis, :]  and  A / c[newaxis, :] *)
Definition scale_cols (A : mat) (c : list F) : mat := map (fun row => zipw (fmul Op) row c) A.
Definition div_cols (A : mat) (c : list F) : mat := map (fun row => zipw (fdiv Op) row c) A.
Definition col (A : mat) (r : nat) : list F := map (fun row => vget row r) A.
Definition colsumsq (A : mat) (r : nat) : F := sumn (length A) (fun i => mget A i r *f mget A i r).

(* ------------------------------------------------------------------ CP: represented tensor *)
Fixpoint cp_term (fs : list mat) (idx : list nat) (r : nat) : F :=
  match fs, idx with
  | A :: fs', i :: idx' => mget A i r *f cp_term fs' idx' r
  | _, _ => fone
  end.
Definition cp_entry (w : list F) (fs : list mat) (idx : list nat) : F :=
  sumn (length w) (fun r => vget w r *f cp_term fs idx r).
Definition cp_shape (fs : list mat) : list nat := map (@length (list F)) fs.
Definition cp_to_tensor (w : list F) (fs : list mat) : tensor F := tabulate (cp_shape fs) (cp_entry w fs).

(* ------------------------------------------------------------------ cp_normalize
   tape[k][r] = T.norm(factor_k, axis=0)[r] (the square root is an oracle: contract  s*s = sum of squares, s >= 0).
   for i, factor: (i = 0: factor = factor * weights; weights = ones)
       scales_non_zero = where(scales == 0, 1, scales); weights = weights * scales; factor / scales_non_zero *)
Definition nz1 (s : F) : F := if feqb Op s fz then fone else s.
Fixpoint norm_loop (tape : list (list F)) (fs : list mat) (w : list F) : list F * list mat :=
  match fs, tape with
  | A :: fs', sc :: tape' =>
      let (wf, out) := norm_loop tape' fs' (zipw (fmul Op) w sc) in
      (wf, div_cols A (map nz1 sc) :: out)
  | _, _ => (w, [])
  end.
(* the factors whose column norms are taken *)
Definition norm_inputs (w : list F) (fs : list mat) : list mat :=
  match fs with [] => [] | A0 :: rest => scale_cols A0 w :: rest end.
Definition cp_normalize (tape : list (list F)) (w : list F) (fs : list mat) : list F * list mat :=
  norm_loop tape (norm_inputs w fs) (ones (length w)).

(* ------------------------------------------------------------------ cp_flip_sign (repaired version: sign 0 counts as +1)
   summ is `func(., axis=0)` applied to one column. *)
Definition fsign (x : F) : F :=
  if fltb Op x fz then fopp Op fone else if fltb Op fz x then fone else fz.
Definition colsign (x : F) : F := nz1 (fsign x).
Definition col_summaries (summ : list F -> F) (A : mat) (R : nat) : list F := map (fun r => summ (col A r)) (seq 0 R).
Fixpoint flip_loop (summ : list F -> F) (R mode : nat) (jjs : list nat) (fs : list mat) : list mat :=
  match jjs with
  | [] => fs
  | jj :: rest =>
      if Nat.eqb jj mode then flip_loop summ R mode rest fs
      else
        let cs := map colsign (col_summaries summ (nth jj fs []) R) in
        let fs1 := set_nth mode (scale_cols (nth mode fs []) cs) fs in
        let fs2 := set_nth jj (scale_cols (nth jj fs1 []) cs) fs1 in
        flip_loop summ R mode rest fs2
  end.
Definition cp_flip_sign (summ : list F -> F) (w : list F) (fs : list mat) (mode : nat) : res (list F * list mat) :=
  if mode <? length fs then
    let fs' := flip_loop summ (length w) mode (seq 0 (length fs)) fs in
    Ok (map (fabs Op) w, set_nth mode (scale_cols (nth mode fs' []) (map colsign w)) fs')
  else Err.
Definition col_sum (c : list F) : F := fold_left (fadd Op) c fz.
Definition col_mean (c : list F) : F := fdiv Op (col_sum c) (nat2F Op (length c)).

(* ------------------------------------------------------------------ cp_permute_factors: factor[:, col], weights[col] *)
Definition permute_cols (p : list nat) (A : mat) : mat := map (fun row => map (fun k => vget row k) p) A.
Definition cp_permute (p : list nat) (w : list F) (fs : list mat) : res (list F * list mat) :=
  if is_permb (length w) p then Ok (map (fun k => vget w k) p, map (permute_cols p) fs) else Err.

(* ------------------------------------------------------------------ cp_mode_dot *)
Definition vecmat (v : list F) (A : mat) : list F :=           (* T.dot(v, A) *)
  map (fun r => sumn (length A) (fun i => vget v i *f mget A i r)) (seq 0 (ncols A)).
Definition matmul (M A : mat) : mat := map (fun mrow => vecmat mrow A) M.   (* T.dot(M, A) *)
Inductive operand := OpMat (M : mat) | OpVec (v : list F).
Definition cp_mode_dot (w : list F) (fs : list mat) (x : operand) (mode : nat) (keep_dim : bool)
  : res (list F * list mat) :=
  if mode <? length fs then
    let A := nth mode fs [] in
    match x with
    | OpMat M => if rectb (length A) M then Ok (w, set_nth mode (matmul M A) fs) else Err
    | OpVec v =>
        if Nat.eqb (length v) (length A) then
          if keep_dim then Ok (w, set_nth mode [vecmat v A] fs)
          else match remove_nth mode fs with
               | [] => Err                                    (* factors[0] of an empty list *)
               | fs' => let m' := pred mode in                 (* max(mode - 1, 0) *)
                        Ok (w, set_nth m' (scale_cols (nth m' fs' []) (vecmat v A)) fs')
               end
        else Err
    end
  else Err.

End M.
Notation mat F := (list (list F)) (only parsing).
