(* Model of the canonicalising / algebraic transforms on factorised tensors (C04):
     tensorly/cp_tensor.py      cp_normalize, cp_flip_sign, cp_permute_factors (application of the assignment), cp_mode_dot
     tensorly/tucker_tensor.py  tucker_normalize, tucker_mode_dot
     tensorly/parafac2_tensor.py parafac2_normalise, Parafac2Tensor.from_CPTensor (QR answer as data)
     tensorly/tt_tensor.py      pad_tt_rank (TT and, with pad_boundaries, TR)
     tensorly/preprocessing.py  svd_compress_tensor_slices (SVD answer as data) / svd_decompress_parafac2_tensor
   together with entry-level definitions of the dense tensor each format represents
   (cp_entry, tucker_entry, tt_entry / tr_entry, pf2_entry).
   Written once over a record of operations (Base/Ops.v): executed at Z (exact) and Q (reduced), proved over
   an abstract commutative ring / over R.  Matrices are lists of rows; reading outside a list yields 0.
   Square roots and LAPACK answers never appear here: they are arguments ("answer tape").  Definitions only. *)
From Coq Require Import List Arith Bool ZArith.
From TLV Require Import Base.Shape Base.PyList Base.Tensor Base.BigSum Base.Ops.
Import ListNotations.

Section M.
Context {F : Type} (Op : fops F).
Local Notation fz := (f0 Op).
Local Notation fone := (f1 Op).
Local Notation "a *f b" := (fmul Op a b) (at level 40, left associativity).

Local Notation mat := (list (list F)) (only parsing).
Definition vget (v : list F) (r : nat) : F := nth r v fz.
Definition mget (A : mat) (i r : nat) : F := nth r (nth i A []) fz.
Definition sumn (n : nat) (f : nat -> F) : F := bigsum F fz (fadd Op) n f.
Definition ncols (A : mat) : nat := length (hd [] A).
Definition zipw (f : F -> F -> F) (a b : list F) : list F := map (fun p => f (fst p) (snd p)) (combine a b).
Definition ones (n : nat) : list F := repeat fone n.
Definition rectb (n : nat) (A : mat) : bool := forallb (fun row => Nat.eqb (length row) n) A.

(* A * c[newaxis, :]  and  A / c[newaxis, :] *)
Definition scale_cols (A : mat) (c : list F) : mat := map (fun row => zipw (fmul Op) row c) A.
Definition div_cols (A : mat) (c : list F) : mat := map (fun row => zipw (fdiv Op) row c) A.
Definition col (A : mat) (r : nat) : list F := map (fun row => vget row r) A.
Definition colsumsq (A : mat) (r : nat) : F := sumn (length A) (fun i => mget A i r *f mget A i r).

(* ------------------------------------------------------------------ CP: represented tensor *)
Fixpoint cp_term (fs : list mat) (idx : list nat) (r : nat) : F :=
  match fs, idx with
  | A :: fs', i :: idx' => mget A i r *f cp_term fs' idx' r
  | _, _ => fone
  end.
Definition cp_entry (w : list F) (fs : list mat) (idx : list nat) : F :=
  sumn (length w) (fun r => vget w r *f cp_term fs idx r).
Definition cp_shape (fs : list mat) : list nat := map (@length (list F)) fs.
Definition cp_to_tensor (w : list F) (fs : list mat) : tensor F := tabulate (cp_shape fs) (cp_entry w fs).

(* ------------------------------------------------------------------ cp_normalize
   tape[k][r] = T.norm(factor_k, axis=0)[r] (the square root is an oracle: contract  s*s = sum of squares, s >= 0).
   for i, factor: (i = 0: factor = factor * weights; weights = ones)
       scales_non_zero = where(scales == 0, 1, scales); weights = weights * scales; factor / scales_non_zero *)
Definition nz1 (s : F) : F := if feqb Op s fz then fone else s.
Fixpoint norm_loop (tape : list (list F)) (fs : list mat) (w : list F) : list F * list mat :=
  match fs, tape with
  | A :: fs', sc :: tape' =>
      let (wf, out) := norm_loop tape' fs' (zipw (fmul Op) w sc) in
      (wf, div_cols A (map nz1 sc) :: out)
  | _, _ => (w, [])
  end.
(* the factors whose column norms are taken *)
Definition norm_inputs (w : list F) (fs : list mat) : list mat :=
  match fs with [] => [] | A0 :: rest => scale_cols A0 w :: rest end.
Definition cp_normalize (tape : list (list F)) (w : list F) (fs : list mat) : list F * list mat :=
  norm_loop tape (norm_inputs w fs) (ones (length w)).

(* ------------------------------------------------------------------ cp_flip_sign (repaired version: sign 0 counts as +1)
   summ is `func(., axis=0)` applied to one column. *)
Definition fsign (x : F) : F :=
  if fltb Op x fz then fopp Op fone else if fltb Op fz x then fone else fz.
Definition colsign (x : F) : F := nz1 (fsign x).
Definition col_summaries (summ : list F -> F) (A : mat) (R : nat) : list F := map (fun r => summ (col A r)) (seq 0 R).
Fixpoint flip_loop (summ : list F -> F) (R mode : nat) (jjs : list nat) (fs : list mat) : list mat :=
  match jjs with
  | [] => fs
  | jj :: rest =>
      if Nat.eqb jj mode then flip_loop summ R mode rest fs
      else
        let cs := map colsign (col_summaries summ (nth jj fs []) R) in
        let fs1 := set_nth mode (scale_cols (nth mode fs []) cs) fs in
        let fs2 := set_nth jj (scale_cols (nth jj fs1 []) cs) fs1 in
        flip_loop summ R mode rest fs2
  end.
Definition cp_flip_sign (summ : list F -> F) (w : list F) (fs : list mat) (mode : nat) : res (list F * list mat) :=
  if mode <? length fs then
    let fs' := flip_loop summ (length w) mode (seq 0 (length fs)) fs in
    Ok (map (fabs Op) w, set_nth mode (scale_cols (nth mode fs' []) (map colsign w)) fs')
  else Err.
Definition col_sum (c : list F) : F := fold_left (fadd Op) c fz.
Definition col_mean (c : list F) : F := fdiv Op (col_sum c) (nat2F Op (length c)).

(* ------------------------------------------------------------------ cp_permute_factors: factor[:, col], weights[col] *)
Definition permute_cols (p : list nat) (A : mat) : mat := map (fun row => map (fun k => vget row k) p) A.
Definition cp_permute (p : list nat) (w : list F) (fs : list mat) : res (list F * list mat) :=
  if is_permb (length w) p then Ok (map (fun k => vget w k) p, map (permute_cols p) fs) else Err.

(* ------------------------------------------------------------------ cp_mode_dot *)
Definition vecmat (v : list F) (A : mat) : list F :=           (* T.dot(v, A) *)
  map (fun r => sumn (length A) (fun i => vget v i *f mget A i r)) (seq 0 (ncols A)).
Definition matmul (M A : mat) : mat := map (fun mrow => vecmat mrow A) M.   (* T.dot(M, A) *)
Inductive operand := OpMat (M : mat) | OpVec (v : list F).
Definition cp_mode_dot (w : list F) (fs : list mat) (x : operand) (mode : nat) (keep_dim : bool)
  : res (list F * list mat) :=
  if mode <? length fs then
    let A := nth mode fs [] in
    match x with
    | OpMat M => if rectb (length A) M then Ok (w, set_nth mode (matmul M A) fs) else Err
    | OpVec v =>
        if Nat.eqb (length v) (length A) then
          if keep_dim then Ok (w, set_nth mode [vecmat v A] fs)
          else match remove_nth mode fs with
               | [] => Err                                    (* factors[0] of an empty list *)
               | fs' => let m' := pred mode in                 (* max(mode - 1, 0) *)
                        Ok (w, set_nth m' (scale_cols (nth m' fs' []) (vecmat v A)) fs')
               end
        else Err
    end
  else Err.

End M.
Notation mat F := (list (list F)) (only parsing).

(* ================================================================== the other formats (Tucker, TT / TR, PARAFAC2) *)
Section M2.
Context {F : Type} (Op : fops F).
Local Notation fz := (f0 Op).
Local Notation fone := (f1 Op).
Local Notation "a *f b" := (fmul Op a b) (at level 40, left associativity).

(* ------------------------------------------------------------------ tensor train / tensor ring
   a core is a dense tensor of shape r1 :: mid ++ [r2]: mid = [n] for a tensor train / ring, [m; n] for a TT-matrix *)
Definition tget (t : tensor F) (idx : list nat) : F := get fz t idx.
Definition core_r1 (G : tensor F) : nat := hd 0 (shape G).
Definition core_n (G : tensor F) : nat := nth 1 (shape G) 0.
Definition core_r2 (G : tensor F) : nat := last (shape G) 0.
Definition core_mid (G : tensor F) : list nat := removelast (tl (shape G)).
Definition delta (a b : nat) : F := if Nat.eqb a b then fone else fz.
(* entry (a, b) of the matrix product G_1[:, js_1, :] G_2[:, js_2, :] ... ; js_k is the multi-index into the middle modes of core k *)
Fixpoint tt_chain (cores : list (tensor F)) (idx : list (list nat)) (a b : nat) : F :=
  match cores, idx with
  | G :: gs, js :: rest => sumn Op (core_r2 G) (fun c => tget G (a :: js ++ [c]) *f tt_chain gs rest c b)
  | _, _ => delta a b
  end.
(* order-3 cores: one physical index per core *)
Definition single (idx : list nat) : list (list nat) := map (fun j => [j]) idx.
Definition tt_entry (cores : list (tensor F)) (idx : list nat) : F := tt_chain cores (single idx) 0 0.
Definition tr_entry (cores : list (tensor F)) (idx : list nat) : F :=
  sumn Op (core_r1 (hd (mk [] []) cores)) (fun a => tt_chain cores (single idx) a a).
Definition tt_shape (cores : list (tensor F)) : list nat := map core_n cores.
Definition tt_to_tensor (cores : list (tensor F)) : tensor F := tabulate (tt_shape cores) (tt_entry cores).
Definition tr_to_tensor (cores : list (tensor F)) : tensor F := tabulate (tt_shape cores) (tr_entry cores).

(* pad_tt_rank: r1, *s, r2 = shape; new_factor = zeros((r1 + left, *s, r2 + right)); new_factor[:r1, ..., :r2] = factor
   left = 0 for the first core, right = 0 for the last core unless pad_boundaries (the only core of an order-1
   train is both first and last) *)
Definition pad_core (l r : nat) (G : tensor F) : tensor F :=
  tabulate (core_r1 G + l :: core_mid G ++ [core_r2 G + r])
    (fun ix => if (hd 0 ix <? core_r1 G) && (last ix 0 <? core_r2 G) then tget G ix else fz).
Definition iscore (G : tensor F) : bool := (2 <=? length (shape G)) && wfb G.
Fixpoint pad_from (i n npad : nat) (pb : bool) (cores : list (tensor F)) : list (tensor F) :=
  match cores with
  | [] => []
  | G :: gs =>
      pad_core (if Nat.eqb i 0 && negb pb then 0 else npad) (if Nat.eqb i (n - 1) && negb pb then 0 else npad) G
      :: pad_from (S i) n npad pb gs
  end.
Definition pad_tt_rank (cores : list (tensor F)) (npad : nat) (pb : bool) : res (list (tensor F)) :=
  if forallb iscore cores then Ok (pad_from 0 (length cores) npad pb cores) else Err.

(* ------------------------------------------------------------------ Tucker: represented tensor
   entry idx = sum over the core multi-index js of core[js] * prod_k A_k[idx_k][js_k] *)
Fixpoint tk_sum (sh : list nat) (fs : list (mat F)) (idx : list nat) (g : list nat -> F) : F :=
  match sh, fs, idx with
  | n :: sh', A :: fs', i :: idx' =>
      sumn Op n (fun j => mget Op A i j *f tk_sum sh' fs' idx' (fun js => g (j :: js)))
  | _, _, _ => g []
  end.
Definition tucker_entry (core : tensor F) (fs : list (mat F)) (idx : list nat) : F :=
  tk_sum (shape core) fs idx (tget core).
Definition tucker_to_tensor (core : tensor F) (fs : list (mat F)) : tensor F :=
  tabulate (cp_shape fs) (tucker_entry core fs).

(* _validate_tucker_tensor: at least two factors, one per core mode, factor k is (I_k >= 1) x core.shape[k] *)
Fixpoint factors_okb (sh : list nat) (fs : list (mat F)) : bool :=
  match sh, fs with
  | [], [] => true
  | n :: sh', A :: fs' => negb (Nat.eqb (length A) 0) && rectb n A && factors_okb sh' fs'
  | _, _ => false
  end.
Definition tucker_okb (core : tensor F) (fs : list (mat F)) : bool :=
  (2 <=? length fs) && wfb core && factors_okb (shape core) fs.

(* mode_dot(core, u, mode) for a vector u: the mode disappears *)
Definition contract_core (core : tensor F) (k : nat) (u : list F) : tensor F :=
  tabulate (remove_nth k (shape core))
    (fun js => sumn Op (nth k (shape core) 0) (fun j => vget Op u j *f tget core (insert_at k j js))).

Definition tucker_mode_dot (core : tensor F) (fs : list (mat F)) (x : operand) (mode : nat) (keep_dim : bool)
  : res (tensor F * list (mat F)) :=
  if tucker_okb core fs && (mode <? length fs) then
    let A := nth mode fs [] in
    match x with
    | OpMat M => if rectb (length A) M then Ok (core, set_nth mode (matmul Op M A) fs) else Err
    | OpVec v =>
        if Nat.eqb (length v) (length A) then
          if keep_dim then Ok (core, set_nth mode [vecmat Op v A] fs)
          else let fs' := remove_nth mode fs in
               if 2 <=? length fs' then Ok (contract_core core mode (vecmat Op v A), fs') else Err
        else Err
    end
  else Err.

(* tucker_normalize: tape[k][r] = norm of column r of factor k;
   core = core * reshape(scales_k) for every k, factor_k / where(scales_k == 0, 1, scales_k) *)
Fixpoint scal (tape : list (list F)) (js : list nat) : F :=
  match tape, js with
  | sc :: t, j :: js' => vget Op sc j *f scal t js'
  | _, _ => fone
  end.
Fixpoint div_all (fs : list (mat F)) (tape : list (list F)) : list (mat F) :=
  match fs, tape with
  | A :: fs', sc :: t => div_cols Op A (map (nz1 Op) sc) :: div_all fs' t
  | _, _ => []
  end.
Definition tucker_normalize (tape : list (list F)) (core : tensor F) (fs : list (mat F)) : tensor F * list (mat F) :=
  (tabulate (shape core) (fun js => tget core js *f scal tape js), div_all fs tape).

(* ------------------------------------------------------------------ PARAFAC2: (weights, (A, B, C), projections)
   slice i is  (P_i B) diag(w * A[i]) C^T :
   X[i][j][k] = sum_s P_i[j][s] * (sum_r w_r A[i][r] B[s][r] C[k][r]) *)
Definition pf2_entry (w : list F) (A B C : mat F) (Ps : list (mat F)) (i j k : nat) : F :=
  sumn Op (length B) (fun s => mget Op (nth i Ps []) j s *f cp_entry Op w [A; B; C] [i; s; k]).
Definition pf2_slice (w : list F) (A B C : mat F) (Ps : list (mat F)) (i : nat) : mat F :=
  map (fun j => map (fun k => pf2_entry w A B C Ps i j k) (seq 0 (length C))) (seq 0 (length (nth i Ps []))).

(* parafac2_normalise = the CP normalisation loop on (A, B, C); projections untouched *)
Definition parafac2_normalise (tape : list (list F)) (w : list F) (A B C : mat F) (Ps : list (mat F))
  : list F * list (mat F) * list (mat F) := (cp_normalize Op tape w [A; B; C], Ps).

(* Parafac2Tensor.from_CPTensor: (Q, R) = qr(B) is data; projections = [Q] * I, B := R *)
Definition from_cp (Qm Rm : mat F) (w : list F) (A B C : mat F) : list F * list (mat F) * list (mat F) :=
  (w, [A; Rm; C], repeat Qm (length A)).

(* svd_decompress_parafac2_tensor: projections[i] = L_i P_i where a loading matrix is given *)
Fixpoint decompress_projs (Ps : list (mat F)) (Ls : list (option (mat F))) : list (mat F) :=
  match Ps, Ls with
  | P :: Ps', L :: Ls' => (match L with Some Lm => matmul Op Lm P | None => P end) :: decompress_projs Ps' Ls'
  | _, _ => []
  end.
Definition svd_decompress (w : list F) (A B C : mat F) (Ps : list (mat F)) (Ls : list (option (mat F)))
  : res (list F * list (mat F) * list (mat F)) :=
  if length Ps <=? length Ls then Ok (w, [A; B; C], decompress_projs Ps Ls) else Err.   (* loading_matrices[i]: IndexError when too few, surplus entries unused *)

(* svd_compress_tensor_slices, one slice; (U, s, Vh) is the recorded answer of svd_interface(n_eigenvecs = rank_limit)
   num_svds = #{ s_i >= s_0 * threshold };  score = diag(s[:num]) Vh[:num],  loading = U[:, :num] *)
Definition scale_rows (s : list F) (Vh : mat F) : mat F :=
  map (fun p => map (fun x => fst p *f x) (snd p)) (combine s Vh).
Definition count_kept (thr : F) (s : list F) : nat :=
  length (filter (fun si => fleb Op (hd fz s *f thr) si) s).
Definition compress_slice (rank_limit : nat) (thr : F) (X : mat F) (usv : mat F * list F * mat F)
  : mat F * option (mat F) :=
  if (length X <=? rank_limit) && feqb Op thr fz then (X, None)
  else let '(U, s, Vh) := usv in
       let num := count_kept thr s in
       (scale_rows (firstn num s) (firstn num Vh), Some (map (firstn num) U)).
(* the whole call: rank_limit = min(n_cols, max_rank) from the first slice; one recorded SVD answer per slice *)
Definition svd_compress (slices : list (mat F)) (thr : F) (max_rank : option nat) (tapes : list (mat F * list F * mat F))
  : list (mat F * option (mat F)) :=
  let nc := ncols (hd [] slices) in
  let rl := match max_rank with Some m => Nat.min nc m | None => nc end in
  map (fun p => compress_slice rl thr (fst p) (snd p)) (combine slices tapes).
End M2.

Section M3.
Context {F : Type} (Op : fops F).
(* ------------------------------------------------------------------ the input forms of the CP entry points
   A CP tensor reaches cp_mode_dot / cp_flip_sign either as a CPTensor object or as a plain (weights, factors) tuple whose
   weights may be None.  A CPTensor object caches its shape and never holds None weights (its validating constructor
   substitutes ones).  Repaired tree (/repo 98aff0c, 85a028b):
     _validate_cp_tensor(operand): an object answers from its cache, a tuple is validated;
     cp_mode_dot: copy=True or a tuple operand -> a fresh CPTensor((weights, factors)) (validated, None -> ones);
                  copy=False on an object    -> the same object, factors updated, `shape` attribute recomputed;
     cp_flip_sign: None weights -> ones, always a fresh CPTensor. *)
Record cp_obj := mk_cpobj { cpo_shape : list nat; cpo_w : list F; cpo_fs : list (mat F) }.
Inductive cp_operand := CpTuple (w : option (list F)) (fs : list (mat F)) | CpObject (o : cp_obj).
Definition cp_rank (fs : list (mat F)) : nat := ncols (hd [] fs).
Definition weights_or_ones (w : option (list F)) (fs : list (mat F)) : list F :=
  match w with Some w0 => w0 | None => ones Op (cp_rank fs) end.
(* _validate_cp_tensor on raw contents: at least one factor, every factor a non-empty matrix with `rank` columns, len(weights) = rank *)
Definition cp_validb (w : option (list F)) (fs : list (mat F)) : bool :=
  negb (Nat.eqb (length fs) 0) &&
  forallb (fun A => negb (Nat.eqb (length A) 0) && rectb (cp_rank fs) A) fs &&
  match w with Some w0 => Nat.eqb (length w0) (cp_rank fs) | None => true end.
Definition cp_new (w : option (list F)) (fs : list (mat F)) : res cp_obj :=
  if cp_validb w fs then Ok (mk_cpobj (cp_shape fs) (weights_or_ones w fs) fs) else Err.
Definition operand_w (x : cp_operand) : list F :=
  match x with CpTuple w fs => weights_or_ones w fs | CpObject o => cpo_w o end.
Definition operand_fs (x : cp_operand) : list (mat F) :=
  match x with CpTuple _ fs => fs | CpObject o => cpo_fs o end.
Definition operand_okb (x : cp_operand) : bool :=
  match x with CpTuple w fs => cp_validb w fs | CpObject _ => true end.
Definition cp_mode_dot_api (x : cp_operand) (copy : bool) (opd : operand) (mode : nat) (keep_dim : bool) : res cp_obj :=
  if operand_okb x then
    match cp_mode_dot Op (operand_w x) (operand_fs x) opd mode keep_dim with
    | Err => Err
    | Ok (w', fs') =>
        match x with
        | CpObject _ => if copy then cp_new (Some w') fs' else Ok (mk_cpobj (cp_shape fs') w' fs')
        | CpTuple _ _ => cp_new (Some w') fs'
        end
    end
  else Err.
Definition cp_flip_sign_api (x : cp_operand) (summ : list F -> F) (mode : nat) : res cp_obj :=
  if operand_okb x then
    match cp_flip_sign Op summ (operand_w x) (operand_fs x) mode with
    | Err => Err
    | Ok (w', fs') => cp_new (Some w') fs'
    end
  else Err.
End M3.

(* ================================================================== round 3: list form of cp_permute_factors, orthonormality,
   dense TT-matrices, Python mode numbers, aligned component order *)
Section M4.
Context {F : Type} (Op : fops F).
Local Notation fz := (f0 Op).
Local Notation fone := (f1 Op).
Local Notation "a *f b" := (fmul Op a b) (at level 40, left associativity).
(* ------------------------------------------------------------------ cp_permute_factors, list form:
   for i: col = assignment_i (oracle); permuted[i].factors[f] = factors[f][:, col]; permuted[i].weights = weights[col] *)
Fixpoint cp_permute_list (ps : list (list nat)) (ts : list (list F * list (mat F))) : res (list (list F * list (mat F))) :=
  match ps, ts with
  | [], [] => Ok []
  | p :: ps', t :: ts' =>
      match cp_permute Op p (fst t) (snd t), cp_permute_list ps' ts' with
      | Ok t', Ok rest => Ok (t' :: rest)
      | _, _ => Err
      end
  | _, _ => Err
  end.

(* ------------------------------------------------------------------ orthonormal columns: P^T P = I *)
Definition gram (P : mat F) (a b : nat) : F := sumn Op (length P) (fun t => mget Op P t a *f mget Op P t b).
Definition orthob (eqb : F -> F -> bool) (n : nat) (P : mat F) : bool :=
  forallb (fun a => forallb (fun b => eqb (gram P a b) (if Nat.eqb a b then fone else fz)) (seq 0 n)) (seq 0 n).
End M4.

Section M5.
Context {F : Type} (Op : fops F).
(* ------------------------------------------------------------------ TT-matrix: cores (r_k, m_k, n_k, r_{k+1});
   tt_matrix_to_tensor has shape (m_1..m_N, n_1..n_N) and entry [i_1..i_N, j_1..j_N] = (prod_k G_k[:, i_k, j_k, :])[0, 0] *)
Definition core_m2 (G : tensor F) : nat := nth 2 (shape G) 0.
Definition ttm_shape (cores : list (tensor F)) : list nat := map core_n cores ++ map core_m2 cores.
Fixpoint zip2 (a b : list nat) : list (list nat) :=
  match a, b with x :: a', y :: b' => [x; y] :: zip2 a' b' | _, _ => [] end.
Definition ttm_entry (cores : list (tensor F)) (idx : list nat) : F :=
  let n := length cores in tt_chain Op cores (zip2 (firstn n idx) (skipn n idx)) 0 0.
Definition ttm_to_tensor (cores : list (tensor F)) : tensor F := tabulate (ttm_shape cores) (ttm_entry cores).
End M5.

Section M6.
Context {F : Type} (Op : fops F).
Local Notation "a *f b" := (fmul Op a b) (at level 40, left associativity).
(* ------------------------------------------------------------------ Python mode numbers: -N <= mode < N *)
Definition norm_mode (n : nat) (m : Z) : option nat :=
  if ((0 <=? m) && (m <? Z.of_nat n))%Z then Some (Z.to_nat m)
  else if ((- Z.of_nat n <=? m) && (m <? 0))%Z then Some (Z.to_nat (Z.of_nat n + m)) else None.
(* cp_mode_dot with a Python mode number.  For a negative mode everything indexes from the end; the contraction
   `factor = factors.pop(mode); mode = max(mode - 1, 0); factors[mode] *= factor` then lets factor 0 absorb the vector *)
Definition cp_contract_at (w : list F) (fs : list (mat F)) (v : list F) (k absorb : nat) : res (list F * list (mat F)) :=
  let A := nth k fs [] in
  if Nat.eqb (length v) (length A) then
    match remove_nth k fs with
    | [] => Err
    | fs' => Ok (w, set_nth absorb (scale_cols Op (nth absorb fs' []) (vecmat Op v A)) fs')
    end
  else Err.
Definition cp_mode_dot_z (w : list F) (fs : list (mat F)) (x : operand) (mode : Z) (keep_dim : bool)
  : res (list F * list (mat F)) :=
  match norm_mode (length fs) mode with
  | None => Err
  | Some k =>
      match x with
      | OpVec v => if negb keep_dim && (mode <? 0)%Z then cp_contract_at w fs v k 0 else cp_mode_dot Op w fs x k keep_dim
      | OpMat _ => cp_mode_dot Op w fs x k keep_dim
      end
  end.
Definition tucker_mode_dot_z (core : tensor F) (fs : list (mat F)) (x : operand) (mode : Z) (keep_dim : bool)
  : res (tensor F * list (mat F)) :=
  match norm_mode (length fs) mode with
  | None => Err
  | Some k => tucker_mode_dot Op core fs x k keep_dim
  end.
(* cp_flip_sign with a negative mode: `if jj == mode: continue` never fires, so the target factor is also visited as
   "current" factor and multiplied by its own signs twice *)
Fixpoint flip_loop_ns (summ : list F -> F) (R target : nat) (jjs : list nat) (fs : list (mat F)) : list (mat F) :=
  match jjs with
  | [] => fs
  | jj :: rest =>
      let cs := map (colsign Op) (col_summaries Op summ (nth jj fs []) R) in
      let fs1 := set_nth target (scale_cols Op (nth target fs []) cs) fs in
      let fs2 := set_nth jj (scale_cols Op (nth jj fs1 []) cs) fs1 in
      flip_loop_ns summ R target rest fs2
  end.
Definition cp_flip_sign_z (summ : list F -> F) (w : list F) (fs : list (mat F)) (mode : Z) : res (list F * list (mat F)) :=
  match norm_mode (length fs) mode with
  | None => Err
  | Some k =>
      if (mode <? 0)%Z then
        let fs' := flip_loop_ns summ (length w) k (seq 0 (length fs)) fs in
        Ok (map (fabs Op) w, set_nth k (scale_cols Op (nth k fs' []) (map (colsign Op) w)) fs')
      else cp_flip_sign Op summ w fs k
  end.
End M6.

Section M7.
Context {F : Type} (Op : fops F).
Local Notation fz := (f0 Op).
Local Notation fone := (f1 Op).
Local Notation "a *f b" := (fmul Op a b) (at level 40, left associativity).
(* ------------------------------------------------------------------ congruence_coefficient / aligned component order
   all_congruences[i][j] = prod_k |<a_k,i , b_k,j>| / (|a_k,i| |b_k,j|); the column norms are data (tapes);
   linear_sum_assignment is an oracle: its answer is checked to be an optimal assignment *)
Fixpoint congr_entry (tA tB : list (list F)) (As Bs : list (mat F)) (i j : nat) : F :=
  match tA, tB, As, Bs with
  | na :: tA', nb :: tB', A :: As', B :: Bs' =>
      fdiv Op (fabs Op (sumn Op (length A) (fun t => mget Op A t i *f mget Op B t j))) (vget Op na i *f vget Op nb j)
      *f congr_entry tA' tB' As' Bs' i j
  | _, _, _, _ => fone
  end.
Definition assign_score (M : nat -> nat -> F) (p : list nat) : F :=
  sumn Op (length p) (fun i => M i (nth i p 0)).
Fixpoint insert_all (x : nat) (l : list nat) : list (list nat) :=
  match l with [] => [[x]] | y :: l' => (x :: l) :: map (cons y) (insert_all x l') end.
Fixpoint perms (l : list nat) : list (list nat) :=
  match l with [] => [[]] | x :: l' => flat_map (insert_all x) (perms l') end.
Definition is_optimalb (tol : F) (n : nat) (M : nat -> nat -> F) (p : list nat) : bool :=
  is_permb n p && forallb (fun q => fleb Op (assign_score M q) (fadd Op (assign_score M p) tol)) (perms (seq 0 n)).
End M7.

