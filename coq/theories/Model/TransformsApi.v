(* C04, round 5: the validating result constructors of the PARAFAC2 and Tucker entry points
     tensorly/parafac2_tensor.py  _validate_parafac2_tensor, Parafac2Tensor.__init__, parafac2_normalise, from_CPTensor
     tensorly/preprocessing.py    svd_decompress_parafac2_tensor
     tensorly/tucker_tensor.py    _validate_tucker_tensor, TuckerTensor.__init__, tucker_normalize, tucker_mode_dot
   Every one of these entry points hands its answer to a validating constructor (Parafac2Tensor(...), TuckerTensor(...))
   which may refuse it; the functions of Model/Transforms.v compute the answer, the *_api functions here add the
   operand forms (object with cached shape / plain tuple, weights None) and the constructor's verdict.
   `close` is the entry test of the orthonormality check (code: max |P^T P - I| <= 1e-5; exact equality on Z).
   Definitions only. *)
From Coq Require Import List Arith Bool ZArith.
From TLV Require Import Base.Shape Base.PyList Base.Tensor Base.BigSum Base.Ops Model.Transforms.
Import ListNotations.

Section A1.
Context {F : Type} (Op : fops F) (close : F -> F -> bool).

(* a 2-D array with n columns (and at least one row: size-0 modes are outside the model) *)
Definition matb (n : nat) (A : mat F) : bool := negb (Nat.eqb (length A) 0) && rectb n A.

(* ------------------------------------------------------------------ Parafac2Tensor *)
Record pf2_obj := mk_pf2obj { pfo_shape : list (list nat); pfo_rank : nat; pfo_w : list F; pfo_fs : list (mat F); pfo_ps : list (mat F) }.
Inductive pf2_operand := Pf2Tuple (w : option (list F)) (fs : list (mat F)) (Ps : list (mat F)) | Pf2Object (o : pf2_obj).

(* _validate_parafac2_tensor on raw contents: exactly three factors; one projection per row of A; rank = A.shape[1];
   every projection has `rank` columns and P^T P = I (entry test `close`); B and C have `rank` columns; len(weights) = rank *)
Definition proj_okb (rank : nat) (P : mat F) : bool := matb rank P && orthob Op close rank P.
Definition pf2_validb (w : option (list F)) (fs Ps : list (mat F)) : bool :=
  match fs with
  | [A; B; C] =>
      let rank := ncols A in
      matb rank A && Nat.eqb (length Ps) (length A) && forallb (proj_okb rank) Ps &&
      matb rank B && matb rank C &&
      match w with Some w0 => Nat.eqb (length w0) rank | None => true end
  | _ => false
  end.
(* shape: one (rows of P_i, rows of C) pair per slice *)
Definition pf2_shape (fs Ps : list (mat F)) : list (list nat) := map (fun P => [length P; length (nth 2 fs [])]) Ps.
Definition pf2_new (w : option (list F)) (fs Ps : list (mat F)) : res pf2_obj :=
  if pf2_validb w fs Ps then Ok (mk_pf2obj (pf2_shape fs Ps) (cp_rank fs) (weights_or_ones Op w fs) fs Ps) else Err.

Definition pf2_raw_w (x : pf2_operand) : option (list F) := match x with Pf2Tuple w _ _ => w | Pf2Object o => Some (pfo_w o) end.
Definition pf2_fs (x : pf2_operand) : list (mat F) := match x with Pf2Tuple _ fs _ => fs | Pf2Object o => pfo_fs o end.
Definition pf2_ps (x : pf2_operand) : list (mat F) := match x with Pf2Tuple _ _ Ps => Ps | Pf2Object o => pfo_ps o end.
(* _validate_parafac2_tensor(operand): an object answers from its cache, a tuple is validated *)
Definition pf2_operand_okb (x : pf2_operand) : bool :=
  match x with Pf2Tuple w fs Ps => pf2_validb w fs Ps | Pf2Object _ => true end.

(* parafac2_normalise: validate the operand; the CP normalisation loop on (A, B, C) (weights None: factor 0 is not scaled,
   which is scaling by ones); copies of the projections; Parafac2Tensor((weights, factors, projections)) validates the answer *)
Definition parafac2_normalise_api (tape : list (list F)) (x : pf2_operand) : res pf2_obj :=
  if pf2_operand_okb x then
    let '(wf, fs') := cp_normalize Op tape (weights_or_ones Op (pf2_raw_w x) (pf2_fs x)) (pf2_fs x) in
    pf2_new (Some wf) fs' (pf2_ps x)
  else Err.

(* svd_decompress_parafac2_tensor: the operand is unpacked, not validated; loading_matrices[i] for every projection
   (IndexError when too few); Parafac2Tensor((weights, factors, projections)) validates the answer: L_i P_i must be orthonormal *)
Definition svd_decompress_api (x : pf2_operand) (Ls : list (option (mat F))) : res pf2_obj :=
  if length (pf2_ps x) <=? length Ls then pf2_new (pf2_raw_w x) (pf2_fs x) (decompress_projs Op (pf2_ps x) Ls) else Err.

(* Parafac2Tensor.from_CPTensor(cp_tensor, parafac2_tensor_ok): a three-element operand is a PARAFAC2 tensor (passed through
   the constructor when allowed, TypeError otherwise); a two-element one is unpacked as (weights, (A, B, C)) WITHOUT validation,
   (Q, R) = qr(B) is data, and Parafac2Tensor((weights, (A, R, C), [Q] * rows(A))) validates the answer *)
Inductive from_operand := FromCp (c : cp_operand (F:=F)) | FromPf2 (p : pf2_operand).
Definition cp_raw_w (c : cp_operand (F:=F)) : option (list F) := match c with CpTuple w _ => w | CpObject o => Some (cpo_w o) end.
Definition from_cp_api (Qm Rm : mat F) (x : from_operand) (pf2_ok : bool) : res pf2_obj :=
  match x with
  | FromPf2 p =>
      if pf2_ok then
        match p with
        | Pf2Object o => Ok (mk_pf2obj (pfo_shape o) (pfo_rank o) (pfo_w o) (pfo_fs o) (pfo_ps o))
        | Pf2Tuple w fs Ps => pf2_new w fs Ps
        end
      else Err
  | FromCp c =>
      match operand_fs c with
      | [A; B; C] => pf2_new (cp_raw_w c) [A; Rm; C] (repeat Qm (length A))
      | _ => Err
      end
  end.

(* ------------------------------------------------------------------ TuckerTensor
   _validate_tucker_tensor runs on every operand form (no cache shortcut): tucker_okb of Model/Transforms.v *)
Record tucker_obj := mk_tkobj { tko_shape : list nat; tko_rank : list nat; tko_core : tensor F; tko_fs : list (mat F) }.
Definition tucker_new (core : tensor F) (fs : list (mat F)) : res tucker_obj :=
  if tucker_okb core fs then Ok (mk_tkobj (cp_shape fs) (map (fun A => ncols A) fs) core fs) else Err.
(* tucker_normalize does not validate its operand; TuckerTensor((core, normalized_factors)) validates the answer
   (operands on which NumPy broadcasting would change the core's shape are outside the model) *)
Definition tucker_normalize_api (tape : list (list F)) (core : tensor F) (fs : list (mat F)) : res tucker_obj :=
  let '(c', fs') := tucker_normalize Op tape core fs in tucker_new c' fs'.
(* tucker_normalize on ANY (core, factors), NumPy broadcasting included (round 6).  Iteration i multiplies the CURRENT core by the
   scales of factor i reshaped to (1,)*i + (-1,) + (1,)*(ndim(core) - i - 1) -- a negative repeat count is the empty tuple, so for
   i >= ndim(core) the operand has i + 1 axes and the core gains leading axes.  The two shapes are right-aligned; a pair of
   sizes must be equal or contain a 1 (which is stretched), otherwise NumPy raises.  The answer then goes through TuckerTensor(...).
   On a valid Tucker tensor nothing is stretched and this is tucker_normalize_api (C04_tucker_bc_step; compared on every run). *)
Definition bdim (a b : nat) : option nat :=
  if Nat.eqb a b then Some a else if Nat.eqb a 1 then Some b else if Nat.eqb b 1 then Some a else None.
Fixpoint bshape (a b : list nat) : option (list nat) :=
  match a, b with
  | [], [] => Some []
  | x :: a', y :: b' => match bdim x y, bshape a' b' with Some d, Some r => Some (d :: r) | _, _ => None end
  | _, _ => None
  end.
Definition bproj (sh idx : list nat) : list nat := map (fun p => if Nat.eqb (fst p) 1 then 0 else snd p) (combine sh idx).
Definition tk_norm_step (i : nat) (sc : list F) (core : tensor F) : res (tensor F) :=
  let d := length (shape core) in
  let S := if i <? d then repeat 1 i ++ [length sc] ++ repeat 1 (d - i - 1) else repeat 1 i ++ [length sc] in
  let pad := length S - d in
  let csh := repeat 1 pad ++ shape core in
  match bshape csh S with
  | None => Err
  | Some rsh => Ok (tabulate rsh (fun idx => fmul Op (tget Op core (skipn pad (bproj csh idx))) (vget Op sc (nth i (bproj S idx) 0))))
  end.
Fixpoint tk_norm_loop (i : nat) (tape : list (list F)) (core : tensor F) : res (tensor F) :=
  match tape with
  | [] => Ok core
  | sc :: rest => rbind (tk_norm_step i sc core) (tk_norm_loop (S i) rest)
  end.
Definition tucker_normalize_bc (tape : list (list F)) (core : tensor F) (fs : list (mat F)) : res tucker_obj :=
  if Nat.eqb (length tape) (length fs) && wfb core then
    rbind (tk_norm_loop 0 tape core) (fun c' => tucker_new c' (div_all Op fs tape))
  else Err.

(* tucker_mode_dot: operand validated (inside tucker_mode_dot of Model/Transforms.v), answer validated by TuckerTensor(...) *)
Definition tucker_mode_dot_api (core : tensor F) (fs : list (mat F)) (x : operand (F:=F)) (mode : Z) (keep_dim : bool) : res tucker_obj :=
  match tucker_mode_dot_z Op core fs x mode keep_dim with
  | Ok (c', fs') => tucker_new c' fs'
  | Err => Err
  end.
End A1.
