(* Complexification of a record of operations (C04, round 7): pairs (re, im) over any carrier F.
   Instantiated at Z it gives the Gaussian integers (executed, exact: complex128 / complex64 arrays with integer parts),
   at R the complex numbers.  The ring operations are the usual ones; fdiv multiplies by the conjugate and divides both
   parts by |b|^2 with the carrier's division; fleb is the component-wise comparison (NOT an order on the complex
   numbers: it is there so that feqb is equality of both parts; nothing in the ring-regime code of this property reads it).
   Definitions only. *)
From Coq Require Import List ZArith Bool.
From TLV Require Import Base.Tensor Base.Ops.
Import ListNotations.

Section CX.
Context {F : Type} (Op : fops F).
Definition cx_add (a b : F * F) : F * F := (fadd Op (fst a) (fst b), fadd Op (snd a) (snd b)).
Definition cx_sub (a b : F * F) : F * F := (fsub Op (fst a) (fst b), fsub Op (snd a) (snd b)).
Definition cx_mul (a b : F * F) : F * F :=
  (fsub Op (fmul Op (fst a) (fst b)) (fmul Op (snd a) (snd b)), fadd Op (fmul Op (fst a) (snd b)) (fmul Op (snd a) (fst b))).
Definition cx_opp (a : F * F) : F * F := (fopp Op (fst a), fopp Op (snd a)).
Definition cx_conj (a : F * F) : F * F := (fst a, fopp Op (snd a)).
Definition cx_abs2 (a : F * F) : F := fadd Op (fmul Op (fst a) (fst a)) (fmul Op (snd a) (snd a)).
Definition cx_div (a b : F * F) : F * F :=
  let n := cx_mul a (cx_conj b) in (fdiv Op (fst n) (cx_abs2 b), fdiv Op (snd n) (cx_abs2 b)).
Definition cx_leb (a b : F * F) : bool := fleb Op (fst a) (fst b) && fleb Op (snd a) (snd b).
Definition cx_ops : fops (F * F) :=
  mkF (f0 Op, f0 Op) (f1 Op, f0 Op) cx_add cx_sub cx_mul cx_div cx_opp cx_leb.
(* the real part / the embedding of the carrier: what a float64 buffer keeps of a complex value *)
Definition cx_re (a : F * F) : F * F := (fst a, f0 Op).
Definition cx_of (x : F) : F * F := (x, f0 Op).
End CX.

Definition tmap {A B : Type} (f : A -> B) (t : tensor A) : tensor B := mk (shape t) (map f (data t)).

Definition Gops : fops (Z * Z) := cx_ops Zops.        (* Gaussian integers *)
