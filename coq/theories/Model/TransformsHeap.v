(* C04, round 5: a small heap / ownership model of cp_mode_dot's `copy` flag (tensorly/cp_tensor.py).
   Arrays, Python lists of arrays and CPTensor objects live at locations (indices into three tables; allocation appends).
   The VALUES written are those of the pure model (cp_mode_dot of Model/Transforms.v); what this file adds is WHERE they are
   written:
     copy=True : factors = [T.copy(f) for f in factors]; weights = T.copy(weights)     -- fresh arrays, fresh list
     contraction: factor = factors.pop(mode)  (the list cell is updated);  factors[max(mode-1,0)] *= factor  IN PLACE:
                  the array at that location is overwritten, and every other holder of the location sees the new value
     otherwise  : factors[mode] = <fresh array>                                        -- the list cell is updated
     copy or tuple operand: CPTensor((weights, factors)) -- a fresh object (weights None: a fresh array of ones)
     object operand, copy=False: cp_tensor.shape = ...; return cp_tensor               -- the same object
   A weights vector w is stored as the one-row matrix [w].  Definitions only. *)
From Coq Require Import List Arith Bool ZArith.
From TLV Require Import Base.Shape Base.PyList Base.Tensor Base.BigSum Base.Ops Model.Transforms.
Import ListNotations.

Section H.
Context {F : Type} (Op : fops F).

Record cp_cell := mk_cell { c_shape : list nat; c_w : nat; c_fs : nat }.
Record heap := mk_heap { h_arr : list (mat F); h_lst : list (list nat); h_obj : list cp_cell }.
Inductive href := RTuple (w : option nat) (fs : nat) | RObject (o : nat).

Definition arr (h : heap) (l : nat) : mat F := nth l (h_arr h) [].
Definition lst (h : heap) (l : nat) : list nat := nth l (h_lst h) [].
Definition obj (h : heap) (l : nat) : cp_cell := nth l (h_obj h) (mk_cell [] 0 0).
Definition alloc_arr (h : heap) (a : mat F) : heap * nat := (mk_heap (h_arr h ++ [a]) (h_lst h) (h_obj h), length (h_arr h)).
Definition alloc_lst (h : heap) (l : list nat) : heap * nat := (mk_heap (h_arr h) (h_lst h ++ [l]) (h_obj h), length (h_lst h)).
Definition alloc_obj (h : heap) (c : cp_cell) : heap * nat := (mk_heap (h_arr h) (h_lst h) (h_obj h ++ [c]), length (h_obj h)).
Definition set_arr (h : heap) (l : nat) (a : mat F) : heap := mk_heap (set_nth l a (h_arr h)) (h_lst h) (h_obj h).
Definition set_lst (h : heap) (l : nat) (v : list nat) : heap := mk_heap (h_arr h) (set_nth l v (h_lst h)) (h_obj h).
Definition set_obj (h : heap) (l : nat) (c : cp_cell) : heap := mk_heap (h_arr h) (h_lst h) (set_nth l c (h_obj h)).

(* what a reference denotes *)
Definition read_fs (h : heap) (ls : list nat) : list (mat F) := map (arr h) ls.
Definition read_vec (h : heap) (l : nat) : list F := hd [] (arr h l).
Definition ref_w (h : heap) (r : href) : option nat := match r with RTuple w _ => w | RObject o => Some (c_w (obj h o)) end.
Definition ref_fs (h : heap) (r : href) : nat := match r with RTuple _ fs => fs | RObject o => c_fs (obj h o) end.
Definition deref (h : heap) (r : href) : cp_operand (F:=F) :=
  match r with
  | RTuple w fs => CpTuple (option_map (read_vec h) w) (read_fs h (lst h fs))
  | RObject o => CpObject (mk_cpobj (c_shape (obj h o)) (read_vec h (c_w (obj h o))) (read_fs h (lst h (c_fs (obj h o)))))
  end.
Definition read_obj (h : heap) (o : nat) : cp_obj (F:=F) :=
  mk_cpobj (c_shape (obj h o)) (read_vec h (c_w (obj h o))) (read_fs h (lst h (c_fs (obj h o)))).

(* [T.copy(f) for f in factors]: fresh arrays at the end of the table, then a fresh list holding them *)
Definition copy_list (h : heap) (fl : nat) : heap * nat :=
  let ls := lst h fl in
  alloc_lst (mk_heap (h_arr h ++ map (arr h) ls) (h_lst h) (h_obj h)) (seq (length (h_arr h)) (length ls)).
Definition copy_w (h : heap) (w : option nat) : heap * option nat :=
  match w with Some l => let (h', l') := alloc_arr h (arr h l) in (h', Some l') | None => (h, None) end.

(* CPTensor((weights, factors)) *)
Definition new_obj (h : heap) (w : option nat) (fl : nat) : res (heap * nat) :=
  let fs := read_fs h (lst h fl) in
  if cp_validb (option_map (read_vec h) w) fs then
    let (h1, wl) := match w with Some l => (h, l) | None => alloc_arr h [ones Op (cp_rank fs)] end in
    Ok (alloc_obj h1 (mk_cell (cp_shape fs) wl fl))
  else Err.

(* the dimension test of cp_mode_dot reads `shape[mode]` from what _validate_cp_tensor returns: for a CPTensor OBJECT that is the
   CACHED shape attribute (never re-validated), and T.dot then needs the factor's real row count: both must agree with the operand.
   A cache made stale by item assignment (setitem_h below; C03's known finding wrapper_setitem_stale_cache_cp) makes the call raise. *)
Definition cache_okb (h : heap) (r : href) (mode : nat) : bool :=
  match r with
  | RObject o => (mode <? length (c_shape (obj h o))) &&
                 Nat.eqb (nth mode (c_shape (obj h o)) 0) (length (nth mode (read_fs h (lst h (c_fs (obj h o)))) []))
  | RTuple _ _ => true
  end.
Definition guard (h : heap) (r : href) (mode : nat) : bool := operand_okb (deref h r) && cache_okb h r mode.
(* CPTensor.__setitem__: cp[0] = weights / cp[1] = factors rebinds the attribute and leaves .shape / .rank as they were *)
Definition setitem_h (h : heap) (o : nat) (index : nat) (value : nat) : res heap :=
  match index with
  | 0 => Ok (set_obj h o (mk_cell (c_shape (obj h o)) value (c_fs (obj h o))))
  | 1 => Ok (set_obj h o (mk_cell (c_shape (obj h o)) (c_w (obj h o)) value))
  | _ => Err
  end.
(* a __setitem__ that refreshes the cached shape from the new contents (not the current source; selected by the harness if the
   source's CPTensor.__setitem__ is seen to assign self.shape / re-validate) *)
Definition setitem_refresh_h (h : heap) (o : nat) (index : nat) (value : nat) : res heap :=
  match setitem_h h o index value with
  | Ok h1 => Ok (set_obj h1 o (mk_cell (cp_shape (read_fs h1 (lst h1 (c_fs (obj h1 o))))) (c_w (obj h1 o)) (c_fs (obj h1 o))))
  | Err => Err
  end.
Definition cache_consistent (h : heap) (o : nat) : Prop := c_shape (obj h o) = cp_shape (read_fs h (lst h (c_fs (obj h o)))).

(* ------------------------------------------------------------------ entry points that build every array of their answer afresh
   cp_normalize (factor / scales, weights * scales), cp_flip_sign (factors = list(factors); every slot is rebound to a product;
   weights = abs(weights)), cp_permute_factors (cp_copy, then fancy indexing) and CPTensor.cp_copy: a fresh weights array, one fresh
   array per factor, a fresh list, a fresh validated object.  The operand is only read. *)
Definition alloc_arrs (h : heap) (vals : list (mat F)) : heap * list nat :=
  (mk_heap (h_arr h ++ vals) (h_lst h) (h_obj h), seq (length (h_arr h)) (length vals)).
Definition fresh_result (h : heap) (w' : list F) (fs' : list (mat F)) : res (heap * nat) :=
  let (h1, wl) := alloc_arr h [w'] in
  let (h2, ls) := alloc_arrs h1 fs' in
  let (h3, fl) := alloc_lst h2 ls in
  new_obj h3 (Some wl) fl.
Definition cp_normalize_h (tape : list (list F)) (h : heap) (r : href) : res (heap * nat) :=
  if operand_okb (deref h r) then
    let (w', fs') := cp_normalize Op tape (operand_w Op (deref h r)) (operand_fs (deref h r)) in fresh_result h w' fs'
  else Err.
Definition cp_flip_sign_h (summ : list F -> F) (h : heap) (r : href) (mode : nat) : res (heap * nat) :=
  if operand_okb (deref h r) then
    match cp_flip_sign Op summ (operand_w Op (deref h r)) (operand_fs (deref h r)) mode with
    | Ok (w', fs') => fresh_result h w' fs'
    | Err => Err
    end
  else Err.
Definition cp_permute_h (p : list nat) (h : heap) (r : href) : res (heap * nat) :=
  match cp_permute Op p (operand_w Op (deref h r)) (operand_fs (deref h r)) with
  | Ok (w', fs') => fresh_result h w' fs'
  | Err => Err
  end.
Definition cp_copy_h (h : heap) (o : nat) : res (heap * nat) :=
  fresh_result h (operand_w Op (deref h (RObject o))) (operand_fs (deref h (RObject o))).
(* CPTensor.normalize(inplace) since /repo 9ada0b3:  weights, factors = cp_normalize(self);
   inplace: self.weights, self.factors = weights, factors; return self   (the shape attribute is kept; the temporary object that
            cp_normalize built stays behind);   not inplace: return CPTensor((weights, factors)) -- one more validated object *)
Definition cp_normalize_method_h (tape : list (list F)) (h : heap) (o : nat) (inplace : bool) : res (heap * nat) :=
  match cp_normalize_h tape h (RObject o) with
  | Err => Err
  | Ok (h', o') =>
      if inplace then Ok (set_obj h' o (mk_cell (c_shape (obj h' o)) (c_w (obj h' o')) (c_fs (obj h' o'))), o)
      else new_obj h' (Some (c_w (obj h' o'))) (c_fs (obj h' o'))
  end.

Definition is_contract (x : operand (F:=F)) (keep_dim : bool) : bool := match x with OpVec _ => negb keep_dim | OpMat _ => false end.

Definition cp_mode_dot_h_before (h : heap) (r : href) (copy : bool) (x : operand (F:=F)) (mode : nat) (keep_dim : bool) : res (heap * nat) :=
  let opnd := deref h r in
  if guard h r mode then
    match cp_mode_dot Op (operand_w Op opnd) (operand_fs opnd) x mode keep_dim with
    | Err => Err
    | Ok (_, fs') =>
        let '(h1, fl1) := if copy then copy_list h (ref_fs h r) else (h, ref_fs h r) in
        let '(h1, wl1) := if copy then copy_w h1 (ref_w h r) else (h1, ref_w h r) in
        let ls := lst h1 fl1 in
        let h2 :=
          if is_contract x keep_dim then
            let ls' := remove_nth mode ls in
            let m' := pred mode in
            set_arr (set_lst h1 fl1 ls') (nth m' ls' 0) (nth m' fs' [])
          else
            let (h1a, l) := alloc_arr h1 (nth mode fs' []) in set_lst h1a fl1 (set_nth mode l ls) in
        match r with
        | RObject o =>
            if copy then new_obj h2 wl1 fl1
            else Ok (set_obj h2 o (mk_cell (cp_shape (read_fs h2 (lst h2 fl1))) (c_w (obj h2 o)) (c_fs (obj h2 o))), o)
        | RTuple _ _ => new_obj h2 wl1 fl1
        end
    end
  else Err.

(* THE CURRENT TREE (since /repo 93a737c): `factors[mode] = factors[mode] * factor` -- the product goes to a FRESH array and only the
   list cell is updated; everything else as in cp_mode_dot_h_before.  Which of the two variants the source has is read off its syntax
   tree on every run (harness: inplace_from_source); the theorems of Props/C04.v are about this one. *)
Definition cp_mode_dot_h (h : heap) (r : href) (copy : bool) (x : operand (F:=F)) (mode : nat) (keep_dim : bool) : res (heap * nat) :=
  let opnd := deref h r in
  if guard h r mode then
    match cp_mode_dot Op (operand_w Op opnd) (operand_fs opnd) x mode keep_dim with
    | Err => Err
    | Ok (_, fs') =>
        let '(h1, fl1) := if copy then copy_list h (ref_fs h r) else (h, ref_fs h r) in
        let '(h1, wl1) := if copy then copy_w h1 (ref_w h r) else (h1, ref_w h r) in
        let ls := lst h1 fl1 in
        let h2 :=
          if is_contract x keep_dim then
            let ls' := remove_nth mode ls in
            let m' := pred mode in
            let (h1a, l) := alloc_arr (set_lst h1 fl1 ls') (nth m' fs' []) in set_lst h1a fl1 (set_nth m' l ls')
          else
            let (h1a, l) := alloc_arr h1 (nth mode fs' []) in set_lst h1a fl1 (set_nth mode l ls) in
        match r with
        | RObject o =>
            if copy then new_obj h2 wl1 fl1
            else Ok (set_obj h2 o (mk_cell (cp_shape (read_fs h2 (lst h2 fl1))) (c_w (obj h2 o)) (c_fs (obj h2 o))), o)
        | RTuple _ _ => new_obj h2 wl1 fl1
        end
    end
  else Err.
Definition cp_mode_dot_h_src (inplace : bool) := if inplace then cp_mode_dot_h_before else cp_mode_dot_h.

(* ------------------------------------------------------------------ ownership vocabulary *)
(* the locations an object owns *)
Definition owned (h : heap) (o : nat) : list nat := c_w (obj h o) :: lst h (c_fs (obj h o)).
(* h' extends h: every location of h keeps its content *)
Definition extends (h h' : heap) : Prop :=
  (exists a, h_arr h' = h_arr h ++ a) /\ (exists l, h_lst h' = h_lst h ++ l) /\ (exists o, h_obj h' = h_obj h ++ o).
(* the references of an operand point into the heap *)
Definition wf_ref (h : heap) (r : href) : Prop :=
  ref_fs h r < length (h_lst h) /\
  (forall l, In l (lst h (ref_fs h r)) -> l < length (h_arr h)) /\
  (forall l, ref_w h r = Some l -> l < length (h_arr h)) /\
  (forall o, r = RObject o -> o < length (h_obj h)).


(* a history: every call has copy=True and takes as operand ANY tensor seen so far (the caller's own or an earlier result) *)
Fixpoint run_ops (h : heap) (refs : list href) (ops : list (nat * operand (F:=F) * nat * bool)) : res (heap * list href) :=
  match ops with
  | [] => Ok (h, refs)
  | (k, x, mode, kd) :: rest =>
      match nth_error refs k with
      | None => Err
      | Some r =>
          match cp_mode_dot_h h r true x mode kd with
          | Ok (h', o) => run_ops h' (refs ++ [RObject o]) rest
          | Err => Err
          end
      end
  end.

(* no caller-held array is clobbered silently: it keeps its value or belongs to the result *)
Definition no_silent_clobber (h h' : heap) (o : nat) : Prop :=
  forall l, l < length (h_arr h) -> arr h' l = arr h l \/ In l (owned h' o).
End H.

(* ------------------------------------------------------------------ tucker_mode_dot's copy flag (tensorly/tucker_tensor.py)
     copy=True : factors = [tl.copy(f) for f in factors]; core = tl.copy(core)
     contraction: f = factors.pop(mode)  (the list cell is updated -- the CALLER's list when copy=False);
                  core = mode_dot(core, dot(v, f), mode)  -- a fresh core
     otherwise  : factors[mode] = <fresh array>           (the list cell is updated)
     always a fresh TuckerTensor((core, factors)) naming the (possibly new) core and the list.
   No array and no core is ever overwritten.  Cores live in their own table. *)
Section HT.
Context {F : Type} (Op : fops F).
Record theap := mk_theap { t_core : list (tensor F); t_arr : list (mat F); t_lst : list (list nat) }.
Definition tarr (th : theap) (l : nat) : mat F := nth l (t_arr th) [].
Definition tlst (th : theap) (l : nat) : list nat := nth l (t_lst th) [].
Definition tcore (th : theap) (l : nat) : tensor F := nth l (t_core th) (mk [] []).
Definition tread (th : theap) (cl fl : nat) : tensor F * list (mat F) := (tcore th cl, map (tarr th) (tlst th fl)).
Definition twf (th : theap) (cl fl : nat) : Prop :=
  cl < length (t_core th) /\ fl < length (t_lst th) /\ forall l, In l (tlst th fl) -> l < length (t_arr th).
Definition tucker_mode_dot_h (th : theap) (cl fl : nat) (copy : bool) (x : operand (F:=F)) (mode : nat) (keep_dim : bool)
  : res (theap * (nat * nat)) :=
  match tucker_mode_dot Op (tcore th cl) (map (tarr th) (tlst th fl)) x mode keep_dim with
  | Err => Err
  | Ok (c', fs') =>
      let ls := tlst th fl in
      let th1 := if copy then mk_theap (t_core th ++ [tcore th cl]) (t_arr th ++ map (tarr th) ls)
                                       (t_lst th ++ [seq (length (t_arr th)) (length ls)]) else th in
      let cl1 := if copy then length (t_core th) else cl in
      let fl1 := if copy then length (t_lst th) else fl in
      let ls1 := tlst th1 fl1 in
      if is_contract x keep_dim then
        Ok (mk_theap (t_core th1 ++ [c']) (t_arr th1) (set_nth fl1 (remove_nth mode ls1) (t_lst th1)), (length (t_core th1), fl1))
      else
        Ok (mk_theap (t_core th1) (t_arr th1 ++ [nth mode fs' []]) (set_nth fl1 (set_nth mode (length (t_arr th1)) ls1) (t_lst th1)), (cl1, fl1))
  end.
End HT.

