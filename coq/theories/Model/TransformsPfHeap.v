(* C04, round 7: svd_decompress_parafac2_tensor and the caller's projection LIST (tensorly/preprocessing.py)
     weights, factors, projections = parafac2_tensor
     projections = projections.copy()                       -- a NEW list naming the same arrays
     for i, projection in enumerate(projections):
         if loading_matrices[i] is not None: projections[i] = matmul(loading_matrices[i], projection)   -- a fresh array
   Arrays and lists live at locations; allocation appends.  The operand's list is never written; entries without a loading keep
   naming the operand's arrays.  Definitions only. *)
From Coq Require Import List Arith Bool.
From TLV Require Import Base.Tensor Base.Ops Model.Transforms.
Import ListNotations.

Section PH.
Context {F : Type} (Op : fops F).
Record pheap := mk_pheap { p_arr : list (mat F); p_lst : list (list nat) }.
Definition parr (ph : pheap) (l : nat) : mat F := nth l (p_arr ph) [].
Definition plst (ph : pheap) (l : nat) : list nat := nth l (p_lst ph) [].
Definition pread (ph : pheap) (pl : nat) : list (mat F) := map (parr ph) (plst ph pl).
(* the loop: (fresh arrays in allocation order, the new list of locations); `next` is the next free array location *)
Fixpoint dec_h (base : list (mat F)) (next : nat) (locs : list nat) (Ls : list (option (mat F))) : list (mat F) * list nat :=
  match locs, Ls with
  | l :: locs', Some Lm :: Ls' => let '(a, ls) := dec_h base (S next) locs' Ls' in (matmul Op Lm (nth l base []) :: a, next :: ls)
  | l :: locs', None :: Ls' => let '(a, ls) := dec_h base next locs' Ls' in (a, l :: ls)
  | _, _ => ([], [])
  end.
Definition svd_decompress_h (ph : pheap) (pl : nat) (Ls : list (option (mat F))) : res (pheap * nat) :=
  if length (plst ph pl) <=? length Ls then
    let '(a, ls) := dec_h (p_arr ph) (length (p_arr ph)) (plst ph pl) Ls in
    Ok (mk_pheap (p_arr ph ++ a) (p_lst ph ++ [ls]), length (p_lst ph))
  else Err.
End PH.
