(* C04, round 8: Parafac2Tensor OBJECTS as heap cells.
     tensorly/parafac2_tensor.py  Parafac2Tensor.__init__ (validate, cache shape / rank, keep the caller's weights, factor tuple and
                                  projection list), __getitem__ / __iter__ (weights, factors, projections); the class has no
                                  __setitem__ and no mutating method
     tensorly/preprocessing.py    svd_decompress_parafac2_tensor(obj, loading_matrices): the object is unpacked to its three references,
                                  the projection LIST is copied and updated (Model/TransformsPfHeap.v), and
                                  Parafac2Tensor((weights, factors, projections)) builds the result -- which therefore names the
                                  operand's OWN weights array and factor tuple next to a new projection list
   An object cell caches shape and rank and NAMES a weights location, a factor-tuple location and a projection-list location.
   Definitions only. *)
From Coq Require Import List Arith Bool.
From TLV Require Import Base.Tensor Base.Ops Model.Transforms Model.TransformsApi Model.TransformsPfHeap.
Import ListNotations.

Section PO.
Context {F : Type} (Op : fops F) (close : F -> F -> bool).
Record pcell := mk_pcell { pc_shape : list (list nat); pc_rank : nat; pc_w : nat; pc_fs : nat; pc_ps : nat }.
(* weights arrays, factor tuples (A, B, C), and the arrays / lists of the projections *)
Record poheap := mk_poheap { po_w : list (list F); po_fs : list (list (mat F)); po_ph : pheap (F:=F) }.
Definition pcellr (cells : list pcell) (o : nat) : pcell := nth o cells (mk_pcell [] 0 0 0 0).
Definition po_read (h : poheap) (wl fl pl : nat) : list F * list (mat F) * list (mat F) :=
  (nth wl (po_w h) [], nth fl (po_fs h) [], pread (po_ph h) pl).
(* what object o holds now, through its references *)
Definition pobj_read (h : poheap) (cells : list pcell) (o : nat) : list F * list (mat F) * list (mat F) :=
  let c := pcellr cells o in po_read h (pc_w c) (pc_fs c) (pc_ps c).
(* the cached attributes describe what the object holds, and that passes _validate_parafac2_tensor *)
Definition pobj_consistent (h : poheap) (cells : list pcell) (o : nat) : Prop :=
  let '(w, fs, Ps) := pobj_read h cells o in
  pf2_validb Op close (Some w) fs Ps = true /\ pc_shape (pcellr cells o) = pf2_shape fs Ps /\ pc_rank (pcellr cells o) = cp_rank fs.
(* the projection list of a cell points into the tables *)
Definition pcell_wf (h : poheap) (c : pcell) : Prop :=
  pc_ps c < length (p_lst (po_ph h)) /\ (forall l, In l (plst (po_ph h) (pc_ps c)) -> l < length (p_arr (po_ph h))).

(* Parafac2Tensor((weights, factors, projections)), weights given: validate, cache, a new cell naming the SAME three locations *)
Definition pf2_new_h (h : poheap) (cells : list pcell) (wl fl pl : nat) : res (list pcell * nat) :=
  let '(w, fs, Ps) := po_read h wl fl pl in
  if pf2_validb Op close (Some w) fs Ps then Ok (cells ++ [mk_pcell (pf2_shape fs Ps) (cp_rank fs) wl fl pl], length cells) else Err.

(* obj[idx] / iter(obj): the locations handed out *)
Definition pf2_getitem_h (cells : list pcell) (o idx : nat) : res nat :=
  let c := pcellr cells o in
  match idx with 0 => Ok (pc_w c) | 1 => Ok (pc_fs c) | 2 => Ok (pc_ps c) | _ => Err end.

(* svd_decompress_parafac2_tensor(obj, Ls) *)
Definition svd_decompress_obj_h (h : poheap) (cells : list pcell) (o : nat) (Ls : list (option (mat F))) : res (poheap * list pcell * nat) :=
  let c := pcellr cells o in
  match svd_decompress_h Op (po_ph h) (pc_ps c) Ls with
  | Err => Err
  | Ok (ph', pl') =>
      let h' := mk_poheap (po_w h) (po_fs h) ph' in
      match pf2_new_h h' cells (pc_w c) (pc_fs c) pl' with Ok (cells', o') => Ok (h', cells', o') | Err => Err end
  end.
End PO.
