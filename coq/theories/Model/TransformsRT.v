(* C04, round 7: the documented compress -> fit -> decompress pipeline of tensorly/preprocessing.py as ONE function of the
   whole slice list (slices of mixed heights: those with at most rank_limit rows pass through with loading None, the others
   are compressed):
     scores, loadings = svd_compress_tensor_slices(slices, threshold, max_rank)
     (w, (A, B, C), Qs) = a PARAFAC2 tensor fitted to the scores              (data)
     svd_decompress_parafac2_tensor((w, (A, B, C), Qs), loadings)
   Definitions only. *)
From Coq Require Import List Arith Bool.
From TLV Require Import Base.Tensor Base.Ops Model.Transforms.
Import ListNotations.

Section RT.
Context {F : Type} (Op : fops F).
Definition rank_limit (slices : list (mat F)) (max_rank : option nat) : nat :=
  let nc := ncols (hd [] slices) in match max_rank with Some m => Nat.min nc m | None => nc end.
Definition compress_then_decompress (slices : list (mat F)) (thr : F) (max_rank : option nat) (tapes : list (mat F * list F * mat F))
  (w : list F) (A B C : mat F) (Qs : list (mat F)) : res (list F * list (mat F) * list (mat F)) :=
  svd_decompress Op w A B C Qs (map snd (svd_compress Op slices thr max_rank tapes)).
(* which slices were compressed *)
Definition compressed_flags (slices : list (mat F)) (thr : F) (max_rank : option nat) (tapes : list (mat F * list F * mat F)) : list bool :=
  map (fun p => match snd p with Some _ => true | None => false end) (svd_compress Op slices thr max_rank tapes).
End RT.
