(* C04, round 7: TuckerTensor OBJECTS on the heap of Model/TransformsHeap.v (Section HT: tables of cores, arrays and factor lists).
     tensorly/tucker_tensor.py  TuckerTensor.__init__ (validate, cache shape / rank, keep the caller's core and list),
                                TuckerTensor.mode_dot (= tucker_mode_dot(self, ...)), TuckerTensor.normalize
                                (self.core, self.factors = tucker_normalize(self): IN PLACE, attributes untouched),
                                TuckerTensor.tucker_copy, TuckerTensor.__setitem__
   An object cell caches shape and rank and NAMES a core location and a list location: what the object represents is read through
   these references, so updating the caller's list (tucker_mode_dot with copy=False pops / replaces an entry of the operand's own
   list) changes what the operand object holds while its cached attributes stay.  Definitions only. *)
From Coq Require Import List Arith Bool ZArith.
From TLV Require Import Base.Shape Base.PyList Base.Tensor Base.Ops Model.Transforms Model.TransformsApi Model.TransformsHeap.
Import ListNotations.

Section TO.
Context {F : Type} (Op : fops F).
Record tcell := mk_tcell { tc_shape : list nat; tc_rank : list nat; tc_core : nat; tc_fs : nat }.
Definition tcellr (cells : list tcell) (o : nat) : tcell := nth o cells (mk_tcell [] [] 0 0).
(* what object o holds now, through its references *)
Definition tobj_read (th : theap (F:=F)) (cells : list tcell) (o : nat) : tensor F * list (mat F) :=
  tread th (tc_core (tcellr cells o)) (tc_fs (tcellr cells o)).
(* the cached attributes describe what the object holds, and that is a valid Tucker tensor *)
Definition tobj_consistent (th : theap (F:=F)) (cells : list tcell) (o : nat) : Prop :=
  let '(c, fs) := tobj_read th cells o in
  tucker_okb c fs = true /\ tc_shape (tcellr cells o) = cp_shape fs /\ tc_rank (tcellr cells o) = map (fun A => ncols A) fs.
(* the references of a cell point into the tables *)
Definition tcell_wf (th : theap (F:=F)) (c : tcell) : Prop := twf th (tc_core c) (tc_fs c).

(* TuckerTensor((core, factors)): _validate_tucker_tensor, then a new cell naming the SAME core and list *)
Definition tucker_new_h (th : theap (F:=F)) (cells : list tcell) (cl fl : nat) : res (list tcell * nat) :=
  let '(c, fs) := tread th cl fl in
  if tucker_okb c fs then Ok (cells ++ [mk_tcell (cp_shape fs) (map (fun A => ncols A) fs) cl fl], length cells) else Err.

(* obj.mode_dot(x, mode, keep_dim, copy) = tucker_mode_dot(self, ...): self is unpacked to its core and ITS list, the product runs on the
   heap (tucker_mode_dot_h), TuckerTensor((core, factors)) builds the result object.  The operand's cell is never written. *)
Definition tucker_mode_dot_method_h (th : theap (F:=F)) (cells : list tcell) (o : nat) (copy : bool) (x : operand (F:=F)) (mode : nat) (keep_dim : bool)
  : res (theap (F:=F) * list tcell * nat) :=
  let c := tcellr cells o in
  match tucker_mode_dot_h Op th (tc_core c) (tc_fs c) copy x mode keep_dim with
  | Err => Err
  | Ok (th', (cl', fl')) =>
      match tucker_new_h th' cells cl' fl' with Ok (cells', o') => Ok (th', cells', o') | Err => Err end
  end.

(* obj.normalize(): `self.core, self.factors = tucker_normalize(self)` -- tucker_normalize builds a fresh core, fresh factor arrays and
   a fresh list (tape = the column norms, data); the object's core / factors references are re-bound, shape and rank are not touched.
   Returns None. *)
Definition tucker_normalize_method_h (tape : list (list F)) (th : theap (F:=F)) (cells : list tcell) (o : nat) : res (theap (F:=F) * list tcell) :=
  let c := tcellr cells o in
  let '(core, fs) := tobj_read th cells o in
  match tucker_normalize_bc Op tape core fs with
  | Err => Err
  | Ok r =>
      Ok (mk_theap (t_core th ++ [tko_core r]) (t_arr th ++ tko_fs r) (t_lst th ++ [seq (length (t_arr th)) (length (tko_fs r))]),
          set_nth o (mk_tcell (tc_shape c) (tc_rank c) (length (t_core th)) (length (t_lst th))) cells)
  end.

(* obj.tucker_copy(): copies of the core and of every factor in a new list, through the validating constructor *)
Definition tucker_copy_h (th : theap (F:=F)) (cells : list tcell) (o : nat) : res (theap (F:=F) * list tcell * nat) :=
  let '(core, fs) := tobj_read th cells o in
  let th' := mk_theap (t_core th ++ [core]) (t_arr th ++ fs) (t_lst th ++ [seq (length (t_arr th)) (length fs)]) in
  match tucker_new_h th' cells (length (t_core th)) (length (t_lst th)) with Ok (cells', o') => Ok (th', cells', o') | Err => Err end.

(* obj[0] = <core at loc> / obj[1] = <list at loc>: the reference is re-bound, shape and rank are not refreshed *)
Definition tucker_setitem_h (cells : list tcell) (o idx loc : nat) : res (list tcell) :=
  let c := tcellr cells o in
  match idx with
  | 0 => Ok (set_nth o (mk_tcell (tc_shape c) (tc_rank c) loc (tc_fs c)) cells)
  | 1 => Ok (set_nth o (mk_tcell (tc_shape c) (tc_rank c) (tc_core c) loc) cells)
  | _ => Err
  end.
End TO.
