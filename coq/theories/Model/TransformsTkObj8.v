(* C04, round 8: the remaining TuckerTensor container methods on the object cells of Model/TransformsTkObj.v
     tensorly/tucker_tensor.py  TuckerTensor.__getitem__ (0 -> core, 1 -> factors, otherwise IndexError),
                                TuckerTensor.__iter__ (core, then factors: what `core, factors = obj` unpacks), __len__
   (item assignment for BOTH indices is tucker_setitem_h of Model/TransformsTkObj.v).  Definitions only. *)
From Coq Require Import List Arith Bool.
From TLV Require Import Base.Tensor Model.TransformsTkObj.
Import ListNotations.

(* obj[idx]: the LOCATION the object names (a reference is handed out, nothing is copied) *)
Definition tucker_getitem_h (cells : list tcell) (o idx : nat) : res nat :=
  let c := tcellr cells o in
  match idx with
  | 0 => Ok (tc_core c)
  | 1 => Ok (tc_fs c)
  | _ => Err
  end.
(* iter(obj): the references in the order they are yielded *)
Definition tucker_iter_h (cells : list tcell) (o : nat) : list nat :=
  let c := tcellr cells o in [tc_core c; tc_fs c].
Definition tucker_len_h : nat := 2.
