(* C14 -- model of the warm-start / fixed-mode machinery of
     tensorly/decomposition/_cp.py        initialize_cp (tuple/list/CPTensor branch), parafac
     tensorly/decomposition/_nn_cp.py     non_negative_parafac, non_negative_parafac_hals
     tensorly/decomposition/_constrained_cp.py  initialize_constrained_parafac, constrained_parafac
     tensorly/decomposition/_tucker.py    tucker (fixed_factors absorb / re-insert), non_negative_tucker_hals
     tensorly/parafac2_tensor.py          Parafac2Tensor.from_CPTensor
   Definitions only.  Part 1 is arithmetic over explicit ring operations (instantiated at Z for the
   correspondence, at an abstract ring for the theorems); part 2 is the control skeleton, polymorphic
   in the type of a factor and in the update / stopping functions (they are arbitrary functions of the
   whole history, so a theorem about the skeleton covers every numerical update rule). *)
From Coq Require Import List Arith Bool.
From TLV Require Import Base.Shape Base.PyList Base.Tensor Base.BigSum.
Import ListNotations.

(* ------------------------------------------------------------------ part 1: arithmetic *)
Section Arith.
  Context {F : Type} (zero one : F) (add mul : F -> F -> F) (eqb : F -> F -> bool).

  Definition matrix := list (list F).                       (* list of rows *)
  Definition mget (A : matrix) (i r : nat) : F := nth r (nth i A []) zero.
  Definition ones (R : nat) : list F := repeat one R.

  (* prod_k A_k[idx_k, r] *)
  Fixpoint fprod (fs : list matrix) (idx : list nat) (r : nat) : F :=
    match fs with
    | [] => one
    | A :: fs' => mul (mget A (hd 0 idx) r) (fprod fs' (tl idx) r)
    end.

  (* entry idx of the tensor represented by the CP tensor (w; fs) of rank R *)
  Definition cp_entry (R : nat) (w : list F) (fs : list matrix) (idx : list nat) : F :=
    bigsum F zero add R (fun r => mul (nth r w zero) (fprod fs idx r)).

  Definition cp_shape (fs : list matrix) : list nat := map (@length (list F)) fs.
  Definition cp_dense (R : nat) (w : list F) (fs : list matrix) : tensor F :=
    tabulate (cp_shape fs) (cp_entry R w fs).

  (* factor * reshape(weights, (1, -1)) : column r multiplied by w_r *)
  Definition zipmul (row w : list F) : list F := map (fun p => mul (fst p) (snd p)) (combine row w).
  Definition scale_cols (A : matrix) (w : list F) : matrix := map (fun row => zipmul row w) A.

  (* factors[-1] = factors[-1] * reshape(weights, (1, -1)) *)
  Fixpoint absorb_last (w : list F) (fs : list matrix) : list matrix :=
    match fs with
    | [] => []
    | [A] => [scale_cols A w]
    | A :: fs' => A :: absorb_last w fs'
    end.
  (* factors[k] = factors[k] * reshape(weights, (1, -1))   (PARAFAC2 absorbs into factor 1) *)
  Definition absorb_at (k : nat) (w : list F) (fs : list matrix) : list matrix :=
    set_nth k (scale_cols (nth k fs []) w) fs.

  Definition all_ones (w : list F) : bool := forallb (fun x => eqb x one) w.

  (* initialize_cp / initialize_constrained_parafac, branch isinstance(init, (tuple, list, CPTensor)):
       kt = CPTensor(init)                      -- weights None become ones(rank)
       if not tl.all(weights == 1): factors[-1] = factors[-1] * reshape(weights, (1,-1))
       return CPTensor((None, factors))         -- weights are ones again *)
  Definition init_cp (R : nat) (w : option (list F)) (fs : list matrix) : list F * list matrix :=
    let w' := match w with None => ones R | Some v => v end in
    if all_ones w' then (ones R, fs) else (ones R, absorb_last w' fs).

  (* ... and since commit 3de556b, `if normalize_factors: kt = cp_normalize(kt)` before returning (default False);
     cp_normalize is an arbitrary function here (it divides by norms: outside the ring regime) *)
  Definition init_cp_norm (normalize : bool) (normf : list F * list matrix -> list F * list matrix)
      (R : nat) (w : option (list F)) (fs : list matrix) : list F * list matrix :=
    if normalize then normf (init_cp R w fs) else init_cp R w fs.

  (* the defect repaired by commit f5af379, kept as an executable foil for the correspondence's
     sensitivity self-test: weights absorbed into EVERY factor *)
  Definition init_cp_every (R : nat) (w : list F) (fs : list matrix) : list F * list matrix :=
    (ones R, map (fun A => scale_cols A w) fs).

  (* --- Tucker: mode-n product, absorb / re-extract of fixed factors into the core *)
  Definition transpose_m (rows cols : nat) (A : matrix) : matrix :=
    map (fun j => map (fun i => mget A i j) (seq 0 rows)) (seq 0 cols).
  Definition ncols (A : matrix) : nat := length (hd [] A).

  (* mode_dot(t, M, mode): out[.., i, ..] = sum_j M[i,j] * t[.., j, ..] *)
  Definition mode_dot (t : tensor F) (M : matrix) (mode : nat) : tensor F :=
    tabulate (set_nth mode (length M) (shape t))
             (fun idx => bigsum F zero add (nth mode (shape t) 0)
                           (fun j => mul (mget M (nth mode idx 0) j) (get zero t (set_nth mode j idx)))).
  Definition multi_mode_dot (t : tensor F) (Ms : list matrix) (modes : list nat) : tensor F :=
    fold_left (fun acc p => mode_dot acc (fst p) (snd p)) (combine Ms modes) t.
  Definition multi_mode_dot_T (t : tensor F) (Ms : list matrix) (modes : list nat) : tensor F :=
    fold_left (fun acc p => mode_dot acc (transpose_m (length (fst p)) (ncols (fst p)) (fst p)) (snd p))
              (combine Ms modes) t.

  Definition tucker_entry_dense (core : tensor F) (fs : list matrix) : tensor F :=
    multi_mode_dot core fs (seq 0 (length fs)).

  (* specification predicate: the first c columns of A are orthonormal, A^T A = I_c *)
  Definition orthonormal_cols (c : nat) (A : matrix) : Prop :=
    forall i j, i < c -> j < c ->
      bigsum F zero add (length A) (fun k => mul (mget A k i) (mget A k j)) = if Nat.eqb i j then one else zero.

  (* --- PARAFAC2: entry (i,j,k) of the tensor represented by (w; A, B, C; P_i) :
         X_i = P_i B diag(w * a_i) C^T *)
  Definition p2_entry (R : nat) (w : list F) (A B C : matrix) (P : list matrix) (i j k : nat) : F :=
    bigsum F zero add R (fun r =>
      mul (nth r w zero)
          (mul (mget A i r)
               (mul (bigsum F zero add R (fun s => mul (mget (nth i P []) j s) (mget B s r))) (mget C k r)))).
  Definition p2_dense (R : nat) (w : list F) (A B C : matrix) (P : list matrix) (J : nat) : tensor F :=
    tabulate [length A; J; length C]
             (fun idx => p2_entry R w A B C P (nth 0 idx 0) (nth 1 idx 0) (nth 2 idx 0)).
End Arith.

(* the line-search candidate of parafac, entrywise: last + (cur - last) * jump *)
Section LineSearch.
  Context {F : Type} (add sub mul : F -> F -> F).
  Definition ls_entry (jump l c : F) : F := add l (mul (sub c l) jump).
  Definition ls_vec (jump : F) (l c : list F) : list F := map (fun p => ls_entry jump (fst p) (snd p)) (combine l c).
  Definition ls_mat (jump : F) (L C : list (list F)) : list (list F) := map (fun p => ls_vec jump (fst p) (snd p)) (combine L C).
End LineSearch.

(* ------------------------------------------------------------------ part 2: control skeleton *)
Fixpoint list_eqb (a b : list nat) : bool :=
  match a, b with [], [] => true | x :: a', y :: b' => Nat.eqb x y && list_eqb a' b' | _, _ => false end.

(* Python's list.remove: the FIRST occurrence *)
Fixpoint remove_first (x : nat) (l : list nat) : list nat :=
  match l with [] => [] | y :: r => if Nat.eqb y x then r else y :: remove_first x r end.

Inductive algo := Parafac | NNParafac | NNHals | Constrained | NTDHals.

(* `if set(fixed_modes) == set(range(ndim)): return CPTensor((weights, factors))`  -- only in parafac; a set comparison since
   commit adc0083 (before: `fixed_modes == list(range(ndim))`, which recognised only the list in increasing order) *)
Definition names_every_mode (fixed : list nat) (n : nat) : bool :=
  forallb (fun i => memb i fixed) (seq 0 n) && forallb (fun m => Nat.ltb m n) fixed.
Definition shortcut (a : algo) : bool := match a with Parafac => true | _ => false end.
(* `if ndim - 1 in fixed_modes: warn; fixed_modes.remove(ndim - 1)`  -- everywhere but HALS-CP *)
Definition drops_last (a : algo) : bool := match a with NNHals => false | _ => true end.
(* the error computation after a sweep reads a variable bound inside the mode loop (mttkrp /
   pseudo_inverse); with an empty mode list and a positive budget the call raises *)
Definition needs_mode (a : algo) (tol : bool) : bool :=
  match a with Constrained | NTDHals => true | _ => tol end.
(* `if not modes: return CPTensor((weights, factors))` -- non_negative_parafac_hals (the only CP variant that can be left
   without a mode to update by a duplicate-free request, because it does not un-fix the last mode); commit c3946df *)
Definition empty_returns (a : algo) : bool := match a with NNHals => true | _ => false end.
(* non_negative_parafac re-normalises inside the sweep (after every mode but the last) *)
Definition inner_norm (a : algo) : bool := match a with NNParafac | NNHals => true | _ => false end.

Definition eff_fixed (a : algo) (n : nat) (fixed : list nat) : list nat :=
  if drops_last a && memb (n - 1) fixed then remove_first (n - 1) fixed else fixed.
(* modes_list = [mode for mode in range(ndim) if mode not in fixed_modes] *)
Definition modes_list (a : algo) (n : nat) (fixed : list nat) : list nat :=
  filter (fun m => negb (memb m (eff_fixed a n fixed))) (seq 0 n).

(* non_negative_parafac_hals, before calling initialize_cp (commit 3d55b5c): when init is a user CP tensor and the last mode is
   fixed, `free_modes = [mode for mode in range(n_modes) if mode not in fixed_modes]` and
     if free_modes and not all(init_weights == 1): init_factors[free_modes[-1]] *= reshape(init_weights, (1, -1)); init = (None, init_factors)
   i.e. the weights go into the last UPDATED mode and the fixed last factor is left as supplied *)
Section HalsInit.
  Context {F : Type} (one : F) (mul : F -> F -> F) (eqb : F -> F -> bool).
  Definition init_hals (R n : nat) (fixed : list nat) (w : option (list F)) (fs : list (@matrix F)) : list F * list (@matrix F) :=
    let w' := match w with None => ones one R | Some v => v end in
    let free := modes_list NNHals n fixed in
    if memb (n - 1) fixed && negb (Nat.eqb (length free) 0) && negb (all_ones one eqb w')
    then init_cp one mul eqb R None (absorb_at mul (last free 0) w' fs)
    else init_cp one mul eqb R w fs.
End HalsInit.

(* the hooks below exist in parafac only (orthogonalise, linesearch; mask / sparsity live in the error computation) *)
Definition has_hooks (a : algo) : bool := match a with Parafac => true | _ => false end.

Definition map2 {A B C} (f : A -> B -> C) (l1 : list A) (l2 : list B) : list C :=
  map (fun p => f (fst p) (snd p)) (combine l1 l2).

Section Skel.
  (* a factor; the weight vector; everything else the loop carries from step to step: the (mask-imputed) data tensor and
     its norm, the error history, the sparse component, ADMM's auxiliary and dual variables, the line search's
     acceleration state.  Every function below may read the whole state, so a statement about the skeleton covers every
     history-dependent numerical rule. *)
  Context {M W X : Type}.
  Record st := mkst { wts : W; facs : list M; aux : X }.

  Variable upd : nat -> nat -> st -> M * X.   (* iteration, mode, whole current state |-> new factor, new bookkeeping *)
  Variable stop : nat -> st -> bool.          (* convergence / callback decision after a sweep *)
  Variable normf : st -> st.                  (* cp_normalize / tucker_normalize *)
  Variable normalize : bool.                  (* normalize_factors (default False) *)
  (* parafac: `if orthogonalise and iteration <= orthogonalise: factors = [tl.qr(f)[0] if min(tl.shape(f)) >= rank and
     i not in fixed_modes else f for i, f in enumerate(factors)]` (commit ef1ea18 added the fixed_modes condition):
     `pre it i s` is the replacement of factor i, an arbitrary function of the state before the hook *)
  Variable pre : nat -> nat -> st -> M.
  Variable pre_on : nat -> bool.
  (* after the sweep: error_calc (mask imputation `tensor*mask + rec*(1-mask)`, norm, sparse component, rec_errors) *)
  Variable post : nat -> st -> X.
  (* parafac line search: `line_iter = linesearch and iteration % 2 == 0 and iteration > 5`; the candidate is
       new_weights = weights_last + (weights - weights_last) * jump
       new_factors = [factors_last[ii] + (factors[ii] - factors_last[ii]) * jump for ii in range(ndim)]
     where *_last are the copies taken at the start of the same iteration; accepted iff its error is smaller *)
  Variable ls_on : nat -> bool.
  Variable ls_accept : nat -> st -> st -> bool.
  Variable lsf : nat -> st -> M -> M -> M.    (* iteration, current state (jump), last, current *)
  Variable lsw : nat -> st -> W -> W -> W.
  Variable lsx : nat -> st -> st -> X.

  Definition set_fac (s : st) (m : nat) (r : M * X) : st := mkst (wts s) (set_nth m (fst r) (facs s)) (snd r).

  Definition step (a : algo) (it : nat) (ml : list nat) (s : st) (m : nat) : st :=
    let s1 := set_fac s m (upd it m s) in
    if normalize && inner_norm a && negb (Nat.eqb m (last ml 0)) then normf s1 else s1.
  Definition sweep (a : algo) (it : nat) (ml : list nat) (s : st) : st := fold_left (step a it ml) ml s.

  Fixpoint pre_apply (g : nat -> M) (free : nat -> bool) (off : nat) (fs : list M) : list M :=
    match fs with [] => [] | f :: r => (if free off then g off else f) :: pre_apply g free (S off) r end.
  Definition pre_state (free : nat -> bool) (it : nat) (s : st) : st :=
    mkst (wts s) (pre_apply (fun i => pre it i s) free 0 (facs s)) (aux s).

  Definition ls_point (it : nat) (s0 s1 : st) : st :=
    mkst (lsw it s1 (wts s0) (wts s1)) (map2 (lsf it s1) (facs s0) (facs s1)) (lsx it s0 s1).

  Fixpoint iterate (a : algo) (free : nat -> bool) (budget it : nat) (ml : list nat) (s : st) : st :=
    match budget with
    | 0 => s
    | S b => let s0 := if has_hooks a && pre_on it then pre_state free it s else s in
             let sw := sweep a it ml s0 in
             let s1 := mkst (wts sw) (facs sw) (post it sw) in
             let s2 := if has_hooks a && ls_on it && ls_accept it s0 s1 then ls_point it s0 s1 else s1 in
             let s3 := if normalize then normf s2 else s2 in
             if stop it s3 then s3 else iterate a free b (S it) ml s3
    end.

  Definition run (a : algo) (n : nat) (fixed : list nat) (budget : nat) (tol : bool) (s : st) : res st :=
    if shortcut a && names_every_mode fixed n then Ok s
    else let ml := modes_list a n fixed in
         if empty_returns a && Nat.eqb (length ml) 0 then Ok s
         else if needs_mode a tol && Nat.ltb 0 budget && Nat.eqb (length ml) 0 then Err
         else Ok (iterate a (fun i => negb (memb i (eff_fixed a n fixed))) budget 0 ml s).
End Skel.
Arguments st : clear implicits.

(* the set of modes a run may have assigned (what the harness observes as "bytes changed") *)
Definition touched (a : algo) (n : nat) (fixed : list nat) (budget : nat) (tol : bool) : res (list nat) :=
  if shortcut a && names_every_mode fixed n then Ok []
  else let ml := modes_list a n fixed in
       if empty_returns a && Nat.eqb (length ml) 0 then Ok []
       else if needs_mode a tol && Nat.ltb 0 budget && Nat.eqb (length ml) 0 then Err
       else Ok (if Nat.eqb budget 0 then [] else ml).

(* ------------------------------------------------------------------ tucker(fixed_factors=...) list surgery *)
Section TuckerLists.
  Context {M : Type}.
  Fixpoint insert_sorted (x : nat) (l : list nat) : list nat :=
    match l with [] => [x] | y :: r => if Nat.leb x y then x :: l else y :: insert_sorted x r end.
  Definition py_sorted (l : list nat) : list nat := fold_right insert_sorted [] l.

  (* the two zip-star comprehensions over enumerate(factors): `if i in fixed` and `if i not in fixed` *)
  Fixpoint pick (keep : nat -> bool) (off : nat) (fs : list M) : list (nat * M) :=
    match fs with [] => [] | f :: r => if keep off then (off, f) :: pick keep (S off) r else pick keep (S off) r end.

  (* for i, e in enumerate(fixed_factors): factors.insert(e, factors_fixed[i]) ; IndexError if too few *)
  Fixpoint reinsert (es : list nat) (fx : list M) (l : list M) : res (list M) :=
    match es, fx with
    | [], _ => Ok l
    | e :: es', f :: fx' => reinsert es' fx' (insert_at e f l)
    | _ :: _, [] => Err
    end.

  (* the list part of tucker(..., fixed_factors): `partial` stands for partial_tucker on the free modes *)
  Definition tucker_fixed_lists (fixed : list nat) (fs : list M) (partial : list nat -> list M -> list M) : res (list M) :=
    let fx := py_sorted fixed in
    (* `if all(i in fixed_factors for i in range(len(factors))): return TuckerTensor((core, list(factors)))`  (commit b6b5914) *)
    if forallb (fun i => memb i fx) (seq 0 (length fs)) then Ok fs else
    let fixedp := pick (fun i => memb i fx) 0 fs in
    let freep := pick (fun i => negb (memb i fx)) 0 fs in
    match freep with
    | [] => Err                                  (* unpacking `modes, factors` from an empty zip would raise: unreachable now *)
    | _ => reinsert fx (map snd fixedp) (partial (map fst freep) (map snd freep))
    end.
End TuckerLists.

(* ------------------------------------------------------------------ tucker(fixed_factors=...), the whole function
     fixed_factors = sorted(fixed_factors)
     if all(i in fixed_factors for i in range(len(factors))): return TuckerTensor((core, list(factors)))
     modes_fixed, factors_fixed = zip-star of [(i, f) for (i, f) in enumerate(factors) if i in fixed_factors]
     core = multi_mode_dot(core, factors_fixed, modes=modes_fixed)
     modes, factors = zip-star of [(i, f) for (i, f) in enumerate(factors) if i not in fixed_factors]
     (core, new_factors), _ = partial_tucker(tensor, rank, modes, init=(core, list(factors)), ...)
     factors = list(new_factors); for i, e in enumerate(fixed_factors): factors.insert(e, factors_fixed[i])
     core = multi_mode_dot(core, factors_fixed, modes=modes_fixed, transpose=True)
   `pt` stands for partial_tucker on the free modes (an arbitrary function of the absorbed core, the free modes and
   the free factors; with a zero budget it returns its initialisation). *)
Section TuckerFull.
  Context {F : Type} (zero : F) (add mul : F -> F -> F).
  Definition tucker_fixed (core : tensor F) (fs : list (@matrix F)) (fixed : list nat)
      (pt : tensor F -> list nat -> list (@matrix F) -> tensor F * list (@matrix F)) : res (tensor F * list (@matrix F)) :=
    let fx := py_sorted fixed in
    if forallb (fun i => memb i fx) (seq 0 (length fs)) then Ok (core, fs) else
    let fixedp := pick (fun i => memb i fx) 0 fs in
    let freep := pick (fun i => negb (memb i fx)) 0 fs in
    match freep with
    | [] => Err
    | _ => let c1 := multi_mode_dot zero add mul core (map snd fixedp) (map fst fixedp) in
           let r := pt c1 (map fst freep) (map snd freep) in
           match reinsert fx (map snd fixedp) (snd r) with
           | Err => Err
           | Ok out => Ok (multi_mode_dot_T zero add mul (fst r) (map snd fixedp) (map fst fixedp), out)
           end
    end.
  (* partial_tucker with n_iter_max = 0 *)
  Definition pt_zero (c : tensor F) (modes : list nat) (free : list (@matrix F)) := (c, free).

  (* initialize_tucker, branch `(core, factors) = init`, followed by
       if non_negative is True: factors = [tl.abs(f) for f in factors]; core = tl.abs(core)
     (non_negative_tucker and non_negative_tucker_hals pass non_negative=True, tucker/partial_tucker do not) *)
  Definition abs_mat (fabs : F -> F) (A : @matrix F) : @matrix F := map (map fabs) A.
  Definition abs_tensor (fabs : F -> F) (t : tensor F) : tensor F := mk (shape t) (map fabs (data t)).
  Definition tucker_init (non_negative : bool) (fabs : F -> F) (core : tensor F) (fs : list (@matrix F))
    : tensor F * list (@matrix F) :=
    if non_negative then (abs_tensor fabs core, map (abs_mat fabs) fs) else (core, fs).
End TuckerFull.

(* ------------------------------------------------------------------ PARAFAC2
   initialize_decomposition, branch isinstance(init, (tuple, list, Parafac2Tensor, CPTensor)):
     decomposition = Parafac2Tensor.from_CPTensor(init, parafac2_tensor_ok=True)
        -- three components: taken as a Parafac2Tensor as it is
        -- two components (weights, (A, B, C)): Q, R = qr(B); projections = [Q] * A.shape[0]; B = R
     if decomposition.rank != rank: raise ValueError
   `qr` is the LAPACK call (an answer tape in the correspondence, a function with the contract Q R = B in the theorems). *)
Section P2Init.
  Context {F : Type} (one : F).
  Inductive p2init :=
  | FromCP (w : option (list F)) (fs : list (@matrix F))
  | FromP2 (w : option (list F)) (fs : list (@matrix F)) (P : list (@matrix F)).
  Record p2st {PT : Type} := mkp2 { p2w : list F; p2f : list (@matrix F); p2P : PT }.
  Arguments p2st : clear implicits.
  Definition rank_of (fs : list (@matrix F)) : nat := ncols (hd [] fs).
  Definition dflt_w (R : nat) (w : option (list F)) : list F := match w with Some v => v | None => ones one R end.
  Definition p2_init (qr : @matrix F -> @matrix F * @matrix F) (rank : nat) (init : p2init)
    : res (p2st (list (@matrix F))) :=
    let chk := fun s : p2st (list (@matrix F)) => if Nat.eqb (rank_of (p2f s)) rank then Ok s else Err in
    match init with
    | FromP2 w fs P => chk (mkp2 _ (dflt_w (rank_of fs) w) fs P)
    | FromCP w [A; B; C] => let QR := qr B in
                            chk (mkp2 _ (dflt_w (rank_of [A]) w) [A; snd QR; C] (repeat (fst QR) (length A)))
    | FromCP _ _ => Err
    end.
End P2Init.
Arguments p2st : clear implicits.
Arguments p2init : clear implicits.
Arguments mkp2 {F PT}.

(* the main loop of parafac2: every iteration starts with
     factors[1] = factors[1] * reshape(weights, (1, -1)); weights = ones(weights.shape)
   then projections and factors are recomputed (`upd`: SVDs + inner parafac sweeps + line search: an arbitrary
   function of the absorbed state), optionally normalised, and the stopping rule is consulted. *)
Section P2Skel.
  Context {F : Type} (one : F) (mul : F -> F -> F) {PT : Type}.
  Variable upd : nat -> p2st F PT -> list (@matrix F) * PT.
  Variable stop : nat -> p2st F PT -> bool.
  Variable normf : p2st F PT -> p2st F PT.
  Variable normalize : bool.

  Definition p2_absorb (R : nat) (s : p2st F PT) : p2st F PT :=
    mkp2 (ones one R) (absorb_at mul 1 (p2w s) (p2f s)) (p2P s).

  Fixpoint p2_iterate (R budget it : nat) (s : p2st F PT) : p2st F PT :=
    match budget with
    | 0 => s
    | S b => let s0 := p2_absorb R s in
             let r := upd it s0 in
             let s1 := mkp2 (p2w s0) (fst r) (snd r) in
             let s2 := if normalize then normf s1 else s1 in
             if stop it s2 then s2 else p2_iterate R b (S it) s2
    end.

  (* the whole loop; since commit 1c1a684 `if normalize_factors: weights, factors = cp_normalize((weights, factors))` precedes it, so
     that a call without an executed sweep returns the normalised initialisation *)
  Definition p2_run (R budget : nat) (s : p2st F PT) : p2st F PT :=
    p2_iterate R budget 0 (if normalize then normf s else s).
End P2Skel.

(* parafac2, between the initialiser and the loop (commit 29e7702):
     if nn_modes is not None and isinstance(init, str):
         nn_modes_init = range(len(factors)) if nn_modes == "all" else nn_modes
         factors = [tl.clip(factor, 0) if mode in nn_modes_init else factor for mode, factor in enumerate(factors)]
   only a BUILT-IN initialisation ('random' / 'svd') is projected onto the non-negative modes; a user-supplied decomposition
   is the start state as it is, whatever nn_modes says.  `clip` is tl.clip(., 0) on a factor; nn = None: nn_modes is None;
   "all" is passed as the list of all modes. *)
Section P2Start.
  Context {F : Type} (one : F).
  Fixpoint clip_modes (clip : @matrix F -> @matrix F) (nn : list nat) (off : nat) (fs : list (@matrix F)) : list (@matrix F) :=
    match fs with [] => [] | f :: r => (if memb off nn then clip f else f) :: clip_modes clip nn (S off) r end.
  Definition p2_feasible (clip : @matrix F -> @matrix F) (builtin : bool) (nn : option (list nat)) (fs : list (@matrix F)) : list (@matrix F) :=
    match nn with Some ms => if builtin then clip_modes clip ms 0 fs else fs | None => fs end.
  (* the start state of parafac2 for a user-supplied init (builtin = false) or a built-in one whose answer is `init` (builtin = true) *)
  Definition p2_start (qr : @matrix F -> @matrix F * @matrix F) (rank : nat) (clip : @matrix F -> @matrix F) (builtin : bool)
      (nn : option (list nat)) (init : p2init F) : res (p2st F (list (@matrix F))) :=
    match p2_init one qr rank init with
    | Ok s => Ok (mkp2 (p2w s) (p2_feasible clip builtin nn (p2f s)) (p2P s))
    | Err => Err
    end.
End P2Start.

(* ------------------------------------------------------------------ request lists as the caller writes them: integers
   The drivers compare the entries of fixed_modes with the modes 0..ndim-1 by `in` / `==` only, so an entry outside range(ndim)
   -- NEGATIVE ones included: -1 is not read as "the last mode" -- equals no mode and fixes nothing.  Such an entry is
   represented by a natural number >= ndim (as_mode).  Two drivers also use the entries as list indices before the loop
     for fixed_value in fixed_modes: sparsity_coefficients[fixed_value] = None      (non_negative_parafac_hals, non_negative_tucker_hals)
   on a list of length ndim with Python's index semantics: an entry outside [-ndim, ndim) raises IndexError there, whatever the
   budget; an entry in [-ndim, 0) is accepted (and clears the sparsity coefficient of mode ndim+entry, which is then updated). *)
From Coq Require Import ZArith.
Definition names_mode (n : nat) (z : Z) : bool := ((0 <=? z) && (z <? Z.of_nat n))%Z.
Definition as_mode (n : nat) (z : Z) : nat := if (0 <=? z)%Z then Z.to_nat z else n + Z.to_nat (- z).
Definition indexes_list (a : algo) : bool := match a with NNHals | NTDHals => true | _ => false end.
Definition entry_raises (a : algo) (n : nat) (z : Z) : bool :=
  indexes_list a && negb ((- Z.of_nat n <=? z) && (z <? Z.of_nat n))%Z.
Definition request (a : algo) (n : nat) (fixed : list Z) : res (list nat) :=
  if existsb (entry_raises a n) fixed then Err else Ok (map (as_mode n) fixed).
(* the mode a Python index denotes: z for 0 <= z < n, n + z for -n <= z < 0 *)
Definition py_index (n : nat) (z : Z) : nat := if (0 <=? z)%Z then Z.to_nat z else Z.to_nat (Z.of_nat n + z).

(* parafac2 start state, all three kinds of initialisation: after the projection of a built-in initialisation onto the non-negative
   modes, `if init == "svd": projections = _compute_projections(tensor_slices, factors, svd)` recomputes the projections from the
   projected factors (LAPACK: `proj` is an arbitrary function here, an answer tape in the correspondence); init="random" keeps them *)
Inductive p2kind := UserInit | BuiltinRandom | BuiltinSvd.
Section P2StartKind.
  Context {F : Type} (one : F).
  Definition p2_start_kind (qr : @matrix F -> @matrix F * @matrix F) (rank : nat) (clip : @matrix F -> @matrix F)
      (proj : list (@matrix F) -> list (@matrix F)) (kind : p2kind) (nn : option (list nat)) (init : p2init F)
      : res (p2st F (list (@matrix F))) :=
    match p2_init one qr rank init with
    | Err => Err
    | Ok s =>
        match nn, kind with
        | Some ms, BuiltinRandom => Ok (mkp2 (p2w s) (clip_modes clip ms 0 (p2f s)) (p2P s))
        | Some ms, BuiltinSvd => let fs := clip_modes clip ms 0 (p2f s) in Ok (mkp2 (p2w s) fs (proj fs))
        | _, _ => Ok s
        end
    end.
End P2StartKind.

(* ------------------------------------------------------------------ tucker(fixed_factors=req): the gate in front of the fixed-factor branch
   since commit 1ad6e15:
       if fixed_factors is not None: fixed_factors = list(fixed_factors)
       if fixed_factors: <the fixed-factor branch>  else: <plain tucker>
   request_truth is Python's truth value of a request AS PASSED: a list / tuple is true iff non-empty; an ndarray of one element has the
   truth value of that element (array([0]) is false), an ndarray of two or more elements has none (ValueError), the empty ndarray is
   false.  list(.) of any iterable is the list of its entries (as_list), so since 1ad6e15 the gate tests the length of the request. *)
Inductive container := CList | CTuple | CArray.
Definition request_truth (c : container) (l : list Z) : res bool :=
  match c with
  | CArray => match l with [] => Ok false | [z] => Ok (negb (Z.eqb z 0)) | _ => Err end
  | _ => Ok (negb (Nat.eqb (length l) 0))
  end.
Definition as_list (c : container) : container := CList.
Definition tucker_gate (c : container) (req : option (list Z)) : res bool :=
  match req with None => Ok false | Some l => request_truth (as_list c) l end.
(* the rule before 1ad6e15 (kept as a labelled foil): the truth value of the request as passed *)
Definition tucker_gate_before_1ad6e15 (c : container) (req : option (list Z)) : res bool :=
  match req with None => Ok false | Some l => request_truth c l end.

(* ------------------------------------------------------------------ partial_tucker's main loop (HOI), no longer an arbitrary function
     for iteration in range(n_iter_max):
         if mask is not None: tensor = tensor * mask + multi_mode_dot(core, factors, modes) * (1 - mask)       -- pre: bookkeeping only
         for index, mode in enumerate(modes):
             ... factors[index] = eigenvecs                                                                      -- upd: writes position `index`
         core = multi_mode_dot(tensor, factors, modes=modes, transpose=True)                                    -- corefn
         rec_errors.append(...)                                                                                  -- post: bookkeeping only
         if iteration > 1 and tol and |variation| < tol: break                                                   -- stop
   The state carries the core, the factor list AS HANDED IN (one entry per entry of `modes`: tucker hands in the free factors only) and a
   bookkeeping component X (imputed tensor, norm, error history).  upd / corefn / pre / post / stop are arbitrary functions of the whole
   state; what is fixed is WHERE the loop writes: position index = 0, 1, .. of the list, once per entry of `modes`, never its length. *)
Section PartialTucker.
  Context {F X : Type}.
  Record pts := mkpts { ptc : tensor F; ptf : list (@matrix F); ptx : X }.
  Variable pre : nat -> pts -> X.
  Variable upd : nat -> nat -> nat -> pts -> @matrix F.
  Variable corefn : nat -> list nat -> pts -> tensor F.
  Variable post : nat -> pts -> X.
  Variable stop : nat -> pts -> bool.

  Definition pt_write (it : nat) (s : pts) (p : nat * nat) : pts :=
    mkpts (ptc s) (set_nth (fst p) (upd it (fst p) (snd p) s) (ptf s)) (ptx s).
  Fixpoint pt_sweep (it index : nat) (modes : list nat) (s : pts) : pts :=
    match modes with [] => s | mode :: r => pt_sweep it (S index) r (pt_write it s (index, mode)) end.
  Fixpoint pt_iterate (budget it : nat) (modes : list nat) (s : pts) : pts :=
    match budget with
    | 0 => s
    | S b => let s0 := mkpts (ptc s) (ptf s) (pre it s) in
             let s1 := pt_sweep it 0 modes s0 in
             let s2 := mkpts (corefn it modes s1) (ptf s1) (ptx s1) in
             let s3 := mkpts (ptc s2) (ptf s2) (post it s2) in
             if stop it s3 then s3 else pt_iterate b (S it) modes s3
    end.
  (* partial_tucker(tensor, rank, modes, init=(c, free), n_iter_max=budget) for a user-supplied init; x0: the bookkeeping at loop entry *)
  Definition partial_tucker_model (x0 : tensor F -> list nat -> list (@matrix F) -> X) (budget : nat) (c : tensor F) (modes : list nat)
      (free : list (@matrix F)) : tensor F * list (@matrix F) :=
    let s := pt_iterate budget 0 modes (mkpts c free (x0 c modes free)) in (ptc s, ptf s).
  (* `for index, mode in enumerate(modes)` as the enumerated list *)
  Definition enumerate_from (i : nat) (l : list nat) : list (nat * nat) := combine (seq i (length l)) l.
End PartialTucker.
Arguments pts : clear implicits.

(* ------------------------------------------------------------------ the state of a driver that is interrupted in mid-sweep (an exception out of a
   backend call): after `done_` units of budget, the orthogonalise hook of the current iteration `it` (if on) and the updates of the modes in
   `l` (a prefix of the update list).  Default normalisation. *)
Section InterruptedSkel.
  Context {M W X : Type}.
  Variable upd : nat -> nat -> st M W X -> M * X.
  Variable stop : nat -> st M W X -> bool.
  Variable normf : st M W X -> st M W X.
  Variable pre : nat -> nat -> st M W X -> M.
  Variable pre_on : nat -> bool.
  Variable post : nat -> st M W X -> X.
  Variable ls_on : nat -> bool.
  Variable ls_accept : nat -> st M W X -> st M W X -> bool.
  Variable lsf : nat -> st M W X -> M -> M -> M.
  Variable lsw : nat -> st M W X -> W -> W -> W.
  Variable lsx : nat -> st M W X -> st M W X -> X.
  Definition interrupted_state (a : algo) (free : nat -> bool) (ml : list nat) (done_ it : nat) (l : list nat) (s : st M W X) : st M W X :=
    let sb := iterate upd stop normf false pre pre_on post ls_on ls_accept lsf lsw lsx a free done_ 0 ml s in
    let s0 := if has_hooks a && pre_on it then pre_state pre free it sb else sb in
    fold_left (step upd normf false a it ml) l s0.
End InterruptedSkel.
