(* Interrupted operations (Model/BackendAbort.v): what an exception raised between two attribute-level steps of
   set_backend / backend_context leaves behind; the nameless-instance defect; the generic reduction theorem restated
   for ANY programs passing the boolean side condition (the programs regenerated from the source on every run). *)
From Coq Require Import List Arith Bool Lia.
From TLV Require Import Model.Backend Model.BackendAbort Proofs.BackendProofs Proofs.BackendMicro.
Import ListNotations.

(* ------------------------------------------------------------------ generic reduction, boolean side condition *)
Lemma wfpb_wfp l : wfpb l = true -> wfp l.
Proof.
  unfold wfpb, wfp. rewrite forallb_forall, Forall_forall. intros H ab Hin Hs.
  specialize (H ab Hin). rewrite Hs in H. exact H.
Qed.

Lemma ev_ok_wf s : forallb ev_ok s = true -> Forall wf_ev s.
Proof.
  rewrite forallb_forall, Forall_forall. intros H e Hin. specialize (H e Hin).
  destruct e as [t p|t]; simpl in *; [|exact I].
  unfold prog_ok in H. apply andb_true_iff in H. destruct H as [W L]. split; [exact L|now apply wfpb_wfp].
Qed.

Theorem micro_atomic_generic c b0 (s : list ev) :
  forallb ev_ok s = true ->
  (forall t, m_pend (fst (mrun c (mquiet b0) s)) t = []) ->
  b_shared (m_b (fst (mrun c (mquiet b0) s))) = b_shared (bblocks c b0 (snd (mrun c (mquiet b0) s))) /\
  forall t, b_priv (m_b (fst (mrun c (mquiet b0) s))) t = b_priv (bblocks c b0 (snd (mrun c (mquiet b0) s))) t.
Proof.
  intros W Q.
  assert (I : inv c (mquiet b0)).
  { intros t. simpl. split; [constructor|]. split; [constructor|]. discriminate. }
  assert (Rl : rel c (mquiet b0) b0).
  { split; [reflexivity|]. intros t. reflexivity. }
  destruct (run_sim c s (mquiet b0) b0 (ev_ok_wf s W) I Rl) as [_ [Rs Rp]].
  split; [exact Rs|]. intros t. rewrite <- Rp. unfold abs_priv. rewrite Q. reflexivity.
Qed.

Section A.
Variables (R : rules) (c : cfg).

(* ------------------------------------------------------------------ interruption after k acts *)
Lemma abort_others b o k u : u <> thr o -> b_priv (abort R c b o k) u = b_priv b u.
Proof.
  intros H. unfold abort.
  destruct (bblock_spec c (thr o) (firstn k (acts_of R c b o)) b) as (_ & _ & C). now apply C.
Qed.

Lemma abort_zero b o : abort R c b o 0 = b.
Proof. reflexivity. Qed.

Lemma abort_all b o k : length (acts_of R c b o) <= k -> abort R c b o k = astep R c b (AOp o).
Proof. intros H. unfold abort, astep, block_of, acts_of in *. now rewrite firstn_all2. Qed.

(* every other thread keeps its selection and its stack; one that holds a selection keeps its backend *)
Lemma abort_other_view b o k u : u <> thr o -> p_tls (b_priv b u) <> None ->
  cur (to_st (abort R c b o k)) u = cur (to_st b) u.
Proof.
  intros H N. unfold cur, current_backend. simpl. rewrite abort_others by exact H.
  destruct (p_tls (b_priv b u)); [reflexivity|congruence].
Qed.



Ltac crunch :=
  unfold abort, acts_of, nxt, step, set_backend, with_ctx, to_st, bblock; simpl;
  repeat (match goal with H : ?l = _ |- context [?l] => rewrite H end; simpl); rewrite ?firstn_nil; simpl;
  split; [|split]; intros; simpl; unfold bexec, upd; simpl; unfold upd;
  repeat match goal with |- context [Nat.eqb ?a ?b] => destruct (Nat.eqb_spec a b); subst end; simpl;
  solve [reflexivity | congruence].

Ltac ks k := destruct k as [|[|[|[|[|[|[|k]]]]]]].

(* set_backend interrupted anywhere: nothing happened, or the thread-local flavour of the selection, or the whole *)
Theorem abort_set b t x l k :
  seqv (to_st (abort R c b (Set_ t x l) k)) (to_st b) \/
  seqv (to_st (abort R c b (Set_ t x l) k)) (nxt R c (to_st b) (Set_ t x true)) \/
  seqv (to_st (abort R c b (Set_ t x l) k)) (nxt R c (to_st b) (Set_ t x l)).
Proof.
  destruct (resolve R c x) as [v|] eqn:E; destruct l; ks k;
    first [left; solve [crunch] | right; left; solve [crunch] | right; right; solve [crunch]].
Qed.


(* the entry of a context interrupted anywhere: nothing, the thread-local flavour of the selection WITHOUT a frame,
   the selection without a frame, or the whole entry *)
Theorem abort_enter b t x l k :
  seqv (to_st (abort R c b (Enter t x l) k)) (to_st b) \/
  seqv (to_st (abort R c b (Enter t x l) k)) (nxt R c (to_st b) (Set_ t x true)) \/
  seqv (to_st (abort R c b (Enter t x l) k)) (nxt R c (to_st b) (Set_ t x l)) \/
  seqv (to_st (abort R c b (Enter t x l) k)) (nxt R c (to_st b) (Enter t x l)).
Proof.
  destruct (resolve R c x) as [v|] eqn:E; destruct l; ks k;
    first [left; solve [crunch] | right; left; solve [crunch] | right; right; left; solve [crunch]
          | right; right; right; solve [crunch]].
Qed.

(* the exit of a context interrupted anywhere: nothing, the frame popped and nothing restored, the frame popped and
   the saved backend restored in the thread only, or the whole exit *)
Theorem abort_exit b t e k :
  match p_ctx (b_priv b t) with
  | [] => seqv (to_st (abort R c b (Exit_ t e) k)) (to_st b)
  | (old, lf) :: rest =>
      let s1 := with_ctx (to_st b) t rest in
      seqv (to_st (abort R c b (Exit_ t e) k)) (to_st b) \/
      seqv (to_st (abort R c b (Exit_ t e) k)) s1 \/
      seqv (to_st (abort R c b (Exit_ t e) k)) (nxt R c s1 (Set_ t (SInst old) true)) \/
      seqv (to_st (abort R c b (Exit_ t e) k)) (nxt R c (to_st b) (Exit_ t e))
  end.
Proof.
  destruct (p_ctx (b_priv b t)) as [|[old lf] rest] eqn:Ec.
  - ks k; crunch.
  - cbv zeta. destruct (isinst R old) eqn:Ei; destruct (keep_flag R) eqn:Ek; destruct lf; ks k;
    first [left; solve [crunch] | right; left; solve [crunch] | right; right; left; solve [crunch]
          | right; right; right; solve [crunch]].
Qed.


(* the shared default after an interruption is the old one or the one the whole operation installs: no third value *)
Theorem abort_shared_old_or_new b o k :
  b_shared (abort R c b o k) = b_shared b \/ b_shared (abort R c b o k) = b_shared (astep R c b (AOp o)).
Proof.
  unfold astep, block_of, abort, acts_of, bblock.
  destruct o as [t x l | t x l | t e | t | t]; simpl.
  - destruct (resolve R c x); destruct l; ks k; simpl; rewrite ?firstn_nil; simpl; auto.
  - destruct (resolve R c x); destruct l; ks k; simpl; rewrite ?firstn_nil; simpl; auto.
  - destruct (p_ctx (b_priv b t)) as [|[old lf] rest]; [ks k; simpl; rewrite ?firstn_nil; auto|].
    destruct (isinst R old); destruct (keep_flag R); destruct lf; ks k; simpl; rewrite ?firstn_nil; simpl; auto.
  - ks k; simpl; rewrite ?firstn_nil; auto.
  - ks k; simpl; rewrite ?firstn_nil; auto.
Qed.

(* a thread-local operation interrupted anywhere has not touched the shared default (with abort_others: nobody else
   can tell that it was ever started) *)
Theorem abort_local_keeps_shared b o k : keep_flag R = true -> is_local (to_st b) o = true ->
  b_shared (abort R c b o k) = b_shared b.
Proof.
  intros K. unfold abort, acts_of, bblock.
  destruct o as [t x l | t x l | t e | t | t]; simpl; intros L.
  - subst l. destruct (resolve R c x); ks k; simpl; rewrite ?firstn_nil; reflexivity.
  - subst l. destruct (resolve R c x); ks k; simpl; rewrite ?firstn_nil; reflexivity.
  - destruct (p_ctx (b_priv b t)) as [|[old lf] rest]; [ks k; simpl; rewrite ?firstn_nil; reflexivity|].
    subst lf. rewrite K. destruct (isinst R old); ks k; simpl; rewrite ?firstn_nil; reflexivity.
  - ks k; simpl; rewrite ?firstn_nil; reflexivity.
  - ks k; simpl; rewrite ?firstn_nil; reflexivity.
Qed.

(* every thread's VIEW is atomic even though the state is not: after an interruption anywhere it is the view before the
   call or the view after the whole call *)
Lemma abort_view_self b o k :
  cur (to_st (abort R c b o k)) (thr o) = cur (to_st b) (thr o) \/
  cur (to_st (abort R c b o k)) (thr o) = cur (to_st (astep R c b (AOp o))) (thr o).
Proof.
  unfold cur, current_backend, astep, block_of, abort, acts_of, bblock, to_st.
  destruct o as [t x l | t x l | t e | t | t]; simpl.
  - destruct (resolve R c x); destruct l; ks k; simpl; rewrite ?firstn_nil; simpl; unfold bexec; simpl; rewrite ?upd_same; simpl; auto.
  - destruct (resolve R c x); destruct l; ks k; simpl; rewrite ?firstn_nil; simpl; unfold bexec; simpl; rewrite ?upd_same; simpl; auto.
  - destruct (p_ctx (b_priv b t)) as [|[old lf] rest] eqn:Ec; [ks k; simpl; rewrite ?firstn_nil; simpl; unfold bexec; simpl; rewrite ?upd_same; auto|].
    destruct (isinst R old); destruct (keep_flag R); destruct lf; ks k; simpl; rewrite ?firstn_nil; simpl;
      unfold bexec; simpl; rewrite ?upd_same; simpl; rewrite ?Ec; simpl; rewrite ?upd_same; simpl; auto.
  - ks k; simpl; rewrite ?firstn_nil; simpl; unfold bexec; simpl; rewrite ?upd_same; auto.
  - ks k; simpl; rewrite ?firstn_nil; simpl; unfold bexec; simpl; rewrite ?upd_same; auto.
Qed.

Theorem abort_view_old_or_new b o k u :
  cur (to_st (abort R c b o k)) u = cur (to_st b) u \/
  cur (to_st (abort R c b o k)) u = cur (to_st (astep R c b (AOp o))) u.
Proof.
  destruct (Nat.eq_dec u (thr o)) as [->|Hu]; [apply abort_view_self|].
  unfold cur, current_backend. simpl.
  rewrite (abort_others b o k u Hu).
  assert (P : b_priv (astep R c b (AOp o)) u = b_priv b u).
  { rewrite <- (abort_all b o (length (acts_of R c b o))) by lia. now apply abort_others. }
  rewrite P. destruct (p_tls (b_priv b u)); [now left|].
  apply abort_shared_old_or_new.
Qed.
(* ------------------------------------------------------------------ nameless instances *)
Variables (nf : bool) (nl : inst -> bool).

Lemma bblock_cons b t a l : bblock c b (t, a :: l) = bblock c (bexec c b t a) (t, l).
Proof. reflexivity. Qed.

Lemma run_nl_prefix : forall l b t,
  fst (run_nl nf nl c b t l) = bblock c b (t, firstn (fail_at nf nl c b t l) l).
Proof.
  induction l as [|a l IH]; intros b t; [reflexivity|]. simpl.
  destruct (raises nf nl (b_priv b t) a); [reflexivity|]. simpl firstn. rewrite bblock_cons. apply IH.
Qed.

Lemma run_nl_complete : forall l b t, snd (run_nl nf nl c b t l) = false -> fst (run_nl nf nl c b t l) = bblock c b (t, l).
Proof.
  induction l as [|a l IH]; intros b t; [reflexivity|]. simpl.
  destruct (raises nf nl (b_priv b t) a); [discriminate|]. intros H. rewrite bblock_cons. now apply IH.
Qed.

(* a call that does not raise is the whole operation *)
Theorem exec_nl_completes b o : snd (exec_nl nf nl R c b o) = false -> fst (exec_nl nf nl R c b o) = astep R c b (AOp o).
Proof. intros H. unfold exec_nl in *. now rewrite run_nl_complete. Qed.

(* a call that raises is the operation interrupted at the failing step *)
Theorem exec_nl_is_abort b o :
  fst (exec_nl nf nl R c b o) = abort R c b o (fail_at nf nl c b (thr o) (acts_of R c b o)).
Proof. unfold exec_nl, abort. apply run_nl_prefix. Qed.

(* ... which comes BEFORE the write of the shared default: whatever raises, nobody else is affected *)
Theorem exec_nl_raise_keeps_shared b o : snd (exec_nl nf nl R c b o) = true -> b_shared (fst (exec_nl nf nl R c b o)) = b_shared b.
Proof.
  unfold exec_nl, acts_of.
  destruct o as [t x l | t x l | t e | t | t]; simpl.
  - destruct (resolve R c x); destruct l; simpl; try discriminate;
      destruct nf; simpl; repeat (match goal with |- context [nl ?v] => destruct (nl v) end; simpl); try discriminate; reflexivity.
  - destruct (resolve R c x); destruct l; simpl; try discriminate;
      destruct nf; simpl; repeat (match goal with |- context [nl ?v] => destruct (nl v) end; simpl); try discriminate; reflexivity.
  - destruct (p_ctx (b_priv b t)) as [|[old lf] rest] eqn:Ec; simpl; [discriminate|].
    destruct (isinst R old); destruct (keep_flag R); destruct lf; simpl; try discriminate;
      unfold bexec; simpl; rewrite ?upd_same, ?Ec; simpl;
      destruct nf; simpl; repeat (match goal with |- context [nl ?v] => destruct (nl v) end; simpl); try discriminate; reflexivity.
  - discriminate.
  - discriminate.
Qed.

(* the restricted rejection clause that DOES hold for a call that raises after it resolved its argument: the shared
   default and every OTHER thread's selection, stack and backend are unchanged *)
Theorem raising_partial b o : snd (exec_nl nf nl R c b o) = true ->
  shared (to_st (fst (exec_nl nf nl R c b o))) = shared (to_st b) /\
  forall u, u <> thr o ->
    (tls (to_st (fst (exec_nl nf nl R c b o))) u = tls (to_st b) u) /\
    (ctx (to_st (fst (exec_nl nf nl R c b o))) u = ctx (to_st b) u) /\
    (cur (to_st (fst (exec_nl nf nl R c b o))) u = cur (to_st b) u).
Proof.
  intros H. pose proof (exec_nl_raise_keeps_shared b o H) as S.
  split; [exact S|]. intros u Hu.
  assert (P : b_priv (fst (exec_nl nf nl R c b o)) u = b_priv b u).
  { rewrite exec_nl_is_abort. now apply abort_others. }
  unfold cur, current_backend. simpl. rewrite P, S. repeat split.
Qed.

Theorem raising_call_is_abort b o :
  fst (exec_nl nf nl R c b o) = abort R c b o (fail_at nf nl c b (thr o) (acts_of R c b o)) /\
  (snd (exec_nl nf nl R c b o) = false -> fst (exec_nl nf nl R c b o) = astep R c b (AOp o)).
Proof. split; [apply exec_nl_is_abort | apply exec_nl_completes]. Qed.

(* the candidate repair (the name is read before the first write): a set_backend / context entry that raises has changed
   NOTHING - the rejection clause in full, for every set of nameless instances *)
Theorem raising_repaired b o : nf = true -> (match o with Set_ _ _ _ | Enter _ _ _ => True | _ => False end) ->
  snd (exec_nl nf nl R c b o) = true -> seqv (to_st (fst (exec_nl nf nl R c b o))) (to_st b).
Proof.
  intros -> Ho. unfold exec_nl, acts_of.
  destruct o as [t x l | t x l | t e | t | t]; try contradiction; simpl;
    destruct (resolve R c x) as [v|]; destruct l; simpl; try discriminate;
    unfold bexec; simpl; rewrite ?upd_same; simpl;
    repeat (match goal with |- context [nl ?v] => destruct (nl v) eqn:? end; simpl); try discriminate; intros _;
    (split; [|split]; intros; simpl; unfold upd;
     repeat match goal with |- context [Nat.eqb ?a ?b] => destruct (Nat.eqb_spec a b); subst end; simpl; try reflexivity; try congruence).
Qed.

Theorem exec_nl_others b o u : u <> thr o -> b_priv (fst (exec_nl nf nl R c b o)) u = b_priv b u.
Proof. intros H. rewrite exec_nl_is_abort. now apply abort_others. Qed.

End A.

(* where nobody is nameless the machine with raising steps is the machine of whole operations *)
Lemma run_nl_none nf c : forall l b t, run_nl nf (fun _ => false) c b t l = (bblock c b (t, l), false).
Proof.
  induction l as [|a l IH]; intros b t; [reflexivity|]. simpl.
  assert (E : raises nf (fun _ => false) (b_priv b t) a = false) by (destruct a; simpl; rewrite ?andb_false_r; reflexivity).
  rewrite E, bblock_cons. apply IH.
Qed.

Theorem exec_nl_none nf R c b o : exec_nl nf (fun _ => false) R c b o = (astep R c b (AOp o), false).
Proof. unfold exec_nl. now rewrite run_nl_none. Qed.

(* ------------------------------------------------------------------ witnesses *)
(* an interrupted entry is NOT atomic: after the second act the thread's backend has changed, no frame exists that an
   exit could restore from, nobody else has seen anything: neither "nothing happened" nor the whole operation *)
Lemma abort_not_atomic :
  let o := Enter 1 (SName 1) false in
  let a := to_st (abort fixed_rules cfg0 b00 o 2) in
  cur a 1 = Named 1 /\ ctx a 1 = [] /\ shared a = Named 0 /\
  ~ seqv a (to_st b00) /\ ~ seqv a (nxt fixed_rules cfg0 (to_st b00) o).
Proof.
  cbv zeta. repeat split; try reflexivity.
  - intros (_ & H & _). specialize (H 1). discriminate.
  - intros (H & _). discriminate.
Qed.

(* set_backend(Backend()) - an instance of the bare backend class - raises AttributeError AFTER the calling thread's
   slot was written: the selection is rejected, yet the caller's backend has changed *)
Lemma nameless_rejected_changes_caller :
  let o := Set_ 1 (SInst (Obj 20)) false in
  let r := exec_nl false nl20 fixed_rules cfg0 b00 o in
  snd r = true /\ cur (to_st b00) 1 = Named 0 /\ cur (to_st (fst r)) 1 = Obj 20 /\
  shared (to_st (fst r)) = Named 0 /\ cur (to_st (fst r)) 2 = Named 0.
Proof. cbv zeta. repeat split; reflexivity. Qed.

(* the thread-local flavour accepts the same object silently *)
(* with the candidate repair the same call (and its thread-local flavour) raises with nothing changed *)
Lemma nameless_rejected_repaired :
  let r := exec_nl true nl20 fixed_rules cfg0 b00 (Set_ 1 (SInst (Obj 20)) false) in
  let r' := exec_nl true nl20 fixed_rules cfg0 b00 (Enter 1 (SInst (Obj 20)) true) in
  snd r = true /\ cur (to_st (fst r)) 1 = Named 0 /\ snd r' = true /\ cur (to_st (fst r')) 1 = Named 0 /\ ctx (to_st (fst r')) 1 = [].
Proof. cbv zeta. repeat split; reflexivity. Qed.

Lemma nameless_local_accepted :
  let r := exec_nl false nl20 fixed_rules cfg0 b00 (Set_ 1 (SInst (Obj 20)) true) in
  snd r = false /\ cur (to_st (fst r)) 1 = Obj 20.
Proof. cbv zeta. split; reflexivity. Qed.

(* ... and a later NON-local context of that thread then fails in its exit (the restore of the nameless backend),
   leaving the shared default on the context's backend for everybody else *)
Lemma nameless_exit_fails :
  let h := [Set_ 1 (SInst (Obj 20)) true; Enter 1 (SName 1) false] in
  let b := run_nl_hist false nl20 fixed_rules cfg0 b00 h in
  let r := exec_nl false nl20 fixed_rules cfg0 b (Exit_ 1 false) in
  snd r = true /\ cur (to_st (fst r)) 1 = Obj 20 /\ cur (to_st (fst r)) 2 = Named 1 /\ cur (to_st b00) 2 = Named 0.
Proof. cbv zeta. repeat split; reflexivity. Qed.

(* non-vacuity of micro_atomic_generic: the programs the ast translator reads off the repaired source for a non-local
   set_backend (threads 1 and 2, different instances), interleaved act by act *)
Definition setg (v : inst) : prog :=
  [(ATls (Const v), false); (ADname (Const v), false); (AShared (Const v), true); (AEmit ODone, false)].
Definition sched_gen : list ev :=
  [Begin 1 (setg (Obj 3)); Begin 2 (setg (Obj 4)); Tick 1; Tick 2; Tick 2; Tick 1; Tick 1; Tick 2; Tick 2; Tick 1].
Lemma micro_atomic_generic_nonvacuous :
  forallb ev_ok sched_gen = true /\
  (forall t, m_pend (fst (mrun cfg0 (mquiet b00) sched_gen)) t = []) /\
  snd (mrun cfg0 (mquiet b00) sched_gen)
  = [(1, [ATls (Const (Obj 3)); ADname (Const (Obj 3)); AShared (Const (Obj 3)); AEmit ODone]);
     (2, [ATls (Const (Obj 4)); ADname (Const (Obj 4)); AShared (Const (Obj 4)); AEmit ODone])] /\
  b_shared (m_b (fst (mrun cfg0 (mquiet b00) sched_gen))) = Obj 4.
Proof.
  split; [reflexivity|]. split; [|split; vm_compute; reflexivity].
  intros t. vm_compute. destruct t as [|[|[|t]]]; reflexivity.
Qed.

(* ------------------------------------------------------------------ cls._default_backend *)
(* between whole operations `_default_backend` is the name of `_backend` (set_backend writes both or neither) *)
Lemma dname_step R c s o : dname s = name_of c (shared s) -> dname (nxt R c s o) = name_of c (shared (nxt R c s o)).
Proof.
  intros H. unfold nxt, step.
  destruct o as [t x l | t x l | t e | t | t]; simpl; try exact H.
  - unfold set_backend. destruct (resolve R c x) as [v|]; simpl; [|exact H]. destruct l; simpl; [exact H|reflexivity].
  - unfold set_backend. destruct (resolve R c x) as [v|]; simpl; [|exact H]. destruct l; simpl; [exact H|reflexivity].
  - destruct (ctx s t) as [|[old lf] rest]; simpl; [exact H|].
    unfold set_backend. simpl. destruct (isinst R old); simpl; [|exact H].
    destruct (if keep_flag R then lf else false); simpl; [exact H|reflexivity].
Qed.

Theorem dname_tracks_shared R c : forall h s,
  dname s = name_of c (shared s) -> dname (run R c s h) = name_of c (shared (run R c s h)).
Proof.
  induction h as [|o h IH]; intros s H; [exact H|]. simpl. apply IH. now apply dname_step.
Qed.

(* ------------------------------------------------------------------ an interrupted call IS a program that stops ticking *)
(* in the micro-step machine, thread (thr o) begins o, executes k acts and stalls: the machine holds exactly `abort R c b o k` *)
Lemma mrun_fst_cons c m e s : fst (mrun c m (e :: s)) = fst (mrun c (fst (mstep c m e)) s).
Proof. simpl. destruct (mstep c m e) as [m1 l1]. simpl. destruct (mrun c m1 s). reflexivity. Qed.

Lemma mrun_ticks c t : forall k m,
  m_b (fst (mrun c m (ticks_of t k))) = bblock c (m_b m) (t, firstn k (map fst (m_pend m t))).
Proof.
  induction k as [|k IH]; intros m; [reflexivity|].
  unfold ticks_of. simpl repeat. rewrite mrun_fst_cons. fold (ticks_of t k). rewrite IH.
  simpl mstep. destruct (m_pend m t) as [|[a lp] rest] eqn:E.
  - simpl. rewrite E. simpl. now rewrite firstn_nil.
  - destruct lp; simpl; rewrite upd_same; reflexivity.
Qed.

Theorem abort_is_stalled_program R c b o k :
  m_b (fst (mrun c (mquiet b) (Begin (thr o) (compile R c (b_priv b (thr o)) o) :: ticks_of (thr o) k))) = abort R c b o k.
Proof.
  rewrite mrun_fst_cons, mrun_ticks. unfold abort, acts_of. simpl. rewrite upd_same. reflexivity.
Qed.
