(* Lemmas about the dispatch layer (Model/BackendDispatch.v): in dynamic-dispatch mode every function route and
   every function reference captured by anybody at any time runs on the CALLING thread's current backend at CALL
   time; attributes are evaluated at access time; what use_static_dispatch freezes and what it does not; threads
   that start late; contexts of the two managers nested in one another. *)
From Coq Require Import List Arith Bool Lia.
From TLV Require Import Model.Backend Model.BackendDispatch Proofs.BackendProofs Proofs.BackendTwo.
Import ListNotations.

Section D.
Variables (R : rules) (c : cfg) (D : drules) (nc : ncfg).

Notation dnxt := (dnxt R c D nc).
Notation dout := (dout R c D nc).
Notation drun := (drun R c D nc).
Notation dtrace := (dtrace R c D nc).
Notation eval := (eval D nc).

Lemma drun_app d h1 h2 : drun d (h1 ++ h2) = drun (drun d h1) h2.
Proof. unfold drun, BackendDispatch.drun. apply fold_left_app. Qed.

Lemma dtrace_app : forall h1 d h2, dtrace d (h1 ++ h2) = dtrace d h1 ++ dtrace (drun d h1) h2.
Proof. induction h1; intros; simpl; [reflexivity|]. now rewrite IHh1. Qed.

Lemma dtrace_length : forall h d, length (dtrace d h) = length h.
Proof. induction h; intros; simpl; auto. Qed.

Lemma dtrace_nth d h1 o h2 : nth (length h1) (dtrace d (h1 ++ o :: h2)) DNone = dout (drun d h1) o.
Proof.
  rewrite dtrace_app, app_nth2; rewrite dtrace_length; [|lia].
  now rewrite Nat.sub_diag.
Qed.

(* the selection state evolves by the selection operations alone *)
Lemma d_sel_nxt d o :
  d_sel (dnxt d o) = match o with DSel o' => nxt R c (d_sel d) o' | _ => d_sel d end.
Proof. destruct o; reflexivity. Qed.

Lemma d_sel_run : forall h d, d_sel (drun d h) = run R c (d_sel d) (sel_ops h).
Proof.
  induction h as [|o h IH]; intros d; [reflexivity|].
  change (drun d (o :: h)) with (drun (dnxt d o) h). rewrite IH, d_sel_nxt.
  destruct o; reflexivity.
Qed.

Lemma sel_ops_app h1 h2 : sel_ops (h1 ++ h2) = sel_ops h1 ++ sel_ops h2.
Proof. unfold sel_ops. apply flat_map_app. Qed.

(* the import-time bindings never change *)
Lemma d_top_run : forall h d, d_top (drun d h) = d_top d.
Proof.
  induction h as [|o h IH]; intros d; [reflexivity|].
  change (drun d (o :: h)) with (drun (dnxt d o) h). rewrite IH. destruct o; reflexivity.
Qed.

(* captured references are only ever appended *)
Lemma d_caps_nxt d o : exists l, d_caps (dnxt d o) = d_caps d ++ l /\
  length l = length (cap_names [o]).
Proof.
  destruct o; simpl; try (exists []; rewrite app_nil_r; split; reflexivity).
  eexists; split; reflexivity.
Qed.

Lemma cap_names_app h1 h2 : cap_names (h1 ++ h2) = cap_names h1 ++ cap_names h2.
Proof. unfold cap_names. apply flat_map_app. Qed.

Lemma d_caps_run : forall h d, exists l, d_caps (drun d h) = d_caps d ++ l /\ length l = length (cap_names h).
Proof.
  induction h as [|o h IH]; intros d.
  - exists []. rewrite app_nil_r. split; reflexivity.
  - change (drun d (o :: h)) with (drun (dnxt d o) h).
    destruct (IH (dnxt d o)) as [l2 [E2 L2]]. destruct (d_caps_nxt d o) as [l1 [E1 L1]].
    exists (l1 ++ l2). rewrite E2, E1, app_assoc. split; [reflexivity|].
    change (o :: h) with ([o] ++ h). rewrite cap_names_app, !app_length. lia.
Qed.

(* ------------------------------------------------------------ dynamic mode is an invariant *)

Lemma eval_fun_ok d t r n : dyn_ok nc d -> fun_value_ok nc (eval d t r n).
Proof.
  intros [Hf [Ha [Ht Hc]]].
  assert (Hs : forall vi, fun_value_ok nc (eval_slot nc (d_sel d) t vi D (d_cls d n) n)).
  { intros vi. unfold eval_slot. destruct (d_cls d n) eqn:E; simpl; auto.
    - destruct (vi || descr_class D); exact I.
    - destruct (is_fun nc n) eqn:F; [|exact I]. rewrite (Hf n F) in E. discriminate. }
  destruct r; simpl; auto.
  destruct (d_top d n) as [v|] eqn:E; [|apply Hs]. now destruct (Ht n v E).
Qed.

Lemma dyn_step d o : dyn_ok nc d -> (forall t, o <> DStatic t) -> dyn_ok nc (dnxt d o).
Proof.
  intros H Hn. pose proof H as [Hf [Ha [Ht Hc]]].
  destruct o as [o | t | t | t r n | t k | t r n]; try exact H.
  - exfalso. now apply (Hn t).
  - split; [|split; [|split]]; simpl.
    + intros n F. now rewrite F.
    + intros n F A. now rewrite F, A.
    + exact Ht.
    + exact Hc.
  - split; [|split; [|split]]; simpl.
    + exact Hf.
    + exact Ha.
    + exact Ht.
    + apply Forall_app. split; [assumption|]. constructor; [|constructor]. now apply eval_fun_ok.
Qed.

Lemma dyn_run : forall h d, dyn_ok nc d -> no_static h -> dyn_ok nc (drun d h).
Proof.
  induction h as [|o h IH]; intros d H Hn; [exact H|].
  change (drun d (o :: h)) with (drun (dnxt d o) h). apply IH.
  - apply dyn_step; [assumption|]. intros t E. apply (Hn t). left. now symmetry.
  - intros t Hin. apply (Hn t). now right.
Qed.

Lemma dyn_init own0 : dyn_ok nc (dinit nc own0).
Proof.
  split; [|split; [|split]]; simpl.
  - intros n F. now rewrite F.
  - intros n F A. now rewrite F, A.
  - intros n v H. destruct (top_bound nc n); [|discriminate].
    destruct (is_fun nc n).
    + injection H as <-. split; [exact I|reflexivity].
    + destruct (is_attr nc n); [|discriminate]. injection H as <-. split; [exact I|discriminate].
  - constructor.
Qed.

(* ------------------------------------------------------------ the dispatch clause *)

(* in dynamic mode EVERY route to a function name yields the closure ... *)
Lemma fun_route_dyn d t r n : dyn_ok nc d -> is_fun nc n = true -> eval d t r n = VWrapper n.
Proof.
  intros [Hf [Ha [Ht Hc]]] F.
  assert (Hs : forall vi, eval_slot nc (d_sel d) t vi D (d_cls d n) n = VWrapper n).
  { intros vi. now rewrite (Hf n F). }
  destruct r; simpl; auto.
  destruct (d_top d n) as [v|] eqn:E; [|apply Hs]. now destruct (Ht n v E) as [_ ->].
Qed.

(* ... and the closure, called by thread t in ANY state, runs on t's current backend of THAT state *)
Lemma wrapper_follows s t n : use s t (VWrapper n) = DRan (cur s t).
Proof. reflexivity. Qed.

Theorem dispatch_routes_agree d t r n :
  dyn_ok nc d -> is_fun nc n = true -> dout d (DCall t r n) = DRan (cur (d_sel d) t).
Proof. intros H F. unfold BackendDispatch.dout. simpl. now rewrite fun_route_dyn. Qed.

(* library code (`from . import backend as T; T.n(...)`) looks the name up on the manager module object on every use:
   it is the manager-module route, in every state and mode *)
Theorem library_route_is_manager_route d t n : dout d (DCall t RLib n) = dout d (DCall t RMgr n).
Proof. reflexivity. Qed.

(* at any position of any history without use_static_dispatch, through any route *)
Theorem dispatch_follows_view d h1 t r n h2 :
  dyn_ok nc d -> no_static h1 -> is_fun nc n = true ->
  nth (length h1) (dtrace d (h1 ++ DCall t r n :: h2)) DNone
  = DRan (view (tls (d_sel d) t) (shared (d_sel d)) (events R c (d_sel d) (sel_ops h1)) t).
Proof.
  intros H Hn F. rewrite dtrace_nth, dispatch_routes_agree; [|now apply dyn_run|assumption].
  now rewrite d_sel_run, view_correct.
Qed.

(* a function reference captured by ANY thread u through ANY route while dispatch was dynamic, called by ANY thread
   t after ANY further history h2 (use_static_dispatch included), runs on t's backend at the time of the call *)
Theorem captured_follows_view d h1 u r n h2 t h3 :
  dyn_ok nc d -> no_static h1 -> is_fun nc n = true ->
  let k := length (d_caps d) + length (cap_names h1) in
  let h := h1 ++ DCapture u r n :: h2 in
  nth (length h) (dtrace d (h ++ DCallCap t k :: h3)) DNone
  = DRan (view (tls (d_sel d) t) (shared (d_sel d)) (events R c (d_sel d) (sel_ops h)) t).
Proof.
  intros H Hn F k h. rewrite dtrace_nth. unfold BackendDispatch.dout. simpl.
  assert (E : nth k (d_caps (drun d h)) VError = VWrapper n).
  { unfold h. rewrite drun_app. change (DCapture u r n :: h2) with ([DCapture u r n] ++ h2). rewrite drun_app.
    destruct (d_caps_run h2 (drun (drun d h1) [DCapture u r n])) as [l2 [E2 _]]. rewrite E2.
    destruct (d_caps_run h1 d) as [l1 [E1 L1]].
    simpl. rewrite E1, fun_route_dyn; [|now apply dyn_run|assumption].
    rewrite app_nth1; [|rewrite !app_length; simpl; unfold k; lia].
    rewrite app_nth2; [|unfold k; rewrite app_length; lia].
    replace (k - length (d_caps d ++ l1)) with 0; [reflexivity|].
    unfold k. rewrite app_length. lia. }
  rewrite E. simpl. now rewrite d_sel_run, view_correct.
Qed.

(* ------------------------------------------------------------ the other clauses, seen through dispatched calls *)

Definition dflag_local (o : dop) : bool := match o with DSel o' => flag_local o' | DStatic _ => false | _ => true end.

Lemma sel_ops_forall (P : op -> Prop) (Q : dop -> Prop) h :
  (forall o, Q (DSel o) -> P o) -> Forall Q h -> Forall P (sel_ops h).
Proof.
  intros HPQ H. induction H as [|o h Ho _ IH]; [constructor|].
  destruct o; simpl; try exact IH. constructor; [now apply HPQ|exact IH].
Qed.

(* isolation: whatever the OTHER threads do thread-locally (sets, contexts entered and left, captures, calls,
   use_dynamic_dispatch), a dispatched function called by t through any route runs on the same object as before *)
Theorem dispatch_isolation d h t r n :
  keep_flag R = true -> dyn_ok nc d -> is_fun nc n = true -> ctx_local_except t (d_sel d) ->
  Forall (fun o => dthr o <> t /\ dflag_local o = true) h ->
  dout (drun d h) (DCall t r n) = dout d (DCall t r n).
Proof.
  intros K H F Hc Hh.
  assert (Hn : no_static h).
  { intros u Hin. rewrite Forall_forall in Hh. destruct (Hh _ Hin) as [_ X]. discriminate. }
  rewrite !dispatch_routes_agree; try assumption; [|now apply dyn_run].
  rewrite d_sel_run. f_equal.
  apply (isolation_history R c t K (sel_ops h) (d_sel d) Hc).
  apply (sel_ops_forall _ (fun o => dthr o <> t /\ dflag_local o = true)); [|assumption].
  intros o [A B]. split; assumption.
Qed.

(* restore: a context of t around any history whose selection operations are properly nested for t (other threads
   arbitrary; captures, calls, use_dynamic_dispatch anywhere), left normally or by exception: afterwards a dispatched
   function called by t runs on the object it ran on before the context *)
Theorem dispatch_restore d t x l b h e r n :
  (forall k, isinst R (Named k) = true) -> wf R (d_sel d) -> dyn_ok nc d -> is_fun nc n = true ->
  resolve R c x = Some b -> seg R c t 0 (sel_ops h) -> no_static h ->
  dout (drun d (DSel (Enter t x l) :: h ++ [DSel (Exit_ t e)])) (DCall t r n) = dout d (DCall t r n).
Proof.
  intros Hk Hw H F Hr Hs Hn.
  rewrite !dispatch_routes_agree; try assumption.
  - rewrite d_sel_run. f_equal.
    change (DSel (Enter t x l) :: h ++ [DSel (Exit_ t e)]) with ([DSel (Enter t x l)] ++ h ++ [DSel (Exit_ t e)]).
    rewrite !sel_ops_app. simpl.
    now destruct (restore R c (d_sel d) t x l b (sel_ops h) e Hk Hw Hr Hs).
  - apply dyn_run; [assumption|]. intros u [X|X]; [discriminate|].
    apply in_app_or in X. destruct X as [X|[X|[]]]; [now apply (Hn u)|discriminate].
Qed.

(* a function bound by name at import (tensorly.context, tensorly.tensor, ...; `from tensorly.tenalg import outer` in a
   library module) is the closure for ever: through that binding the call follows the caller in EVERY history,
   use_static_dispatch included - no side condition on the history *)
Theorem top_binding_always_dynamic own0 h1 t n h2 :
  top_bound nc n = true -> is_fun nc n = true ->
  let d := dinit nc own0 in
  nth (length h1) (dtrace d (h1 ++ DCall t RTop n :: h2)) DNone
  = DRan (view (own0 t) (Named 0) (events R c (init own0) (sel_ops h1)) t).
Proof.
  intros T F d. rewrite dtrace_nth. unfold BackendDispatch.dout. cbn [dstep snd]. unfold BackendDispatch.eval.
  rewrite d_top_run. simpl. rewrite T, F. simpl. now rewrite d_sel_run, view_correct.
Qed.

(* get_backend() names the object a dispatched function runs on: Query and a dispatched call through any route, issued
   by the same thread in the same state, agree *)
Theorem dispatch_query_consistent d t r n :
  dyn_ok nc d -> is_fun nc n = true ->
  exists b, dout d (DCall t r n) = DRan b /\ dout d (DSel (Query t)) = DSelObs (OName (name_of c b)) /\
            dout d (DSel (Dispatch t)) = DSelObs (OInst b).
Proof.
  intros H F. exists (cur (d_sel d) t). split; [now apply dispatch_routes_agree|]. split; reflexivity.
Qed.

(* ------------------------------------------------------------ attributes *)

Lemma attr_route_dyn d t n : dyn_ok nc d -> is_fun nc n = false -> is_attr nc n = true ->
  eval d t RMgr n = VAttr (cur (d_sel d) t) n /\
  (d_top d n = None -> eval d t RTop n = VAttr (cur (d_sel d) t) n) /\
  eval d t RClass n = if descr_class D then VAttr (cur (d_sel d) t) n else VError.
Proof.
  intros [Hf [Ha _]] F A. simpl. rewrite (Ha n F A). simpl. repeat split.
  intros ->. reflexivity.
Qed.

Theorem attribute_follows_view d h1 t n h2 :
  dyn_ok nc d -> no_static h1 -> is_fun nc n = false -> is_attr nc n = true ->
  let v := view (tls (d_sel d) t) (shared (d_sel d)) (events R c (d_sel d) (sel_ops h1)) t in
  nth (length h1) (dtrace d (h1 ++ DCall t RMgr n :: h2)) DNone = DVal v /\
  (d_top d n = None -> nth (length h1) (dtrace d (h1 ++ DCall t RTop n :: h2)) DNone = DVal v) /\
  nth (length h1) (dtrace d (h1 ++ DCall t RClass n :: h2)) DNone = if descr_class D then DVal v else DErr.
Proof.
  intros H Hn F A v. rewrite !dtrace_nth. unfold BackendDispatch.dout. cbn [dstep snd].
  destruct (attr_route_dyn (drun d h1) t n (dyn_run h1 d H Hn) F A) as [E1 [E2 E3]].
  rewrite E1, E3.
  assert (V : cur (d_sel (drun d h1)) t = v) by (unfold v; now rewrite d_sel_run, view_correct).
  rewrite V. split; [reflexivity|]. split.
  - intros T. rewrite E2; [now rewrite V|now rewrite d_top_run].
  - now destruct (descr_class D).
Qed.

(* the class route (BackendManager.<attr>) with the repaired descriptor: the attribute of the accessing thread's view *)
Theorem class_attribute_follows_view d h1 t n h2 :
  descr_class D = true -> dyn_ok nc d -> no_static h1 -> is_fun nc n = false -> is_attr nc n = true ->
  nth (length h1) (dtrace d (h1 ++ DCall t RClass n :: h2)) DNone
  = DVal (view (tls (d_sel d) t) (shared (d_sel d)) (events R c (d_sel d) (sel_ops h1)) t).
Proof.
  intros HD H Hn F A. destruct (attribute_follows_view d h1 t n h2 H Hn F A) as [_ [_ E]].
  now rewrite HD in E.
Qed.

(* an attribute bound by name when the package was imported keeps the value of the import-time backend, whatever
   happens afterwards (tensorly.int64, float64, pi, e, inf, nan, index) *)
Theorem top_attribute_import_time own0 h1 t n h2 :
  top_bound nc n = true -> is_fun nc n = false -> is_attr nc n = true ->
  nth (length h1) (dtrace (dinit nc own0) (h1 ++ DCall t RTop n :: h2)) DNone = DVal (Named 0).
Proof.
  intros T F A. rewrite dtrace_nth. unfold BackendDispatch.dout. simpl. rewrite d_top_run. simpl.
  now rewrite T, F, A.
Qed.

(* ------------------------------------------------------------ use_static_dispatch *)

Definition no_rebind (h : list dop) : Prop := forall t, ~ In (DStatic t) h /\ ~ In (DDynamic t) h.

Lemma d_cls_run : forall h d, no_rebind h -> d_cls (drun d h) = d_cls d.
Proof.
  induction h as [|o h IH]; intros d Hn; [reflexivity|].
  change (drun d (o :: h)) with (drun (dnxt d o) h). rewrite IH.
  - destruct o; try reflexivity; exfalso; destruct (Hn t) as [A B]; [apply A|apply B]; now left.
  - intros t. destruct (Hn t) as [A B]. split; intros X; [apply A|apply B]; now right.
Qed.

(* after use_static_dispatch() by thread u the manager routes to a function stay on the backend u had at that
   moment, whoever calls and whatever is selected afterwards (the documented meaning of static dispatch), while
   the names bound at import time in the top-level namespace are still the closures and keep following the caller *)
Theorem static_dispatch_frozen d u h t n :
  dyn_ok nc d -> no_rebind h -> is_fun nc n = true ->
  let d' := drun (dnxt d (DStatic u)) h in
  dout d' (DCall t RMgr n) = DRan (cur (d_sel d) u) /\
  dout d' (DCall t RClass n) = DRan (cur (d_sel d) u) /\
  (top_bound nc n = true -> d_top d n = Some (VWrapper n) -> dout d' (DCall t RTop n) = DRan (cur (d_sel d') t)).
Proof.
  intros H Hn F d'. unfold BackendDispatch.dout. simpl.
  assert (E : d_cls d' n = SStatic (cur (d_sel d) u)).
  { unfold d'. rewrite d_cls_run; [|assumption]. simpl. now rewrite F. }
  rewrite E. simpl. rewrite F. repeat split.
  intros _ T. unfold d'. rewrite d_top_run. simpl. now rewrite T.
Qed.

(* ... and so do the dispatched attributes: the value u's backend had, through the module and through the class *)
Theorem static_dispatch_frozen_attributes d u h t n :
  no_rebind h -> is_fun nc n = false -> is_attr nc n = true ->
  let d' := drun (dnxt d (DStatic u)) h in
  dout d' (DCall t RMgr n) = DVal (cur (d_sel d) u) /\ dout d' (DCall t RClass n) = DVal (cur (d_sel d) u).
Proof.
  intros Hn F A d'. unfold BackendDispatch.dout. simpl.
  assert (E : d_cls d' n = SStatic (cur (d_sel d) u)).
  { unfold d'. rewrite d_cls_run; [|assumption]. simpl. rewrite F, A. reflexivity. }
  rewrite E. simpl. rewrite F. split; reflexivity.
Qed.

End D.

(* ------------------------------------------------------------ initialize_backend *)
Section Init.
Variables (R : rules) (c : cfg) (listed : name -> bool).

(* the name initialize_backend ends up selecting *)
Definition init_name (env : option name) : name :=
  match env with Some n => if listed n then n else 0 | None => 0 end.

(* if that name can be loaded, the import succeeds: EVERY thread then sees the instance of that name - the importing
   thread as its own selection, all others as the shared default -, _default_backend is that name, no context is
   open; a warning is issued exactly when the environment asked for a name that is not listed *)
Theorem initialize_ok env t0 :
  listed 0 = true -> known c (init_name env) = true ->
  exists s, initialize R c listed env t0 = IOk (match env with Some n => negb (listed n) | None => false end) s /\
    (forall t, cur s t = Named (init_name env)) /\ shared s = Named (init_name env) /\ dname s = init_name env /\
    (forall t, tls s t = if Nat.eqb t t0 then Some (Named (init_name env)) else None) /\ (forall t, ctx s t = []).
Proof.
  intros L0 K. unfold initialize, init_name in *.
  set (req := match env with Some n => n | None => 0 end).
  assert (E : (if listed req then req else 0) = match env with Some n => if listed n then n else 0 | None => 0 end).
  { unfold req. destruct env; [reflexivity|]. now rewrite L0. }
  rewrite E. unfold set_backend. simpl. rewrite K. eexists. split.
  - f_equal. unfold req. destruct env; [reflexivity|]. now rewrite L0.
  - simpl. repeat split; try reflexivity.
    intros t. unfold cur, current_backend, upd. simpl. now destruct (Nat.eqb t t0).
Qed.

(* a listed name that cannot be imported makes `import tensorly` fail (ImportError from load_backend); an unlisted
   request never does: it falls back to the built-in default *)
Theorem initialize_fails_iff env t0 :
  listed 0 = true -> known c 0 = true ->
  ((exists w, initialize R c listed env t0 = IFail w) <-> known c (init_name env) = false).
Proof.
  intros L0 K0. unfold initialize, init_name.
  set (req := match env with Some n => n | None => 0 end).
  assert (E : (if listed req then req else 0) = match env with Some n => if listed n then n else 0 | None => 0 end).
  { unfold req. destruct env; [reflexivity|]. now rewrite L0. }
  rewrite E. unfold set_backend. simpl.
  destruct (known c (match env with Some n => if listed n then n else 0 | None => 0 end)) eqn:K; split.
  - intros [w H]. discriminate.
  - discriminate.
  - reflexivity.
  - intros _. eexists. reflexivity.
Qed.

End Init.

(* ------------------------------------------------------------ re-binding under concurrency *)
Section Rebind.
Variable fresh : fname -> slot.

(* WITHOUT the delattr: in every schedule, every look-up of every name by any other thread finds either the binding
   from before the call or the new one ... *)
Lemma rsched_old_or_fresh : forall names l cl0 cl,
  (forall n, cl n = cl0 n \/ cl n = fresh n) ->
  Forall (fun s => exists n, s = cl0 n \/ s = fresh n) (rsched cl (rprog false fresh names) l).
Proof.
  induction names as [|m names IH]; intros l cl0 cl Hcl.
  - simpl. induction l as [|[[|] n] l IHl]; simpl; [constructor|exact IHl|].
    constructor; [exists n; apply Hcl|exact IHl].
  - revert cl Hcl. induction l as [|[[|] n] l IHl]; intros cl Hcl; [constructor| |].
    + simpl. apply IH. intros k. simpl. destruct (Nat.eqb_spec k m) as [->|]; [now right|apply Hcl].
    + simpl. constructor; [exists n; apply Hcl|]. apply (IHl cl Hcl).
Qed.

(* ... hence never a missing attribute *)
Theorem rebind_no_window names l cl :
  (forall n, cl n <> SAbsent) -> (forall n, fresh n <> SAbsent) ->
  Forall (fun s => s <> SAbsent) (rsched cl (rprog false fresh names) l).
Proof.
  intros Hc Hf. pose proof (rsched_old_or_fresh names l cl cl (fun n => or_introl eq_refl)) as H.
  rewrite Forall_forall in *. intros s Hs. destruct (H s Hs) as [n [->| ->]]; auto.
Qed.

End Rebind.

(* WITH the delattr (the loop as written): a look-up of another thread between the two acts finds the name missing,
   although it is bound before and after - through the manager module that is an AttributeError *)
Lemma rebind_window_refuted :
  let cl := fun _ : fname => SWrap in
  rsched cl (rprog true (fun _ => SWrap) [0; 1]) [(false, 0); (true, 0); (false, 0); (false, 1); (true, 0); (false, 0)]
  = [SWrap; SAbsent; SWrap; SWrap] /\
  (forall nc s t D, eval_slot nc s t true D SAbsent 0 = VError) /\
  rsched cl (rprog false (fun _ => SWrap) [0; 1]) [(false, 0); (true, 0); (false, 0); (false, 1); (true, 0); (false, 0)]
  = [SWrap; SWrap; SWrap; SWrap].
Proof. repeat split. Qed.

(* ------------------------------------------------------------ register_backend_method *)
Section Reg.
Variables (R : rules) (H : hcfg) (c : cfg).

(* registration touches neither the selection state nor any other name *)
Lemma register_other_name s mt u n v cl m : m <> n -> register c s mt u n v cl m = mt cl m.
Proof.
  intros Hm. unfold register. destruct (Nat.eqb_spec m n); [congruence|]. now rewrite andb_false_r.
Qed.

(* one registration, at class level: the table after `register` is the table with one entry overwritten *)
Definition reg1 (mt : mtab) (target : name) (n : fname) (v : nat) : mtab :=
  fun k m => if Nat.eqb k target && Nat.eqb m n then MHas v else mt k m.

Lemma reg1_hit mt target n v : reg1 mt target n v target n = MHas v.
Proof. unfold reg1. now rewrite !Nat.eqb_refl. Qed.
Lemma reg1_miss mt target n v cl : cl <> target -> reg1 mt target n v cl n = mt cl n.
Proof. intros Hn. unfold reg1. destruct (Nat.eqb_spec cl target); [contradiction|reflexivity]. Qed.
Lemma reg1_other mt target n v cl m : m <> n -> reg1 mt target n v cl m = mt cl m.
Proof. intros Hm. unfold reg1. destruct (Nat.eqb_spec m n); [congruence|]. now rewrite andb_false_r. Qed.

(* ANY depth: if the class the method was registered on lies on the chain the look-up walks, the look-up finds it *)
Lemma lookup_chain mt target n v : forall fuel cl,
  on_chain fuel H mt cl n target -> lookup_d fuel H (reg1 mt target n v) cl n = Some v.
Proof.
  induction fuel as [|f IH]; intros cl Hc.
  - destruct Hc as [->|[]]. simpl. now rewrite reg1_hit.
  - destruct (Nat.eq_dec cl target) as [->|Hn]; [simpl; now rewrite reg1_hit|].
    destruct Hc as [->|[Hi Hp]]; [contradiction|]. simpl. rewrite reg1_miss by exact Hn. rewrite Hi.
    destruct (cparent H cl) as [p|]; [|contradiction]. now apply IH.
Qed.

(* ... and if it does not, the look-up is what it was *)
Lemma lookup_off_chain mt target n v : forall fuel cl,
  ~ on_chain fuel H mt cl n target -> lookup_d fuel H (reg1 mt target n v) cl n = lookup_d fuel H mt cl n.
Proof.
  induction fuel as [|f IH]; intros cl Hc.
  - assert (Hn : cl <> target) by (intros ->; apply Hc; now left). simpl. now rewrite reg1_miss.
  - assert (Hn : cl <> target) by (intros ->; apply Hc; now left). simpl. rewrite reg1_miss by exact Hn.
    destruct (mt cl n) eqn:E; try reflexivity.
    destruct (cparent H cl) as [p|] eqn:P; [|reflexivity]. apply IH. intros Hp. apply Hc. right. simpl. rewrite P. split; assumption.
Qed.

Lemma lookup_other_name mt target n v m : m <> n -> forall fuel cl,
  lookup_d fuel H (reg1 mt target n v) cl m = lookup_d fuel H mt cl m.
Proof.
  intros Hm. induction fuel as [|f IH]; intros cl; simpl; rewrite reg1_other by exact Hm; [reflexivity|].
  destruct (mt cl m); try reflexivity. destruct (cparent H cl); [apply IH|reflexivity].
Qed.

Lemma register_reg1 s mt u n v : register c s mt u n v = reg1 mt (name_of c (cur s u)) n v.
Proof. reflexivity. Qed.

(* a method registered by thread u is what the closure runs for EVERY thread whose current backend is of the class of
   u's backend, or of a subclass - at ANY depth - that reaches that class through classes that do not define the name
   themselves: at once, whatever thread-local selections are in force *)
Theorem registered_inherited_deep s mt u n v t :
  on_chain (cdepth H) H mt (name_of c (cur s t)) n (name_of c (cur s u)) ->
  which H c s (register c s mt u n v) t n = Some (cur s t, v).
Proof.
  intros Hc. unfold which, lookup. rewrite register_reg1, lookup_chain by exact Hc. reflexivity.
Qed.

Theorem registered_same_class s mt u n v t :
  name_of c (cur s t) = name_of c (cur s u) ->
  which H c s (register c s mt u n v) t n = Some (cur s t, v).
Proof.
  intros E. apply registered_inherited_deep. destruct (cdepth H); now left.
Qed.

(* the one-level case *)
Theorem registered_inherited s mt u n v t :
  cdepth H <> 0 ->
  mt (name_of c (cur s t)) n = MInherit -> cparent H (name_of c (cur s t)) = Some (name_of c (cur s u)) ->
  which H c s (register c s mt u n v) t n = Some (cur s t, v).
Proof.
  intros Hd Hi Hp. apply registered_inherited_deep. destruct (cdepth H) as [|f]; [contradiction|].
  right. simpl. rewrite Hp. split; [exact Hi|]. destruct f; now left.
Qed.

(* threads whose look-up does not pass through the class of u's backend - an unrelated class, or a class (or an
   intermediate ancestor) with a definition of its own - are not affected; nor is any other name for anybody *)
Theorem registered_elsewhere_unchanged s mt u n v t :
  ~ on_chain (cdepth H) H mt (name_of c (cur s t)) n (name_of c (cur s u)) ->
  which H c s (register c s mt u n v) t n = which H c s mt t n.
Proof.
  intros Hc. unfold which, lookup. rewrite register_reg1, lookup_off_chain by exact Hc. reflexivity.
Qed.

Theorem registered_other_name s mt u n v t m : m <> n ->
  which H c s (register c s mt u n v) t m = which H c s mt t m.
Proof.
  intros Hm. unfold which, lookup. rewrite register_reg1, lookup_other_name by exact Hm. reflexivity.
Qed.

(* a backend whose class provides nothing under the name: the dispatched call raises AttributeError *)
Theorem undefined_raises s mt t n : lookup H mt (name_of c (cur s t)) n = None -> which H c s mt t n = None.
Proof. intros E. unfold which. now rewrite E. Qed.

Notation rrun := (rrun R H c).
Notation rtrace := (rtrace R H c).

Lemma rrun_app x h1 h2 : rrun x (h1 ++ h2) = rrun (rrun x h1) h2.
Proof. unfold rrun, BackendDispatch.rrun. apply fold_left_app. Qed.
Lemma rtrace_app : forall h1 x h2, rtrace x (h1 ++ h2) = rtrace x h1 ++ rtrace (rrun x h1) h2.
Proof. induction h1; intros; simpl; [reflexivity|]. now rewrite IHh1. Qed.
Lemma rtrace_length : forall h x, length (rtrace x h) = length h.
Proof. induction h; intros; simpl; auto. Qed.
Lemma r_sel_run : forall h x, r_sel (rrun x h) = run R c (r_sel x) (rsel_ops h).
Proof.
  induction h as [|o h IH]; intros x; [reflexivity|].
  change (rrun x (o :: h)) with (rrun (rnxt R H c x o) h). rewrite IH. destruct o; reflexivity.
Qed.

(* at ANY position of ANY history of selections, registrations and calls over any threads: the call is executed by the
   caller's view (C17_view), with what the class of that object provides after the registrations so far *)
Theorem registered_call_follows_view x h1 t n h2 :
  let b := view (tls (r_sel x) t) (shared (r_sel x)) (events R c (r_sel x) (rsel_ops h1)) t in
  nth (length h1) (rtrace x (h1 ++ RCall t n :: h2)) RNone
  = RRan (option_map (pair b) (lookup H (r_mt (rrun x h1)) (name_of c b) n)).
Proof.
  intros b. rewrite rtrace_app, app_nth2; rewrite rtrace_length; [|lia]. rewrite Nat.sub_diag. simpl.
  unfold BackendDispatch.rout. simpl. unfold which. rewrite r_sel_run.
  change (cur (run R c (r_sel x) (rsel_ops h1)) t) with (cur (run R c (r_sel x) (rsel_ops h1)) t).
  rewrite view_correct. reflexivity.
Qed.

End Reg.

(* a name that is in neither _functions nor _attributes is not dispatched at all: registering it (on whatever class)
   does not make it reachable through any route - AttributeError, in every history *)
Theorem unlisted_name_not_dispatched (R : rules) (c : cfg) (D : drules) (nc : ncfg) own0 h1 t r n h2 :
  is_fun nc n = false -> is_attr nc n = false ->
  nth (length h1) (dtrace R c D nc (dinit nc own0) (h1 ++ DCall t r n :: h2)) DNone = DErr.
Proof.
  intros F A. rewrite dtrace_nth. unfold BackendDispatch.dout. cbn [dstep snd].
  assert (Hc : forall h d, d_cls d n = SAbsent -> d_cls (drun R c D nc d h) n = SAbsent).
  { induction h as [|o h IH]; intros d E; [exact E|].
    change (drun R c D nc d (o :: h)) with (drun R c D nc (dnxt R c D nc d o) h). apply IH.
    destruct o; simpl; try exact E; now rewrite F, A. }
  assert (E : d_cls (drun R c D nc (dinit nc own0) h1) n = SAbsent).
  { apply Hc. simpl. now rewrite F, A. }
  assert (T : d_top (drun R c D nc (dinit nc own0) h1) n = None).
  { rewrite d_top_run. simpl. destruct (top_bound nc n); [now rewrite F, A|reflexivity]. }
  destruct r; unfold BackendDispatch.eval; rewrite ?T, E; reflexivity.
Qed.

(* ------------------------------------------------------------ the metadata of the closure *)
Section Meta.
Variables (R : rules) (c : cfg).
Notation wrun := (wrun R c).
Notation wtrace := (wtrace R c).

Lemma wtrace_nth : forall h1 x o h2, nth (length h1) (wtrace x (h1 ++ o :: h2)) WNone = wout R c (wrun x h1) o.
Proof.
  induction h1 as [|a h1 IH]; intros x o h2; [reflexivity|]. simpl. apply IH.
Qed.

Lemma w_top_run : forall h x, w_top (wrun x h) = w_top x.
Proof.
  induction h as [|o h IH]; intros x; [reflexivity|].
  change (wrun x (o :: h)) with (wrun (wnxt R c x o) h). rewrite IH. destruct o; reflexivity.
Qed.

Lemma w_cls_run : forall h x, no_wdynamic h -> w_cls (wrun x h) = w_cls x.
Proof.
  induction h as [|o h IH]; intros x Hn; [reflexivity|].
  change (wrun x (o :: h)) with (wrun (wnxt R c x o) h). rewrite IH.
  - destruct o; try reflexivity. exfalso. apply (Hn t). now left.
  - intros t Hin. apply (Hn t). now right.
Qed.

(* the metadata does NOT follow the backend: whatever any thread selects, in any history without use_dynamic_dispatch,
   following __wrapped__ from any thread reaches the backend the closure was made with (after import: the default) *)
Theorem unwrap_static x h1 t top h2 :
  no_wdynamic h1 ->
  nth (length h1) (wtrace x (h1 ++ WUnwrap t top :: h2)) WNone = WRan (if top then w_top x else w_cls x).
Proof.
  intros Hn. rewrite wtrace_nth. unfold BackendDispatch.wout. simpl. rewrite w_top_run, w_cls_run; [reflexivity|assumption].
Qed.

(* the import-time bindings keep theirs even across use_dynamic_dispatch *)
Theorem unwrap_top_static x h1 t h2 :
  nth (length h1) (wtrace x (h1 ++ WUnwrap t true :: h2)) WNone = WRan (w_top x).
Proof. rewrite wtrace_nth. unfold BackendDispatch.wout. simpl. now rewrite w_top_run. Qed.

(* use_dynamic_dispatch by thread u makes the class closures anew, with u's backend of that moment *)
Theorem dynamic_remakes x u h t h2 :
  no_wdynamic h ->
  nth (S (length h)) (wtrace x (WDynamic u :: h ++ WUnwrap t false :: h2)) WNone = WRan (cur (w_sel x) u).
Proof.
  intros Hn. change (WDynamic u :: h ++ WUnwrap t false :: h2) with ((WDynamic u :: h) ++ WUnwrap t false :: h2).
  change (S (length h)) with (length (WDynamic u :: h)). rewrite wtrace_nth. unfold BackendDispatch.wout. simpl.
  change (fold_left (wnxt R c) h (wnxt R c x (WDynamic u))) with (wrun (wnxt R c x (WDynamic u)) h).
  now rewrite w_cls_run.
Qed.

(* while the CALL through the same closure follows the caller (the selection machine's view) *)
Lemma w_sel_run : forall h x, w_sel (wrun x h) = run R c (w_sel x) (flat_map (fun o => match o with WSel o => [o] | _ => [] end) h).
Proof.
  induction h as [|o h IH]; intros x; [reflexivity|].
  change (wrun x (o :: h)) with (wrun (wnxt R c x o) h). rewrite IH. destruct o; reflexivity.
Qed.

Theorem wcall_follows_view x h1 t top h2 :
  nth (length h1) (wtrace x (h1 ++ WCall t top :: h2)) WNone
  = WRan (view (tls (w_sel x) t) (shared (w_sel x))
               (events R c (w_sel x) (flat_map (fun o => match o with WSel o => [o] | _ => [] end) h1)) t).
Proof. rewrite wtrace_nth. unfold BackendDispatch.wout. simpl. now rewrite w_sel_run, view_correct. Qed.

End Meta.

(* ------------------------------------------------------------ threads that start late *)
Section Fresh.
Variables (R : rules) (c : cfg).

Lemma events_other u : forall h s, Forall (fun o => thr o <> u) h ->
  Forall (fun e => by_thread u e = false) (events R c s h).
Proof.
  induction h as [|o h IH]; intros s Hh; [constructor|].
  inversion Hh as [|? ? Ho Hh']; subst. simpl. apply Forall_app. split; [|now apply IH].
  destruct (event R c s o) as [[[v b] l]|] eqn:E; [|constructor]. constructor; [|constructor].
  apply (event_thr R c) in E. unfold by_thread. simpl. subst v.
  destruct (Nat.eqb_spec u (thr o)); [congruence|reflexivity].
Qed.

Lemma last_from_none p acc l : Forall (fun e => p e = false) l -> last_from p acc l = acc.
Proof.
  unfold last_from. revert acc. induction l as [|e l IH]; intros acc H; [reflexivity|].
  inversion H; subst. simpl. rewrite H2. now apply IH.
Qed.

(* a thread that has not selected anything (in particular: a thread started at this moment, by anybody, inside or
   outside of any context) observes the shared default = the most recent NON-local selection of anybody, context
   entries and restores included; thread-local selections and thread-local contexts of its parent do not reach it *)
Theorem fresh_thread_view s h u :
  tls s u = None -> Forall (fun o => thr o <> u) h ->
  tls (run R c s h) u = None /\
  cur (run R c s h) u = shared (run R c s h) /\
  cur (run R c s h) u = match last_from is_global None (events R c s h) with Some b => b | None => shared s end.
Proof.
  intros T Hh.
  assert (E : tls (run R c s h) u = None).
  { rewrite tls_run, last_from_none; [assumption|now apply events_other]. }
  split; [assumption|]. split.
  - unfold cur, current_backend. now rewrite E.
  - rewrite view_correct. unfold view. rewrite last_from_none; [|now apply events_other]. now rewrite T.
Qed.

(* started inside a live context of thread t: the context's backend if it was entered non-locally, otherwise what
   the new thread would have seen without the context *)
Corollary thread_started_in_context s t x l b u :
  resolve R c x = Some b -> tls s u = None -> u <> t ->
  cur (nxt R c s (Enter t x l)) u = if l then shared s else b.
Proof.
  intros Hr T Hu. unfold cur, current_backend.
  rewrite tls_other; [|assumption]. rewrite T, nxt_shared. simpl. rewrite Hr. now destruct l.
Qed.

End Fresh.

(* ------------------------------------------------------------ contexts of the two managers nested in one another *)
Section Mixed.
Variables (R : rules) (cb ct : cfg).

Lemma proj_app {A} m (h1 h2 : list (bool * A)) : proj m (h1 ++ h2) = proj m h1 ++ proj m h2.
Proof. unfold proj. now rewrite filter_app, map_app. Qed.

(* a context of manager m around ANY mixed history whose operations on m are properly nested for the thread:
   whatever the same thread (and every other) does with the OTHER manager in between - selections, contexts opened
   inside and left inside, contexts opened inside and still open afterwards - the exit restores m's backend and
   context stack of the thread, and the other manager is exactly where its own operations put it *)
Theorem restore_mixed m s t x l b h e :
  (forall n, isinst R (Named n) = true) -> wf R (on m s) -> resolve R (cfg2 cb ct m) x = Some b ->
  seg R (cfg2 cb ct m) t 0 (proj m h) ->
  let hist := (m, Enter t x l) :: h ++ [(m, Exit_ t e)] in
  cur (on m (run2 R cb ct s hist)) t = cur (on m s) t /\
  ctx (on m (run2 R cb ct s hist)) t = ctx (on m s) t /\
  on (negb m) (run2 R cb ct s hist) = run R (cfg2 cb ct (negb m)) (on (negb m) s) (proj (negb m) h).
Proof.
  intros Hn Hw Hr Hs hist.
  assert (P1 : proj m hist = Enter t x l :: proj m h ++ [Exit_ t e]).
  { unfold hist. change ((m, Enter t x l) :: h ++ [(m, Exit_ t e)]) with ([(m, Enter t x l)] ++ h ++ [(m, Exit_ t e)]).
    rewrite !proj_app. unfold proj at 1 3. simpl. now rewrite eqb_reflx. }
  assert (P2 : proj (negb m) hist = proj (negb m) h).
  { unfold hist. change ((m, Enter t x l) :: h ++ [(m, Exit_ t e)]) with ([(m, Enter t x l)] ++ h ++ [(m, Exit_ t e)]).
    rewrite !proj_app. unfold proj at 1 3. simpl. destruct m; simpl; now rewrite app_nil_r. }
  rewrite !run2_proj, P1, P2.
  destruct (restore R (cfg2 cb ct m) (on m s) t x l b (proj m h) e Hn Hw Hr Hs) as [A B].
  repeat split; assumption.
Qed.

End Mixed.

(* a tensor-algebra function is itself dispatched (on tensorly.tenalg's manager) and its body calls dispatched
   functions of tensorly.backend's manager: in thread t it is executed by t's tenalg view and computes on t's
   backend view, each determined by the operations on ITS manager alone *)
Definition composite (s : st2) (t : tid) : inst * inst := (cur (s_ta s) t, cur (s_bk s) t).

Theorem composite_view (R : rules) (cb ct : cfg) (h : list mop) (s : st2) (t : tid) :
  composite (run2 R cb ct s h) t
  = (view (tls (s_ta s) t) (shared (s_ta s)) (events R ct (s_ta s) (proj true h)) t,
     view (tls (s_bk s) t) (shared (s_bk s)) (events R cb (s_bk s) (proj false h)) t).
Proof.
  unfold composite. f_equal.
  - exact (managers_independent R cb ct true h s t).
  - exact (managers_independent R cb ct false h s t).
Qed.

(* ------------------------------------------------------------ non-vacuity *)
(* names: 0 context (function, bound at import), 1 trace (function, reached through __getattr__),
          2 complex64 (attribute, through __getattr__), 3 int64 (attribute, bound at import) *)
Definition nc0 : ncfg := {| is_fun := fun n => Nat.ltb n 2; is_attr := fun n => Nat.ltb 1 n && Nat.ltb n 4;
                            top_bound := fun n => Nat.eqb n 0 || Nat.eqb n 3 |}.
Definition d0 : dst := dinit nc0 (fun t => if Nat.eqb t 0 then Some (Named 0) else None).

(* thread 1 captures tensorly.context and tensorly.backend.trace, thread 2 selects Obj 0 thread-locally, thread 1
   enters a NON-local context (Named 1); everybody calls everything; thread 3 "starts" inside the context;
   use_static_dispatch by thread 2; thread 1 leaves the context *)
Definition hist0 : list dop :=
  [DCapture 1 RTop 0; DCapture 1 RMgr 1; DSel (Set_ 2 (SInst (Obj 0)) true); DSel (Enter 1 (SName 1) false);
   DCallCap 2 0; DCallCap 1 1; DCallCap 3 0; DCall 2 RTop 1; DCall 0 RClass 0; DCall 2 RMgr 2; DCall 3 RTop 2;
   DCall 2 RTop 3; DCall 1 RClass 2;
   DStatic 2; DSel (Exit_ 1 true);
   DCall 1 RMgr 1; DCall 1 RTop 1; DCall 1 RTop 0; DCallCap 3 1; DCall 3 RMgr 2; DCall 3 RTop 3;
   DDynamic 0; DCall 3 RMgr 1].

Lemma dispatch_nonvacuous :
  dyn_ok nc0 d0 /\ no_static (firstn 13 hist0) /\
  dtrace fixed_rules cfg0 tree_drules nc0 d0 hist0
  = [DNone; DNone; DSelObs ODone; DSelObs ODone;
     DRan (Obj 0); DRan (Named 1); DRan (Named 1); DRan (Obj 0); DRan (Named 0); DVal (Obj 0); DVal (Named 1);
     DVal (Named 0); DVal (Named 1);
     DNone; DSelObs OReraised;
     DRan (Obj 0); DRan (Obj 0); DRan (Named 0); DRan (Named 0); DVal (Obj 0); DVal (Named 0);
     DNone; DRan (Named 0)].
Proof.
  split; [apply dyn_init|]. split; [|vm_compute; reflexivity].
  intros t H. simpl in H. repeat (destruct H as [H|H]; [discriminate|]). exact H.
Qed.

(* the tree before /repo commit 0b04404: the same class-level access to a dispatched attribute (position 12 of hist0)
   raised AttributeError; everything else is unchanged *)
Lemma descriptor_before_0b04404 :
  nth 12 (dtrace fixed_rules cfg0 drules_before_0b04404 nc0 d0 hist0) DNone = DErr /\
  nth 12 (dtrace fixed_rules cfg0 tree_drules nc0 d0 hist0) DNone = DVal (Named 1) /\
  (forall k, k <> 12 -> nth k (dtrace fixed_rules cfg0 drules_before_0b04404 nc0 d0 hist0) DNone
                        = nth k (dtrace fixed_rules cfg0 tree_drules nc0 d0 hist0) DNone).
Proof.
  split; [vm_compute; reflexivity|]. split; [vm_compute; reflexivity|].
  intros k Hk. do 23 (destruct k as [|k]; [try (vm_compute; reflexivity); exfalso; now apply Hk|]).
  vm_compute. destruct k; reflexivity.
Qed.

(* mixed nesting: thread 1 enters a tensorly.backend context, inside it opens a tensorly.tenalg context that it
   does NOT leave before leaving the outer one, while thread 2 selects globally on both managers *)
Lemma restore_mixed_nonvacuous :
  let h := [(true, Enter 1 (SName 1) false); (false, Set_ 2 (SName 2) false); (true, Set_ 2 (SName 2) true);
            (false, Enter 1 (SInst (Obj 0)) true); (false, Exit_ 1 true)] in
  seg fixed_rules cfg0 1 0 (proj false h) /\
  trace2 fixed_rules cfg0 cfg0 (init2 (fun _ => None))
    ((false, Enter 1 (SName 1) true) :: h ++ [(false, Exit_ 1 false); (false, Query 1); (true, Query 1); (true, Query 3)])
  = [(false, ODone); (true, ODone); (false, ODone); (true, ODone); (false, ODone); (false, OReraised);
     (false, ODone); (false, OName 0); (true, OName 1); (true, OName 1)].
Proof.
  cbv zeta. split; [|vm_compute; reflexivity].
  unfold proj. simpl. apply seg_other; [discriminate|]. eapply seg_enter; [reflexivity|].
  apply seg_exit. apply seg_nil.
Qed.
