(* Micro-step semantics of the backend-selection machine (Model/Backend.v, last part) and its
   reduction to blocks that take effect atomically: every schedule of the acts of any operations of any
   number of threads is observationally the sequential execution of the blocks, in the order in which
   they took effect; a block is a whole operation, except that the entry of a context is two blocks. *)
From Coq Require Import List Arith Bool Lia.
From TLV Require Import Model.Backend Proofs.BackendProofs.
Import ListNotations.

Definition wfp (l : prog) : Prop :=
  Forall (fun ab => snd ab = false -> is_private (fst ab) = true) l.

Definition wf_ev (e : ev) : Prop :=
  match e with Begin _ p => has_lp p = true /\ wfp p | Tick _ => True end.

Section Sim.
Variable c : cfg.

Lemma private_priv a sh1 sh2 p : is_private a = true -> act_priv c sh1 p a = act_priv c sh2 p a.
Proof. destruct a; simpl; try discriminate; reflexivity. Qed.
Lemma private_shared a sh p : is_private a = true -> act_shared sh p a = sh.
Proof. destruct a; simpl; try discriminate; reflexivity. Qed.

(* one thread running acts on (shared, own private state) *)
Definition t1 (x : inst * priv) (a : act) : inst * priv :=
  (act_shared (fst x) (snd x) a, act_priv c (fst x) (snd x) a).
Definition trun (x : inst * priv) (l : list act) : inst * priv := fold_left t1 l x.
(* private acts only *)
Definition foldp (p : priv) (l : list act) : priv := fold_left (fun p a => act_priv c (p_reg p) p a) l p.

Lemma trun_app x l1 l2 : trun x (l1 ++ l2) = trun (trun x l1) l2.
Proof. apply fold_left_app. Qed.
Lemma foldp_app p l1 l2 : foldp p (l1 ++ l2) = foldp (foldp p l1) l2.
Proof. apply fold_left_app. Qed.

Lemma trun_private : forall l sh p, Forall (fun a => is_private a = true) l -> trun (sh, p) l = (sh, foldp p l).
Proof.
  induction l as [|a l IH]; intros sh p H; [reflexivity|].
  inversion H as [|? ? Ha Hl]; subst.
  change (trun (sh, p) (a :: l)) with (trun (t1 (sh, p) a) l).
  change (foldp p (a :: l)) with (foldp (act_priv c (p_reg p) p a) l).
  unfold t1. cbn [fst snd].
  rewrite (private_shared a sh p Ha), (private_priv a sh (p_reg p) p Ha). now apply IH.
Qed.

Lemma trun_lp sh p a post : Forall (fun a => is_private a = true) post ->
  trun (sh, p) (a :: post) = (act_shared sh p a, foldp (act_priv c sh p a) post).
Proof.
  intros H. change (trun (sh, p) (a :: post)) with (trun (t1 (sh, p) a) post).
  unfold t1. cbn [fst snd]. now apply trun_private.
Qed.

Lemma bblock_spec t : forall l b,
  b_shared (bblock c b (t, l)) = fst (trun (b_shared b, b_priv b t) l) /\
  b_priv (bblock c b (t, l)) t = snd (trun (b_shared b, b_priv b t) l) /\
  forall u, u <> t -> b_priv (bblock c b (t, l)) u = b_priv b u.
Proof.
  induction l as [|a l IH]; intros b; [simpl; auto|].
  unfold bblock in *. simpl in *. destruct (IH (bexec c b t a)) as (A & B & C).
  rewrite A, B. unfold bexec at 1 2 3 4. simpl. rewrite upd_same. repeat split; try reflexivity.
  intros u Hu. rewrite C by exact Hu. unfold bexec. simpl. now rewrite upd_other.
Qed.

Definition flush (p : priv) (l : prog) : priv := foldp p (map fst l).

Definition abs_priv (m : mst) (t : tid) : priv :=
  if has_lp (m_pend m t) then m_snap m t else flush (b_priv (m_b m) t) (m_pend m t).

Definition inv (m : mst) : Prop := forall t,
  wfp (m_pend m t) /\
  Forall (fun a => is_private a = true) (m_done m t) /\
  (has_lp (m_pend m t) = true -> b_priv (m_b m) t = foldp (m_snap m t) (m_done m t)).

Definition rel (m : mst) (b : bst) : Prop :=
  b_shared (m_b m) = b_shared b /\ forall t, abs_priv m t = b_priv b t.

Lemma nolp_private (l : prog) : wfp l -> has_lp l = false -> Forall (fun a => is_private a = true) (map fst l).
Proof.
  induction l as [|[a lp] l IH]; intros W H; [constructor|].
  inversion W as [|? ? Ha Wl]; subst. simpl in *. apply orb_false_iff in H. destruct H as [H1 H2].
  constructor; [apply Ha; exact H1 | apply IH; assumption].
Qed.

Theorem step_sim m b e : wf_ev e -> inv m -> rel m b ->
  inv (fst (mstep c m e)) /\ rel (fst (mstep c m e)) (bblocks c b (snd (mstep c m e))).
Proof.
  intros We I [Rs Rp]. destruct e as [t p | t]; simpl.
  - (* Begin *)
    destruct (m_pend m t) as [|ab rest] eqn:E; simpl; [|split; [exact I|split; assumption]].
    destruct We as [Hlp Wp]. split.
    + intros u. simpl. unfold upd. destruct (Nat.eqb_spec u t) as [->|Hu]; [|apply I].
      split; [exact Wp|]. split; [constructor|]. intros _. reflexivity.
    + split; [exact Rs|]. intros u. unfold abs_priv. simpl. unfold upd.
      destruct (Nat.eqb_spec u t) as [->|Hu]; [|apply Rp].
      rewrite Hlp. rewrite <- Rp. unfold abs_priv. rewrite E. reflexivity.
  - (* Tick *)
    destruct (m_pend m t) as [|[a lp] rest] eqn:E; simpl; [split; [exact I|split; assumption]|].
    destruct (I t) as (Wt & Dt & It). rewrite E in Wt, It.
    inversion Wt as [|? ? Ha Wrest]; subst. simpl in Ha.
    destruct lp; simpl.
    + (* the block takes effect *)
      simpl in It. specialize (It eq_refl).
      set (post := if has_lp rest then [] else map fst rest).
      assert (Hpost : Forall (fun a => is_private a = true) post).
      { subst post. destruct (has_lp rest) eqn:Hr; [constructor|apply nolp_private; assumption]. }
      destruct (bblock_spec t (m_done m t ++ a :: post) b) as (A & B & C).
      assert (Hb : abs_priv m t = m_snap m t) by (unfold abs_priv; rewrite E; reflexivity).
      assert (T : trun (b_shared b, b_priv b t) (m_done m t ++ a :: post)
                  = (act_shared (b_shared (m_b m)) (b_priv (m_b m) t) a,
                     foldp (act_priv c (b_shared (m_b m)) (b_priv (m_b m) t) a) post)).
      { rewrite trun_app. rewrite <- Rp, Hb, <- Rs. rewrite trun_private by exact Dt. rewrite <- It.
        now apply trun_lp. }
      rewrite T in A, B. cbn [fst snd] in A, B.
      split.
      * intros u. simpl. unfold upd. destruct (Nat.eqb_spec u t) as [->|Hu].
        -- split; [exact Wrest|]. split; [constructor|]. intros _. simpl. rewrite ?Nat.eqb_refl. reflexivity.
        -- apply I.
      * unfold bblocks. cbn [fold_left snd fst]. fold post. split.
        -- rewrite A. reflexivity.
        -- intros u. unfold abs_priv. cbn [m_pend m_snap m_b]. unfold upd.
           destruct (Nat.eqb_spec u t) as [->|Hu].
           ++ rewrite B. subst post. unfold bexec. cbn [b_priv]. unfold upd. rewrite Nat.eqb_refl.
              destruct (has_lp rest); reflexivity.
           ++ rewrite C by exact Hu. rewrite <- Rp. unfold abs_priv.
              unfold bexec. cbn [b_priv]. unfold upd. destruct (Nat.eqb_spec u t); [congruence|]. reflexivity.
    + (* a private act before / after the block's effect *)
      specialize (Ha eq_refl).
      split.
      * intros u. simpl. unfold upd. destruct (Nat.eqb_spec u t) as [->|Hu]; [|apply I].
        split; [exact Wrest|]. split; [apply Forall_app; split; [exact Dt|constructor; [exact Ha|constructor]]|].
        intros Hr. simpl in It. rewrite foldp_app. simpl. rewrite <- (It Hr).
        apply private_priv. exact Ha.
      * unfold bblocks. simpl. split.
        -- simpl. rewrite private_shared by exact Ha. exact Rs.
        -- intros u. unfold abs_priv. simpl. unfold upd.
           destruct (Nat.eqb_spec u t) as [->|Hu]; [|apply Rp].
           rewrite <- Rp. unfold abs_priv. rewrite E. simpl.
           destruct (has_lp rest); [reflexivity|].
           unfold flush. simpl. f_equal. apply private_priv. exact Ha.
Qed.

Theorem run_sim : forall s m b, Forall wf_ev s -> inv m -> rel m b ->
  inv (fst (mrun c m s)) /\ rel (fst (mrun c m s)) (bblocks c b (snd (mrun c m s))).
Proof.
  induction s as [|e s IH]; intros m b W I Rl; [simpl; auto|].
  inversion W as [|? ? We Ws]; subst. simpl.
  destruct (step_sim m b e We I Rl) as [I1 R1].
  destruct (mstep c m e) as [m1 l1]. simpl in *.
  destruct (IH m1 (bblocks c b l1) Ws I1 R1) as [I2 R2].
  destruct (mrun c m1 s) as [m2 l2]. simpl in *.
  split; [exact I2|]. unfold bblocks in *. now rewrite fold_left_app.
Qed.

End Sim.

Section Ops.
Variables (R : rules) (c : cfg).

Lemma compile_wf p o : has_lp (compile R c p o) = true /\ wfp (compile R c p o).
Proof.
  unfold wfp. destruct o as [t x l | t x l | t e | t | t]; simpl.
  - destruct (resolve R c x); [destruct l|]; simpl; split; try reflexivity; repeat constructor; simpl; intros; try reflexivity; discriminate.
  - destruct (resolve R c x); [destruct l|]; simpl; split; try reflexivity; repeat constructor; simpl; intros; try reflexivity; discriminate.
  - destruct (p_ctx p) as [|[old l] k]; simpl; [split; [reflexivity|repeat constructor; simpl; intros; discriminate]|].
    destruct (isinst R old); [destruct (if keep_flag R then l else false)|]; simpl; split; try reflexivity;
      repeat constructor; simpl; intros; try reflexivity; discriminate.
  - split; [reflexivity|repeat constructor; simpl; intros; discriminate].
  - split; [reflexivity|repeat constructor; simpl; intros; discriminate].
Qed.

(* every operation except the entry of a context takes effect at ONE point; the entry at two
   (the read of the current backend, then the selection) *)
Lemma compile_count p o :
  count_lp (compile R c p o) = match o with Enter _ _ _ => 2 | _ => 1 end.
Proof.
  destruct o as [t x l | t x l | t e | t | t]; unfold count_lp; simpl; try reflexivity.
  - destruct (resolve R c x); [destruct l|]; reflexivity.
  - destruct (resolve R c x); [destruct l|]; reflexivity.
  - destruct (p_ctx p) as [|[old l] k]; [reflexivity|].
    destruct (isinst R old); [destruct (if keep_flag R then l else false)|]; reflexivity.
Qed.

(* the whole program of an operation, executed without interruption, IS the operation of Model/Backend.v *)
Lemma program_is_step b o :
  let t := thr o in
  let s := to_st b in
  let r := trun c (b_shared b, b_priv b t) (map fst (compile R c (b_priv b t) o)) in
  fst r = shared (nxt R c s o) /\
  p_tls (snd r) = tls (nxt R c s o) t /\
  p_ctx (snd r) = ctx (nxt R c s o) t /\
  p_out (snd r) = p_out (b_priv b t) ++ [out R c s o].
Proof.
  destruct o as [t x l | t x l | t e | t | t]; cbv zeta; simpl thr;
    unfold nxt, out, step, set_backend, with_ctx, current_backend; simpl.
  - destruct (resolve R c x) as [bb|]; [destruct l|]; simpl; rewrite ?upd_same; auto.
  - destruct (resolve R c x) as [bb|]; [destruct l|]; simpl; rewrite ?upd_same; unfold pcur; auto.
  - destruct (p_ctx (b_priv b t)) as [|[old l] k] eqn:E; simpl; [rewrite ?E; auto|].
    destruct (isinst R old) eqn:Ei; simpl.
    + destruct (if keep_flag R then l else false); simpl; rewrite ?E; simpl; rewrite ?Ei; simpl; rewrite ?upd_same; auto.
    + rewrite ?E. simpl. rewrite ?Ei. simpl. rewrite ?upd_same. auto.
  - unfold pcur. auto.
  - unfold pcur. auto.
Qed.

End Ops.

Definition retag (l : list act) : prog := map (fun a => (a, false)) l.

Lemma has_lp_count l : has_lp l = false <-> count_lp l = 0.
Proof.
  unfold has_lp, count_lp. induction l as [|[a []] l IH]; simpl; split; intros H; auto; try discriminate.
  - apply IH. exact H.
  - apply IH. exact H.
Qed.

Lemma count_lp_true a rest : count_lp ((a, true) :: rest) = S (count_lp rest).
Proof. reflexivity. Qed.
Lemma count_lp_false a rest : count_lp ((a, false) :: rest) = count_lp rest.
Proof. reflexivity. Qed.

Lemma map_fst_retag l : map fst (retag l) = l.
Proof. unfold retag. rewrite map_map. simpl. apply map_id. Qed.

Section O.
Variables (R : rules) (c : cfg).

Definition is_enter (o : op) : bool := match o with Enter _ _ _ => true | _ => false end.

(* ghost invariant: while a block of thread t has not taken effect yet, the acts done since the last
   block boundary followed by the pending ones are the program of the current operation (from its
   beginning, or from just behind the ASave of a context entry) *)
Definition kinv (s : ost) : Prop := forall t,
  has_lp (m_pend (o_m s) t) = true ->
  let (o, ph) := o_cur s t in
  let m := o_m s in
  thr o = t /\ count_lp (m_pend m t) = (if is_enter o && negb ph then 2 else 1) /\
  if ph then is_enter o = true /\ forall p, compile R c p o = (ASave, true) :: retag (m_done m t) ++ m_pend m t
  else compile R c (m_snap m t) o = retag (m_done m t) ++ m_pend m t.

Lemma compile_enter_indep p q t x l : compile R c p (Enter t x l) = compile R c q (Enter t x l).
Proof. reflexivity. Qed.

Lemma bblocks_one b tl : bblocks c b [tl] = bblock c b tl.
Proof. reflexivity. Qed.

Lemma rel_one m b a blk : block_of R c b a = blk -> rel c m (bblocks c b [blk]) -> rel c m (arun R c b [a]).
Proof. intros <- H. exact H. Qed.

Theorem ostep_sim s b e : inv c (o_m s) -> kinv s -> rel c (o_m s) b ->
  inv c (o_m (fst (ostep R c s e))) /\ kinv (fst (ostep R c s e)) /\
  rel c (o_m (fst (ostep R c s e))) (arun R c b (snd (ostep R c s e))).
Proof.
  intros I K Rl. destruct e as [o | t]; simpl.
  - (* begin *)
    destruct (m_pend (o_m s) (thr o)) as [|ab rest] eqn:E; simpl; [|auto].
    pose proof (step_sim c (o_m s) b (Begin (thr o) (compile R c (b_priv (m_b (o_m s)) (thr o)) o))
                  (compile_wf R c _ o) I Rl) as [I1 R1].
    simpl in I1, R1. rewrite E in I1, R1. simpl in I1, R1.
    split; [exact I1|]. split; [|exact R1].
    intros u. simpl. unfold upd. destruct (Nat.eqb_spec u (thr o)) as [->|Hu].
    + intros _. split; [reflexivity|]. split.
      * rewrite compile_count. destruct o; reflexivity.
      * simpl. reflexivity.
    + apply K.
  - (* tick *)
    pose proof (step_sim c (o_m s) b (Tick t) Logic.I I Rl) as [I1 R1].
    destruct (m_pend (o_m s) t) as [|[a lp] rest] eqn:E.
    + simpl in *. rewrite E in *. simpl in *. auto.
    + destruct lp.
      * (* a block takes effect *)
        pose proof (K t) as Kt. cbv zeta in Kt. rewrite E in Kt. specialize (Kt eq_refl).
        destruct (o_cur s t) as [o ph] eqn:Eo. destruct Kt as (Ht & Hc & Hp). rewrite count_lp_true in Hc.
        simpl in I1, R1. rewrite E in I1, R1. simpl in I1, R1. cbn [fst snd o_m o_cur].
        split; [exact I1|].
        assert (Hb : b_priv b t = m_snap (o_m s) t).
        { destruct Rl as [_ Rp]. rewrite <- Rp. unfold abs_priv. rewrite E. reflexivity. }
        destruct ph.
        -- (* second half of a context entry *)
           destruct Hp as [He Hp]. destruct o as [| t' x l | | |]; try discriminate. simpl in Ht. subst t'.
           simpl in Hc. injection Hc as Hc. apply has_lp_count in Hc.
           split.
           ++ intros u. simpl. rewrite ?E. simpl. unfold upd. destruct (Nat.eqb_spec u t) as [->|Hu]; [|apply K].
              rewrite Hc. discriminate.
           ++ rewrite Hc in R1. eapply rel_one; [|exact R1].
              unfold block_of. rewrite (Hp (b_priv b t)). cbn [map fst tl].
              rewrite map_app, map_fst_retag. reflexivity.
        -- destruct (is_enter o) eqn:He; simpl in Hc.
           ++ (* first half of a context entry: the program starts with its tagged ASave *)
              destruct o as [| t' x l | | |]; try discriminate. simpl in Ht. subst t'.
              destruct (m_done (o_m s) t) as [|d ds] eqn:Ed; simpl in Hp; [|discriminate].
              injection Hp as Ha Hrest. subst a.
              assert (Hr : has_lp rest = true).
              { destruct (has_lp rest) eqn:Hr; [reflexivity|]. apply has_lp_count in Hr. lia. }
              split.
              ** intros u. simpl. rewrite ?E. simpl. unfold upd. destruct (Nat.eqb_spec u t) as [->|Hu]; [|apply K].
                 intros _. split; [reflexivity|]. split; [simpl; lia|].
                 split; [reflexivity|]. intros p. simpl. rewrite <- Hrest. reflexivity.
              ** rewrite Hr in R1. eapply rel_one; [|exact R1]. reflexivity.
           ++ (* any other operation: its only block is the whole program *)
              injection Hc as Hc. apply has_lp_count in Hc.
              split.
              ** intros u. simpl. rewrite ?E. simpl. unfold upd. destruct (Nat.eqb_spec u t) as [->|Hu]; [|apply K].
                 rewrite Hc. discriminate.
              ** rewrite Hc in R1. eapply rel_one; [|exact R1].
                 destruct o; try discriminate; simpl in Ht; subst; cbn [block_of thr]; rewrite Hb, Hp, map_app, map_fst_retag; reflexivity.
      * (* a private act *)
        simpl in I1, R1. rewrite E in I1, R1. simpl in I1, R1. simpl.
        split; [exact I1|]. split; [|exact R1].
        intros u. simpl. unfold upd. destruct (Nat.eqb_spec u t) as [->|Hu]; [|apply K].
        intros Hr. pose proof (K t) as Kt. cbv zeta in Kt. rewrite E in Kt. specialize (Kt Hr).
        destruct (o_cur s t) as [o ph]. destruct Kt as (Ht & Hc & Hp). rewrite count_lp_false in Hc.
        split; [exact Ht|]. split; [exact Hc|].
        destruct ph.
        -- destruct Hp as [He Hp]. split; [exact He|]. intros p. rewrite Hp.
           unfold retag. rewrite map_app, <- app_assoc. reflexivity.
        -- rewrite Hp. unfold retag. rewrite map_app, <- app_assoc. reflexivity.
Qed.

Theorem orun_sim : forall l s b, inv c (o_m s) -> kinv s -> rel c (o_m s) b ->
  inv c (o_m (fst (orun R c s l))) /\ kinv (fst (orun R c s l)) /\
  rel c (o_m (fst (orun R c s l))) (arun R c b (snd (orun R c s l))).
Proof.
  induction l as [|e l IH]; intros s b I K Rl; [simpl; auto|].
  simpl. destruct (ostep_sim s b e I K Rl) as (I1 & K1 & R1).
  destruct (ostep R c s e) as [s1 h1]. simpl in *.
  destruct (IH s1 (arun R c b h1) I1 K1 R1) as (I2 & K2 & R2).
  destruct (orun R c s1 l) as [s2 h2]. simpl in *.
  split; [exact I2|]. split; [exact K2|]. unfold arun in *. now rewrite fold_left_app.
Qed.

Lemma quiet_ok b : inv c (o_m (quiet b)) /\ kinv (quiet b) /\ rel c (o_m (quiet b)) b.
Proof.
  split; [|split].
  - intros t. simpl. split; [constructor|]. split; [constructor|]. discriminate.
  - intros t. simpl. discriminate.
  - split; [reflexivity|]. intros t. reflexivity.
Qed.

(* P5: every schedule of the micro-steps of any operations of any number of threads, started with no
   operation in flight and run until none is in flight, ends in exactly the state (shared default,
   every thread's selection, context stack, saved backend and the sequence of answers it received)
   reached by executing the blocks one after the other, without interleaving, in the order in which
   they took effect *)
Theorem micro_atomic b0 l :
  let s := fst (orun R c (quiet b0) l) in
  let h := snd (orun R c (quiet b0) l) in
  (forall t, m_pend (o_m s) t = []) ->
  b_shared (m_b (o_m s)) = b_shared (arun R c b0 h) /\
  forall t, b_priv (m_b (o_m s)) t = b_priv (arun R c b0 h) t.
Proof.
  cbv zeta. intros Q. destruct (quiet_ok b0) as (I & K & Rl).
  destruct (orun_sim l (quiet b0) b0 I K Rl) as (_ & _ & [Rs Rp]).
  split; [exact Rs|]. intros t. rewrite <- Rp. unfold abs_priv. rewrite Q. reflexivity.
Qed.

End O.

Section Link.
Variables (R : rules) (c : cfg).

Lemma seqv_refl s : seqv s s. Proof. repeat split. Qed.

Lemma event_eqv s1 s2 o : seqv s1 s2 -> event R c s1 o = event R c s2 o.
Proof.
  intros (_ & _ & C). destruct o as [u x l | u x l | u e | u | u]; simpl; try reflexivity. now rewrite C.
Qed.

Lemma nxt_eqv s1 s2 o : seqv s1 s2 -> seqv (nxt R c s1 o) (nxt R c s2 o).
Proof.
  intros S. pose proof (event_eqv s1 s2 o S) as E. destruct S as (A & B & C).
  split; [|split].
  - rewrite !nxt_shared, E, A. reflexivity.
  - intros t. rewrite !nxt_tls, E, B. reflexivity.
  - intros t. rewrite !nxt_ctx, !C. destruct o as [u x l | u x l | u e | u | u]; try reflexivity.
    unfold cur, current_backend. rewrite A, B. reflexivity.
Qed.

Lemma out_eqv s1 s2 o : seqv s1 s2 -> out R c s1 o = out R c s2 o.
Proof.
  intros (A & B & C). destruct o as [u x l | u x l | u e | u | u]; unfold out, step, set_backend; simpl.
  - destruct (resolve R c x); reflexivity.
  - destruct (resolve R c x); reflexivity.
  - rewrite C. destruct (ctx s2 u) as [|[old l] k]; [reflexivity|]. simpl. destruct (isinst R old); reflexivity.
  - unfold current_backend. now rewrite A, B.
  - unfold current_backend. now rewrite A, B.
Qed.

Lemma run_eqv : forall h s1 s2, seqv s1 s2 -> seqv (run R c s1 h) (run R c s2 h).
Proof.
  induction h as [|o h IH]; intros s1 s2 S; [exact S|].
  change (run R c s1 (o :: h)) with (run R c (nxt R c s1 o) h).
  change (run R c s2 (o :: h)) with (run R c (nxt R c s2 o) h). apply IH. now apply nxt_eqv.
Qed.

Lemma own_trace_eqv t : forall h s1 s2, seqv s1 s2 -> own_trace R c t s1 h = own_trace R c t s2 h.
Proof.
  induction h as [|o h IH]; intros s1 s2 S; [reflexivity|]. simpl.
  rewrite (out_eqv s1 s2 o S). f_equal. apply IH. now apply nxt_eqv.
Qed.

Lemma to_st_eqv b1 b2 : beqv b1 b2 -> seqv (to_st b1) (to_st b2).
Proof. intros [A B]. split; [exact A|]. split; intros t; simpl; now rewrite B. Qed.

(* a whole operation executed as one block = the operation of Model/Backend.v *)
Lemma astep_op b o :
  seqv (to_st (astep R c b (AOp o))) (nxt R c (to_st b) o) /\
  (forall t, p_out (b_priv (astep R c b (AOp o)) t)
             = p_out (b_priv b t) ++ (if Nat.eqb (thr o) t then [out R c (to_st b) o] else [])).
Proof.
  unfold astep. cbn [block_of].
  destruct (bblock_spec c (thr o) (map fst (compile R c (b_priv b (thr o)) o)) b) as (A & B & C).
  destruct (program_is_step R c b o) as (P1 & P2 & P3 & P4). cbv zeta in P1, P2, P3, P4.
  split; [split; [|split]|].
  - simpl. rewrite A. exact P1.
  - intros t. simpl. destruct (Nat.eq_dec t (thr o)) as [->|Hn].
    + rewrite B. exact P2.
    + rewrite C by exact Hn. rewrite tls_other by exact Hn. reflexivity.
  - intros t. simpl. destruct (Nat.eq_dec t (thr o)) as [->|Hn].
    + rewrite B. exact P3.
    + rewrite C by exact Hn. rewrite ctx_other by exact Hn. reflexivity.
  - intros t. destruct (Nat.eqb_spec (thr o) t) as [<-|Hn].
    + rewrite B. exact P4.
    + rewrite C by congruence. now rewrite app_nil_r.
Qed.

Lemma astep_eqv b1 b2 a : beqv b1 b2 -> beqv (astep R c b1 a) (astep R c b2 a).
Proof.
  intros [A B]. unfold astep.
  assert (E : block_of R c b1 a = block_of R c b2 a) by (destruct a; simpl; rewrite ?B; reflexivity).
  rewrite E. destruct (block_of R c b2 a) as [t l].
  destruct (bblock_spec c t l b1) as (A1 & B1 & C1). destruct (bblock_spec c t l b2) as (A2 & B2 & C2).
  split.
  - rewrite A1, A2, A, B. reflexivity.
  - intros u. destruct (Nat.eq_dec u t) as [->|Hn].
    + rewrite B1, B2, A, B. reflexivity.
    + rewrite C1, C2 by exact Hn. apply B.
Qed.

Lemma arun_eqv : forall h b1 b2, beqv b1 b2 -> beqv (arun R c b1 h) (arun R c b2 h).
Proof.
  induction h as [|a h IH]; intros b1 b2 E; [exact E|]. simpl. apply IH. now apply astep_eqv.
Qed.

(* the two halves of a context entry, taking effect one right after the other, are the entry *)
Lemma enter_split b t x l :
  beqv (astep R c (astep R c b (ASaveOp t)) (AEnterRest t x l)) (astep R c b (AOp (Enter t x l))).
Proof.
  unfold astep. cbn [block_of thr].
  set (b1 := bblock c b (t, [ASave])).
  rewrite (compile_enter_indep R c (b_priv b1 t) (b_priv b t) t x l).
  change (map fst (compile R c (b_priv b t) (Enter t x l)))
    with (ASave :: tl (map fst (compile R c (b_priv b t) (Enter t x l)))).
  set (rest := tl (map fst (compile R c (b_priv b t) (Enter t x l)))).
  split; [reflexivity|]. intros u. reflexivity.
Qed.

Lemma arun_flat : forall h b, beqv (arun R c b (flat h)) (arun R c b (map AOp h)).
Proof.
  induction h as [|o h IH]; intros b; [split; reflexivity|].
  (* for a context entry the two blocks compose to the whole program by computation (cf. enter_split) *)
  destruct o as [t x l | t x l | t e | t | t]; simpl; apply IH.
Qed.

Lemma arun_ops : forall h b,
  seqv (to_st (arun R c b (map AOp h))) (run R c (to_st b) h) /\
  forall t, p_out (b_priv (arun R c b (map AOp h)) t) = p_out (b_priv b t) ++ own_trace R c t (to_st b) h.
Proof.
  induction h as [|o h IH]; intros b.
  - simpl. split; [apply seqv_refl|]. intros t. now rewrite app_nil_r.
  - simpl map. change (arun R c b (AOp o :: map AOp h)) with (arun R c (astep R c b (AOp o)) (map AOp h)).
    destruct (IH (astep R c b (AOp o))) as [S O]. destruct (astep_op b o) as [S1 O1].
    change (run R c (to_st b) (o :: h)) with (run R c (nxt R c (to_st b) o) h).
    split.
    + destruct S as (A & B & C). destruct (run_eqv h _ _ S1) as (A' & B' & C').
      split; [congruence|]. split; intros t; [rewrite B; apply B' | rewrite C; apply C'].
    + intros t. rewrite O, O1. simpl own_trace. rewrite <- app_assoc. f_equal. f_equal.
      apply own_trace_eqv. exact S1.
Qed.

(* P5, operations: if the two halves of every context entry took effect without a block of another
   thread in between (always the case when the entering thread holds a selection of its own, see
   save_private), the micro-step run is observationally the atomic history h *)
Theorem micro_atomic_ops b0 l h :
  let s := fst (orun R c (quiet b0) l) in
  (forall t, m_pend (o_m s) t = []) ->
  snd (orun R c (quiet b0) l) = flat h ->
  seqv (to_st (m_b (o_m s))) (run R c (to_st b0) h) /\
  forall t, p_out (b_priv (m_b (o_m s)) t) = p_out (b_priv b0 t) ++ own_trace R c t (to_st b0) h.
Proof.
  cbv zeta. intros Q F. destruct (micro_atomic R c b0 l Q) as [A B]. rewrite F in A, B.
  destruct (arun_flat h b0) as [A1 B1]. destruct (arun_ops h b0) as [(S1 & S2 & S3) O].
  split; [split; [|split]|].
  - simpl. rewrite A, A1. exact S1.
  - intros t. simpl. rewrite B, B1. apply S2.
  - intros t. simpl. rewrite B, B1. apply S3.
  - intros t. rewrite B, B1. apply O.
Qed.

(* the first half of a context entry reads the shared default only when the thread holds no
   selection of its own: otherwise it commutes with every block of every other thread *)
Lemma save_private sh1 sh2 p : p_tls p <> None -> act_priv c sh1 p ASave = act_priv c sh2 p ASave.
Proof. intros H. simpl. unfold pcur. destruct (p_tls p); [reflexivity|congruence]. Qed.

End Link.

(* ---- the first half of a context entry as a mover *)
Section Comm.
Variables (R : rules) (c : cfg).

Lemma block_of_thr b a : fst (block_of R c b a) = athr a.
Proof. destruct a; reflexivity. Qed.

(* the first half of a context entry of a thread that holds a selection of its own commutes with
   every block of every other thread: such an entry can be regarded as ONE atomic operation *)
Lemma save_commutes b t a : athr a <> t -> p_tls (b_priv b t) <> None ->
  beqv (astep R c (astep R c b (ASaveOp t)) a) (astep R c (astep R c b a) (ASaveOp t)).
Proof.
  intros Hn Ht. unfold astep. cbn [block_of].
  set (b1 := bblock c b (t, [ASave])).
  destruct (bblock_spec c t [ASave] b) as (A1 & B1 & C1). fold b1 in A1, B1, C1.
  assert (Eb : block_of R c b1 a = block_of R c b a).
  { destruct a; simpl in *; try reflexivity. rewrite C1 by exact Hn. reflexivity. }
  rewrite Eb.
  destruct (block_of R c b a) as [u l] eqn:Ea.
  assert (Hu : u = athr a) by (rewrite <- (block_of_thr b a), Ea; reflexivity). subst u.
  set (b2 := bblock c b (athr a, l)).
  destruct (bblock_spec c t [ASave] b2) as (A2 & B2 & C2).
  destruct (bblock_spec c (athr a) l b1) as (A3 & B3 & C3).
  destruct (bblock_spec c (athr a) l b) as (A4 & B4 & C4). fold b2 in A4, B4, C4.
  split.
  - rewrite A3, A2, A4, A1. rewrite (C1 (athr a) Hn). reflexivity.
  - intros v. destruct (Nat.eq_dec v t) as [->|Hv].
    + rewrite (C3 t) by congruence. rewrite B2, B1. rewrite (C4 t) by congruence.
      unfold trun, t1. simpl. unfold pcur. destruct (p_tls (b_priv b t)); [reflexivity|congruence].
    + rewrite (C2 v Hv). destruct (Nat.eq_dec v (athr a)) as [->|Hw].
      * rewrite B3, B4, A1, (C1 (athr a) Hn). reflexivity.
      * rewrite (C3 v Hw), (C4 v Hw), (C1 v Hv). reflexivity.
Qed.

Lemma beqv_trans b1 b2 b3 : beqv b1 b2 -> beqv b2 b3 -> beqv b1 b3.
Proof. intros [A B] [A' B']. split; [congruence|]. intros t. now rewrite B. Qed.

Lemma other_block_keeps_priv b a t : athr a <> t -> b_priv (astep R c b a) t = b_priv b t.
Proof.
  intros Hn. unfold astep. destruct (block_of R c b a) as [u l] eqn:Ea.
  assert (Hu : u = athr a) by (rewrite <- (block_of_thr b a), Ea; reflexivity). subst u.
  destruct (bblock_spec c (athr a) l b) as (_ & _ & C). apply C. congruence.
Qed.

(* ... hence it can be postponed past any number of blocks of other threads, up to the second half of
   the entry: for a thread that holds a selection of its own, backend_context entry is atomic *)
Theorem save_sinks t : forall others b rest,
  Forall (fun a => athr a <> t) others -> p_tls (b_priv b t) <> None ->
  beqv (arun R c b (ASaveOp t :: others ++ rest)) (arun R c b (others ++ ASaveOp t :: rest)).
Proof.
  induction others as [|a others IH]; intros b rest HF Ht; [split; reflexivity|].
  inversion HF as [|? ? Ha HF']; subst.
  change (arun R c b (ASaveOp t :: (a :: others) ++ rest))
    with (arun R c (astep R c (astep R c b (ASaveOp t)) a) (others ++ rest)).
  change (arun R c b ((a :: others) ++ ASaveOp t :: rest))
    with (arun R c (astep R c b a) (others ++ ASaveOp t :: rest)).
  eapply beqv_trans; [apply arun_eqv; apply save_commutes; assumption|].
  change (arun R c (astep R c (astep R c b a) (ASaveOp t)) (others ++ rest))
    with (arun R c (astep R c b a) (ASaveOp t :: others ++ rest)).
  apply IH; [exact HF'|]. rewrite other_block_keeps_priv by exact Ha. exact Ht.
Qed.

End Comm.


(* ---- witnesses *)
Definition p0 : priv := {| p_tls := None; p_ctx := []; p_reg := Named 0; p_out := [] |}.
Definition b00 : bst := {| b_shared := Named 0; b_priv := fun _ => p0 |}.
Definition ticks (t n : nat) : list oev := repeat (OTick t) n.

(* thread 1 (no selection of its own) enters a NON-local context; between the read of its current
   backend and its selection thread 2 completes a non-local set_backend.  Thread 3 then sees bka,
   and numpy after the exit - no order of the four whole operations does that *)
Definition sched_race : list oev :=
  [OBegin (Enter 1 (SName 1) false); OTick 1] ++
  OBegin (Set_ 2 (SName 2) false) :: ticks 2 4 ++ ticks 1 5 ++
  [OBegin (Query 3); OTick 3; OBegin (Exit_ 1 false)] ++ ticks 1 5 ++ [OBegin (Query 3); OTick 3].

Lemma enter_not_atomic :
  let r := orun fixed_rules cfg0 (quiet b00) sched_race in
  (forall t, m_pend (o_m (fst r)) t = []) /\
  snd r = [ASaveOp 1; AOp (Set_ 2 (SName 2) false); AEnterRest 1 (SName 1) false; AOp (Query 3);
           AOp (Exit_ 1 false); AOp (Query 3)] /\
  p_out (b_priv (m_b (o_m (fst r))) 3) = [OName 1; OName 0] /\
  own_trace fixed_rules cfg0 3 (to_st b00)
    [Enter 1 (SName 1) false; Set_ 2 (SName 2) false; Query 3; Exit_ 1 false; Query 3] = [OName 2; OName 0] /\
  own_trace fixed_rules cfg0 3 (to_st b00)
    [Set_ 2 (SName 2) false; Enter 1 (SName 1) false; Query 3; Exit_ 1 false; Query 3] = [OName 1; OName 2].
Proof.
  cbv zeta. split; [|vm_compute; repeat split].
  intros t. do 4 (destruct t as [|t]; [vm_compute; reflexivity|]). vm_compute. reflexivity.
Qed.

(* non-vacuity of micro_atomic_ops: micro-steps of a non-local set_backend of thread 1 and of a
   thread-local context entry of thread 2 interleaved act by act *)
Definition sched_ok : list oev :=
  [OBegin (Set_ 1 (SName 1) false); OTick 1; OBegin (Enter 2 (SInst (Obj 0)) true); OTick 2; OTick 1; OTick 2;
   OTick 1; OTick 2; OTick 1; OTick 2; OBegin (Query 2); OTick 2; OBegin (Query 3); OTick 3].

Lemma micro_atomic_ops_nonvacuous :
  let r := orun fixed_rules cfg0 (quiet b00) sched_ok in
  (forall t, m_pend (o_m (fst r)) t = []) /\
  snd r = flat [Enter 2 (SInst (Obj 0)) true; Set_ 1 (SName 1) false; Query 2; Query 3] /\
  p_out (b_priv (m_b (o_m (fst r))) 2) = [ODone; OName 1] /\
  p_out (b_priv (m_b (o_m (fst r))) 3) = [OName 1].
Proof.
  cbv zeta. split; [|vm_compute; repeat split].
  intros t. do 4 (destruct t as [|t]; [vm_compute; reflexivity|]). vm_compute. reflexivity.
Qed.
