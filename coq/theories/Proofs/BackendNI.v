(* Non-interference for the backend-selection machine: a thread whose peers only make
   thread-local selections / contexts gets exactly the answers it gets when it runs alone. *)
From Coq Require Import List Arith Bool Lia.
From TLV Require Import Model.Backend Proofs.BackendProofs.
Import ListNotations.

Section NI.
Variables (R : rules) (c : cfg) (t : tid).

(* the part of the state thread t can see *)
Definition sim (s1 s2 : st) : Prop :=
  shared s1 = shared s2 /\ tls s1 t = tls s2 t /\ ctx s1 t = ctx s2 t.

Lemma event_sim s1 s2 o : sim s1 s2 -> thr o = t -> event R c s1 o = event R c s2 o.
Proof.
  intros (_ & _ & C) Ht. destruct o as [u x l | u x l | u e | u | u]; simpl in *; try reflexivity.
  subst u. now rewrite C.
Qed.

Lemma out_sim s1 s2 o : sim s1 s2 -> thr o = t -> out R c s1 o = out R c s2 o.
Proof.
  intros (A & B & C) Ht. destruct o as [u x l | u x l | u e | u | u]; simpl in Ht; subst u;
    unfold out, step, set_backend; simpl.
  - destruct (resolve R c x); reflexivity.
  - destruct (resolve R c x); reflexivity.
  - rewrite C. destruct (ctx s2 t) as [|[old l] k]; [reflexivity|]. simpl.
    destruct (isinst R old); reflexivity.
  - unfold current_backend. now rewrite A, B.
  - unfold current_backend. now rewrite A, B.
Qed.

Lemma nxt_sim s1 s2 o : sim s1 s2 -> thr o = t -> sim (nxt R c s1 o) (nxt R c s2 o).
Proof.
  intros S Ht. pose proof (event_sim s1 s2 o S Ht) as E. destruct S as (A & B & C).
  split; [|split].
  - rewrite !nxt_shared, E, A. reflexivity.
  - rewrite !nxt_tls, E, B. reflexivity.
  - rewrite !nxt_ctx, C. destruct o as [u x l | u x l | u e | u | u]; try reflexivity.
    simpl in Ht. subst u. unfold cur, current_backend. rewrite A, B. reflexivity.
Qed.

Lemma other_local_sim s1 s2 o :
  keep_flag R = true -> sim s1 s2 -> thr o <> t -> is_local s1 o = true -> sim (nxt R c s1 o) s2.
Proof.
  intros HK (A & B & C) Hn HL. split; [|split].
  - rewrite local_keeps_shared; assumption.
  - rewrite tls_other by congruence. exact B.
  - rewrite ctx_other by congruence. exact C.
Qed.

Lemma ctx_local_own s o : thr o = t -> ctx_local_except t s -> ctx_local_except t (nxt R c s o).
Proof.
  intros Ht HC u old l Hu Hin. rewrite ctx_other in Hin by congruence. eapply HC; eauto.
Qed.

Lemma noninterference_gen : keep_flag R = true -> forall h s1 s2,
  sim s1 s2 -> ctx_local_except t s1 ->
  Forall (fun o => thr o = t \/ flag_local o = true) h ->
  own_trace R c t s1 h = trace R c s2 (filter (fun o => Nat.eqb (thr o) t) h).
Proof.
  intros HK. induction h as [|o h IH]; intros s1 s2 S HC HF; [reflexivity|].
  inversion HF as [|? ? Ho HF']; subst. simpl.
  destruct (Nat.eqb_spec (thr o) t) as [Ht|Hn].
  - simpl. rewrite (out_sim s1 s2 o S Ht). f_equal.
    apply IH; [now apply nxt_sim | now apply ctx_local_own | exact HF'].
  - simpl. destruct Ho as [Ht|Hf]; [congruence|].
    apply IH; [|now apply ctx_local_step | exact HF'].
    apply other_local_sim; auto. eapply flag_is_local; eauto.
Qed.

Theorem noninterference : keep_flag R = true -> forall h s,
  ctx_local_except t s ->
  Forall (fun o => thr o = t \/ flag_local o = true) h ->
  own_trace R c t s h = trace R c s (filter (fun o => Nat.eqb (thr o) t) h).
Proof. intros HK h s. apply noninterference_gen; [exact HK|]. repeat split. Qed.

End NI.
