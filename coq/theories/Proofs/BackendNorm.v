(* Reading the blocks of a micro-step run as an atomic history of whole operations: the first half of a
   context entry is held back until the second half arrives; sound whenever the entering thread holds a
   selection of its own; every linearisation produced by the micro-step machine can be read this way. *)
From Coq Require Import List Arith Bool Lia.
From TLV Require Import Model.Backend Proofs.BackendProofs Proofs.BackendMicro.
Import ListNotations.

Section Norm.
Variables (R : rules) (c : cfg).

(* b: the blocks as they took effect; b': the whole operations read off by normH.  They differ only in
   the saved-backend register of the threads whose entry is half done *)
Definition relP (P : tid -> bool) (b b' : bst) : Prop :=
  b_shared b = b_shared b' /\
  forall t, if P t
            then p_tls (b_priv b t) = p_tls (b_priv b' t) /\ p_ctx (b_priv b t) = p_ctx (b_priv b' t) /\
                 p_out (b_priv b t) = p_out (b_priv b' t) /\ p_tls (b_priv b t) = Some (p_reg (b_priv b t))
            else b_priv b t = b_priv b' t.

Lemma astep_spec b a :
  let t := fst (block_of R c b a) in let l := snd (block_of R c b a) in
  b_shared (astep R c b a) = fst (trun c (b_shared b, b_priv b t) l) /\
  b_priv (astep R c b a) t = snd (trun c (b_shared b, b_priv b t) l) /\
  forall u, u <> t -> b_priv (astep R c b a) u = b_priv b u.
Proof.
  cbv zeta. unfold astep. destruct (block_of R c b a) as [t l]. apply bblock_spec.
Qed.

Lemma relP_other P b b' a : relP P b b' -> P (athr a) = false ->
  block_of R c b a = block_of R c b' a ->
  relP P (astep R c b a) (astep R c b' a).
Proof.
  intros [Rs Rp] HP Eb.
  destruct (astep_spec b a) as (A & B & C). destruct (astep_spec b' a) as (A' & B' & C').
  rewrite <- Eb in A', B', C'. rewrite block_of_thr in *.
  assert (Ep : b_priv b (athr a) = b_priv b' (athr a)) by (specialize (Rp (athr a)); rewrite HP in Rp; exact Rp).
  split.
  - rewrite A, A', Rs, Ep. reflexivity.
  - intros t. destruct (Nat.eq_dec t (athr a)) as [->|Hn].
    + rewrite HP. rewrite B, B', Rs, Ep. reflexivity.
    + rewrite (C t Hn), (C' t Hn). apply Rp.
Qed.

Lemma block_of_eq b b' a : b_priv b (athr a) = b_priv b' (athr a) -> block_of R c b a = block_of R c b' a.
Proof. intros E. destruct a; simpl in *; rewrite ?E; reflexivity. Qed.

Theorem norm_sound : forall H P b b' h P',
  normH P H = Some (h, P') -> saves_own R c b H -> relP P b b' ->
  relP P' (arun R c b H) (arun R c b' (map AOp h)).
Proof.
  induction H as [|a H IH]; intros P b b' h P' N S Rl.
  - simpl in N. injection N as <- <-. exact Rl.
  - destruct S as [Sa S]. destruct a as [o | t | t x l]; simpl in N.
    + (* a whole operation of a thread that is not inside an entry *)
      destruct (P (thr o)) eqn:HP; [discriminate|].
      destruct (normH P H) as [[h1 P1]|] eqn:N1; [|discriminate]. injection N as <- <-.
      simpl map. change (arun R c b (AOp o :: H)) with (arun R c (astep R c b (AOp o)) H).
      change (arun R c b' (AOp o :: map AOp h1)) with (arun R c (astep R c b' (AOp o)) (map AOp h1)).
      eapply IH; [exact N1 | exact S |].
      apply relP_other; [exact Rl | exact HP |].
      apply block_of_eq. destruct Rl as [_ Rp]. specialize (Rp (thr o)). simpl. rewrite HP in Rp. exact Rp.
    + (* first half of an entry: held back *)
      destruct (P t) eqn:HP; [discriminate|].
      change (arun R c b (ASaveOp t :: H)) with (arun R c (astep R c b (ASaveOp t)) H).
      eapply IH; [exact N | exact S |].
      destruct Rl as [Rs Rp]. destruct (astep_spec b (ASaveOp t)) as (A & B & C). cbn [block_of fst snd] in A, B, C.
      split; [rewrite A; exact Rs|].
      intros u. unfold upd. destruct (Nat.eqb_spec u t) as [->|Hn].
      * specialize (Rp t). rewrite HP in Rp. rewrite B, <- Rp. unfold trun, t1. simpl.
        unfold pcur. destruct (p_tls (b_priv b t)); [auto|congruence].
      * rewrite (C u Hn). apply Rp.
    + (* second half: the whole entry happens now *)
      destruct (P t) eqn:HP; [|discriminate].
      destruct (normH (upd P t false) H) as [[h1 P1]|] eqn:N1; [|discriminate]. injection N as <- <-.
      simpl map. change (arun R c b (AEnterRest t x l :: H)) with (arun R c (astep R c b (AEnterRest t x l)) H).
      change (arun R c b' (AOp (Enter t x l) :: map AOp h1)) with (arun R c (astep R c b' (AOp (Enter t x l))) (map AOp h1)).
      eapply IH; [exact N1 | exact S |].
      destruct Rl as [Rs Rp].
      destruct (astep_spec b (AEnterRest t x l)) as (A & B & C).
      destruct (astep_spec b' (AOp (Enter t x l))) as (A' & B' & C').
      cbn [block_of fst snd thr] in A, B, C, A', B', C'.
      rewrite (compile_enter_indep R c (b_priv b t) (b_priv b' t) t x l) in A, B.
      change (map fst (compile R c (b_priv b' t) (Enter t x l)))
        with (ASave :: tl (map fst (compile R c (b_priv b' t) (Enter t x l)))) in A', B'.
      set (rest := tl (map fst (compile R c (b_priv b' t) (Enter t x l)))) in *.
      pose proof (Rp t) as Rt. rewrite HP in Rt. destruct Rt as (E1 & E2 & E3 & E4).
      assert (Es : t1 c (b_shared b', b_priv b' t) ASave = (b_shared b, b_priv b t)).
      { unfold t1. cbn [fst snd act_shared act_priv]. rewrite <- Rs.
        destruct (b_priv b t) as [tl0 cx rg ou], (b_priv b' t) as [tl1 cx1 rg1 ou1]. simpl in E1, E2, E3, E4.
        subst. unfold pcur. simpl. reflexivity. }
      change (trun c (b_shared b', b_priv b' t) (ASave :: rest))
        with (trun c (t1 c (b_shared b', b_priv b' t) ASave) rest) in A', B'.
      rewrite Es in A', B'.
      split; [rewrite A, A'; reflexivity|].
      intros u. unfold upd. destruct (Nat.eqb_spec u t) as [->|Hn].
      * rewrite B, B'. reflexivity.
      * rewrite (C u Hn), (C' u Hn). apply Rp.
Qed.

End Norm.

Section LinNormal.
Variables (R : rules) (c : cfg).

Lemma rel_exists m : rel c m {| b_shared := b_shared (m_b m); b_priv := abs_priv c m |}.
Proof. split; reflexivity. Qed.

Lemma ostep_inv s e : inv c (o_m s) -> kinv R c s ->
  inv c (o_m (fst (ostep R c s e))) /\ kinv R c (fst (ostep R c s e)).
Proof.
  intros I K. destruct (ostep_sim R c s _ e I K (rel_exists (o_m s))) as (A & B & _). auto.
Qed.

Lemma normH_ext : forall H P Q, (forall t, P t = Q t) ->
  match normH P H, normH Q H with
  | Some (h, P'), Some (h', Q') => h = h' /\ forall t, P' t = Q' t
  | None, None => True
  | _, _ => False
  end.
Proof.
  induction H as [|a H IH]; intros P Q E; simpl; [auto|].
  destruct a as [o | t | t x l].
  - rewrite (E (thr o)). destruct (Q (thr o)); [exact Logic.I|].
    specialize (IH P Q E). destruct (normH P H) as [[h P']|], (normH Q H) as [[h' Q']|]; try contradiction; auto.
    destruct IH as [-> E']. auto.
  - rewrite (E t). destruct (Q t); [exact Logic.I|].
    apply IH. intros u. unfold upd. destruct (u =? t); auto.
  - rewrite (E t). destruct (Q t); [|exact Logic.I].
    assert (E2 : forall u, upd P t false u = upd Q t false u) by (intros u; unfold upd; destruct (u =? t); auto).
    specialize (IH _ _ E2).
    destruct (normH (upd P t false) H) as [[h P']|], (normH (upd Q t false) H) as [[h' Q']|]; try contradiction; auto.
    destruct IH as [-> E']. auto.
Qed.

(* one event: the block it emits (if any) is accepted by normH from the set of half-done entries, and
   leads to the set of half-done entries of the next state *)
Ltac open_pending E := unfold pending; cbn [fst snd o_m o_cur]; unfold mstep; rewrite ?E; cbn [fst snd m_pend m_b m_snap m_done]; unfold upd.

Lemma ostep_norm s e : inv c (o_m s) -> kinv R c s ->
  exists h, forall P, (forall t, P t = pending s t) ->
    exists P', normH P (snd (ostep R c s e)) = Some (h, P') /\
               forall t, P' t = pending (fst (ostep R c s e)) t.
Proof.
  intros I K. destruct e as [o | t]; simpl.
  - (* begin *)
    destruct (m_pend (o_m s) (thr o)) as [|ab rest] eqn:E; simpl.
    + exists []. intros P EP. exists P. split; [reflexivity|]. intros u. rewrite EP. open_pending E.
      destruct (Nat.eqb_spec u (thr o)) as [->|Hn]; [|reflexivity].
      rewrite E. simpl. rewrite andb_false_r. reflexivity.
    + exists []. intros P EP. exists P. auto.
  - destruct (m_pend (o_m s) t) as [|[a lp] rest] eqn:E.
    + exists []. intros P EP. exists P. split; [reflexivity|]. intros u. rewrite EP. open_pending E. reflexivity.
    + destruct lp.
      * pose proof (K t) as Kt. cbv zeta in Kt. rewrite E in Kt. specialize (Kt eq_refl).
        destruct (o_cur s t) as [o ph] eqn:Eo. destruct Kt as (Ht & Hc & Hp). rewrite count_lp_true in Hc.
        assert (Pt : pending s t = ph) by (unfold pending; rewrite E, Eo; reflexivity).
        destruct ph.
        -- destruct Hp as [He _]. destruct o as [| t' x l | | |]; try discriminate. simpl in Ht. subst t'.
           simpl in Hc. injection Hc as Hc. apply has_lp_count in Hc.
           exists [Enter t x l]. intros P EP. exists (upd P t false). simpl. rewrite (EP t), Pt. split; [reflexivity|].
           intros u. open_pending E.
           destruct (Nat.eqb_spec u t) as [->|Hn]; [rewrite Hc; reflexivity|]. rewrite EP. reflexivity.
        -- destruct (is_enter o) eqn:He; simpl in Hc.
           ++ destruct o as [| t' x l | | |]; try discriminate. simpl in Ht. subst t'.
              assert (Hr : has_lp rest = true).
              { destruct (has_lp rest) eqn:Hr; [reflexivity|]. apply has_lp_count in Hr. lia. }
              exists []. intros P EP. exists (upd P t true). simpl. rewrite (EP t), Pt. split; [reflexivity|].
              intros u. open_pending E.
              destruct (Nat.eqb_spec u t) as [->|Hn]; [rewrite Hr; reflexivity|]. rewrite EP. reflexivity.
           ++ injection Hc as Hc. apply has_lp_count in Hc.
              exists [o]. intros P EP. exists P.
              assert (Ea : match o with Enter _ x l => ASaveOp t | _ => AOp o end = AOp o) by (destruct o; try discriminate; reflexivity).
              rewrite Ea. simpl. rewrite Ht, (EP t), Pt. split; [reflexivity|].
              intros u. open_pending E.
              destruct (Nat.eqb_spec u t) as [->|Hn]; [rewrite Hc, (EP t), Pt; reflexivity|]. rewrite EP. reflexivity.
      * exists []. intros P EP. exists P. split; [reflexivity|]. intros u. rewrite EP. open_pending E.
        destruct (Nat.eqb_spec u t) as [->|Hn]; [|reflexivity]. rewrite E. reflexivity.
Qed.

Lemma normH_app : forall H1 H2 P,
  normH P (H1 ++ H2) =
  match normH P H1 with
  | Some (h1, P1) => match normH P1 H2 with Some (h2, P2) => Some (h1 ++ h2, P2) | None => None end
  | None => None
  end.
Proof.
  induction H1 as [|a H1 IH]; intros H2 P; simpl.
  - destruct (normH P H2) as [[h2 P2]|]; reflexivity.
  - destruct a as [o | t | t x l].
    + destruct (P (thr o)); [reflexivity|]. rewrite IH.
      destruct (normH P H1) as [[h1 P1]|]; [|reflexivity]. destruct (normH P1 H2) as [[h2 P2]|]; reflexivity.
    + destruct (P t); [reflexivity|]. apply IH.
    + destruct (P t); [|reflexivity]. rewrite IH.
      destruct (normH (upd P t false) H1) as [[h1 P1]|]; [|reflexivity]. destruct (normH P1 H2) as [[h2 P2]|]; reflexivity.
Qed.

(* the blocks of ANY schedule, in effect order, read as a history of whole operations *)
Theorem orun_norm : forall l s, inv c (o_m s) -> kinv R c s ->
  exists h, forall P, (forall t, P t = pending s t) ->
    exists P', normH P (snd (orun R c s l)) = Some (h, P') /\
               forall t, P' t = pending (fst (orun R c s l)) t.
Proof.
  induction l as [|e l IH]; intros s I K.
  - exists []. intros P EP. exists P. auto.
  - simpl. destruct (ostep_norm s e I K) as [h1 N1]. destruct (ostep_inv s e I K) as [I1 K1].
    destruct (ostep R c s e) as [s1 l1]. simpl in *.
    destruct (IH s1 I1 K1) as [h2 N2]. destruct (orun R c s1 l) as [s2 l2]. simpl in *.
    exists (h1 ++ h2). intros P EP. destruct (N1 P EP) as (P1 & A1 & B1). destruct (N2 P1 B1) as (P2 & A2 & B2).
    exists P2. rewrite normH_app, A1, A2. auto.
Qed.

End LinNormal.

Section Final.
Variables (R : rules) (c : cfg).

(* P5 for thread-safe use: if every thread that enters a context holds a selection of its own at that
   moment, EVERY schedule of the acts of any operations of any number of threads, run to quiescence,
   is observationally an atomic history h of whole operations: same final observable state, every
   thread received exactly the answers of h *)
Theorem micro_own_selection_atomic b0 l :
  let s := fst (orun R c (quiet b0) l) in
  (forall t, m_pend (o_m s) t = []) ->
  saves_own R c b0 (snd (orun R c (quiet b0) l)) ->
  exists h : list op,
    seqv (to_st (m_b (o_m s))) (run R c (to_st b0) h) /\
    forall t, p_out (b_priv (m_b (o_m s)) t) = p_out (b_priv b0 t) ++ own_trace R c t (to_st b0) h.
Proof.
  cbv zeta. intros Q S.
  destruct (quiet_ok R c b0) as (I & K & _).
  destruct (orun_norm R c l (quiet b0) I K) as [h N].
  destruct (N (fun _ => false)) as (P' & N1 & N2); [intros t; reflexivity|].
  assert (HP : forall t, P' t = false).
  { intros t. rewrite N2. unfold pending. rewrite Q. reflexivity. }
  assert (R0 : relP (fun _ => false) b0 b0) by (split; [reflexivity|intros t; reflexivity]).
  destruct (norm_sound R c _ _ b0 b0 h P' N1 S R0) as [Rs Rp].
  destruct (micro_atomic R c b0 l Q) as [A B].
  destruct (arun_ops R c h b0) as [(S1 & S2 & S3) O].
  exists h.
  assert (Ep : forall t, b_priv (m_b (o_m (fst (orun R c (quiet b0) l)))) t = b_priv (arun R c b0 (map AOp h)) t).
  { intros t. rewrite B. specialize (Rp t). rewrite HP in Rp. exact Rp. }
  split; [split; [|split]|].
  - simpl. rewrite A, Rs. exact S1.
  - intros t. simpl. rewrite Ep. apply S2.
  - intros t. simpl. rewrite Ep. apply S3.
  - intros t. rewrite Ep. apply O.
Qed.

End Final.

(* thread 2 first selects Obj 5 for itself, then enters a NON-local context; thread 1's non-local
   set_backend takes effect between the two halves of the entry: not a flat linearisation, yet atomic *)
Definition sched_own : list oev :=
  [OBegin (Set_ 2 (SInst (Obj 5)) true); OTick 2; OTick 2;
   OBegin (Enter 2 (SInst (Obj 0)) false); OTick 2;
   OBegin (Set_ 1 (SName 1) false); OTick 1; OTick 1; OTick 1;
   OTick 2; OTick 2; OTick 2; OTick 1; OTick 2; OTick 2;
   OBegin (Query 3); OTick 3; OBegin (Exit_ 2 true); OTick 2; OTick 2; OTick 2; OTick 2; OTick 2; OBegin (Query 3); OTick 3;
   OBegin (Query 2); OTick 2].

Lemma own_selection_nonvacuous :
  let r := orun fixed_rules cfg0 (quiet b00) sched_own in
  (forall t, m_pend (o_m (fst r)) t = []) /\
  saves_own fixed_rules cfg0 b00 (snd r) /\
  snd r = [AOp (Set_ 2 (SInst (Obj 5)) true); ASaveOp 2; AOp (Set_ 1 (SName 1) false);
           AEnterRest 2 (SInst (Obj 0)) false; AOp (Query 3); AOp (Exit_ 2 true); AOp (Query 3); AOp (Query 2)] /\
  option_map fst (normH (fun _ => false) (snd r))
  = Some [Set_ 2 (SInst (Obj 5)) true; Set_ 1 (SName 1) false; Enter 2 (SInst (Obj 0)) false; Query 3;
          Exit_ 2 true; Query 3; Query 2] /\
  p_out (b_priv (m_b (o_m (fst r))) 3) = [OName 1; OName 6] /\
  p_out (b_priv (m_b (o_m (fst r))) 2) = [ODone; ODone; OReraised; OName 6].
Proof.
  cbv zeta. split; [|split].
  - intros t. do 4 (destruct t as [|t]; [vm_compute; reflexivity|]). vm_compute. reflexivity.
  - vm_compute. repeat split; discriminate.
  - vm_compute. repeat split.
Qed.

(* ---- the hypothesis of micro_own_selection_atomic as a condition on the start state and the programs *)
Section Prog.
Variables (R : rules) (c : cfg).

(* a thread-local slot, once written, is never cleared *)
Lemma act_keeps_tls sh p a : p_tls p <> None -> p_tls (act_priv c sh p a) <> None.
Proof.
  intros H. destruct a; simpl; try exact H; try discriminate.
  destruct (p_ctx p) as [|[old l] k]; exact H.
Qed.

Lemma trun_keeps_tls : forall l sh p, p_tls p <> None -> p_tls (snd (trun c (sh, p) l)) <> None.
Proof.
  induction l as [|a l IH]; intros sh p H; [exact H|].
  change (trun c (sh, p) (a :: l)) with (trun c (t1 c (sh, p) a) l). unfold t1. cbn [fst snd].
  apply IH. now apply act_keeps_tls.
Qed.

Lemma astep_keeps_tls b a t : p_tls (b_priv b t) <> None -> p_tls (b_priv (astep R c b a) t) <> None.
Proof.
  intros H. unfold astep. destruct (block_of R c b a) as [u l].
  destruct (bblock_spec c u l b) as (_ & B & C).
  destruct (Nat.eq_dec t u) as [->|Hn]; [rewrite B; now apply trun_keeps_tls | rewrite (C t Hn); exact H].
Qed.

Lemma saves_own_from_start : forall H b,
  (forall t, In (ASaveOp t) H -> p_tls (b_priv b t) <> None) -> saves_own R c b H.
Proof.
  induction H as [|a H IH]; intros b Hs; [exact Logic.I|].
  split.
  - destruct a; try exact Logic.I. apply Hs. now left.
  - apply IH. intros t Ht. apply astep_keeps_tls. apply Hs. now right.
Qed.

(* a first half of an entry is emitted only for an entry that some event of the schedule began (or that
   was already in flight at the start) *)
Definition in_flight_enter (s : ost) (t : tid) : Prop :=
  has_lp (m_pend (o_m s) t) = true /\ is_enter (fst (o_cur s t)) = true.

Lemma ostep_save_origin s e t : kinv R c s -> In (ASaveOp t) (snd (ostep R c s e)) -> in_flight_enter s t.
Proof.
  intros K. destruct e as [o | u]; simpl.
  - destruct (m_pend (o_m s) (thr o)); intros [].
  - destruct (m_pend (o_m s) u) as [|[a lp] rest] eqn:E; [intros []|].
    destruct lp; [|intros []].
    pose proof (K u) as Ku. cbv zeta in Ku. rewrite E in Ku. specialize (Ku eq_refl).
    destruct (o_cur s u) as [o ph] eqn:Eo. destruct Ku as (Ht & _ & _).
    simpl. intros [Ha|[]].
    destruct o as [| t' x l | | |]; try discriminate. destruct ph; [discriminate|].
    injection Ha as <-. split; [rewrite E; reflexivity|rewrite Eo; reflexivity].
Qed.

Ltac open_flight E := cbn [fst snd o_m o_cur]; unfold mstep; rewrite ?E; cbn [fst snd m_pend]; unfold upd.

Lemma ostep_in_flight s e t : in_flight_enter (fst (ostep R c s e)) t ->
  in_flight_enter s t \/ exists x l, e = OBegin (Enter t x l).
Proof.
  unfold in_flight_enter. destruct e as [o | u]; simpl ostep.
  - destruct (m_pend (o_m s) (thr o)) as [|ab rest] eqn:E; [|auto].
    open_flight E. destruct (Nat.eqb_spec t (thr o)) as [->|Hn]; [|auto].
    intros [_ He]. simpl in He. destruct o as [| t' x l | | |]; try discriminate. right. eauto.
  - destruct (m_pend (o_m s) u) as [|[a lp] rest] eqn:E.
    + open_flight E. auto.
    + destruct lp.
      * destruct (o_cur s u) as [o ph] eqn:Eo. open_flight E.
        destruct (Nat.eqb_spec t u) as [->|Hn]; [|auto].
        intros [Hl He]. left. rewrite E, Eo. simpl in *. auto.
      * open_flight E. destruct (Nat.eqb_spec t u) as [->|Hn]; [|auto].
        intros [Hl He]. left. rewrite E. simpl. auto.
Qed.

Lemma orun_save_origin : forall l s t, inv c (o_m s) -> kinv R c s ->
  In (ASaveOp t) (snd (orun R c s l)) ->
  in_flight_enter s t \/ exists x lf, In (OBegin (Enter t x lf)) l.
Proof.
  induction l as [|e l IH]; intros s t I K; simpl; [intros []|].
  destruct (ostep_inv R c s e I K) as [I1 K1].
  pose proof (ostep_save_origin s e t K) as O1. pose proof (ostep_in_flight s e t) as F1.
  destruct (ostep R c s e) as [s1 h1]. simpl in *.
  specialize (IH s1 t I1 K1). destruct (orun R c s1 l) as [s2 h2]. simpl in *.
  intros Hin. apply in_app_or in Hin. destruct Hin as [Hin|Hin]; [left; now apply O1|].
  destruct (IH Hin) as [Hf|(x & lf & Hx)].
  - destruct (F1 Hf) as [Hs|(x & lf & ->)]; [now left|right; exists x, lf; now left].
  - right. exists x, lf. now right.
Qed.

(* P5 with the hypothesis on the PROGRAMS: if every thread for which the schedule begins a context entry
   already holds a selection of its own in the start state, every schedule run to quiescence is an atomic
   history of whole operations *)
Theorem micro_own_selection_atomic_programs b0 l :
  let s := fst (orun R c (quiet b0) l) in
  (forall t, m_pend (o_m s) t = []) ->
  (forall t x lf, In (OBegin (Enter t x lf)) l -> p_tls (b_priv b0 t) <> None) ->
  exists h : list op,
    seqv (to_st (m_b (o_m s))) (run R c (to_st b0) h) /\
    forall t, p_out (b_priv (m_b (o_m s)) t) = p_out (b_priv b0 t) ++ own_trace R c t (to_st b0) h.
Proof.
  cbv zeta. intros Q Hown. apply micro_own_selection_atomic; [exact Q|].
  apply saves_own_from_start. intros t Hin.
  destruct (quiet_ok R c b0) as (I & K & _).
  destruct (orun_save_origin l (quiet b0) t I K Hin) as [[Hl _]|(x & lf & Hx)].
  - simpl in Hl. discriminate.
  - eapply Hown. exact Hx.
Qed.

End Prog.

(* non-vacuity: thread 2 starts with Obj 5 selected; its NON-local entry is split by thread 1's set_backend *)
Definition b01 : bst :=
  {| b_shared := Named 0;
     b_priv := fun t => if Nat.eqb t 2 then {| p_tls := Some (Obj 5); p_ctx := []; p_reg := Named 0; p_out := [] |} else p0 |}.
Definition sched_prog : list oev :=
  [OBegin (Enter 2 (SInst (Obj 0)) false); OTick 2;
   OBegin (Set_ 1 (SName 1) false); OTick 1; OTick 1; OTick 1;
   OTick 2; OTick 2; OTick 2; OTick 1; OTick 2; OTick 2;
   OBegin (Exit_ 2 true); OTick 2; OTick 2; OTick 2; OTick 2; OTick 2; OBegin (Query 3); OTick 3].

Lemma own_selection_programs_nonvacuous :
  let r := orun fixed_rules cfg0 (quiet b01) sched_prog in
  (forall t, m_pend (o_m (fst r)) t = []) /\
  (forall t x lf, In (OBegin (Enter t x lf)) sched_prog -> p_tls (b_priv b01 t) <> None) /\
  snd r = [ASaveOp 2; AOp (Set_ 1 (SName 1) false); AEnterRest 2 (SInst (Obj 0)) false; AOp (Exit_ 2 true); AOp (Query 3)] /\
  p_out (b_priv (m_b (o_m (fst r))) 2) = [ODone; OReraised] /\
  p_out (b_priv (m_b (o_m (fst r))) 3) = [OName 6].
Proof.
  cbv zeta. split; [|split].
  - intros t. do 4 (destruct t as [|t]; [vm_compute; reflexivity|]). vm_compute. reflexivity.
  - intros t x lf Hin. simpl in Hin.
    repeat (destruct Hin as [Hin|Hin]; [try discriminate; injection Hin as <- _ _; simpl; discriminate|]). destruct Hin.
  - vm_compute. repeat split.
Qed.
