(* Lemmas about the backend-selection machine of Model/Backend.v, for every rule set R, every name
   table c, every finite history over any number of threads. *)
From Coq Require Import List Arith Bool Lia.
From TLV Require Import Model.Backend.
Import ListNotations.

Lemma upd_same {A} (f : nat -> A) t v : upd f t v t = v.
Proof. unfold upd. now rewrite Nat.eqb_refl. Qed.
Lemma upd_other {A} (f : nat -> A) t v t' : t' <> t -> upd f t v t' = f t'.
Proof. intros H. unfold upd. destruct (Nat.eqb_spec t' t); congruence. Qed.

Section P.
Variables (R : rules) (c : cfg).

Notation nxt := (nxt R c).
Notation out := (out R c).
Notation run := (run R c).
Notation trace := (trace R c).
Notation event := (event R c).
Notation events := (events R c).
Notation resolve := (resolve R c).

Lemma run_app s h1 h2 : run s (h1 ++ h2) = run (run s h1) h2.
Proof. unfold run, Backend.run. apply fold_left_app. Qed.

Lemma trace_app : forall h1 s h2, trace s (h1 ++ h2) = trace s h1 ++ trace (run s h1) h2.
Proof. induction h1; intros; simpl; [reflexivity|]. now rewrite IHh1. Qed.

Lemma trace_length : forall h s, length (trace s h) = length h.
Proof. induction h; intros; simpl; auto. Qed.

Lemma trace_nth s h1 o h2 : nth (length h1) (trace s (h1 ++ o :: h2)) ONoCtx = out (run s h1) o.
Proof.
  rewrite trace_app, app_nth2; rewrite trace_length; [|lia].
  now rewrite Nat.sub_diag.
Qed.

(* ------------------------------------------------------------ one step, field by field *)

Lemma resolve_inst old : isinst R old = true -> resolve (SInst old) = Some old.
Proof. intros H. simpl. now rewrite H. Qed.

Lemma nxt_shared s o :
  shared (nxt s o) = match event s o with Some (_, b, false) => b | _ => shared s end.
Proof.
  destruct o as [t x l | t x l | t e | t | t]; unfold Backend.nxt, step, set_backend, Backend.event; simpl; try reflexivity.
  - destruct (Backend.resolve R c x); simpl; [destruct l|]; reflexivity.
  - destruct (Backend.resolve R c x); simpl; [destruct l|]; reflexivity.
  - destruct (ctx s t) as [|[old l] k]; simpl; [reflexivity|].
    destruct (isinst R old); simpl; [destruct (if keep_flag R then l else false)|]; reflexivity.
Qed.

Lemma nxt_tls s o t :
  tls (nxt s o) t = match event s o with Some (u, b, _) => if Nat.eqb t u then Some b else tls s t | None => tls s t end.
Proof.
  destruct o as [u x l | u x l | u e | u | u]; unfold Backend.nxt, step, set_backend, Backend.event; simpl; try reflexivity.
  - destruct (Backend.resolve R c x); simpl; reflexivity.
  - destruct (Backend.resolve R c x); simpl; reflexivity.
  - destruct (ctx s u) as [|[old l] k]; simpl; [reflexivity|].
    destruct (isinst R old); simpl; reflexivity.
Qed.

Lemma nxt_ctx s o u :
  ctx (nxt s o) u =
  match o with
  | Enter t x l => match resolve x with
                   | Some _ => if Nat.eqb u t then (cur s t, l) :: ctx s u else ctx s u
                   | None => ctx s u end
  | Exit_ t _ => if Nat.eqb u t then tl (ctx s u) else ctx s u
  | _ => ctx s u
  end.
Proof.
  destruct o as [t x l | t x l | t e | t | t]; unfold Backend.nxt, step, set_backend; simpl; try reflexivity.
  - destruct (Backend.resolve R c x); reflexivity.
  - destruct (Backend.resolve R c x); simpl; [|reflexivity].
    unfold upd. destruct (Nat.eqb_spec u t); [subst; reflexivity|reflexivity].
  - destruct (ctx s t) as [|[old l] k] eqn:E; simpl.
    + destruct (Nat.eqb_spec u t); [subst; now rewrite E|reflexivity].
    + destruct (isinst R old); simpl; unfold upd; destruct (Nat.eqb_spec u t); subst; try rewrite E; reflexivity.
Qed.

Lemma event_thr s o u b l : event s o = Some (u, b, l) -> u = thr o.
Proof.
  destruct o as [t x l' | t x l' | t e | t | t]; simpl; try discriminate.
  - destruct (Backend.resolve R c x); [|discriminate]. now intros [= <- _ _].
  - destruct (Backend.resolve R c x); [|discriminate]. now intros [= <- _ _].
  - destruct (ctx s t) as [|[old l0] k]; [discriminate|]. destruct (isinst R old); [|discriminate]. now intros [= <- _ _].
Qed.

Lemma tls_other s o t : t <> thr o -> tls (nxt s o) t = tls s t.
Proof.
  intros H. rewrite nxt_tls. destruct (event s o) as [[[u b] l]|] eqn:E; [|reflexivity].
  apply event_thr in E. subst u. destruct (Nat.eqb_spec t (thr o)); congruence.
Qed.

Lemma ctx_other s o t : t <> thr o -> ctx (nxt s o) t = ctx s t.
Proof.
  intros H. rewrite nxt_ctx. destruct o as [u x l | u x l | u e | u | u]; simpl in *; try reflexivity.
  - destruct (Backend.resolve R c x); [|reflexivity]. destruct (Nat.eqb_spec t u); congruence.
  - destruct (Nat.eqb_spec t u); congruence.
Qed.

(* ------------------------------------------------------------ P4: rejection *)

Lemma rejection s t x l : resolve x = None ->
  step R c s (Set_ t x l) = (s, ORejected) /\ step R c s (Enter t x l) = (s, ORejected).
Proof. intros H. unfold step, set_backend. rewrite H. auto. Qed.

Lemma rejection_history s h1 o h2 :
  (exists t x l, (o = Set_ t x l \/ o = Enter t x l) /\ resolve x = None) ->
  run s (h1 ++ o :: h2) = run s (h1 ++ h2) /\
  trace s (h1 ++ o :: h2) = trace s h1 ++ ORejected :: trace (run s h1) h2.
Proof.
  intros (t & x & l & Ho & Hr).
  assert (E : step R c (run s h1) o = (run s h1, ORejected)).
  { destruct (rejection (run s h1) t x l Hr) as [A B]. destruct Ho; subst o; assumption. }
  assert (En : nxt (run s h1) o = run s h1) by (unfold Backend.nxt; now rewrite E).
  assert (Eo : out (run s h1) o = ORejected) by (unfold Backend.out; now rewrite E).
  split.
  - rewrite !run_app. change (run (run s h1) (o :: h2)) with (run (nxt (run s h1) o) h2). now rewrite En.
  - rewrite trace_app. simpl. now rewrite En, Eo.
Qed.

Lemma unknown_name_rejected n : known c n = false -> resolve (SName n) = None.
Proof. intros H. simpl. now rewrite H. Qed.

Lemma non_instance_rejected i : isinst R i = false -> resolve (SInst i) = None.
Proof. intros H. simpl. now rewrite H. Qed.

(* observations change nothing *)
Lemma observation_pure s t : nxt s (Query t) = s /\ nxt s (Dispatch t) = s.
Proof. split; reflexivity. Qed.

(* ------------------------------------------------------------ P1: the view *)

Lemma last_from_app p acc l1 l2 : last_from p acc (l1 ++ l2) = last_from p (last_from p acc l1) l2.
Proof. unfold last_from. apply fold_left_app. Qed.

Lemma last_from_default p : forall l acc,
  last_from p acc l = match last_from p None l with Some b => Some b | None => acc end.
Proof.
  induction l as [|e l IH]; intros acc; simpl; [reflexivity|].
  unfold last_from in *. simpl. rewrite IH. rewrite (IH (if p e then _ else None)).
  destruct (fold_left _ l None); [reflexivity|]. destruct (p e); reflexivity.
Qed.

Lemma tls_run t : forall h s, tls (run s h) t = last_from (by_thread t) (tls s t) (events s h).
Proof.
  induction h as [|o h IH]; intros s; [reflexivity|].
  change (run s (o :: h)) with (run (nxt s o) h). rewrite IH. simpl Backend.events.
  rewrite last_from_app. f_equal. rewrite nxt_tls.
  destruct (event s o) as [[[u b] l]|]; reflexivity.
Qed.

Lemma shared_run : forall h s, Some (shared (run s h)) = last_from is_global (Some (shared s)) (events s h).
Proof.
  induction h as [|o h IH]; intros s; [reflexivity|].
  change (run s (o :: h)) with (run (nxt s o) h). rewrite IH. simpl Backend.events.
  rewrite last_from_app. f_equal. rewrite nxt_shared.
  destruct (event s o) as [[[u b] l]|]; [destruct l|]; reflexivity.
Qed.

Theorem view_correct s h t : cur (run s h) t = view (tls s t) (shared s) (events s h) t.
Proof.
  unfold cur, current_backend, view. rewrite tls_run.
  destruct (last_from (by_thread t) (tls s t) (events s h)); [reflexivity|].
  pose proof (shared_run h s) as H. rewrite last_from_default in H.
  destruct (last_from is_global None (events s h)); congruence.
Qed.

(* Query and Dispatch, wherever they occur in a history, observe the view of their own thread *)
Theorem observe s h1 t h2 :
  nth (length h1) (trace s (h1 ++ Query t :: h2)) ONoCtx
    = OName (name_of c (view (tls s t) (shared s) (events s h1) t)) /\
  nth (length h1) (trace s (h1 ++ Dispatch t :: h2)) ONoCtx
    = OInst (view (tls s t) (shared s) (events s h1) t).
Proof. rewrite !trace_nth, <- view_correct. split; reflexivity. Qed.

(* the selection just made is what the thread sees *)
Lemma selected_is_current s t x l b :
  resolve x = Some b -> cur (nxt s (Set_ t x l)) t = b /\ cur (nxt s (Enter t x l)) t = b.
Proof.
  intros H. unfold cur, current_backend. rewrite !nxt_tls. simpl. rewrite H, Nat.eqb_refl. auto.
Qed.

(* a non-local selection becomes the view of every thread that holds no selection of its own *)
Lemma global_selection_published s t x b u :
  resolve x = Some b -> tls s u = None -> u <> t ->
  cur (nxt s (Set_ t x false)) u = b /\ cur (nxt s (Enter t x false)) u = b.
Proof.
  intros H Hu Hn. unfold cur, current_backend. rewrite !nxt_tls, !nxt_shared. simpl. rewrite H.
  destruct (Nat.eqb_spec u t); [congruence|]. rewrite Hu. auto.
Qed.

(* ------------------------------------------------------------ P2: isolation *)

Lemma local_event s o u b l : keep_flag R = true -> is_local s o = true -> event s o = Some (u, b, l) -> l = true.
Proof.
  intros HK HL. destruct o as [t x l' | t x l' | t e | t | t]; simpl in *; try discriminate.
  - destruct (Backend.resolve R c x); [|discriminate]. intros [= _ _ <-]. exact HL.
  - destruct (Backend.resolve R c x); [|discriminate]. intros [= _ _ <-]. exact HL.
  - destruct (ctx s t) as [|[old l0] k]; [discriminate|]. destruct (isinst R old); [|discriminate].
    rewrite HK. intros [= _ _ <-]. exact HL.
Qed.

Lemma local_keeps_shared s o : keep_flag R = true -> is_local s o = true -> shared (nxt s o) = shared s.
Proof.
  intros HK HL. rewrite nxt_shared. destruct (event s o) as [[[u b] l]|] eqn:E; [|reflexivity].
  now rewrite (local_event s o u b l HK HL E).
Qed.

Theorem isolation_step s o t' :
  keep_flag R = true -> is_local s o = true -> t' <> thr o -> cur (nxt s o) t' = cur s t'.
Proof.
  intros HK HL Hn. unfold cur, current_backend.
  now rewrite tls_other, local_keeps_shared.
Qed.

Lemma ctx_local_step t' s o :
  thr o <> t' -> flag_local o = true -> ctx_local_except t' s -> ctx_local_except t' (nxt s o).
Proof.
  intros Hn Hf HC u old l Hu Hin. rewrite nxt_ctx in Hin.
  destruct o as [t x l' | t x l' | t e | t | t]; simpl in *; try (eapply HC; eassumption).
  - destruct (Backend.resolve R c x); [|eapply HC; eassumption].
    destruct (Nat.eqb_spec u t); [|eapply HC; eassumption].
    destruct Hin as [[= _ <-]|Hin]; [exact Hf|eapply HC; eassumption].
  - destruct (Nat.eqb_spec u t); [|eapply HC; eassumption].
    eapply HC; [eassumption|]. destruct (ctx s u); [destruct Hin|right; exact Hin].
Qed.

Lemma flag_is_local t' s o : thr o <> t' -> flag_local o = true -> ctx_local_except t' s -> is_local s o = true.
Proof.
  intros Hn Hf HC. destruct o as [t x l' | t x l' | t e | t | t]; simpl in *; try assumption; try reflexivity.
  destruct (ctx s t) as [|[old l] k] eqn:E; [reflexivity|].
  apply (HC t old l Hn). rewrite E. now left.
Qed.

(* whatever the other threads do with local_threadsafe=True - sets, contexts entered and left,
   nested, rejected - thread t' keeps observing the same backend *)
Theorem isolation_history t' : keep_flag R = true -> forall h s,
  ctx_local_except t' s ->
  Forall (fun o => thr o <> t' /\ flag_local o = true) h ->
  cur (run s h) t' = cur s t' /\ shared (run s h) = shared s.
Proof.
  intros HK. induction h as [|o h IH]; intros s HC HF; [split; reflexivity|].
  inversion HF as [|? ? [Hn Hf] HF']; subst.
  change (run s (o :: h)) with (run (nxt s o) h).
  destruct (IH (nxt s o)) as [A B]; [now apply ctx_local_step | exact HF' |].
  pose proof (flag_is_local t' s o Hn Hf HC) as HL.
  rewrite A, B. split; [apply isolation_step; auto | apply local_keeps_shared; auto].
Qed.

(* ------------------------------------------------------------ well-formed states *)

Lemma resolve_isinst x b : (forall n, isinst R (Named n) = true) -> resolve x = Some b -> isinst R b = true.
Proof.
  intros HN. destruct x as [n|i]; simpl.
  - destruct (known c n); [|discriminate]. intros [= <-]. apply HN.
  - destruct (isinst R i) eqn:E; [|discriminate]. now intros [= <-].
Qed.

Lemma event_isinst s o u b l :
  (forall n, isinst R (Named n) = true) -> event s o = Some (u, b, l) -> isinst R b = true.
Proof.
  intros HN. destruct o as [t x l' | t x l' | t e | t | t]; simpl; try discriminate.
  - destruct (Backend.resolve R c x) eqn:E; [|discriminate]. intros [= _ <- _]. eapply resolve_isinst; eauto.
  - destruct (Backend.resolve R c x) eqn:E; [|discriminate]. intros [= _ <- _]. eapply resolve_isinst; eauto.
  - destruct (ctx s t) as [|[old l0] k]; [discriminate|]. destruct (isinst R old) eqn:E; [|discriminate].
    now intros [= _ <- _].
Qed.

Lemma wf_step s o : (forall n, isinst R (Named n) = true) -> wf R s -> wf R (nxt s o).
Proof.
  intros HN (W1 & W2 & W3). split; [|split].
  - rewrite nxt_shared. destruct (event s o) as [[[u b] l]|] eqn:E; [|exact W1].
    destruct l; [exact W1|]. eapply event_isinst; eauto.
  - intros t b. rewrite nxt_tls. destruct (event s o) as [[[u b'] l]|] eqn:E; [|apply W2].
    destruct (Nat.eqb t u); [|apply W2]. intros [= <-]. eapply event_isinst; eauto.
  - intros t old l. rewrite nxt_ctx.
    destruct o as [u x l' | u x l' | u e | u | u]; try apply W3.
    + destruct (Backend.resolve R c x); [|apply W3]. destruct (Nat.eqb t u); [|apply W3].
      intros [[= <- _]|Hin]; [|eapply W3; eauto].
      unfold cur, current_backend. destruct (tls s u) eqn:E; [eapply W2; eauto|exact W1].
    + destruct (Nat.eqb t u); [|apply W3]. intros Hin. apply (W3 t old l).
      destruct (ctx s t); [destruct Hin|right; exact Hin].
Qed.

Lemma wf_run : (forall n, isinst R (Named n) = true) -> forall h s, wf R s -> wf R (run s h).
Proof.
  intros HN. induction h as [|o h IH]; intros s W; [exact W|].
  change (run s (o :: h)) with (run (nxt s o) h). apply IH. now apply wf_step.
Qed.

Lemma wf_init own0 :
  isinst R (Named 0) = true -> (forall t b, own0 t = Some b -> isinst R b = true) -> wf R (init own0).
Proof. intros H0 H1. split; [exact H0|]. split; [exact H1|]. intros t old l []. Qed.

(* in a well-formed state the finally-clause of backend_context cannot fail *)
Lemma exit_succeeds s t e : wf R s -> out s (Exit_ t e) <> OExitFailed.
Proof.
  intros (W1 & W2 & W3). unfold Backend.out, step, set_backend.
  destruct (ctx s t) as [|[old l] k] eqn:E; simpl; [discriminate|].
  assert (H : isinst R old = true) by (apply (W3 t old l); rewrite E; now left).
  rewrite H. simpl. destruct e; discriminate.
Qed.

Lemma exit_restores s t e old l k : wf R s -> ctx s t = (old, l) :: k ->
  cur (nxt s (Exit_ t e)) t = old /\ ctx (nxt s (Exit_ t e)) t = k.
Proof.
  intros (W1 & W2 & W3) E.
  assert (H : isinst R old = true) by (apply (W3 t old l); rewrite E; now left).
  split.
  - unfold cur, current_backend. rewrite nxt_tls. simpl. rewrite E, H, Nat.eqb_refl. reflexivity.
  - rewrite nxt_ctx, Nat.eqb_refl, E. reflexivity.
Qed.

(* leaving a context by an exception of its body runs the same restore as leaving it normally (one
   try/finally, no except clause); the only difference is what the `with` statement does afterwards:
   the exception propagates (OReraised) instead of execution continuing (ODone).  Holds by computation:
   the state transition of Exit_ does not look at the flag *)
Lemma exit_exception_same_restore s t :
  nxt s (Exit_ t true) = nxt s (Exit_ t false) /\
  out s (Exit_ t true) = match out s (Exit_ t false) with ODone => OReraised | o => o end.
Proof.
  unfold Backend.nxt, Backend.out, step. destruct (ctx s t) as [|[old l] k]; [split; reflexivity|].
  destruct (set_backend R c (with_ctx s t k) t (SInst old) (if keep_flag R then l else false)); split; reflexivity.
Qed.

(* ------------------------------------------------------------ P3: restore *)

Lemma seg_preserves t : (forall n, isinst R (Named n) = true) ->
  forall d h, seg R c t d h -> forall s pre base,
  wf R s -> ctx s t = pre ++ base -> length pre = d -> ctx (run s h) t = base.
Proof.
  intros HN. induction 1 as [| d o h Hn _ IH | d x l h _ IH | d h _ IH | d h _ IH
                            | d x l h Hr _ IH | d x l b h Hr _ IH | d e h _ IH]; intros s pre base W Hc Hl.
  - destruct pre; [exact Hc|discriminate].
  - change (run s (o :: h)) with (run (nxt s o) h).
    eapply IH; [now apply wf_step | rewrite ctx_other by congruence; exact Hc | exact Hl].
  - change (run s (Set_ t x l :: h)) with (run (nxt s (Set_ t x l)) h).
    eapply IH; [now apply wf_step | rewrite nxt_ctx; exact Hc | exact Hl].
  - eapply IH; eauto.
  - eapply IH; eauto.
  - change (run s (Enter t x l :: h)) with (run (nxt s (Enter t x l)) h).
    eapply IH; [now apply wf_step | rewrite nxt_ctx, Hr; exact Hc | exact Hl].
  - change (run s (Enter t x l :: h)) with (run (nxt s (Enter t x l)) h).
    eapply (IH _ ((cur s t, l) :: pre) base); [now apply wf_step | | simpl; now rewrite Hl].
    rewrite nxt_ctx, Hr, Nat.eqb_refl, Hc. reflexivity.
  - change (run s (Exit_ t e :: h)) with (run (nxt s (Exit_ t e)) h).
    destruct pre as [|[old l] pre]; [discriminate|]. simpl in Hc, Hl.
    eapply (IH _ pre base); [now apply wf_step | | lia].
    now destruct (exit_restores s t e old l (pre ++ base) W Hc).
Qed.

Theorem restore s t x l b h e :
  (forall n, isinst R (Named n) = true) -> wf R s -> resolve x = Some b -> seg R c t 0 h ->
  cur (run s (Enter t x l :: h ++ [Exit_ t e])) t = cur s t /\
  ctx (run s (Enter t x l :: h ++ [Exit_ t e])) t = ctx s t.
Proof.
  intros HN W Hr Hseg.
  change (Enter t x l :: h ++ [Exit_ t e]) with ([Enter t x l] ++ h ++ [Exit_ t e]).
  rewrite !run_app.
  set (s1 := run s [Enter t x l]).
  assert (W1 : wf R s1) by (apply wf_run; assumption).
  assert (Hc : ctx s1 t = [] ++ ((cur s t, l) :: ctx s t)).
  { subst s1. change (run s [Enter t x l]) with (nxt s (Enter t x l)).
    rewrite nxt_ctx, Hr, Nat.eqb_refl. reflexivity. }
  pose proof (seg_preserves t HN 0 h Hseg s1 [] _ W1 Hc eq_refl) as Hk.
  assert (W2 : wf R (run s1 h)) by (apply wf_run; assumption).
  change (run (run s1 h) [Exit_ t e]) with (nxt (run s1 h) (Exit_ t e)).
  apply (exit_restores _ t e _ _ _ W2 Hk).
Qed.

(* the observation made right after the exit equals the one made right before the enter *)
Corollary restore_observed s t x l b h e :
  (forall n, isinst R (Named n) = true) -> wf R s -> resolve x = Some b -> seg R c t 0 h ->
  let hist := Enter t x l :: h ++ [Exit_ t e] in
  out (run s hist) (Query t) = out s (Query t) /\ out (run s hist) (Dispatch t) = out s (Dispatch t).
Proof.
  intros HN W Hr Hseg. cbv zeta. destruct (restore s t x l b h e HN W Hr Hseg) as [A _].
  unfold Backend.out, step. cbn [snd]. unfold cur in A. rewrite A. auto.
Qed.

End P.

(* ------------------------------------------------------------ the fixed rule set *)

Lemma fixed_named : forall n, isinst fixed_rules (Named n) = true.
Proof. reflexivity. Qed.

Lemma wf_fixed_init own0 : (forall t k, own0 t <> Some (Foreign k)) -> wf fixed_rules (init own0).
Proof.
  intros H. apply wf_init; [reflexivity|]. intros t b E. destruct b; try reflexivity.
  exfalso. eapply H; eauto.
Qed.

(* ------------------------------------------------------------ the pinned rules are refuted *)

Definition cfg0 : cfg := {| known := fun n => Nat.leb n 2; cname := fun k => S k |}.
Definition s0 : st := init (fun _ => None).

(* pinned backend_context: leaving a thread-local context republishes the thread's private
   backend as the shared default; thread 2 never did anything and sees another backend *)
Lemma old_exit_rule_refuted :
  exists h t', Forall (fun o => thr o = 1 /\ flag_local o = true) h /\ t' <> 1 /\
     cur (run old_exit_rules cfg0 s0 h) t' <> cur s0 t'.
Proof.
  exists [Set_ 1 (SInst (Obj 7)) true; Enter 1 (SInst (Obj 8)) true; Exit_ 1 false], 2.
  split; [repeat constructor|]. split; [discriminate|]. vm_compute. discriminate.
Qed.

(* pinned tenalg manager: set_backend treats the saved TenalgBackend instance as an unknown name,
   so the context cannot exit and the inner backend stays selected *)
Lemma old_tenalg_rule_refuted :
  exists h, seg old_tenalg_rules cfg0 1 0 [] /\
     h = [Enter 1 (SName 1) false; Exit_ 1 false] /\
     trace old_tenalg_rules cfg0 s0 h = [ODone; OExitFailed] /\
     cur (run old_tenalg_rules cfg0 s0 h) 1 <> cur s0 1.
Proof.
  eexists. split; [constructor|]. split; [reflexivity|]. split; [reflexivity|]. vm_compute. discriminate.
Qed.
