(* Proofs/BackendSym.v - soundness of the symbolic block comparison of Model/BackendSym.v: two blocks of acts with the
   same symbolic end state do the same on EVERY initial state, for EVERY argument; hence the check Corr/C17.v runs on the
   programs regenerated from the source (src_ok) establishes block equivalence with the model's programs universally. *)
From Coq Require Import List Arith Bool Lia.
From TLV Require Import Model.Backend Model.BackendAbort Model.BackendSym.
Import ListNotations.

Lemma ieqb_true : forall a b, ieqb a b = true -> a = b.
Proof. destruct a, b; simpl; intro H; try discriminate; apply Nat.eqb_eq in H; subst; reflexivity. Qed.

Lemma oeqb_true : forall a b, oeqb a b = true -> a = b.
Proof.
  destruct a, b; simpl; intro H; try discriminate; try reflexivity.
  - apply Nat.eqb_eq in H; subst; reflexivity.
  - apply ieqb_true in H; subst; reflexivity.
Qed.

Lemma veqb_true : forall a b, veqb a b = true -> a = b.
Proof.
  induction a; destruct b; simpl; intro H; try discriminate; try reflexivity.
  - f_equal; auto.
  - apply andb_true_iff in H; destruct H as [H1 H2]; apply Nat.eqb_eq in H1; subst; f_equal; auto.
Qed.

Lemma sobeqb_true : forall a b, sobeqb a b = true -> a = b.
Proof.
  destruct a, b; simpl; intro H; try discriminate.
  - apply oeqb_true in H; subst; reflexivity.
  - apply veqb_true in H; subst; reflexivity.
  - apply veqb_true in H; subst; reflexivity.
Qed.

Lemma leqb_true : forall A (e : A -> A -> bool), (forall x y, e x y = true -> x = y) ->
  forall a b, leqb e a b = true -> a = b.
Proof.
  intros A e He; induction a; destruct b; simpl; intro H; try discriminate; try reflexivity.
  apply andb_true_iff in H; destruct H as [H1 H2]; f_equal; auto.
Qed.

Lemma skipn_cons_nth : forall A (l : list A) n x k, skipn n l = x :: k -> nth_error l n = Some x /\ skipn (S n) l = k.
Proof.
  induction l; intros n x k H.
  - destruct n; discriminate.
  - destruct n; simpl in *.
    + inversion H; subst; split; reflexivity.
    + apply IHl in H; exact H.
Qed.

Lemma skipn_nil_nth : forall A (l : list A) n, skipn n l = [] -> nth_error l n = None /\ skipn (S n) l = [].
Proof.
  induction l; intros n H.
  - destruct n; split; reflexivity.
  - destruct n; simpl in *.
    + discriminate.
    + apply IHl in H; exact H.
Qed.

Definition step1 (c : cfg) (x : inst * priv) (a : act) : inst * priv :=
  (act_shared (fst x) (snd x) a, act_priv c (fst x) (snd x) a).

Lemma den_sval_of : forall b sh0 p0 c s v,
  val (snd (den_st c b sh0 p0 s)) (inst_src b v) = den b sh0 p0 (sval_of s v).
Proof. intros; destruct v; reflexivity. Qed.

Lemma den_ycur : forall c b sh0 p0 s,
  pcur (fst (den_st c b sh0 p0 s)) (snd (den_st c b sh0 p0 s)) = den b sh0 p0 (ycur s).
Proof.
  intros; unfold pcur, ycur, den_st; simpl.
  destruct (y_tls s); simpl; [reflexivity|].
  destruct (p_tls p0); reflexivity.
Qed.

Lemma den_step : forall c b sh0 p0 s a,
  den_st c b sh0 p0 (ystep s a) = step1 c (den_st c b sh0 p0 s) (inst_act b a).
Proof.
  intros c b sh0 p0 s a.
  destruct a; unfold step1; simpl inst_act.
  - (* save *) unfold act_shared, act_priv; rewrite den_ycur; reflexivity.
  - (* tls *) unfold act_shared, act_priv; rewrite den_sval_of; reflexivity.
  - (* dname *) unfold den_st; reflexivity.
  - (* shared *) unfold act_shared, act_priv; rewrite den_sval_of; reflexivity.
  - (* push *) reflexivity.
  - (* pop *)
    unfold den_st at 1; simpl ystep.
    destruct (y_push s) as [|[old fl] k] eqn:Hp.
    + unfold act_shared, act_priv, den_st; simpl; rewrite Hp; simpl.
      destruct (skipn (y_npop s) (p_ctx p0)) as [|[o2 f2] k2] eqn:Hs.
      * apply skipn_nil_nth in Hs; destruct Hs as [Hn Hk].
        simpl in Hk; rewrite Hk, Hn; reflexivity.
      * apply skipn_cons_nth in Hs; destruct Hs as [Hn Hk].
        simpl in Hk; rewrite Hk, Hn; reflexivity.
    + unfold act_shared, act_priv, den_st; simpl; rewrite Hp; simpl; reflexivity.
  - (* emit *) unfold act_shared, act_priv, den_st; simpl; rewrite map_app, app_assoc; reflexivity.
  - (* query *)
    unfold act_shared, act_priv; rewrite den_ycur; unfold den_st; simpl; rewrite map_app, app_assoc; reflexivity.
  - (* dispatch *)
    unfold act_shared, act_priv; rewrite den_ycur; unfold den_st; simpl; rewrite map_app, app_assoc; reflexivity.
Qed.

Lemma den_y0 : forall c b sh0 p0, den_st c b sh0 p0 y0 = (sh0, p0).
Proof. intros; destruct p0; unfold den_st; simpl; rewrite app_nil_r; reflexivity. Qed.

Lemma trun_step1 : forall c l x, trun c x l = fold_left (step1 c) l x.
Proof. reflexivity. Qed.

Lemma den_run_from : forall c b sh0 p0 l s,
  fold_left (step1 c) (map (inst_act b) l) (den_st c b sh0 p0 s) = den_st c b sh0 p0 (fold_left ystep l s).
Proof.
  induction l; intro s; simpl; [reflexivity|].
  rewrite <- den_step; apply IHl.
Qed.

(* the symbolic run denotes the concrete one: every state, every argument *)
Lemma den_run : forall c b sh0 p0 l,
  trun c (sh0, p0) (map (inst_act b) l) = den_st c b sh0 p0 (yrun l).
Proof. intros; rewrite trun_step1, <- (den_y0 c b sh0 p0) at 1; apply den_run_from. Qed.

Lemma sst_eqb_true : forall s1 s2, sst_eqb s1 s2 = true ->
  y_sh s1 = y_sh s2 /\ y_tls s1 = y_tls s2 /\ y_push s1 = y_push s2 /\ y_npop s1 = y_npop s2 /\ y_out s1 = y_out s2.
Proof.
  unfold sst_eqb; intros s1 s2 H.
  repeat (apply andb_true_iff in H; destruct H as [H ?]).
  repeat split.
  - apply veqb_true; assumption.
  - destruct (y_tls s1), (y_tls s2); simpl in *; try discriminate; try reflexivity.
    f_equal; apply veqb_true; assumption.
  - eapply leqb_true; [|eassumption].
    intros [x xl] [y yl] E; simpl in E; apply andb_true_iff in E; destruct E as [E1 E2].
    apply veqb_true in E1; apply Bool.eqb_prop in E2; subst; reflexivity.
  - apply Nat.eqb_eq; assumption.
  - eapply leqb_true; [exact sobeqb_true|eassumption].
Qed.

Theorem blk_eqb_sound : forall l1 l2, blk_eqb l1 l2 = true ->
  forall c b sh p, blk_same c sh p (map (inst_act b) l1) (map (inst_act b) l2).
Proof.
  unfold blk_eqb, blk_same; intros l1 l2 H c b sh p.
  apply sst_eqb_true in H; destruct H as (H1 & H2 & H3 & H4 & H5).
  rewrite !den_run; unfold den_st; simpl.
  rewrite H1, H2, H3, H4, H5; repeat split; reflexivity.
Qed.

(* ---- the model's programs are instances of their symbolic form *)
Lemma map_fst_inst_prog : forall b l, map fst (inst_prog b l) = map (inst_act b) (map fst l).
Proof. intros; unfold inst_prog; rewrite !map_map; reflexivity. Qed.

Lemma writes_inst : forall b v l, writes (inst_src b v) l = inst_prog b (swrites v l).
Proof. intros; destruct l; reflexivity. Qed.

Lemma compile_set_inst : forall R c p t x l b, resolve R c x = Some b ->
  compile R c p (Set_ t x l) = inst_prog b (scompile (HSet l)).
Proof.
  intros; simpl; rewrite H. change (Const b) with (inst_src b SArg); rewrite writes_inst.
  unfold inst_prog; rewrite map_app; reflexivity.
Qed.

Lemma compile_enter_inst : forall R c p t x l b, resolve R c x = Some b ->
  compile R c p (Enter t x l) = inst_prog b (scompile (HEnter l)).
Proof.
  intros; simpl; rewrite H. change (Const b) with (inst_src b SArg); rewrite writes_inst.
  unfold inst_prog; simpl; rewrite map_app; reflexivity.
Qed.

Lemma compile_exit_inst : forall R c p t e old l cx b, keep_flag R = true -> p_ctx p = (old, l) :: cx -> isinst R old = true ->
  compile R c p (Exit_ t e) = inst_prog b (scompile (HExit l e)).
Proof.
  intros R c p t e old l cx b Hk Hp Hi; simpl; rewrite Hp, Hi, Hk.
  change FromReg with (inst_src b SReg); rewrite writes_inst.
  unfold inst_prog; simpl; rewrite map_app; reflexivity.
Qed.

(* the discipline does not depend on the argument *)
Lemma is_private_inst : forall b b' a, is_private (inst_act b a) = is_private (inst_act b' a).
Proof. destruct a; reflexivity. Qed.

Lemma wfpb_inst : forall b b' l, wfpb (inst_prog b l) = wfpb (inst_prog b' l).
Proof.
  induction l as [|[a t] l IH]; [reflexivity|].
  unfold wfpb in *; simpl; rewrite (is_private_inst b b'), IH; reflexivity.
Qed.

Lemma has_lp_inst : forall b b' l, has_lp (inst_prog b l) = has_lp (inst_prog b' l).
Proof.
  induction l as [|[a t] l IH]; [reflexivity|].
  unfold has_lp in *; simpl; rewrite IH; reflexivity.
Qed.

Lemma count_lp_inst : forall b b' l, count_lp (inst_prog b l) = count_lp (inst_prog b' l).
Proof.
  induction l as [|[a t] l IH]; [reflexivity|].
  unfold count_lp in *; simpl; destruct t; simpl; rewrite IH; reflexivity.
Qed.

Lemma prog_ok_inst : forall b b' l, prog_ok (inst_prog b l) = prog_ok (inst_prog b' l).
Proof. intros; unfold prog_ok; rewrite (wfpb_inst b b'), (has_lp_inst b b'); reflexivity. Qed.

(* ---- what one accepted program gives *)
Definition good (h : shape) (nlp : nat) (pr : sprog) : Prop :=
  forall b : inst,
    prog_ok (inst_prog b pr) = true /\ count_lp (inst_prog b pr) = nlp /\
    forall c sh p, blk_same c sh p (map fst (inst_prog b pr)) (map fst (inst_prog b (scompile h))).

Lemma check_sprog_good : forall h n pr, check_sprog h n pr = true -> good h n pr.
Proof.
  unfold check_sprog, sprog_ok, good; intros h n pr H b.
  apply andb_true_iff in H; destruct H as [H H3]; apply andb_true_iff in H; destruct H as [H1 H2].
  split; [rewrite (prog_ok_inst b (Named 0)); exact H1|].
  split; [rewrite (count_lp_inst b (Named 0)); apply Nat.eqb_eq; exact H2|].
  intros c sh p; rewrite !map_fst_inst_prog; apply blk_eqb_sound; exact H3.
Qed.

Fixpoint all_good (hs : list (shape * nat)) (ps : list sprog) : Prop :=
  match hs, ps with
  | [], [] => True
  | (h, n) :: hs', p :: ps' => good h n p /\ all_good hs' ps'
  | _, _ => False
  end.

Lemma check_all_good : forall hs ps, check_all hs ps = true -> all_good hs ps.
Proof.
  induction hs as [|[h n] hs IH]; destruct ps; simpl; intro H; try discriminate; [exact I|].
  apply andb_true_iff in H; destruct H as [H1 H2]; split; [apply check_sprog_good; exact H1|apply IH; exact H2].
Qed.

(* what the accepted programs are compared with IS the model's program of the operation, on every state in which the
   operation has that shape *)
Definition model_prog (R : rules) (c : cfg) (p : priv) (t : tid) (b : inst) (h : shape) : Prop :=
  match h with
  | HSet l => forall x, resolve R c x = Some b -> compile R c p (Set_ t x l) = inst_prog b (scompile h)
  | HEnter l => forall x, resolve R c x = Some b -> compile R c p (Enter t x l) = inst_prog b (scompile h)
  | HExit l e => forall old cx, p_ctx p = (old, l) :: cx -> isinst R old = true ->
                 compile R c p (Exit_ t e) = inst_prog b (scompile h)
  end.

Lemma model_prog_holds : forall R c p t b h, keep_flag R = true -> model_prog R c p t b h.
Proof.
  intros R c p t b h Hk; destruct h; unfold model_prog; intros.
  - apply compile_set_inst; assumption.
  - apply compile_enter_inst; assumption.
  - eapply compile_exit_inst; eassumption.
Qed.

(* the check of Corr/C17.v on the digits the harness extracts from the source: if it answers true, then the eight
   decoded programs obey the effect-point discipline (so the generic reduction applies to them) and each is
   equivalent AS A BLOCK to the model's program of its operation on every state, for every backend instance *)
Theorem src_ok_sound : forall digits, src_ok digits = true ->
  exists ps, dec_sprogs 8 digits = Some ps /\ all_good shapes8 ps.
Proof.
  unfold src_ok; intros digits H.
  destruct (dec_sprogs 8 digits) as [ps|]; [|discriminate].
  exists ps; split; [reflexivity|apply check_all_good; exact H].
Qed.

(* spelled out for one operation: set_backend(x, local_threadsafe = l) *)
Theorem src_ok_set : forall digits, src_ok digits = true ->
  forall l : bool, exists pr : sprog,
    (exists ps, dec_sprogs 8 digits = Some ps /\ nth_error ps (if l then 4 else 0) = Some pr) /\
    forall (R : rules) (c : cfg) (t : tid) (x : sel) (b sh : inst) (p : priv),
      resolve R c x = Some b ->
      prog_ok (inst_prog b pr) = true /\
      blk_same c sh p (map fst (inst_prog b pr)) (map fst (compile R c p (Set_ t x l))).
Proof.
  intros digits H l; apply src_ok_sound in H; destruct H as (ps & Hd & Hg).
  destruct ps as [|s0 [|e0 [|x0 [|y0 [|s1 [|e1 [|x1 [|y1 [|]]]]]]]]]; simpl in Hg; try tauto.
  destruct Hg as (G0 & G1 & G2 & G3 & G4 & G5 & G6 & G7 & _).
  destruct l.
  - exists s1; split; [exists [s0; e0; x0; y0; s1; e1; x1; y1]; split; [exact Hd|reflexivity]|].
    intros R c t x b sh p Hr; destruct (G4 b) as (A & _ & B); split; [exact A|].
    rewrite (compile_set_inst R c p t x true b Hr); apply B.
  - exists s0; split; [exists [s0; e0; x0; y0; s1; e1; x1; y1]; split; [exact Hd|reflexivity]|].
    intros R c t x b sh p Hr; destruct (G0 b) as (A & _ & B); split; [exact A|].
    rewrite (compile_set_inst R c p t x false b Hr); apply B.
Qed.

Theorem src_ok_enter : forall digits, src_ok digits = true ->
  forall l : bool, exists pr : sprog,
    (exists ps, dec_sprogs 8 digits = Some ps /\ nth_error ps (if l then 5 else 1) = Some pr) /\
    forall (R : rules) (c : cfg) (t : tid) (x : sel) (b sh : inst) (p : priv),
      resolve R c x = Some b ->
      prog_ok (inst_prog b pr) = true /\
      blk_same c sh p (map fst (inst_prog b pr)) (map fst (compile R c p (Enter t x l))).
Proof.
  intros digits H l; apply src_ok_sound in H; destruct H as (ps & Hd & Hg).
  destruct ps as [|s0 [|e0 [|x0 [|y0 [|s1 [|e1 [|x1 [|y1 [|]]]]]]]]]; simpl in Hg; try tauto.
  destruct Hg as (G0 & G1 & G2 & G3 & G4 & G5 & G6 & G7 & _).
  destruct l.
  - exists e1; split; [exists [s0; e0; x0; y0; s1; e1; x1; y1]; split; [exact Hd|reflexivity]|].
    intros R c t x b sh p Hr; destruct (G5 b) as (A & _ & B); split; [exact A|].
    rewrite (compile_enter_inst R c p t x true b Hr); apply B.
  - exists e0; split; [exists [s0; e0; x0; y0; s1; e1; x1; y1]; split; [exact Hd|reflexivity]|].
    intros R c t x b sh p Hr; destruct (G1 b) as (A & _ & B); split; [exact A|].
    rewrite (compile_enter_inst R c p t x false b Hr); apply B.
Qed.

Theorem src_ok_exit : forall digits, src_ok digits = true ->
  forall l e : bool, exists pr : sprog,
    (exists ps, dec_sprogs 8 digits = Some ps /\
                nth_error ps ((if l then 6 else 2) + (if e then 1 else 0)) = Some pr) /\
    forall (R : rules) (c : cfg) (t : tid) (sh old : inst) (p : priv) (cx : list (inst * bool)),
      keep_flag R = true -> p_ctx p = (old, l) :: cx -> isinst R old = true ->
      prog_ok (inst_prog old pr) = true /\
      blk_same c sh p (map fst (inst_prog old pr)) (map fst (compile R c p (Exit_ t e))).
Proof.
  intros digits H l e; apply src_ok_sound in H; destruct H as (ps & Hd & Hg).
  destruct ps as [|s0 [|e0 [|x0 [|y0 [|s1 [|e1 [|x1 [|y1 [|]]]]]]]]]; simpl in Hg; try tauto.
  destruct Hg as (G0 & G1 & G2 & G3 & G4 & G5 & G6 & G7 & _).
  destruct l, e.
  - exists y1; split; [exists [s0; e0; x0; y0; s1; e1; x1; y1]; split; [exact Hd|reflexivity]|].
    intros R c t sh old p cx Hk Hp Hi; destruct (G7 old) as (A & _ & B); split; [exact A|].
    rewrite (compile_exit_inst R c p t true old true cx old Hk Hp Hi); apply B.
  - exists x1; split; [exists [s0; e0; x0; y0; s1; e1; x1; y1]; split; [exact Hd|reflexivity]|].
    intros R c t sh old p cx Hk Hp Hi; destruct (G6 old) as (A & _ & B); split; [exact A|].
    rewrite (compile_exit_inst R c p t false old true cx old Hk Hp Hi); apply B.
  - exists y0; split; [exists [s0; e0; x0; y0; s1; e1; x1; y1]; split; [exact Hd|reflexivity]|].
    intros R c t sh old p cx Hk Hp Hi; destruct (G3 old) as (A & _ & B); split; [exact A|].
    rewrite (compile_exit_inst R c p t true old false cx old Hk Hp Hi); apply B.
  - exists x0; split; [exists [s0; e0; x0; y0; s1; e1; x1; y1]; split; [exact Hd|reflexivity]|].
    intros R c t sh old p cx Hk Hp Hi; destruct (G2 old) as (A & _ & B); split; [exact A|].
    rewrite (compile_exit_inst R c p t false old false cx old Hk Hp Hi); apply B.
Qed.

(* non-vacuity: the digits of the repaired tree pass; so do the same programs with the shared default written BEFORE
   the thread-local slot; a read-back of the shared default, an exit that drops the flag, an except clause that swallows
   the body's exception do not *)
Definition src_good : list nat :=
  [4; 1; 3; 20; 10] ++ [6; 16; 1; 3; 20; 6; 10] ++ [5; 8; 2; 3; 21; 10] ++ [5; 8; 2; 3; 21; 11]
  ++ [2; 17; 10] ++ [4; 16; 17; 7; 10] ++ [3; 8; 18; 10] ++ [3; 8; 18; 11].

Example src_ok_examples :
  let reordered := [4; 3; 20; 1; 10] ++ [6; 16; 3; 20; 1; 6; 10] ++ [5; 8; 3; 21; 2; 10] ++ [5; 8; 3; 21; 2; 11]
              ++ [2; 17; 10] ++ [4; 16; 17; 7; 10] ++ [3; 8; 18; 10] ++ [3; 8; 18; 11] in
  let readback := [5; 3; 20; 25; 2; 10] ++ skipn 5 src_good in
  let dropflag := firstn 32 src_good ++ [5; 8; 2; 3; 21; 10] ++ [5; 8; 2; 3; 21; 11] in
  let swallow := firstn 18 src_good ++ [5; 8; 2; 3; 21; 10] ++ skipn 24 src_good in
  (* exit restores the ARGUMENT-independent register but enter saved nothing: the saved value is not the current one *)
  let nosave := [4; 1; 3; 20; 10] ++ [5; 1; 3; 20; 6; 10] ++ skipn 12 src_good in
  src_ok src_good = true /\ src_ok reordered = true /\ src_ok readback = false /\ src_ok dropflag = false /\
  src_ok swallow = false /\ src_ok nosave = false.
Proof. vm_compute. repeat split. Qed.
