(* The two managers (tensorly.backend, tensorly.tenalg) side by side: operations on one of them
   never touch the other, every mixed history factors into the two single-manager histories. *)
From Coq Require Import List Arith Bool Lia.
From TLV Require Import Model.Backend Proofs.BackendProofs.
Import ListNotations.

(* ---------------- proofs *)
Section Two.
Variables (R : rules) (cb ct : cfg).

Lemma on_put_same m s x : on m (put m s x) = x.
Proof. destruct m; reflexivity. Qed.
Lemma on_put_other m m' s x : m' <> m -> on m' (put m s x) = on m' s.
Proof. destruct m, m'; try reflexivity; congruence. Qed.

Lemma nxt2_on_same s m o : on m (nxt2 R cb ct s (m, o)) = nxt R (cfg2 cb ct m) (on m s) o.
Proof. unfold nxt2, step2. simpl. apply on_put_same. Qed.
Lemma nxt2_on_other s m o m' : m' <> m -> on m' (nxt2 R cb ct s (m, o)) = on m' s.
Proof. intros H. unfold nxt2, step2. simpl. now apply on_put_other. Qed.

(* an operation on one manager leaves the whole state of the other manager untouched *)
Theorem other_manager_untouched s m o m' : m' <> m -> on m' (nxt2 R cb ct s (m, o)) = on m' s.
Proof. apply nxt2_on_other. Qed.

(* every mixed history factors into the two single-manager histories *)
Theorem run2_proj m : forall h s, on m (run2 R cb ct s h) = run R (cfg2 cb ct m) (on m s) (proj m h).
Proof.
  induction h as [|[m' o] h IH]; intros s; [reflexivity|].
  change (run2 R cb ct s ((m', o) :: h)) with (run2 R cb ct (nxt2 R cb ct s (m', o)) h).
  rewrite IH. unfold proj. simpl. destruct (Bool.eqb_spec m' m) as [->|Hn].
  - simpl. now rewrite nxt2_on_same.
  - rewrite nxt2_on_other by congruence. reflexivity.
Qed.

Theorem trace2_proj m : forall h s,
  proj m (trace2 R cb ct s h) = trace R (cfg2 cb ct m) (on m s) (proj m h).
Proof.
  induction h as [|[m' o] h IH]; intros s; [reflexivity|].
  unfold proj in *. simpl. destruct (Bool.eqb_spec m' m) as [->|Hn]; simpl.
  - rewrite IH. rewrite nxt2_on_same. reflexivity.
  - rewrite IH. rewrite nxt2_on_other by congruence. reflexivity.
Qed.

Theorem mixed_history_factors m h s :
  on m (run2 R cb ct s h) = run R (cfg2 cb ct m) (on m s) (proj m h) /\
  proj m (trace2 R cb ct s h) = trace R (cfg2 cb ct m) (on m s) (proj m h).
Proof. split; [apply run2_proj | apply trace2_proj]. Qed.

(* hence: what a thread observes through one manager depends on the operations on THAT manager only *)
Corollary managers_independent m h s t :
  cur (on m (run2 R cb ct s h)) t
  = view (tls (on m s) t) (shared (on m s)) (events R (cfg2 cb ct m) (on m s) (proj m h)) t.
Proof. rewrite run2_proj. apply view_correct. Qed.

End Two.

(* P1 supplement: leaving a NON-local context publishes the restored backend to every thread that
   holds no selection of its own (the dual of isolation) *)
Lemma global_exit_published (R : rules) (c : cfg) s t e old k u :
  wf R s -> ctx s t = (old, false) :: k -> tls s u = None -> u <> t ->
  cur (nxt R c s (Exit_ t e)) u = old /\ shared (nxt R c s (Exit_ t e)) = old.
Proof.
  intros (W1 & W2 & W3) E Hu Hn.
  assert (H : isinst R old = true) by (apply (W3 t old false); rewrite E; now left).
  unfold cur, current_backend. rewrite nxt_tls, nxt_shared. simpl. rewrite E, H.
  destruct (Nat.eqb_spec u t); [congruence|]. rewrite Hu.
  destruct (keep_flag R); auto.
Qed.
