From Coq Require Import List Arith Lia Bool Permutation.
From TLV Require Import Base.Shape Base.PyList Base.Tensor Model.Base.
Import ListNotations.

(* ---------- index-level facts ---------- *)
Lemma inb_remove m : forall s idx, inb s idx -> inb (remove_nth m s) (remove_nth m idx).
Proof. induction m; intros [|a s] [|i idx]; simpl; try tauto. intros [H1 H2]. split; auto. Qed.

Lemma inb_nth m : forall s idx, inb s idx -> m < length s -> nth m idx 0 < nth m s 0.
Proof.
  induction m; intros s idx H Hm; destruct s as [|a s]; destruct idx as [|i idx]; simpl in *; try tauto; try lia.
  apply IHm; [tauto | lia].
Qed.

Lemma inb_insert k : forall s idx dm i, inb s idx -> i < dm -> inb (insert_at k dm s) (insert_at k i idx).
Proof.
  induction k; intros [|a s] [|j idx] dm i H Hi; simpl in *; try tauto.
  destruct H; split; auto.
Qed.

Lemma inb_move s idx a b : inb s idx -> a < length s ->
  inb (insert_at b (nth a s 0) (remove_nth a s)) (insert_at b (nth a idx 0) (remove_nth a idx)).
Proof. intros H Ha. apply inb_insert; [apply inb_remove; exact H | apply inb_nth; assumption]. Qed.

Lemma prod_remove m : forall s, m < length s -> nth m s 0 * prod (remove_nth m s) = prod s.
Proof. induction m; intros [|a s] H; simpl in *; try lia. rewrite <- (IHm s) by lia. lia. Qed.

Lemma prod_insert k : forall s x, prod (insert_at k x s) = x * prod s.
Proof. induction k; intros [|a s] x; simpl; try lia. rewrite IHk. lia. Qed.

Lemma prod_move s a b : a < length s -> prod (insert_at b (nth a s 0) (remove_nth a s)) = prod s.
Proof. intros H. rewrite prod_insert. apply prod_remove; exact H. Qed.

Lemma NoDup_map_in {X Y} (f : X -> Y) (l : list X) :
  (forall x y, In x l -> In y l -> f x = f y -> x = y) -> NoDup l -> NoDup (map f l).
Proof.
  intros Hinj Hnd. induction Hnd as [|x l Hx Hnd IH]; simpl; constructor.
  - intros Hin. apply in_map_iff in Hin. destruct Hin as [y [E Hy]].
    apply Hinj in E; [subst; contradiction | right; exact Hy | left; reflexivity].
  - apply IH. intros a b Ha Hb. apply Hinj; right; assumption.
Qed.

Section P.
Context {A : Type} (d : A).
Notation tensor := (tensor A).

Lemma shape_moveaxis (t : tensor) a b : shape (moveaxis d t a b) = insert_at b (nth a (shape t) 0) (remove_nth a (shape t)).
Proof. reflexivity. Qed.

Lemma get_moveaxis (t : tensor) a b idx : a < ndim t -> b < ndim t -> inb (shape t) idx ->
  get d (moveaxis d t a b) (insert_at b (nth a idx 0) (remove_nth a idx)) = get d t idx.
Proof.
  intros Ha Hb Hi. unfold moveaxis. rewrite get_tabulate by (apply inb_move; assumption).
  assert (Hl : length idx = length (shape t)) by (apply inb_length; exact Hi).
  rewrite nth_insert_same by (rewrite remove_nth_length; unfold ndim in *; lia).
  rewrite remove_insert by (rewrite remove_nth_length; unfold ndim in *; lia).
  rewrite insert_remove by (unfold ndim in *; lia). reflexivity.
Qed.

(* moving an axis there and back is the identity, bit for bit *)
Theorem moveaxis_roundtrip (t : tensor) a b : wf t -> a < ndim t -> b < ndim t ->
  moveaxis d (moveaxis d t a b) b a = t.
Proof.
  intros W Ha Hb. unfold ndim in *.
  assert (Hs : shape (moveaxis d (moveaxis d t a b) b a) = shape t).
  { rewrite !shape_moveaxis.
    rewrite nth_insert_same by (rewrite remove_nth_length; lia).
    rewrite remove_insert by (rewrite remove_nth_length; lia).
    apply insert_remove; exact Ha. }
  apply tensor_ext with (d := d); [apply wf_moveaxis | exact W | exact Hs |].
  intros idx Hi. rewrite Hs in Hi.
  assert (Hl : length idx = length (shape t)) by (apply inb_length; exact Hi).
  set (t1 := moveaxis d t a b).
  assert (E : idx = insert_at a (nth b (insert_at b (nth a idx 0) (remove_nth a idx)) 0)
                              (remove_nth b (insert_at b (nth a idx 0) (remove_nth a idx)))).
  { rewrite nth_insert_same by (rewrite remove_nth_length; lia).
    rewrite remove_insert by (rewrite remove_nth_length; lia).
    symmetry. apply insert_remove. lia. }
  rewrite E at 1.
  rewrite (get_moveaxis t1 b a).
  - unfold t1. apply get_moveaxis; unfold ndim; assumption.
  - unfold ndim, t1. rewrite shape_moveaxis, insert_at_length, remove_nth_length; lia.
  - unfold ndim, t1. rewrite shape_moveaxis, insert_at_length, remove_nth_length; lia.
  - unfold t1. rewrite shape_moveaxis. apply inb_move; assumption.
Qed.

(* moveaxis only permutes the entries *)
Lemma map_nth_perm (l : list A) (pi : list nat) :
  Permutation pi (seq 0 (length l)) -> Permutation (map (fun k => nth k l d) pi) l.
Proof.
  intros H. apply (Permutation_map (fun k => nth k l d)) in H.
  eapply Permutation_trans; [exact H|].
  replace (map (fun k => nth k l d) (seq 0 (length l))) with l; [apply Permutation_refl|].
  apply nth_ext with (d := d) (d' := d); [now rewrite map_length, seq_length|].
  intros k Hk. rewrite (nth_map' _ _ _ 0) by (now rewrite seq_length). now rewrite seq_nth.
Qed.

Lemma tabulate_reindex_perm (t : tensor) s (sigma : list nat -> list nat) :
  wf t -> prod s = prod (shape t) ->
  (forall idx, inb s idx -> inb (shape t) (sigma idx)) ->
  (forall i j, inb s i -> inb s j -> sigma i = sigma j -> i = j) ->
  Permutation (data (tabulate s (fun idx => get d t (sigma idx)))) (data t).
Proof.
  intros W Hp Hin Hinj. simpl. unfold get.
  rewrite <- (map_map (fun k => ravel (shape t) (sigma (unravel s k))) (fun k => nth k (data t) d)).
  apply map_nth_perm. rewrite W, <- Hp.
  apply NoDup_Permutation_bis.
  - apply NoDup_map_in; [|apply seq_NoDup].
    intros x y Hx Hy E. apply in_seq in Hx, Hy.
    assert (Ix : inb s (unravel s x)) by (apply unravel_inb; lia).
    assert (Iy : inb s (unravel s y)) by (apply unravel_inb; lia).
    assert (E2 : sigma (unravel s x) = sigma (unravel s y)).
    { rewrite <- (unravel_ravel (shape t) (sigma (unravel s x))) by (apply Hin; exact Ix).
      rewrite <- (unravel_ravel (shape t) (sigma (unravel s y))) by (apply Hin; exact Iy).
      now rewrite E. }
    apply Hinj in E2; auto.
    rewrite <- (ravel_unravel s x) by lia. rewrite <- (ravel_unravel s y) by lia. now rewrite E2.
  - rewrite map_length, !seq_length. lia.
  - intros k Hk. apply in_map_iff in Hk. destruct Hk as [x [<- Hx]]. apply in_seq in Hx.
    apply in_seq. split; [lia|]. simpl. rewrite Hp.
    apply ravel_lt. apply Hin. apply unravel_inb. lia.
Qed.

Lemma inb_insert_inv k : forall s idx dm i, length idx = length s -> k <= length s ->
  inb (insert_at k dm s) (insert_at k i idx) -> inb s idx /\ i < dm.
Proof.
  induction k; intros [|a s] [|j idx] dm i Hl Hk H; simpl in *; try discriminate; try lia; try tauto.
  destruct H as [H1 H2]. injection Hl as Hl. destruct (IHk s idx dm i Hl ltac:(lia) H2). tauto.
Qed.

Lemma inb_move_back s idx' a b : a < length s -> b < length s ->
  inb (insert_at b (nth a s 0) (remove_nth a s)) idx' ->
  inb s (insert_at a (nth b idx' 0) (remove_nth b idx')).
Proof.
  intros Ha Hb H.
  assert (Hl : length idx' = length s).
  { rewrite (inb_length _ _ H), insert_at_length, remove_nth_length; lia. }
  rewrite <- (insert_remove b idx' 0) in H by lia.
  apply inb_insert_inv in H;
    [| rewrite !remove_nth_length; lia | rewrite remove_nth_length; lia].
  destruct H as [H1 H2].
  rewrite <- (insert_remove a s 0) at 1 by exact Ha.
  apply inb_insert; assumption.
Qed.

Theorem moveaxis_Permutation (t : tensor) a b : wf t -> a < ndim t -> b < ndim t ->
  Permutation (data (moveaxis d t a b)) (data t).
Proof.
  intros W Ha Hb. unfold ndim in *. unfold moveaxis.
  apply tabulate_reindex_perm; auto.
  - apply prod_move; exact Ha.
  - intros idx H. apply inb_move_back; assumption.
  - intros i j Hi Hj E.
    assert (Li : length i = length (shape t)) by (rewrite (inb_length _ _ Hi), insert_at_length, remove_nth_length; lia).
    assert (Lj : length j = length (shape t)) by (rewrite (inb_length _ _ Hj), insert_at_length, remove_nth_length; lia).
    rewrite <- (insert_remove b i 0) by lia. rewrite <- (insert_remove b j 0) by lia.
    assert (E1 := f_equal (fun l => nth a l 0) E). simpl in E1.
    rewrite !nth_insert_same in E1 by (rewrite remove_nth_length; lia).
    assert (E2 := f_equal (remove_nth a) E).
    rewrite !remove_insert in E2 by (rewrite remove_nth_length; lia).
    now rewrite E1, E2.
Qed.

(* ---------- reshape_spec facts ---------- *)
Lemma count_none_some (l : list nat) : count_none (map Some l) = 0.
Proof. unfold count_none. induction l; simpl; auto. Qed.
Lemma known_some (l : list nat) : known (map Some l) = prod l.
Proof. induction l as [|x l IH]; simpl; [reflexivity | rewrite IH; reflexivity]. Qed.
Lemma known_one_none (pre post : list nat) : known (map Some pre ++ [None] ++ map Some post) = prod pre * prod post.
Proof.
  induction pre as [|x pre IH]; simpl.
  - rewrite known_some. lia.
  - simpl in IH. rewrite IH. lia.
Qed.
Lemma reshape_spec_all_some (t : tensor) s : prod s = prod (shape t) ->
  reshape_spec (map Some s) t = Ok (reshape s t).
Proof.
  intros H. unfold reshape_spec, infer_shape.
  pose proof (count_none_some s) as C. pose proof (known_some s) as K.
  assert (F : forall v, fill (map Some s) v = s) by (intros v; unfold fill; rewrite map_map; apply map_id).
  rewrite C, K, H, Nat.eqb_refl, F. reflexivity.
Qed.

Lemma reshape_spec_one_none (t : tensor) pre post : 
  let k := prod pre * prod post in
  k <> 0 -> prod (shape t) mod k = 0 ->
  reshape_spec (map Some pre ++ [None] ++ map Some post) t = Ok (reshape (pre ++ [prod (shape t) / k] ++ post) t).
Proof.
  intros k Hk Hm. unfold reshape_spec, infer_shape.
  assert (C : count_none (map Some pre ++ [None] ++ map Some post) = 1).
  { unfold count_none. rewrite !filter_app, !app_length.
    assert (Z : forall l : list nat, length (filter (fun o : option nat => match o with None => true | _ => false end) (map Some l)) = 0)
      by (induction l; simpl; auto).
    rewrite !Z. reflexivity. }
  assert (K : known (map Some pre ++ [None] ++ map Some post) = k) by apply known_one_none.
  assert (F : forall v, fill (map Some pre ++ [None] ++ map Some post) v = pre ++ [v] ++ post).
  { intros v. unfold fill. rewrite !map_app, !map_map, !map_id. reflexivity. }
  rewrite C, K. destruct (Nat.eqb_spec k 0); [contradiction|].
  rewrite Hm. simpl Nat.eqb. cbv iota. rewrite F. reflexivity.
Qed.

(* ---------- unfold / fold ---------- *)
Lemma unfold_eq (t : tensor) m : wf t -> m < ndim t -> 0 < prod (shape t) ->
  unfold d t m = Ok (reshape [nth m (shape t) 0; prod (remove_nth m (shape t))] (moveaxis d t m 0)).
Proof.
  intros W Hm Hpos. unfold unfold. apply Nat.ltb_lt in Hm as Hm'. rewrite Hm'. unfold ndim in Hm.
  pose proof (prod_remove m (shape t) Hm) as Hp.
  set (t1 := moveaxis d t m 0).
  assert (Hps : prod (shape t1) = prod (shape t)) by (unfold t1; rewrite shape_moveaxis; apply prod_move; exact Hm).
  assert (Hn : nth m (shape t) 0 <> 0) by nia.
  change [Some (nth m (shape t) 0); None] with (map Some [nth m (shape t) 0] ++ [None] ++ map Some []).
  assert (Hk : prod [nth m (shape t) 0] * prod [] = nth m (shape t) 0) by (cbn [prod fold_right]; lia).
  rewrite reshape_spec_one_none.
  - rewrite Hk, Hps. cbn [app]. rewrite <- Hp. rewrite Nat.mul_comm. rewrite Nat.div_mul by auto. reflexivity.
  - rewrite Hk. exact Hn.
  - rewrite Hk, Hps. rewrite <- Hp. rewrite Nat.mul_comm. apply Nat.mod_mul; auto.
Qed.

Lemma insert_at_0 {B} (x : B) l : insert_at 0 x l = x :: l.
Proof. destruct l; reflexivity. Qed.
Lemma reshape_reshape (t : tensor) s s' : reshape s (reshape s' t) = reshape s t.
Proof. reflexivity. Qed.
Lemma reshape_own (t : tensor) : reshape (shape t) t = t.
Proof. destruct t; reflexivity. Qed.

Theorem fold_unfold (t : tensor) m : wf t -> m < ndim t -> 0 < prod (shape t) ->
  rbind (unfold d t m) (fun u => fold d u m (shape t)) = Ok t.
Proof.
  intros W Hm Hpos. rewrite unfold_eq by assumption. cbn [rbind]. unfold fold.
  apply Nat.ltb_lt in Hm as Hm'. unfold ndim in *. rewrite Hm'.
  pose proof (prod_remove m (shape t) Hm) as Hp.
  rewrite reshape_spec_all_some by (unfold reshape; cbn [shape]; change (prod (nth m (shape t) 0 :: remove_nth m (shape t))) with (nth m (shape t) 0 * prod (remove_nth m (shape t))); change (prod [nth m (shape t) 0; prod (remove_nth m (shape t))]) with (nth m (shape t) 0 * (prod (remove_nth m (shape t)) * 1)); lia).
  cbn [rbind]. f_equal. rewrite reshape_reshape.
  assert (Hs : nth m (shape t) 0 :: remove_nth m (shape t) = shape (moveaxis d t m 0))
    by (rewrite shape_moveaxis, insert_at_0; reflexivity).
  rewrite Hs, reshape_own.
  apply moveaxis_roundtrip; unfold ndim; auto; lia.
Qed.

(* documented layout: row = index along mode m, column = row-major index over the remaining
   modes in increasing order *)
Theorem unfold_layout (t : tensor) m u idx : wf t -> m < ndim t -> 0 < prod (shape t) ->
  unfold d t m = Ok u -> inb (shape t) idx ->
  shape u = [nth m (shape t) 0; prod (remove_nth m (shape t))] /\
  get d u [nth m idx 0; ravel (remove_nth m (shape t)) (remove_nth m idx)] = get d t idx.
Proof.
  intros W Hm Hpos Hu Hi. rewrite unfold_eq in Hu by assumption. injection Hu as <-.
  split; [reflexivity|].
  rewrite <- (get_moveaxis t m 0 idx) by (auto; unfold ndim in *; lia).
  unfold get, reshape. cbn [shape data]. f_equal.
  rewrite shape_moveaxis.
  rewrite !insert_at_0. cbn [ravel prod fold_right]. lia.
Qed.

Theorem unfold_Permutation (t : tensor) m u : wf t -> m < ndim t -> 0 < prod (shape t) ->
  unfold d t m = Ok u -> Permutation (data u) (data t).
Proof.
  intros W Hm Hpos Hu. rewrite unfold_eq in Hu by assumption. injection Hu as <-.
  cbn [reshape data]. apply moveaxis_Permutation; auto. unfold ndim in *; lia.
Qed.

(* ---------- vec ---------- *)
Lemma tensor_to_vec_eq (t : tensor) : tensor_to_vec t = Ok (reshape [prod (shape t)] t).
Proof.
  unfold tensor_to_vec. change [None] with (map Some (@nil nat) ++ [None] ++ map Some (@nil nat)).
  rewrite reshape_spec_one_none.
  - change (prod [] * prod []) with 1. rewrite Nat.div_1_r. reflexivity.
  - change (prod [] * prod []) with 1. lia.
  - change (prod [] * prod []) with 1. apply Nat.mod_1_r.
Qed.

Theorem vec_roundtrip (t : tensor) : wf t ->
  rbind (tensor_to_vec t) (fun v => vec_to_tensor v (shape t)) = Ok t.
Proof.
  intros W. rewrite tensor_to_vec_eq. cbn [rbind]. unfold vec_to_tensor.
  rewrite reshape_spec_all_some.
  - rewrite reshape_reshape, reshape_own. reflexivity.
  - unfold reshape. cbn [shape prod fold_right]. lia.
Qed.

Theorem vec_layout (t : tensor) v idx : wf t -> tensor_to_vec t = Ok v -> inb (shape t) idx ->
  shape v = [prod (shape t)] /\ get d v [ravel (shape t) idx] = get d t idx /\ data v = data t.
Proof.
  intros W Hv Hi. rewrite tensor_to_vec_eq in Hv. injection Hv as <-. repeat split.
  unfold get, reshape. cbn [shape data ravel prod fold_right]. f_equal. lia.
Qed.

End P.
