(* C01, tenth part: on the NumPy backend the statement-by-statement model of partial_unfold / partial_fold /
   partial_tensor_to_vec / partial_vec_to_tensor (Model/BasePy.v) is the hand model of Model/BaseExt.v. *)
From Coq Require Import List Arith Lia Bool Permutation ZArith.
From TLV Require Import Base.Shape Base.PyList Base.Tensor Model.Base Model.BaseExt Model.BasePy
  Proofs.BaseProofs Proofs.BaseProofs2 Proofs.BaseProofs3 Proofs.BaseProofs4 Proofs.BaseProofs9.
Import ListNotations.

Lemma skipn_cons_nth {X} (dflt : X) : forall a (l : list X), a < length l -> skipn a l = nth a l dflt :: skipn (S a) l.
Proof. induction a; intros [|x l] H; cbn in *; try lia; [reflexivity|]. apply IHa. lia. Qed.

Lemma py_getitem_neg_nat (s : list nat) j : 0 < j <= length s ->
  py_getitem (map Z.of_nat s) (- Z.of_nat j) = Ok (Z.of_nat (nth (length s - j) s 0)).
Proof. intros H. apply py_getitem_nat. now apply norm_axis_neg. Qed.

Lemma py_getitem_nat_none (s : list nat) m : norm_axis (length s) m = None -> py_getitem (map Z.of_nat s) m = Err.
Proof. intros H. apply py_getitem_none. now rewrite map_length. Qed.

(* [shape[i] for i in range(a, a + c)] *)
Lemma rmapM_getitem_prefix (s : list nat) : forall c a, a + c <= length s ->
  rmapM (fun i => py_getitem (map Z.of_nat s) i) (map Z.of_nat (seq a c)) = Ok (map Z.of_nat (firstn c (skipn a s))).
Proof.
  induction c; intros a H; cbn [seq map rmapM firstn]; [reflexivity|].
  rewrite (py_getitem_nat s (Z.of_nat a) a) by (apply norm_axis_nonneg; lia). cbn [rbind].
  rewrite IHc by lia. cbn [rbind]. rewrite (skipn_cons_nth 0 a s) by lia. reflexivity.
Qed.

Lemma rmapM_getitem_prefix_err (s : list nat) : forall c a, a <= length s -> length s < a + c ->
  rmapM (fun i => py_getitem (map Z.of_nat s) i) (map Z.of_nat (seq a c)) = Err.
Proof.
  induction c; intros a H1 H2; [lia|]. cbn [seq map rmapM].
  destruct (Nat.eq_dec a (length s)) as [->|Hne].
  - rewrite py_getitem_none; [reflexivity|]. rewrite map_length. apply norm_axis_out. lia.
  - rewrite (py_getitem_nat s (Z.of_nat a) a) by (apply norm_axis_nonneg; lia). cbn [rbind].
    rewrite IHc by lia. reflexivity.
Qed.

Lemma py_range1_nat n : py_range1 (Z.of_nat n) = map Z.of_nat (seq 0 n).
Proof. unfold py_range1. now rewrite Nat2Z.id. Qed.

Lemma py_range3_down se : py_range3 (Z.of_nat se) 0 (-1) = map (fun k => Z.of_nat (se - k)) (seq 0 se).
Proof.
  unfold py_range3. change (0 <? -1)%Z with false. change (-1 <? 0)%Z with true. cbv iota.
  replace (Z.of_nat se - 0 - -1 - 1)%Z with (Z.of_nat se) by lia. change (- -1)%Z with 1%Z.
  rewrite Z.div_1_r. rewrite Z.max_r by lia. rewrite Nat2Z.id.
  apply map_ext_in. intros k Hk. apply in_seq in Hk. lia.
Qed.

(* [shape[-i] for i in se - a, se - a - 1, ...] (c of them) *)
Lemma rmapM_getitem_suffix (s : list nat) se : se <= length s -> forall c a, a + c = se ->
  rmapM (fun i => py_getitem (map Z.of_nat s) (- i)) (map (fun k => Z.of_nat (se - k)) (seq a c))
  = Ok (map Z.of_nat (firstn c (skipn (length s - se + a) s))).
Proof.
  intros Hse. induction c; intros a H; cbn [seq map rmapM firstn]; [reflexivity|].
  rewrite (py_getitem_neg_nat s (se - a)) by lia. cbn [rbind].
  rewrite IHc by lia. cbn [rbind].
  rewrite (skipn_cons_nth 0 (length s - se + a) s) by lia.
  replace (length s - (se - a)) with (length s - se + a) by lia.
  replace (length s - se + S a) with (S (length s - se + a)) by lia. reflexivity.
Qed.

Lemma suffix_ok (s : list nat) se : se <= length s ->
  rmapM (fun i => py_getitem (map Z.of_nat s) (- i)) (py_range3 (Z.of_nat se) 0 (-1)) = Ok (map Z.of_nat (lastn se s)).
Proof.
  intros H. rewrite py_range3_down. rewrite (rmapM_getitem_suffix s se H se 0) by lia.
  rewrite Nat.add_0_r. unfold lastn. rewrite firstn_all2; [reflexivity|]. rewrite skipn_length. lia.
Qed.

Lemma suffix_err (s : list nat) se : length s < se ->
  rmapM (fun i => py_getitem (map Z.of_nat s) (- i)) (py_range3 (Z.of_nat se) 0 (-1)) = Err.
Proof.
  intros H. rewrite py_range3_down. destruct se as [|se]; [lia|]. cbn [seq map rmapM].
  rewrite py_getitem_none; [reflexivity|]. rewrite map_length. apply norm_axis_out. lia.
Qed.

Lemma spec_of_z_app a b : spec_of_z (a ++ b) = spec_of_z a ++ spec_of_z b.
Proof. unfold spec_of_z. apply map_app. Qed.

Lemma zeqb_of_nat_0 n : Z.eqb (Z.of_nat n) 0 = Nat.eqb n 0.
Proof. destruct n; reflexivity. Qed.

Section P.
Context {A : Type} (d : A).
Notation tensor := (tensor A).

Theorem g_partial_unfold_eq (t : tensor) m sb se rav :
  g_partial_unfold (plain d) t m (Z.of_nat sb) (Z.of_nat se) rav = partial_unfold_z d t m sb se rav.
Proof.
  unfold g_partial_unfold, partial_unfold_z, py_shape. cbn [b_shape b_moveaxis b_reshape plain].
  unfold moveaxis_z. rewrite !zeqb_of_nat_0.
  destruct (norm_axis (ndim t) (m + Z.of_nat sb)) as [k|] eqn:E.
  2:{ unfold ndim in E. rewrite (py_getitem_nat_none _ _ E). cbn [rbind].
      repeat match goal with |- context [rbind ?r _] => destruct r; cbn [rbind] end; reflexivity. }
  pose proof (norm_axis_some _ _ _ E) as [Hk _]. unfold ndim in *.
  rewrite (py_getitem_nat _ _ _ E). cbn [rbind].
  set (midz := if rav then [(-1)%Z] else [Z.of_nat (nth k (shape t) 0); (-1)%Z]).
  assert (X1 : (if rav then Ok [(-1)%Z] else Ok [Z.of_nat (nth k (shape t) 0); (-1)%Z]) = @Ok (list Z) midz)
    by (unfold midz; destruct rav; reflexivity).
  rewrite X1. cbn [rbind]. unfold partial_unfold_at.
  apply Nat.ltb_lt in Hk. rewrite Hk. cbn [andb]. apply Nat.ltb_lt in Hk.
  (* the leading block *)
  destruct (le_lt_dec sb (length (shape t))) as [Hsb|Hsb].
  2:{ assert (F : (sb <? length (shape t)) = false) by (apply Nat.ltb_ge; lia). rewrite F. cbn [andb].
      destruct sb as [|sb']; [lia|]. cbn [Nat.eqb negb].
      rewrite py_range1_nat, rmapM_getitem_prefix_err by lia. reflexivity. }
  assert (X2 : (if negb (Nat.eqb sb 0)
                then rbind (rmapM (fun i => py_getitem (map Z.of_nat (shape t)) i) (py_range1 (Z.of_nat sb)))
                           (fun x3 => Ok (x3 ++ midz))
                else Ok midz) = Ok (map Z.of_nat (firstn sb (shape t)) ++ midz)).
  { destruct sb as [|sb']; [reflexivity|]. cbn [Nat.eqb negb].
    rewrite py_range1_nat, rmapM_getitem_prefix by lia. reflexivity. }
  rewrite X2. cbn [rbind].
  (* the trailing block *)
  destruct (le_lt_dec se (length (shape t))) as [Hse|Hse].
  2:{ assert (F : (se <=? length (shape t)) = false) by (apply Nat.leb_gt; lia). rewrite F, andb_false_r.
      destruct se as [|se']; [lia|]. cbn [Nat.eqb negb]. rewrite suffix_err by lia. reflexivity. }
  set (pre := map Z.of_nat (firstn sb (shape t)) ++ midz).
  assert (X3 : (if negb (Nat.eqb se 0)
                then rbind (rmapM (fun i => py_getitem (map Z.of_nat (shape t)) (- i)) (py_range3 (Z.of_nat se) 0 (-1)))
                           (fun x5 => Ok (pre ++ x5))
                else Ok pre) = Ok (pre ++ map Z.of_nat (lastn se (shape t)))).
  { destruct se as [|se'].
    - cbn [Nat.eqb negb]. unfold lastn. rewrite Nat.sub_0_r, skipn_all. cbn [map]. now rewrite app_nil_r.
    - cbn [Nat.eqb negb]. rewrite suffix_ok by lia. reflexivity. }
  rewrite X3. cbn [rbind].
  assert (Ele : (se <=? length (shape t)) = true) by (apply Nat.leb_le; lia). rewrite Ele, andb_true_r.
  destruct (Nat.eq_dec sb (length (shape t))) as [->|Hne].
  - rewrite Nat.ltb_irrefl. rewrite (norm_axis_out (length (shape t)) (Z.of_nat (length (shape t)))) by lia. reflexivity.
  - assert (Hlt : sb < length (shape t)) by lia. rewrite (norm_axis_nonneg _ _ Hlt).
    apply Nat.ltb_lt in Hlt. rewrite Hlt. cbn [rbind]. f_equal.
    unfold pre. rewrite !spec_of_z_app, !spec_of_z_nat. rewrite <- app_assoc. f_equal. f_equal.
    unfold midz. destruct rav; [reflexivity|]. rewrite spec_of_z_cons_nat. reflexivity.
Qed.

Theorem g_partial_fold_eq (u : tensor) m s sb (se : Z) (se' : nat) :
  g_partial_fold (plain d) u m (map Z.of_nat s) (Z.of_nat sb) se = partial_fold_z d u m s sb se'.
Proof.
  unfold g_partial_fold, partial_fold_z. cbv zeta.
  destruct (norm_axis (length s) (Z.of_nat sb + m)) as [k|] eqn:E.
  2:{ unfold py_pop. rewrite map_length, E. reflexivity. }
  rewrite (py_pop_nat _ _ _ E). cbn [rbind fst snd].
  pose proof (norm_axis_some _ _ _ E) as [Hk _].
  rewrite py_insert_nat, insert_at_clip. rewrite <- map_insert_at.
  cbn [b_reshape b_moveaxis plain]. rewrite spec_of_z_nat.
  unfold partial_fold_at. pose proof Hk as Hk'. apply Nat.ltb_lt in Hk'. rewrite Hk'. cbn [andb].
  destruct (reshape_spec (map Some (insert_at sb (nth k s 0) (remove_nth k s))) u) as [r|] eqn:Er; cbn [rbind].
  2:{ destruct (sb <? length s); reflexivity. }
  apply reshape_spec_some_shape in Er.
  unfold moveaxis_z, ndim. rewrite Er. rewrite insert_at_length, remove_nth_length by exact Hk.
  replace (S (length s - 1)) with (length s) by lia. rewrite E.
  destruct (Nat.ltb_spec sb (length s)) as [Hsb|Hsb].
  - rewrite (norm_axis_nonneg _ _ Hsb). reflexivity.
  - rewrite norm_axis_out by lia. reflexivity.
Qed.

Theorem g_partial_tensor_to_vec_eq (t : tensor) sb se :
  g_partial_tensor_to_vec (plain d) t (Z.of_nat sb) (Z.of_nat se) = partial_unfold_z d t 0%Z sb se true.
Proof. apply g_partial_unfold_eq. Qed.

Theorem g_partial_vec_to_tensor_eq (u : tensor) s sb (se : Z) (se' : nat) :
  g_partial_vec_to_tensor (plain d) u (map Z.of_nat s) (Z.of_nat sb) se = partial_fold_z d u 0%Z s sb se'.
Proof. apply g_partial_fold_eq. Qed.

End P.
