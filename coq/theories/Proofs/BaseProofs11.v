(* C01, eleventh part: on the NumPy backend the statement-by-statement model of matricize (Model/BasePy.v: sorted(...) !=
   list(range(ndim)), prod(shape[i] for i in ...), np.transpose's own axis check) is the hand model of Model/Base.v. *)
From Coq Require Import List Arith Lia Bool Permutation ZArith.
From TLV Require Import Base.Shape Base.PyList Base.Tensor Model.Base Model.BaseExt Model.BasePy
  Proofs.BaseProofs Proofs.BaseProofs2 Proofs.BaseProofs3 Proofs.BaseProofs4 Proofs.BaseProofs9 Proofs.BaseProofs10.
Import ListNotations.

(* ---------- sorted() ---------- *)
Lemma zinsert_comm a b : forall l, zinsert a (zinsert b l) = zinsert b (zinsert a l).
Proof.
  induction l as [|x r IH]; cbn [zinsert].
  - destruct (Z.leb_spec a b), (Z.leb_spec b a); try reflexivity; try lia. replace a with b by lia. reflexivity.
  - destruct (Z.leb_spec b x), (Z.leb_spec a x); cbn [zinsert].
    + destruct (Z.leb_spec a b), (Z.leb_spec b a); try lia.
      * replace a with b by lia. reflexivity.
      * destruct (Z.leb_spec b x); [reflexivity|lia].
      * destruct (Z.leb_spec a x); [reflexivity|lia].
    + destruct (Z.leb_spec a b); [lia|]. destruct (Z.leb_spec a x); [lia|]. destruct (Z.leb_spec b x); [reflexivity|lia].
    + destruct (Z.leb_spec a x); [|lia]. destruct (Z.leb_spec b a); [lia|]. destruct (Z.leb_spec b x); [lia|reflexivity].
    + destruct (Z.leb_spec a x); [lia|]. destruct (Z.leb_spec b x); [lia|]. now rewrite IH.
Qed.

Lemma zinsert_perm a : forall l, Permutation (zinsert a l) (a :: l).
Proof.
  induction l as [|x r IH]; cbn [zinsert]; [apply Permutation_refl|].
  destruct (a <=? x)%Z; [apply Permutation_refl|].
  eapply perm_trans; [apply perm_skip, IH | apply perm_swap].
Qed.

Lemma py_sorted_perm l : Permutation (py_sorted l) l.
Proof.
  induction l as [|x r IH]; cbn; [constructor|].
  eapply perm_trans; [apply zinsert_perm | now apply perm_skip].
Qed.

Lemma py_sorted_invariant l l' : Permutation l l' -> py_sorted l = py_sorted l'.
Proof.
  unfold py_sorted. induction 1; cbn [fold_right].
  - reflexivity.
  - now rewrite IHPermutation.
  - apply zinsert_comm.
  - congruence.
Qed.

Lemma py_sorted_seq : forall n a, py_sorted (map Z.of_nat (seq a n)) = map Z.of_nat (seq a n).
Proof.
  induction n; intros a; [reflexivity|]. cbn [seq map]. unfold py_sorted. cbn [fold_right].
  fold (py_sorted (map Z.of_nat (seq (S a) n))). rewrite IHn.
  destruct n; [reflexivity|]. cbn [seq map zinsert].
  destruct (Z.leb_spec (Z.of_nat a) (Z.of_nat (S a))); [reflexivity|lia].
Qed.

Lemma zlist_eqb_eq : forall a b, zlist_eqb a b = true <-> a = b.
Proof.
  induction a as [|x a IH]; intros [|y b]; cbn; split; try discriminate; try reflexivity.
  - rewrite andb_true_iff, Z.eqb_eq, IH. intros [-> ->]. reflexivity.
  - intros H. injection H as -> ->. rewrite andb_true_iff, Z.eqb_eq, IH. auto.
Qed.

Lemma map_of_nat_inj : forall l l' : list nat, map Z.of_nat l = map Z.of_nat l' -> l = l'.
Proof.
  induction l; intros [|y l'] H; cbn in H; try discriminate; [reflexivity|].
  injection H as H1 H2. apply Nat2Z.inj in H1. f_equal; auto.
Qed.

Lemma is_permb_Permutation n p : is_permb n p = true -> Permutation p (seq 0 n).
Proof.
  unfold is_permb. rewrite !andb_true_iff, Nat.eqb_eq, forallb_forall, nodupb_NoDup. intros [[HL HB] HN].
  apply NoDup_Permutation_bis; [assumption | rewrite seq_length; lia |].
  intros k Hk. apply in_seq. specialize (HB k Hk). apply Nat.ltb_lt in HB. lia.
Qed.

(* sorted(column_indices + row_indices) == list(range(ndim))  is the permutation test of the hand model *)
Lemma sorted_check n (r c : list nat) :
  zlist_eqb (py_sorted (map Z.of_nat c ++ map Z.of_nat r)) (py_range1 (Z.of_nat n)) = is_permb n (r ++ c).
Proof.
  rewrite py_range1_nat, <- map_app.
  destruct (is_permb n (r ++ c)) eqn:E.
  - apply zlist_eqb_eq. apply is_permb_Permutation in E.
    rewrite (py_sorted_invariant (map Z.of_nat (c ++ r)) (map Z.of_nat (seq 0 n))).
    + apply py_sorted_seq.
    + apply Permutation_map. eapply perm_trans; [apply Permutation_app_comm | exact E].
  - destruct (zlist_eqb (py_sorted (map Z.of_nat (c ++ r))) (map Z.of_nat (seq 0 n))) eqn:F; [|reflexivity].
    apply zlist_eqb_eq in F. exfalso.
    pose proof (py_sorted_perm (map Z.of_nat (c ++ r))) as P. rewrite F in P.
    apply Permutation_sym, Permutation_map_inv in P. destruct P as [l3 [H1 H2]].
    apply map_of_nat_inj in H1. subst l3.
    assert (Q : Permutation (r ++ c) (seq 0 n)) by (eapply perm_trans; [apply Permutation_app_comm | apply Permutation_sym; exact H2]).
    apply is_permb_of_Permutation in Q. congruence.
Qed.

(* ---------- the default columns ---------- *)
Lemma zmemb_nat i rows : zmemb (Z.of_nat i) (map Z.of_nat rows) = memb i rows.
Proof.
  induction rows as [|x r IH]; [reflexivity|]. cbn [map memb]. unfold zmemb in *. cbn [existsb]. rewrite IH. f_equal.
  destruct (Z.eqb_spec (Z.of_nat i) (Z.of_nat x)), (Nat.eqb_spec x i); try reflexivity; lia.
Qed.

Lemma filter_map_comm {X Y} (f : Y -> bool) (g : X -> Y) : forall l, filter f (map g l) = map g (filter (fun x => f (g x)) l).
Proof. induction l as [|x l IH]; cbn; [reflexivity|]. destruct (f (g x)); cbn; now rewrite IH. Qed.

Lemma default_columns n rows :
  filter (fun i => negb (zmemb i (map Z.of_nat rows))) (py_range1 (Z.of_nat n)) = map Z.of_nat (complement n rows).
Proof.
  rewrite py_range1_nat, filter_map_comm. unfold complement. f_equal. apply filter_ext. intros i. now rewrite zmemb_nat.
Qed.

(* ---------- prod(shape[i] for i in modes) ---------- *)
Lemma rmapM_getitem_modes (s : list nat) : forall p, forallb (fun k => k <? length s) p = true ->
  rmapM (fun i => py_getitem (map Z.of_nat s) i) (map Z.of_nat p) = Ok (map Z.of_nat (permute 0 p s)).
Proof.
  induction p as [|k p IH]; cbn [forallb map rmapM permute]; [reflexivity|].
  rewrite andb_true_iff. intros [Hk Hp]. apply Nat.ltb_lt in Hk.
  rewrite (py_getitem_nat s (Z.of_nat k) k) by (now apply norm_axis_nonneg). cbn [rbind].
  rewrite (IH Hp). reflexivity.
Qed.

Lemma rmapM_getitem_modes_err (s : list nat) : forall p, forallb (fun k => k <? length s) p = false ->
  rmapM (fun i => py_getitem (map Z.of_nat s) i) (map Z.of_nat p) = Err.
Proof.
  induction p as [|k p IH]; cbn [forallb map rmapM]; [discriminate|].
  destruct (Nat.ltb_spec k (length s)) as [Hk|Hk]; cbn [andb].
  - intros Hp. rewrite (py_getitem_nat s (Z.of_nat k) k) by (now apply norm_axis_nonneg). cbn [rbind]. now rewrite (IH Hp).
  - intros _. rewrite py_getitem_nat_none; [reflexivity|]. apply norm_axis_out. lia.
Qed.

Lemma zprod_nat l : zprod (map Z.of_nat l) = Z.of_nat (prod l).
Proof. induction l as [|x l IH]; [reflexivity|]. unfold zprod, prod in *. cbn [map fold_right]. rewrite IH. now rewrite Nat2Z.inj_mul. Qed.

Lemma norm_axes_nat n : forall p, forallb (fun k => k <? n) p = true -> norm_axes n (map Z.of_nat p) = Some p.
Proof.
  induction p as [|k p IH]; cbn [forallb map norm_axes]; [reflexivity|].
  rewrite andb_true_iff. intros [Hk Hp]. apply Nat.ltb_lt in Hk.
  rewrite (norm_axis_nonneg _ _ Hk), (IH Hp). reflexivity.
Qed.

Lemma complement_bound n rows : forallb (fun k => k <? n) (complement n rows) = true.
Proof.
  apply forallb_forall. intros k Hk. unfold complement in Hk. apply filter_In in Hk. destruct Hk as [Hk _].
  apply in_seq in Hk. apply Nat.ltb_lt. lia.
Qed.

Section Mz.
Context {A : Type} (d : A).
Notation tensor := (tensor A).

(* the part of g_matricize after the column modes are known *)
Lemma matricize_tail (t : tensor) rows cs :
  forallb (fun k => k <? ndim t) cs = true ->
  rbind (rmapM (fun i => py_getitem (map Z.of_nat (shape t)) i) (map Z.of_nat rows)) (fun x2 =>
  rbind (rmapM (fun i => py_getitem (map Z.of_nat (shape t)) i) (map Z.of_nat cs)) (fun x4 =>
  rbind (np_transpose d t (map Z.of_nat rows ++ map Z.of_nat cs)) (fun x5 =>
  reshape_spec (spec_of_z [zprod x2; zprod x4]) x5)))
  = if is_permb (ndim t) (rows ++ cs)
    then Ok (reshape [prod (permute 0 rows (shape t)); prod (permute 0 cs (shape t))] (transpose d (rows ++ cs) t))
    else Err.
Proof.
  intros Hc. unfold ndim in *.
  destruct (forallb (fun k => k <? length (shape t)) rows) eqn:Hr.
  2:{ rewrite rmapM_getitem_modes_err by exact Hr. cbn [rbind].
      unfold is_permb. rewrite forallb_app, Hr. cbn [andb]. now rewrite andb_false_r. }
  rewrite (rmapM_getitem_modes _ _ Hr), (rmapM_getitem_modes _ _ Hc). cbn [rbind].
  unfold np_transpose, ndim. rewrite <- map_app.
  rewrite norm_axes_nat by (rewrite forallb_app, Hr, Hc; reflexivity).
  destruct (is_permb (length (shape t)) (rows ++ cs)); cbn [rbind]; [|reflexivity].
  rewrite !zprod_nat, !spec_of_z_cons_nat. cbn [spec_of_z map].
  change [Some (prod (permute 0 rows (shape t))); Some (prod (permute 0 cs (shape t)))]
    with (map Some [prod (permute 0 rows (shape t)); prod (permute 0 cs (shape t))]).
  apply reshape_spec_all_some. cbn [shape transpose tabulate prod fold_right].
  rewrite permute_app, prod_app. unfold prod. lia.
Qed.

Theorem g_matricize_eq (t : tensor) rows cols :
  g_matricize (plain d) t (PSeq (map Z.of_nat rows)) (option_map (fun c => PSeq (map Z.of_nat c)) cols) = matricize d t rows cols.
Proof.
  unfold g_matricize, matricize, py_shape, py_ndim. cbv zeta. cbn [b_shape b_transpose b_reshape plain py_list rcatch rbind].
  destruct cols as [c|]; cbn [option_map py_list rcatch rbind].
  - fold (ndim t). rewrite sorted_check.
    destruct (is_permb (ndim t) (rows ++ c)) eqn:E; cbn [negb rbind]; [|reflexivity].
    rewrite matricize_tail; [now rewrite E|].
    unfold is_permb in E. rewrite !andb_true_iff, forallb_app, andb_true_iff in E. tauto.
  - fold (ndim t). rewrite default_columns. cbn [rbind].
    apply matricize_tail. apply complement_bound.
Qed.

End Mz.
