(* C01, twelfth part: the vectorising functions and the second direction of the partial round trip.
   vec_to_tensor: exact success domain, layout, vectorise-after-unvectorise; tensor_to_vec is total;
   partial_unfold after partial_fold returns the partially unfolded tensor. *)
From Coq Require Import List Arith Lia Bool Permutation.
From TLV Require Import Base.Shape Base.PyList Base.Tensor Model.Base
  Proofs.BaseProofs Proofs.BaseProofs2 Proofs.BaseProofs3 Proofs.BaseProofs5 Proofs.BaseProofs7 Proofs.BaseProofs8.
Import ListNotations.

Lemma Ok_inj {X} (a b : X) : Ok a = Ok b -> a = b.
Proof. now intros [=]. Qed.

Section P12.
Context {A : Type} (d : A).
Notation tensor := (tensor A).

Theorem tensor_to_vec_total (t : tensor) : exists v, tensor_to_vec t = Ok v /\ shape v = [prod (shape t)] /\ data v = data t.
Proof. eexists. rewrite tensor_to_vec_eq. repeat split. Qed.

Theorem vec_to_tensor_ok_iff (v : tensor) s : (exists t, vec_to_tensor v s = Ok t) <-> prod s = prod (shape v).
Proof. unfold vec_to_tensor. apply reshape_spec_all_some_iff. Qed.

(* the entry with multi-index idx of the refolded tensor is entry ravel(idx) of the vector *)
Theorem vec_to_tensor_layout (v t : tensor) s : vec_to_tensor v s = Ok t ->
  shape t = s /\ data t = data v /\ (forall idx, get d t idx = nth (ravel s idx) (data v) d).
Proof.
  intros H. unfold vec_to_tensor in H.
  assert (Hp : prod s = prod (shape v)) by (apply reshape_spec_all_some_iff; eauto).
  rewrite (reshape_spec_all_some v s Hp) in H. injection H as <-.
  repeat split.
Qed.

(* vectorising what vec_to_tensor made gives the vector back *)
Theorem vec_unvec_roundtrip (v : tensor) s : shape v = [prod s] ->
  rbind (vec_to_tensor v s) (fun t => tensor_to_vec t) = Ok v.
Proof.
  intros Hs. unfold vec_to_tensor.
  rewrite reshape_spec_all_some by (rewrite Hs; unfold prod; cbn [fold_right]; lia).
  cbn [rbind]. rewrite tensor_to_vec_eq. rewrite reshape_reshape. cbn [shape reshape].
  destruct v as [sv dv]. cbn [shape] in Hs. subst sv. reflexivity.
Qed.

(* ---------- partial_unfold after partial_fold ---------- *)
Theorem partial_unfold_fold (u : tensor) m s sb se (rav : bool) :
  wf u -> sb + m + se < length s ->
  let mids := firstn (length s - sb - se) (skipn sb s) in
  shape u = firstn sb s ++ (if rav then [nth m mids 0 * prod (remove_nth m mids)]
                            else [nth m mids 0; prod (remove_nth m mids)]) ++ lastn se s ->
  prod (firstn sb s) * (if rav then 1 else nth (m + sb) s 0) * prod (lastn se s) <> 0 ->
  rbind (partial_fold d u m s sb se) (fun t => partial_unfold d t m sb se rav) = Ok u.
Proof.
  intros W Hdom mids Hsu Hnz.
  destruct (shape_split s sb se ltac:(lia)) as (Hdec & L1 & L2 & L3). fold mids in Hdec, L2.
  assert (Hmid : nth m mids 0 * prod (remove_nth m mids) = prod mids) by (apply prod_remove; lia).
  assert (Hps : prod s = prod (firstn sb s) * prod mids * prod (lastn se s)).
  { rewrite Hdec at 1. rewrite !prod_app. lia. }
  assert (Hpu : prod (shape u) = prod s).
  { rewrite Hsu, Hps, !prod_app. destruct rav; unfold prod at 2; cbn [fold_right]; rewrite <- Hmid; unfold prod; lia. }
  set (k := sb + m).
  set (ts := insert_at sb (nth k s 0) (remove_nth k s)).
  assert (Hk : k < length s) by (unfold k; lia).
  assert (Hts : prod ts = prod s) by (unfold ts; apply prod_move; exact Hk).
  assert (Lts : length ts = length s).
  { unfold ts. rewrite insert_at_length, remove_nth_length by exact Hk. lia. }
  unfold partial_fold. fold k. fold ts. apply Nat.ltb_lt in Hk as Hk'. rewrite Hk'.
  rewrite reshape_spec_all_some by congruence. cbn [rbind].
  set (r := reshape ts u). set (t := moveaxis d r sb k).
  assert (Wr : wf r) by (unfold r; apply wf_reshape; [exact W | congruence]).
  assert (Nr : ndim r = length s) by (unfold r, ndim, reshape; cbn [shape]; exact Lts).
  assert (St : shape t = s).
  { unfold t. rewrite shape_moveaxis. unfold r, reshape. cbn [shape]. unfold ts.
    rewrite nth_insert_same by (rewrite remove_nth_length by exact Hk; lia).
    rewrite remove_insert by (rewrite remove_nth_length by exact Hk; lia).
    apply insert_remove. exact Hk. }
  assert (Wt : wf t) by (unfold t; apply wf_moveaxis).
  (* partial_unfold of t succeeds *)
  destruct (proj2 (partial_unfold_ok_iff d t m sb se rav ltac:(unfold ndim; rewrite St; lia))) as [u' Hu'].
  { rewrite St. exact Hnz. }
  rewrite Hu'. f_equal.
  (* u' has the shape of u ... *)
  pose proof (partial_unfold_shape d t u' m sb se rav ltac:(unfold ndim; rewrite St; lia) Hu') as Su'.
  cbv zeta in Su'. rewrite St in Su'. fold mids in Su'.
  (* ... and refolds to t, like u *)
  pose proof (partial_fold_unfold d t u' m sb se rav Wt Hu') as Hf.
  rewrite St in Hf. unfold partial_fold in Hf. fold k in Hf. fold ts in Hf. rewrite Hk' in Hf.
  destruct (reshape_spec (map Some ts) u') as [r'|] eqn:Er; cbn [rbind] in Hf; [|discriminate].
  apply Ok_inj in Hf.
  assert (Hpu' : prod ts = prod (shape u')) by (apply reshape_spec_all_some_iff; eauto).
  rewrite (reshape_spec_all_some u' ts Hpu') in Er. apply Ok_inj in Er. subst r'.
  assert (Wu' : wf u').
  { unfold partial_unfold in Hu'. rewrite St in Hu'.
    destruct ((m + sb <? length s) && (se <=? length s)); [|discriminate].
    apply reshape_spec_ok in Hu'. destruct Hu' as [Hd Hp]. unfold wf. rewrite Hd, Hp. apply wf_moveaxis. }
  assert (Wr' : wf (reshape ts u')) by (apply wf_reshape; [exact Wu' | exact Hpu']).
  assert (E : reshape ts u' = r).
  { assert (E1 : moveaxis d (moveaxis d (reshape ts u') sb k) k sb = reshape ts u')
      by (apply moveaxis_roundtrip; [exact Wr' | unfold ndim, reshape; cbn [shape]; unfold k in *; lia | unfold ndim, reshape; cbn [shape]; lia]).
    assert (E2 : moveaxis d (moveaxis d r sb k) k sb = r)
      by (apply moveaxis_roundtrip; [exact Wr | rewrite Nr; unfold k; lia | rewrite Nr; exact Hk]).
    rewrite <- E1, Hf. exact E2. }
  unfold r, reshape in E. injection E as E.
  clear - Hsu Su' E. destruct u as [su du], u' as [su' du']. cbn [shape data] in Hsu, Su', E.
  rewrite Su', E, Hsu. reflexivity.
Qed.

End P12.
