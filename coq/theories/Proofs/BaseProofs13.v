(* C01, thirteenth part: the statement-by-statement model of the generic Backend.moveaxis (tensorly/backend/core.py) on the
   NumPy backend is the hand model moveaxis_generic_z of Model/BaseExt.v, for every pair of signed axes. *)
From Coq Require Import List Arith Lia Bool Permutation ZArith.
From TLV Require Import Base.Shape Base.PyList Base.Tensor Model.Base Model.BaseExt Model.BasePy Model.BasePyCore
  Proofs.BaseProofs Proofs.BaseProofs3 Proofs.BaseProofs4 Proofs.BaseProofs9 Proofs.BaseProofs10 Proofs.BaseProofs11.
Import ListNotations.

Lemma getitem_range n i k : norm_axis n i = Some k -> py_getitem (map Z.of_nat (seq 0 n)) i = Ok (Z.of_nat k).
Proof.
  intros H. pose proof (norm_axis_some _ _ _ H) as [Hk _].
  rewrite (py_getitem_nat (seq 0 n) i k) by (now rewrite seq_length). now rewrite seq_nth.
Qed.

Lemma pop_range n i k : norm_axis n i = Some k ->
  py_pop (map Z.of_nat (seq 0 n)) i = Ok (Z.of_nat k, map Z.of_nat (remove_nth k (seq 0 n))).
Proof.
  intros H. pose proof (norm_axis_some _ _ _ H) as [Hk _].
  rewrite (py_pop_nat (seq 0 n) i k) by (now rewrite seq_length). now rewrite seq_nth.
Qed.

Lemma pop_range_none n i : norm_axis n i = None -> py_pop (map Z.of_nat (seq 0 n)) i = @Err (Z * list Z).
Proof. intros H. unfold py_pop. now rewrite map_length, seq_length, H. Qed.

Lemma inv_moveaxis_generic {T : Type} (B : backend T) (R : T -> T -> Prop)
  (H_transpose : forall t p u, b_transpose B t p = Ok u -> R t u) t a b u :
  g_moveaxis_generic B t a b = Ok u -> R t u.
Proof. unfold g_moveaxis_generic. cbv zeta. intros H. mon. eauto. Qed.

Section P13.
Context {A : Type} (d : A).
Notation tensor := (tensor A).

Lemma generic_tail (t : tensor) a' b' : a' < ndim t ->
  rbind (py_pop (map Z.of_nat (seq 0 (ndim t))) (Z.of_nat a')) (fun x3 =>
    np_transpose d t (py_insert (snd x3) (Z.of_nat b') (Z.of_nat a'))) = Ok (moveaxis_generic d t a' b').
Proof.
  intros Ha. rewrite (pop_range _ _ _ (norm_axis_nonneg _ _ Ha)). cbn [rbind snd].
  rewrite py_insert_nat, insert_at_clip, <- map_insert_at.
  fold (move_perm (ndim t) a' b').
  pose proof (is_permb_of_Permutation _ _ (move_perm_Permutation (ndim t) a' b' Ha)) as E.
  unfold np_transpose. rewrite norm_axes_nat.
  - rewrite E. reflexivity.
  - unfold is_permb in E. rewrite !andb_true_iff in E. tauto.
Qed.

Theorem g_moveaxis_generic_eq (t : tensor) a b : g_moveaxis_generic (plain d) t a b = moveaxis_generic_z d t a b.
Proof.
  unfold g_moveaxis_generic, moveaxis_generic_z, py_ndim. cbv zeta. cbn [b_shape b_transpose plain].
  fold (ndim t). rewrite py_range1_nat.
  destruct (norm_axis (ndim t) a) as [a'|] eqn:Ea.
  - pose proof (norm_axis_some _ _ _ Ea) as (Ha & Hr & Hm).
    assert (X1 : (if (a <? 0)%Z then rbind (py_getitem (map Z.of_nat (seq 0 (ndim t))) a) (fun x1 => Ok x1) else Ok a) = Ok (Z.of_nat a')).
    { destruct (Z.ltb_spec a 0).
      - rewrite (getitem_range _ _ _ Ea). reflexivity.
      - f_equal. rewrite Hm. rewrite Z.mod_small by lia. reflexivity. }
    rewrite X1. cbn [rbind].
    destruct (Z.ltb_spec b 0) as [Hb|Hb].
    + destruct (norm_axis (ndim t) b) as [b'|] eqn:Eb.
      * rewrite (getitem_range _ _ _ Eb). cbn [rbind]. now apply generic_tail.
      * rewrite py_getitem_nat_none by (now rewrite seq_length). reflexivity.
    + cbn [rbind]. rewrite <- (generic_tail t a' (Z.to_nat b) Ha). rewrite Z2Nat.id by lia. reflexivity.
  - destruct (Z.ltb_spec a 0).
    + rewrite py_getitem_nat_none by (now rewrite seq_length). reflexivity.
    + cbn [rbind].
      destruct (if (b <? 0)%Z then rbind (py_getitem (map Z.of_nat (seq 0 (ndim t))) b) (fun x2 => Ok x2) else Ok b); cbn [rbind]; [|reflexivity].
      rewrite (pop_range_none _ _ Ea). reflexivity.
Qed.

End P13.
