(* C01, fourteenth part: the statement-by-statement matricize on the NumPy backend equals the hand model matricize_z for
   EVERY list of signed modes: a negative entry can never be part of a successful request (with column_modes given the
   sorted() test fails; without, np.transpose sees a repeated axis). *)
From Coq Require Import List Arith Lia Bool Permutation ZArith.
From TLV Require Import Base.Shape Base.PyList Base.Tensor Model.Base Model.BaseExt Model.BasePy
  Proofs.BaseProofs Proofs.BaseProofs3 Proofs.BaseProofs4 Proofs.BaseProofs9 Proofs.BaseProofs10 Proofs.BaseProofs11.
Import ListNotations.

Lemma NoDup_map_eq {X Y} (f : X -> Y) : forall l x y, NoDup (map f l) -> In x l -> In y l -> f x = f y -> x = y.
Proof.
  induction l as [|a l IH]; intros x y Hnd Hx Hy E; [destruct Hx|].
  cbn [map] in Hnd. inversion Hnd as [|? ? Hna Hnd']; subst.
  destruct Hx as [->|Hx], Hy as [->|Hy]; auto.
  - exfalso. apply Hna. rewrite E. now apply in_map.
  - exfalso. apply Hna. rewrite <- E. now apply in_map.
Qed.

Lemma forallb_false_witness {X} (f : X -> bool) : forall l, forallb f l = false -> exists x, In x l /\ f x = false.
Proof.
  induction l as [|a l IH]; cbn; [discriminate|]. destruct (f a) eqn:E; cbn.
  - intros H. destruct (IH H) as [x [Hx Fx]]. eauto.
  - intros _. eauto.
Qed.

Lemma all_nonneg_roundtrip : forall l, all_nonneg l = true -> map Z.of_nat (map Z.to_nat l) = l.
Proof.
  unfold all_nonneg. induction l as [|z l IH]; cbn; [reflexivity|]. rewrite andb_true_iff. intros [Hz Hl].
  apply Z.leb_le in Hz. rewrite Z2Nat.id by exact Hz. now rewrite IH.
Qed.

Lemma norm_axes_map n : forall l q, norm_axes n l = Some q ->
  q = map (fun z => Z.to_nat (z mod Z.of_nat n)) l /\ (forall z, In z l -> (- Z.of_nat n <= z < Z.of_nat n)%Z).
Proof.
  induction l as [|z l IH]; cbn [norm_axes map]; intros q H.
  - injection H as <-. split; [reflexivity | intros z []].
  - destruct (norm_axis n z) as [k|] eqn:Ek; [|discriminate].
    destruct (norm_axes n l) as [ks|] eqn:El; [|discriminate]. injection H as <-.
    destruct (IH ks eq_refl) as [-> Hb]. pose proof (norm_axis_some _ _ _ Ek) as (_ & Hr & Hm).
    split.
    + f_equal. apply Nat2Z.inj. rewrite Hm. rewrite Z2Nat.id; [reflexivity|].
      apply Z.mod_pos_bound. lia.
    + intros y [<-|Hy]; auto.
Qed.

Lemma zmemb_In z l : zmemb z l = true <-> In z l.
Proof.
  unfold zmemb. rewrite existsb_exists. split.
  - intros [x [Hx E]]. apply Z.eqb_eq in E. now subst.
  - intros H. exists z. split; [exact H | apply Z.eqb_refl].
Qed.

Section P14.
Context {A : Type} (d : A).
Notation tensor := (tensor A).

(* column_modes given: a negative mode makes the sorted() test fail *)
Lemma g_matricize_negative_some (t : tensor) rows c z : (z < 0)%Z -> In z (c ++ rows) ->
  g_matricize (plain d) t (PSeq rows) (Some (PSeq c)) = Err.
Proof.
  intros Hz Hin. unfold g_matricize. cbv zeta. cbn [py_list rcatch rbind].
  destruct (zlist_eqb (py_sorted (c ++ rows)) (py_range1 (py_ndim (plain d) t))) eqn:E; cbn [negb rbind]; [|reflexivity].
  exfalso. apply zlist_eqb_eq in E.
  assert (Hs : In z (py_sorted (c ++ rows))) by (eapply Permutation_in; [apply Permutation_sym, py_sorted_perm | exact Hin]).
  rewrite E in Hs. unfold py_range1 in Hs. apply in_map_iff in Hs. destruct Hs as [k [Hk _]]. lia.
Qed.

(* column_modes=None: the default columns contain every mode that is not a row, so the normalised axes repeat *)
Lemma g_matricize_negative_none (t : tensor) rows z : (z < 0)%Z -> In z rows ->
  g_matricize (plain d) t (PSeq rows) None = Err.
Proof.
  intros Hz Hin. unfold g_matricize. cbv zeta. cbn [py_list rcatch rbind].
  set (cs := filter (fun i => negb (zmemb i rows)) (py_range1 (py_ndim (plain d) t))).
  destruct (rmapM (fun i => py_getitem (py_shape (plain d) t) i) rows); cbn [rbind]; [|reflexivity].
  destruct (rmapM (fun i => py_getitem (py_shape (plain d) t) i) cs); cbn [rbind]; [|reflexivity].
  cbn [b_transpose plain]. unfold np_transpose.
  destruct (norm_axes (ndim t) (rows ++ cs)) as [q|] eqn:Eq; [|reflexivity].
  destruct (is_permb (ndim t) q) eqn:Ep; cbn [rbind]; [|reflexivity].
  exfalso. destruct (norm_axes_map _ _ _ Eq) as [-> Hb].
  assert (Hnd : NoDup (map (fun z0 => Z.to_nat (z0 mod Z.of_nat (ndim t))) (rows ++ cs))).
  { unfold is_permb in Ep. rewrite !andb_true_iff in Ep. apply nodupb_NoDup. tauto. }
  pose proof (Hb z (in_or_app _ _ _ (or_introl Hin))) as Hzb.
  set (y := (z + Z.of_nat (ndim t))%Z).
  assert (Hy : In y (rows ++ cs)).
  { apply in_or_app. destruct (zmemb y rows) eqn:My; [left; now apply zmemb_In|]. right.
    unfold cs. apply filter_In. split; [|now rewrite My].
    unfold py_range1, py_ndim. cbn [b_shape plain]. fold (ndim t). rewrite Nat2Z.id.
    apply in_map_iff. exists (Z.to_nat y). split; [apply Z2Nat.id; unfold y; lia|].
    apply in_seq. unfold y. lia. }
  assert (E : z = y).
  { apply (NoDup_map_eq _ _ z y Hnd); [apply in_or_app; now left | exact Hy |].
    f_equal. unfold y. rewrite <- (Z_mod_plus_full z 1 (Z.of_nat (ndim t))). f_equal. lia. }
  unfold y in E. lia.
Qed.

Theorem g_matricize_z_eq (t : tensor) (rows : list Z) (cols : option (list Z)) :
  g_matricize (plain d) t (PSeq rows) (option_map PSeq cols) = matricize_z d t rows cols.
Proof.
  unfold matricize_z.
  destruct (all_nonneg rows) eqn:Er.
  - destruct cols as [c|].
    + destruct (all_nonneg c) eqn:Ec; cbn [andb].
      * cbn [option_map]. rewrite <- (g_matricize_eq d t (map Z.to_nat rows) (Some (map Z.to_nat c))). cbn [option_map].
        now rewrite !all_nonneg_roundtrip.
      * destruct (forallb_false_witness _ _ Ec) as [z [Hz Fz]]. apply Z.leb_gt in Fz.
        apply (g_matricize_negative_some t rows c z Fz). apply in_or_app. now left.
    + cbn [andb option_map]. rewrite <- (g_matricize_eq d t (map Z.to_nat rows) None). cbn [option_map].
      now rewrite all_nonneg_roundtrip.
  - cbn [andb]. destruct (forallb_false_witness _ _ Er) as [z [Hz Fz]]. apply Z.leb_gt in Fz.
    destruct cols as [c|].
    + apply (g_matricize_negative_some t rows c z Fz). apply in_or_app. now right.
    + now apply (g_matricize_negative_none t rows z Fz).
Qed.

(* the bare-int convenience of the source (try: list(x) except TypeError: [x]): an int stands for the one-element list *)
Theorem g_matricize_bare_int {T : Type} (B : backend T) (t : T) (z : Z) (rows : pyseq) (cols : option pyseq) :
  g_matricize B t (PInt z) cols = g_matricize B t (PSeq [z]) cols /\
  g_matricize B t rows (Some (PInt z)) = g_matricize B t rows (Some (PSeq [z])).
Proof. split; reflexivity. Qed.

End P14.
