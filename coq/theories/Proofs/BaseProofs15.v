(* C01, fifteenth part: a map between two backends that commutes with shape / reshape / moveaxis / transpose commutes with
   every function of the statement-by-statement model.  Instance: forgetting the dtype tag (typed -> plain), so the typed
   model computes exactly the entries of the untyped one and every layout / round-trip theorem transfers. *)
From Coq Require Import List Arith Lia Bool ZArith.
From TLV Require Import Base.Shape Base.PyList Base.Tensor Model.Base Model.BaseExt Model.BasePy Model.BasePyCore
  Proofs.BaseProofs6 Proofs.BaseProofs9.
Import ListNotations.

Section Morph.
Context {T1 T2 : Type} (B1 : backend T1) (B2 : backend T2) (phi : T1 -> T2).
Context (Hs : forall t, b_shape B2 (phi t) = b_shape B1 t).
Context (Hr : forall t l, b_reshape B2 (phi t) l = rmap phi (b_reshape B1 t l)).
Context (Hm : forall t a b, b_moveaxis B2 (phi t) a b = rmap phi (b_moveaxis B1 t a b)).
Context (Ht : forall t p, b_transpose B2 (phi t) p = rmap phi (b_transpose B1 t p)).

Lemma py_shape_phi t : py_shape B2 (phi t) = py_shape B1 t.
Proof. unfold py_shape. now rewrite Hs. Qed.
Lemma py_ndim_phi t : py_ndim B2 (phi t) = py_ndim B1 t.
Proof. unfold py_ndim. now rewrite Hs. Qed.

Ltac step := repeat (rewrite ?py_shape_phi, ?py_ndim_phi, ?Hr, ?Hm, ?Ht;
  first [ match goal with |- context [b_moveaxis B1 ?x ?y ?z] => destruct (b_moveaxis B1 x y z) end
        | match goal with |- context [b_transpose B1 ?x ?y] => destruct (b_transpose B1 x y) end
        | match goal with |- context [b_reshape B1 ?x ?y] => destruct (b_reshape B1 x y) end
        | match goal with |- context [rbind ?r _] => destruct r end ];
  cbn [rbind rmap]);
  rewrite ?py_shape_phi, ?py_ndim_phi, ?Hr, ?Hm, ?Ht; try reflexivity.

Lemma morph_unfold t m : g_unfold B2 (phi t) m = rmap phi (g_unfold B1 t m).
Proof. unfold g_unfold. step. Qed.
Lemma morph_fold t m s : g_fold B2 (phi t) m s = rmap phi (g_fold B1 t m s).
Proof. unfold g_fold. cbv zeta. step. Qed.
Lemma morph_partial_unfold t m sb se rav : g_partial_unfold B2 (phi t) m sb se rav = rmap phi (g_partial_unfold B1 t m sb se rav).
Proof. unfold g_partial_unfold. step. Qed.
Lemma morph_partial_fold t m s sb se : g_partial_fold B2 (phi t) m s sb se = rmap phi (g_partial_fold B1 t m s sb se).
Proof. unfold g_partial_fold. cbv zeta. step. Qed.
Lemma morph_matricize t rows cols : g_matricize B2 (phi t) rows cols = rmap phi (g_matricize B1 t rows cols).
Proof. unfold g_matricize. cbv zeta. step. Qed.
Lemma morph_moveaxis_generic t a b : g_moveaxis_generic B2 (phi t) a b = rmap phi (g_moveaxis_generic B1 t a b).
Proof. unfold g_moveaxis_generic. cbv zeta. step. Qed.

Theorem g_morphism (t : T1) :
  g_tensor_to_vec B2 (phi t) = rmap phi (g_tensor_to_vec B1 t) /\
  (forall s, g_vec_to_tensor B2 (phi t) s = rmap phi (g_vec_to_tensor B1 t s)) /\
  (forall m, g_unfold B2 (phi t) m = rmap phi (g_unfold B1 t m)) /\
  (forall m s, g_fold B2 (phi t) m s = rmap phi (g_fold B1 t m s)) /\
  (forall m sb se rav, g_partial_unfold B2 (phi t) m sb se rav = rmap phi (g_partial_unfold B1 t m sb se rav)) /\
  (forall m s sb se, g_partial_fold B2 (phi t) m s sb se = rmap phi (g_partial_fold B1 t m s sb se)) /\
  (forall sb se, g_partial_tensor_to_vec B2 (phi t) sb se = rmap phi (g_partial_tensor_to_vec B1 t sb se)) /\
  (forall s sb se, g_partial_vec_to_tensor B2 (phi t) s sb se = rmap phi (g_partial_vec_to_tensor B1 t s sb se)) /\
  (forall rows cols, g_matricize B2 (phi t) rows cols = rmap phi (g_matricize B1 t rows cols)) /\
  (forall a b, g_moveaxis_generic B2 (phi t) a b = rmap phi (g_moveaxis_generic B1 t a b)).
Proof.
  repeat split; intros.
  - apply Hr.
  - apply Hr.
  - apply morph_unfold.
  - apply morph_fold.
  - apply morph_partial_unfold.
  - apply morph_partial_fold.
  - apply morph_partial_unfold.
  - apply morph_partial_fold.
  - apply morph_matricize.
  - apply morph_moveaxis_generic.
Qed.
End Morph.

(* forgetting the dtype tag *)
Theorem g_typed_entries {A : Type} (d : A) (D : Type) (a : ndarray A D) :
  g_tensor_to_vec (plain d) (arr a) = rmap arr (g_tensor_to_vec (typed d D) a) /\
  (forall s, g_vec_to_tensor (plain d) (arr a) s = rmap arr (g_vec_to_tensor (typed d D) a s)) /\
  (forall m, g_unfold (plain d) (arr a) m = rmap arr (g_unfold (typed d D) a m)) /\
  (forall m s, g_fold (plain d) (arr a) m s = rmap arr (g_fold (typed d D) a m s)) /\
  (forall m sb se rav, g_partial_unfold (plain d) (arr a) m sb se rav = rmap arr (g_partial_unfold (typed d D) a m sb se rav)) /\
  (forall m s sb se, g_partial_fold (plain d) (arr a) m s sb se = rmap arr (g_partial_fold (typed d D) a m s sb se)) /\
  (forall sb se, g_partial_tensor_to_vec (plain d) (arr a) sb se = rmap arr (g_partial_tensor_to_vec (typed d D) a sb se)) /\
  (forall s sb se, g_partial_vec_to_tensor (plain d) (arr a) s sb se = rmap arr (g_partial_vec_to_tensor (typed d D) a s sb se)) /\
  (forall rows cols, g_matricize (plain d) (arr a) rows cols = rmap arr (g_matricize (typed d D) a rows cols)) /\
  (forall x y, g_moveaxis_generic (plain d) (arr a) x y = rmap arr (g_moveaxis_generic (typed d D) a x y)).
Proof.
  apply (g_morphism (typed d D) (plain d) arr).
  - reflexivity.
  - intros t l. cbn [b_reshape typed]. destruct (b_reshape (plain d) (arr t) l); reflexivity.
  - intros t x y. cbn [b_moveaxis typed]. destruct (b_moveaxis (plain d) (arr t) x y); reflexivity.
  - intros t p. cbn [b_transpose typed]. destruct (b_transpose (plain d) (arr t) p); reflexivity.
Qed.
