(* C01, sixteenth part: the headline round trips on the statement-by-statement model over arrays that carry a dtype tag:
   refolding returns the original array - same tag, same shape, same entries in the same places. *)
From Coq Require Import List Arith Lia Bool Permutation ZArith.
From TLV Require Import Base.Shape Base.PyList Base.Tensor Model.Base Model.BaseExt Model.BasePy Model.BasePyCore
  Proofs.BaseProofs Proofs.BaseProofs2 Proofs.BaseProofs3 Proofs.BaseProofs6 Proofs.BaseProofs9 Proofs.BaseProofs10 Proofs.BaseProofs15.
Import ListNotations.

Lemma rmap_ok {X Y} (f : X -> Y) (r : res X) y : rmap f r = Ok y -> exists x, r = Ok x /\ f x = y.
Proof. destruct r as [x|]; cbn; [|discriminate]. intros H. injection H as <-. eauto. Qed.

Lemma ndarray_ext {A D} (a b : ndarray A D) : dt a = dt b -> arr a = arr b -> a = b.
Proof. destruct a, b; cbn. now intros -> ->. Qed.

Section P16.
Context {A : Type} (d : A) (D : Type).
Notation TB := (typed d D).

Theorem g_typed_fold_unfold (a u : ndarray A D) m : wf (arr a) ->
  g_unfold TB a m = Ok u -> g_fold TB u m (map Z.of_nat (shape (arr a))) = Ok a.
Proof.
  intros W H.
  destruct (g_typed_entries d D a) as (_ & _ & Eu & _). destruct (g_typed_entries d D u) as (_ & _ & _ & Ef & _).
  destruct (g_typed_same_type d a u) as (_ & _ & Su & _). destruct (Su m H) as [Ta _].
  specialize (Eu m). rewrite H in Eu. cbn [rmap] in Eu. rewrite g_unfold_eq in Eu.
  pose proof (fold_unfold_z d (arr a) (arr u) m W Eu) as F. rewrite <- g_fold_eq, Ef in F.
  apply rmap_ok in F. destruct F as [a' [F Ea']]. rewrite F. f_equal.
  destruct (g_typed_same_type d u a') as (_ & _ & _ & Sf & _). destruct (Sf _ _ F) as [Tb _].
  apply ndarray_ext; congruence.
Qed.

Theorem g_typed_partial_fold_unfold (a u : ndarray A D) m sb se rav : wf (arr a) ->
  g_partial_unfold TB a m (Z.of_nat sb) (Z.of_nat se) rav = Ok u ->
  g_partial_fold TB u m (map Z.of_nat (shape (arr a))) (Z.of_nat sb) (Z.of_nat se) = Ok a.
Proof.
  intros W H.
  destruct (g_typed_entries d D a) as (_ & _ & _ & _ & Eu & _). destruct (g_typed_entries d D u) as (_ & _ & _ & _ & _ & Ef & _).
  destruct (g_typed_same_type d a u) as (_ & _ & _ & _ & Su & _). destruct (Su _ _ _ _ H) as [Ta _].
  specialize (Eu m (Z.of_nat sb) (Z.of_nat se) rav). rewrite H in Eu. cbn [rmap] in Eu. rewrite g_partial_unfold_eq in Eu.
  pose proof (partial_fold_unfold_z d (arr a) (arr u) m sb se rav W Eu) as F.
  rewrite <- (g_partial_fold_eq d (arr u) m (shape (arr a)) sb (Z.of_nat se) se), Ef in F.
  apply rmap_ok in F. destruct F as [a' [F Ea']]. rewrite F. f_equal.
  destruct (g_typed_same_type d u a') as (_ & _ & _ & _ & _ & Sf & _). destruct (Sf _ _ _ _ F) as [Tb _].
  apply ndarray_ext; congruence.
Qed.

Theorem g_typed_vec_roundtrip (a v : ndarray A D) : wf (arr a) ->
  g_tensor_to_vec TB a = Ok v -> g_vec_to_tensor TB v (map Z.of_nat (shape (arr a))) = Ok a.
Proof.
  intros W H.
  destruct (g_typed_entries d D a) as (Ev & _). destruct (g_typed_entries d D v) as (_ & Ef & _).
  destruct (g_typed_same_type d a v) as (Sv & _). destruct (Sv H) as [Ta _].
  rewrite H in Ev. cbn [rmap] in Ev. rewrite g_tensor_to_vec_eq in Ev.
  pose proof (vec_roundtrip (arr a) W) as F. rewrite Ev in F. cbn [rbind] in F.
  rewrite <- g_vec_to_tensor_eq with (d := d), Ef in F.
  apply rmap_ok in F. destruct F as [a' [F Ea']]. rewrite F. f_equal.
  destruct (g_typed_same_type d v a') as (_ & Sf & _). destruct (Sf _ F) as [Tb _].
  apply ndarray_ext; congruence.
Qed.

End P16.
