(* C01, seventeenth part: "no entry is rounded or re-typed" for the statement-by-statement model: on the NumPy backend all
   ten functions commute with every entry-wise map f : A -> B (instance of g_morphism with phi = tmap f). *)
From Coq Require Import List Arith Lia Bool ZArith.
From TLV Require Import Base.Shape Base.PyList Base.Tensor Model.Base Model.BaseExt Model.BasePy Model.BasePyCore
  Proofs.BaseProofs6 Proofs.BaseProofs9 Proofs.BaseProofs15.
Import ListNotations.

Section Nat.
Context {A B : Type} (f : A -> B) (d : A).

Lemma ndim_tmap (t : tensor A) : ndim (tmap f t) = ndim t.
Proof. reflexivity. Qed.

Lemma moveaxis_z_natural (t : tensor A) a b : moveaxis_z (f d) (tmap f t) a b = rmap (tmap f) (moveaxis_z d t a b).
Proof.
  unfold moveaxis_z. rewrite ndim_tmap.
  destruct (norm_axis (ndim t) a); [|reflexivity]. destruct (norm_axis (ndim t) b); [|reflexivity].
  cbn [rmap]. now rewrite moveaxis_natural.
Qed.

Lemma np_transpose_natural (t : tensor A) p : np_transpose (f d) (tmap f t) p = rmap (tmap f) (np_transpose d t p).
Proof.
  unfold np_transpose. rewrite ndim_tmap.
  destruct (norm_axes (ndim t) p) as [q|]; [|reflexivity]. destruct (is_permb (ndim t) q); [|reflexivity].
  cbn [rmap]. now rewrite transpose_natural.
Qed.

Theorem g_natural (t : tensor A) :
  g_tensor_to_vec (plain (f d)) (tmap f t) = rmap (tmap f) (g_tensor_to_vec (plain d) t) /\
  (forall s, g_vec_to_tensor (plain (f d)) (tmap f t) s = rmap (tmap f) (g_vec_to_tensor (plain d) t s)) /\
  (forall m, g_unfold (plain (f d)) (tmap f t) m = rmap (tmap f) (g_unfold (plain d) t m)) /\
  (forall m s, g_fold (plain (f d)) (tmap f t) m s = rmap (tmap f) (g_fold (plain d) t m s)) /\
  (forall m sb se rav, g_partial_unfold (plain (f d)) (tmap f t) m sb se rav = rmap (tmap f) (g_partial_unfold (plain d) t m sb se rav)) /\
  (forall m s sb se, g_partial_fold (plain (f d)) (tmap f t) m s sb se = rmap (tmap f) (g_partial_fold (plain d) t m s sb se)) /\
  (forall sb se, g_partial_tensor_to_vec (plain (f d)) (tmap f t) sb se = rmap (tmap f) (g_partial_tensor_to_vec (plain d) t sb se)) /\
  (forall s sb se, g_partial_vec_to_tensor (plain (f d)) (tmap f t) s sb se = rmap (tmap f) (g_partial_vec_to_tensor (plain d) t s sb se)) /\
  (forall rows cols, g_matricize (plain (f d)) (tmap f t) rows cols = rmap (tmap f) (g_matricize (plain d) t rows cols)) /\
  (forall a b, g_moveaxis_generic (plain (f d)) (tmap f t) a b = rmap (tmap f) (g_moveaxis_generic (plain d) t a b)).
Proof.
  apply (g_morphism (plain d) (plain (f d)) (tmap f)).
  - reflexivity.
  - intros u l. cbn [b_reshape plain]. apply reshape_spec_natural.
  - intros u a b. cbn [b_moveaxis plain]. apply moveaxis_z_natural.
  - intros u p. cbn [b_transpose plain]. apply np_transpose_natural.
Qed.

End Nat.
