(* C01, eighteenth part: what the source does with a NEGATIVE skip_end (outside the documented domain, but deterministic):
   `if skip_end:` is taken, range(skip_end, 0, -1) is empty, nothing is appended - the request is the one with skip_end = 0;
   partial_fold never reads skip_end at all.  (A negative skip_begin is a different matter: see the Example in Props.) *)
From Coq Require Import List Arith Lia Bool ZArith.
From TLV Require Import Base.Shape Base.PyList Base.Tensor Model.Base Model.BaseExt Model.BasePy.
Import ListNotations.

Lemma py_range3_down_empty se : (se <= 0)%Z -> py_range3 se 0 (-1) = [].
Proof.
  intros H. unfold py_range3. change (0 <? -1)%Z with false. change (-1 <? 0)%Z with true. cbv iota.
  replace (se - 0 - -1 - 1)%Z with se by lia. change (- -1)%Z with 1%Z. rewrite Z.div_1_r.
  rewrite Z.max_l by lia. reflexivity.
Qed.

(* l.insert(0, x) puts x in front (used by the per-run tie when the source writes [x] + l instead) *)
Lemma py_insert_0 {X} (l : list X) (x : X) : py_insert l 0 x = x :: l.
Proof.
  unfold py_insert. change (0 <? 0)%Z with false. cbv iota.
  rewrite Z.min_l by lia. destruct l; reflexivity.
Qed.

Section P18.
Context {T : Type} (B : backend T).

Theorem g_partial_unfold_negative_skip_end (t : T) m sb se rav : (se < 0)%Z ->
  g_partial_unfold B t m sb se rav = g_partial_unfold B t m sb 0 rav.
Proof.
  intros H. unfold g_partial_unfold.
  assert (E : Z.eqb se 0 = false) by (apply Z.eqb_neq; lia). rewrite E.
  rewrite py_range3_down_empty by lia. cbn [negb Z.eqb rmapM rbind].
  destruct (if rav then _ else _) as [ns1|]; cbn [rbind]; [|reflexivity].
  destruct (if negb (sb =? 0)%Z then _ else _) as [ns2|]; cbn [rbind]; [|reflexivity].
  rewrite app_nil_r. reflexivity.
Qed.

Theorem g_partial_fold_ignores_skip_end (u : T) m s sb se se' :
  g_partial_fold B u m s sb se = g_partial_fold B u m s sb se'.
Proof. reflexivity. Qed.

Theorem g_partial_tensor_to_vec_negative_skip_end (t : T) sb se : (se < 0)%Z ->
  g_partial_tensor_to_vec B t sb se = g_partial_tensor_to_vec B t sb 0.
Proof. apply g_partial_unfold_negative_skip_end. Qed.

End P18.
