(* C01: the layout convention of unfold / fold pinned by a CONSUMER.  tensorly/tenalg/core_tenalg/n_mode_product.py computes
   the n-mode product as  fold(dot(M, unfold(T, mode)), mode, new_shape);  Model/Tenalg.v (C02, imported read-only) transcribes
   it with the unfold / fold of Model/Base.v.  Here the same composition is made of the STATEMENT-LEVEL functions g_unfold /
   g_fold of Model/BasePy.v on the NumPy backend (signed Python mode): it succeeds, it is the tensor C02's mode_dot returns, and
   its entries are the n-mode product  R[.., j, ..] = sum_i M[j, i] * T[.., i, ..]  - which holds only because unfold puts the
   mode-k fibres in the columns in exactly the order fold reads them back.  Imported by C01 only. *)
From Coq Require Import List Arith ZArith Lia Bool.
From TLV Require Import Base.Shape Base.PyList Base.Tensor Base.BigSum Model.Base Model.BaseExt Model.BasePy
  Proofs.BaseProofs Proofs.BaseProofs9 Model.Tenalg Proofs.TenalgProofs.
Import ListNotations.

Section Consumer.
Context {F : Type} (Op : rops F).
Notation d := (r0 Op).

Theorem mode_dot_is_fold_matmul_unfold (T M : tensor F) (z : Z) (k a b : nat) :
  wf T -> wf M -> norm_axis (ndim T) z = Some k -> 0 < prod (shape T) ->
  shape M = [a; b] -> b = nth k (shape T) 0 -> 0 < a ->
  exists U R,
    g_unfold (plain d) T z = Ok U /\
    g_fold (plain d) (matmul Op M U) z (map Z.of_nat (set_nth k a (shape T))) = Ok R /\
    mode_dot Op T M k false = Ok R /\
    wf R /\ shape R = set_nth k a (shape T) /\
    forall idx, inb (shape R) idx ->
      get d R idx = bsum Op (nth k (shape T) 0) (fun i => rmul Op (get d M [nth k idx 0; i]) (get d T (set_nth k i idx))).
Proof.
  intros WT WM Hn Hpos HsM Hb Ha.
  assert (Hk : k < ndim T).
  { unfold norm_axis in Hn. destruct (_ && _)%bool eqn:E in Hn; [|discriminate]. injection Hn as <-.
    apply andb_prop in E. destruct E as [E1 E2]. apply Z.leb_le in E1. apply Z.ltb_lt in E2.
    assert (0 < Z.of_nat (ndim T))%Z by lia.
    pose proof (Z.mod_pos_bound z (Z.of_nat (ndim T)) H). lia. }
  destruct (mode_dot_matrix_spec Op T M k false a b WT WM Hk Hpos HsM Hb Ha) as (R & HR & WR & HsR & Hget).
  pose proof HR as HR0.
  unfold mode_dot in HR. rewrite HsM in HR.
  assert (Hc : ((k <? ndim T) && (b =? nth k (shape T) 0)) = true).
  { apply andb_true_intro. split; [apply Nat.ltb_lt; exact Hk | apply Nat.eqb_eq; exact Hb]. }
  rewrite Hc in HR.
  assert (Hnr : nrows M = a) by (unfold nrows; rewrite HsM; reflexivity).
  rewrite Hnr in HR.
  destruct (unfold d T k) as [U|] eqn:HU; [|discriminate]. cbn [rbind] in HR.
  exists U, R. repeat split; auto.
  - rewrite g_unfold_eq. unfold unfold_z. rewrite Hn. exact HU.
  - rewrite g_fold_eq. unfold fold_z. rewrite set_nth_length. fold (ndim T). rewrite Hn. exact HR.
Qed.

End Consumer.

(* non-vacuity: a 2x3x2 integer tensor, mode -2 (= 1), a 2x3 matrix *)
Example mode_dot_is_fold_matmul_unfold_nonvacuous :
  let T := mk [2; 3; 2] (map Z.of_nat (seq 0 12)) in
  let M := mk [2; 3] [1; 0; 2; 0; 1; 1]%Z in
  norm_axis (ndim T) (-2)%Z = Some 1 /\ wf T /\ wf M /\ 0 < prod (shape T) /\
  rbind (g_unfold (plain (r0 ZR)) T (-2)%Z) (fun U => g_fold (plain (r0 ZR)) (matmul ZR M U) (-2)%Z [2; 2; 2]%Z)
    = Ok (mk [2; 2; 2] [8; 11; 6; 8; 26; 29; 18; 20]%Z).
Proof. vm_compute. repeat split; auto. lia. Qed.
