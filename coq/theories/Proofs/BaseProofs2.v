(* C01, second part: partial_unfold / partial_fold, matricize. *)
From Coq Require Import List Arith Lia Bool Permutation Sorted.
From TLV Require Import Base.Shape Base.PyList Base.Tensor Model.Base Proofs.BaseProofs.
Import ListNotations.

(* ---------- infer_shape produces a shape of the right size ---------- *)
Lemma prod_fill spec v : prod (fill spec v) = known spec * v ^ count_none spec.
Proof.
  unfold fill, count_none. induction spec as [|o spec IH]; simpl; [lia|].
  destruct o as [n|]; simpl; rewrite IH; lia.
Qed.

Lemma infer_shape_prod total spec s : infer_shape total spec = Ok s -> prod s = total.
Proof.
  unfold infer_shape. destruct (count_none spec) as [|[|k]] eqn:C; try discriminate.
  - destruct (Nat.eqb_spec (known spec) total); [|discriminate]. intros H; injection H as <-.
    rewrite prod_fill, C. simpl. lia.
  - destruct (Nat.eqb_spec (known spec) 0); [discriminate|].
    destruct (Nat.eqb_spec (total mod known spec) 0); [|discriminate]. intros H; injection H as <-.
    rewrite prod_fill, C. simpl. rewrite Nat.mul_1_r.
    symmetry. apply Nat.div_exact; assumption.
Qed.

Section P2.
Context {A : Type} (d : A).
Notation tensor := (tensor A).

Lemma reshape_spec_ok spec (t u : tensor) : reshape_spec spec t = Ok u ->
  data u = data t /\ prod (shape u) = prod (shape t).
Proof.
  unfold reshape_spec. destruct (infer_shape (prod (shape t)) spec) as [s|] eqn:E; simpl; [|discriminate].
  intros H; injection H as <-. split; [reflexivity|]. simpl. eapply infer_shape_prod; eauto.
Qed.

Lemma reshape_data_shape (t u : tensor) s : data u = data t -> reshape s u = reshape s t.
Proof. unfold reshape. now intros ->. Qed.

(* whenever partial_unfold succeeds (ravelled or not), partial_fold inverts it exactly *)
Theorem partial_fold_unfold (t u : tensor) m sb se rav : wf t ->
  partial_unfold d t m sb se rav = Ok u -> partial_fold d u m (shape t) sb se = Ok t.
Proof.
  intros W H. unfold partial_unfold in H.
  destruct ((m + sb <? length (shape t)) && (se <=? length (shape t))) eqn:G; [|discriminate].
  apply andb_prop in G. destruct G as [G1 G2]. apply Nat.ltb_lt in G1.
  apply reshape_spec_ok in H. destruct H as [Hd Hp].
  unfold partial_fold. replace (sb + m) with (m + sb) by lia.
  apply Nat.ltb_lt in G1 as G1'. rewrite G1'.
  set (mv := moveaxis d t (m + sb) sb) in *.
  assert (Hs : insert_at sb (nth (m + sb) (shape t) 0) (remove_nth (m + sb) (shape t)) = shape mv) by reflexivity.
  rewrite Hs. rewrite reshape_spec_all_some by (symmetry; exact Hp).
  cbn [rbind]. f_equal. rewrite (reshape_data_shape mv u) by exact Hd. rewrite reshape_own.
  apply moveaxis_roundtrip; unfold ndim; auto; lia.
Qed.

Theorem partial_unfold_Permutation (t u : tensor) m sb se rav : wf t ->
  partial_unfold d t m sb se rav = Ok u -> Permutation (data u) (data t).
Proof.
  intros W H. unfold partial_unfold in H.
  destruct ((m + sb <? length (shape t)) && (se <=? length (shape t))) eqn:G; [|discriminate].
  apply andb_prop in G. destruct G as [G1 G2]. apply Nat.ltb_lt in G1.
  apply reshape_spec_ok in H. destruct H as [Hd _]. rewrite Hd.
  apply moveaxis_Permutation; unfold ndim; auto; lia.
Qed.

Corollary partial_vec_roundtrip (t u : tensor) sb se : wf t ->
  partial_tensor_to_vec d t sb se = Ok u -> partial_vec_to_tensor d u (shape t) sb se = Ok t.
Proof. intros W H. unfold partial_tensor_to_vec in H. unfold partial_vec_to_tensor. eapply partial_fold_unfold; eauto. Qed.

Lemma skipn_add {B} a b (l : list B) : skipn a (skipn b l) = skipn (b + a) l.
Proof. revert l; induction b; intros l; simpl; [reflexivity|]. destruct l; [now rewrite skipn_nil | apply IHb]. Qed.

Lemma StronglySorted_seq a n : StronglySorted lt (seq a n).
Proof.
  revert a; induction n; intros a; simpl; constructor; [apply IHn|].
  apply Forall_forall. intros k Hk. apply in_seq in Hk. lia.
Qed.
Lemma StronglySorted_filter {B} (R : B -> B -> Prop) f l : StronglySorted R l -> StronglySorted R (filter f l).
Proof.
  induction 1 as [|x l Hs IH Hf]; simpl; [constructor|]. destruct (f x); [|exact IH].
  constructor; [exact IH|]. apply Forall_forall. intros y Hy. apply filter_In in Hy.
  rewrite Forall_forall in Hf. apply Hf. tauto.
Qed.
Lemma StronglySorted_filter_lt f a n : StronglySorted lt (filter f (seq a n)).
Proof. apply StronglySorted_filter, StronglySorted_seq. Qed.

(* success on the documented domain: skip_begin + mode < ndim - skip_end, non-empty index space *)
Lemma firstn_skipn_mid {B} (l : list B) a b : a + b <= length l ->
  l = firstn a l ++ firstn (length l - a - b) (skipn a l) ++ skipn (length l - b) l.
Proof.
  intros H. rewrite <- (firstn_skipn a l) at 1. f_equal.
  rewrite <- (firstn_skipn (length l - a - b) (skipn a l)) at 1. f_equal.
  rewrite skipn_add. f_equal. lia.
Qed.

Lemma prod_nth_divides (l : list nat) k : k < length l -> exists q, prod l = nth k l 0 * q.
Proof. intros H. exists (prod (remove_nth k l)). symmetry. apply prod_remove; exact H. Qed.

Theorem partial_unfold_succeeds (t : tensor) m sb se rav : wf t -> 0 < prod (shape t) ->
  sb + m + se < ndim t -> exists u, partial_unfold d t m sb se rav = Ok u.
Proof.
  intros W Hpos Hdom. unfold ndim in Hdom. unfold partial_unfold.
  assert (G : (m + sb <? length (shape t)) && (se <=? length (shape t)) = true).
  { apply andb_true_intro. split; [apply Nat.ltb_lt | apply Nat.leb_le]; lia. }
  rewrite G. set (s := shape t) in *. set (n := length s) in *.
  set (mv := moveaxis d t (m + sb) sb).
  assert (Hpm : prod (shape mv) = prod s) by (unfold mv; rewrite shape_moveaxis; apply prod_move; lia).
  pose proof (firstn_skipn_mid s sb se ltac:(lia)) as Hdec. fold n in Hdec.
  set (mid := firstn (n - sb - se) (skipn sb s)) in *.
  assert (Lmid : length mid = n - sb - se).
  { unfold mid. rewrite firstn_length, skipn_length. fold n. lia. }
  assert (Hnth : nth (m + sb) s 0 = nth m mid 0).
  { rewrite Hdec at 1. rewrite app_nth2 by (rewrite firstn_length; fold n; lia).
    rewrite firstn_length. fold n. replace (m + sb - Nat.min sb n) with m by lia.
    rewrite app_nth1 by lia. reflexivity. }
  assert (Hprod : prod s = prod (firstn sb s) * prod mid * prod (lastn se s)).
  { rewrite Hdec at 1. rewrite !prod_app. unfold lastn. fold n. lia. }
  destruct (prod_nth_divides mid m ltac:(lia)) as [q Hq].
  unfold reshape_spec. fold mv. rewrite Hpm.
  destruct rav.
  - (* ravelled: one inferred dimension *)
    pose proof (reshape_spec_one_none mv (firstn sb s) (lastn se s)) as R. cbv zeta in R.
    unfold reshape_spec in R. rewrite Hpm in R.
    assert (K0 : prod (firstn sb s) * prod (lastn se s) <> 0) by nia.
    assert (Kd : prod s mod (prod (firstn sb s) * prod (lastn se s)) = 0).
    { rewrite Hprod. replace (prod (firstn sb s) * prod mid * prod (lastn se s)) with (prod mid * (prod (firstn sb s) * prod (lastn se s))) by lia.
      apply Nat.mod_mul. exact K0. }
    specialize (R K0 Kd). cbn [app] in R |- *.
    destruct (infer_shape (prod s) (map Some (firstn sb s) ++ None :: map Some (lastn se s))) as [s'|]; [eexists; reflexivity | discriminate].
  - pose proof (reshape_spec_one_none mv (firstn sb s ++ [nth (m + sb) s 0]) (lastn se s)) as R. cbv zeta in R.
    unfold reshape_spec in R. rewrite Hpm in R.
    rewrite prod_app in R. cbn [prod fold_right] in R.
    assert (K0 : prod (firstn sb s) * (nth (m + sb) s 0 * 1) * prod (lastn se s) <> 0).
    { rewrite Hnth. rewrite Hq in Hprod. nia. }
    assert (Kd : prod s mod (prod (firstn sb s) * (nth (m + sb) s 0 * 1) * prod (lastn se s)) = 0).
    { rewrite Hprod, Hq, Hnth.
      replace (prod (firstn sb s) * (nth m mid 0 * q) * prod (lastn se s)) with (q * (prod (firstn sb s) * (nth m mid 0 * 1) * prod (lastn se s))) by lia.
      apply Nat.mod_mul. rewrite <- Hnth. exact K0. }
    specialize (R K0 Kd). rewrite map_app in R. cbn [map] in R. rewrite <- app_assoc in R. cbn [app] in R |- *.
    destruct (infer_shape (prod s) (map Some (firstn sb s) ++ Some (nth (m + sb) s 0) :: None :: map Some (lastn se s))) as [s'|]; [eexists; reflexivity | discriminate].
Qed.

(* ---------- transpose by a permutation ---------- *)
Lemma scatter_permute p idx : NoDup p -> (forall a, a < length p -> In a p) -> length idx = length p ->
  (forall k, In k p -> k < length p) -> scatter p (permute 0 p idx) = idx.
Proof.
  intros Hnd Hall Hl Hb. unfold scatter.
  apply nth_ext with (d := 0) (d' := 0); [now rewrite map_length, seq_length|].
  intros a Ha. rewrite map_length, seq_length in Ha.
  rewrite (nth_map' _ _ _ 0) by (now rewrite seq_length). rewrite seq_nth by exact Ha. cbn [Nat.add].
  unfold permute. rewrite (nth_map' _ _ _ 0) by (apply index_of_lt; apply Hall; exact Ha).
  now rewrite nth_index_of by (apply Hall; exact Ha).
Qed.

Lemma permute_scatter p idx' : NoDup p -> length idx' = length p -> (forall k, In k p -> k < length p) ->
  permute 0 p (scatter p idx') = idx'.
Proof.
  intros Hnd Hl Hb. unfold permute, scatter.
  apply nth_ext with (d := 0) (d' := 0); [now rewrite map_length|].
  intros j Hj. rewrite map_length in Hj.
  rewrite (nth_map' _ _ _ 0) by exact Hj.
  assert (Hk : nth j p 0 < length p) by (apply Hb; apply nth_In; exact Hj).
  rewrite (nth_map' _ _ _ 0) by (now rewrite seq_length). rewrite seq_nth by exact Hk. cbn [Nat.add].
  now rewrite index_of_nth.
Qed.

Lemma inb_permute s idx p : inb s idx -> (forall k, In k p -> k < length s) -> inb (permute 0 p s) (permute 0 p idx).
Proof.
  intros H Hb. unfold permute. induction p as [|k p IH]; simpl; [exact I|].
  split; [apply inb_nth; [exact H | apply Hb; now left] | apply IH; intros; apply Hb; now right].
Qed.

Lemma inb_nth_all s idx : length idx = length s -> (forall k, k < length s -> nth k idx 0 < nth k s 0) -> inb s idx.
Proof.
  revert idx; induction s as [|x s IH]; intros [|i idx] Hl H; simpl in *; try discriminate; auto.
  split; [apply (H 0); lia|]. apply IH; [lia|]. intros k Hk. apply (H (S k)). lia.
Qed.

Lemma inb_scatter s idx' p : is_permb (length s) p = true -> inb (permute 0 p s) idx' -> inb s (scatter p idx').
Proof.
  intros Hp H. apply is_permb_spec in Hp. destruct Hp as (Hl & Hnd & Hb & Hall).
  assert (Li : length idx' = length p) by (rewrite (inb_length _ _ H); unfold permute; now rewrite map_length).
  apply inb_nth_all; [unfold scatter; rewrite map_length, seq_length; exact Hl|].
  intros a Ha. unfold scatter. rewrite (nth_map' _ _ _ 0) by (rewrite seq_length; lia).
  rewrite seq_nth by lia. cbn [Nat.add].
  assert (Hin : In a p) by (apply Hall; exact Ha).
  pose proof (index_of_lt a p Hin) as Hj.
  pose proof (inb_nth (index_of a p) _ _ H) as Hn. unfold permute in Hn at 1. rewrite map_length in Hn. specialize (Hn Hj).
  unfold permute in Hn. rewrite (nth_map' _ _ _ 0) in Hn by exact Hj. now rewrite nth_index_of in Hn.
Qed.

Lemma get_transpose (t : tensor) p idx : is_permb (ndim t) p = true -> inb (shape t) idx ->
  get d (transpose d p t) (permute 0 p idx) = get d t idx.
Proof.
  intros Hp Hi. unfold ndim in Hp. pose proof (is_permb_spec _ _ Hp) as (Hl & Hnd & Hb & Hall).
  unfold transpose. rewrite get_tabulate by (apply inb_permute; [exact Hi | exact Hb]).
  rewrite scatter_permute; auto; try (rewrite Hl; auto).
  rewrite (inb_length _ _ Hi). lia.
Qed.

Lemma prod_permute_perm s p : is_permb (length s) p = true -> prod (permute 0 p s) = prod s.
Proof.
  intros Hp. apply is_permb_spec in Hp. destruct Hp as (Hl & Hnd & Hb & Hall).
  assert (HP : Permutation p (seq 0 (length s))).
  { apply NoDup_Permutation; [exact Hnd | apply seq_NoDup|]. intros k. rewrite in_seq. split; [intros; split; [lia | cbn; auto] | intros [_ H]; apply Hall; exact H]. }
  assert (E : Permutation (permute 0 p s) s).
  { unfold permute. eapply Permutation_trans; [apply Permutation_map; exact HP|].
    replace (map (fun k => nth k s 0) (seq 0 (length s))) with s; [apply Permutation_refl|].
    apply nth_ext with (d := 0) (d' := 0); [now rewrite map_length, seq_length|].
    intros k Hk. rewrite (nth_map' _ _ _ 0) by (now rewrite seq_length). now rewrite seq_nth. }
  clear -E. induction E; simpl; try lia. 
Qed.

Theorem transpose_Permutation (t : tensor) p : wf t -> is_permb (ndim t) p = true ->
  Permutation (data (transpose d p t)) (data t).
Proof.
  intros W Hp. unfold ndim in Hp. pose proof (is_permb_spec _ _ Hp) as (Hl & Hnd & Hb & Hall).
  unfold transpose. apply tabulate_reindex_perm; auto.
  - apply prod_permute_perm; exact Hp.
  - intros idx H. apply inb_scatter; assumption.
  - intros i j Hi Hj E.
    assert (Li : length i = length p) by (rewrite (inb_length _ _ Hi); unfold permute; now rewrite map_length).
    assert (Lj : length j = length p) by (rewrite (inb_length _ _ Hj); unfold permute; now rewrite map_length).
    rewrite <- (permute_scatter p i) by (auto; rewrite Hl; auto).
    rewrite <- (permute_scatter p j) by (auto; rewrite Hl; auto).
    now rewrite E.
Qed.

(* ---------- matricize ---------- *)
Lemma permute_app {B} (d0 : B) p q (l : list B) : permute d0 (p ++ q) l = permute d0 p l ++ permute d0 q l.
Proof. unfold permute. apply map_app. Qed.

Theorem matricize_layout (t u : tensor) rows cols idx : wf t ->
  matricize d t rows (Some cols) = Ok u -> inb (shape t) idx ->
  shape u = [prod (permute 0 rows (shape t)); prod (permute 0 cols (shape t))] /\
  get d u [ravel (permute 0 rows (shape t)) (permute 0 rows idx); ravel (permute 0 cols (shape t)) (permute 0 cols idx)]
  = get d t idx.
Proof.
  intros W H Hi. unfold matricize in H.
  destruct (is_permb (ndim t) (rows ++ cols)) eqn:Hp; [|discriminate]. injection H as <-.
  split; [reflexivity|].
  rewrite <- (get_transpose t (rows ++ cols) idx Hp Hi).
  unfold get, reshape, transpose. cbn [shape data tabulate]. f_equal.
  rewrite !permute_app. rewrite ravel_app by (unfold permute; now rewrite !map_length).
  cbn [ravel prod fold_right]. lia.
Qed.

Theorem matricize_Permutation (t u : tensor) rows cols : wf t ->
  matricize d t rows cols = Ok u -> Permutation (data u) (data t).
Proof.
  intros W H. unfold matricize in H.
  destruct (is_permb (ndim t) (rows ++ match cols with Some c => c | None => complement (ndim t) rows end)) eqn:Hp; [|discriminate].
  injection H as <-. cbn [reshape data]. apply transpose_Permutation; assumption.
Qed.

(* default column modes = the modes not used as rows, in increasing order *)
Theorem matricize_default (t : tensor) rows :
  matricize d t rows None = matricize d t rows (Some (complement (ndim t) rows)) /\
  StronglySorted lt (complement (ndim t) rows) /\
  (forall k, In k (complement (ndim t) rows) <-> k < ndim t /\ ~ In k rows).
Proof.
  split; [reflexivity|]. unfold complement. split.
  - apply StronglySorted_filter_lt.
  - intros k. rewrite filter_In, in_seq, negb_true_iff. split.
    + intros [[_ H1] H2]. split; [cbn in H1; lia|]. intros Hin. apply memb_In in Hin. congruence.
    + intros [H1 H2]. split; [cbn; lia|]. destruct (memb k rows) eqn:E; [|reflexivity]. apply memb_In in E. contradiction.
Qed.

(* requests whose row+column modes are not a permutation of all modes are rejected *)
Theorem matricize_reject (t : tensor) rows cols :
  ~ (length (rows ++ cols) = ndim t /\ NoDup (rows ++ cols) /\ (forall k, In k (rows ++ cols) -> k < ndim t)) ->
  matricize d t rows (Some cols) = Err.
Proof.
  intros H. unfold matricize. destruct (is_permb (ndim t) (rows ++ cols)) eqn:Hp; [|reflexivity].
  exfalso. apply H. apply is_permb_spec in Hp. tauto.
Qed.

End P2.
