(* C01: the backend calls of base.py as the NumPy backend resolves them (Model/BasePyNp.v): reshape with an int / a sequence,
   transpose with axes=None, shape / ndim.  Imported by C01 only. *)
From Coq Require Import List Arith ZArith Lia Bool Permutation.
From TLV Require Import Base.Shape Base.PyList Base.Tensor Model.Base Model.BaseExt Model.BasePy Model.BasePyNp
  Proofs.BaseProofs Proofs.BaseProofs2 Proofs.BaseProofs4 Proofs.BaseProofs9 Proofs.BaseProofs10 Proofs.BaseProofs11.
Import ListNotations.

(* Python's slices on the documented ranges: l[:k] = the first k, l[k:] = all but the first k, l[-k:] = the last k *)
Lemma py_slice_prefix {X} (l : list X) k : k <= length l -> py_slice l None (Some (Z.of_nat k)) = firstn k l.
Proof.
  intros H. unfold py_slice, py_clip. destruct (Z.of_nat k <? 0)%Z eqn:E; [apply Z.ltb_lt in E; lia|].
  rewrite Z.min_l by lia. rewrite Nat2Z.id, Nat.sub_0_r. reflexivity.
Qed.
Lemma py_slice_suffix {X} (l : list X) k : k <= length l -> py_slice l (Some (Z.of_nat k)) None = skipn k l.
Proof.
  intros H. unfold py_slice, py_clip. destruct (Z.of_nat k <? 0)%Z eqn:E; [apply Z.ltb_lt in E; lia|].
  rewrite Z.min_l by lia. rewrite Nat2Z.id. rewrite <- (skipn_length k l). apply firstn_all.
Qed.
Lemma py_slice_last {X} (l : list X) k : 0 < k <= length l -> py_slice l (Some (- Z.of_nat k)%Z) None = lastn k l.
Proof.
  intros H. unfold py_slice, py_clip. destruct (- Z.of_nat k <? 0)%Z eqn:E; [|apply Z.ltb_ge in E; lia].
  rewrite Z.max_r by lia. replace (Z.to_nat (- Z.of_nat k + Z.of_nat (length l))) with (length l - k) by lia.
  unfold lastn. rewrite <- (skipn_length (length l - k) l). apply firstn_all.
Qed.
Example py_slice_examples :
  py_slice [1; 2; 3; 4] (Some 1%Z) (Some (-1)%Z) = [2; 3] /\ py_slice [1; 2; 3; 4] (Some 3%Z) (Some 1%Z) = [] /\
  py_slice [1; 2; 3; 4] (Some (-9)%Z) (Some 9%Z) = [1; 2; 3; 4] /\ py_slice [1; 2; 3; 4] None (Some (-1)%Z) = [1; 2; 3].
Proof. repeat split. Qed.

(* On the documented ranges the two list comprehensions of partial_unfold ARE slices of the shape (any backend):
   [shape[i] for i in range(sb)] = shape[:sb]  for 0 <= sb <= ndim;  [shape[-i] for i in range(se, 0, -1)] = shape[-se:]  for 0 < se <= ndim *)
Theorem shape_comprehensions_are_slices {T} (B : backend T) (t : T) (sb se : nat) :
  (sb <= length (b_shape B t) ->
   rmapM (fun i => py_getitem (py_shape B t) i) (py_range1 (Z.of_nat sb)) = Ok (py_slice (py_shape B t) None (Some (Z.of_nat sb)))) /\
  (0 < se <= length (b_shape B t) ->
   rmapM (fun i => py_getitem (py_shape B t) (- i)%Z) (py_range3 (Z.of_nat se) 0%Z (-1)%Z) = Ok (py_slice (py_shape B t) (Some (- Z.of_nat se)%Z) None)).
Proof.
  unfold py_shape. split; intros H.
  - rewrite py_range1_nat, (rmapM_getitem_prefix (b_shape B t) sb 0) by lia.
    rewrite py_slice_prefix by (rewrite map_length; lia). cbn [skipn]. rewrite firstn_map. reflexivity.
  - rewrite suffix_ok by lia. rewrite py_slice_last by (rewrite map_length; lia).
    unfold lastn. rewrite map_length, skipn_map. reflexivity.
Qed.

Section NPP.
Context {A : Type} (d : A).
Notation tensor := (tensor A).

(* tl.reshape(t, -1) and tl.reshape(t, (-1,)) are tensor_to_vec; tl.reshape(t, n) with n the number of entries as well *)
Theorem np_reshape_int_minus_one (t : tensor) : np_reshape d t (SInt (-1)%Z) = g_tensor_to_vec (plain d) t.
Proof. reflexivity. Qed.

Theorem np_reshape_int_seq (t : tensor) z : np_reshape d t (SInt z) = np_reshape d t (SSeq [z]).
Proof. reflexivity. Qed.

Theorem np_reshape_seq_is_vec_to_tensor (t : tensor) l : np_reshape d t (SSeq l) = g_vec_to_tensor (plain d) t l.
Proof. reflexivity. Qed.

Theorem np_reshape_int_size (t : tensor) : np_reshape d t (SInt (Z.of_nat (prod (shape t)))) = tensor_to_vec t.
Proof.
  unfold np_reshape, tensor_to_vec, shape_arg_list. cbn [b_reshape plain].
  change [Z.of_nat (prod (shape t))] with (map Z.of_nat [prod (shape t)]). rewrite spec_of_z_nat.
  unfold reshape_spec, infer_shape. cbn [map count_none filter length known fold_right fill].
  rewrite Nat.mul_1_r, Nat.eqb_refl. cbn [Nat.eqb]. rewrite Nat.mod_1_r. cbn [Nat.eqb]. rewrite Nat.div_1_r. reflexivity.
Qed.

(* an int that is neither negative nor the number of entries is rejected *)
Theorem np_reshape_int_ok_iff (t : tensor) z :
  (exists u, np_reshape d t (SInt z) = Ok u) <-> (z < 0 \/ z = Z.of_nat (prod (shape t)))%Z.
Proof.
  unfold np_reshape, shape_arg_list. cbn [b_reshape plain]. unfold spec_of_z. cbn [map].
  destruct (z <? 0)%Z eqn:E.
  - apply Z.ltb_lt in E. split; [intros _; left; exact E|intros _].
    unfold reshape_spec, infer_shape. cbn [count_none filter length known fold_right fill map].
    cbn [Nat.eqb]. rewrite Nat.mod_1_r. cbn [Nat.eqb rbind]. eexists; reflexivity.
  - apply Z.ltb_ge in E. unfold reshape_spec, infer_shape. cbn [count_none filter length known fold_right fill map].
    rewrite Nat.mul_1_r. destruct (Nat.eqb (Z.to_nat z) (prod (shape t))) eqn:E2.
    + apply Nat.eqb_eq in E2. split; [intros _; right; lia | intros _; cbn [rbind]; eexists; reflexivity].
    + apply Nat.eqb_neq in E2. split; [intros [u Hu]; discriminate | intros [H|H]; [lia | exfalso; apply E2; rewrite H; apply Nat2Z.id]].
Qed.

(* ---------- transpose with axes=None ---------- *)
Lemma index_of_rev_seq : forall n a, a < n -> index_of a (rev (seq 0 n)) = n - 1 - a.
Proof.
  induction n as [|n IH]; intros a Ha; [lia|].
  rewrite seq_S, rev_app_distr. cbn [rev app index_of plus].
  destruct (Nat.eqb n a) eqn:E.
  - apply Nat.eqb_eq in E. lia.
  - apply Nat.eqb_neq in E. rewrite IH by lia. lia.
Qed.

Lemma inv_perm_rev_seq n : inv_perm (rev (seq 0 n)) = rev (seq 0 n).
Proof.
  unfold inv_perm. rewrite rev_length, seq_length.
  apply nth_ext with (d := 0) (d' := 0).
  - rewrite map_length, rev_length. reflexivity.
  - intros i Hi. rewrite map_length, seq_length in Hi.
    rewrite nth_map' with (d := 0) by (rewrite seq_length; exact Hi).
    rewrite seq_nth by exact Hi. cbn [plus]. rewrite index_of_rev_seq by exact Hi.
    rewrite rev_nth by (rewrite seq_length; exact Hi). rewrite seq_length, seq_nth by lia. lia.
Qed.

Lemma is_permb_rev_seq n : is_permb n (rev (seq 0 n)) = true.
Proof. apply is_permb_of_Permutation. symmetry. apply Permutation_rev. Qed.

Lemma rev_range1 n : rev (py_range1 (Z.of_nat n)) = map Z.of_nat (rev (seq 0 n)).
Proof. rewrite py_range1_nat, map_rev. reflexivity. Qed.

Lemma forallb_rev_seq n : forallb (fun k => k <? n) (rev (seq 0 n)) = true.
Proof.
  apply forallb_forall. intros k Hk. apply in_rev in Hk. apply in_seq in Hk. apply Nat.ltb_lt. lia.
Qed.

(* never rejected; the result is the index-level transposition by the reversed axes *)
Theorem np_transpose_none (t : tensor) : np_transpose_opt d t None = Ok (transpose d (rev (seq 0 (ndim t))) t).
Proof.
  unfold np_transpose_opt. cbn [b_transpose plain]. unfold np_transpose.
  rewrite rev_range1, norm_axes_nat by apply forallb_rev_seq. rewrite is_permb_rev_seq. reflexivity.
Qed.

Lemma ndim_transpose_rev (t : tensor) : ndim (transpose d (rev (seq 0 (ndim t))) t) = ndim t.
Proof.
  unfold ndim at 1. cbn [transpose tabulate shape]. unfold permute. rewrite map_length, rev_length, seq_length. reflexivity.
Qed.

(* transposing twice with axes=None gives back the original tensor *)
Theorem np_transpose_none_involution (t : tensor) : wf t ->
  rbind (np_transpose_opt d t None) (fun u => np_transpose_opt d u None) = Ok t.
Proof.
  intros W. rewrite np_transpose_none. cbn [rbind]. rewrite np_transpose_none, ndim_transpose_rev.
  f_equal. rewrite <- (inv_perm_rev_seq (ndim t)) at 1. apply transpose_inverse; [exact W | apply is_permb_rev_seq].
Qed.

Theorem np_transpose_some (t : tensor) p : np_transpose_opt d t (Some p) = b_transpose (plain d) t p.
Proof. reflexivity. Qed.

(* the reversed-axes transposition is matricize with every mode as a row, in reverse order, up to the final reshape:
   shape and entry formula *)
Theorem np_transpose_none_layout (t u : tensor) idx : wf t -> np_transpose_opt d t None = Ok u -> inb (shape t) idx ->
  shape u = rev (shape t) /\ get d u (rev idx) = get d t idx.
Proof.
  intros W H Hi. rewrite np_transpose_none in H. assert (Hu : transpose d (rev (seq 0 (ndim t))) t = u) by congruence. clear H. subst u.
  assert (HP : forall {X} (dflt : X) (l : list X), length l = ndim t -> permute dflt (rev (seq 0 (ndim t))) l = rev l).
  { intros X dflt l Hl. unfold permute. apply nth_ext with (d := dflt) (d' := dflt).
    - rewrite map_length, !rev_length, seq_length. auto.
    - intros i Hi'. rewrite map_length, rev_length, seq_length in Hi'.
      rewrite nth_map' with (d := 0) by (rewrite rev_length, seq_length; exact Hi').
      rewrite rev_nth by (rewrite seq_length; exact Hi'). rewrite seq_length, seq_nth by lia.
      rewrite rev_nth by lia. rewrite Hl. f_equal. }
  split.
  - cbn [transpose tabulate shape]. apply HP. reflexivity.
  - assert (Li : length idx = ndim t) by (apply (inb_length _ _ Hi)).
    rewrite <- (HP _ 0 idx Li).
    apply get_transpose; auto. apply is_permb_rev_seq.
Qed.

Theorem np_ndim_is_len_shape (t : tensor) : np_ndim d t = Z.of_nat (length (np_shape d t)).
Proof. unfold np_ndim, np_shape, py_ndim, py_shape. rewrite map_length. reflexivity. Qed.

End NPP.
