(* C01: unfold is the matricization with the single row mode m and the default (ascending) columns.  Imported by C01 only. *)
From Coq Require Import List Arith Lia Bool Permutation ZArith.
From TLV Require Import Base.Shape Base.PyList Base.Tensor Model.Base Model.BaseExt
  Model.BasePy Proofs.BaseProofs Proofs.BaseProofs2 Proofs.BaseProofs3 Proofs.BaseProofs4 Proofs.BaseProofs9 Proofs.BaseProofs11 Proofs.BaseProofs14 Proofs.BaseProofs18.
Import ListNotations.

Lemma filter_all_true {X} (f : X -> bool) (l : list X) : (forall x, In x l -> f x = true) -> filter f l = l.
Proof.
  induction l as [|x l IH]; intros H; [reflexivity|]. cbn [filter]. rewrite (H x (or_introl eq_refl)).
  f_equal. apply IH. intros y Hy. apply H. right. exact Hy.
Qed.

Lemma complement_single_gen : forall n a m, m < n ->
  filter (fun i => negb (memb i [a + m])) (seq a n) = remove_nth m (seq a n).
Proof.
  induction n as [|n IH]; intros a m Hm; [lia|]. cbn [seq filter memb].
  destruct m as [|m].
  - rewrite Nat.add_0_r, Nat.eqb_refl. cbn [orb negb remove_nth].
    apply filter_all_true. intros x Hx. apply in_seq in Hx.
    destruct (Nat.eqb a x) eqn:E; [apply Nat.eqb_eq in E; lia | reflexivity].
  - destruct (Nat.eqb (a + S m) a) eqn:E; [apply Nat.eqb_eq in E; lia|]. cbn [orb negb remove_nth]. f_equal.
    replace (a + S m) with (S a + m) by lia. apply (IH (S a) m). lia.
Qed.

Lemma complement_single n m : m < n -> complement n [m] = remove_nth m (seq 0 n).
Proof. intros H. unfold complement. exact (complement_single_gen n 0 m H). Qed.

Section UM.
Context {A : Type} (d : A).
Notation tensor := (tensor A).

Theorem unfold_is_matricize (t : tensor) m : m < ndim t -> nth m (shape t) 0 <> 0 ->
  unfold d t m = matricize d t [m] None.
Proof.
  intros Hm Hn. rewrite (unfold_eq_gen d t m Hm Hn).
  unfold matricize. rewrite (complement_single (ndim t) m Hm).
  change ([m] ++ remove_nth m (seq 0 (ndim t))) with (move_perm (ndim t) m 0).
  rewrite (is_permb_of_Permutation _ _ (move_perm_Permutation (ndim t) m 0 Hm)).
  assert (H0 : 0 < ndim t) by lia.
  rewrite <- (moveaxis_generic_eq d t m 0 Hm H0). unfold moveaxis_generic. fold (move_perm (ndim t) m 0).
  pose proof (permute_move_perm 0 (shape t) m 0) as HP. fold (ndim t) in HP. cbn [insert_at] in HP.
  change (move_perm (ndim t) m 0) with ([m] ++ remove_nth m (seq 0 (ndim t))) in HP.
  rewrite permute_app in HP. cbn [permute map app] in HP. injection HP as HP.
  rewrite HP. assert (E : prod (permute 0 [m] (shape t)) = nth m (shape t) 0).
  { unfold permute. cbn [map]. unfold prod. cbn [fold_right]. lia. }
  rewrite E. reflexivity.
Qed.

(* the same at statement level, NumPy backend: tl.unfold(t, m) = matricize(t, m) = matricize(t, [m]) (bare int accepted) *)
Theorem g_unfold_is_g_matricize (t : tensor) m : m < ndim t -> nth m (shape t) 0 <> 0 ->
  g_unfold (plain d) t (Z.of_nat m) = g_matricize (plain d) t (PInt (Z.of_nat m)) None /\
  g_unfold (plain d) t (Z.of_nat m) = g_matricize (plain d) t (PSeq [Z.of_nat m]) None.
Proof.
  intros Hm Hn.
  assert (E : g_unfold (plain d) t (Z.of_nat m) = g_matricize (plain d) t (PSeq [Z.of_nat m]) None).
  { rewrite g_unfold_eq. unfold unfold_z. rewrite (norm_axis_nonneg (ndim t) m Hm).
    rewrite (unfold_is_matricize t m Hm Hn). symmetry. exact (g_matricize_eq d t [m] None). }
  split; [|exact E]. rewrite E. exact (proj1 (g_matricize_bare_int (plain d) t (Z.of_nat m) (PSeq []) None)).
Qed.

End UM.

Example unfold_is_matricize_nonvacuous :
  let t := mk [2; 3; 2] (seq 0 12) in
  1 < ndim t /\ nth 1 (shape t) 0 <> 0 /\ unfold 0 t 1 = Ok (mk [3; 4] [0; 1; 6; 7; 2; 3; 8; 9; 4; 5; 10; 11]).
Proof. cbv zeta. split; [cbn; lia|]. split; [cbn; lia|]. vm_compute. reflexivity. Qed.
