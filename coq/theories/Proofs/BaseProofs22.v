(* C01, round 9: the bijections are injective -- two well-formed tensors of one shape with the same unfolding (vectorisation)
   are the same tensor.  Corollaries of the round trips (BaseProofs3 / BaseProofs); the shape hypothesis is necessary
   (see the Example in Props/C01.v: shapes [2;3;2] and [2;2;3] share their mode-0 unfolding). *)
From Coq Require Import List Arith Permutation ZArith.
From TLV Require Import Base.Shape Base.PyList Base.Tensor Model.Base Model.BaseExt Proofs.BaseProofs Proofs.BaseProofs2 Proofs.BaseProofs3 Proofs.BaseProofs4.
Import ListNotations.

Lemma unfold_injective : forall (A : Type) (d : A) (t t' : tensor A) (m : nat) (u : tensor A),
  wf t -> wf t' -> shape t = shape t' -> m < ndim t -> nth m (shape t) 0 <> 0 ->
  unfold d t m = Ok u -> unfold d t' m = Ok u -> t = t'.
Proof.
  intros A d t t' m u Hw Hw' Hs Hm Hn Hu Hu'.
  pose proof (@fold_unfold_gen A d t m Hw Hm Hn) as H1.
  assert (Hm' : m < ndim t') by (unfold ndim in *; rewrite <- Hs; exact Hm).
  assert (Hn' : nth m (shape t') 0 <> 0) by (rewrite <- Hs; exact Hn).
  pose proof (@fold_unfold_gen A d t' m Hw' Hm' Hn') as H2.
  rewrite Hu in H1. rewrite Hu' in H2. cbn [rbind] in H1, H2. rewrite <- Hs in H2. congruence.
Qed.

Lemma vec_injective : forall (A : Type) (t t' v : tensor A),
  wf t -> wf t' -> shape t = shape t' ->
  tensor_to_vec t = Ok v -> tensor_to_vec t' = Ok v -> t = t'.
Proof.
  intros A t t' v Hw Hw' Hs Hv Hv'.
  pose proof (@vec_roundtrip A t Hw) as H1. pose proof (@vec_roundtrip A t' Hw') as H2.
  rewrite Hv in H1. rewrite Hv' in H2. cbn [rbind] in H1, H2. rewrite <- Hs in H2. congruence.
Qed.

(* the partial variants and matricize: same argument from partial_fold_unfold, partial_vec_roundtrip, matricize_inverse *)
Lemma partial_unfold_injective : forall (A : Type) (d : A) (t t' u : tensor A) (m sb se : nat) (rav : bool),
  wf t -> wf t' -> shape t = shape t' ->
  partial_unfold d t m sb se rav = Ok u -> partial_unfold d t' m sb se rav = Ok u -> t = t'.
Proof.
  intros A d t t' u m sb se rav Hw Hw' Hs Hu Hu'.
  pose proof (@partial_fold_unfold A d t u m sb se rav Hw Hu) as H1.
  pose proof (@partial_fold_unfold A d t' u m sb se rav Hw' Hu') as H2.
  rewrite <- Hs in H2. congruence.
Qed.
Lemma partial_vec_injective : forall (A : Type) (d : A) (t t' u : tensor A) (sb se : nat),
  wf t -> wf t' -> shape t = shape t' ->
  partial_tensor_to_vec d t sb se = Ok u -> partial_tensor_to_vec d t' sb se = Ok u -> t = t'.
Proof.
  intros A d t t' u sb se Hw Hw' Hs Hu Hu'.
  pose proof (@partial_vec_roundtrip A d t u sb se Hw Hu) as H1.
  pose proof (@partial_vec_roundtrip A d t' u sb se Hw' Hu') as H2.
  rewrite <- Hs in H2. congruence.
Qed.
Lemma matricize_injective : forall (A : Type) (d : A) (t t' u : tensor A) (rows : list nat) (cols : option (list nat)),
  wf t -> wf t' -> shape t = shape t' ->
  matricize d t rows cols = Ok u -> matricize d t' rows cols = Ok u -> t = t'.
Proof.
  intros A d t t' u rows cols Hw Hw' Hs Hu Hu'.
  pose proof (@matricize_inverse A d t u rows cols Hw Hu) as H1.
  pose proof (@matricize_inverse A d t' u rows cols Hw' Hu') as H2.
  cbv zeta in H1, H2. unfold ndim in H1, H2. rewrite <- Hs in H2. congruence.
Qed.
