(* C01, round 9: injectivity in the second direction -- fold, vec_to_tensor and partial_fold lose nothing either
   (corollaries of unfold_fold, vec_unvec_roundtrip, partial_unfold_fold). *)
From Coq Require Import List Arith Permutation ZArith.
From TLV Require Import Base.Shape Base.PyList Base.Tensor Model.Base Model.BaseExt Proofs.BaseProofs Proofs.BaseProofs2 Proofs.BaseProofs3 Proofs.BaseProofs4 Proofs.BaseProofs5 Proofs.BaseProofs6 Proofs.BaseProofs7 Proofs.BaseProofs8 Proofs.BaseProofs9 Proofs.BaseProofs10 Proofs.BaseProofs11 Proofs.BaseProofs12 Proofs.BaseProofs13 Proofs.BaseProofs14 Proofs.BaseProofs15 Proofs.BaseProofs16 Proofs.BaseProofs17 Proofs.BaseProofs18 Proofs.BaseProofs19 Proofs.BaseProofs20 Proofs.BaseProofs21.
Import ListNotations.
Lemma fold_injective : forall (A : Type) (d : A) (u u' t : tensor A) (m : nat) (s : list nat),
  wf u -> wf u' -> m < length s -> nth m s 0 <> 0 ->
  shape u = [nth m s 0; prod (remove_nth m s)] -> shape u' = [nth m s 0; prod (remove_nth m s)] ->
  fold d u m s = Ok t -> fold d u' m s = Ok t -> u = u'.
Proof.
  intros A d u u' t m s Hw Hw' Hm Hn Hs Hs' Hf Hf'.
  pose proof (@unfold_fold A d u m s Hw Hm Hn Hs) as H1.
  pose proof (@unfold_fold A d u' m s Hw' Hm Hn Hs') as H2.
  rewrite Hf in H1. rewrite Hf' in H2. cbn [rbind] in H1, H2. congruence.
Qed.
Lemma vec_to_tensor_injective : forall (A : Type) (v v' t : tensor A) (s : list nat),
  shape v = [prod s] -> shape v' = [prod s] ->
  vec_to_tensor v s = Ok t -> vec_to_tensor v' s = Ok t -> v = v'.
Proof.
  intros A v v' t s Hs Hs' Hf Hf'.
  pose proof (@vec_unvec_roundtrip A v s Hs) as H1.
  pose proof (@vec_unvec_roundtrip A v' s Hs') as H2.
  rewrite Hf in H1. rewrite Hf' in H2. cbn [rbind] in H1, H2. congruence.
Qed.
Lemma partial_fold_injective : forall (A : Type) (d : A) (u u' t : tensor A) (m : nat) (s : list nat) (sb se : nat) (rav : bool),
  wf u -> wf u' -> sb + m + se < length s ->
  let mids := firstn (length s - sb - se) (skipn sb s) in
  let su := firstn sb s ++ (if rav then [nth m mids 0 * prod (remove_nth m mids)]
                            else [nth m mids 0; prod (remove_nth m mids)]) ++ lastn se s in
  shape u = su -> shape u' = su ->
  prod (firstn sb s) * (if rav then 1 else nth (m + sb) s 0) * prod (lastn se s) <> 0 ->
  partial_fold d u m s sb se = Ok t -> partial_fold d u' m s sb se = Ok t -> u = u'.
Proof.
  intros A d u u' t m s sb se rav Hw Hw' Hm mids su Hs Hs' Hn Hf Hf'.
  pose proof (@partial_unfold_fold A d u m s sb se rav Hw Hm Hs Hn) as H1.
  pose proof (@partial_unfold_fold A d u' m s sb se rav Hw' Hm Hs' Hn) as H2.
  rewrite Hf in H1. rewrite Hf' in H2. cbn [rbind] in H1, H2. congruence.
Qed.

(* surjectivity: every matrix (vector) of the accepted shape IS the unfolding (vectorisation) of the tensor fold (vec_to_tensor) makes of it *)
Lemma unfold_surjective : forall (A : Type) (d : A) (u : tensor A) (m : nat) (s : list nat),
  wf u -> m < length s -> nth m s 0 <> 0 -> shape u = [nth m s 0; prod (remove_nth m s)] ->
  exists t, fold d u m s = Ok t /\ unfold d t m = Ok u.
Proof.
  intros A d u m s Hw Hm Hn Hs. pose proof (@unfold_fold A d u m s Hw Hm Hn Hs) as H.
  destruct (fold d u m s) as [t|]; cbn [rbind] in H; [exists t; split; [reflexivity|exact H]|discriminate].
Qed.
Lemma vec_surjective : forall (A : Type) (v : tensor A) (s : list nat),
  shape v = [prod s] -> exists t, vec_to_tensor v s = Ok t /\ tensor_to_vec t = Ok v.
Proof.
  intros A v s Hs. pose proof (@vec_unvec_roundtrip A v s Hs) as H.
  destruct (vec_to_tensor v s) as [t|]; cbn [rbind] in H; [exists t; split; [reflexivity|exact H]|discriminate].
Qed.

(* the backend primitives the nine functions are built from lose nothing either *)
Lemma transpose_injective : forall (A : Type) (d : A) (t t' : tensor A) (p : list nat),
  wf t -> wf t' -> is_permb (ndim t) p = true -> is_permb (ndim t') p = true ->
  transpose d p t = transpose d p t' -> t = t'.
Proof.
  intros A d t t' p Hw Hw' Hp Hp' H.
  rewrite <- (@transpose_inverse A d t p Hw Hp), <- (@transpose_inverse A d t' p Hw' Hp'), H. reflexivity.
Qed.
Lemma moveaxis_injective : forall (A : Type) (d : A) (t t' : tensor A) (a b : nat),
  wf t -> wf t' -> a < ndim t -> b < ndim t -> a < ndim t' -> b < ndim t' ->
  moveaxis d t a b = moveaxis d t' a b -> t = t'.
Proof.
  intros A d t t' a b Hw Hw' Ha Hb Ha' Hb' H.
  rewrite <- (@moveaxis_roundtrip A d t a b Hw Ha Hb), <- (@moveaxis_roundtrip A d t' a b Hw' Ha' Hb'), H. reflexivity.
Qed.
