(* C01, third part: exact success domains (size-0 modes), unfold-after-fold, signed modes,
   the generic Backend.moveaxis, the inverse of matricize. *)
From Coq Require Import List Arith Lia Bool Permutation ZArith.
From TLV Require Import Base.Shape Base.PyList Base.Tensor Model.Base Model.BaseExt Proofs.BaseProofs Proofs.BaseProofs2.
Import ListNotations.

(* ---------- reshape with one inferred dimension: the error branch ---------- *)
Lemma count_none_one (pre post : list nat) : count_none (map Some pre ++ [None] ++ map Some post) = 1.
Proof.
  unfold count_none. rewrite !filter_app, !app_length.
  assert (Z : forall l : list nat, length (filter (fun o : option nat => match o with None => true | _ => false end) (map Some l)) = 0)
    by (induction l; simpl; auto).
  rewrite !Z. reflexivity.
Qed.

Section P3.
Context {A : Type} (d : A).
Notation tensor := (tensor A).

(* NumPy: "cannot reshape array of size 0 into shape (0, newaxis)" *)
Lemma reshape_spec_one_none_zero (t : tensor) pre post : prod pre * prod post = 0 ->
  reshape_spec (map Some pre ++ [None] ++ map Some post) t = Err.
Proof.
  intros H. unfold reshape_spec, infer_shape. rewrite count_none_one, known_one_none, H. reflexivity.
Qed.

Lemma reshape_spec_one_none_iff (t : tensor) pre post : prod (shape t) mod (prod pre * prod post) = 0 ->
  (exists u, reshape_spec (map Some pre ++ [None] ++ map Some post) t = Ok u) <-> prod pre * prod post <> 0.
Proof.
  intros Hm. split.
  - intros [u Hu] H0. rewrite reshape_spec_one_none_zero in Hu by exact H0. discriminate.
  - intros H0. eexists. apply reshape_spec_one_none; assumption.
Qed.

(* ---------- unfold / fold on every shape, size-0 modes included ---------- *)
Lemma unfold_eq_gen (t : tensor) m : m < ndim t -> nth m (shape t) 0 <> 0 ->
  unfold d t m = Ok (reshape [nth m (shape t) 0; prod (remove_nth m (shape t))] (moveaxis d t m 0)).
Proof.
  intros Hm Hn. unfold unfold. apply Nat.ltb_lt in Hm as Hm'. rewrite Hm'. unfold ndim in Hm.
  pose proof (prod_remove m (shape t) Hm) as Hp.
  set (t1 := moveaxis d t m 0).
  assert (Hps : prod (shape t1) = prod (shape t)) by (unfold t1; rewrite shape_moveaxis; apply prod_move; exact Hm).
  change [Some (nth m (shape t) 0); None] with (map Some [nth m (shape t) 0] ++ [None] ++ map Some []).
  assert (Hk : prod [nth m (shape t) 0] * prod [] = nth m (shape t) 0) by (cbn [prod fold_right]; lia).
  rewrite reshape_spec_one_none.
  - rewrite Hk, Hps. cbn [app]. rewrite <- Hp. rewrite Nat.mul_comm. rewrite Nat.div_mul by auto. reflexivity.
  - rewrite Hk. exact Hn.
  - rewrite Hk, Hps. rewrite <- Hp. rewrite Nat.mul_comm. apply Nat.mod_mul; auto.
Qed.

(* the exact guard of unfold: the mode exists and is not empty (other modes may be empty) *)
Theorem unfold_ok_iff (t : tensor) m :
  (exists u, unfold d t m = Ok u) <-> m < ndim t /\ nth m (shape t) 0 <> 0.
Proof.
  split.
  - intros [u Hu]. unfold unfold in Hu. destruct (Nat.ltb_spec m (ndim t)) as [Hm|Hm]; [|discriminate].
    split; [exact Hm|]. intros H0.
    change [Some (nth m (shape t) 0); None] with (map Some [nth m (shape t) 0] ++ [None] ++ map Some []) in Hu.
    rewrite reshape_spec_one_none_zero in Hu; [discriminate|]. cbn [prod fold_right]. lia.
  - intros [Hm Hn]. eexists. apply unfold_eq_gen; assumption.
Qed.

Theorem unfold_empty_mode_rejected (t : tensor) m : m < ndim t -> nth m (shape t) 0 = 0 -> unfold d t m = Err.
Proof.
  intros Hm H0. destruct (unfold d t m) as [u|] eqn:E; [|reflexivity].
  exfalso. assert (H : exists u, unfold d t m = Ok u) by (eexists; exact E).
  apply unfold_ok_iff in H. tauto.
Qed.

Theorem fold_unfold_gen (t : tensor) m : wf t -> m < ndim t -> nth m (shape t) 0 <> 0 ->
  rbind (unfold d t m) (fun u => fold d u m (shape t)) = Ok t.
Proof.
  intros W Hm Hn. rewrite unfold_eq_gen by assumption. cbn [rbind]. unfold fold.
  apply Nat.ltb_lt in Hm as Hm'. unfold ndim in *. rewrite Hm'.
  pose proof (prod_remove m (shape t) Hm) as Hp.
  rewrite reshape_spec_all_some by (unfold reshape; cbn [shape]; change (prod (nth m (shape t) 0 :: remove_nth m (shape t))) with (nth m (shape t) 0 * prod (remove_nth m (shape t))); change (prod [nth m (shape t) 0; prod (remove_nth m (shape t))]) with (nth m (shape t) 0 * (prod (remove_nth m (shape t)) * 1)); lia).
  cbn [rbind]. f_equal. rewrite reshape_reshape.
  assert (Hs : nth m (shape t) 0 :: remove_nth m (shape t) = shape (moveaxis d t m 0))
    by (rewrite shape_moveaxis, insert_at_0; reflexivity).
  rewrite Hs, reshape_own.
  apply moveaxis_roundtrip; unfold ndim; auto; lia.
Qed.

(* whenever unfold succeeds, fold returns the original tensor *)
Theorem fold_unfold_ok (t u : tensor) m : wf t -> unfold d t m = Ok u -> fold d u m (shape t) = Ok t.
Proof.
  intros W Hu. assert (H : exists u, unfold d t m = Ok u) by (eexists; exact Hu).
  apply unfold_ok_iff in H. destruct H as [Hm Hn].
  pose proof (fold_unfold_gen t m W Hm Hn) as R. rewrite Hu in R. exact R.
Qed.

Theorem unfold_layout_gen (t : tensor) m u idx : wf t -> unfold d t m = Ok u -> inb (shape t) idx ->
  shape u = [nth m (shape t) 0; prod (remove_nth m (shape t))] /\
  get d u [nth m idx 0; ravel (remove_nth m (shape t)) (remove_nth m idx)] = get d t idx.
Proof.
  intros W Hu Hi. apply (unfold_layout d t m u idx); auto.
  - assert (H : exists u, unfold d t m = Ok u) by (eexists; exact Hu). apply unfold_ok_iff in H. tauto.
  - eapply inb_pos; exact Hi.
Qed.

Theorem unfold_Permutation_gen (t : tensor) m u : wf t -> unfold d t m = Ok u -> Permutation (data u) (data t).
Proof.
  intros W Hu. unfold unfold in Hu. destruct (Nat.ltb_spec m (ndim t)) as [Hm|Hm]; [|discriminate].
  apply reshape_spec_ok in Hu. destruct Hu as [Hd _]. rewrite Hd.
  apply moveaxis_Permutation; auto. unfold ndim in *; lia.
Qed.

(* unfold after fold: a matrix of the unfolded shape is recovered exactly *)
Theorem unfold_fold (u : tensor) m s : wf u -> m < length s -> nth m s 0 <> 0 ->
  shape u = [nth m s 0; prod (remove_nth m s)] ->
  rbind (fold d u m s) (fun t => unfold d t m) = Ok u.
Proof.
  intros W Hm Hn Hs. unfold fold. apply Nat.ltb_lt in Hm as Hm'. rewrite Hm'.
  rewrite reshape_spec_all_some by (rewrite Hs; unfold prod; cbn [fold_right]; lia).
  cbn [rbind].
  set (r := reshape (nth m s 0 :: remove_nth m s) u).
  assert (Wr : wf r).
  { unfold r. apply wf_reshape; [exact W|]. rewrite Hs. unfold prod; cbn [fold_right]. lia. }
  assert (Lr : ndim r = length s).
  { unfold r, ndim, reshape. cbn [shape length]. rewrite remove_nth_length by exact Hm. lia. }
  assert (St : shape (moveaxis d r 0 m) = s).
  { rewrite shape_moveaxis. unfold r, reshape. cbn [shape nth remove_nth]. apply insert_remove. exact Hm. }
  rewrite unfold_eq_gen; [| unfold ndim; rewrite St; exact Hm | rewrite St; exact Hn].
  rewrite St. f_equal.
  rewrite moveaxis_roundtrip by (auto; rewrite Lr; lia).
  unfold r. rewrite reshape_reshape. destruct u as [su du]. cbn [shape] in Hs. subst su. reflexivity.
Qed.

(* ---------- signed modes ---------- *)
Lemma norm_axis_some n m k : norm_axis n m = Some k -> k < n /\ (- Z.of_nat n <= m < Z.of_nat n)%Z /\ Z.of_nat k = (m mod Z.of_nat n)%Z.
Proof.
  unfold norm_axis. destruct ((- Z.of_nat n <=? m) && (m <? Z.of_nat n))%Z eqn:E; [|discriminate].
  apply andb_prop in E. destruct E as [E1 E2]. apply Z.leb_le in E1. apply Z.ltb_lt in E2.
  intros H. injection H as <-.
  assert (Hn : (0 < Z.of_nat n)%Z) by lia.
  pose proof (Z.mod_pos_bound m (Z.of_nat n) Hn) as B.
  repeat split; try lia; rewrite Z2Nat.id; lia.
Qed.

Lemma norm_axis_nonneg n m : m < n -> norm_axis n (Z.of_nat m) = Some m.
Proof.
  intros H. unfold norm_axis.
  assert (E : ((- Z.of_nat n <=? Z.of_nat m) && (Z.of_nat m <? Z.of_nat n))%Z = true).
  { apply andb_true_intro. split; [apply Z.leb_le | apply Z.ltb_lt]; lia. }
  rewrite E. f_equal. rewrite Z.mod_small by lia. apply Nat2Z.id.
Qed.

Lemma norm_axis_neg n m : 0 < m <= n -> norm_axis n (- Z.of_nat m) = Some (n - m).
Proof.
  intros H. unfold norm_axis.
  assert (E : ((- Z.of_nat n <=? - Z.of_nat m) && (- Z.of_nat m <? Z.of_nat n))%Z = true).
  { apply andb_true_intro. split; [apply Z.leb_le | apply Z.ltb_lt]; lia. }
  rewrite E. f_equal.
  replace (- Z.of_nat m)%Z with (Z.of_nat (n - m) + (-1) * Z.of_nat n)%Z by lia.
  rewrite Z.mod_add by lia. rewrite Z.mod_small by lia. apply Nat2Z.id.
Qed.

Lemma norm_axis_out n m : (m < - Z.of_nat n \/ Z.of_nat n <= m)%Z -> norm_axis n m = None.
Proof.
  intros H. unfold norm_axis.
  destruct ((- Z.of_nat n <=? m) && (m <? Z.of_nat n))%Z eqn:E; [|reflexivity].
  apply andb_prop in E. destruct E as [E1 E2]. apply Z.leb_le in E1. apply Z.ltb_lt in E2. lia.
Qed.

(* Python's mode -j is mode ndim-j; anything outside -ndim..ndim-1 is rejected *)
Theorem unfold_z_spec (t : tensor) :
  (forall m, m < ndim t -> unfold_z d t (Z.of_nat m) = unfold d t m) /\
  (forall j, 0 < j <= ndim t -> unfold_z d t (- Z.of_nat j) = unfold d t (ndim t - j)) /\
  (forall z, (z < - Z.of_nat (ndim t) \/ Z.of_nat (ndim t) <= z)%Z -> unfold_z d t z = Err).
Proof.
  unfold unfold_z. repeat split; intros.
  - now rewrite norm_axis_nonneg.
  - now rewrite norm_axis_neg.
  - now rewrite norm_axis_out.
Qed.

Theorem fold_z_spec (u : tensor) s :
  (forall m, m < length s -> fold_z d u (Z.of_nat m) s = fold d u m s) /\
  (forall j, 0 < j <= length s -> fold_z d u (- Z.of_nat j) s = fold d u (length s - j) s) /\
  (forall z, (z < - Z.of_nat (length s) \/ Z.of_nat (length s) <= z)%Z -> fold_z d u z s = Err).
Proof.
  unfold fold_z. repeat split; intros.
  - now rewrite norm_axis_nonneg.
  - now rewrite norm_axis_neg.
  - now rewrite norm_axis_out.
Qed.

(* for every signed mode and every shape: whenever unfold succeeds, fold with the same mode inverts it *)
Theorem fold_unfold_z (t u : tensor) z : wf t -> unfold_z d t z = Ok u -> fold_z d u z (shape t) = Ok t.
Proof.
  intros W H. unfold unfold_z in H. unfold fold_z. unfold ndim in H.
  destruct (norm_axis (length (shape t)) z) as [k|]; [|discriminate].
  apply fold_unfold_ok; assumption.
Qed.

Theorem moveaxis_z_spec (t : tensor) a b :
  a < ndim t -> b < ndim t -> moveaxis_z d t (Z.of_nat a) (Z.of_nat b) = Ok (moveaxis d t a b).
Proof. intros Ha Hb. unfold moveaxis_z. now rewrite !norm_axis_nonneg. Qed.

(* ---------- partial_unfold / partial_fold with the moved axis given absolutely ---------- *)
Lemma partial_unfold_at_eq (t : tensor) m sb se rav :
  partial_unfold d t m sb se rav = partial_unfold_at d t (m + sb) sb se rav.
Proof.
  unfold partial_unfold, partial_unfold_at.
  destruct (Nat.ltb_spec (m + sb) (length (shape t))) as [H1|H1]; [|reflexivity].
  destruct (Nat.ltb_spec sb (length (shape t))) as [H2|H2]; [reflexivity | lia].
Qed.

Lemma partial_fold_at_eq (u : tensor) m s sb se :
  partial_fold d u m s sb se = partial_fold_at d u (sb + m) s sb.
Proof.
  unfold partial_fold, partial_fold_at.
  destruct (Nat.ltb_spec (sb + m) (length s)) as [H1|H1]; [|reflexivity].
  destruct (Nat.ltb_spec sb (length s)) as [H2|H2]; [reflexivity | lia].
Qed.

Theorem partial_unfold_z_spec (t : tensor) m sb se rav :
  partial_unfold_z d t (Z.of_nat m) sb se rav = partial_unfold d t m sb se rav.
Proof.
  rewrite partial_unfold_at_eq. unfold partial_unfold_z. rewrite <- Nat2Z.inj_add.
  destruct (Nat.ltb_spec (m + sb) (ndim t)) as [H|H].
  - now rewrite norm_axis_nonneg.
  - rewrite norm_axis_out by lia. unfold partial_unfold_at. unfold ndim in H.
    destruct (Nat.ltb_spec (m + sb) (length (shape t))); [lia | reflexivity].
Qed.

Theorem partial_fold_z_spec (u : tensor) m s sb se :
  partial_fold_z d u (Z.of_nat m) s sb se = partial_fold d u m s sb se.
Proof.
  rewrite partial_fold_at_eq. unfold partial_fold_z. rewrite <- Nat2Z.inj_add.
  destruct (Nat.ltb_spec (sb + m) (length s)) as [H|H].
  - now rewrite norm_axis_nonneg.
  - rewrite norm_axis_out by lia. unfold partial_fold_at.
    destruct (Nat.ltb_spec (sb + m) (length s)); [lia | reflexivity].
Qed.

Theorem partial_fold_unfold_at (t u : tensor) k sb se rav : wf t ->
  partial_unfold_at d t k sb se rav = Ok u -> partial_fold_at d u k (shape t) sb = Ok t.
Proof.
  intros W H. unfold partial_unfold_at in H.
  destruct (Nat.ltb_spec k (length (shape t))) as [G1|G1]; [|discriminate].
  destruct (Nat.ltb_spec sb (length (shape t))) as [G2|G2]; [|discriminate].
  destruct (se <=? length (shape t)); [|discriminate]. cbn [andb] in H.
  apply reshape_spec_ok in H. destruct H as [Hd Hp].
  unfold partial_fold_at.
  apply Nat.ltb_lt in G1 as G1'. apply Nat.ltb_lt in G2 as G2'. rewrite G1', G2'. cbn [andb].
  set (mv := moveaxis d t k sb) in *.
  assert (Hs : insert_at sb (nth k (shape t) 0) (remove_nth k (shape t)) = shape mv) by reflexivity.
  rewrite Hs. rewrite reshape_spec_all_some by (symmetry; exact Hp).
  cbn [rbind]. f_equal. rewrite (reshape_data_shape mv u) by exact Hd. rewrite reshape_own.
  apply moveaxis_roundtrip; unfold ndim; auto.
Qed.

(* signed modes: whenever partial_unfold succeeds (ravelled or not, any skip_begin / skip_end, any shape),
   partial_fold with the same arguments returns the original tensor *)
Theorem partial_fold_unfold_z (t u : tensor) z sb se rav : wf t ->
  partial_unfold_z d t z sb se rav = Ok u -> partial_fold_z d u z (shape t) sb se = Ok t.
Proof.
  intros W H. unfold partial_unfold_z in H. unfold partial_fold_z. unfold ndim in H.
  replace (Z.of_nat sb + z)%Z with (z + Z.of_nat sb)%Z by lia.
  destruct (norm_axis (length (shape t)) (z + Z.of_nat sb)) as [k|]; [|discriminate].
  eapply partial_fold_unfold_at; eauto.
Qed.

Theorem partial_unfold_z_Permutation (t u : tensor) z sb se rav : wf t ->
  partial_unfold_z d t z sb se rav = Ok u -> Permutation (data u) (data t).
Proof.
  intros W H. unfold partial_unfold_z in H.
  destruct (norm_axis (ndim t) (z + Z.of_nat sb)) as [k|]; [|discriminate].
  unfold partial_unfold_at in H.
  destruct (Nat.ltb_spec k (length (shape t))) as [G1|G1]; [|discriminate].
  destruct (Nat.ltb_spec sb (length (shape t))) as [G2|G2]; [|discriminate].
  destruct (se <=? length (shape t)); [|discriminate]. cbn [andb] in H.
  apply reshape_spec_ok in H. destruct H as [Hd _]. rewrite Hd.
  apply moveaxis_Permutation; unfold ndim; auto.
Qed.

(* ---------- matricize with signed mode lists ---------- *)
Theorem matricize_z_spec (t : tensor) rows cols :
  matricize_z d t (map Z.of_nat rows) (Some (map Z.of_nat cols)) = matricize d t rows (Some cols) /\
  matricize_z d t (map Z.of_nat rows) None = matricize d t rows None.
Proof.
  assert (N : forall l, all_nonneg (map Z.of_nat l) = true).
  { intros l. unfold all_nonneg. apply forallb_forall. intros z Hz. apply in_map_iff in Hz.
    destruct Hz as [k [<- _]]. apply Z.leb_le. lia. }
  assert (I : forall l, map Z.to_nat (map Z.of_nat l) = l).
  { intros l. rewrite map_map. rewrite <- (map_id l) at 2. apply map_ext. intros. apply Nat2Z.id. }
  unfold matricize_z. rewrite !N, !I. cbn [andb]. split; reflexivity.
Qed.

Theorem matricize_z_negative_rejected (t : tensor) rows cols z :
  (z < 0)%Z -> In z (rows ++ match cols with Some c => c | None => [] end) -> matricize_z d t rows cols = Err.
Proof.
  intros Hz Hin. unfold matricize_z.
  destruct (all_nonneg rows && match cols with Some c => all_nonneg c | None => true end) eqn:E; [|reflexivity].
  exfalso. apply andb_prop in E. destruct E as [E1 E2]. unfold all_nonneg in *.
  rewrite forallb_forall in E1. apply in_app_or in Hin. destruct Hin as [Hin|Hin].
  - apply E1 in Hin. apply Z.leb_le in Hin. lia.
  - destruct cols as [c|]; [|destruct Hin]. rewrite forallb_forall in E2. apply E2 in Hin. apply Z.leb_le in Hin. lia.
Qed.

End P3.
