(* C01, fourth part: the generic Backend.moveaxis (a transposition) equals moveaxis;
   the inverse of a transposition and of matricize. *)
From Coq Require Import List Arith Lia Bool Permutation ZArith.
From TLV Require Import Base.Shape Base.PyList Base.Tensor Model.Base Model.BaseExt Proofs.BaseProofs Proofs.BaseProofs2 Proofs.BaseProofs3.
Import ListNotations.

Lemma map_insert_at {X Y} (f : X -> Y) k x : forall l, map f (insert_at k x l) = insert_at k (f x) (map f l).
Proof. induction k; intros [|a l]; simpl; auto. f_equal. apply IHk. Qed.

Lemma map_remove_nth {X Y} (f : X -> Y) k : forall l, map f (remove_nth k l) = remove_nth k (map f l).
Proof. induction k; intros [|a l]; simpl; auto. f_equal. apply IHk. Qed.

Lemma map_nth_seq {X} (dflt : X) (l : list X) : map (fun k => nth k l dflt) (seq 0 (length l)) = l.
Proof.
  apply nth_ext with (d := dflt) (d' := dflt); [now rewrite map_length, seq_length|].
  intros k Hk. rewrite map_length, seq_length in Hk.
  rewrite (nth_map' _ _ _ 0) by (now rewrite seq_length). now rewrite seq_nth.
Qed.

Lemma Permutation_insert_at {X} k (x : X) : forall l, Permutation (insert_at k x l) (x :: l).
Proof.
  induction k; intros [|a l]; simpl; try apply Permutation_refl.
  eapply perm_trans; [apply perm_skip, IHk | apply perm_swap].
Qed.

Lemma Permutation_remove_nth {X} k (dflt : X) : forall l, k < length l -> Permutation (nth k l dflt :: remove_nth k l) l.
Proof.
  induction k; intros [|a l] H; simpl in *; try lia; [apply Permutation_refl|].
  eapply perm_trans; [apply perm_swap | apply perm_skip, IHk; lia].
Qed.

(* the axis list built by Backend.moveaxis: list(range(n)); pop(a); insert(b, a) *)
Definition move_perm (n a b : nat) : list nat := insert_at b a (remove_nth a (seq 0 n)).

Lemma move_perm_Permutation n a b : a < n -> Permutation (move_perm n a b) (seq 0 n).
Proof.
  intros Ha. unfold move_perm. eapply perm_trans; [apply Permutation_insert_at|].
  replace a with (nth a (seq 0 n) 0) at 1 by (rewrite seq_nth; lia).
  apply Permutation_remove_nth. now rewrite seq_length.
Qed.

Lemma perm_of_seq_facts n p : Permutation p (seq 0 n) ->
  length p = n /\ NoDup p /\ (forall k, In k p -> k < n) /\ (forall k, k < n -> In k p).
Proof.
  intros H. repeat split.
  - rewrite (Permutation_length H). apply seq_length.
  - eapply Permutation_NoDup; [apply Permutation_sym; exact H | apply seq_NoDup].
  - intros k Hk. apply (Permutation_in _ H) in Hk. apply in_seq in Hk. lia.
  - intros k Hk. apply (Permutation_in _ (Permutation_sym H)). apply in_seq. lia.
Qed.

Lemma is_permb_of_Permutation n p : Permutation p (seq 0 n) -> is_permb n p = true.
Proof.
  intros H. destruct (perm_of_seq_facts n p H) as (Hl & Hnd & Hb & _).
  unfold is_permb. rewrite !andb_true_iff. repeat split.
  - now apply Nat.eqb_eq.
  - apply forallb_forall. intros k Hk. apply Nat.ltb_lt. auto.
  - now apply nodupb_NoDup.
Qed.

(* permuting any list of length n by move_perm = popping entry a and re-inserting it at b *)
Lemma permute_move_perm {X} (dflt : X) (l : list X) a b :
  permute dflt (move_perm (length l) a b) l = insert_at b (nth a l dflt) (remove_nth a l).
Proof.
  unfold permute, move_perm. rewrite map_insert_at, map_remove_nth, map_nth_seq. reflexivity.
Qed.

(* the inverse of a permutation of 0..n-1 *)
Definition inv_perm (p : list nat) : list nat := map (fun a => index_of a p) (seq 0 (length p)).

Lemma permute_inv_perm {X} (dflt : X) p (l : list X) : Permutation p (seq 0 (length l)) ->
  permute dflt (inv_perm p) (permute dflt p l) = l.
Proof.
  intros H. destruct (perm_of_seq_facts _ _ H) as (Hl & Hnd & Hb & Hall).
  unfold permute, inv_perm.
  rewrite map_map.
  apply nth_ext with (d := dflt) (d' := dflt); [now rewrite map_length, seq_length|].
  intros a Ha. rewrite map_length, seq_length, Hl in Ha.
  rewrite (nth_map' _ _ _ 0) by (now rewrite seq_length, Hl). rewrite seq_nth by (now rewrite Hl). cbn [Nat.add].
  rewrite (nth_map' _ _ _ 0) by (apply index_of_lt, Hall, Ha).
  now rewrite nth_index_of by (apply Hall, Ha).
Qed.

Lemma inv_perm_Permutation n p : Permutation p (seq 0 n) -> Permutation (inv_perm p) (seq 0 n).
Proof.
  intros H. destruct (perm_of_seq_facts _ _ H) as (Hl & Hnd & Hb & Hall).
  unfold inv_perm. rewrite Hl.
  apply NoDup_Permutation_bis.
  - apply NoDup_map_in; [|apply seq_NoDup]. intros x y Hx Hy E. apply in_seq in Hx, Hy.
    rewrite <- (nth_index_of x p) by (apply Hall; lia). rewrite <- (nth_index_of y p) by (apply Hall; lia).
    now rewrite E.
  - rewrite map_length, !seq_length. lia.
  - intros k Hk. apply in_map_iff in Hk. destruct Hk as [x [<- Hx]]. apply in_seq in Hx.
    apply in_seq. split; [lia|]. cbn [Nat.add]. rewrite <- Hl. apply index_of_lt, Hall. lia.
Qed.

Section P4.
Context {A : Type} (d : A).
Notation tensor := (tensor A).

Lemma tabulate_ext s (f g : list nat -> A) : (forall idx, inb s idx -> f idx = g idx) -> tabulate s f = tabulate s g.
Proof.
  intros H. unfold tabulate. f_equal. apply map_ext_in. intros k Hk. apply in_seq in Hk.
  apply H. apply unravel_inb. lia.
Qed.

(* tensorly/backend/core.py Backend.moveaxis (transpose by the popped-and-reinserted axis list) is moveaxis *)
Theorem moveaxis_generic_eq (t : tensor) a b : a < ndim t -> b < ndim t ->
  moveaxis_generic d t a b = moveaxis d t a b.
Proof.
  intros Ha Hb. unfold moveaxis_generic, moveaxis, transpose, ndim in *.
  fold (move_perm (length (shape t)) a b). set (p := move_perm (length (shape t)) a b).
  pose proof (move_perm_Permutation (length (shape t)) a b Ha) as HP. fold p in HP.
  destruct (perm_of_seq_facts _ _ HP) as (Hl & Hnd & Hbd & Hall).
  unfold p at 1. rewrite permute_move_perm.
  apply tabulate_ext. intros idx' Hi. f_equal.
  assert (Li : length idx' = length (shape t)).
  { rewrite (inb_length _ _ Hi), insert_at_length, remove_nth_length; lia. }
  set (X := insert_at a (nth b idx' 0) (remove_nth b idx')).
  assert (LX : length X = length (shape t)).
  { unfold X. rewrite insert_at_length, remove_nth_length; lia. }
  assert (E : permute 0 p X = idx').
  { unfold p. rewrite <- LX. rewrite permute_move_perm. unfold X.
    rewrite nth_insert_same by (rewrite remove_nth_length; lia).
    rewrite remove_insert by (rewrite remove_nth_length; lia).
    apply insert_remove. lia. }
  rewrite <- E at 1. apply scatter_permute; auto.
  - intros k Hk. apply Hall. lia.
  - lia.
  - intros k Hk. rewrite Hl. auto.
Qed.

Theorem moveaxis_generic_z_spec (t : tensor) a b : a < ndim t -> b < ndim t ->
  moveaxis_generic_z d t (Z.of_nat a) (Z.of_nat b) = moveaxis_z d t (Z.of_nat a) (Z.of_nat b).
Proof.
  intros Ha Hb. unfold moveaxis_generic_z, moveaxis_z. rewrite !norm_axis_nonneg by assumption.
  destruct (Z.ltb_spec (Z.of_nat b) 0); [lia|]. rewrite Nat2Z.id. f_equal. apply moveaxis_generic_eq; assumption.
Qed.

(* a transposition is undone by the transposition with the inverse permutation *)
Theorem transpose_inverse (t : tensor) p : wf t -> is_permb (ndim t) p = true ->
  transpose d (inv_perm p) (transpose d p t) = t.
Proof.
  intros W Hp. unfold ndim in Hp. pose proof (is_permb_spec _ _ Hp) as (Hl & Hnd & Hb & Hall).
  assert (HP : Permutation p (seq 0 (length (shape t)))).
  { apply NoDup_Permutation; [exact Hnd | apply seq_NoDup|]. intros k. rewrite in_seq.
    split; [intros; split; [lia | cbn; auto] | intros [_ H]; apply Hall; exact H]. }
  pose proof (inv_perm_Permutation _ _ HP) as HQ.
  assert (Hs : shape (transpose d (inv_perm p) (transpose d p t)) = shape t).
  { cbn [transpose tabulate shape]. apply permute_inv_perm. exact HP. }
  apply tensor_ext with (d := d); [apply wf_transpose | exact W | exact Hs |].
  intros idx Hi. rewrite Hs in Hi.
  assert (Li : length idx = length (shape t)) by (apply inb_length; exact Hi).
  rewrite <- (permute_inv_perm 0 p idx) at 1 by (rewrite Li; exact HP).
  rewrite get_transpose.
  - apply get_transpose; [exact Hp | exact Hi].
  - apply is_permb_of_Permutation. unfold ndim. cbn [transpose tabulate shape]. unfold permute at 1. rewrite map_length, Hl. exact HQ.
  - cbn [transpose tabulate shape]. apply inb_permute; [exact Hi | exact Hb].
Qed.

(* matricize has no inverse function in base.py; the documented layout makes it invertible by
   a reshape to the permuted shape followed by the inverse transposition *)
Theorem matricize_inverse (t u : tensor) rows cols : wf t -> matricize d t rows cols = Ok u ->
  let p := rows ++ match cols with Some c => c | None => complement (ndim t) rows end in
  transpose d (inv_perm p) (reshape (permute 0 p (shape t)) u) = t.
Proof.
  intros W H p. unfold matricize in H. fold p in H.
  destruct (is_permb (ndim t) p) eqn:Hp; [|discriminate]. injection H as <-.
  rewrite reshape_reshape.
  replace (permute 0 p (shape t)) with (shape (transpose d p t)) by reflexivity.
  rewrite reshape_own. apply transpose_inverse; assumption.
Qed.

Theorem partial_z_spec (t : tensor) (m : nat) (s : list nat) (sb se : nat) (rav : bool) :
  partial_unfold_z d t (Z.of_nat m) sb se rav = partial_unfold d t m sb se rav /\
  partial_fold_z d t (Z.of_nat m) s sb se = partial_fold d t m s sb se.
Proof. split; [apply partial_unfold_z_spec | apply partial_fold_z_spec]. Qed.

End P4.
