(* C01, fifth part: the documented layout of partial_unfold / partial_tensor_to_vec as an explicit index
   formula, and the exact success domain of partial_unfold (size-0 modes). *)
From Coq Require Import List Arith Lia Bool Permutation ZArith.
From TLV Require Import Base.Shape Base.PyList Base.Tensor Model.Base Model.BaseExt
  Proofs.BaseProofs Proofs.BaseProofs2 Proofs.BaseProofs3.
Import ListNotations.

Lemma remove_nth_app_r {X} (l1 l2 : list X) j : remove_nth (length l1 + j) (l1 ++ l2) = l1 ++ remove_nth j l2.
Proof. induction l1; simpl; [reflexivity | f_equal; exact IHl1]. Qed.

Lemma remove_nth_app_l {X} (l1 l2 : list X) : forall j, j < length l1 -> remove_nth j (l1 ++ l2) = remove_nth j l1 ++ l2.
Proof. induction l1 as [|a l1 IH]; intros [|j] H; simpl in *; try lia; [reflexivity | f_equal; apply IH; lia]. Qed.

Lemma insert_at_app_r {X} (l1 l2 : list X) x : insert_at (length l1) x (l1 ++ l2) = l1 ++ x :: l2.
Proof. induction l1; simpl; [destruct l2; reflexivity | f_equal; exact IHl1]. Qed.

(* popping entry m of the middle block and re-inserting it at the head of that block *)
Lemma move_decomp {X} (dflt : X) (L M T : list X) m : m < length M ->
  insert_at (length L) (nth (m + length L) (L ++ M ++ T) dflt) (remove_nth (m + length L) (L ++ M ++ T))
  = L ++ (nth m M dflt :: remove_nth m M) ++ T.
Proof.
  intros Hm. rewrite app_nth2 by lia. replace (m + length L - length L) with m by lia.
  rewrite app_nth1 by exact Hm.
  rewrite (Nat.add_comm m). rewrite remove_nth_app_r. rewrite remove_nth_app_l by exact Hm.
  rewrite insert_at_app_r. reflexivity.
Qed.

Section P5.
Context {A : Type} (d : A).
Notation tensor := (tensor A).

(* the reshape step of partial_unfold, with the shape given as lead ++ middle ++ trail *)
Lemma partial_layout_aux (t u : tensor) (Ls mids Ts L M T : list nat) m (rav : bool) :
  wf t -> shape t = Ls ++ mids ++ Ts -> m < length mids ->
  inb Ls L -> inb mids M -> inb Ts T ->
  reshape_spec (map Some Ls ++ (if rav then [None] else [Some (nth m mids 0); None]) ++ map Some Ts)
               (moveaxis d t (m + length Ls) (length Ls)) = Ok u ->
  let dm := nth m mids 0 in let rs := remove_nth m mids in
  let im := nth m M 0 in let ri := remove_nth m M in
  if rav then
    shape u = Ls ++ [dm * prod rs] ++ Ts /\
    get d u (L ++ [im * prod rs + ravel rs ri] ++ T) = get d t (L ++ M ++ T)
  else
    shape u = Ls ++ [dm; prod rs] ++ Ts /\
    get d u (L ++ [im; ravel rs ri] ++ T) = get d t (L ++ M ++ T).
Proof.
  intros W Hs Hm IL IM IT H dm rs im ri.
  pose proof (inb_length _ _ IL) as LL. pose proof (inb_length _ _ IM) as LM. pose proof (inb_length _ _ IT) as LT.
  set (mv := moveaxis d t (m + length Ls) (length Ls)) in *.
  assert (Hn : ndim t = length Ls + length mids + length Ts) by (unfold ndim; rewrite Hs, !app_length; lia).
  assert (Hmv : shape mv = Ls ++ (dm :: rs) ++ Ts).
  { unfold mv. rewrite shape_moveaxis, Hs. apply move_decomp. exact Hm. }
  assert (Iidx : inb (shape t) (L ++ M ++ T)).
  { rewrite Hs. apply inb_app; [exact IL|]. apply inb_app; assumption. }
  assert (Hget : get d mv (L ++ (im :: ri) ++ T) = get d t (L ++ M ++ T)).
  { rewrite <- (get_moveaxis d t (m + length Ls) (length Ls) (L ++ M ++ T)) by (try exact Iidx; lia).
    fold mv. f_equal. rewrite <- LL. symmetry. apply move_decomp. lia. }
  assert (PL : prod Ls <> 0) by (pose proof (inb_pos _ _ IL); lia).
  assert (PT : prod Ts <> 0) by (pose proof (inb_pos _ _ IT); lia).
  assert (Pdm : dm <> 0) by (pose proof (inb_nth m _ _ IM Hm); unfold dm; lia).
  assert (Hpm : prod (shape mv) = prod Ls * (dm * prod rs) * prod Ts).
  { rewrite Hmv, !prod_app. change (prod (dm :: rs)) with (dm * prod rs). lia. }
  assert (Lri : length ri = length rs).
  { unfold ri, rs. rewrite !remove_nth_length by lia. lia. }
  destruct rav.
  - (* ravelled *)
    pose proof (reshape_spec_one_none mv Ls Ts) as R. cbv zeta in R.
    assert (K0 : prod Ls * prod Ts <> 0) by nia.
    assert (E : prod (shape mv) = (dm * prod rs) * (prod Ls * prod Ts)) by (rewrite Hpm; ring).
    rewrite R in H; [| exact K0 | rewrite E; apply Nat.mod_mul; exact K0].
    rewrite E, Nat.div_mul in H by exact K0. clear R E.
    assert (Hu : u = reshape (Ls ++ [dm * prod rs] ++ Ts) mv) by (injection H as <-; reflexivity). subst u.
    split; [reflexivity|].
    rewrite <- Hget. unfold get, reshape. cbn [shape data]. f_equal. rewrite Hmv.
    rewrite !ravel_app by (cbn [length]; lia).
    rewrite !prod_app. cbn [ravel]. unfold prod; cbn [fold_right]. ring.
  - pose proof (reshape_spec_one_none mv (Ls ++ [dm]) Ts) as R. cbv zeta in R.
    rewrite map_app in R. cbn [map] in R. rewrite <- app_assoc in R. cbn [app] in R.
    assert (PLd : prod (Ls ++ [dm]) = prod Ls * dm) by (rewrite prod_app; unfold prod; cbn [fold_right]; lia).
    assert (K0 : prod (Ls ++ [dm]) * prod Ts <> 0) by (rewrite PLd; nia).
    assert (E : prod (shape mv) = prod rs * (prod (Ls ++ [dm]) * prod Ts)) by (rewrite Hpm, PLd; ring).
    cbn [app] in H. fold dm in H.
    rewrite R in H; [| exact K0 | rewrite E; apply Nat.mod_mul; exact K0].
    rewrite E, Nat.div_mul in H by exact K0. clear R E.
    assert (Hu : u = reshape ((Ls ++ [dm]) ++ [prod rs] ++ Ts) mv) by (injection H as <-; reflexivity). subst u.
    split; [unfold reshape; cbn [shape]; rewrite <- app_assoc; reflexivity|].
    rewrite <- Hget. unfold get, reshape. cbn [shape data]. f_equal. rewrite Hmv.
    rewrite <- app_assoc. cbn [app].
    change (Ls ++ dm :: prod rs :: Ts) with (Ls ++ [dm; prod rs] ++ Ts).
    change (L ++ im :: ravel rs ri :: T) with (L ++ [im; ravel rs ri] ++ T).
    rewrite !ravel_app by (cbn [length]; lia).
    rewrite !prod_app. cbn [ravel]. rewrite ?ravel_app by lia. rewrite ?prod_app. unfold prod; cbn [fold_right].
    change (fold_right Nat.mul 1 (rs ++ Ts)) with (prod (rs ++ Ts)). rewrite prod_app. unfold prod. ring.
Qed.

Lemma shape_split (s : list nat) sb se : sb + se <= length s ->
  s = firstn sb s ++ firstn (length s - sb - se) (skipn sb s) ++ lastn se s /\
  length (firstn sb s) = sb /\ length (firstn (length s - sb - se) (skipn sb s)) = length s - sb - se /\
  length (lastn se s) = se.
Proof.
  intros H. split; [apply firstn_skipn_mid; exact H|]. repeat split.
  - rewrite firstn_length. lia.
  - rewrite firstn_length, skipn_length. lia.
  - unfold lastn. rewrite skipn_length. lia.
Qed.

Lemma nth_mid (s : list nat) sb se m : sb + m + se < length s ->
  nth (m + sb) s 0 = nth m (firstn (length s - sb - se) (skipn sb s)) 0.
Proof.
  intros H. destruct (shape_split s sb se ltac:(lia)) as (Hdec & L1 & L2 & L3).
  rewrite Hdec at 1. rewrite app_nth2 by lia. rewrite L1. replace (m + sb - sb) with m by lia.
  rewrite app_nth1 by lia. reflexivity.
Qed.

(* Documented layout of partial_unfold: the skip_begin leading and skip_end trailing indices are
   untouched; inside, row = index along the (skip_begin+mode)-th mode, column = row-major index over the
   remaining inner modes in increasing order; with ravel_tensors the (row, column) pair is itself
   ravelled row-major. *)
Theorem partial_unfold_layout (t u : tensor) m sb se (rav : bool) (L M T : list nat) :
  wf t -> sb + m + se < ndim t -> partial_unfold d t m sb se rav = Ok u ->
  length L = sb -> length T = se -> inb (shape t) (L ++ M ++ T) ->
  let s := shape t in
  let mids := firstn (length s - sb - se) (skipn sb s) in
  let dm := nth m mids 0 in let rs := remove_nth m mids in
  let im := nth m M 0 in let ri := remove_nth m M in
  if rav then
    shape u = firstn sb s ++ [dm * prod rs] ++ lastn se s /\
    get d u (L ++ [im * prod rs + ravel rs ri] ++ T) = get d t (L ++ M ++ T)
  else
    shape u = firstn sb s ++ [dm; prod rs] ++ lastn se s /\
    get d u (L ++ [im; ravel rs ri] ++ T) = get d t (L ++ M ++ T).
Proof.
  intros W Hdom H HL HT Hi s mids. unfold ndim in Hdom. fold s in Hdom.
  destruct (shape_split s sb se ltac:(lia)) as (Hdec & L1 & L2 & L3). fold mids in Hdec, L2.
  assert (Li : length (L ++ M ++ T) = length s) by (apply inb_length; exact Hi).
  rewrite !app_length in Li.
  fold s in Hi. rewrite Hdec in Hi.
  apply inb_app_inv in Hi; [| lia]. destruct Hi as [IL Hi].
  apply inb_app_inv in Hi; [| lia]. destruct Hi as [IM IT].
  unfold partial_unfold in H. fold s in H.
  assert (G : (m + sb <? length s) && (se <=? length s) = true).
  { apply andb_true_intro. split; [apply Nat.ltb_lt | apply Nat.leb_le]; lia. }
  rewrite G in H. rewrite (nth_mid s sb se m) in H by lia. fold mids in H.
  rewrite <- L1 in H at 2 3.
  apply (partial_layout_aux t u (firstn sb s) mids (lastn se s) L M T m rav W Hdec ltac:(lia) IL IM IT H).
Qed.

(* partial_tensor_to_vec: every inner block is vectorised row-major, skipped indices untouched *)
Theorem partial_tensor_to_vec_layout (t u : tensor) sb se (L M T : list nat) :
  wf t -> sb + se < ndim t -> partial_tensor_to_vec d t sb se = Ok u ->
  length L = sb -> length T = se -> inb (shape t) (L ++ M ++ T) ->
  let s := shape t in
  let mids := firstn (length s - sb - se) (skipn sb s) in
  shape u = firstn sb s ++ [prod mids] ++ lastn se s /\
  get d u (L ++ [ravel mids M] ++ T) = get d t (L ++ M ++ T).
Proof.
  intros W Hdom H HL HT Hi s mids. unfold partial_tensor_to_vec in H.
  pose proof (partial_unfold_layout t u 0 sb se true L M T W ltac:(lia) H HL HT Hi) as R.
  cbv zeta in R. fold s in R. fold mids in R.
  unfold ndim in Hdom. fold s in Hdom.
  destruct (shape_split s sb se ltac:(lia)) as (Hdec & L1 & L2 & L3). fold mids in Hdec, L2.
  assert (Li : length (L ++ M ++ T) = length s) by (apply inb_length; exact Hi).
  rewrite !app_length in Li.
  destruct mids as [|x mids']; [cbn [length] in L2; lia|].
  destruct M as [|i M']; [cbn [length] in Li, L2; lia|].
  cbn [nth remove_nth] in R. cbn [ravel prod fold_right]. exact R.
Qed.

(* exact success domain on the documented arguments: every kept dimension (the skipped leading and
   trailing ones, and the mode's own unless ravelled) must be non-empty; the other inner modes may be empty *)
Theorem partial_unfold_ok_iff (t : tensor) m sb se (rav : bool) :
  sb + m + se < ndim t ->
  let s := shape t in
  (exists u, partial_unfold d t m sb se rav = Ok u) <->
  prod (firstn sb s) * (if rav then 1 else nth (m + sb) s 0) * prod (lastn se s) <> 0.
Proof.
  intros Hdom s. unfold ndim in Hdom. fold s in Hdom.
  destruct (shape_split s sb se ltac:(lia)) as (Hdec & L1 & L2 & L3).
  set (mids := firstn (length s - sb - se) (skipn sb s)) in *.
  set (mv := moveaxis d t (m + sb) sb).
  assert (Hmv : prod (shape mv) = prod s) by (unfold mv; rewrite shape_moveaxis; apply prod_move; fold s; lia).
  assert (Hprod : prod s = prod (firstn sb s) * prod mids * prod (lastn se s)).
  { rewrite Hdec at 1. rewrite !prod_app. lia. }
  assert (Hnth : nth (m + sb) s 0 = nth m mids 0) by (apply nth_mid; lia).
  destruct (prod_nth_divides mids m ltac:(lia)) as [q Hq].
  unfold partial_unfold. fold s.
  assert (G : (m + sb <? length s) && (se <=? length s) = true).
  { apply andb_true_intro. split; [apply Nat.ltb_lt | apply Nat.leb_le]; lia. }
  rewrite G. fold mv. destruct rav.
  - rewrite Nat.mul_1_r. apply reshape_spec_one_none_iff.
    rewrite Hmv, Hprod.
    replace (prod (firstn sb s) * prod mids * prod (lastn se s)) with (prod mids * (prod (firstn sb s) * prod (lastn se s))) by ring.
    destruct (Nat.eq_dec (prod (firstn sb s) * prod (lastn se s)) 0) as [Z|Z]; [rewrite Z, Nat.mul_0_r; reflexivity | apply Nat.mod_mul; exact Z].
  - assert (PLd : prod (firstn sb s ++ [nth (m + sb) s 0]) = prod (firstn sb s) * nth (m + sb) s 0)
      by (rewrite prod_app; unfold prod; cbn [fold_right]; lia).
    rewrite <- PLd.
    replace (map Some (firstn sb s) ++ [Some (nth (m + sb) s 0); None] ++ map Some (lastn se s))
      with (map Some (firstn sb s ++ [nth (m + sb) s 0]) ++ [None] ++ map Some (lastn se s))
      by (rewrite map_app, <- app_assoc; reflexivity).
    apply reshape_spec_one_none_iff.
    rewrite Hmv, Hprod, PLd, Hq, Hnth.
    replace (prod (firstn sb s) * (nth m mids 0 * q) * prod (lastn se s)) with (q * (prod (firstn sb s) * nth m mids 0 * prod (lastn se s))) by ring.
    destruct (Nat.eq_dec (prod (firstn sb s) * nth m mids 0 * prod (lastn se s)) 0) as [Z|Z]; [rewrite Z, Nat.mul_0_r; reflexivity | apply Nat.mod_mul; exact Z].
Qed.

End P5.
