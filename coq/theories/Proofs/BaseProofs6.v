(* C01, sixth part: naturality.  Every function of the model commutes with an arbitrary entry-wise map
   f : A -> B.  This is the formal content of "no entry is rounded or re-typed": the result on re-typed
   (or rounded, or relabelled) data is the re-typed result; the functions cannot depend on the values. *)
From Coq Require Import List Arith Lia Bool.
From TLV Require Import Base.Shape Base.PyList Base.Tensor Model.Base Proofs.BaseProofs4.
Import ListNotations.

Definition tmap {A B} (f : A -> B) (t : tensor A) : tensor B := mk (shape t) (map f (data t)).
Definition rmap {A B} (f : A -> B) (r : res A) : res B := match r with Ok a => Ok (f a) | Err => Err end.

Section N.
Context {A B : Type} (f : A -> B) (d : A).

Lemma get_tmap (t : tensor A) idx : get (f d) (tmap f t) idx = f (get d t idx).
Proof. unfold get, tmap; cbn [shape data]. apply map_nth. Qed.

Lemma tabulate_tmap s (g : list nat -> A) : tabulate s (fun idx => f (g idx)) = tmap f (tabulate s g).
Proof. unfold tabulate, tmap; cbn [shape data]. f_equal. now rewrite map_map. Qed.

Lemma moveaxis_natural (t : tensor A) a b : moveaxis (f d) (tmap f t) a b = tmap f (moveaxis d t a b).
Proof.
  unfold moveaxis. rewrite <- tabulate_tmap. cbn [tmap shape].
  apply tabulate_ext. intros idx _. apply get_tmap.
Qed.

Lemma transpose_natural (t : tensor A) p : transpose (f d) p (tmap f t) = tmap f (transpose d p t).
Proof.
  unfold transpose. rewrite <- tabulate_tmap. cbn [tmap shape].
  apply tabulate_ext. intros idx _. apply get_tmap.
Qed.

Lemma reshape_natural (t : tensor A) s : reshape s (tmap f t) = tmap f (reshape s t).
Proof. reflexivity. Qed.

Lemma reshape_spec_natural (t : tensor A) spec : reshape_spec spec (tmap f t) = rmap (tmap f) (reshape_spec spec t).
Proof.
  unfold reshape_spec. cbn [tmap shape].
  destruct (infer_shape (prod (shape t)) spec); reflexivity.
Qed.

Lemma rbind_rmap {X Y Z} (g : X -> Y) (r : res X) (k : Y -> res Z) : rbind (rmap g r) k = rbind r (fun x => k (g x)).
Proof. destruct r; reflexivity. Qed.

Theorem naturality (t : tensor A) :
  tensor_to_vec (tmap f t) = rmap (tmap f) (tensor_to_vec t) /\
  (forall s, vec_to_tensor (tmap f t) s = rmap (tmap f) (vec_to_tensor t s)) /\
  (forall m, unfold (f d) (tmap f t) m = rmap (tmap f) (unfold d t m)) /\
  (forall m s, fold (f d) (tmap f t) m s = rmap (tmap f) (fold d t m s)) /\
  (forall m sb se rav, partial_unfold (f d) (tmap f t) m sb se rav = rmap (tmap f) (partial_unfold d t m sb se rav)) /\
  (forall m s sb se, partial_fold (f d) (tmap f t) m s sb se = rmap (tmap f) (partial_fold d t m s sb se)) /\
  (forall rows cols, matricize (f d) (tmap f t) rows cols = rmap (tmap f) (matricize d t rows cols)).
Proof.
  refine (conj _ (conj _ (conj _ (conj _ (conj _ (conj _ _)))))); intros.
  - apply reshape_spec_natural.
  - apply reshape_spec_natural.
  - unfold unfold. change (ndim (tmap f t)) with (ndim t). change (shape (tmap f t)) with (shape t).
    destruct (m <? ndim t); [|reflexivity]. rewrite moveaxis_natural. apply reshape_spec_natural.
  - unfold fold. destruct (m <? length s); [|reflexivity].
    rewrite reshape_spec_natural, rbind_rmap.
    destruct (reshape_spec (map Some (nth m s 0 :: remove_nth m s)) t); cbn [rbind rmap]; [|reflexivity].
    now rewrite moveaxis_natural.
  - unfold partial_unfold. change (shape (tmap f t)) with (shape t).
    destruct ((m + sb <? length (shape t)) && (se <=? length (shape t))); [|reflexivity].
    rewrite moveaxis_natural. apply reshape_spec_natural.
  - unfold partial_fold. destruct (sb + m <? length s); [|reflexivity].
    rewrite reshape_spec_natural, rbind_rmap.
    destruct (reshape_spec (map Some (insert_at sb (nth (sb + m) s 0) (remove_nth (sb + m) s))) t); cbn [rbind rmap]; [|reflexivity].
    now rewrite moveaxis_natural.
  - unfold matricize. change (ndim (tmap f t)) with (ndim t). change (shape (tmap f t)) with (shape t).
    destruct (is_permb (ndim t) (rows ++ match cols with Some c => c | None => complement (ndim t) rows end)); [|reflexivity].
    cbn [rmap]. now rewrite transpose_natural.
Qed.

End N.
