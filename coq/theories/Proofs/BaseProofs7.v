(* C01, seventh part: exact success domains of fold and matricize. *)
From Coq Require Import List Arith Lia Bool.
From TLV Require Import Base.Shape Base.PyList Base.Tensor Model.Base Proofs.BaseProofs Proofs.BaseProofs2.
Import ListNotations.

Section P7.
Context {A : Type} (d : A).
Notation tensor := (tensor A).

Lemma reshape_spec_all_some_iff (u : tensor) l :
  (exists r, reshape_spec (map Some l) u = Ok r) <-> prod l = prod (shape u).
Proof.
  split.
  - intros [r H]. unfold reshape_spec, infer_shape in H. rewrite count_none_some, known_some in H.
    destruct (Nat.eqb_spec (prod l) (prod (shape u))); [assumption | discriminate].
  - intros H. eexists. apply reshape_spec_all_some. exact H.
Qed.

(* fold succeeds exactly when the mode exists and the requested shape has as many entries as the matrix *)
Theorem fold_ok_iff (u : tensor) m s :
  (exists t, fold d u m s = Ok t) <-> m < length s /\ prod s = prod (shape u).
Proof.
  unfold fold. destruct (Nat.ltb_spec m (length s)) as [Hm|Hm].
  - pose proof (prod_remove m s Hm) as Hp.
    assert (E : prod (nth m s 0 :: remove_nth m s) = prod s) by (rewrite <- Hp; reflexivity).
    split.
    + intros [t H]. split; [exact Hm|].
      destruct (reshape_spec (map Some (nth m s 0 :: remove_nth m s)) u) as [r|] eqn:R; [|discriminate].
      rewrite <- E. apply reshape_spec_all_some_iff. eexists; exact R.
    + intros [_ H]. rewrite reshape_spec_all_some by (rewrite E; exact H). eexists; reflexivity.
  - split; [intros [t H]; discriminate | intros [H _]; lia].
Qed.

(* matricize succeeds exactly when row_modes + column_modes is a permutation of all the modes *)
Theorem matricize_ok_iff (t : tensor) rows cols :
  (exists u, matricize d t rows (Some cols) = Ok u) <->
  (length (rows ++ cols) = ndim t /\ NoDup (rows ++ cols) /\ (forall k, In k (rows ++ cols) -> k < ndim t)).
Proof.
  unfold matricize. split.
  - intros [u H]. destruct (is_permb (ndim t) (rows ++ cols)) eqn:E; [|discriminate].
    apply is_permb_spec in E. tauto.
  - intros (Hl & Hnd & Hb).
    assert (E : is_permb (ndim t) (rows ++ cols) = true).
    { unfold is_permb. rewrite !andb_true_iff. repeat split.
      - now apply Nat.eqb_eq.
      - apply forallb_forall. intros k Hk. apply Nat.ltb_lt. auto.
      - now apply nodupb_NoDup. }
    rewrite E. eexists; reflexivity.
Qed.

End P7.
