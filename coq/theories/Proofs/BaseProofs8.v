(* C01, eighth part (review r5): output SHAPES without any in-bounds hypothesis (so they also speak about
   tensors with size-0 modes), and the target index of every layout theorem is in bounds of the result
   (get is totalised with a default: the layout equations never read that default). *)
From Coq Require Import List Arith Lia Bool.
From TLV Require Import Base.Shape Base.PyList Base.Tensor Model.Base Model.BaseExt
  Proofs.BaseProofs Proofs.BaseProofs2 Proofs.BaseProofs3 Proofs.BaseProofs5.
Import ListNotations.

Section P8.
Context {A : Type} (d : A).
Notation tensor := (tensor A).

(* ---------- unfold ---------- *)
Theorem unfold_shape (t u : tensor) m : unfold d t m = Ok u ->
  shape u = [nth m (shape t) 0; prod (remove_nth m (shape t))].
Proof.
  intros Hu. assert (H : exists u, unfold d t m = Ok u) by (eexists; exact Hu).
  apply unfold_ok_iff in H. destruct H as [Hm Hn].
  rewrite unfold_eq_gen in Hu by assumption.
  assert (E : u = reshape [nth m (shape t) 0; prod (remove_nth m (shape t))] (moveaxis d t m 0)) by (injection Hu as <-; reflexivity).
  rewrite E. reflexivity.
Qed.

Theorem unfold_target_in_bounds (t u : tensor) m idx : unfold d t m = Ok u -> inb (shape t) idx ->
  inb (shape u) [nth m idx 0; ravel (remove_nth m (shape t)) (remove_nth m idx)].
Proof.
  intros Hu Hi. rewrite (unfold_shape t u m Hu).
  assert (H : exists u, unfold d t m = Ok u) by (eexists; exact Hu).
  apply unfold_ok_iff in H. destruct H as [Hm _]. unfold ndim in Hm.
  cbn [inb]. repeat split.
  - apply inb_nth; assumption.
  - apply ravel_lt. apply inb_remove. exact Hi.
Qed.

(* ---------- tensor_to_vec ---------- *)
Theorem vec_shape (t v : tensor) : tensor_to_vec t = Ok v -> shape v = [prod (shape t)] /\ data v = data t.
Proof.
  intros H. rewrite tensor_to_vec_eq in H.
  assert (E : v = reshape [prod (shape t)] t) by (injection H as <-; reflexivity).
  rewrite E. split; reflexivity.
Qed.

Theorem vec_target_in_bounds (t v : tensor) idx : tensor_to_vec t = Ok v -> inb (shape t) idx ->
  inb (shape v) [ravel (shape t) idx].
Proof.
  intros H Hi. destruct (vec_shape t v H) as [Hs _]. rewrite Hs. cbn [inb]. split; [|exact I].
  apply ravel_lt. exact Hi.
Qed.

(* ---------- matricize ---------- *)
Theorem matricize_shape (t u : tensor) rows cols : matricize d t rows cols = Ok u ->
  let cs := match cols with Some c => c | None => complement (ndim t) rows end in
  shape u = [prod (permute 0 rows (shape t)); prod (permute 0 cs (shape t))].
Proof.
  intros H cs. unfold matricize in H. fold cs in H.
  destruct (is_permb (ndim t) (rows ++ cs)); [|discriminate].
  assert (E : u = reshape [prod (permute 0 rows (shape t)); prod (permute 0 cs (shape t))] (transpose d (rows ++ cs) t))
    by (injection H as <-; reflexivity).
  rewrite E. reflexivity.
Qed.

Theorem matricize_target_in_bounds (t u : tensor) rows cols idx :
  matricize d t rows (Some cols) = Ok u -> inb (shape t) idx ->
  inb (shape u) [ravel (permute 0 rows (shape t)) (permute 0 rows idx); ravel (permute 0 cols (shape t)) (permute 0 cols idx)].
Proof.
  intros H Hi. pose proof (matricize_shape t u rows (Some cols) H) as Hs. cbv zeta in Hs. rewrite Hs.
  unfold matricize in H. destruct (is_permb (ndim t) (rows ++ cols)) eqn:Hp; [|discriminate].
  apply is_permb_spec in Hp. destruct Hp as (_ & _ & Hb & _). unfold ndim in Hb.
  cbn [inb]. repeat split; apply ravel_lt; apply inb_permute; try exact Hi;
    intros k Hk; apply Hb; apply in_or_app; [left | right]; exact Hk.
Qed.

(* ---------- partial_unfold ---------- *)
Lemma partial_shape_aux (t u : tensor) (Ls mids Ts : list nat) m (rav : bool) :
  shape t = Ls ++ mids ++ Ts -> m < length mids ->
  reshape_spec (map Some Ls ++ (if rav then [None] else [Some (nth m mids 0); None]) ++ map Some Ts)
               (moveaxis d t (m + length Ls) (length Ls)) = Ok u ->
  shape u = Ls ++ (if rav then [nth m mids 0 * prod (remove_nth m mids)]
                   else [nth m mids 0; prod (remove_nth m mids)]) ++ Ts.
Proof.
  intros Hs Hm H. set (dm := nth m mids 0) in *. set (rs := remove_nth m mids) in *.
  set (mv := moveaxis d t (m + length Ls) (length Ls)) in *.
  assert (Hmv : shape mv = Ls ++ (dm :: rs) ++ Ts).
  { unfold mv. rewrite shape_moveaxis, Hs. apply move_decomp. exact Hm. }
  assert (Hpm : prod (shape mv) = prod Ls * (dm * prod rs) * prod Ts).
  { rewrite Hmv, !prod_app. change (prod (dm :: rs)) with (dm * prod rs). lia. }
  destruct rav.
  - destruct (Nat.eq_dec (prod Ls * prod Ts) 0) as [Z|K0].
    + rewrite reshape_spec_one_none_zero in H by exact Z. discriminate.
    + pose proof (reshape_spec_one_none mv Ls Ts) as R. cbv zeta in R.
      assert (E : prod (shape mv) = (dm * prod rs) * (prod Ls * prod Ts)) by (rewrite Hpm; ring).
      rewrite R in H; [| exact K0 | rewrite E; apply Nat.mod_mul; exact K0].
      rewrite E, Nat.div_mul in H by exact K0.
      assert (Hu : u = reshape (Ls ++ [dm * prod rs] ++ Ts) mv) by (injection H as <-; reflexivity).
      rewrite Hu. reflexivity.
  - assert (PLd : prod (Ls ++ [dm]) = prod Ls * dm) by (rewrite prod_app; unfold prod; cbn [fold_right]; lia).
    replace (map Some Ls ++ [Some dm; None] ++ map Some Ts)
      with (map Some (Ls ++ [dm]) ++ [None] ++ map Some Ts) in H
      by (rewrite map_app, <- app_assoc; reflexivity).
    destruct (Nat.eq_dec (prod (Ls ++ [dm]) * prod Ts) 0) as [Z|K0].
    + rewrite reshape_spec_one_none_zero in H by exact Z. discriminate.
    + pose proof (reshape_spec_one_none mv (Ls ++ [dm]) Ts) as R. cbv zeta in R.
      assert (E : prod (shape mv) = prod rs * (prod (Ls ++ [dm]) * prod Ts)) by (rewrite Hpm, PLd; ring).
      rewrite R in H; [| exact K0 | rewrite E; apply Nat.mod_mul; exact K0].
      rewrite E, Nat.div_mul in H by exact K0.
      assert (Hu : u = reshape ((Ls ++ [dm]) ++ [prod rs] ++ Ts) mv) by (injection H as <-; reflexivity).
      rewrite Hu. unfold reshape. cbn [shape]. rewrite <- app_assoc. reflexivity.
Qed.

(* shape of a partial unfolding: no in-bounds hypothesis, so tensors with empty modes are included *)
Theorem partial_unfold_shape (t u : tensor) m sb se (rav : bool) :
  sb + m + se < ndim t -> partial_unfold d t m sb se rav = Ok u ->
  let s := shape t in
  let mids := firstn (length s - sb - se) (skipn sb s) in
  shape u = firstn sb s ++ (if rav then [nth m mids 0 * prod (remove_nth m mids)]
                            else [nth m mids 0; prod (remove_nth m mids)]) ++ lastn se s.
Proof.
  intros Hdom H s mids. unfold ndim in Hdom. fold s in Hdom.
  destruct (shape_split s sb se ltac:(lia)) as (Hdec & L1 & L2 & L3). fold mids in Hdec, L2.
  unfold partial_unfold in H. fold s in H.
  assert (G : (m + sb <? length s) && (se <=? length s) = true).
  { apply andb_true_intro. split; [apply Nat.ltb_lt | apply Nat.leb_le]; lia. }
  rewrite G in H. rewrite (nth_mid s sb se m) in H by lia. fold mids in H.
  rewrite <- L1 in H at 2 3.
  apply (partial_shape_aux t u (firstn sb s) mids (lastn se s) m rav Hdec ltac:(lia) H).
Qed.

Lemma inb_split3 (s L M T : list nat) sb se : sb + se <= length s -> length L = sb -> length T = se ->
  inb s (L ++ M ++ T) ->
  inb (firstn sb s) L /\ inb (firstn (length s - sb - se) (skipn sb s)) M /\ inb (lastn se s) T.
Proof.
  intros Hle HL HT Hi.
  destruct (shape_split s sb se Hle) as (Hdec & L1 & L2 & L3).
  assert (Li : length (L ++ M ++ T) = length s) by (apply inb_length; exact Hi).
  rewrite !app_length in Li.
  rewrite Hdec in Hi.
  apply inb_app_inv in Hi; [| lia]. destruct Hi as [IL Hi].
  apply inb_app_inv in Hi; [| lia]. destruct Hi as [IM IT]. auto.
Qed.

Theorem partial_unfold_target_in_bounds (t u : tensor) m sb se (rav : bool) (L M T : list nat) :
  sb + m + se < ndim t -> partial_unfold d t m sb se rav = Ok u ->
  length L = sb -> length T = se -> inb (shape t) (L ++ M ++ T) ->
  let s := shape t in
  let mids := firstn (length s - sb - se) (skipn sb s) in
  let rs := remove_nth m mids in let im := nth m M 0 in let ri := remove_nth m M in
  inb (shape u) (L ++ (if rav then [im * prod rs + ravel rs ri] else [im; ravel rs ri]) ++ T).
Proof.
  intros Hdom H HL HT Hi s mids rs im ri.
  pose proof (partial_unfold_shape t u m sb se rav Hdom H) as Hs. cbv zeta in Hs. fold s in Hs. fold mids in Hs. fold rs in Hs.
  rewrite Hs. unfold ndim in Hdom. fold s in Hdom.
  destruct (inb_split3 s L M T sb se ltac:(lia) HL HT Hi) as (IL & IM & IT). fold mids in IM.
  destruct (shape_split s sb se ltac:(lia)) as (_ & _ & L2 & _). fold mids in L2.
  assert (Him : im < nth m mids 0) by (apply inb_nth; [exact IM | lia]).
  assert (Hr : ravel rs ri < prod rs) by (apply ravel_lt; apply inb_remove; exact IM).
  apply inb_app; [exact IL|]. apply inb_app; [|exact IT].
  destruct rav; cbn [inb]; repeat split; try assumption. nia.
Qed.

(* ---------- partial_tensor_to_vec ---------- *)
Theorem partial_tensor_to_vec_shape (t u : tensor) sb se :
  sb + se < ndim t -> partial_tensor_to_vec d t sb se = Ok u ->
  let s := shape t in
  shape u = firstn sb s ++ [prod (firstn (length s - sb - se) (skipn sb s))] ++ lastn se s.
Proof.
  intros Hdom H s. unfold partial_tensor_to_vec in H.
  pose proof (partial_unfold_shape t u 0 sb se true ltac:(lia) H) as R. cbv zeta in R. fold s in R.
  unfold ndim in Hdom. fold s in Hdom.
  destruct (shape_split s sb se ltac:(lia)) as (_ & _ & L2 & _).
  destruct (firstn (length s - sb - se) (skipn sb s)) as [|x mids']; [cbn [length] in L2; lia|].
  cbn [nth remove_nth] in R. exact R.
Qed.

Theorem partial_tensor_to_vec_target_in_bounds (t u : tensor) sb se (L M T : list nat) :
  sb + se < ndim t -> partial_tensor_to_vec d t sb se = Ok u ->
  length L = sb -> length T = se -> inb (shape t) (L ++ M ++ T) ->
  let s := shape t in
  inb (shape u) (L ++ [ravel (firstn (length s - sb - se) (skipn sb s)) M] ++ T).
Proof.
  intros Hdom H HL HT Hi s.
  pose proof (partial_tensor_to_vec_shape t u sb se Hdom H) as Hs. cbv zeta in Hs. fold s in Hs. rewrite Hs.
  unfold ndim in Hdom. fold s in Hdom.
  destruct (inb_split3 s L M T sb se ltac:(lia) HL HT Hi) as (IL & IM & IT).
  apply inb_app; [exact IL|]. apply inb_app; [|exact IT].
  cbn [inb]. split; [|exact I]. apply ravel_lt. exact IM.
Qed.

End P8.
