(* C01, ninth part: the statement-by-statement model of base.py over an abstract backend (Model/BasePy.v).
   1. any relation that the three backend calls respect is respected by all nine functions (g_invariant);
      instances: the dtype tag (typed backend) and "wf and a Permutation of the entries" (NumPy backend);
   2. the typed backend computes the same entries as the plain one (projection arr);
   3. on the NumPy backend the g_ functions are the hand model of Model/Base.v / BaseExt.v. *)
From Coq Require Import List Arith Lia Bool Permutation ZArith.
From TLV Require Import Base.Shape Base.PyList Base.Tensor Model.Base Model.BaseExt Model.BasePy
  Proofs.BaseProofs Proofs.BaseProofs2 Proofs.BaseProofs3 Proofs.BaseProofs4 Proofs.BaseProofs5 Proofs.BaseProofs6.
Import ListNotations.

Ltac mon :=
  repeat match goal with
  | H : Ok _ = Ok _ |- _ => injection H as H; try subst
  | H : Err = Ok _ |- _ => discriminate H
  | H : rbind ?r _ = Ok _ |- _ => let E := fresh "E" in destruct r eqn:E; cbn [rbind] in H; [|discriminate H]
  end.

(* ---------- 1. invariants ---------- *)
Section Inv.
Context {T : Type} (B : backend T) (R : T -> T -> Prop).
Context (R_trans : forall a b c, R a b -> R b c -> R a c).
Context (H_reshape : forall t l u, b_reshape B t l = Ok u -> R t u).
Context (H_moveaxis : forall t a b u, b_moveaxis B t a b = Ok u -> R t u).
Context (H_transpose : forall t p u, b_transpose B t p = Ok u -> R t u).

Lemma inv_tensor_to_vec t u : g_tensor_to_vec B t = Ok u -> R t u.
Proof. apply H_reshape. Qed.
Lemma inv_vec_to_tensor t s u : g_vec_to_tensor B t s = Ok u -> R t u.
Proof. apply H_reshape. Qed.
Lemma inv_unfold t m u : g_unfold B t m = Ok u -> R t u.
Proof. unfold g_unfold. intros H. mon. eauto. Qed.
Lemma inv_fold t m s u : g_fold B t m s = Ok u -> R t u.
Proof. unfold g_fold. cbv zeta. intros H. mon. eauto. Qed.
Lemma inv_partial_unfold t m sb se rav u : g_partial_unfold B t m sb se rav = Ok u -> R t u.
Proof. unfold g_partial_unfold. intros H. mon. eauto. Qed.
Lemma inv_partial_fold t m s sb se u : g_partial_fold B t m s sb se = Ok u -> R t u.
Proof. unfold g_partial_fold. cbv zeta. intros H. mon. eauto. Qed.
Lemma inv_matricize t rows cols u : g_matricize B t rows cols = Ok u -> R t u.
Proof. unfold g_matricize. cbv zeta. intros H. mon. eauto. Qed.

Theorem g_invariant (t u : T) :
  (g_tensor_to_vec B t = Ok u -> R t u) /\
  (forall s, g_vec_to_tensor B t s = Ok u -> R t u) /\
  (forall m, g_unfold B t m = Ok u -> R t u) /\
  (forall m s, g_fold B t m s = Ok u -> R t u) /\
  (forall m sb se rav, g_partial_unfold B t m sb se rav = Ok u -> R t u) /\
  (forall m s sb se, g_partial_fold B t m s sb se = Ok u -> R t u) /\
  (forall sb se, g_partial_tensor_to_vec B t sb se = Ok u -> R t u) /\
  (forall s sb se, g_partial_vec_to_tensor B t s sb se = Ok u -> R t u) /\
  (forall rows cols, g_matricize B t rows cols = Ok u -> R t u).
Proof.
  repeat split; intros.
  - now apply inv_tensor_to_vec.
  - eapply inv_vec_to_tensor; eauto.
  - eapply inv_unfold; eauto.
  - eapply inv_fold; eauto.
  - eapply inv_partial_unfold; eauto.
  - eapply inv_partial_fold; eauto.
  - unfold g_partial_tensor_to_vec in *. eapply inv_partial_unfold; eauto.
  - unfold g_partial_vec_to_tensor in *. eapply inv_partial_fold; eauto.
  - eapply inv_matricize; eauto.
Qed.
End Inv.

Section Inst.
Context {A : Type} (d : A).
Notation tensor := (tensor A).

(* the NumPy primitives keep well-formedness and permute the entries *)
Definition keeps (t u : tensor) : Prop := wf t -> wf u /\ Permutation (data u) (data t).

Lemma keeps_trans a b c : keeps a b -> keeps b c -> keeps a c.
Proof.
  unfold keeps. intros H1 H2 W. destruct (H1 W) as [W1 P1]. destruct (H2 W1) as [W2 P2].
  split; [assumption|]. eapply perm_trans; eauto.
Qed.

Lemma keeps_reshape (t : tensor) l u : b_reshape (plain d) t l = Ok u -> keeps t u.
Proof.
  cbn [b_reshape plain]. intros H W. destruct (reshape_spec_ok _ _ _ H) as [Hd Hp].
  split; [unfold wf in *; congruence | rewrite Hd; apply Permutation_refl].
Qed.

Lemma keeps_moveaxis (t : tensor) a b u : b_moveaxis (plain d) t a b = Ok u -> keeps t u.
Proof.
  cbn [b_moveaxis plain]. unfold moveaxis_z.
  destruct (norm_axis (ndim t) a) as [a'|] eqn:Ea; [|discriminate].
  destruct (norm_axis (ndim t) b) as [b'|] eqn:Eb; [|discriminate].
  intros H W. injection H as <-. apply norm_axis_some in Ea. apply norm_axis_some in Eb.
  split; [apply wf_moveaxis | apply moveaxis_Permutation; tauto].
Qed.

Lemma keeps_transpose (t : tensor) p u : b_transpose (plain d) t p = Ok u -> keeps t u.
Proof.
  cbn [b_transpose plain]. unfold np_transpose.
  destruct (norm_axes (ndim t) p) as [q|]; [|discriminate].
  destruct (is_permb (ndim t) q) eqn:E; [|discriminate].
  intros H W. injection H as <-. split; [apply wf_transpose | now apply transpose_Permutation].
Qed.

(* no entry duplicated or dropped, for the statement-by-statement model of all nine functions *)
Theorem g_plain_Permutation (t u : tensor) :
  (g_tensor_to_vec (plain d) t = Ok u -> keeps t u) /\
  (forall s, g_vec_to_tensor (plain d) t s = Ok u -> keeps t u) /\
  (forall m, g_unfold (plain d) t m = Ok u -> keeps t u) /\
  (forall m s, g_fold (plain d) t m s = Ok u -> keeps t u) /\
  (forall m sb se rav, g_partial_unfold (plain d) t m sb se rav = Ok u -> keeps t u) /\
  (forall m s sb se, g_partial_fold (plain d) t m s sb se = Ok u -> keeps t u) /\
  (forall sb se, g_partial_tensor_to_vec (plain d) t sb se = Ok u -> keeps t u) /\
  (forall s sb se, g_partial_vec_to_tensor (plain d) t s sb se = Ok u -> keeps t u) /\
  (forall rows cols, g_matricize (plain d) t rows cols = Ok u -> keeps t u).
Proof.
  apply g_invariant; [exact keeps_trans | exact keeps_reshape | exact keeps_moveaxis | exact keeps_transpose].
Qed.

(* ---------- the dtype tag ---------- *)
Section Ty.
Context {D : Type}.
(* the result carries the tag of the input, its entries are a permutation of the input's entries *)
Definition same_type (a u : ndarray A D) : Prop := dt u = dt a /\ keeps (arr a) (arr u).

Lemma same_type_trans a b c : same_type a b -> same_type b c -> same_type a c.
Proof. unfold same_type. intros [E1 K1] [E2 K2]. split; [congruence | eapply keeps_trans; eauto]. Qed.

Lemma retag_ok (a u : ndarray A D) r : retag a r = Ok u -> exists t, r = Ok t /\ u = mkarr (dt a) t.
Proof. destruct r as [t|]; cbn; [|discriminate]. intros H; injection H as <-. eauto. Qed.

Theorem g_typed_same_type (a u : ndarray A D) :
  (g_tensor_to_vec (typed d D) a = Ok u -> same_type a u) /\
  (forall s, g_vec_to_tensor (typed d D) a s = Ok u -> same_type a u) /\
  (forall m, g_unfold (typed d D) a m = Ok u -> same_type a u) /\
  (forall m s, g_fold (typed d D) a m s = Ok u -> same_type a u) /\
  (forall m sb se rav, g_partial_unfold (typed d D) a m sb se rav = Ok u -> same_type a u) /\
  (forall m s sb se, g_partial_fold (typed d D) a m s sb se = Ok u -> same_type a u) /\
  (forall sb se, g_partial_tensor_to_vec (typed d D) a sb se = Ok u -> same_type a u) /\
  (forall s sb se, g_partial_vec_to_tensor (typed d D) a s sb se = Ok u -> same_type a u) /\
  (forall rows cols, g_matricize (typed d D) a rows cols = Ok u -> same_type a u).
Proof.
  apply g_invariant; [exact same_type_trans | | | ].
  - intros t l v H. cbn [b_reshape typed] in H. apply retag_ok in H. destruct H as [r [H ->]].
    split; [reflexivity | cbn [arr]; eapply keeps_reshape; eauto].
  - intros t x y v H. cbn [b_moveaxis typed] in H. apply retag_ok in H. destruct H as [r [H ->]].
    split; [reflexivity | cbn [arr]; eapply keeps_moveaxis; eauto].
  - intros t p v H. cbn [b_transpose typed] in H. apply retag_ok in H. destruct H as [r [H ->]].
    split; [reflexivity | cbn [arr]; eapply keeps_transpose; eauto].
Qed.

(* "no entry is re-typed": whatever it means for a value to be of a dtype, if every entry of the input is of the
   input's dtype then every entry of the result is of the result's dtype, which is the input's *)
Lemma same_type_entries (ty : D -> A -> Prop) (a u : ndarray A D) :
  same_type a u -> wf (arr a) -> Forall (ty (dt a)) (data (arr a)) ->
  dt u = dt a /\ wf (arr u) /\ Forall (ty (dt u)) (data (arr u)).
Proof.
  intros [E K] W F. destruct (K W) as [W' P]. repeat split; auto. rewrite E.
  rewrite Forall_forall in *. intros x Hx. apply F. eapply Permutation_in; eauto.
Qed.
End Ty.

(* ---------- 3. on the NumPy backend the g_ functions are the hand model ---------- *)
Lemma spec_of_z_nat (s : list nat) : spec_of_z (map Z.of_nat s) = map Some s.
Proof.
  unfold spec_of_z. rewrite map_map. apply map_ext. intros x.
  destruct (Z.ltb_spec (Z.of_nat x) 0); [lia|]. now rewrite Nat2Z.id.
Qed.

Theorem g_tensor_to_vec_eq (t : tensor) : g_tensor_to_vec (plain d) t = tensor_to_vec t.
Proof. reflexivity. Qed.

Theorem g_vec_to_tensor_eq (t : tensor) s : g_vec_to_tensor (plain d) t (map Z.of_nat s) = vec_to_tensor t s.
Proof. unfold g_vec_to_tensor, vec_to_tensor. cbn [b_reshape plain]. now rewrite spec_of_z_nat. Qed.

Lemma py_getitem_nat (s : list nat) m k : norm_axis (length s) m = Some k ->
  py_getitem (map Z.of_nat s) m = Ok (Z.of_nat (nth k s 0)).
Proof.
  intros H. unfold py_getitem. rewrite map_length, H. apply norm_axis_some in H. destruct H as [Hk _].
  rewrite nth_error_map. rewrite (nth_error_nth' s 0 Hk). reflexivity.
Qed.

Lemma py_getitem_none {X} (l : list X) m : norm_axis (length l) m = None -> py_getitem l m = Err.
Proof. intros H. unfold py_getitem. now rewrite H. Qed.

Lemma py_pop_nat (s : list nat) m k : norm_axis (length s) m = Some k ->
  py_pop (map Z.of_nat s) m = Ok (Z.of_nat (nth k s 0), map Z.of_nat (remove_nth k s)).
Proof.
  intros H. unfold py_pop. rewrite map_length, H. apply norm_axis_some in H. destruct H as [Hk _].
  rewrite nth_error_map. rewrite (nth_error_nth' s 0 Hk). cbn. now rewrite map_remove_nth.
Qed.

Lemma norm_axis_zero n : 0 < n -> norm_axis n 0%Z = Some 0.
Proof. intros H. exact (norm_axis_nonneg n 0 H). Qed.

Lemma spec_of_z_cons_nat x l : spec_of_z (Z.of_nat x :: l) = Some x :: spec_of_z l.
Proof. unfold spec_of_z. cbn [map]. destruct (Z.ltb_spec (Z.of_nat x) 0); [lia|]. now rewrite Nat2Z.id. Qed.

Theorem g_unfold_eq (t : tensor) m : g_unfold (plain d) t m = unfold_z d t m.
Proof.
  unfold g_unfold, unfold_z. cbn [b_moveaxis b_reshape b_shape plain]. unfold moveaxis_z, py_shape. cbn [b_shape plain].
  destruct (norm_axis (ndim t) m) as [k|] eqn:E; [|reflexivity].
  pose proof (norm_axis_some _ _ _ E) as [Hk _].
  rewrite (norm_axis_zero (ndim t)) by lia. cbn [rbind].
  unfold ndim in E. rewrite (py_getitem_nat _ _ _ E). cbn [rbind].
  rewrite spec_of_z_cons_nat. unfold unfold. apply Nat.ltb_lt in Hk. rewrite Hk. reflexivity.
Qed.

Lemma reshape_spec_some_shape (t u : tensor) l : reshape_spec (map Some l) t = Ok u -> shape u = l.
Proof.
  unfold reshape_spec, infer_shape. rewrite count_none_some.
  destruct (Nat.eqb (known (map Some l)) (prod (shape t))); cbn [rbind]; [|discriminate].
  intros H; injection H as <-. cbn [shape reshape]. unfold fill. rewrite map_map. apply map_id.
Qed.

Lemma py_insert_nat {X} (l : list X) sb (x : X) : py_insert l (Z.of_nat sb) x = insert_at (Nat.min sb (length l)) x l.
Proof.
  unfold py_insert. destruct (Z.ltb_spec (Z.of_nat sb) 0); [lia|]. f_equal.
  rewrite <- Nat2Z.inj_min. apply Nat2Z.id.
Qed.

Lemma insert_at_clip {X} (x : X) : forall k (l : list X), insert_at (Nat.min k (length l)) x l = insert_at k x l.
Proof. induction k; intros [|y l]; cbn; auto. now rewrite IHk. Qed.

Theorem g_fold_eq (u : tensor) m s : g_fold (plain d) u m (map Z.of_nat s) = fold_z d u m s.
Proof.
  unfold g_fold, fold_z. cbv zeta.
  destruct (norm_axis (length s) m) as [k|] eqn:E.
  2:{ unfold py_pop. rewrite map_length, E. reflexivity. }
  rewrite (py_pop_nat _ _ _ E). cbn [rbind fst snd].
  pose proof (norm_axis_some _ _ _ E) as [Hk _].
  change 0%Z with (Z.of_nat 0). rewrite py_insert_nat. cbn [Nat.min insert_at].
  cbn [b_reshape b_moveaxis plain]. rewrite spec_of_z_cons_nat, spec_of_z_nat.
  unfold fold. pose proof Hk as Hk'. apply Nat.ltb_lt in Hk'. rewrite Hk'.
  change (Some (nth k s 0) :: map Some (remove_nth k s)) with (map Some (nth k s 0 :: remove_nth k s)).
  destruct (reshape_spec (map Some (nth k s 0 :: remove_nth k s)) u) as [r|] eqn:Er; cbn [rbind]; [|reflexivity].
  apply reshape_spec_some_shape in Er.
  unfold moveaxis_z, ndim. rewrite Er. cbn [length]. rewrite remove_nth_length by exact Hk.
  replace (S (length s - 1)) with (length s) by lia.
  change (Z.of_nat 0) with 0%Z. rewrite (norm_axis_zero (length s)) by lia. rewrite E. reflexivity.
Qed.

End Inst.
