(* Lemmas about Model/Constraints.v : the decision logic of validate_constraints. *)
From Coq Require Import List Arith Bool Lia.
From TLV Require Import Base.PyList Base.Tensor.
From TLV Require Import Model.Constraints.
Import ListNotations.

Lemma kind_id_inj a b : kind_id a = kind_id b -> a = b.
Proof. destruct a, b; simpl; intro H; try reflexivity; discriminate H. Qed.
Lemma kind_eqb_eq a b : kind_eqb a b = true <-> a = b.
Proof. unfold kind_eqb. rewrite Nat.eqb_eq. split; [apply kind_id_inj | intros ->; reflexivity]. Qed.
Lemma all_kinds_NoDup : NoDup all_kinds.
Proof.
  unfold all_kinds. repeat constructor; simpl; intro H; repeat (destruct H as [H | H]; [discriminate H |]); exact H.
Qed.
Lemma all_kinds_complete k : In k all_kinds.
Proof. destruct k; simpl; tauto. Qed.

Section Spec.
  Context {P : Type} (truthy : P -> bool).
  Notation spec := (@spec P).
  Notation table := (@table P).

  (* ---------------------------------------------------------------- what the user asked for *)
  (* keyword value s asks for parameter p on mode m (n modes) *)
  Definition requested (n : nat) (s : spec) (m : nat) (p : P) : Prop :=
    match s with
    | SNone => False
    | SScalar q => truthy q = true /\ m < n /\ p = q
    | SList l => nth_error l m = Some (Some p) /\ truthy p = true
    | SDict d => In (m, p) d
    end.

  (* Python dicts have distinct keys *)
  Definition wf_spec (s : spec) : Prop :=
    match s with SDict d => NoDup (map fst d) | _ => True end.

  Definition hits (n : nat) (s : spec) (m : nat) : Prop := In m (map fst (assigns truthy n s)).

  Lemma list_assigns_spec l : forall i m p,
    In (m, p) (list_assigns truthy i l) <-> i <= m /\ nth_error l (m - i) = Some (Some p) /\ truthy p = true.
  Proof.
    induction l as [|e r IH]; intros i m p; simpl.
    - split; [tauto|]. intros (_ & H & _). destruct (m - i); discriminate H.
    - assert (Hr : In (m, p) (list_assigns truthy (S i) r) <->
                   i <= m /\ m <> i /\ nth_error (e :: r) (m - i) = Some (Some p) /\ truthy p = true).
      { rewrite IH. split.
        - intros (H1 & H2 & H3). repeat split; try lia; auto.
          replace (m - i) with (S (m - S i)) by lia. exact H2.
        - intros (H1 & H2 & H3 & H4). repeat split; try lia; auto.
          replace (m - i) with (S (m - S i)) in H3 by lia. exact H3. }
      destruct e as [q|].
      + destruct (truthy q) eqn:Tq.
        * simpl. rewrite Hr. split.
          -- intros [H | H].
             ++ inversion H; subst. rewrite Nat.sub_diag. simpl. auto.
             ++ tauto.
          -- intros (H1 & H2 & H3). destruct (Nat.eq_dec m i) as [->|Hne].
             ++ rewrite Nat.sub_diag in H2. simpl in H2. inversion H2; subst. left; reflexivity.
             ++ right. tauto.
        * rewrite Hr. split; [tauto|]. intros (H1 & H2 & H3). repeat split; auto.
          intros ->. rewrite Nat.sub_diag in H2. simpl in H2. inversion H2; subst. congruence.
      + rewrite Hr. split; [tauto|]. intros (H1 & H2 & H3). repeat split; auto.
        intros ->. rewrite Nat.sub_diag in H2. simpl in H2. discriminate H2.
  Qed.

  Lemma assigns_requested n s m p : In (m, p) (assigns truthy n s) <-> requested n s m p.
  Proof.
    unfold assigns. destruct s as [|q|l|d]; simpl.
    - tauto.
    - destruct (truthy q) eqn:Tq.
      + rewrite in_map_iff. split.
        * intros (i & Hi & Hin). inversion Hi; subst. apply in_seq in Hin. repeat split; auto; lia.
        * intros (_ & Hm & ->). exists m. split; auto. apply in_seq. lia.
      + split; [intros []|]. intros (H & _). discriminate H.
    - destruct l as [|e r]; simpl negb; cbv iota.
      + split; [intros []|]. intros (H & _). destruct m; discriminate H.
      + rewrite list_assigns_spec. rewrite Nat.sub_0_r. split; [tauto|]. intros (H1 & H2). repeat split; auto; lia.
    - destruct d as [|e r]; simpl negb; cbv iota; tauto.
  Qed.

  Lemma hits_requested n s m : hits n s m <-> exists p, requested n s m p.
  Proof.
    unfold hits. rewrite in_map_iff. split.
    - intros ([m' p] & E & H). simpl in E. subst. exists p. apply assigns_requested. exact H.
    - intros (p & H). exists (m, p). split; auto. apply assigns_requested. exact H.
  Qed.

  Lemma list_assigns_NoDup l : forall i, NoDup (map fst (list_assigns truthy i l)).
  Proof.
    induction l as [|e r IH]; intros i; simpl; [constructor|].
    destruct e as [q|]; [destruct (truthy q)|]; auto.
    simpl. constructor; auto. rewrite in_map_iff. intros ([m p] & E & H). simpl in E. subst.
    apply list_assigns_spec in H. lia.
  Qed.

  Lemma assigns_NoDup n s : wf_spec s -> NoDup (map fst (assigns truthy n s)).
  Proof.
    intros W. unfold assigns. destruct (spec_truthy truthy s); [|constructor].
    destruct s as [|q|l|d]; simpl.
    - constructor.
    - rewrite map_map. simpl. rewrite map_id. apply seq_NoDup.
    - apply list_assigns_NoDup.
    - exact W.
  Qed.

  Lemma hits_dec n s m : hits n s m \/ ~ hits n s m.
  Proof. unfold hits. destruct (in_dec Nat.eq_dec m (map fst (assigns truthy n s))); auto. Qed.

  (* ---------------------------------------------------------------- the scan *)
  Lemma add_all_ok : forall ms seen seen', add_all seen ms = Ok seen' ->
    NoDup ms /\ (forall m, In m ms -> ~ In m seen) /\ (forall m, In m seen' <-> In m ms \/ In m seen).
  Proof.
    induction ms as [|a r IH]; intros seen seen' H; simpl in H.
    - inversion H; subst. split; [constructor|]. split; [intros m []|]. intros m; simpl; tauto.
    - destruct (memb a seen) eqn:E; [discriminate H|].
      assert (Ha : ~ In a seen) by (rewrite <- memb_In, E; discriminate).
      apply IH in H. destruct H as (N & D & S).
      split; [|split].
      + constructor; auto. intro Hin. apply (D a Hin). left; reflexivity.
      + intros m [<- | Hm]; auto. intro Hs. apply (D m Hm). right; exact Hs.
      + intros m. rewrite S. simpl. tauto.
  Qed.

  Lemma add_all_err : forall ms seen, add_all seen ms = Err -> NoDup ms -> exists m, In m ms /\ In m seen.
  Proof.
    induction ms as [|a r IH]; intros seen H N; simpl in H; [discriminate H|].
    inversion N as [|? ? Na Nr]; subst.
    destruct (memb a seen) eqn:E.
    - exists a. split; [left; reflexivity|]. apply memb_In. exact E.
    - apply IH in H; auto. destruct H as (m & H1 & [<- | H2]); [tauto|].
      exists m. split; [right|]; assumption.
  Qed.

  Definition Hits (n : nat) (sp : list (kind * spec)) (m : nat) : Prop :=
    exists k s, In (k, s) sp /\ hits n s m.
  Definition disj (n : nat) (a b : kind * spec) : Prop := forall m, ~ (hits n (snd a) m /\ hits n (snd b) m).

  Lemma Hits_dec n sp m : Hits n sp m \/ ~ Hits n sp m.
  Proof.
    induction sp as [|[k s] r IH].
    - right. intros (k & s & [] & _).
    - destruct (hits_dec n s m) as [H | H].
      + left. exists k, s. split; [left; reflexivity | exact H].
      + destruct IH as [(k' & s' & Hin & Hh) | IH].
        * left. exists k', s'. split; [right|]; assumption.
        * right. intros (k' & s' & [E | Hin] & Hh).
          -- inversion E; subst. tauto.
          -- apply IH. exists k', s'. tauto.
  Qed.

  Lemma scan_one_ok n seen s seen' : scan_one truthy n seen s = Ok seen' -> wf_spec s ->
    (forall m, hits n s m -> ~ In m seen) /\ (forall m, In m seen' <-> hits n s m \/ In m seen).
  Proof.
    unfold scan_one, hits. intros H W.
    destruct (spec_truthy truthy s) eqn:T.
    - destruct s as [|q|l|d].
      + discriminate T.
      + destruct seen as [|x seen]; [|discriminate H].
        apply add_all_ok in H. destruct H as (_ & _ & S).
        unfold assigns. rewrite T. rewrite map_map. simpl. rewrite map_id.
        split; [intros m _ []|exact S].
      + apply add_all_ok in H. tauto.
      + apply add_all_ok in H. tauto.
    - inversion H; subst. unfold assigns. rewrite T. simpl. split; [intros m []|]. intros m; tauto.
  Qed.

  Lemma scan_ok n : forall sp seen seen', scan truthy n seen sp = Ok seen' -> Forall (fun a => wf_spec (snd a)) sp ->
    (forall m, In m seen' <-> In m seen \/ Hits n sp m) /\ ForallOrdPairs (disj n) sp /\ (forall m, Hits n sp m -> ~ In m seen).
  Proof.
    induction sp as [|[k s] r IH]; intros seen seen' H W; simpl in H.
    - inversion H; subst. split; [|split].
      + intros m. split; [tauto|]. intros [H1 | (k & s & [] & _)]; exact H1.
      + constructor.
      + intros m (k & s & [] & _).
    - inversion W as [|? ? Ws Wr]; subst. simpl in Ws.
      destruct (scan_one truthy n seen s) as [seen1|] eqn:E1; simpl in H; [|discriminate H].
      apply scan_one_ok in E1; auto. destruct E1 as (D1 & S1).
      apply IH in H; auto. destruct H as (S2 & F2 & D2).
      split; [|split].
      + intros m. rewrite S2, S1. split.
        * intros [[Hh | Hs] | (k' & s' & Hin & Hh)].
          -- right. exists k, s. split; [left; reflexivity | exact Hh].
          -- left; exact Hs.
          -- right. exists k', s'. split; [right|]; assumption.
        * intros [Hs | (k' & s' & [E | Hin] & Hh)].
          -- left; right; exact Hs.
          -- inversion E; subst. left; left; exact Hh.
          -- right. exists k', s'. tauto.
      + constructor; auto. apply Forall_forall. intros [k' s'] Hin m [H1 H2]. simpl in *.
        apply (D2 m); [exists k', s'; tauto|]. apply S1. left; exact H1.
      + intros m (k' & s' & [E | Hin] & Hh).
        * inversion E; subst. apply D1; exact Hh.
        * intro Hs. apply (D2 m); [exists k', s'; tauto|]. apply S1. right; exact Hs.
  Qed.

  (* two different keywords address one mode *)
  Definition double (n : nat) (sp : list (kind * spec)) : Prop :=
    exists k1 s1 k2 s2 m, In (k1, s1) sp /\ In (k2, s2) sp /\ k1 <> k2 /\ hits n s1 m /\ hits n s2 m.
  (* a keyword addresses a mode that does not exist *)
  Definition out_of_range (n : nat) (sp : list (kind * spec)) : Prop := exists m, Hits n sp m /\ n <= m.

  Lemma scan_err n : forall sp seen, scan truthy n seen sp = Err -> Forall (fun a => wf_spec (snd a)) sp -> NoDup (map fst sp) ->
    (exists m, In m seen /\ Hits n sp m) \/ double n sp \/ (exists m, n <= m /\ (In m seen \/ Hits n sp m)).
  Proof.
    induction sp as [|[k s] r IH]; intros seen H W N; simpl in H; [discriminate H|].
    inversion W as [|? ? Ws Wr]; subst. simpl in Ws. simpl in N. inversion N as [|? ? Nk Nr]; subst.
    destruct (scan_one truthy n seen s) as [seen1|] eqn:E1; simpl in H.
    - pose proof (scan_one_ok _ _ _ _ E1 Ws) as (D1 & S1).
      apply IH in H; auto.
      destruct H as [(m & Hm & (k' & s' & Hin & Hh)) | [Hd | (m & Hge & Hm)]].
      + apply S1 in Hm. destruct Hm as [Hm | Hm].
        * right; left. exists k, s, k', s', m. repeat split; auto; [left; reflexivity | right; exact Hin |].
          intros ->. apply Nk. apply in_map_iff. exists (k', s'). auto.
        * left. exists m. split; auto. exists k', s'. split; [right|]; assumption.
      + right; left. destruct Hd as (k1 & s1 & k2 & s2 & m & H1 & H2 & H3). exists k1, s1, k2, s2, m.
        repeat split; try tauto; right; tauto.
      + right; right. exists m. split; auto. destruct Hm as [Hm | (k' & s' & Hin & Hh)].
        * apply S1 in Hm. destruct Hm as [Hm | Hm]; [right | left; exact Hm].
          exists k, s. split; [left; reflexivity | exact Hm].
        * right. exists k', s'. split; [right|]; assumption.
    - clear IH H. unfold scan_one in E1. destruct (spec_truthy truthy s) eqn:T; [|discriminate E1].
      assert (Gen : add_all seen (map fst (assigns truthy n s)) = Err ->
                    exists m, In m seen /\ Hits n ((k, s) :: r) m).
      { intros HE. apply add_all_err in HE; [|apply assigns_NoDup; exact Ws].
        destruct HE as (m & H1 & H2). exists m. split; auto. exists k, s. split; [left; reflexivity | exact H1]. }
      destruct s as [|q|l|d]; try (left; apply Gen; exact E1).
      destruct seen as [|x seen].
      + exfalso. pose proof (add_all_err _ _ E1 (seq_NoDup n 0)) as (m & _ & []).
      + destruct (lt_dec x n) as [Hx | Hx].
        * left. exists x. split; [left; reflexivity|]. exists k, (SScalar q). split; [left; reflexivity|].
          apply hits_requested. exists q. simpl. simpl in T. auto.
        * right; right. exists x. split; [lia|]. left; left; reflexivity.
  Qed.

  (* ---------------------------------------------------------------- the registration *)
  Lemma write_length : forall (asg : list (nat * P)) (tab : table) k tab', write tab k asg = Ok tab' -> length tab' = length tab.
  Proof.
    induction asg as [|[m p] r IH]; intros tab k tab' H; simpl in H.
    - inversion H; reflexivity.
    - destruct (m <? length tab); [|discriminate H]. apply IH in H. rewrite H. apply set_nth_length.
  Qed.

  Lemma write_ok : forall (asg : list (nat * P)) (tab : table) k tab', write tab k asg = Ok tab' -> NoDup (map fst asg) ->
    (forall m p, In (m, p) asg -> m < length tab /\ nth m tab' None = Some (k, p)) /\
    (forall m, ~ In m (map fst asg) -> nth m tab' None = nth m tab None).
  Proof.
    induction asg as [|[m0 p0] r IH]; intros tab k tab' H N; simpl in H.
    - inversion H; subst. split; [intros m p []|]. reflexivity.
    - simpl in N. inversion N as [|? ? N0 Nr]; subst.
      destruct (m0 <? length tab) eqn:L; [|discriminate H]. apply Nat.ltb_lt in L.
      pose proof (IH _ _ _ H Nr) as (A & B).
      split.
      + intros m p [E | Hin].
        * inversion E; subst. split; auto. rewrite B; auto. apply nth_set_nth_same; exact L.
        * destruct (A m p Hin) as (A1 & A2). rewrite set_nth_length in A1. auto.
      + intros m Hm. simpl in Hm. rewrite B by tauto. apply nth_set_nth_other. intros ->. tauto.
  Qed.

  Lemma write_err : forall (asg : list (nat * P)) (tab : table) k, write tab k asg = Err <-> exists m p, In (m, p) asg /\ length tab <= m.
  Proof.
    induction asg as [|[m0 p0] r IH]; intros tab k; simpl.
    - split; [discriminate|]. intros (m & p & [] & _).
    - destruct (m0 <? length tab) eqn:L.
      + apply Nat.ltb_lt in L. rewrite IH. rewrite set_nth_length. split.
        * intros (m & p & H1 & H2). exists m, p. tauto.
        * intros (m & p & [E | H1] & H2); [inversion E; subst; lia|]. exists m, p. tauto.
      + apply Nat.ltb_ge in L. split; [|reflexivity]. intros _. exists m0, p0. split; [left; reflexivity | exact L].
  Qed.

  Lemma register_length n : forall sp tab tab', register truthy n tab sp = Ok tab' -> length tab' = length tab.
  Proof.
    induction sp as [|[k s] r IH]; intros tab tab' H; simpl in H.
    - inversion H; reflexivity.
    - destruct (write tab k (assigns truthy n s)) as [t1|] eqn:E; simpl in H; [|discriminate H].
      apply IH in H. apply write_length in E. congruence.
  Qed.

  Lemma register_err n : forall sp tab, register truthy n tab sp = Err <-> exists m, Hits n sp m /\ length tab <= m.
  Proof.
    induction sp as [|[k s] r IH]; intros tab; simpl.
    - split; [discriminate|]. intros (m & (k & s & [] & _) & _).
    - destruct (write tab k (assigns truthy n s)) as [t1|] eqn:E; simpl.
      + rewrite IH. rewrite (write_length _ _ _ _ E). split.
        * intros (m & (k' & s' & Hin & Hh) & Hl). exists m. split; auto. exists k', s'. split; [right|]; assumption.
        * intros (m & (k' & s' & [E' | Hin] & Hh) & Hl).
          -- injection E' as Ek Es. subst k' s'. exfalso. unfold hits in Hh. apply in_map_iff in Hh. destruct Hh as ([m' p] & Em & Hin).
             simpl in Em; subst. assert (X : write tab k (assigns truthy n s) = Err) by (apply write_err; exists m, p; auto).
             congruence.
          -- exists m. split; auto. exists k', s'. tauto.
      + split; [|reflexivity]. intros _. apply write_err in E. destruct E as (m & p & H1 & H2).
        exists m. split; auto. exists k, s. split; [left; reflexivity|]. unfold hits. apply in_map_iff. exists (m, p). auto.
  Qed.

  Lemma register_ok n : forall sp tab tab', register truthy n tab sp = Ok tab' ->
    Forall (fun a => wf_spec (snd a)) sp -> ForallOrdPairs (disj n) sp ->
    (forall k s m p, In (k, s) sp -> In (m, p) (assigns truthy n s) -> nth m tab' None = Some (k, p)) /\
    (forall m, ~ Hits n sp m -> nth m tab' None = nth m tab None).
  Proof.
    induction sp as [|[k s] r IH]; intros tab tab' H W F; simpl in H.
    - inversion H; subst. split; [intros k s m p []|]. reflexivity.
    - inversion W as [|? ? Ws Wr]; subst. simpl in Ws. inversion F as [|? ? Fa Fr]; subst.
      destruct (write tab k (assigns truthy n s)) as [t1|] eqn:E; simpl in H; [|discriminate H].
      pose proof (write_ok _ _ _ _ E (assigns_NoDup n s Ws)) as (A & B).
      pose proof (IH _ _ H Wr Fr) as (A2 & B2).
      split.
      + intros k' s' m p [E' | Hin] Hreq.
        * inversion E'; subst. rewrite B2; [apply A; exact Hreq|].
          intros (k2 & s2 & Hin2 & Hh2). rewrite Forall_forall in Fa. apply (Fa (k2, s2) Hin2 m). simpl. split; auto.
          unfold hits. apply in_map_iff. exists (m, p). auto.
        * eapply A2; eauto.
      + intros m Hn. rewrite B2.
        * apply B. intro Hh. apply Hn. exists k, s. split; [left; reflexivity | exact Hh].
        * intros (k2 & s2 & Hin2 & Hh2). apply Hn. exists k2, s2. split; [right|]; assumption.
  Qed.

  (* ---------------------------------------------------------------- validate_constraints *)
  Definition wf_specs (sp : list (kind * spec)) : Prop :=
    NoDup (map fst sp) /\ Forall (fun a => wf_spec (snd a)) sp.

  Lemma double_not_disj n sp : double n sp -> ForallOrdPairs (disj n) sp -> False.
  Proof.
    intros (k1 & s1 & k2 & s2 & m & H1 & H2 & Hne & Hh1 & Hh2) F.
    destruct (ForallOrdPairs_In F _ _ H1 H2) as [E | [D | D]].
    - inversion E; subst; tauto.
    - apply (D m). simpl. tauto.
    - apply (D m). simpl. tauto.
  Qed.

  (* Err  <->  two keywords address one mode, or a keyword addresses a mode >= n *)
  Theorem validate_table_err_iff n sp : wf_specs sp ->
    (validate_table truthy n sp = Err <-> double n sp \/ out_of_range n sp).
  Proof.
    intros (N & W). unfold validate_table. split.
    - destruct (scan truthy n [] sp) as [seen|] eqn:E; simpl.
      + intros H. right. apply register_err in H. rewrite repeat_length in H. exact H.
      + intros _. apply scan_err in E; auto.
        destruct E as [(m & [] & _) | [D | (m & Hge & [[] | Hh])]]; [left; exact D|].
        right. exists m. auto.
    - intros [D | O].
      + destruct (scan truthy n [] sp) as [seen|] eqn:E; simpl; [|reflexivity].
        exfalso. apply scan_ok in E; auto. eapply double_not_disj; [exact D | tauto].
      + destruct (scan truthy n [] sp) as [seen|] eqn:E; simpl; [|reflexivity].
        apply register_err. rewrite repeat_length. exact O.
  Qed.

  Lemma nth_repeat_None {A} n m : nth m (repeat (@None A) n) None = None.
  Proof. revert m; induction n; intros [|m]; simpl; auto. Qed.

  (* Ok table: entry m is exactly what the user asked for on mode m *)
  (* a scan that succeeds has seen well-formed values only: a dict with a repeated key is rejected by the scan itself *)
  Lemma scan_one_wf n seen s seen' : scan_one truthy n seen s = Ok seen' -> wf_spec s.
  Proof.
    destruct s as [|q|l|d]; simpl; auto.
    destruct d as [|e r]; [constructor|].
    unfold scan_one, assigns. cbn [spec_truthy is_nil negb]. intros H. apply add_all_ok in H. tauto.
  Qed.

  Lemma scan_wf n : forall sp seen seen', scan truthy n seen sp = Ok seen' -> Forall (fun a => wf_spec (snd a)) sp.
  Proof.
    induction sp as [|[k s] r IH]; intros seen seen' H; simpl in H; [constructor|].
    destruct (scan_one truthy n seen s) as [seen1|] eqn:E1; simpl in H; [|discriminate H].
    constructor; [simpl; eapply scan_one_wf; eauto | eapply IH; eauto].
  Qed.

  (* Ok table: entry m is exactly what the user asked for on mode m - no hypothesis at all *)
  Theorem validate_table_ok_any n sp tab : validate_table truthy n sp = Ok tab ->
    length tab = n /\
    (forall m k p, nth m tab None = Some (k, p) <-> exists s, In (k, s) sp /\ requested n s m p) /\
    (forall m, nth m tab None = None <-> forall k s p, In (k, s) sp -> ~ requested n s m p).
  Proof.
    intros H. assert (W : Forall (fun a => wf_spec (snd a)) sp).
    { unfold validate_table in H. destruct (scan truthy n [] sp) as [seen|] eqn:E; simpl in H; [|discriminate H].
      eapply scan_wf; eauto. }
    unfold validate_table in H.
    destruct (scan truthy n [] sp) as [seen|] eqn:E; simpl in H; [|discriminate H].
    apply scan_ok in E; auto. destruct E as (_ & F & _).
    pose proof (register_length _ _ _ _ H) as L. rewrite repeat_length in L.
    pose proof (register_ok _ _ _ _ H W F) as (A & B).
    assert (Fwd : forall m k p, (exists s, In (k, s) sp /\ requested n s m p) -> nth m tab None = Some (k, p)).
    { intros m k p (s & Hin & Hr). eapply A; eauto. apply assigns_requested. exact Hr. }
    split; [exact L|]. split.
    - intros m k p. split; [|apply Fwd].
      intros Hn. destruct (Hits_dec n sp m) as [(k' & s' & Hin & Hh) | Hno].
      + apply hits_requested in Hh. destruct Hh as (p' & Hr).
        assert (X : nth m tab None = Some (k', p')) by (apply Fwd; exists s'; auto).
        rewrite X in Hn. inversion Hn; subst. exists s'. auto.
      + rewrite (B m Hno), nth_repeat_None in Hn. discriminate Hn.
    - intros m. split.
      + intros Hn k s p Hin Hr. rewrite (Fwd m k p) in Hn; [discriminate Hn|]. exists s; auto.
      + intros Hno. rewrite B; [apply nth_repeat_None|].
        intros (k & s & Hin & Hh). apply hits_requested in Hh. destruct Hh as (p & Hr). eapply Hno; eauto.
  Qed.

  Theorem validate_table_ok n sp tab : wf_specs sp -> validate_table truthy n sp = Ok tab ->
    length tab = n /\
    (forall m k p, nth m tab None = Some (k, p) <-> exists s, In (k, s) sp /\ requested n s m p) /\
    (forall m, nth m tab None = None <-> forall k s p, In (k, s) sp -> ~ requested n s m p).
  Proof.
    intros (N & W) H. unfold validate_table in H.
    destruct (scan truthy n [] sp) as [seen|] eqn:E; simpl in H; [|discriminate H].
    apply scan_ok in E; auto. destruct E as (_ & F & _).
    pose proof (register_length _ _ _ _ H) as L. rewrite repeat_length in L.
    pose proof (register_ok _ _ _ _ H W F) as (A & B).
    assert (Fwd : forall m k p, (exists s, In (k, s) sp /\ requested n s m p) -> nth m tab None = Some (k, p)).
    { intros m k p (s & Hin & Hr). eapply A; eauto. apply assigns_requested. exact Hr. }
    split; [exact L|]. split.
    - intros m k p. split; [|apply Fwd].
      intros Hn. destruct (Hits_dec n sp m) as [(k' & s' & Hin & Hh) | Hno].
      + apply hits_requested in Hh. destruct Hh as (p' & Hr).
        assert (X : nth m tab None = Some (k', p')) by (apply Fwd; exists s'; auto).
        rewrite X in Hn. inversion Hn; subst. exists s'. auto.
      + rewrite (B m Hno), nth_repeat_None in Hn. discriminate Hn.
    - intros m. split.
      + intros Hn k s p Hin Hr. rewrite (Fwd m k p) in Hn; [discriminate Hn|]. exists s; auto.
      + intros Hno. rewrite B; [apply nth_repeat_None|].
        intros (k & s & Hin & Hh). apply hits_requested in Hh. destruct Hh as (p & Hr). eapply Hno; eauto.
  Qed.

  (* a mode gets at most one (constraint, parameter) when the table exists *)
  Lemma request_unique n sp tab : wf_specs sp -> validate_table truthy n sp = Ok tab ->
    forall m k1 s1 p1 k2 s2 p2, In (k1, s1) sp -> In (k2, s2) sp -> requested n s1 m p1 -> requested n s2 m p2 ->
    k1 = k2 /\ p1 = p2.
  Proof.
    intros Wf H m k1 s1 p1 k2 s2 p2 I1 I2 R1 R2.
    destruct (validate_table_ok n sp tab Wf H) as (_ & A & _).
    assert (X1 : nth m tab None = Some (k1, p1)) by (apply A; exists s1; auto).
    assert (X2 : nth m tab None = Some (k2, p2)) by (apply A; exists s2; auto).
    rewrite X1 in X2. inversion X2; auto.
  Qed.

  Theorem validate_spec n sp order c : wf_specs sp -> validate truthy n sp order = Ok c ->
    order < n /\
    (forall k p, c = Some (k, p) <-> exists s, In (k, s) sp /\ requested n s order p) /\
    (c = None <-> forall k s p, In (k, s) sp -> ~ requested n s order p).
  Proof.
    intros Wf H. unfold validate in H.
    destruct (validate_table truthy n sp) as [tab|] eqn:E; simpl in H; [|discriminate H].
    destruct (order <? n) eqn:L; [|discriminate H]. apply Nat.ltb_lt in L. inversion H; subst.
    destruct (validate_table_ok n sp tab Wf E) as (_ & A & B).
    split; [exact L|]. split; [intros k p; apply A | apply B].
  Qed.

  Lemma validate_err_iff n sp order : wf_specs sp ->
    (validate truthy n sp order = Err <-> double n sp \/ out_of_range n sp \/ n <= order).
  Proof.
    intros Wf. unfold validate. pose proof (validate_table_err_iff n sp Wf) as T.
    destruct (validate_table truthy n sp) as [tab|] eqn:E; simpl.
    - destruct (order <? n) eqn:L.
      + apply Nat.ltb_lt in L. split; [discriminate|]. intros [D | [O | G]]; [| |lia].
        * assert (X : @Ok table tab = Err) by (apply T; auto). discriminate X.
        * assert (X : @Ok table tab = Err) by (apply T; auto). discriminate X.
      + apply Nat.ltb_ge in L. split; auto.
    - split; [|reflexivity]. intros _. destruct T as [T _]. destruct (T eq_refl); auto.
  Qed.

  (* the call site zips the twelve keywords with their names: always well-formed up to the dict keys *)
  Lemma keywords_wf (f : kind -> spec) : (forall k, wf_spec (f k)) -> wf_specs (keywords f).
  Proof.
    intros W. unfold wf_specs, keywords. split.
    - rewrite map_map. rewrite (map_ext _ (fun x => x)) by reflexivity. rewrite map_id. apply all_kinds_NoDup.
    - apply Forall_forall. intros a Ha. apply in_map_iff in Ha. destruct Ha as (k & <- & _). simpl. apply W.
  Qed.
  Lemma keywords_In (f : kind -> spec) k s : In (k, s) (keywords f) <-> s = f k.
  Proof.
    unfold keywords. rewrite in_map_iff. split.
    - intros (k' & E & _). inversion E; subst; reflexivity.
    - intros ->. exists k. split; auto. apply all_kinds_complete.
  Qed.
  (* the statements at the real call site: twelve keywords, each its own spec *)
  Theorem keywords_table n (f : kind -> spec) tab : (forall k, wf_spec (f k)) ->
    validate_table truthy n (keywords f) = Ok tab ->
    length tab = n /\
    (forall m k p, nth m tab None = Some (k, p) <-> requested n (f k) m p) /\
    (forall m, nth m tab None = None <-> forall k p, ~ requested n (f k) m p).
  Proof.
    intros W H. destruct (validate_table_ok n _ tab (keywords_wf f W) H) as (L & A & B).
    split; [exact L|]. split.
    - intros m k p. rewrite A. split.
      + intros (s & Hin & Hr). apply keywords_In in Hin. subst s. exact Hr.
      + intros Hr. exists (f k). split; [apply keywords_In; reflexivity | exact Hr].
    - intros m. rewrite B. split.
      + intros Hno k p. apply (Hno k (f k) p). apply keywords_In; reflexivity.
      + intros Hno k s p Hin. apply keywords_In in Hin. subst s. apply Hno.
  Qed.

  Theorem keywords_err_iff n (f : kind -> spec) : (forall k, wf_spec (f k)) ->
    (validate_table truthy n (keywords f) = Err <->
     (exists k1 k2 m p1 p2, k1 <> k2 /\ requested n (f k1) m p1 /\ requested n (f k2) m p2) \/
     (exists k m p, requested n (f k) m p /\ n <= m)).
  Proof.
    intros W. rewrite (validate_table_err_iff n _ (keywords_wf f W)). unfold double, out_of_range, Hits. split.
    - intros [(k1 & s1 & k2 & s2 & m & I1 & I2 & Hne & H1 & H2) | (m & (k & s & I & Hh) & Hge)].
      + apply keywords_In in I1, I2. subst. apply hits_requested in H1, H2.
        destruct H1 as (p1 & H1). destruct H2 as (p2 & H2). left. exists k1, k2, m, p1, p2. auto.
      + apply keywords_In in I. subst. apply hits_requested in Hh. destruct Hh as (p & Hr).
        right. exists k, m, p. auto.
    - intros [(k1 & k2 & m & p1 & p2 & Hne & H1 & H2) | (k & m & p & Hr & Hge)].
      + left. exists k1, (f k1), k2, (f k2), m. repeat split; auto; try (apply keywords_In; reflexivity);
          apply hits_requested; eauto.
      + right. exists m. split; auto. exists k, (f k). split; [apply keywords_In; reflexivity|].
        apply hits_requested; eauto.
  Qed.
End Spec.
