(* The class API (ConstrainedCP(...).fit_transform) and the function with its coded stopping rule inherit the theorems of the skeleton:
   a successful call is a run of constrained_cp (Proofs/ConstraintsProofsStop.v cp_c_ok), so the returned factor of a mode on which
   a constraint was requested (computed initialisation, or updated at least once) lies in the constraint set of that kind. *)
From Coq Require Import List Arith Bool Lia ZArith Reals.
From TLV Require Import Base.PyList Base.Tensor Base.Ops Model.Prox Model.Constraints Model.ConstraintsStop.
From TLV Require Import Proofs.ConstraintsProofs Proofs.ConstraintsProofsLoop Proofs.ConstraintsProofsKeys Proofs.ConstraintsProofsFeasible
  Proofs.ConstraintsProofsStop.
Import ListNotations.
Close Scope R_scope.

Section ClassFeasible.
  Context {P : Type} (truthy : P -> bool) (toR : P -> R) (toN : P -> nat) (other : kind -> P -> mat -> mat).
  Variables (dM : mat) (msub madd : mat -> mat -> mat).

  Theorem cp_c_feasible n (sp : list (kind * @zspec P)) (E : env (M := mat)) (S : stop_env (M := mat)) i0 fixed n_outer n_inner zero fs m k s p :
    constrained_cp_c dM (op_c12 toR toN other) (zvalidate truthy n sp) msub madd E S n i0 fixed n_outer n_inner zero = Ok fs ->
    m < length fs -> init_computed i0 = true \/ (In m (modes_list n fixed) /\ 0 < n_outer /\ 0 < n_inner) ->
    In (k, s) sp -> zrequested truthy n s m p -> feas_c12 toR toN k p (nth m fs dM).
  Proof.
    intros H Hm Hu Hin Hr. apply cp_c_ok in H.
    exact (cp_feasible truthy toR toN other dM msub madd n sp (with_stop E S) i0 fixed n_outer n_inner zero fs m H Hm Hu k s p Hin Hr).
  Qed.

  Theorem fit_transform_feasible (self : cp_object (P := P) (M := mat)) (E : env (M := mat)) n zero fs m k p :
    fit_transform truthy dM (op_c12 toR toN other) msub madd self E n zero = Ok fs ->
    m < length fs -> init_computed (o_init self) = true \/ (In m (modes_list n (o_fixed self)) /\ 0 < o_outer self /\ 0 < o_inner self) ->
    zrequested truthy n (o_specs self k) m p -> feas_c12 toR toN k p (nth m fs dM).
  Proof.
    unfold fit_transform. intros H Hm Hu Hr.
    eapply cp_c_feasible; eauto. apply zkeywords_In. reflexivity.
  Qed.

  (* a request with two constraints on one mode is rejected by the class API too *)
  Theorem fit_transform_rejects (self : cp_object (P := P) (M := mat)) (E : env (M := mat)) n zero :
    zvalidate_table truthy n (zkeywords (o_specs self)) = Err ->
    fit_transform truthy dM (op_c12 toR toN other) msub madd self E n zero = Err.
  Proof.
    intros H. unfold fit_transform, constrained_cp_c, zvalidate. rewrite H. reflexivity.
  Qed.
End ClassFeasible.
