(* The EXACT input class on which max-normalisation / normalised sparsity leave their constraint set (round 8).
   The two `_partial` end-to-end theorems carry side conditions on the operator's input (not zero / kept part not zero).  Here the side
   conditions are shown to be exact: on a matrix proper the operator's output has max |entry| = 1 (unit l2 norm) IF AND ONLY IF the
   input (its kept part) is not zero; on the complementary class the real-arithmetic model returns the zero matrix (x / 0 = x * /0 = 0
   for x = 0; the code computes 0/0 = NaN).  Hence the feasibility of these two kinds fails on exactly one input class, the one of
   the known finding zero_operator_input_divides_0_by_0, and nowhere else. *)
From Coq Require Import List Arith Bool Lia ZArith Reals Lra.
From TLV Require Import Base.PyList Base.Tensor Base.Ops Model.Prox Proofs.ProxProofs Proofs.ProxProofsHard Proofs.ProxProofsMono Proofs.ProxProofsRefute.
From TLV Require Import Model.ConstraintsOps Model.Constraints Proofs.ConstraintsProofs Proofs.ConstraintsProofsLoop
  Proofs.ConstraintsProofsKeys Proofs.ConstraintsProofsTotal Proofs.ConstraintsProofsFeasible.
Import ListNotations.
Open Scope R_scope.

Definition all_zero (v : list R) : Prop := Forall (fun a => a = 0) v.

Lemma fabs_nonneg a : 0 <= fabs Rops a.
Proof. unfold fabs. cbn. unfold Rleb. destruct (Rle_dec 0 a); lra. Qed.
Lemma fabs_zero a : fabs Rops a = 0 -> a = 0.
Proof. unfold fabs. cbn. unfold Rleb. destruct (Rle_dec 0 a); lra. Qed.
Lemma fmax_ge a b : a <= fmax Rops a b /\ b <= fmax Rops a b.
Proof. unfold fmax. cbn. unfold Rleb. destruct (Rle_dec a b); lra. Qed.
Lemma maxabs_cons a v : maxabs Rops (a :: v) = fmax Rops (fabs Rops a) (maxabs Rops v).
Proof. reflexivity. Qed.

Lemma maxabs_zero_all v : maxabs Rops v = 0 -> all_zero v.
Proof.
  induction v as [|a v IH]; intros H; [constructor|].
  rewrite maxabs_cons in H. pose proof (fmax_ge (fabs Rops a) (maxabs Rops v)) as (G1 & G2).
  pose proof (fabs_nonneg a). pose proof (maxabs_nonneg v).
  constructor; [apply fabs_zero; lra | apply IH; lra].
Qed.
Lemma all_zero_maxabs v : all_zero v -> maxabs Rops v = 0.
Proof.
  induction 1 as [|a v Ha _ IH]; [reflexivity|]. subst a. rewrite maxabs_cons, IH.
  unfold fmax, fabs. cbn. unfold Rleb. destruct (Rle_dec 0 0); [|lra]. destruct (Rle_dec 0 0); lra.
Qed.
Lemma sumsq_zero_all v : sumsq Rops v = 0 -> all_zero v.
Proof.
  induction v as [|a v IH]; intros H; [constructor|].
  rewrite sumsq_cons in H. pose proof (sumsq_nonneg v). pose proof (sq_nonneg a). unfold Rsqr in *.
  constructor; [nra | apply IH; nra].
Qed.
Lemma all_zero_sumsq v : all_zero v -> sumsq Rops v = 0.
Proof. induction 1 as [|a v Ha _ IH]; [reflexivity|]. subst a. rewrite sumsq_cons, IH. ring. Qed.
Lemma all_zero_div s v : all_zero v -> all_zero (map (fun x => fdiv Rops x s) v).
Proof. induction 1 as [|a v Ha _ IH]; [constructor|]. subst a. cbn [map]. constructor; [cbn; unfold Rdiv; ring | exact IH]. Qed.

(* max-normalisation of a vector: max |entry| = 1 exactly when the input is not zero; a zero input comes back as zero *)
Theorem normalize_exact v : maxabs Rops (normalize Rops v) = 1 <-> 0 < maxabs Rops v.
Proof.
  split; [|apply maxnorm_partial].
  intros H. destruct (Rlt_dec 0 (maxabs Rops v)) as [L|L]; [exact L|]. exfalso.
  pose proof (maxabs_nonneg v). assert (Z : maxabs Rops v = 0) by lra.
  apply maxabs_zero_all in Z. unfold normalize in H. cbv zeta in H.
  rewrite (all_zero_maxabs _ (all_zero_div _ _ Z)) in H. lra.
Qed.
Theorem normalize_zero_input v : maxabs Rops v = 0 -> all_zero (normalize Rops v).
Proof. intros Z. apply maxabs_zero_all in Z. unfold normalize. cbv zeta. apply all_zero_div. exact Z. Qed.

(* normalised sparsity of a vector (s: the value of tl.norm of the kept part): unit l2 norm exactly when the kept part is not zero *)
Theorem normalized_sparsity_exact k v :
  sumsq Rops (normalized_sparsity_with Rops (sqrt (sumsq Rops (hard_thresholding Rops k v))) k v) = 1
  <-> sumsq Rops (hard_thresholding Rops k v) <> 0.
Proof.
  set (kept := hard_thresholding Rops k v). split.
  - intros H Z. apply sumsq_zero_all in Z. unfold normalized_sparsity_with in H. fold kept in H.
    rewrite (all_zero_sumsq _ (all_zero_div _ _ Z)) in H. lra.
  - intros Hk.
    assert (Hs : 0 < sqrt (sumsq Rops kept)) by (apply sqrt_lt_R0; pose proof (sumsq_nonneg kept); lra).
    assert (Hc : sqrt (sumsq Rops kept) * sqrt (sumsq Rops kept) = sumsq Rops kept) by (apply sqrt_sqrt, sumsq_nonneg).
    exact (proj1 (normalized_sparsity_feasible (sqrt (sumsq Rops kept)) k v Hs Hc)).
Qed.

Lemma exact_class_nonvacuous :
  rect [[1]] /\ 0 < maxabs Rops (concat [[1]]) /\ sumsq Rops (hard_thresholding Rops 1 (concat [[1]])) <> 0 /\
  rect [[0]] /\ maxabs Rops (concat [[0]]) = 0 /\ sumsq Rops (hard_thresholding Rops 0 (concat [[1]])) = 0.
Proof.
  assert (R1 : forall a : R, rect [[a]]) by (intros a r [<-|[]]; reflexivity).
  split; [apply R1|]. split.
  { cbn [concat app]. rewrite maxabs_cons. pose proof (fmax_ge (fabs Rops 1) (maxabs Rops [])) as (G & _).
    assert (fabs Rops 1 = 1) by (unfold fabs; cbn; unfold Rleb; destruct (Rle_dec 0 1); lra). lra. }
  split.
  { intros Z. apply sumsq_zero_all in Z. pose proof (hard_sparse 1 (concat [[1]])) as _.
    revert Z. cbn. unfold Rleb. repeat (destruct (Rle_dec _ _); cbn); intros Z; inversion Z; subst; lra. }
  split; [apply R1|]. split.
  { apply all_zero_maxabs. repeat constructor. }
  cbn. unfold Rleb. repeat (destruct (Rle_dec _ _); cbn); ring.
Qed.

Section Exact.
  Context {P : Type} (truthy : P -> bool) (toR : P -> R) (toN : P -> nat) (other : kind -> P -> mat -> mat).
  Local Notation op := (op_c12 toR toN other).

  Lemma normalize_concat p x : rect x -> concat (op KNormalize p x) = normalize Rops (concat x).
  Proof using Type. intros Hr. simpl. apply flatwise_rect; [exact Hr|]. unfold normalize. apply map_length. Qed.
  Lemma normsparsity_concat p x : rect x ->
    concat (op KNormSparsity p x) =
    normalized_sparsity_with Rops (sqrt (sumsq Rops (hard_thresholding Rops (toN p) (concat x)))) (toN p) (concat x).
  Proof using Type.
    intros Hr. simpl. unfold norm2.
    apply (flatwise_rect (fun v => normalized_sparsity_with Rops (sqrt (sumsq Rops (hard_thresholding Rops (toN p) v))) (toN p) v)); [exact Hr|].
    unfold normalized_sparsity_with. rewrite map_length. apply hard_thresholding_length.
  Qed.

  (* the operators on matrices: feasible IFF the input (its kept part) is not zero; otherwise the zero matrix (the code: NaN) *)
  Theorem op_normalize_exact p x : rect x ->
    (maxabs Rops (concat (op KNormalize p x)) = 1 <-> 0 < maxabs Rops (concat x)) /\
    (maxabs Rops (concat x) = 0 -> all_zero (concat (op KNormalize p x))).
  Proof using Type.
    intros Hr. rewrite (normalize_concat p x Hr). split; [apply normalize_exact | apply normalize_zero_input].
  Qed.
  Theorem op_normalized_sparsity_exact p x : rect x ->
    (sumsq Rops (concat (op KNormSparsity p x)) = 1 <-> sumsq Rops (hard_thresholding Rops (toN p) (concat x)) <> 0) /\
    (sumsq Rops (hard_thresholding Rops (toN p) (concat x)) = 0 -> all_zero (concat (op KNormSparsity p x))).
  Proof using Type.
    intros Hr. rewrite (normsparsity_concat p x Hr). split; [apply normalized_sparsity_exact|].
    intros Z. apply sumsq_zero_all in Z. unfold normalized_sparsity_with. apply all_zero_div. exact Z.
  Qed.

  (* end to end: the factor returned for a mode with the request is the operator's output on some v, and for a matrix proper v it is
     in the constraint set IF AND ONLY IF v (its kept part) is not zero *)
  Theorem cp_normalize_exact (dM : mat) (msub madd : mat -> mat -> mat) (n : nat) (sp : list (kind * @zspec P)) (E : env (M := mat))
          (i0 : init (M := mat)) (fixed : list nat) (n_outer n_inner : nat) (zero : mat) (fs : list mat) (m : nat) s p :
    constrained_cp dM op (zvalidate truthy n sp) msub madd E n i0 fixed n_outer n_inner zero = Ok fs ->
    (m < length fs)%nat -> init_computed i0 = true \/ (In m (modes_list n fixed) /\ (0 < n_outer)%nat /\ (0 < n_inner)%nat) ->
    In (KNormalize, s) sp -> zrequested truthy n s m p ->
    exists v, nth m fs dM = op KNormalize p v /\
      (rect v -> (maxabs Rops (concat (nth m fs dM)) = 1 <-> 0 < maxabs Rops (concat v))).
  Proof using Type.
    intros run Hm Hupd Hin Hr.
    destruct (zcp_requested_in_range truthy dM op msub madd n sp E i0 fixed n_outer n_inner zero fs m _ s p run Hm Hupd Hin Hr) as (v & Ev).
    exists v. split; [exact Ev|]. rewrite Ev. intros Hrect. apply (op_normalize_exact p v Hrect).
  Qed.
  Theorem cp_normalized_sparsity_exact (dM : mat) (msub madd : mat -> mat -> mat) (n : nat) (sp : list (kind * @zspec P)) (E : env (M := mat))
          (i0 : init (M := mat)) (fixed : list nat) (n_outer n_inner : nat) (zero : mat) (fs : list mat) (m : nat) s p :
    constrained_cp dM op (zvalidate truthy n sp) msub madd E n i0 fixed n_outer n_inner zero = Ok fs ->
    (m < length fs)%nat -> init_computed i0 = true \/ (In m (modes_list n fixed) /\ (0 < n_outer)%nat /\ (0 < n_inner)%nat) ->
    In (KNormSparsity, s) sp -> zrequested truthy n s m p ->
    exists v, nth m fs dM = op KNormSparsity p v /\
      (rect v -> (sumsq Rops (concat (nth m fs dM)) = 1 <-> sumsq Rops (hard_thresholding Rops (toN p) (concat v)) <> 0)).
  Proof using Type.
    intros run Hm Hupd Hin Hr.
    destruct (zcp_requested_in_range truthy dM op msub madd n sp E i0 fixed n_outer n_inner zero fs m _ s p run Hm Hupd Hin Hr) as (v & Ev).
    exists v. split; [exact Ev|]. rewrite Ev. intros Hrect. apply (op_normalized_sparsity_exact p v Hrect).
  Qed.
End Exact.

(* ---- the documented class on which the headline clause 'for any initialisation' fails, with the REAL operators and for EVERY budget:
   a user-supplied CP tensor is not passed through the operators, so a constrained mode listed in fixed_modes (not the last mode) comes
   back as the user wrote it - here with a negative entry although non_negative=True is requested on every mode - whatever the outer
   budget, the inner budget and the environment. *)
Definition nat_truthy' (p : nat) : bool := negb (Nat.eqb p 0).
Theorem user_init_fixed_mode_refuted (other : kind -> nat -> mat -> mat) (E : env (M := mat)) (msub madd : mat -> mat -> mat) (n_outer n_inner : nat) :
  let sp := zkeywords (fun k => match k with KNonNeg => ZScalar 1%nat | _ => ZNone end) in
  let A : mat := [[-1; 2]; [3; 4]] in
  exists fs, constrained_cp [] (op_c12 INR (fun p => p) other) (zvalidate nat_truthy' 3 sp) msub madd E 3 (IUser [A; A; A]) [0%nat] n_outer n_inner [] = Ok fs /\
             nth 0 fs [] = A /\ ~ Forall (fun a => 0 <= a) (concat (nth 0 fs [])).
Proof.
  cbv zeta.
  set (sp := zkeywords (fun k => match k with KNonNeg => ZScalar 1%nat | _ => ZNone end)).
  set (A := [[-1; 2]; [3; 4]] : mat).
  assert (T : zvalidate_table nat_truthy' 3 sp = Ok [Some (KNonNeg, 1%nat); Some (KNonNeg, 1%nat); Some (KNonNeg, 1%nat)]) by (vm_compute; reflexivity).
  destruct (@zcp_valid_request_returns nat nat_truthy' mat [] (op_c12 INR (fun p => p) other) msub madd 3 sp _ E (IUser [A; A; A]) [0%nat] n_outer n_inner [] T)
    as (fs & Hrun); auto.
  { right. vm_compute. auto. }
  exists fs. split; [exact Hrun|].
  pose proof (cp_skeleton _ _ _ _ _ _ _ _ _ _ _ _ _ Hrun) as (_ & _ & K).
  assert (E0 : nth 0 fs [] = A).
  { rewrite (K 0%nat); [reflexivity | reflexivity |]. left. vm_compute. intros [H|[H|[]]]; discriminate H. }
  split; [exact E0|]. intros F. assert (F2 : Forall (fun a => 0 <= a) (concat A)) by (exact (eq_ind _ (fun y => Forall (fun a => 0 <= a) (concat y)) F _ E0)). inversion F2; subst. lra.
Qed.
