(* End-to-end feasibility for the constraint kinds whose operator C12 proves to map into its constraint set:
   the skeleton theorem of C11 (the returned factor of a constrained mode is an output of the operator of the requested
   kind) composed with the feasibility theorems of Proofs/ProxProofs*.v (model of tensorly/tenalg/proximal.py over the
   reals, Model/Prox.v).  A factor matrix is its list of rows (row-major, as in Corr/C12.v); element-wise and whole-matrix
   operators are lifted with Prox.flatwise, column-wise operators with Prox.colwise.  Parameters are abstract (P) with the
   conversions toR / toN; the operators of the remaining kinds are arbitrary. *)
From Coq Require Import List Arith Bool Lia ZArith Reals Lra.
From TLV Require Import Base.PyList Base.Tensor Base.Ops Model.Prox Proofs.ProxProofs Proofs.ProxProofsHard Proofs.ProxProofsSimplex
  Proofs.ProxProofsMono Proofs.ProxProofsRefute Proofs.ProxProofsIso Proofs.ProxProofsUni.
From TLV Require Import Proofs.ConstraintsProofsUni Model.ConstraintsOps.
From TLV Require Import Model.Constraints Proofs.ConstraintsProofs Proofs.ConstraintsProofsLoop Proofs.ConstraintsProofsKeys.
Import ListNotations.
Open Scope R_scope.

Definition mat := list (list R).

(* ---- chunk returns consecutive pieces of its argument: concat (chunk ..) is a prefix *)
Lemma chunk_prefix : forall fuel c (l : list R), exists rest, l = concat (chunk fuel c l) ++ rest.
Proof.
  induction fuel as [|f IH]; intros c l; simpl.
  - exists l. reflexivity.
  - destruct l as [|a r]; [exists []; reflexivity|].
    destruct (IH c (skipn c (a :: r))) as (rest & E). exists rest.
    simpl concat. rewrite <- app_assoc, <- E. symmetry. apply firstn_skipn.
Qed.

Lemma nnzR_app a b : nnzR (a ++ b) = (nnzR a + nnzR b)%nat.
Proof. unfold nnzR. rewrite filter_app, app_length. reflexivity. Qed.

Lemma flatwise_prefix (f : list R -> list R) rows : exists rest, f (concat rows) = concat (flatwise f rows) ++ rest \/ flatwise f rows = [].
Proof.
  unfold flatwise. destruct rows as [|r rs]; [exists []; right; reflexivity|].
  destruct (chunk_prefix (length (r :: rs)) (length r) (f (concat (r :: rs)))) as (rest & E). exists rest. left. exact E.
Qed.

(* ---- the coded l1-ball operator always lands in the ball: simplex_prox(|v|, p) * sign(v) has l1 norm <= sum of the simplex
   point = p (inside the ball it is moved onto the sphere - not a projection, C12_l1ball_refuted - but it stays feasible) *)
Lemma l1n_signed_le : forall (s v : list R), Forall (fun a => 0 <= a) s ->
  l1n Rops (map (fun ab : R * R => fst ab * fsign Rops (snd ab)) (combine s v)) <= lsum Rops s.
Proof.
  assert (N : forall s, Forall (fun a => 0 <= a) s -> 0 <= lsum Rops s).
  { induction 1; [cbn; lra | rewrite lsum_cons; lra]. }
  induction s as [|a s IH]; intros v F.
  - cbn. lra.
  - inversion F as [|? ? Ha Fs]; subst. destruct v as [|b v].
    + cbn [combine map]. rewrite lsum_cons. specialize (N s Fs). cbn. lra.
    + cbn [combine map fst snd]. rewrite l1n_cons, lsum_cons. specialize (IH v Fs).
      assert (Rabs (a * fsign Rops b) <= a).
      { destruct (fsign_spec b) as [[_ ->] | [[_ ->] | [_ ->]]].
        - rewrite Rmult_1_r, Rabs_pos_eq; lra.
        - replace (a * -1) with (- a) by lra. rewrite Rabs_Ropp, Rabs_pos_eq; lra.
        - rewrite Rmult_0_r, Rabs_R0. exact Ha. }
      lra.
Qed.

Lemma soft_sparsity_feasible p v : 0 < p -> v <> [] -> l1n Rops (soft_sparsity_prox Rops p v) <= p.
Proof.
  intros Hp Hv. unfold soft_sparsity_prox.
  assert (Hv' : map (fabs Rops) v <> []) by (destruct v; [congruence | discriminate]).
  destruct (simplex_feasible p (map (fabs Rops) v) Hp Hv') as (F & S).
  rewrite <- S at 2. apply l1n_signed_le. exact F.
Qed.

(* ---- the operators of the seven kinds, lifted to matrices *)
Section Feasible.
  Context {P : Type} (truthy : P -> bool) (toR : P -> R) (toN : P -> nat) (other : kind -> P -> mat -> mat).

  Definition norm2 (v : list R) : R := sqrt (sumsq Rops v).     (* tl.norm *)

  Definition op_c12 (k : kind) (p : P) (x : mat) : mat :=
    match k with
    | KNonNeg => flatwise (non_negative Rops) x
    | KSimplex => colwise Rops (simplex_prox Rops (toR p)) x
    | KMonotone => colwise Rops (monotonicity_prox Rops false) x
    | KHardSparsity => flatwise (hard_thresholding Rops (toN p)) x
    | KNormSparsity => flatwise (fun v => normalized_sparsity_with Rops (norm2 (hard_thresholding Rops (toN p) v)) (toN p) v) x
    | KSoftSparsity => colwise Rops (soft_sparsity_prox Rops (toR p)) x
    | KNormalize => flatwise (normalize Rops) x
    | KUnimodal => cols_of Rops (unimodality_cols Rops (cols_of Rops x))     (* unimodality_prox acts on the whole matrix *)
    | _ => other k p x
    end.

  (* op_c12 is the generic operator family of Model/ConstraintsOps.v at the reals (norm = sqrt of the sum of squares): the term
     the correspondence executes at Qops on the recorded operator calls is the same term *)
  Lemma op_c12_is_op_gen k p x : op_c12 k p x = op_gen Rops norm2 toR toN other k p x.
  Proof using toR toN other. destruct k; reflexivity. Qed.

  (* the constraint sets, on a matrix given by its rows *)
  Definition all_entries (Q : R -> Prop) (y : mat) : Prop := Forall Q (concat y).
  (* y is the transpose of the RECTANGULAR list of columns Z (every column has as many entries as y has rows - cols_of would
     otherwise pad / truncate), and every column satisfies Q *)
  Definition transposed_columns (Q : list R -> Prop) (y : mat) : Prop :=
    exists Z, y = cols_of Rops Z /\ Forall (fun z => length z = length y) Z /\ Forall Q Z.

  Lemma cols_len (x : mat) c : In c (cols_of Rops x) -> length c = length x.
  Proof.
    unfold cols_of. destruct x as [|r rs]; [intros []|]. rewrite in_map_iff. intros (j & <- & _). apply map_length.
  Qed.

  (* the transpose of a list of columns that are all as long as x has rows is rectangular *)
  Lemma transposed_intro (Q : list R -> Prop) (x : mat) (Z : list (list R)) :
    (forall z, In z Z -> length z = length x) -> Forall Q Z -> transposed_columns Q (cols_of Rops Z).
  Proof.
    intros Lz HQ. exists Z. split; [reflexivity|]. split; [|exact HQ].
    apply Forall_forall. intros z Hz. rewrite (Lz z Hz).
    destruct Z as [|z0 Zr] eqn:EZ; [contradiction|].
    unfold cols_of. rewrite map_length, seq_length. symmetry. apply Lz. left; reflexivity.
  Qed.

  (* a column-wise operator that preserves lengths yields a rectangular transpose *)
  Lemma colwise_columns (f : list R -> list R) (Q : list R -> Prop) x :
    (forall c, length (f c) = length c) -> (forall c, In c (cols_of Rops x) -> Q (f c)) ->
    transposed_columns Q (colwise Rops f x).
  Proof.
    intros Lf HQ. unfold colwise. apply (transposed_intro Q x).
    - intros z Hz. apply in_map_iff in Hz. destruct Hz as (c & <- & Hc). rewrite Lf. apply cols_len. exact Hc.
    - apply Forall_forall. intros z Hz. apply in_map_iff in Hz. destruct Hz as (c & <- & Hc). apply HQ. exact Hc.
  Qed.

  Lemma simplex_prox_length p v : length (simplex_prox Rops p v) = length v.
  Proof. unfold simplex_prox. apply map_length. Qed.
  Lemma soft_sparsity_prox_length p v : length (soft_sparsity_prox Rops p v) = length v.
  Proof.
    unfold soft_sparsity_prox. rewrite map_length, combine_length, simplex_prox_length, map_length. apply Nat.min_id.
  Qed.

  (* ---- a matrix proper: every row as long as the first.  On such an input `flatwise f` is f on the flattened matrix, re-cut into rows
     (nothing is lost), for every f that preserves the length *)
  Definition rect (x : mat) : Prop := forall r, In r x -> length r = length (hd [] x).

  Lemma rect_concat_length (x : mat) : rect x -> length (concat x) = (length x * length (hd [] x))%nat.
  Proof using Type.
    intros Hr. set (c := length (hd [] x)) in *.
    assert (G : forall y : mat, (forall r, In r y -> length r = c) -> length (concat y) = (length y * c)%nat).
    { induction y as [|r y IH]; intros Hy; [reflexivity|]. cbn [concat length]. rewrite app_length, (Hy r (or_introl eq_refl)), IH; [lia|].
      intros r' Hr'. apply Hy. right. exact Hr'. }
    apply G. exact Hr.
  Qed.

  Lemma chunk_concat : forall fuel c (l : list R), (length l <= fuel * c)%nat -> concat (chunk fuel c l) = l.
  Proof using Type.
    induction fuel as [|f IH]; intros c l Hl.
    - destruct l; [reflexivity | cbn in Hl; lia].
    - destruct l as [|a r]; [reflexivity|]. cbn [chunk concat]. rewrite IH; [apply firstn_skipn|].
      rewrite skipn_length. cbn [length] in *. lia.
  Qed.

  Lemma flatwise_rect (f : list R -> list R) (x : mat) :
    rect x -> length (f (concat x)) = length (concat x) -> concat (flatwise f x) = f (concat x).
  Proof using Type.
    intros Hr Hl. unfold flatwise. destruct x as [|r rs] eqn:Ex.
    - cbn in *. symmetry. apply length_zero_iff_nil. exact Hl.
    - rewrite <- Ex in *. apply chunk_concat. rewrite Hl, (rect_concat_length x Hr). rewrite Ex. cbn [hd]. lia.
  Qed.

  Lemma nonneg_range p x : all_entries (fun a => 0 <= a) (op_c12 KNonNeg p x).
  Proof using toR toN other.
    unfold all_entries. simpl. destruct (flatwise_prefix (non_negative Rops) x) as (rest & [E | E]).
    - pose proof (nonneg_feasible (concat x)) as F. rewrite E in F. apply Forall_app in F. exact (proj1 F).
    - rewrite E. constructor.
  Qed.

  Lemma hard_range p x : (nnzR (concat (op_c12 KHardSparsity p x)) <= toN p)%nat.
  Proof using toN.
    simpl. destruct (flatwise_prefix (hard_thresholding Rops (toN p)) x) as (rest & [E | E]).
    - pose proof (hard_sparse (toN p) (concat x)) as F. rewrite E, nnzR_app in F. lia.
    - rewrite E. simpl. unfold nnzR. simpl. lia.
  Qed.

  (* normalised sparsity: k-sparse always; unit l2 norm unless the kept part of the operator's input is zero (0/0 in the code) *)
  Lemma normsparsity_range p x :
    let kept := hard_thresholding Rops (toN p) (concat x) in
    let y := op_c12 KNormSparsity p x in
    sumsq Rops kept <> 0 -> length (concat y) = length (concat x) ->
    sumsq Rops (concat y) = 1 /\ (nnzR (concat y) <= toN p)%nat.
  Proof.
    intros kept y Hk Hl. subst y. simpl in *.
    set (g := fun v => normalized_sparsity_with Rops (norm2 (hard_thresholding Rops (toN p) v)) (toN p) v) in *.
    assert (Hs : 0 < norm2 kept).
    { unfold norm2. apply sqrt_lt_R0. pose proof (sumsq_nonneg kept). lra. }
    assert (Hc : norm2 kept * norm2 kept = sumsq Rops kept).
    { unfold norm2. apply sqrt_sqrt. apply sumsq_nonneg. }
    destruct (normalized_sparsity_feasible (norm2 kept) (toN p) (concat x) Hs Hc) as (F1 & F2).
    destruct (flatwise_prefix g x) as (rest & [E | E]).
    - assert (Lg : length (g (concat x)) = length (concat x)).
      { unfold g, normalized_sparsity_with. rewrite map_length. unfold hard_thresholding, apply_mask.
        rewrite map_length, combine_length. unfold hard_mask. rewrite map_length, seq_length. apply Nat.min_id. }
      assert (rest = []).
      { apply length_zero_iff_nil. rewrite E, app_length in Lg. lia. }
      subst rest. rewrite app_nil_r in E. unfold g in E at 1. fold kept in E. rewrite <- E. split; assumption.
    - rewrite E in Hl. simpl in Hl.
      assert (concat x = []) by (apply length_zero_iff_nil; lia).
      exfalso. apply Hk. unfold kept. rewrite H. reflexivity.
  Qed.

  Lemma cols_nonempty (x : mat) z : In z (cols_of Rops x) -> z <> [].
  Proof.
    unfold cols_of. destruct x as [|r rs]; [intros []|]. rewrite in_map_iff. intros (j & <- & _). discriminate.
  Qed.

  Lemma simplex_range p x : 0 < toR p ->
    transposed_columns (fun z => Forall (fun a => 0 <= a) z /\ lsum Rops z = toR p) (op_c12 KSimplex p x).
  Proof.
    intros Hp. simpl. apply colwise_columns; [intros c; apply simplex_prox_length|].
    intros c Hc. apply simplex_feasible; [exact Hp | eapply cols_nonempty; eauto].
  Qed.

  Lemma monotone_range p x : transposed_columns ndec (op_c12 KMonotone p x).
  Proof.
    simpl. apply colwise_columns; [intros c; apply monotone_feasible | intros c _; apply monotone_feasible].
  Qed.

  Lemma soft_sparsity_range p x : 0 < toR p ->
    transposed_columns (fun z => l1n Rops z <= toR p) (op_c12 KSoftSparsity p x).
  Proof.
    intros Hp. simpl. apply colwise_columns; [intros c; apply soft_sparsity_prox_length|].
    intros c Hc. apply soft_sparsity_feasible; [exact Hp | eapply cols_nonempty; eauto].
  Qed.

  (* max-normalisation: max |entry| = 1 unless the operator's input is zero (0/0 in the code) *)
  Lemma normalize_range p x :
    let y := op_c12 KNormalize p x in
    0 < maxabs Rops (concat x) -> length (concat y) = length (concat x) -> maxabs Rops (concat y) = 1.
  Proof.
    intros y Hk Hl. subst y. simpl in *.
    destruct (flatwise_prefix (normalize Rops) x) as (rest & [E | E]).
    - assert (Lg : length (normalize Rops (concat x)) = length (concat x)) by (unfold normalize; apply map_length).
      assert (rest = []) by (apply length_zero_iff_nil; rewrite E, app_length in Lg; lia).
      subst rest. rewrite app_nil_r in E. rewrite <- E. apply maxnorm_partial. exact Hk.
    - rewrite E in Hl. simpl in Hl. assert (H : concat x = []) by (apply length_zero_iff_nil; lia).
      rewrite H in Hk. simpl in Hk. lra.
  Qed.

  (* unimodality: every column of the output is unimodal, whatever the number of columns (Proofs/ConstraintsProofsUni.v) *)
  Lemma unimodal_range p x : transposed_columns unimodalP (op_c12 KUnimodal p x).
  Proof.
    simpl. destruct (unimodality_cols_feasible (cols_of Rops x)) as (F & L). apply (transposed_intro unimodalP x); [|exact F].
    intros z Hz. assert (Hl : In (length z) (map (@length R) (unimodality_cols Rops (cols_of Rops x)))) by (apply in_map; exact Hz).
    rewrite L in Hl. apply in_map_iff in Hl. destruct Hl as (c & <- & Hc). apply cols_len. exact Hc.
  Qed.

  (* the count of non-zeros of any column is at most the count of the whole matrix: the whole-matrix bound of hard_sparsity /
     normalized_sparsity implies the column-wise bound the property states *)
  Definition colj (j : nat) (y : mat) : list R := map (fun row : list R => nth j row 0) y.
  Lemma col_nnz_le (y : mat) j : (nnzR (colj j y) <= nnzR (concat y))%nat.
  Proof using Type.
    induction y as [|r y IH]; [cbn; lia|]. unfold colj in *. cbn [map concat]. rewrite nnzR_app.
    assert (H1 : Nat.le (nnzR [nth j r 0]) (nnzR r)).
    { unfold nnzR. cbn [filter]. destruct (Req_EM_T (nth j r 0) 0) as [E|NE]; [cbn; lia|]. cbn [length].
      destruct (Nat.lt_ge_cases j (length r)) as [Hj|Hj]; [|rewrite nth_overflow in NE by lia; exfalso; apply NE; reflexivity].
      assert (Hin : In (nth j r 0) (filter (fun x => if Req_EM_T x 0 then false else true) r)).
      { apply filter_In. split; [apply nth_In; exact Hj|]. destruct (Req_EM_T (nth j r 0) 0); [congruence | reflexivity]. }
      destruct (filter _ r); [destruct Hin | cbn; lia]. }
    change (nth j r 0 :: map (fun row : list R => nth j row 0) y) with ([nth j r 0] ++ map (fun row : list R => nth j row 0) y).
    rewrite nnzR_app. lia.
  Qed.

  Lemma cols_nnz_le (y : mat) c : In c (cols_of Rops y) -> (nnzR c <= nnzR (concat y))%nat.
  Proof using Type.
    unfold cols_of. destruct y as [|r rs]; [intros []|]. rewrite in_map_iff. intros (j & <- & _). apply (col_nnz_le (r :: rs) j).
  Qed.

  (* the constraint set of each kind, and: every operator of op_c12 maps into the set of its kind.  For normalize and
     normalized_sparsity the set is left `True` here: their feasibility needs side conditions on the operator's input
     (normalize_range, normalsparsity_range); the kinds that are penalties have no constraint set. *)
  Definition feas_c12 (k : kind) (p : P) (y : mat) : Prop :=
    match k with
    | KNonNeg => all_entries (fun a => 0 <= a) y
    | KHardSparsity => (nnzR (concat y) <= toN p)%nat /\ forall c, In c (cols_of Rops y) -> (nnzR c <= toN p)%nat
    | KSimplex => 0 < toR p -> transposed_columns (fun z => Forall (fun a => 0 <= a) z /\ lsum Rops z = toR p) y
    | KMonotone => transposed_columns ndec y
    | KSoftSparsity => 0 < toR p -> transposed_columns (fun z => l1n Rops z <= toR p) y
    | KUnimodal => transposed_columns unimodalP y
    | _ => True
    end.

  Theorem op_c12_feasible k p v : feas_c12 k p (op_c12 k p v).
  Proof using toR toN other.
    destruct k; try exact I.
    - apply nonneg_range.
    - apply unimodal_range.
    - intros Hp. apply simplex_range, Hp.
    - intros Hp. apply soft_sparsity_range, Hp.
    - apply monotone_range.
    - split; [apply hard_range|]. intros c Hc. pose proof (cols_nnz_le _ c Hc). pose proof (hard_range p v). lia.
  Qed.

  (* the same two statements with the side condition "the operator's input is a matrix proper" instead of the length equation *)
  Lemma hard_thresholding_length k (v : list R) : length (hard_thresholding Rops k v) = length v.
  Proof using Type.
    unfold hard_thresholding, apply_mask. rewrite map_length, combine_length. unfold hard_mask. rewrite map_length, seq_length. apply Nat.min_id.
  Qed.

  Lemma normalize_range_rect p x : rect x -> 0 < maxabs Rops (concat x) -> maxabs Rops (concat (op_c12 KNormalize p x)) = 1.
  Proof using toR toN other.
    intros Hr Hk. apply normalize_range; [exact Hk|]. simpl. rewrite flatwise_rect; [|exact Hr|]; unfold normalize; apply map_length.
  Qed.

  Lemma normsparsity_range_rect p x : rect x -> sumsq Rops (hard_thresholding Rops (toN p) (concat x)) <> 0 ->
    sumsq Rops (concat (op_c12 KNormSparsity p x)) = 1 /\ (nnzR (concat (op_c12 KNormSparsity p x)) <= toN p)%nat.
  Proof using toR toN other.
    intros Hr Hk. apply normsparsity_range; [exact Hk|]. simpl.
    rewrite flatwise_rect; [|exact Hr|]; unfold normalized_sparsity_with; rewrite map_length; apply hard_thresholding_length.
  Qed.

  (* ---- composition with the skeleton *)
  Section CP.
    Variables (dM : mat) (msub madd : mat -> mat -> mat) (n : nat) (sp : list (kind * @zspec P)) (E : env (M := mat))
              (i0 : init (M := mat)) (fixed : list nat) (n_outer n_inner : nat) (zero : mat) (fs : list mat) (m : nat).
    Hypothesis run : constrained_cp dM op_c12 (zvalidate truthy n sp) msub madd E n i0 fixed n_outer n_inner zero = Ok fs.
    Hypothesis Hm : (m < length fs)%nat.
    Hypothesis Hupd : init_computed i0 = true \/ (In m (modes_list n fixed) /\ (0 < n_outer)%nat /\ (0 < n_inner)%nat).

    Theorem cp_nonneg s p : In (KNonNeg, s) sp -> zrequested truthy n s m p ->
      all_entries (fun a => 0 <= a) (nth m fs dM).
    Proof.
      intros Hin Hr. destruct (zcp_requested_in_range truthy dM op_c12 msub madd n sp E i0 fixed n_outer n_inner zero fs m _ s p run Hm Hupd Hin Hr) as (v & ->).
      apply nonneg_range.
    Qed.

    Theorem cp_hard_sparsity s p : In (KHardSparsity, s) sp -> zrequested truthy n s m p ->
      (nnzR (concat (nth m fs dM)) <= toN p)%nat.
    Proof.
      intros Hin Hr. destruct (zcp_requested_in_range truthy dM op_c12 msub madd n sp E i0 fixed n_outer n_inner zero fs m _ s p run Hm Hupd Hin Hr) as (v & ->).
      apply hard_range.
    Qed.

    Theorem cp_simplex s p : In (KSimplex, s) sp -> zrequested truthy n s m p -> 0 < toR p ->
      transposed_columns (fun z => Forall (fun a => 0 <= a) z /\ lsum Rops z = toR p) (nth m fs dM).
    Proof.
      intros Hin Hr Hp. destruct (zcp_requested_in_range truthy dM op_c12 msub madd n sp E i0 fixed n_outer n_inner zero fs m _ s p run Hm Hupd Hin Hr) as (v & ->).
      apply simplex_range. exact Hp.
    Qed.

    Theorem cp_monotone s p : In (KMonotone, s) sp -> zrequested truthy n s m p ->
      transposed_columns ndec (nth m fs dM).
    Proof.
      intros Hin Hr. destruct (zcp_requested_in_range truthy dM op_c12 msub madd n sp E i0 fixed n_outer n_inner zero fs m _ s p run Hm Hupd Hin Hr) as (v & ->).
      apply monotone_range.
    Qed.

    Theorem cp_soft_sparsity s p : In (KSoftSparsity, s) sp -> zrequested truthy n s m p -> 0 < toR p ->
      transposed_columns (fun z => l1n Rops z <= toR p) (nth m fs dM).
    Proof.
      intros Hin Hr Hp. destruct (zcp_requested_in_range truthy dM op_c12 msub madd n sp E i0 fixed n_outer n_inner zero fs m _ s p run Hm Hupd Hin Hr) as (v & ->).
      apply soft_sparsity_range. exact Hp.
    Qed.

    Theorem cp_unimodal s p : In (KUnimodal, s) sp -> zrequested truthy n s m p ->
      transposed_columns unimodalP (nth m fs dM).
    Proof.
      intros Hin Hr. destruct (zcp_requested_in_range truthy dM op_c12 msub madd n sp E i0 fixed n_outer n_inner zero fs m _ s p run Hm Hupd Hin Hr) as (v & ->).
      apply unimodal_range.
    Qed.

    Theorem cp_hard_sparsity_columns s p : In (KHardSparsity, s) sp -> zrequested truthy n s m p ->
      forall c, In c (cols_of Rops (nth m fs dM)) -> (nnzR c <= toN p)%nat.
    Proof.
      intros Hin Hr c Hc. pose proof (cp_hard_sparsity s p Hin Hr). pose proof (cols_nnz_le _ c Hc). lia.
    Qed.

    (* all kinds at once: the returned factor of a mode lies in the constraint set of the kind requested for it *)
    Theorem cp_feasible k s p : In (k, s) sp -> zrequested truthy n s m p -> feas_c12 k p (nth m fs dM).
    Proof.
      intros Hin Hr.
      exact (zcp_feasible truthy dM op_c12 msub madd feas_c12 n sp E i0 fixed n_outer n_inner zero fs m k s p op_c12_feasible run Hm Hupd Hin Hr).
    Qed.

    Theorem cp_normalize s p : In (KNormalize, s) sp -> zrequested truthy n s m p ->
      exists v, nth m fs dM = op_c12 KNormalize p v /\
        (0 < maxabs Rops (concat v) -> length (concat (nth m fs dM)) = length (concat v) -> maxabs Rops (concat (nth m fs dM)) = 1).
    Proof.
      intros Hin Hr. destruct (zcp_requested_in_range truthy dM op_c12 msub madd n sp E i0 fixed n_outer n_inner zero fs m _ s p run Hm Hupd Hin Hr) as (v & Ev).
      exists v. split; [exact Ev|]. rewrite Ev. apply normalize_range.
    Qed.

    Theorem cp_normalized_sparsity s p : In (KNormSparsity, s) sp -> zrequested truthy n s m p ->
      exists v, nth m fs dM = op_c12 KNormSparsity p v /\
        (sumsq Rops (hard_thresholding Rops (toN p) (concat v)) <> 0 -> length (concat (nth m fs dM)) = length (concat v) ->
         sumsq Rops (concat (nth m fs dM)) = 1 /\ (nnzR (concat (nth m fs dM)) <= toN p)%nat).
    Proof.
      intros Hin Hr. destruct (zcp_requested_in_range truthy dM op_c12 msub madd n sp E i0 fixed n_outer n_inner zero fs m _ s p run Hm Hupd Hin Hr) as (v & Ev).
      exists v. split; [exact Ev|]. rewrite Ev. apply normsparsity_range.
    Qed.
    Theorem cp_normalize_rect s p : In (KNormalize, s) sp -> zrequested truthy n s m p ->
      exists v, nth m fs dM = op_c12 KNormalize p v /\
        (rect v -> 0 < maxabs Rops (concat v) -> maxabs Rops (concat (nth m fs dM)) = 1).
    Proof.
      intros Hin Hr. destruct (zcp_requested_in_range truthy dM op_c12 msub madd n sp E i0 fixed n_outer n_inner zero fs m _ s p run Hm Hupd Hin Hr) as (v & Ev).
      exists v. split; [exact Ev|]. rewrite Ev. apply normalize_range_rect.
    Qed.

    Theorem cp_normalized_sparsity_rect s p : In (KNormSparsity, s) sp -> zrequested truthy n s m p ->
      exists v, nth m fs dM = op_c12 KNormSparsity p v /\
        (rect v -> sumsq Rops (hard_thresholding Rops (toN p) (concat v)) <> 0 ->
         sumsq Rops (concat (nth m fs dM)) = 1 /\ (nnzR (concat (nth m fs dM)) <= toN p)%nat /\
         forall c, In c (cols_of Rops (nth m fs dM)) -> (nnzR c <= toN p)%nat).
    Proof.
      intros Hin Hr. destruct (zcp_requested_in_range truthy dM op_c12 msub madd n sp E i0 fixed n_outer n_inner zero fs m _ s p run Hm Hupd Hin Hr) as (v & Ev).
      exists v. split; [exact Ev|]. rewrite Ev. intros Hrect Hk. destruct (normsparsity_range_rect p v Hrect Hk) as (H1 & H2).
      split; [exact H1|]. split; [exact H2|]. intros c Hc. pose proof (cols_nnz_le _ c Hc). lia.
    Qed.
  End CP.
End Feasible.
