(* The third mechanism the property is anchored in - "initial factors passed through the proximal operator" - stated exactly:
   with a COMPUTED initialisation (svd / random) the factor returned for a mode that no sweep updates (a fixed mode other than the
   last one, or any mode when the outer budget or the inner budget is 0) is proximal_operator of that mode applied to the RAW initial factor of that
   mode - not just "some output of the operator" (cp_skeleton). *)
From Coq Require Import List Arith Bool Lia ZArith.
From TLV Require Import Base.PyList Base.Tensor.
From TLV Require Import Model.Constraints Proofs.ConstraintsProofs Proofs.ConstraintsProofsLoop Proofs.ConstraintsProofsKeys.
Import ListNotations.

Section Init.
  Context {P : Type} {M : Type} (dM : M) (op : kind -> P -> M -> M) (msub madd : M -> M -> M).
  Variable val : nat -> res (option (kind * P)).

  Lemma prox_all_exact : forall raw i fs, prox_all op val i raw = Ok fs ->
    length fs = length raw /\ forall j, j < length raw -> proximal_operator op val (i + j) (nth j raw dM) = Ok (nth j fs dM).
  Proof.
    induction raw as [|f r IH]; intros i fs H; simpl in H.
    - inversion H; subst. split; auto. intros j Hj; inversion Hj.
    - destruct (proximal_operator op val i f) as [f'|] eqn:A; simpl in H; [|discriminate H].
      destruct (prox_all op val (S i) r) as [r'|] eqn:B; simpl in H; [|discriminate H].
      inversion H; subst. apply IH in B. destruct B as (L & R).
      split; [simpl; congruence|]. intros [|j] Hj; simpl.
      + rewrite Nat.add_0_r. exact A.
      + replace (i + S j) with (S i + j) by lia. apply R. simpl in Hj. lia.
  Qed.

  Theorem cp_computed_not_updated (E : env (M := M)) n raw fixed n_outer n_inner zero fs m :
    constrained_cp dM op val msub madd E n (IComputed raw) fixed n_outer n_inner zero = Ok fs ->
    m < length raw -> ~ In m (modes_list n fixed) \/ n_outer = 0 \/ n_inner = 0 ->
    proximal_operator op val m (nth m raw dM) = Ok (nth m fs dM).
  Proof.
    unfold constrained_cp. intros H Hm Hnu.
    destruct (val 0) as [c0|]; simpl in H; [|discriminate H].
    destruct (prox_all op val 0 raw) as [fs0|] eqn:I; simpl in H; [|discriminate H].
    destruct ((0 <? n_outer) && negb (Nat.eqb (length fs0) n)); [discriminate H|].
    destruct (outer_loop dM op val msub madd E n n_inner n_outer 0 (modes_list n fixed)
                         (fs0, map (fun _ => zero) fs0)) as [st|] eqn:O; simpl in H; [|discriminate H].
    inversion H; subst. apply prox_all_exact in I. destruct I as (L0 & X0). specialize (X0 m Hm). simpl in X0.
    destruct Hnu as [Hn | [Hz | Hz]].
    - apply (outer_loop_inv dM op msub madd val E) in O. simpl in O. destruct O as (_ & K & _). rewrite (K m Hn). exact X0.
    - subst n_outer. simpl in O. inversion O; subst. simpl. exact X0.
    - apply (outer_loop_inv dM op msub madd val E) in O. simpl in O. destruct O as (_ & _ & _ & _ & Z). rewrite (Z Hz m). exact X0.
  Qed.
End Init.

(* with validate_constraints as the validation: the returned factor is prox_of c (raw factor) for the validated entry c of the mode *)
Theorem zcp_computed_not_updated {P M : Type} (truthy : P -> bool) (dM : M) (op : kind -> P -> M -> M) (msub madd : M -> M -> M)
  (n : nat) (sp : list (kind * @zspec P)) (E : env (M := M)) raw fixed n_outer n_inner zero fs m :
  constrained_cp dM op (zvalidate truthy n sp) msub madd E n (IComputed raw) fixed n_outer n_inner zero = Ok fs ->
  m < length raw -> ~ In m (modes_list n fixed) \/ n_outer = 0 \/ n_inner = 0 ->
  exists c, zvalidate truthy n sp m = Ok c /\ nth m fs dM = prox_of op c (nth m raw dM).
Proof.
  intros H Hm Hnu. pose proof (cp_computed_not_updated dM op msub madd _ E n raw fixed n_outer n_inner zero fs m H Hm Hnu) as X.
  unfold proximal_operator in X. destruct (zvalidate truthy n sp m) as [c|]; simpl in X; [|discriminate X].
  exists c. split; [reflexivity|]. inversion X. reflexivity.
Qed.
