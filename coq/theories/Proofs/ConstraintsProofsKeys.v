(* Dict keys as Python ints (Model/Constraints.v, z* definitions).
   1. For non-negative keys the int-keyed model coincides with the natural-number model, so every lemma of
      ConstraintsProofs.v / ConstraintsProofsLoop.v transfers (the `z...` theorems below).
   2. With a negative key the double-constraint scan (raw keys) and the registration (Python indexing, wrap-around)
      disagree about which mode is addressed: refutation witnesses. *)
From Coq Require Import List Arith Bool Lia ZArith.
From TLV Require Import Base.PyList Base.Tensor.
From TLV Require Import Model.Constraints Proofs.ConstraintsProofs Proofs.ConstraintsProofsLoop.
Import ListNotations.

Section Keys.
  Context {P : Type} (truthy : P -> bool).
  Notation zspec := (@zspec P).
  Notation spec := (@spec P).

  (* ---------------------------------------------------------------- what the user asked for (int keys) *)
  (* key addresses mode m of an order-n request: Python indexing; a non-negative key names the mode itself
     (whether or not it exists), a negative key counts from the end *)
  Definition addresses (n : nat) (key : Z) (m : nat) : Prop :=
    key = Z.of_nat m \/ ((key < 0)%Z /\ (key + Z.of_nat n)%Z = Z.of_nat m).

  Definition zrequested (n : nat) (s : zspec) (m : nat) (p : P) : Prop :=
    match s with
    | ZNone => False
    | ZScalar q => truthy q = true /\ m < n /\ p = q
    | ZList l => nth_error l m = Some (Some p) /\ truthy p = true
    | ZDict d => exists key, In (key, p) d /\ addresses n key m
    end.

  (* Python dicts have distinct keys *)
  Definition zwf_spec (s : zspec) : Prop := match s with ZDict d => NoDup (map fst d) | _ => True end.
  Definition nonneg_spec (s : zspec) : Prop := match s with ZDict d => Forall (fun kp => (0 <= fst kp)%Z) d | _ => True end.

  Definition zwf_specs (sp : list (kind * zspec)) : Prop :=
    NoDup (map fst sp) /\ Forall (fun a => zwf_spec (snd a)) sp.
  Definition nonneg_specs (sp : list (kind * zspec)) : Prop := Forall (fun a => nonneg_spec (snd a)) sp.

  Definition zdouble (n : nat) (sp : list (kind * zspec)) : Prop :=
    exists k1 s1 k2 s2 m p1 p2, In (k1, s1) sp /\ In (k2, s2) sp /\ k1 <> k2 /\ zrequested n s1 m p1 /\ zrequested n s2 m p2.
  Definition zout_of_range (n : nat) (sp : list (kind * zspec)) : Prop :=
    exists k s m p, In (k, s) sp /\ zrequested n s m p /\ n <= m.

  (* ---------------------------------------------------------------- the bridge *)
  Definition nat_key (kp : Z * P) : nat * P := (Z.to_nat (fst kp), snd kp).
  Definition nat_spec (s : zspec) : spec :=
    match s with
    | ZNone => SNone
    | ZScalar p => SScalar p
    | ZList l => SList l
    | ZDict d => SDict (map nat_key d)
    end.
  Definition nat_specs (sp : list (kind * zspec)) : list (kind * spec) := map (fun a => (fst a, nat_spec (snd a))) sp.

  Definition rmapZ (r : res (list nat)) : res (list Z) := match r with Ok s => Ok (map Z.of_nat s) | Err => Err end.

  Lemma zspec_truthy_nat s : zspec_truthy truthy s = spec_truthy truthy (nat_spec s).
  Proof. destruct s as [|p|l|d]; simpl; auto. destruct d; reflexivity. Qed.

  Lemma zkey_nat_key d : Forall (fun kp : Z * P => (0 <= fst kp)%Z) d -> map zkey (map nat_key d) = d.
  Proof.
    induction 1 as [|[key p] r H _ IH]; simpl; [reflexivity|]. rewrite IH. f_equal.
    unfold zkey, nat_key. simpl in *. rewrite Z2Nat.id by exact H. reflexivity.
  Qed.

  Lemma zassigns_nat n s : nonneg_spec s -> zassigns truthy n s = map zkey (assigns truthy n (nat_spec s)).
  Proof.
    intros H. unfold zassigns, assigns. rewrite zspec_truthy_nat.
    destruct (spec_truthy truthy (nat_spec s)); [|reflexivity].
    destruct s as [|p|l|d]; simpl; auto.
    - rewrite map_map. reflexivity.
    - symmetry. apply zkey_nat_key. exact H.
  Qed.

  Lemma fst_zkey l : map fst (map zkey l) = map Z.of_nat (map (@fst nat P) l).
  Proof. rewrite !map_map. reflexivity. Qed.

  Lemma zmemb_nat a l : zmemb (Z.of_nat a) (map Z.of_nat l) = memb a l.
  Proof.
    induction l as [|x r IH]; simpl; [reflexivity|]. rewrite IH. f_equal.
    destruct (Nat.eqb_spec x a) as [->|Hne].
    - apply Z.eqb_refl.
    - apply Z.eqb_neq. lia.
  Qed.

  Lemma zadd_all_nat : forall ms seen, zadd_all (map Z.of_nat seen) (map Z.of_nat ms) = rmapZ (add_all seen ms).
  Proof.
    induction ms as [|a r IH]; intros seen; simpl; [reflexivity|].
    rewrite zmemb_nat. destruct (memb a seen); [reflexivity|]. apply (IH (a :: seen)).
  Qed.

  Lemma zscan_one_nat n seen s : nonneg_spec s ->
    zscan_one truthy n (map Z.of_nat seen) s = rmapZ (scan_one truthy n seen (nat_spec s)).
  Proof.
    intros H. unfold zscan_one, scan_one. rewrite zspec_truthy_nat.
    destruct (spec_truthy truthy (nat_spec s)) eqn:T; [|reflexivity].
    pose proof (zassigns_nat n s H) as A.
    destruct s as [|p|l|d].
    - discriminate T.
    - simpl. destruct seen as [|x seen]; simpl; [|reflexivity]. apply (zadd_all_nat (seq 0 n) []).
    - simpl nat_spec. cbv iota. rewrite A, fst_zkey. apply zadd_all_nat.
    - simpl nat_spec. cbv iota. rewrite A, fst_zkey. apply zadd_all_nat.
  Qed.

  Lemma zscan_nat n : forall sp seen, nonneg_specs sp ->
    zscan truthy n (map Z.of_nat seen) sp = rmapZ (scan truthy n seen (nat_specs sp)).
  Proof.
    induction sp as [|[k s] r IH]; intros seen H; simpl; [reflexivity|].
    inversion H as [|? ? Hs Hr]; subst. simpl in Hs.
    rewrite zscan_one_nat by exact Hs.
    destruct (scan_one truthy n seen (nat_spec s)) as [seen1|]; simpl; [|reflexivity].
    apply IH. exact Hr.
  Qed.

  Lemma resolve_of_nat n m : resolve n (Z.of_nat m) = if m <? n then Some m else None.
  Proof.
    unfold resolve. destruct (Z.leb_spec 0 (Z.of_nat m)); [|lia].
    destruct (Nat.ltb_spec m n); destruct (Z.ltb_spec (Z.of_nat m) (Z.of_nat n)); try lia; auto.
    rewrite Nat2Z.id. reflexivity.
  Qed.

  Lemma zwrite_nat k : forall asg (tab : @table P), zwrite tab k (map zkey asg) = write tab k asg.
  Proof.
    induction asg as [|[m p] r IH]; intros tab; simpl; [reflexivity|].
    rewrite resolve_of_nat. destruct (m <? length tab); [apply IH | reflexivity].
  Qed.

  Lemma zregister_nat n : forall sp (tab : @table P), nonneg_specs sp ->
    zregister truthy n tab sp = register truthy n tab (nat_specs sp).
  Proof.
    induction sp as [|[k s] r IH]; intros tab H; simpl; [reflexivity|].
    inversion H as [|? ? Hs Hr]; subst. simpl in Hs.
    rewrite zassigns_nat by exact Hs. rewrite zwrite_nat.
    destruct (write tab k (assigns truthy n (nat_spec s))) as [t1|]; simpl; [|reflexivity].
    apply IH. exact Hr.
  Qed.

  (* for non-negative keys the int-keyed model IS the natural-number model *)
  Theorem zvalidate_table_nat n sp : nonneg_specs sp ->
    zvalidate_table truthy n sp = validate_table truthy n (nat_specs sp).
  Proof.
    intros H. unfold zvalidate_table, validate_table.
    pose proof (zscan_nat n sp [] H) as S. simpl in S. rewrite S.
    destruct (scan truthy n [] (nat_specs sp)); simpl; [|reflexivity].
    apply zregister_nat. exact H.
  Qed.

  Lemma zvalidate_nat n sp order : nonneg_specs sp ->
    zvalidate truthy n sp order = validate truthy n (nat_specs sp) order.
  Proof. intros H. unfold zvalidate, validate. rewrite zvalidate_table_nat by exact H. reflexivity. Qed.

  Lemma zrequested_nat n s m p : nonneg_spec s -> (zrequested n s m p <-> requested truthy n (nat_spec s) m p).
  Proof.
    intros H. destruct s as [|q|l|d]; simpl; try tauto.
    simpl in H. rewrite Forall_forall in H. rewrite in_map_iff. split.
    - intros (key & Hin & [E | (Hneg & _)]).
      + exists (key, p). split; auto. unfold nat_key. simpl. rewrite E, Nat2Z.id. reflexivity.
      + specialize (H _ Hin). simpl in H. lia.
    - intros ([key p'] & E & Hin). unfold nat_key in E. simpl in E. inversion E; subst.
      exists key. split; auto. left. specialize (H _ Hin). simpl in H. rewrite Z2Nat.id; auto.
  Qed.

  Lemma NoDup_map_to_nat : forall l, Forall (fun z => (0 <= z)%Z) l -> NoDup l -> NoDup (map Z.to_nat l).
  Proof.
    induction l as [|a r IH]; intros F N; simpl; [constructor|].
    inversion F as [|? ? Fa Fr]; subst. inversion N as [|? ? Na Nr]; subst.
    constructor; auto. rewrite in_map_iff. intros (b & E & Hb).
    rewrite Forall_forall in Fr. specialize (Fr _ Hb). assert (a = b) by lia. subst. contradiction.
  Qed.

  Lemma wf_spec_nat s : zwf_spec s -> nonneg_spec s -> wf_spec (nat_spec s).
  Proof.
    destruct s as [|q|l|d]; simpl; auto. intros N F.
    rewrite map_map. rewrite (map_ext _ (fun kp => Z.to_nat (fst kp))) by reflexivity.
    rewrite <- (map_map fst Z.to_nat). apply NoDup_map_to_nat; auto.
    rewrite Forall_forall in *. intros z Hz. apply in_map_iff in Hz. destruct Hz as (kp & <- & Hin). apply F; exact Hin.
  Qed.

  Lemma wf_specs_nat sp : zwf_specs sp -> nonneg_specs sp -> wf_specs (nat_specs sp).
  Proof.
    intros (N & W) F. unfold nonneg_specs in F. unfold wf_specs, nat_specs. split.
    - rewrite map_map. simpl. exact N.
    - rewrite Forall_forall in *. intros a Ha. apply in_map_iff in Ha. destruct Ha as (b & <- & Hb). simpl.
      apply wf_spec_nat; [apply W | apply F]; exact Hb.
  Qed.

  Lemma In_nat_specs k s sp : In (k, s) (nat_specs sp) <-> exists zs, In (k, zs) sp /\ s = nat_spec zs.
  Proof.
    unfold nat_specs. rewrite in_map_iff. split.
    - intros ([k' zs] & E & Hin). simpl in E. inversion E; subst. exists zs. auto.
    - intros (zs & Hin & ->). exists (k, zs). auto.
  Qed.

  Lemma requested_transfer n sp k m p : nonneg_specs sp ->
    ((exists s, In (k, s) (nat_specs sp) /\ requested truthy n s m p) <-> (exists zs, In (k, zs) sp /\ zrequested n zs m p)).
  Proof.
    intros F. unfold nonneg_specs in F. rewrite Forall_forall in F. split.
    - intros (s & Hin & Hr). apply In_nat_specs in Hin. destruct Hin as (zs & Hin & ->).
      exists zs. split; auto. apply zrequested_nat; auto. apply (F _ Hin).
    - intros (zs & Hin & Hr). exists (nat_spec zs). split; [apply In_nat_specs; eauto|].
      apply zrequested_nat; auto. apply (F _ Hin).
  Qed.

  (* ---------------------------------------------------------------- transferred theorems (non-negative keys) *)
  Theorem zvalidate_table_ok n sp tab : zwf_specs sp -> nonneg_specs sp -> zvalidate_table truthy n sp = Ok tab ->
    length tab = n /\
    (forall m k p, nth m tab None = Some (k, p) <-> exists s, In (k, s) sp /\ zrequested n s m p) /\
    (forall m, nth m tab None = None <-> forall k s p, In (k, s) sp -> ~ zrequested n s m p).
  Proof.
    intros W F H. rewrite zvalidate_table_nat in H by exact F.
    destruct (validate_table_ok truthy n _ tab (wf_specs_nat sp W F) H) as (L & A & B).
    split; [exact L|]. split.
    - intros m k p. rewrite A. apply requested_transfer; exact F.
    - intros m. rewrite B. split.
      + intros Hno k zs p Hin Hr. apply (Hno k (nat_spec zs) p); [apply In_nat_specs; eauto|].
        unfold nonneg_specs in F. rewrite Forall_forall in F. apply zrequested_nat; auto. apply (F _ Hin).
      + intros Hno k s p Hin Hr. apply In_nat_specs in Hin. destruct Hin as (zs & Hin & ->).
        apply (Hno k zs p Hin). unfold nonneg_specs in F. rewrite Forall_forall in F.
        apply zrequested_nat; auto. apply (F _ Hin).
  Qed.

  Lemma double_transfer n sp : nonneg_specs sp -> (double truthy n (nat_specs sp) <-> zdouble n sp).
  Proof.
    intros F. pose proof F as F'. unfold nonneg_specs in F'. rewrite Forall_forall in F'. split.
    - intros (k1 & s1 & k2 & s2 & m & I1 & I2 & Hne & H1 & H2).
      apply In_nat_specs in I1, I2. destruct I1 as (z1 & I1 & ->). destruct I2 as (z2 & I2 & ->).
      apply hits_requested in H1, H2. destruct H1 as (p1 & H1). destruct H2 as (p2 & H2).
      exists k1, z1, k2, z2, m, p1, p2. repeat split; auto; apply zrequested_nat; auto; [apply (F' _ I1) | apply (F' _ I2)].
    - intros (k1 & z1 & k2 & z2 & m & p1 & p2 & I1 & I2 & Hne & H1 & H2).
      exists k1, (nat_spec z1), k2, (nat_spec z2), m.
      repeat split; auto; try (apply In_nat_specs; eauto); apply hits_requested; [exists p1 | exists p2];
        apply zrequested_nat; auto; [apply (F' _ I1) | apply (F' _ I2)].
  Qed.

  Lemma out_of_range_transfer n sp : nonneg_specs sp -> (out_of_range truthy n (nat_specs sp) <-> zout_of_range n sp).
  Proof.
    intros F. pose proof F as F'. unfold nonneg_specs in F'. rewrite Forall_forall in F'. split.
    - intros (m & (k & s & Hin & Hh) & Hge). apply In_nat_specs in Hin. destruct Hin as (zs & Hin & ->).
      apply hits_requested in Hh. destruct Hh as (p & Hr). exists k, zs, m, p. repeat split; auto.
      apply zrequested_nat; auto. apply (F' _ Hin).
    - intros (k & zs & m & p & Hin & Hr & Hge). exists m. split; auto. exists k, (nat_spec zs).
      split; [apply In_nat_specs; eauto|]. apply hits_requested. exists p. apply zrequested_nat; auto. apply (F' _ Hin).
  Qed.

  Theorem zvalidate_table_err_iff n sp : zwf_specs sp -> nonneg_specs sp ->
    (zvalidate_table truthy n sp = Err <-> zdouble n sp \/ zout_of_range n sp).
  Proof.
    intros W F. rewrite zvalidate_table_nat by exact F.
    rewrite (validate_table_err_iff truthy n _ (wf_specs_nat sp W F)).
    rewrite double_transfer, out_of_range_transfer by exact F. tauto.
  Qed.

  Theorem zvalidate_spec n sp order c : zwf_specs sp -> nonneg_specs sp -> zvalidate truthy n sp order = Ok c ->
    order < n /\
    (forall k p, c = Some (k, p) <-> exists s, In (k, s) sp /\ zrequested n s order p) /\
    (c = None <-> forall k s p, In (k, s) sp -> ~ zrequested n s order p).
  Proof.
    intros W F H. unfold zvalidate in H.
    destruct (zvalidate_table truthy n sp) as [tab|] eqn:E; simpl in H; [|discriminate H].
    destruct (order <? n) eqn:L; [|discriminate H]. apply Nat.ltb_lt in L. inversion H; subst.
    destruct (zvalidate_table_ok n sp tab W F E) as (_ & A & B).
    split; [exact L|]. split; [intros k p; apply A | apply B].
  Qed.

  Lemma zvalidate_err_iff n sp order : zwf_specs sp -> nonneg_specs sp ->
    (zvalidate truthy n sp order = Err <-> zdouble n sp \/ zout_of_range n sp \/ n <= order).
  Proof.
    intros W F. rewrite zvalidate_nat by exact F.
    rewrite (validate_err_iff truthy n _ order (wf_specs_nat sp W F)).
    rewrite double_transfer, out_of_range_transfer by exact F. tauto.
  Qed.

  (* the call site: the twelve keywords *)
  Lemma zkeywords_In (f : kind -> zspec) k s : In (k, s) (zkeywords f) <-> s = f k.
  Proof.
    unfold zkeywords. rewrite in_map_iff. split.
    - intros (k' & E & _). inversion E; subst; reflexivity.
    - intros ->. exists k. split; auto. apply all_kinds_complete.
  Qed.
  Lemma zkeywords_wf (f : kind -> zspec) : (forall k, zwf_spec (f k)) -> zwf_specs (zkeywords f).
  Proof.
    intros W. unfold zwf_specs, zkeywords. split.
    - rewrite map_map. rewrite (map_ext _ (fun x => x)) by reflexivity. rewrite map_id. apply all_kinds_NoDup.
    - apply Forall_forall. intros a Ha. apply in_map_iff in Ha. destruct Ha as (k & <- & _). simpl. apply W.
  Qed.
  Lemma zkeywords_nonneg (f : kind -> zspec) : (forall k, nonneg_spec (f k)) -> nonneg_specs (zkeywords f).
  Proof.
    intros W. apply Forall_forall. intros a Ha. apply in_map_iff in Ha. destruct Ha as (k & <- & _). simpl. apply W.
  Qed.

  Theorem zkeywords_table n (f : kind -> zspec) tab : (forall k, zwf_spec (f k)) -> (forall k, nonneg_spec (f k)) ->
    zvalidate_table truthy n (zkeywords f) = Ok tab ->
    length tab = n /\
    (forall m k p, nth m tab None = Some (k, p) <-> zrequested n (f k) m p) /\
    (forall m, nth m tab None = None <-> forall k p, ~ zrequested n (f k) m p).
  Proof.
    intros W F H.
    destruct (zvalidate_table_ok n _ tab (zkeywords_wf f W) (zkeywords_nonneg f F) H) as (L & A & B).
    split; [exact L|]. split.
    - intros m k p. rewrite A. split.
      + intros (s & Hin & Hr). apply zkeywords_In in Hin. subst s. exact Hr.
      + intros Hr. exists (f k). split; [apply zkeywords_In; reflexivity | exact Hr].
    - intros m. rewrite B. split.
      + intros Hno k p. apply (Hno k (f k) p). apply zkeywords_In; reflexivity.
      + intros Hno k s p Hin. apply zkeywords_In in Hin. subst s. apply Hno.
  Qed.

  Theorem zkeywords_err_iff n (f : kind -> zspec) : (forall k, zwf_spec (f k)) -> (forall k, nonneg_spec (f k)) ->
    (zvalidate_table truthy n (zkeywords f) = Err <->
     (exists k1 k2 m p1 p2, k1 <> k2 /\ zrequested n (f k1) m p1 /\ zrequested n (f k2) m p2) \/
     (exists k m p, zrequested n (f k) m p /\ n <= m)).
  Proof.
    intros W F. rewrite (zvalidate_table_err_iff n _ (zkeywords_wf f W) (zkeywords_nonneg f F)).
    unfold zdouble, zout_of_range. split.
    - intros [(k1 & s1 & k2 & s2 & m & p1 & p2 & I1 & I2 & Hne & H1 & H2) | (k & s & m & p & I & Hr & Hge)].
      + apply zkeywords_In in I1, I2. subst. left. exists k1, k2, m, p1, p2. auto.
      + apply zkeywords_In in I. subst. right. exists k, m, p. auto.
    - intros [(k1 & k2 & m & p1 & p2 & Hne & H1 & H2) | (k & m & p & Hr & Hge)].
      + left. exists k1, (f k1), k2, (f k2), m, p1, p2. repeat split; auto; apply zkeywords_In; reflexivity.
      + right. exists k, (f k), m, p. repeat split; auto. apply zkeywords_In; reflexivity.
  Qed.

  (* ---------------------------------------------------------------- the decomposition over the int-keyed validation *)
  Section CP.
    Context {M : Type} (dM : M) (op : kind -> P -> M -> M) (msub madd : M -> M -> M).

    Theorem zcp_requested_in_range n sp (E : env (M := M)) i0 fixed n_outer n_inner zero fs m k s p :
      zwf_specs sp -> nonneg_specs sp ->
      constrained_cp dM op (zvalidate truthy n sp) msub madd E n i0 fixed n_outer n_inner zero = Ok fs ->
      m < length fs -> init_computed i0 = true \/ (In m (modes_list n fixed) /\ 0 < n_outer) ->
      In (k, s) sp -> zrequested n s m p ->
      exists v, nth m fs dM = op k p v.
    Proof.
      intros Wf F H Hm Hc Hin Hr. apply cp_skeleton in H. destruct H as (_ & R & _).
      destruct (R m Hm Hc) as (c & v & V & Ey).
      apply zvalidate_spec in V; auto. destruct V as (_ & A & _).
      assert (X : c = Some (k, p)) by (apply A; exists s; auto).
      subst c. exists v. exact Ey.
    Qed.

    Theorem zcp_rejects n sp (E : env (M := M)) i0 fixed n_outer n_inner zero : zwf_specs sp -> nonneg_specs sp ->
      zdouble n sp \/ zout_of_range n sp ->
      constrained_cp dM op (zvalidate truthy n sp) msub madd E n i0 fixed n_outer n_inner zero = Err.
    Proof.
      intros Wf F H. apply cp_err_on_double. apply zvalidate_err_iff; auto. tauto.
    Qed.

    Theorem zcp_ok_no_double n sp (E : env (M := M)) i0 fixed n_outer n_inner zero fs : zwf_specs sp -> nonneg_specs sp ->
      constrained_cp dM op (zvalidate truthy n sp) msub madd E n i0 fixed n_outer n_inner zero = Ok fs ->
      ~ zdouble n sp /\ ~ zout_of_range n sp.
    Proof.
      intros Wf F H. split; intro X.
      - rewrite zcp_rejects in H; auto; discriminate H.
      - rewrite zcp_rejects in H; auto; discriminate H.
    Qed.

    (* composition with "the operator maps into its constraint set" (the subject of C12): the returned factor is feasible *)
    Theorem zcp_feasible (feas : kind -> P -> M -> Prop) n sp (E : env (M := M)) i0 fixed n_outer n_inner zero fs m k s p :
      (forall k p v, feas k p (op k p v)) ->
      zwf_specs sp -> nonneg_specs sp ->
      constrained_cp dM op (zvalidate truthy n sp) msub madd E n i0 fixed n_outer n_inner zero = Ok fs ->
      m < length fs -> init_computed i0 = true \/ (In m (modes_list n fixed) /\ 0 < n_outer) ->
      In (k, s) sp -> zrequested n s m p ->
      feas k p (nth m fs dM).
    Proof.
      intros Hf Wf F H Hm Hc Hin Hr.
      destruct (zcp_requested_in_range n sp E i0 fixed n_outer n_inner zero fs m k s p Wf F H Hm Hc Hin Hr) as (v & ->).
      apply Hf.
    Qed.

    (* whatever the keys: a successful run means the validation succeeded for `order = 0` *)
    Lemma zcp_ok_validated n sp (E : env (M := M)) i0 fixed n_outer n_inner zero fs :
      constrained_cp dM op (zvalidate truthy n sp) msub madd E n i0 fixed n_outer n_inner zero = Ok fs ->
      exists tab, zvalidate_table truthy n sp = Ok tab /\ 0 < n.
    Proof.
      unfold constrained_cp, zvalidate. destruct (zvalidate_table truthy n sp) as [tab|]; simpl; [|discriminate].
      destruct n; simpl; [discriminate|]. intros _. exists tab. split; auto. lia.
    Qed.
  End CP.
End Keys.

(* ---------------------------------------------------------------- refutations: a negative key aliases a mode *)
(* parameters are naturals (0 falsy); order 3; non_negative by key 2, l1_reg by key -1: both address the last mode.
   The scan compares 2 with -1 and accepts; the registration writes index 2 twice; the non_negative request is lost (the later keyword wins). *)
Definition alias_truthy (p : nat) : bool := negb (Nat.eqb p 0).
Definition alias_spec (k : kind) : @zspec nat :=
  match k with
  | KNonNeg => ZDict [(2%Z, 1)]
  | KL1 => ZDict [((-1)%Z, 7)]
  | _ => ZNone
  end.

Lemma alias_wf : forall k, zwf_spec (alias_spec k).
Proof. intros k; destruct k; simpl; auto; repeat constructor; simpl; tauto. Qed.

Theorem alias_accepted :
  (forall k, zwf_spec (alias_spec k)) /\
  zvalidate_table alias_truthy 3 (zkeywords alias_spec) = Ok [None; None; Some (KL1, 7)] /\
  KNonNeg <> KL1 /\ zrequested alias_truthy 3 (alias_spec KNonNeg) 2 1 /\ zrequested alias_truthy 3 (alias_spec KL1) 2 7.
Proof.
  split; [exact alias_wf|]. split; [vm_compute; reflexivity|]. split; [discriminate|]. split.
  - simpl. exists 2%Z. split; [left; reflexivity|]. left. reflexivity.
  - simpl. exists (-1)%Z. split; [left; reflexivity|]. right. split; [lia | reflexivity].
Qed.

(* so the `iff` statements fail without the hypothesis on the keys *)
Theorem table_iff_requested_refuted : exists (n : nat) (f : kind -> @zspec nat) (tab : @table nat) (m : nat) (k : kind) (p : nat),
  (forall k, zwf_spec (f k)) /\ zvalidate_table alias_truthy n (zkeywords f) = Ok tab /\
  zrequested alias_truthy n (f k) m p /\ nth m tab None <> Some (k, p).
Proof.
  exists 3, alias_spec, [None; None; Some (KL1, 7)], 2, KNonNeg, 1.
  destruct alias_accepted as (W & T & _ & R1 & _). repeat split; auto. simpl. discriminate.
Qed.

Theorem reject_iff_double_refuted : exists (n : nat) (f : kind -> @zspec nat),
  (forall k, zwf_spec (f k)) /\
  (exists k1 k2 m p1 p2, k1 <> k2 /\ zrequested alias_truthy n (f k1) m p1 /\ zrequested alias_truthy n (f k2) m p2) /\
  zvalidate_table alias_truthy n (zkeywords f) <> Err.
Proof.
  exists 3, alias_spec. destruct alias_accepted as (W & T & Hne & R1 & R2). split; [exact W|]. split.
  - exists KNonNeg, KL1, 2, 1, 7. auto.
  - rewrite T. discriminate.
Qed.

(* the decomposition: factors are tags (kind id, parameter) of the operator that produced them (0,0 = raw / initial).
   The request is accepted and the factor returned for the mode on which non_negative was requested is an output of the
   l1_reg operator, not of the non_negative operator. *)
Definition alias_op (k : kind) (p : nat) (_ : nat * nat) : nat * nat := (S (kind_id k), p).
Definition alias_env : env (M := nat * nat) := mkEnv (fun _ _ _ _ => (0, 0)) (fun _ _ _ _ _ _ => false) (fun _ _ _ => false).

Theorem cp_alias_refuted : exists (n : nat) (f : kind -> @zspec nat) (fs : list (nat * nat)) (m : nat) (p : nat),
  (forall k, zwf_spec (f k)) /\
  constrained_cp (0, 0) alias_op (zvalidate alias_truthy n (zkeywords f)) (fun _ _ => (0, 0)) (fun _ _ => (0, 0)) alias_env
                 n (IComputed [(0, 0); (0, 0); (0, 0)]) [] 2 1 (0, 0) = Ok fs /\
  zdouble alias_truthy n (zkeywords f) /\
  zrequested alias_truthy n (f KNonNeg) m p /\ (forall v, nth m fs (0, 0) <> alias_op KNonNeg p v).
Proof.
  exists 3, alias_spec, [(0, 0); (0, 0); (S (kind_id KL1), 7)], 2, 1.
  destruct alias_accepted as (W & T & Hne & R1 & R2).
  split; [exact W|]. split; [vm_compute; reflexivity|]. split; [|split; [exact R1|]].
  - exists KNonNeg, (alias_spec KNonNeg), KL1, (alias_spec KL1), 2, 1, 7.
    repeat split; auto; apply zkeywords_In; reflexivity.
  - intros v. simpl. unfold alias_op. simpl. discriminate.
Qed.
