(* Dict keys as Python ints (Model/Constraints.v, z* definitions): the scan normalises a key with mode_index, the
   registration indexes a Python list.  For keys in [-n, n) the int-keyed model coincides with the natural-number
   model applied to the normalised keys; a key outside that range makes the scan raise.  Every theorem of
   ConstraintsProofs.v / ConstraintsProofsLoop.v transfers, for ALL int keys. *)
From Coq Require Import List Arith Bool Lia ZArith.
From TLV Require Import Base.PyList Base.Tensor.
From TLV Require Import Model.Constraints Proofs.ConstraintsProofs Proofs.ConstraintsProofsLoop.
Import ListNotations.

(* generic list facts *)
Lemma nodup_or_collision {A} (f : A -> nat) : forall l : list A,
  NoDup (map f l) \/ exists l1 a l2 b l3, l = l1 ++ a :: l2 ++ b :: l3 /\ f a = f b.
Proof.
  induction l as [|a r IH]; simpl; [left; constructor|].
  destruct IH as [N | (l1 & x & l2 & y & l3 & E & Hf)].
  - destruct (in_dec Nat.eq_dec (f a) (map f r)) as [Hin | Hn].
    + right. apply in_map_iff in Hin. destruct Hin as (b & Hb & Hin). apply in_split in Hin. destruct Hin as (l2 & l3 & ->).
      exists [], a, l2, b, l3. split; [reflexivity | congruence].
    + left. constructor; assumption.
  - right. exists (a :: l1), x, l2, y, l3. split; [rewrite E; reflexivity | exact Hf].
Qed.

Lemma NoDup_map_inj_in {A B} (f : A -> B) : forall l, NoDup (map f l) -> forall a b, In a l -> In b l -> f a = f b -> a = b.
Proof.
  induction l as [|x r IH]; intros N a b Ha Hb E; simpl in *; [contradiction|].
  inversion N as [|? ? Nx Nr]; subst.
  destruct Ha as [-> | Ha]; destruct Hb as [-> | Hb]; auto.
  - exfalso. apply Nx. rewrite E. apply in_map. exact Hb.
  - exfalso. apply Nx. rewrite <- E. apply in_map. exact Ha.
Qed.

Section Keys.
  Context {P : Type} (truthy : P -> bool).
  Notation zspec := (@zspec P).
  Notation spec := (@spec P).

  (* ---------------------------------------------------------------- what the user asked for (int keys) *)
  (* key addresses mode m of an order-n request: Python indexing; a non-negative key names the mode itself
     (whether or not it exists), a negative key counts from the end *)
  Definition addresses (n : nat) (key : Z) (m : nat) : Prop :=
    key = Z.of_nat m \/ ((key < 0)%Z /\ (key + Z.of_nat n)%Z = Z.of_nat m).

  Definition zrequested (n : nat) (s : zspec) (m : nat) (p : P) : Prop :=
    match s with
    | ZNone => False
    | ZScalar q => truthy q = true /\ m < n /\ p = q
    | ZList l => nth_error l m = Some (Some p) /\ truthy p = true
    | ZDict d => exists key, In (key, p) d /\ addresses n key m
    end.

  (* Python dicts have distinct keys; keyword names are distinct *)
  Definition zwf_spec (s : zspec) : Prop := match s with ZDict d => NoDup (map fst d) | _ => True end.
  Definition zwf_specs (sp : list (kind * zspec)) : Prop :=
    NoDup (map fst sp) /\ Forall (fun a => zwf_spec (snd a)) sp.

  (* two different keywords address one mode *)
  Definition zdouble (n : nat) (sp : list (kind * zspec)) : Prop :=
    exists k1 s1 k2 s2 m p1 p2, In (k1, s1) sp /\ In (k2, s2) sp /\ k1 <> k2 /\ zrequested n s1 m p1 /\ zrequested n s2 m p2.
  (* one dict names a mode twice, by two different keys ({2: a, -1: b} on order 3) *)
  Definition zself_alias (n : nat) (sp : list (kind * zspec)) : Prop :=
    exists k d key1 p1 key2 p2 m, In (k, ZDict d) sp /\ In (key1, p1) d /\ In (key2, p2) d /\ key1 <> key2 /\
                                  addresses n key1 m /\ addresses n key2 m.
  (* a keyword addresses a mode that does not exist: a mode >= n, or a dict key below -n *)
  Definition zno_mode (n : nat) (sp : list (kind * zspec)) : Prop :=
    (exists k s m p, In (k, s) sp /\ zrequested n s m p /\ n <= m) \/
    (exists k d key p, In (k, ZDict d) sp /\ In (key, p) d /\ (key < - Z.of_nat n)%Z).

  Lemma resolve_spec n key m : resolve n key = Some m <-> addresses n key m /\ m < n.
  Proof.
    unfold resolve, addresses.
    destruct (Z.leb_spec 0 key) as [Hk | Hk].
    - destruct (Z.ltb_spec key (Z.of_nat n)) as [Hl | Hl].
      + split.
        * intros E. inversion E; subst. split; [left; rewrite Z2Nat.id; auto | lia].
        * intros ([E | (Hn & _)] & Hm); [|lia]. subst. rewrite Nat2Z.id. reflexivity.
      + split; [discriminate|]. intros ([E | (Hn & _)] & Hm); lia.
    - destruct (Z.leb_spec (- Z.of_nat n) key) as [Hl | Hl].
      + split.
        * intros E. inversion E; subst. split; [right; split; [lia | rewrite Z2Nat.id; lia] | lia].
        * intros ([E | (Hn & E)] & Hm); [lia|]. rewrite E, Nat2Z.id. reflexivity.
      + split; [discriminate|]. intros ([E | (Hn & E)] & Hm); lia.
  Qed.

  Lemma resolve_none n key : resolve n key = None <-> (Z.of_nat n <= key)%Z \/ (key < - Z.of_nat n)%Z.
  Proof.
    unfold resolve.
    destruct (Z.leb_spec 0 key); [destruct (Z.ltb_spec key (Z.of_nat n)) | destruct (Z.leb_spec (- Z.of_nat n) key)];
      split; try discriminate; try lia; auto.
  Qed.

  Lemma addresses_of_nat n i m : addresses n (Z.of_nat i) m <-> i = m.
  Proof. unfold addresses. split; [intros [E | (Hn & _)]; lia | intros ->; left; reflexivity]. Qed.

  Lemma addresses_fun n key m m' : addresses n key m -> addresses n key m' -> m = m'.
  Proof. unfold addresses. intros [E | (H1 & E)] [E' | (H1' & E')]; lia. Qed.

  Lemma resolve_of_nat n m : resolve n (Z.of_nat m) = if m <? n then Some m else None.
  Proof.
    unfold resolve. destruct (Z.leb_spec 0 (Z.of_nat m)); [|lia].
    destruct (Nat.ltb_spec m n); destruct (Z.ltb_spec (Z.of_nat m) (Z.of_nat n)); try lia; auto.
    rewrite Nat2Z.id. reflexivity.
  Qed.

  (* ---------------------------------------------------------------- the bridge: normalised keys *)
  Definition normZ (n : nat) (key : Z) : nat := match resolve n key with Some m => m | None => n end.
  Definition norm_key (n : nat) (kp : Z * P) : nat * P := (normZ n (fst kp), snd kp).
  Definition norm_spec (n : nat) (s : zspec) : spec :=
    match s with
    | ZNone => SNone
    | ZScalar p => SScalar p
    | ZList l => SList l
    | ZDict d => SDict (map (norm_key n) d)
    end.
  Definition norm_specs (n : nat) (sp : list (kind * zspec)) : list (kind * spec) :=
    map (fun a => (fst a, norm_spec n (snd a))) sp.

  Definition in_range_spec (n : nat) (s : zspec) : Prop :=
    match s with ZDict d => Forall (fun kp => resolve n (fst kp) <> None) d | _ => True end.
  Definition in_range_specs (n : nat) (sp : list (kind * zspec)) : Prop := Forall (fun a => in_range_spec n (snd a)) sp.
  Definition bad_key (n : nat) (sp : list (kind * zspec)) : Prop :=
    exists k d key p, In (k, ZDict d) sp /\ In (key, p) d /\ resolve n key = None.

  Lemma in_range_dec n : forall sp, in_range_specs n sp \/ bad_key n sp.
  Proof.
    induction sp as [|[k s] r IH]; [left; constructor|].
    destruct IH as [IH | (k' & d & key & p & Hin & Hk & Hr)];
      [|right; exists k', d, key, p; split; [right; exact Hin | auto]].
    assert (D : in_range_spec n s \/ exists d key p, s = ZDict d /\ In (key, p) d /\ resolve n key = None).
    { destruct s as [|q|l|d]; try (left; exact I). simpl.
      induction d as [|[key p] d' IHd]; [left; constructor|].
      destruct IHd as [F | (d0 & key' & p' & E & Hin & Hr)].
      - destruct (resolve n key) eqn:R.
        + left. constructor; auto. simpl. congruence.
        + right. exists ((key, p) :: d'), key, p. split; auto. split; [left; reflexivity | exact R].
      - inversion E; subst d0. right. exists ((key, p) :: d'), key', p'. split; auto. split; [right; exact Hin | exact Hr]. }
    destruct D as [D | (d & key & p & -> & Hin & Hr)].
    - left. constructor; assumption.
    - right. exists k, d, key, p. split; [left; reflexivity | auto].
  Qed.

  Lemma zspec_truthy_norm n s : zspec_truthy truthy s = spec_truthy truthy (norm_spec n s).
  Proof. destruct s as [|p|l|d]; simpl; auto. destruct d; reflexivity. Qed.

  Lemma zadd_keys_norm n : forall ks seen, Forall (fun key => resolve n key <> None) ks ->
    zadd_keys n seen ks = add_all seen (map (normZ n) ks).
  Proof.
    induction ks as [|key r IH]; intros seen F; simpl; [reflexivity|].
    inversion F as [|? ? Hk Hr]; subst.
    destruct (resolve n key) as [m|] eqn:R; [|congruence].
    assert (Em : normZ n key = m) by (unfold normZ; rewrite R; reflexivity). rewrite Em.
    destruct (memb m seen); [reflexivity|]. apply IH. exact Hr.
  Qed.

  Lemma zadd_keys_bad n : forall ks seen key, In key ks -> resolve n key = None -> zadd_keys n seen ks = Err.
  Proof.
    induction ks as [|a r IH]; intros seen key Hin Hr; simpl; [contradiction|].
    destruct Hin as [-> | Hin].
    - rewrite Hr. reflexivity.
    - destruct (resolve n a) as [m|]; [|reflexivity]. destruct (memb m seen); [reflexivity|]. eapply IH; eauto.
  Qed.

  Lemma zscan_one_norm n seen s : in_range_spec n s ->
    zscan_one truthy n seen s = scan_one truthy n seen (norm_spec n s).
  Proof.
    intros H. unfold zscan_one, scan_one. rewrite (zspec_truthy_norm n).
    destruct (spec_truthy truthy (norm_spec n s)) eqn:T; [|reflexivity].
    destruct s as [|p|l|d].
    - reflexivity.
    - reflexivity.
    - simpl norm_spec. cbv iota. unfold assigns. simpl in T. simpl spec_truthy. rewrite T. reflexivity.
    - simpl norm_spec. cbv iota. unfold assigns. simpl in T. simpl spec_truthy. rewrite T.
      rewrite zadd_keys_norm.
      + rewrite !map_map. reflexivity.
      + simpl in H. rewrite Forall_forall in *. intros key Hk. apply in_map_iff in Hk. destruct Hk as (kp & <- & Hin). apply H; exact Hin.
  Qed.

  Lemma zscan_norm n : forall sp seen, in_range_specs n sp ->
    zscan truthy n seen sp = scan truthy n seen (norm_specs n sp).
  Proof.
    induction sp as [|[k s] r IH]; intros seen H; simpl; [reflexivity|].
    inversion H as [|? ? Hs Hr]; subst. simpl in Hs.
    rewrite zscan_one_norm by exact Hs.
    destruct (scan_one truthy n seen (norm_spec n s)) as [seen1|]; simpl; [|reflexivity].
    apply IH. exact Hr.
  Qed.

  Lemma zscan_bad n : forall sp seen, bad_key n sp -> zscan truthy n seen sp = Err.
  Proof.
    induction sp as [|[k s] r IH]; intros seen (k' & d & key & p & Hin & Hk & Hr); simpl; [contradiction|].
    destruct Hin as [E | Hin].
    - inversion E; subst. unfold zscan_one. destruct d as [|e d']; [contradiction|]. simpl zspec_truthy. cbv iota.
      rewrite (zadd_keys_bad n _ seen key); [reflexivity | | exact Hr].
      apply in_map_iff. exists (key, p). auto.
    - destruct (zscan_one truthy n seen s) as [seen1|]; simpl; [|reflexivity].
      apply IH. exists k', d, key, p. auto.
  Qed.

  Lemma zwrite_nat k : forall asg (tab : @table P), zwrite tab k (map zkey asg) = write tab k asg.
  Proof.
    induction asg as [|[m p] r IH]; intros tab; simpl; [reflexivity|].
    rewrite resolve_of_nat. destruct (m <? length tab); [apply IH | reflexivity].
  Qed.

  Lemma zwrite_norm n k : forall d (tab : @table P), length tab = n -> Forall (fun kp => resolve n (fst kp) <> None) d ->
    zwrite tab k d = write tab k (map (norm_key n) d).
  Proof.
    induction d as [|[key p] r IH]; intros tab L F; simpl; [reflexivity|].
    inversion F as [|? ? Hk Hr]; subst. simpl in Hk. unfold normZ.
    destruct (resolve (length tab) key) as [m|] eqn:R; [|congruence].
    assert (Hm : m < length tab) by (apply resolve_spec in R; tauto).
    apply Nat.ltb_lt in Hm. rewrite Hm. apply IH; [apply set_nth_length | exact Hr].
  Qed.

  Lemma zwrite_assigns n k s (tab : @table P) : length tab = n -> in_range_spec n s ->
    zwrite tab k (zassigns truthy n s) = write tab k (assigns truthy n (norm_spec n s)).
  Proof.
    intros L H. unfold zassigns, assigns. rewrite (zspec_truthy_norm n).
    destruct (spec_truthy truthy (norm_spec n s)); [|reflexivity].
    destruct s as [|p|l|d]; simpl norm_spec; cbv iota.
    - reflexivity.
    - rewrite <- zwrite_nat. rewrite map_map. reflexivity.
    - apply zwrite_nat.
    - apply zwrite_norm; auto.
  Qed.

  Lemma zregister_norm n : forall sp (tab : @table P), length tab = n -> in_range_specs n sp ->
    zregister truthy n tab sp = register truthy n tab (norm_specs n sp).
  Proof.
    induction sp as [|[k s] r IH]; intros tab L H; simpl; [reflexivity|].
    inversion H as [|? ? Hs Hr]; subst. simpl in Hs.
    rewrite zwrite_assigns by auto.
    destruct (write tab k (assigns truthy (length tab) (norm_spec (length tab) s))) as [t1|] eqn:W; simpl; [|reflexivity].
    apply IH; [|exact Hr]. apply write_length in W. exact W.
  Qed.

  (* for keys in [-n, n) the int-keyed model IS the natural-number model on the normalised keys *)
  Theorem zvalidate_table_norm n sp : in_range_specs n sp ->
    zvalidate_table truthy n sp = validate_table truthy n (norm_specs n sp).
  Proof.
    intros H. unfold zvalidate_table, validate_table. rewrite zscan_norm by exact H.
    destruct (scan truthy n [] (norm_specs n sp)); simpl; [|reflexivity].
    apply zregister_norm; [apply repeat_length | exact H].
  Qed.

  (* a key outside [-n, n) is rejected (by the scan) *)
  Theorem zvalidate_table_bad n sp : bad_key n sp -> zvalidate_table truthy n sp = Err.
  Proof. intros H. unfold zvalidate_table. rewrite zscan_bad by exact H. reflexivity. Qed.

  Lemma zrequested_norm n s m p : in_range_spec n s -> (zrequested n s m p <-> requested truthy n (norm_spec n s) m p).
  Proof.
    intros H. destruct s as [|q|l|d]; simpl; try tauto.
    simpl in H. rewrite Forall_forall in H. rewrite in_map_iff. split.
    - intros (key & Hin & Ha). exists (key, p). split; auto. unfold norm_key, normZ. simpl.
      specialize (H _ Hin). simpl in H. destruct (resolve n key) as [m'|] eqn:R; [|congruence].
      apply resolve_spec in R. destruct R as (R & _). rewrite (addresses_fun _ _ _ _ R Ha). reflexivity.
    - intros ([key p'] & E & Hin). unfold norm_key, normZ in E. simpl in E.
      specialize (H _ Hin). simpl in H. destruct (resolve n key) as [m'|] eqn:R; [|congruence].
      inversion E; subst. exists key. split; auto. apply resolve_spec in R. tauto.
  Qed.

  Lemma In_norm_specs n k s sp : In (k, s) (norm_specs n sp) <-> exists zs, In (k, zs) sp /\ s = norm_spec n zs.
  Proof.
    unfold norm_specs. rewrite in_map_iff. split.
    - intros ([k' zs] & E & Hin). simpl in E. inversion E; subst. exists zs. auto.
    - intros (zs & Hin & ->). exists (k, zs). auto.
  Qed.

  Lemma requested_transfer n sp k m p : in_range_specs n sp ->
    ((exists s, In (k, s) (norm_specs n sp) /\ requested truthy n s m p) <-> (exists zs, In (k, zs) sp /\ zrequested n zs m p)).
  Proof.
    intros F. unfold in_range_specs in F. rewrite Forall_forall in F. split.
    - intros (s & Hin & Hr). apply In_norm_specs in Hin. destruct Hin as (zs & Hin & ->).
      exists zs. split; auto. apply zrequested_norm; auto. apply (F _ Hin).
    - intros (zs & Hin & Hr). exists (norm_spec n zs). split; [apply In_norm_specs; eauto|].
      apply zrequested_norm; auto. apply (F _ Hin).
  Qed.

  (* ---------------------------------------------------------------- the theorems, for ALL int keys *)
  (* Ok table: entry m is exactly what the user asked for on mode m.  No hypothesis: a request that names a mode twice,
     in whatever way, does not get a table *)
  Theorem zvalidate_table_ok n sp tab : zvalidate_table truthy n sp = Ok tab ->
    length tab = n /\
    (forall m k p, nth m tab None = Some (k, p) <-> exists s, In (k, s) sp /\ zrequested n s m p) /\
    (forall m, nth m tab None = None <-> forall k s p, In (k, s) sp -> ~ zrequested n s m p).
  Proof.
    intros H. destruct (in_range_dec n sp) as [F | B]; [|rewrite zvalidate_table_bad in H by exact B; discriminate H].
    rewrite zvalidate_table_norm in H by exact F.
    destruct (validate_table_ok_any truthy n _ tab H) as (L & A & N).
    pose proof F as F'. unfold in_range_specs in F'. rewrite Forall_forall in F'.
    split; [exact L|]. split.
    - intros m k p. rewrite A. apply requested_transfer; exact F.
    - intros m. rewrite N. split.
      + intros Hno k zs p Hin Hr. apply (Hno k (norm_spec n zs) p); [apply In_norm_specs; eauto|].
        apply zrequested_norm; auto. apply (F' _ Hin).
      + intros Hno k s p Hin Hr. apply In_norm_specs in Hin. destruct Hin as (zs & Hin & ->).
        apply (Hno k zs p Hin). apply zrequested_norm; auto. apply (F' _ Hin).
  Qed.

  (* a mode gets at most one (constraint, parameter) when the table exists *)
  Lemma zrequest_unique n sp tab : zvalidate_table truthy n sp = Ok tab ->
    forall m k1 s1 p1 k2 s2 p2, In (k1, s1) sp -> In (k2, s2) sp -> zrequested n s1 m p1 -> zrequested n s2 m p2 ->
    k1 = k2 /\ p1 = p2.
  Proof.
    intros H m k1 s1 p1 k2 s2 p2 I1 I2 R1 R2.
    destruct (zvalidate_table_ok n sp tab H) as (_ & A & _).
    assert (X1 : nth m tab None = Some (k1, p1)) by (apply A; exists s1; auto).
    assert (X2 : nth m tab None = Some (k2, p2)) by (apply A; exists s2; auto).
    rewrite X1 in X2. inversion X2; auto.
  Qed.

  Lemma double_transfer n sp : in_range_specs n sp -> (double truthy n (norm_specs n sp) -> zdouble n sp).
  Proof.
    intros F. pose proof F as F'. unfold in_range_specs in F'. rewrite Forall_forall in F'.
    intros (k1 & s1 & k2 & s2 & m & I1 & I2 & Hne & H1 & H2).
    apply In_norm_specs in I1, I2. destruct I1 as (z1 & I1 & ->). destruct I2 as (z2 & I2 & ->).
    apply hits_requested in H1, H2. destruct H1 as (p1 & H1). destruct H2 as (p2 & H2).
    exists k1, z1, k2, z2, m, p1, p2. repeat split; auto; apply zrequested_norm; auto; [apply (F' _ I1) | apply (F' _ I2)].
  Qed.

  Lemma out_of_range_transfer n sp : in_range_specs n sp -> (out_of_range truthy n (norm_specs n sp) -> zno_mode n sp).
  Proof.
    intros F. pose proof F as F'. unfold in_range_specs in F'. rewrite Forall_forall in F'.
    intros (m & (k & s & Hin & Hh) & Hge). apply In_norm_specs in Hin. destruct Hin as (zs & Hin & ->).
    apply hits_requested in Hh. destruct Hh as (p & Hr). left. exists k, zs, m, p. repeat split; auto.
    apply zrequested_norm; auto. apply (F' _ Hin).
  Qed.

  (* the normalised values are well formed, or some dict names a mode twice *)
  Lemma norm_wf_or_alias n : forall sp, in_range_specs n sp -> Forall (fun a => zwf_spec (snd a)) sp ->
    Forall (fun a => wf_spec (snd a)) (norm_specs n sp) \/ zself_alias n sp.
  Proof.
    induction sp as [|[k s] r IH]; intros F W; [left; constructor|].
    inversion F as [|? ? Fs Fr]; subst. inversion W as [|? ? Ws Wr]; subst. simpl in Fs, Ws.
    destruct (IH Fr Wr) as [IHw | (k' & d & key1 & p1 & key2 & p2 & m & Hin & H1 & H2 & Hne & A1 & A2)];
      [|right; exists k', d, key1, p1, key2, p2, m; split; [right; exact Hin | auto]].
    destruct s as [|q|l|d]; try (left; constructor; [exact I | exact IHw]).
    simpl in Fs, Ws.
    destruct (nodup_or_collision (fun kp : Z * P => normZ n (fst kp)) d) as [N | (l1 & a & l2 & b & l3 & E & Hf)].
    - left. constructor; [|exact IHw]. simpl. rewrite map_map. exact N.
    - right. destruct a as [key1 p1]. destruct b as [key2 p2]. simpl in Hf.
      assert (Hne : key1 <> key2).
      { subst d. rewrite map_app in Ws. simpl in Ws. apply NoDup_remove_2 in Ws. intros ->. apply Ws.
        apply in_or_app. right. rewrite map_app. apply in_or_app. right. left. reflexivity. }
      assert (I1 : In (key1, p1) d) by (subst d; apply in_or_app; right; left; reflexivity).
      assert (I2 : In (key2, p2) d) by (subst d; apply in_or_app; right; right; apply in_or_app; right; left; reflexivity).
      rewrite Forall_forall in Fs. pose proof (Fs _ I1) as R1. pose proof (Fs _ I2) as R2. simpl in R1, R2.
      unfold normZ in Hf.
      destruct (resolve n key1) as [m1|] eqn:E1; [|congruence]. destruct (resolve n key2) as [m2|] eqn:E2; [|congruence].
      subst m2. apply resolve_spec in E1, E2.
      exists k, d, key1, p1, key2, p2, m1. split; [left; reflexivity|]. tauto.
  Qed.

  (* Err  <->  two keywords address one mode, or one dict names a mode twice, or a keyword addresses no existing mode *)
  Theorem zvalidate_table_err_iff n sp : zwf_specs sp ->
    (zvalidate_table truthy n sp = Err <-> zdouble n sp \/ zself_alias n sp \/ zno_mode n sp).
  Proof.
    intros (N & W). split.
    - intros H. destruct (in_range_dec n sp) as [F | (k & d & key & p & Hin & Hk & Hr)].
      + rewrite zvalidate_table_norm in H by exact F.
        destruct (norm_wf_or_alias n sp F W) as [Wn | Al]; [|right; left; exact Al].
        assert (Wf : wf_specs (norm_specs n sp)).
        { split; [|exact Wn]. unfold norm_specs. rewrite map_map. simpl. exact N. }
        apply (validate_table_err_iff truthy n _ Wf) in H. destruct H as [D | O].
        * left. apply double_transfer; auto.
        * right; right. apply out_of_range_transfer; auto.
      + right; right. apply resolve_none in Hr. destruct Hr as [Hr | Hr].
        * left. exists k, (ZDict d), (Z.to_nat key), p. split; auto. split; [|lia].
          simpl. exists key. split; auto. left. rewrite Z2Nat.id; lia.
        * right. exists k, d, key, p. auto.
    - intros H. destruct (zvalidate_table truthy n sp) as [tab|] eqn:E; [exfalso|reflexivity].
      destruct (zvalidate_table_ok n sp tab E) as (L & A & _).
      destruct H as [(k1 & s1 & k2 & s2 & m & p1 & p2 & I1 & I2 & Hne & R1 & R2) | [Al | [Om | Bl]]].
      + destruct (zrequest_unique n sp tab E m k1 s1 p1 k2 s2 p2 I1 I2 R1 R2) as (Ek & _). contradiction.
      + destruct Al as (k & d & key1 & p1 & key2 & p2 & m & Hin & H1 & H2 & Hne & A1 & A2).
        destruct (in_range_dec n sp) as [F | B]; [|rewrite zvalidate_table_bad in E by exact B; discriminate E].
        rewrite zvalidate_table_norm in E by exact F. unfold validate_table in E.
        destruct (scan truthy n [] (norm_specs n sp)) as [seen|] eqn:S; simpl in E; [|discriminate E].
        apply scan_wf in S. rewrite Forall_forall in S.
        assert (Hn : In (k, norm_spec n (ZDict d)) (norm_specs n sp)) by (apply In_norm_specs; eauto).
        specialize (S _ Hn). simpl in S. rewrite map_map in S.
        unfold in_range_specs in F. rewrite Forall_forall in F. pose proof (F _ Hin) as Fd. simpl in Fd. rewrite Forall_forall in Fd.
        assert (X : (key1, p1) = (key2, p2)).
        { apply (NoDup_map_inj_in (fun kp : Z * P => fst (norm_key n kp)) d S); auto. simpl. unfold normZ.
          pose proof (Fd _ H1) as R1. pose proof (Fd _ H2) as R2. simpl in R1, R2.
          destruct (resolve n key1) as [m1|] eqn:E1; [|congruence]. destruct (resolve n key2) as [m2|] eqn:E2; [|congruence].
          apply resolve_spec in E1, E2. destruct E1 as (E1 & _). destruct E2 as (E2 & _).
          rewrite (addresses_fun _ _ _ _ E1 A1), (addresses_fun _ _ _ _ E2 A2). reflexivity. }
        inversion X. contradiction.
      + destruct Om as (k & s & m & p & Hin & Hr & Hge).
        assert (X : nth m tab None = Some (k, p)) by (apply A; exists s; auto).
        rewrite nth_overflow in X by lia. discriminate X.
      + destruct Bl as (k & d & key & p & Hin & Hk & Hlt).
        rewrite zvalidate_table_bad in E; [discriminate E|]. exists k, d, key, p. repeat split; auto. apply resolve_none. right. exact Hlt.
  Qed.

  Theorem zvalidate_spec n sp order c : zvalidate truthy n sp order = Ok c ->
    order < n /\
    (forall k p, c = Some (k, p) <-> exists s, In (k, s) sp /\ zrequested n s order p) /\
    (c = None <-> forall k s p, In (k, s) sp -> ~ zrequested n s order p).
  Proof.
    intros H. unfold zvalidate in H.
    destruct (zvalidate_table truthy n sp) as [tab|] eqn:E; simpl in H; [|discriminate H].
    destruct (order <? n) eqn:L; [|discriminate H]. apply Nat.ltb_lt in L. inversion H; subst.
    destruct (zvalidate_table_ok n sp tab E) as (_ & A & B).
    split; [exact L|]. split; [intros k p; apply A | apply B].
  Qed.

  Lemma zvalidate_err_iff n sp order : zwf_specs sp ->
    (zvalidate truthy n sp order = Err <-> zdouble n sp \/ zself_alias n sp \/ zno_mode n sp \/ n <= order).
  Proof.
    intros Wf. unfold zvalidate. pose proof (zvalidate_table_err_iff n sp Wf) as T.
    destruct (zvalidate_table truthy n sp) as [tab|] eqn:E; simpl.
    - destruct (order <? n) eqn:L.
      + apply Nat.ltb_lt in L. split; [discriminate|]. intros [D | [Al | [O | G]]]; [| | |lia];
          (assert (X : @Ok (@table P) tab = Err) by (apply T; tauto); discriminate X).
      + apply Nat.ltb_ge in L. split; auto.
    - split; [|reflexivity]. intros _. destruct T as [T _]. destruct (T eq_refl) as [D | [Al | O]]; auto.
  Qed.

  (* the call site: the twelve keywords *)
  Lemma zkeywords_In (f : kind -> zspec) k s : In (k, s) (zkeywords f) <-> s = f k.
  Proof.
    unfold zkeywords. rewrite in_map_iff. split.
    - intros (k' & E & _). inversion E; subst; reflexivity.
    - intros ->. exists k. split; auto. apply all_kinds_complete.
  Qed.
  Lemma zkeywords_wf (f : kind -> zspec) : (forall k, zwf_spec (f k)) -> zwf_specs (zkeywords f).
  Proof.
    intros W. unfold zwf_specs, zkeywords. split.
    - rewrite map_map. rewrite (map_ext _ (fun x => x)) by reflexivity. rewrite map_id. apply all_kinds_NoDup.
    - apply Forall_forall. intros a Ha. apply in_map_iff in Ha. destruct Ha as (k & <- & _). simpl. apply W.
  Qed.

  Theorem zkeywords_table n (f : kind -> zspec) tab :
    zvalidate_table truthy n (zkeywords f) = Ok tab ->
    length tab = n /\
    (forall m k p, nth m tab None = Some (k, p) <-> zrequested n (f k) m p) /\
    (forall m, nth m tab None = None <-> forall k p, ~ zrequested n (f k) m p).
  Proof.
    intros H.
    destruct (zvalidate_table_ok n _ tab H) as (L & A & B).
    split; [exact L|]. split.
    - intros m k p. rewrite A. split.
      + intros (s & Hin & Hr). apply zkeywords_In in Hin. subst s. exact Hr.
      + intros Hr. exists (f k). split; [apply zkeywords_In; reflexivity | exact Hr].
    - intros m. rewrite B. split.
      + intros Hno k p. apply (Hno k (f k) p). apply zkeywords_In; reflexivity.
      + intros Hno k s p Hin. apply zkeywords_In in Hin. subst s. apply Hno.
  Qed.

  Theorem zkeywords_err_iff n (f : kind -> zspec) : (forall k, zwf_spec (f k)) ->
    (zvalidate_table truthy n (zkeywords f) = Err <->
     (exists k1 k2 m p1 p2, k1 <> k2 /\ zrequested n (f k1) m p1 /\ zrequested n (f k2) m p2) \/
     (exists k d key1 p1 key2 p2 m, f k = ZDict d /\ In (key1, p1) d /\ In (key2, p2) d /\ key1 <> key2 /\
                                    addresses n key1 m /\ addresses n key2 m) \/
     (exists k m p, zrequested n (f k) m p /\ n <= m) \/
     (exists k d key p, f k = ZDict d /\ In (key, p) d /\ (key < - Z.of_nat n)%Z)).
  Proof.
    intros W. rewrite (zvalidate_table_err_iff n _ (zkeywords_wf f W)).
    unfold zdouble, zself_alias, zno_mode. split.
    - intros [(k1 & s1 & k2 & s2 & m & p1 & p2 & I1 & I2 & Hne & H1 & H2) | [(k & d & key1 & p1 & key2 & p2 & m & I & R) |
              [(k & s & m & p & I & Hr & Hge) | (k & d & key & p & I & R)]]].
      + apply zkeywords_In in I1, I2. subst. left. exists k1, k2, m, p1, p2. auto.
      + apply zkeywords_In in I. right; left. exists k, d, key1, p1, key2, p2, m. split; [symmetry; exact I | exact R].
      + apply zkeywords_In in I. subst. right; right; left. exists k, m, p. auto.
      + apply zkeywords_In in I. right; right; right. exists k, d, key, p. split; [symmetry; exact I | exact R].
    - intros [(k1 & k2 & m & p1 & p2 & Hne & H1 & H2) | [(k & d & key1 & p1 & key2 & p2 & m & I & R) |
              [(k & m & p & Hr & Hge) | (k & d & key & p & I & R)]]].
      + left. exists k1, (f k1), k2, (f k2), m, p1, p2. repeat split; auto; apply zkeywords_In; reflexivity.
      + right; left. exists k, d, key1, p1, key2, p2, m. split; [apply zkeywords_In; symmetry; exact I | exact R].
      + right; right; left. exists k, (f k), m, p. repeat split; auto. apply zkeywords_In; reflexivity.
      + right; right; right. exists k, d, key, p. split; [apply zkeywords_In; symmetry; exact I | exact R].
  Qed.

  (* ---------------------------------------------------------------- the decomposition over the int-keyed validation *)
  Section CP.
    Context {M : Type} (dM : M) (op : kind -> P -> M -> M) (msub madd : M -> M -> M).

    Theorem zcp_requested_in_range n sp (E : env (M := M)) i0 fixed n_outer n_inner zero fs m k s p :
      constrained_cp dM op (zvalidate truthy n sp) msub madd E n i0 fixed n_outer n_inner zero = Ok fs ->
      m < length fs -> init_computed i0 = true \/ (In m (modes_list n fixed) /\ 0 < n_outer /\ 0 < n_inner) ->
      In (k, s) sp -> zrequested n s m p ->
      exists v, nth m fs dM = op k p v.
    Proof.
      intros H Hm Hc Hin Hr. apply cp_skeleton in H. destruct H as (_ & R & _).
      destruct (R m Hm Hc) as (c & v & V & Ey).
      apply zvalidate_spec in V; auto. destruct V as (_ & A & _).
      assert (X : c = Some (k, p)) by (apply A; exists s; auto).
      subst c. exists v. exact Ey.
    Qed.

    (* every mode: the returned factor (computed initialisation, or updated at least once) is prox_of c v where c is exactly
       the request made for that mode - the plain least-squares iterate / raw initial factor iff nobody made one *)
    Theorem zcp_validated n sp (E : env (M := M)) i0 fixed n_outer n_inner zero fs m :
      constrained_cp dM op (zvalidate truthy n sp) msub madd E n i0 fixed n_outer n_inner zero = Ok fs ->
      m < length fs -> init_computed i0 = true \/ (In m (modes_list n fixed) /\ 0 < n_outer /\ 0 < n_inner) ->
      exists c v, nth m fs dM = prox_of op c v /\
        (forall k p, c = Some (k, p) <-> exists s, In (k, s) sp /\ zrequested n s m p) /\
        (c = None <-> forall k s p, In (k, s) sp -> ~ zrequested n s m p).
    Proof.
      intros H Hm Hc. apply cp_skeleton in H. destruct H as (_ & R & _).
      destruct (R m Hm Hc) as (c & v & V & Ey). apply zvalidate_spec in V. destruct V as (_ & A & B).
      exists c, v. auto.
    Qed.

    (* composition with "the operator maps into its constraint set" (the subject of C12): the returned factor is feasible *)
    Theorem zcp_feasible (feas : kind -> P -> M -> Prop) n sp (E : env (M := M)) i0 fixed n_outer n_inner zero fs m k s p :
      (forall k p v, feas k p (op k p v)) ->
      constrained_cp dM op (zvalidate truthy n sp) msub madd E n i0 fixed n_outer n_inner zero = Ok fs ->
      m < length fs -> init_computed i0 = true \/ (In m (modes_list n fixed) /\ 0 < n_outer /\ 0 < n_inner) ->
      In (k, s) sp -> zrequested n s m p ->
      feas k p (nth m fs dM).
    Proof.
      intros Hf H Hm Hc Hin Hr.
      destruct (zcp_requested_in_range n sp E i0 fixed n_outer n_inner zero fs m k s p H Hm Hc Hin Hr) as (v & ->).
      apply Hf.
    Qed.

    Theorem zcp_rejects n sp (E : env (M := M)) i0 fixed n_outer n_inner zero : zwf_specs sp ->
      zdouble n sp \/ zself_alias n sp \/ zno_mode n sp ->
      constrained_cp dM op (zvalidate truthy n sp) msub madd E n i0 fixed n_outer n_inner zero = Err.
    Proof.
      intros Wf H. apply cp_err_on_double. apply zvalidate_err_iff; auto. tauto.
    Qed.

    Theorem zcp_ok_no_double n sp (E : env (M := M)) i0 fixed n_outer n_inner zero fs : zwf_specs sp ->
      constrained_cp dM op (zvalidate truthy n sp) msub madd E n i0 fixed n_outer n_inner zero = Ok fs ->
      ~ zdouble n sp /\ ~ zself_alias n sp /\ ~ zno_mode n sp.
    Proof.
      intros Wf H. repeat split; intro X; rewrite zcp_rejects in H; auto; discriminate H.
    Qed.
  End CP.
End Keys.
