(* Skeleton lemmas for Model/Constraints.v: whichever way the loops of admm / constrained_parafac run
   (any budgets, any stopping decisions, any least-squares step), the factor returned for a mode is an
   output of the operator that proximal_operator selects for that mode. *)
From Coq Require Import List Arith Bool Lia.
From TLV Require Import Base.PyList Base.Tensor.
From TLV Require Import Model.Constraints Proofs.ConstraintsProofs.
Import ListNotations.

Section Loop.
  Context {P : Type} (truthy : P -> bool).
  Context {M : Type} (dM : M) (op : kind -> P -> M -> M) (msub madd : M -> M -> M).
  Notation spec := (@spec P).

  Section Fixed.
  Variable val : nat -> res (option (kind * P)).

  (* y is an output of the operator selected for mode m *)
  Definition in_range (m : nat) (y : M) : Prop :=
    exists c v, val m = Ok c /\ y = prox_of op c v.

  Lemma proximal_operator_ok m x y : proximal_operator op val m x = Ok y -> in_range m y.
  Proof.
    unfold proximal_operator. destruct (val m) as [c|] eqn:E; simpl; [|discriminate].
    intros H. inversion H; subst. exists c, x. auto.
  Qed.

  Lemma admm_loop_inv (R : M -> Prop) split conv prox : (forall v y, prox v = Ok y -> R y) ->
    forall fuel it x dual xs x' xs' d',
    admm_loop msub madd fuel it split conv prox x dual xs = Ok (x', xs', d') ->
    (x' = x /\ xs' = xs) \/ (R x' /\ xs' <> None).
  Proof.
    intros HR. induction fuel as [|f IH]; intros it x dual xs x' xs' d' H; simpl in H.
    - inversion H; subst. left; auto.
    - destruct (prox (msub (split x dual) dual)) as [x1|] eqn:E; simpl in H; [|discriminate H].
      apply HR in E.
      destruct (conv it x1 (split x dual) (msub (madd dual x1) (split x dual))).
      + inversion H; subst. right. split; [exact E | discriminate].
      + apply IH in H. destruct H as [(-> & ->) | H]; [|right; exact H].
        right. split; [exact E | discriminate].
  Qed.

  Lemma admm_loop_pos (R : M -> Prop) split conv prox : (forall v y, prox v = Ok y -> R y) ->
    forall f it x dual xs x' xs' d',
    admm_loop msub madd (S f) it split conv prox x dual xs = Ok (x', xs', d') -> R x' /\ xs' <> None.
  Proof.
    intros HR f it x dual xs x' xs' d' H. cbn [admm_loop] in H.
    destruct (prox (msub (split x dual) dual)) as [x1|] eqn:E; simpl in H; [|discriminate H].
    apply HR in E.
    destruct (conv it x1 (split x dual) (msub (madd dual x1) (split x dual))).
    - inversion H; subst. split; [exact E | discriminate].
    - apply (admm_loop_inv R _ _ _ HR) in H. destruct H as [(-> & ->) | H]; [split; [exact E | discriminate] | exact H].
  Qed.

  (* admm returns the primal variable produced by the operator when the inner budget is >= 1, and its start (nothing validated, nothing
     projected) when the budget is 0 (fix fe4edf7: x_split is bound before the loop) *)
  Lemma admm_range (R : M -> Prop) n_iter split conv prox x dual x' s d' :
    (forall v y, prox v = Ok y -> R y) ->
    admm msub madd n_iter split conv prox x dual = Ok (x', s, d') ->
    (0 < n_iter -> R x') /\ (n_iter = 0 -> x' = x /\ s = x /\ d' = dual).
  Proof.
    intros HR H. unfold admm in H.
    destruct (admm_loop msub madd n_iter 0 split conv prox x dual None) as [[[x1 xs1] d1]|] eqn:E; simpl in H; [|discriminate H].
    split.
    - intros Hn. destruct n_iter as [|k]; [inversion Hn|].
      apply (admm_loop_pos R _ _ _ HR) in E. destruct E as (E & _). destruct xs1; inversion H; subst; exact E.
    - intros ->. simpl in E. inversion E; subst. simpl in H. inversion H; subst. auto.
  Qed.

  Lemma admm_zero_budget split conv prox x dual : admm msub madd 0 split conv prox x dual = Ok (x, x, dual).
  Proof. reflexivity. Qed.

  Variable E : env (M := M).

  Lemma update_mode_inv inner it fs duals mode fs' duals' :
    update_mode dM op val msub madd E inner it (fs, duals) mode = Ok (fs', duals') ->
    length fs' = length fs /\ (forall m, m <> mode -> nth m fs' dM = nth m fs dM) /\
    (mode < length fs -> 0 < inner -> in_range mode (nth mode fs' dM)) /\ (inner = 0 -> forall m, nth m fs' dM = nth m fs dM).
  Proof.
    unfold update_mode. intros H.
    destruct (admm msub madd inner (e_split E fs mode) (e_conv E it mode) (proximal_operator op val mode)
                   (nth mode fs dM) (nth mode duals dM)) as [[[x s] d]|] eqn:A; simpl in H; [|discriminate H].
    inversion H; subst.
    apply (admm_range (in_range mode)) in A; [|intros v y; apply proximal_operator_ok].
    destruct A as (A & A0).
    split; [apply set_nth_length|]. split; [|split].
    - intros m Hm. apply nth_set_nth_other. exact Hm.
    - intros L Hi. rewrite nth_set_nth_same; auto.
    - intros Hi m. destruct (A0 Hi) as (-> & _ & _).
      destruct (Nat.eq_dec m mode) as [->|Hne]; [|apply nth_set_nth_other; exact Hne].
      destruct (Nat.lt_ge_cases mode (length fs)) as [L|L]; [apply nth_set_nth_same; exact L|].
      rewrite !nth_overflow; [reflexivity | exact L | rewrite set_nth_length; exact L].
  Qed.

  Lemma sweep_inv inner it : forall modes st st',
    sweep dM op val msub madd E inner it st modes = Ok st' ->
    length (fst st') = length (fst st) /\
    (forall m, ~ In m modes -> nth m (fst st') dM = nth m (fst st) dM) /\
    (forall m, m < length (fst st) -> (In m modes /\ 0 < inner) \/ in_range m (nth m (fst st) dM) -> in_range m (nth m (fst st') dM)) /\
    (inner = 0 -> forall m, nth m (fst st') dM = nth m (fst st) dM).
  Proof.
    induction modes as [|a r IH]; intros st st' H; simpl in H.
    - inversion H; subst. split; auto. split; auto. split; [|auto]. intros m _ [([] & _) | Hr]; exact Hr.
    - destruct st as [fs duals].
      destruct (update_mode dM op val msub madd E inner it (fs, duals) a) as [[fs1 du1]|] eqn:U; simpl in H; [|discriminate H].
      apply update_mode_inv in U. destruct U as (L1 & K1 & R1 & Z1).
      apply IH in H. simpl in H. destruct H as (L2 & K2 & R2 & Z2). simpl.
      split; [congruence|]. split; [|split].
      + intros m Hm. rewrite K2 by tauto. apply K1. intros ->. apply Hm. left; reflexivity.
      + intros m Hl Hc. apply R2; [lia|].
        destruct (Nat.eq_dec m a) as [->|Hne].
        * destruct Hc as [(_ & Hi) | Hr].
          -- right. apply R1; [exact Hl | exact Hi].
          -- destruct (Nat.eq_dec inner 0) as [Hz|Hz]; [right; rewrite (Z1 Hz); exact Hr | right; apply R1; [exact Hl | lia]].
        * destruct Hc as [([Ha | Hin] & Hi) | Hr]; [congruence | left; split; [exact Hin | exact Hi]|].
          right. rewrite K1 by exact Hne. exact Hr.
      + intros Hi m. rewrite (Z2 Hi), (Z1 Hi). reflexivity.
  Qed.

  Lemma outer_loop_inv n inner modes : forall fuel it st st',
    outer_loop dM op val msub madd E n inner fuel it modes st = Ok st' ->
    length (fst st') = length (fst st) /\
    (forall m, ~ In m modes -> nth m (fst st') dM = nth m (fst st) dM) /\
    (forall m, m < length (fst st) -> in_range m (nth m (fst st) dM) -> in_range m (nth m (fst st') dM)) /\
    (0 < fuel -> 0 < inner -> forall m, m < length (fst st) -> In m modes -> in_range m (nth m (fst st') dM)) /\
    (inner = 0 -> forall m, nth m (fst st') dM = nth m (fst st) dM).
  Proof.
    induction fuel as [|f IH]; intros it st st' H; simpl in H.
    - inversion H; subst. repeat split; auto. intros L; inversion L.
    - destruct (sweep dM op val msub madd E inner it st modes) as [st1|] eqn:S; simpl in H; [|discriminate H].
      apply sweep_inv in S. destruct S as (L1 & K1 & R1 & Z1).
      destruct (err_defined E n modes (fst st1)); [|discriminate H].
      destruct (e_stop E it (fst st1) (snd st1)).
      + inversion H; subst. repeat split; auto.
      + apply IH in H. destruct H as (L2 & K2 & R2 & _ & Z2).
        split; [congruence|]. split; [|split; [|split]].
        * intros m Hm. rewrite K2, K1; auto.
        * intros m Hl Hr. apply R2; [lia|]. apply R1; auto.
        * intros _ Hi m Hl Hin. apply R2; [lia|]. apply R1; auto.
        * intros Hi m. rewrite (Z2 Hi), (Z1 Hi). reflexivity.
  Qed.

  Lemma prox_all_inv : forall raw i fs, prox_all op val i raw = Ok fs ->
    length fs = length raw /\ forall j, j < length raw -> in_range (i + j) (nth j fs dM).
  Proof.
    induction raw as [|f r IH]; intros i fs H; simpl in H.
    - inversion H; subst. split; auto. intros j Hj; inversion Hj.
    - destruct (proximal_operator op val i f) as [f'|] eqn:A; simpl in H; [|discriminate H].
      destruct (prox_all op val (S i) r) as [r'|] eqn:B; simpl in H; [|discriminate H].
      inversion H; subst. apply IH in B. destruct B as (L & R). apply proximal_operator_ok in A.
      split; [simpl; congruence|]. intros [|j] Hj; simpl.
      + rewrite Nat.add_0_r. exact A.
      + replace (i + S j) with (S i + j) by lia. apply R. simpl in Hj. lia.
  Qed.

  Definition init_factors (i0 : init) : list M := match i0 with IComputed raw => raw | IUser fs => fs end.
  Definition init_computed (i0 : init (M := M)) : bool := match i0 with IComputed _ => true | IUser _ => false end.

  (* THE SKELETON: any budgets, any environment (least-squares steps, stopping decisions) *)
  Theorem cp_skeleton n i0 fixed n_outer n_inner zero fs :
    constrained_cp dM op val msub madd E n i0 fixed n_outer n_inner zero = Ok fs ->
    length fs = length (init_factors i0) /\
    (forall m, m < length fs ->
       init_computed i0 = true \/ (In m (modes_list n fixed) /\ 0 < n_outer /\ 0 < n_inner) -> in_range m (nth m fs dM)) /\
    (forall m, init_computed i0 = false -> ~ In m (modes_list n fixed) \/ n_outer = 0 \/ n_inner = 0 ->
       nth m fs dM = nth m (init_factors i0) dM).
  Proof.
    unfold constrained_cp. intros H.
    destruct (val 0) as [c0|]; simpl in H; [|discriminate H].
    destruct (initialize op val i0) as [fs0|] eqn:I; simpl in H; [|discriminate H].
    destruct ((0 <? n_outer) && negb (Nat.eqb (length fs0) n)) eqn:LenOk; [discriminate H|].
    destruct (outer_loop dM op val msub madd E n n_inner n_outer 0 (modes_list n fixed)
                         (fs0, map (fun _ => zero) fs0)) as [st|] eqn:O; simpl in H; [|discriminate H].
    inversion H; subst. pose proof O as O'. apply outer_loop_inv in O. simpl in O. destruct O as (L & K & R & U & Z).
    assert (I0 : length fs0 = length (init_factors i0) /\
                 (init_computed i0 = true -> forall m, m < length fs0 -> in_range m (nth m fs0 dM)) /\
                 (init_computed i0 = false -> fs0 = init_factors i0)).
    { destruct i0 as [raw | ufs]; simpl in *.
      - apply prox_all_inv in I. destruct I as (L0 & R0). split; auto. split; [|discriminate].
        intros _ m Hm. apply (R0 m). lia.
      - inversion I; subst. split; auto. split; [discriminate | auto]. }
    destruct I0 as (L0 & C0 & U0).
    split; [congruence|]. split.
    - intros m Hm [Hc | (Hin & Hpos & Hipos)].
      + apply R; [lia|]. apply C0; auto. lia.
      + apply U; auto. lia.
    - intros m Hu [Hn | [Hz | Hz]].
      + rewrite K by exact Hn. rewrite U0 by exact Hu. reflexivity.
      + subst n_outer. simpl in O'. inversion O'; subst. simpl. rewrite U0 by exact Hu. reflexivity.
      + rewrite (Z Hz). rewrite U0 by exact Hu. reflexivity.
  Qed.

  (* inner budget 0 (fix fe4edf7: admm returns its start): whatever the outer budget, the fixed modes and the environment, the run returns
     the initialisation - the projected raw factors for a computed initialisation, the user's own factors otherwise *)
  Theorem cp_inner_zero n i0 fixed n_outer zero fs :
    constrained_cp dM op val msub madd E n i0 fixed n_outer 0 zero = Ok fs ->
    exists fs0, initialize op val i0 = Ok fs0 /\ length fs = length fs0 /\ forall m, nth m fs dM = nth m fs0 dM.
  Proof.
    unfold constrained_cp. intros H.
    destruct (val 0) as [c0|]; simpl in H; [|discriminate H].
    destruct (initialize op val i0) as [fs0|] eqn:I; simpl in H; [|discriminate H].
    destruct ((0 <? n_outer) && negb (Nat.eqb (length fs0) n)); [discriminate H|].
    destruct (outer_loop dM op val msub madd E n 0 n_outer 0 (modes_list n fixed) (fs0, map (fun _ => zero) fs0)) as [st|] eqn:O; simpl in H; [|discriminate H].
    inversion H; subst. apply outer_loop_inv in O. simpl in O. destruct O as (L & _ & _ & _ & Z).
    exists fs0. split; [reflexivity|]. split; [exact L|]. intros m. apply (Z eq_refl m).
  Qed.

  Lemma cp_err_on_double n i0 fixed n_outer n_inner zero :
    val 0 = Err -> constrained_cp dM op val msub madd E n i0 fixed n_outer n_inner zero = Err.
  Proof. unfold constrained_cp. intros ->. reflexivity. Qed.
  End Fixed.

  (* ---- instance: natural-number keys (val = validate truthy n sp) *)
  (* the returned factor of a mode on which the user requested constraint k with parameter p is an output of op k p *)
  Theorem cp_requested_in_range n sp (E : env (M := M)) i0 fixed n_outer n_inner zero fs m k s p :
    wf_specs sp ->
    constrained_cp dM op (validate truthy n sp) msub madd E n i0 fixed n_outer n_inner zero = Ok fs ->
    m < length fs -> init_computed i0 = true \/ (In m (modes_list n fixed) /\ 0 < n_outer /\ 0 < n_inner) ->
    In (k, s) sp -> requested truthy n s m p ->
    exists v, nth m fs dM = op k p v.
  Proof.
    intros Wf H Hm Hc Hin Hr. apply cp_skeleton in H. destruct H as (_ & R & _).
    destruct (R m Hm Hc) as (c & v & V & Ey).
    apply validate_spec in V; auto. destruct V as (_ & A & _).
    assert (X : c = Some (k, p)) by (apply A; exists s; auto).
    subst c. exists v. exact Ey.
  Qed.

  (* a mode nobody constrained is left to the least-squares iterate: the operator is the identity *)
  Lemma prox_of_unconstrained n sp order c x : wf_specs sp -> validate truthy n sp order = Ok c ->
    (forall k s p, In (k, s) sp -> ~ requested truthy n s order p) -> prox_of op c x = x.
  Proof.
    intros Wf V Hno. apply validate_spec in V; auto. destruct V as (_ & _ & B).
    assert (X : c = None) by (apply B; exact Hno). subst c. reflexivity.
  Qed.

  (* double constraints (or constraints on non-existing modes) are rejected by the decomposition itself *)
  Theorem cp_rejects n sp (E : env (M := M)) i0 fixed n_outer n_inner zero : wf_specs sp ->
    double truthy n sp \/ out_of_range truthy n sp ->
    constrained_cp dM op (validate truthy n sp) msub madd E n i0 fixed n_outer n_inner zero = Err.
  Proof.
    intros Wf H. apply cp_err_on_double. apply validate_err_iff; auto. tauto.
  Qed.

  Theorem cp_ok_no_double n sp (E : env (M := M)) i0 fixed n_outer n_inner zero fs : wf_specs sp ->
    constrained_cp dM op (validate truthy n sp) msub madd E n i0 fixed n_outer n_inner zero = Ok fs ->
    ~ double truthy n sp /\ ~ out_of_range truthy n sp.
  Proof.
    intros Wf H. split; intro X.
    - rewrite cp_rejects in H; auto; discriminate H.
    - rewrite cp_rejects in H; auto; discriminate H.
  Qed.

  (* which modes are updated *)
  Lemma remove_first_In a : forall l m, In m (remove_first a l) -> In m l.
  Proof.
    induction l as [|x r IH]; intros m H; simpl in *; [exact H|].
    destruct (Nat.eqb x a); [right; exact H|]. destruct H as [H | H]; [left; exact H | right; apply IH; exact H].
  Qed.
  Lemma modes_list_lt n fixed m : In m (modes_list n fixed) -> m < n.
  Proof. unfold modes_list. rewrite filter_In, in_seq. lia. Qed.
  Lemma modes_list_free n fixed m : m < n -> ~ In m fixed -> In m (modes_list n fixed).
  Proof.
    intros Hm Hn. unfold modes_list. rewrite filter_In, in_seq. split; [lia|].
    apply negb_true_iff. apply not_true_iff_false. rewrite memb_In. intro H. apply Hn.
    destruct (memb (n - 1) fixed); [apply remove_first_In in H|]; exact H.
  Qed.
  Lemma modes_list_fixed n fixed m : In m fixed -> m <> n - 1 -> ~ In m (modes_list n fixed).
  Proof.
    intros Hin Hne. unfold modes_list. rewrite filter_In. intros (_ & H).
    apply negb_true_iff in H. apply not_true_iff_false in H. apply H. apply memb_In.
    destruct (memb (n - 1) fixed); [|exact Hin].
    clear H. induction fixed as [|x r IH]; simpl in *; [exact Hin|].
    destruct (Nat.eqb x (n - 1)) eqn:Ex.
    - apply Nat.eqb_eq in Ex. destruct Hin as [Hin | Hin]; [congruence | exact Hin].
    - destruct Hin as [Hin | Hin]; [left; exact Hin | right; apply IH; exact Hin].
  Qed.
  (* the two raises of the decomposition that are not validation errors *)
  Lemma cp_no_mode_updated val n (E : env (M := M)) i0 fixed n_outer n_inner zero :
    modes_list n fixed = [] -> 0 < n_outer ->
    constrained_cp dM op val msub madd E n i0 fixed n_outer n_inner zero = Err.
  Proof.
    intros Hm Hn. unfold constrained_cp. destruct (val 0); simpl; [|reflexivity].
    destruct (initialize op val i0) as [fs0|]; simpl; [|reflexivity].
    destruct ((0 <? n_outer) && negb (Nat.eqb (length fs0) n)); [reflexivity|].
    rewrite Hm. destruct n_outer; [lia|]. reflexivity.
  Qed.
  Lemma cp_wrong_factor_count val n (E : env (M := M)) ufs fixed n_outer n_inner zero :
    length ufs <> n -> 0 < n_outer ->
    constrained_cp dM op val msub madd E n (IUser ufs) fixed n_outer n_inner zero = Err.
  Proof.
    intros Hl Hn. unfold constrained_cp. destruct (val 0); simpl; [|reflexivity].
    apply Nat.ltb_lt in Hn. rewrite Hn. apply Nat.eqb_neq in Hl. rewrite Hl. reflexivity.
  Qed.
End Loop.

(* the last mode is updated unless fixed_modes lists it twice *)
Lemma remove_first_NoDup_notin a : forall l, NoDup l -> ~ In a (remove_first a l).
Proof.
  induction l as [|x r IH]; intros N; simpl; [tauto|]. inversion N as [|? ? Nx Nr]; subst.
  destruct (Nat.eqb x a) eqn:Ex.
  - apply Nat.eqb_eq in Ex. subst. exact Nx.
  - apply Nat.eqb_neq in Ex. intros [H | H]; [congruence | exact (IH Nr H)].
Qed.
Lemma modes_list_has_last n fixed : NoDup fixed -> 0 < n -> In (n - 1) (modes_list n fixed).
Proof.
  intros N Hn. unfold modes_list. rewrite filter_In, in_seq. split; [lia|].
  apply negb_true_iff. apply not_true_iff_false. rewrite memb_In.
  destruct (memb (n - 1) fixed) eqn:Em.
  - apply remove_first_NoDup_notin. exact N.
  - intro H. apply memb_In in H. congruence.
Qed.

