(* n_const=None switches the constraint machinery off entirely: whatever the keywords say - also two constraints on one mode - the tensor
   comes back unchanged from proximal_operator and admm returns the unconstrained least-squares solution; with Some n the definitions are
   the ones of Model/Constraints.v. *)
From Coq Require Import List Arith Bool.
From TLV Require Import Base.PyList Base.Tensor Model.Constraints Model.ConstraintsNc Proofs.ConstraintsProofsLoop.
Import ListNotations.

Section NConst.
  Context {P M : Type} (truthy : P -> bool) (op : kind -> P -> M -> M) (msub madd : M -> M -> M).

  Theorem n_const_none_ignores_request (sp : list (kind * @zspec P)) order n_iter split conv (ls x dual : M) :
    proximal_operator_nc truthy op None sp order x = Ok x /\
    (0 < n_iter -> admm_nc truthy op msub madd None sp order n_iter split conv ls x dual = Ok (ls, split x dual, dual)) /\
    (forall nc, admm_nc truthy op msub madd nc sp order 0 split conv ls x dual = Ok (x, x, dual)).
  Proof. split; [reflexivity|]. split; [|intros [n|]; reflexivity]. destruct n_iter; [intros H; inversion H | reflexivity]. Qed.

  Theorem n_const_some_is_the_model n (sp : list (kind * @zspec P)) order n_iter split conv (ls x dual : M) :
    proximal_operator_nc truthy op (Some n) sp order x = proximal_operator op (zvalidate truthy n sp) order x /\
    admm_nc truthy op msub madd (Some n) sp order n_iter split conv ls x dual =
    admm msub madd n_iter split conv (proximal_operator op (zvalidate truthy n sp) order) x dual.
  Proof. split; reflexivity. Qed.

  (* admm without `order` (None) is admm on mode 0: the same term, hence the same result, and with n_const = n the returned primal
     variable is the output of the operator validate_constraints selects for mode 0 - the identity when mode 0 is unconstrained -
     (inner budget >= 1); a request with two constraints on one mode is rejected; proximal_operator with an explicit order=None and a
     number of constraints raises, with n_const=None it returns its input *)
  Theorem admm_order_none_is_mode_0 nc (sp : list (kind * @zspec P)) n_iter split conv (ls x dual : M) :
    admm_py truthy op msub madd nc sp None n_iter split conv ls x dual = admm_py truthy op msub madd nc sp (Some 0) n_iter split conv ls x dual.
  Proof. reflexivity. Qed.

  Theorem admm_order_none_applies_mode_0 n (sp : list (kind * @zspec P)) n_iter split conv (ls x dual x' s d' : M) :
    admm_py truthy op msub madd (Some n) sp None n_iter split conv ls x dual = Ok (x', s, d') ->
    (0 < n_iter -> exists c v, zvalidate truthy n sp 0 = Ok c /\ x' = prox_of op c v) /\ (n_iter = 0 -> x' = x /\ s = x /\ d' = dual).
  Proof.
    unfold admm_py, admm_nc, order_of. intros H.
    apply (admm_range msub madd (fun y => exists c v, zvalidate truthy n sp 0 = Ok c /\ y = prox_of op c v)) in H; [exact H|].
    intros v y Hy. unfold proximal_operator in Hy. destruct (zvalidate truthy n sp 0) as [c|] eqn:Ec; simpl in Hy; [|discriminate Hy].
    inversion Hy; subst. exists c, v. split; reflexivity.
  Qed.

  Theorem admm_order_none_rejects n (sp : list (kind * @zspec P)) n_iter split conv (ls x dual : M) :
    zvalidate truthy n sp 0 = Err -> 0 < n_iter ->
    admm_py truthy op msub madd (Some n) sp None n_iter split conv ls x dual = Err.
  Proof.
    intros Hv Hn. destruct n_iter as [|k]; [inversion Hn|].
    unfold admm_py, admm_nc, order_of, admm. cbn [admm_loop]. unfold proximal_operator. rewrite Hv. reflexivity.
  Qed.

  Theorem proximal_operator_order_none n (sp : list (kind * @zspec P)) (x : M) :
    proximal_operator_py truthy op (Some n) sp None x = Err /\ proximal_operator_py truthy op None sp None x = Ok x /\
    forall o, proximal_operator_py truthy op (Some n) sp (Some o) x = proximal_operator_nc truthy op (Some n) sp o x.
  Proof. repeat split; reflexivity. Qed.
End NConst.
