(* n_const=None switches the constraint machinery off entirely: whatever the keywords say - also two constraints on one mode - the tensor
   comes back unchanged from proximal_operator and admm returns the unconstrained least-squares solution; with Some n the definitions are
   the ones of Model/Constraints.v. *)
From Coq Require Import List Arith Bool.
From TLV Require Import Base.PyList Base.Tensor Model.Constraints Model.ConstraintsNc.
Import ListNotations.

Section NConst.
  Context {P M : Type} (truthy : P -> bool) (op : kind -> P -> M -> M) (msub madd : M -> M -> M).

  Theorem n_const_none_ignores_request (sp : list (kind * @zspec P)) order n_iter split conv (ls x dual : M) :
    proximal_operator_nc truthy op None sp order x = Ok x /\
    (0 < n_iter -> admm_nc truthy op msub madd None sp order n_iter split conv ls x dual = Ok (ls, split x dual, dual)) /\
    admm_nc truthy op msub madd None sp order 0 split conv ls x dual = Err.
  Proof. split; [reflexivity|]. split; [|reflexivity]. destruct n_iter; [intros H; inversion H | reflexivity]. Qed.

  Theorem n_const_some_is_the_model n (sp : list (kind * @zspec P)) order n_iter split conv (ls x dual : M) :
    proximal_operator_nc truthy op (Some n) sp order x = proximal_operator op (zvalidate truthy n sp) order x /\
    admm_nc truthy op msub madd (Some n) sp order n_iter split conv ls x dual =
    admm msub madd n_iter split conv (proximal_operator op (zvalidate truthy n sp) order) x dual.
  Proof. split; reflexivity. Qed.
End NConst.
