(* GENUINE DEFECT (found in round 5, triaged in round 6): max-normalisation and normalised sparsity divide by a normaliser that is 0
   when the operator's input (resp. its kept part) is zero.  The code then returns 0/0 = NaN; in this model of real arithmetic
   x / 0 is x * /0 and 0 * anything = 0, so the model's output is the zero matrix - either way NOT a point of the constraint set
   (max |entry| = 1, resp. unit l2 norm).  The input class is reachable from constrained_parafac:
     - the zero tensor with init='svd' (the singular values scale the first raw factor to zero) and normalize=True /
       normalized_sparsity=k: the first factor is infeasible already at outer budget 0;
     - normalized_sparsity={m: 0} (a dict registers its values whatever their truthiness): k = 0 keeps nothing, on ANY data.
   The restricted statements that do hold are C11_normalize_end_to_end_partial / C11_normalized_sparsity_end_to_end_partial. *)
From Coq Require Import List Arith Bool Lia ZArith Reals Lra.
From TLV Require Import Base.PyList Base.Tensor Base.Ops Model.Prox Proofs.ProxProofs Proofs.ProxProofsHard.
From TLV Require Import Model.Constraints Proofs.ConstraintsProofs Proofs.ConstraintsProofsLoop Proofs.ConstraintsProofsKeys
  Proofs.ConstraintsProofsTotal Proofs.ConstraintsProofsFeasible Proofs.ConstraintsProofsInit.
Import ListNotations.
Open Scope R_scope.

Lemma div0 (m : R) : fdiv Rops 0 m = 0.
Proof. cbn. unfold Rdiv. apply Rmult_0_l. Qed.

Lemma maxabs_zeros : forall n, maxabs Rops (repeat 0 n) = 0.
Proof.
  induction n as [|n IH]; [reflexivity|]. cbn [repeat]. unfold maxabs in *. cbn [fold_right]. rewrite IH.
  unfold fmax, fabs. cbn [fleb f0 fopp Rops]. destruct (Rleb 0 0); destruct (Rleb _ 0); try reflexivity; lra.
Qed.

Lemma map_zeros (g : R -> R) : g 0 = 0 -> forall n, map g (repeat 0 n) = repeat 0 n.
Proof. intros Hg. induction n as [|n IH]; [reflexivity|]. cbn [repeat map]. rewrite Hg, IH. reflexivity. Qed.

Lemma div_map_zeros (s : R) n : map (fun x => fdiv Rops x s) (repeat 0 n) = repeat 0 n.
Proof. apply (map_zeros (fun x => fdiv Rops x s)). apply div0. Qed.
Lemma normalize_zeros n : normalize Rops (repeat 0 n) = repeat 0 n.
Proof. unfold normalize. apply div_map_zeros. Qed.

Lemma sumsq_zeros : forall n, sumsq Rops (repeat 0 n) = 0.
Proof. induction n as [|n IH]; [reflexivity|]. unfold sumsq in *. cbn [repeat map lsum]. rewrite IH. cbn. lra. Qed.

Lemma apply_mask_zeros : forall (m : list bool) n, apply_mask Rops m (repeat 0 n) = repeat 0 (Nat.min (length m) n).
Proof.
  induction m as [|b m IH]; intros n; [reflexivity|]. destruct n as [|n]; [reflexivity|].
  unfold apply_mask in *. cbn [repeat combine map length Nat.min fst snd]. rewrite IH. destruct b; reflexivity.
Qed.

Lemma hard_thresholding_zeros k n : hard_thresholding Rops k (repeat 0 n) = repeat 0 n.
Proof.
  unfold hard_thresholding. rewrite apply_mask_zeros. unfold hard_mask. rewrite map_length, seq_length, repeat_length, Nat.min_id. reflexivity.
Qed.

(* k = 0 keeps nothing, whatever the input *)
Lemma apply_mask_false : forall (v : list R) (m : list bool), (forall b, In b m -> b = false) -> length m = length v ->
  apply_mask Rops m v = repeat 0 (length v).
Proof.
  induction v as [|x v IH]; intros m Hm L; destruct m as [|b m]; try discriminate L; [reflexivity|].
  unfold apply_mask in *. cbn [combine map length repeat fst snd]. rewrite (Hm b (or_introl eq_refl)).
  rewrite IH; [reflexivity | intros b' Hb'; apply Hm; right; exact Hb' | cbn in L; lia].
Qed.
Lemma hard_thresholding_0 (v : list R) : hard_thresholding Rops 0 v = repeat 0 (length v).
Proof.
  unfold hard_thresholding. apply apply_mask_false.
  - unfold hard_mask. cbn [firstn]. intros b Hb. apply in_map_iff in Hb. destruct Hb as (i & <- & _). reflexivity.
  - unfold hard_mask. rewrite map_length, seq_length. reflexivity.
Qed.

Section Refute.
  Context {P : Type} (toR : P -> R) (toN : P -> nat) (other : kind -> P -> mat -> mat).
  Definition Z22 : mat := [[0; 0]; [0; 0]].

  (* the operators on the zero matrix: the zero matrix *)
  Lemma normalize_zero_input p : op_c12 toR toN other KNormalize p Z22 = Z22.
  Proof using Type.
    cbn [op_c12]. unfold flatwise, Z22. cbn [concat app length].
    change [0; 0; 0; 0] with (repeat 0 4). rewrite normalize_zeros. reflexivity.
  Qed.
  Lemma normsparsity_zero_input p : op_c12 toR toN other KNormSparsity p Z22 = Z22.
  Proof using Type.
    cbn [op_c12]. unfold flatwise, Z22. cbn [concat app length]. change [0; 0; 0; 0] with (repeat 0 4).
    unfold normalized_sparsity_with. rewrite hard_thresholding_zeros. rewrite div_map_zeros. reflexivity.
  Qed.
  (* k = 0 on any 2 x 2 matrix *)
  Lemma normsparsity_k0 p (a b c d : R) : toN p = 0%nat -> op_c12 toR toN other KNormSparsity p [[a; b]; [c; d]] = Z22.
  Proof using Type.
    intros Hk. cbn [op_c12]. unfold flatwise, Z22. cbn [concat app length]. rewrite Hk.
    unfold normalized_sparsity_with. rewrite hard_thresholding_0. cbn [length]. rewrite div_map_zeros. reflexivity.
  Qed.

  Lemma Z22_infeasible : maxabs Rops (concat Z22) <> 1 /\ sumsq Rops (concat Z22) <> 1 /\ rect Z22.
  Proof using Type.
    unfold Z22. cbn [concat app]. change [0; 0; 0; 0] with (repeat 0 4). rewrite maxabs_zeros, sumsq_zeros.
    split; [lra|]. split; [lra|]. intros r [<-|[<-|[]]]; reflexivity.
  Qed.
End Refute.

(* THE REFUTATIONS, through the decomposition: parameters are naturals (0 falsy), order 3, 2 x 2 factors, outer budget 0, any
   environment, any operators for the penalty kinds; A is any 2 x 2 matrix.  (i) normalize requested on every mode, the raw initial
   factor of mode 0 is zero (what init='svd' produces for the zero tensor); (ii) the same for normalized_sparsity = 2;
   (iii) normalized_sparsity requested by the dict {0: 0} on non-zero raw factors.  In each case the run succeeds and the factor
   returned for mode 0 is the zero matrix: max |entry| = 0, l2 norm 0 - not in the constraint set (the code returns NaN there). *)
Definition nat_truthy (p : nat) : bool := negb (Nat.eqb p 0).

Theorem cp_zero_input_refuted (other : kind -> nat -> mat -> mat) (E : env (M := mat)) (msub madd : mat -> mat -> mat) (A : mat) (a b c d : R) :
  let run := fun sp raw => constrained_cp [] (op_c12 INR (fun p => p) other) (zvalidate nat_truthy 3 sp) msub madd E 3 (IComputed raw) [] 0 1 [] in
  (exists fs, run (zkeywords (fun k => match k with KNormalize => ZScalar 1%nat | _ => ZNone end)) [Z22; A; A] = Ok fs /\
              maxabs Rops (concat (nth 0 fs [])) <> 1) /\
  (exists fs, run (zkeywords (fun k => match k with KNormSparsity => ZScalar 2%nat | _ => ZNone end)) [Z22; A; A] = Ok fs /\
              sumsq Rops (concat (nth 0 fs [])) <> 1) /\
  (exists fs, run (zkeywords (fun k => match k with KNormSparsity => ZDict [(0%Z, 0%nat)] | _ => ZNone end)) [[[a; b]; [c; d]]; A; A] = Ok fs /\
              sumsq Rops (concat (nth 0 fs [])) <> 1).
Proof.
  cbv zeta.
  assert (G : forall sp raw tab c0, zvalidate_table nat_truthy 3 sp = Ok tab -> length raw = 3%nat ->
              zvalidate nat_truthy 3 sp 0 = Ok c0 ->
              exists fs, constrained_cp [] (op_c12 INR (fun p => p) other) (zvalidate nat_truthy 3 sp) msub madd E 3 (IComputed raw) [] 0 1 [] = Ok fs /\
                         nth 0 fs [] = prox_of (op_c12 INR (fun p => p) other) c0 (nth 0 raw [])).
  { intros sp raw tab c0 T L V.
    destruct (@zcp_valid_request_returns nat nat_truthy mat [] (op_c12 INR (fun p => p) other) msub madd 3 sp tab E (IComputed raw) [] 0 1 [] T) as (fs & Hrun);
      [lia | exact L | left; reflexivity |].
    exists fs. split; [exact Hrun|].
    destruct (zcp_computed_not_updated nat_truthy [] (op_c12 INR (fun p => p) other) msub madd 3 sp E raw [] 0 1 [] fs 0 Hrun) as (c' & V' & X);
      [rewrite L; lia | right; left; reflexivity |].
    rewrite V in V'. injection V' as <-. exact X. }
  pose proof (Z22_infeasible) as (I1 & I2 & _).
  split; [|split].
  - destruct (G (zkeywords (fun k => match k with KNormalize => ZScalar 1%nat | _ => ZNone end)) [Z22; A; A]
               [Some (KNormalize, 1%nat); Some (KNormalize, 1%nat); Some (KNormalize, 1%nat)] (Some (KNormalize, 1%nat)))
      as (fs & R & X); [vm_compute; reflexivity | reflexivity | vm_compute; reflexivity |].
    exists fs. split; [exact R|]. rewrite X. cbn [nth prox_of]. rewrite normalize_zero_input. exact I1.
  - destruct (G (zkeywords (fun k => match k with KNormSparsity => ZScalar 2%nat | _ => ZNone end)) [Z22; A; A]
               [Some (KNormSparsity, 2%nat); Some (KNormSparsity, 2%nat); Some (KNormSparsity, 2%nat)] (Some (KNormSparsity, 2%nat)))
      as (fs & R & X); [vm_compute; reflexivity | reflexivity | vm_compute; reflexivity |].
    exists fs. split; [exact R|]. rewrite X. cbn [nth prox_of]. rewrite normsparsity_zero_input. exact I2.
  - destruct (G (zkeywords (fun k => match k with KNormSparsity => ZDict [(0%Z, 0%nat)] | _ => ZNone end)) [[[a; b]; [c; d]]; A; A]
               [Some (KNormSparsity, 0%nat); None; None] (Some (KNormSparsity, 0%nat)))
      as (fs & R & X); [vm_compute; reflexivity | reflexivity | vm_compute; reflexivity |].
    exists fs. split; [exact R|]. rewrite X. cbn [nth prox_of]. rewrite normsparsity_k0 by reflexivity. exact I2.
Qed.

(* a negative parameter asks for an EMPTY set: no column has l1 norm <= p < 0, no non-negative column sums to p < 0 - whatever the
   operators return for such a request is infeasible (the code serves it silently; candidate repair: ValueError) *)
Theorem negative_parameter_empty_set (p : R) : p < 0 ->
  (forall z, ~ l1n Rops z <= p) /\ (forall z, ~ (Forall (fun a => 0 <= a) z /\ lsum Rops z = p)).
Proof.
  intros Hp. split.
  - intros z H. pose proof (l1n_nonneg z). lra.
  - intros z (F & S). assert (N : 0 <= lsum Rops z).
    { clear S. induction F; [cbn; lra | rewrite lsum_cons; lra]. }
    lra.
Qed.

(* SECOND DEFECT (round 6): simplex / l1 ball with parameter 0 (reachable through a dict, which registers falsy values).  No sorted entry
   exceeds its threshold, the count is 0 and the Python index count - 1 = -1 wraps around to the LAST threshold (Prox.simplex_tau models
   exactly that): the column [3; 1] is mapped to [1; 0] although the simplex of sum 0 and the l1 ball of radius 0 are {0}.  Witnesses on
   C12's model of the coded algorithm at exact rationals.  (A negative parameter asks for an empty set; the code serves it silently.) *)
From Coq Require Import QArith.
Theorem nonpositive_simplex_refuted :
  simplex_prox Qops 0%Q [3; 1]%Q = [1; 0]%Q /\ simplex_count Qops (sort_desc Qops [3; 1]%Q) (simplex_thr Qops 0%Q (sort_desc Qops [3; 1]%Q)) = 0%nat /\
  soft_sparsity_prox Qops 0%Q [-3; 1]%Q = [-1; 0]%Q /\
  ~ (lsum Qops (simplex_prox Qops 0%Q [3; 1]%Q) == 0)%Q /\ ~ (l1n Qops (soft_sparsity_prox Qops 0%Q [-3; 1]%Q) <= 0)%Q.
Proof. repeat split; try (vm_compute; reflexivity); vm_compute; intros H; discriminate H || (apply H; reflexivity). Qed.
