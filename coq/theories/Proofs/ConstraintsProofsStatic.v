(* The dispatch of proximal_operator regenerated from the Python source (a list of (kind, returned expression), Model/ConstraintsOps.v)
   against the operator family of the end-to-end theorems: every table accepted by the decidable check `dispatch_ok` denotes,
   kind by kind, exactly op_c12 - hence maps into the constraint sets (feas_c12).  The harness decides `dispatch_ok` on the
   table extracted from the CURRENT source on every run (Corr/C11.v, SDispatch). *)
From Coq Require Import List Arith Bool Reals.
From TLV Require Import Base.Ops Model.Prox Model.Constraints Model.ConstraintsOps Proofs.ConstraintsProofsFeasible.
Import ListNotations.

Lemma darg_eqb_eq a b : darg_eqb a b = true -> a = b.
Proof. destruct a, b; simpl; try discriminate; try reflexivity. intros H. apply eqb_prop in H. subst. reflexivity. Qed.
Lemma dargs_eqb_eq : forall a b, dargs_eqb a b = true -> a = b.
Proof.
  induction a as [|x a IH]; destruct b as [|y b]; simpl; try discriminate; try reflexivity.
  intros H. apply andb_true_iff in H. destruct H as (H1 & H2). apply darg_eqb_eq in H1. apply IH in H2. subst. reflexivity.
Qed.

Section Static.
  Context {P : Type} (toR : P -> R) (toN : P -> nat) (other : kind -> P -> mat -> mat).

  Theorem dispatch_table_sound (tbl : list (kind * dop)) : dispatch_ok tbl = true ->
    forall k, exists f, op_of_table Rops norm2 toR toN other tbl k = Some f /\ forall p x, f p x = op_c12 toR toN other k p x.
  Proof.
    intros H k. unfold dispatch_ok in H. rewrite forallb_forall in H.
    assert (Hk : In k all_kinds) by (destruct k; simpl; tauto).
    specialize (H k Hk). unfold op_of_table. destruct (lookup_kind k tbl) as [d|]; [|discriminate H].
    destruct k; destruct d as [| |f a|]; try discriminate H; try (destruct f; try discriminate H); cbn [dop_expected] in H;
      try (apply orb_true_iff in H; destruct H as [H|H]);
      try (apply dargs_eqb_eq in H; subst a); cbn; eexists; (split; [reflexivity | intros; reflexivity]).
  Qed.

  Corollary dispatch_table_feasible (tbl : list (kind * dop)) : dispatch_ok tbl = true ->
    forall k f, op_of_table Rops norm2 toR toN other tbl k = Some f -> forall p x, feas_c12 toR toN k p (f p x).
  Proof.
    intros H k f Hf p x. destruct (dispatch_table_sound tbl H k) as (g & Hg & E). rewrite Hf in Hg. injection Hg as <-.
    rewrite E. apply op_c12_feasible.
  Qed.
End Static.

(* the table of the current code is accepted; a table whose monotonicity branch passes decreasing=True, or which lacks a branch,
   or whose simplex branch drops the parameter, is not *)
Definition dispatch_as_coded : list (kind * dop) :=
  [(KNonNeg, DClip0); (KL1, DCall FSoftThresholding [ATensor; AParam]); (KL2, DCall FL2Prox [ATensor; AParam]);
   (KL2sq, DCall FL2SquareProx [ATensor; AParam]); (KUnimodal, DCall FUnimodalityProx [ATensor]); (KNormalize, DDivMaxAbs);
   (KSimplex, DCall FSimplexProx [ATensor; AParam]); (KNormSparsity, DCall FNormalizedSparsityProx [ATensor; AParam]);
   (KSoftSparsity, DCall FSoftSparsityProx [ATensor; AParam]); (KSmooth, DCall FSmoothnessProx [ATensor; AParam]);
   (KMonotone, DCall FMonotonicityProx [ATensor]); (KHardSparsity, DCall FHardThresholding [ATensor; AParam])].
Example dispatch_examples :
  dispatch_ok dispatch_as_coded = true /\
  dispatch_ok (map (fun e => if kind_eqb (fst e) KMonotone then (KMonotone, DCall FMonotonicityProx [ATensor; AKwDecreasing true]) else e) dispatch_as_coded) = false /\
  dispatch_ok (tl dispatch_as_coded) = false /\
  dispatch_ok (map (fun e => if kind_eqb (fst e) KSimplex then (KSimplex, DCall FSimplexProx [ATensor]) else e) dispatch_as_coded) = false /\
  dispatch_ok (map (fun e => if kind_eqb (fst e) KSimplex then (KSimplex, DCall FSoftSparsityProx [ATensor; AParam]) else e) dispatch_as_coded) = false.
Proof. repeat split; vm_compute; reflexivity. Qed.
