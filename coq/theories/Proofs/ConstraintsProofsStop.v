(* constrained_parafac with its stopping rule as written (Model/ConstraintsStop.v) against the skeleton with an arbitrary stopping
   boolean (Model/Constraints.v): every successful run of the former IS a run of the latter (so every theorem of the form
   "constrained_cp ... = Ok fs -> ..." holds of it, whatever the criterion), a known criterion never adds a raise, and an unknown
   criterion raises exactly when it is reached: truthy tol_outer, second sweep done, constraint error not below the tolerance. *)
From Coq Require Import List Arith Bool Lia.
From TLV Require Import Base.PyList Base.Tensor Model.Constraints Model.ConstraintsStop.
Import ListNotations.

Section Stop.
  Context {P M : Type} (dM : M) (op : kind -> P -> M -> M) (val : nat -> res (option (kind * P))) (msub madd : M -> M -> M).
  Variable E : env (M := M).
  Variable S : stop_env (M := M).

  Lemma sweep_with_stop inner it : forall modes st,
    sweep dM op val msub madd (with_stop E S) inner it st modes = sweep dM op val msub madd E inner it st modes.
  Proof.
    induction modes as [|m r IH]; intros st; [reflexivity|]. cbn [sweep].
    assert (U : update_mode dM op val msub madd (with_stop E S) inner it st m = update_mode dM op val msub madd E inner it st m)
      by (destruct st; reflexivity).
    rewrite U. destruct (update_mode dM op val msub madd E inner it st m); [cbn; apply IH | reflexivity].
  Qed.

  Lemma err_defined_with_stop n modes fs : err_defined (with_stop E S) n modes fs = err_defined E n modes fs.
  Proof. destruct modes; reflexivity. Qed.

  Lemma outer_loop_c_ok n inner modes : forall fuel it st st',
    outer_loop_c dM op val msub madd E S n inner fuel it modes st = Ok st' ->
    outer_loop dM op val msub madd (with_stop E S) n inner fuel it modes st = Ok st'.
  Proof.
    induction fuel as [|f IH]; intros it st st' H; [exact H|].
    cbn [outer_loop_c] in H. cbn [outer_loop]. rewrite sweep_with_stop.
    destruct (sweep dM op val msub madd E inner it st modes) as [st1|]; [|discriminate H]. cbn [rbind] in *.
    rewrite err_defined_with_stop. destruct (err_defined E n modes (fst st1)); [|discriminate H].
    cbn [with_stop e_stop]. destruct (stop_at S it (fst st1) (snd st1)) as [b|]; [|discriminate H]. cbn [rbind] in H.
    destruct b; [exact H | apply IH; exact H].
  Qed.

  (* every successful run with the coded stopping rule is a run of the skeleton *)
  Theorem cp_c_ok n i0 fixed n_outer n_inner zero fs :
    constrained_cp_c dM op val msub madd E S n i0 fixed n_outer n_inner zero = Ok fs ->
    constrained_cp dM op val msub madd (with_stop E S) n i0 fixed n_outer n_inner zero = Ok fs.
  Proof.
    unfold constrained_cp_c, constrained_cp. intros H.
    destruct (val 0); [|discriminate H]. cbn [rbind] in *.
    destruct (initialize op val i0) as [fs0|]; [|discriminate H]. cbn [rbind] in *.
    destruct ((0 <? n_outer) && negb (Nat.eqb (length fs0) n)); [discriminate H|].
    destruct (outer_loop_c dM op val msub madd E S n n_inner n_outer 0 (modes_list n fixed) (fs0, map (fun _ => zero) fs0)) as [st|] eqn:O;
      [|discriminate H].
    apply outer_loop_c_ok in O. rewrite O. exact H.
  Qed.

  (* a known criterion never raises: the two models agree, also on Err *)
  Lemma outer_loop_c_known n inner modes : s_crit S <> CrUnknown -> forall fuel it st,
    outer_loop_c dM op val msub madd E S n inner fuel it modes st = outer_loop dM op val msub madd (with_stop E S) n inner fuel it modes st.
  Proof.
    intros Hk. induction fuel as [|f IH]; intros it st; [reflexivity|].
    cbn [outer_loop_c outer_loop]. rewrite sweep_with_stop.
    destruct (sweep dM op val msub madd E inner it st modes) as [st1|]; [|reflexivity]. cbn [rbind].
    rewrite err_defined_with_stop. destruct (err_defined E n modes (fst st1)); [|reflexivity].
    cbn [with_stop e_stop].
    assert (X : exists b, stop_at S it (fst st1) (snd st1) = Ok b).
    { unfold stop_at, stop_rule. destruct (s_tol S && (1 <=? it)); [|eexists; reflexivity].
      destruct (s_cerr S it (fst st1) (snd st1)); [eexists; reflexivity|]. destruct (s_crit S); try (eexists; reflexivity). congruence. }
    destruct X as (b & ->). cbn [rbind]. destruct b; [reflexivity | apply IH].
  Qed.
  Theorem cp_c_known n i0 fixed n_outer n_inner zero : s_crit S <> CrUnknown ->
    constrained_cp_c dM op val msub madd E S n i0 fixed n_outer n_inner zero =
    constrained_cp dM op val msub madd (with_stop E S) n i0 fixed n_outer n_inner zero.
  Proof.
    intros Hk. unfold constrained_cp_c, constrained_cp. destruct (val 0); [|reflexivity]. cbn [rbind].
    destruct (initialize op val i0) as [fs0|]; [|reflexivity]. cbn [rbind].
    destruct ((0 <? n_outer) && negb (Nat.eqb (length fs0) n)); [reflexivity|]. rewrite outer_loop_c_known by exact Hk. reflexivity.
  Qed.

  (* an unknown criterion: TypeError as soon as it is reached - after the second sweep, unless tol_outer is falsy or the constraint
     error is already below it *)
  Theorem unknown_criterion_raises n inner modes f st st1 st2 :
    s_crit S = CrUnknown -> s_tol S = true ->
    sweep dM op val msub madd E inner 0 st modes = Ok st1 -> err_defined E n modes (fst st1) = true ->
    sweep dM op val msub madd E inner 1 st1 modes = Ok st2 -> err_defined E n modes (fst st2) = true ->
    s_cerr S 1 (fst st2) (snd st2) = false ->
    outer_loop_c dM op val msub madd E S n inner (Datatypes.S (Datatypes.S f)) 0 modes st = Err.
  Proof.
    intros Hc Ht S1 D1 S2 D2 Hce. cbn [outer_loop_c]. rewrite S1. cbn [rbind]. rewrite D1.
    unfold stop_at at 1. unfold stop_rule. rewrite Ht. cbn [andb Nat.leb rbind]. rewrite S2. cbn [rbind]. rewrite D2.
    unfold stop_at, stop_rule. rewrite Ht, Hce, Hc. reflexivity.
  Qed.
  (* ... and never before: one sweep, a falsy tol_outer or a small constraint error do not look at the criterion *)
  Theorem stop_rule_skips_criterion c it cerr a b :
    (it = 0 -> stop_rule true c it cerr a b = Ok false) /\ stop_rule false c it cerr a b = Ok false /\
    (1 <= it -> stop_rule true c it true a b = Ok true).
  Proof.
    split; [intros ->; reflexivity|]. split; [reflexivity|]. intros H. unfold stop_rule.
    destruct it; [lia|]. reflexivity.
  Qed.
End Stop.
