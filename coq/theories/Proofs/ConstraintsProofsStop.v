(* constrained_parafac with its stopping rule as written (Model/ConstraintsStop.v) against the skeleton with an arbitrary stopping
   boolean (Model/Constraints.v): every successful run of the former IS a run of the latter (so every theorem of the form
   "constrained_cp ... = Ok fs -> ..." holds of it, whatever the criterion), a known criterion never adds a raise, and an unknown
   criterion raises exactly when it is reached: truthy tol_outer, second sweep done, constraint error not below the tolerance. *)
From Coq Require Import List Arith Bool Lia Reals Lra.
From TLV Require Import Base.PyList Base.Tensor Base.Ops Model.Constraints Model.ConstraintsStop.
Import ListNotations.

Section Stop.
  Context {P M : Type} (dM : M) (op : kind -> P -> M -> M) (val : nat -> res (option (kind * P))) (msub madd : M -> M -> M).
  Variable E : env (M := M).
  Variable S : stop_env (M := M).

  Lemma sweep_with_stop inner it : forall modes st,
    sweep dM op val msub madd (with_stop E S) inner it st modes = sweep dM op val msub madd E inner it st modes.
  Proof.
    induction modes as [|m r IH]; intros st; [reflexivity|]. cbn [sweep].
    assert (U : update_mode dM op val msub madd (with_stop E S) inner it st m = update_mode dM op val msub madd E inner it st m)
      by (destruct st; reflexivity).
    rewrite U. destruct (update_mode dM op val msub madd E inner it st m); [cbn; apply IH | reflexivity].
  Qed.

  Lemma err_defined_with_stop n modes fs : err_defined (with_stop E S) n modes fs = err_defined E n modes fs.
  Proof. destruct modes; reflexivity. Qed.

  Lemma outer_loop_c_ok n inner modes : forall fuel it st st',
    outer_loop_c dM op val msub madd E S n inner fuel it modes st = Ok st' ->
    outer_loop dM op val msub madd (with_stop E S) n inner fuel it modes st = Ok st'.
  Proof.
    induction fuel as [|f IH]; intros it st st' H; [exact H|].
    cbn [outer_loop_c] in H. cbn [outer_loop]. rewrite sweep_with_stop.
    destruct (sweep dM op val msub madd E inner it st modes) as [st1|]; [|discriminate H]. cbn [rbind] in *.
    rewrite err_defined_with_stop. destruct (err_defined E n modes (fst st1)); [|discriminate H].
    cbn [with_stop e_stop]. destruct (stop_at S it (fst st1) (snd st1)) as [b|]; [|discriminate H]. cbn [rbind] in H.
    destruct b; [exact H | apply IH; exact H].
  Qed.

  (* every successful run with the coded stopping rule is a run of the skeleton *)
  Theorem cp_c_ok n i0 fixed n_outer n_inner zero fs :
    constrained_cp_c dM op val msub madd E S n i0 fixed n_outer n_inner zero = Ok fs ->
    constrained_cp dM op val msub madd (with_stop E S) n i0 fixed n_outer n_inner zero = Ok fs.
  Proof.
    unfold constrained_cp_c, constrained_cp. intros H.
    destruct (val 0); [|discriminate H]. cbn [rbind] in *.
    destruct (initialize op val i0) as [fs0|]; [|discriminate H]. cbn [rbind] in *.
    destruct ((0 <? n_outer) && negb (Nat.eqb (length fs0) n)); [discriminate H|].
    destruct (outer_loop_c dM op val msub madd E S n n_inner n_outer 0 (modes_list n fixed) (fs0, map (fun _ => zero) fs0)) as [st|] eqn:O;
      [|discriminate H].
    apply outer_loop_c_ok in O. rewrite O. exact H.
  Qed.

  (* a known criterion never raises: the two models agree, also on Err *)
  Lemma outer_loop_c_known n inner modes : s_crit S <> CrUnknown -> forall fuel it st,
    outer_loop_c dM op val msub madd E S n inner fuel it modes st = outer_loop dM op val msub madd (with_stop E S) n inner fuel it modes st.
  Proof.
    intros Hk. induction fuel as [|f IH]; intros it st; [reflexivity|].
    cbn [outer_loop_c outer_loop]. rewrite sweep_with_stop.
    destruct (sweep dM op val msub madd E inner it st modes) as [st1|]; [|reflexivity]. cbn [rbind].
    rewrite err_defined_with_stop. destruct (err_defined E n modes (fst st1)); [|reflexivity].
    cbn [with_stop e_stop].
    assert (X : exists b, stop_at S it (fst st1) (snd st1) = Ok b).
    { unfold stop_at, stop_rule. destruct (s_tol S && (1 <=? it)); [|eexists; reflexivity].
      destruct (s_cerr S it (fst st1) (snd st1)); [eexists; reflexivity|]. destruct (s_crit S); try (eexists; reflexivity). congruence. }
    destruct X as (b & ->). cbn [rbind]. destruct b; [reflexivity | apply IH].
  Qed.
  Theorem cp_c_known n i0 fixed n_outer n_inner zero : s_crit S <> CrUnknown ->
    constrained_cp_c dM op val msub madd E S n i0 fixed n_outer n_inner zero =
    constrained_cp dM op val msub madd (with_stop E S) n i0 fixed n_outer n_inner zero.
  Proof.
    intros Hk. unfold constrained_cp_c, constrained_cp. destruct (val 0); [|reflexivity]. cbn [rbind].
    destruct (initialize op val i0) as [fs0|]; [|reflexivity]. cbn [rbind].
    destruct ((0 <? n_outer) && negb (Nat.eqb (length fs0) n)); [reflexivity|]. rewrite outer_loop_c_known by exact Hk. reflexivity.
  Qed.

  (* an unknown criterion: TypeError as soon as it is reached - after the second sweep, unless tol_outer is falsy or the constraint
     error is already below it *)
  Theorem unknown_criterion_raises n inner modes f st st1 st2 :
    s_crit S = CrUnknown -> s_tol S = true ->
    sweep dM op val msub madd E inner 0 st modes = Ok st1 -> err_defined E n modes (fst st1) = true ->
    sweep dM op val msub madd E inner 1 st1 modes = Ok st2 -> err_defined E n modes (fst st2) = true ->
    s_cerr S 1 (fst st2) (snd st2) = false ->
    outer_loop_c dM op val msub madd E S n inner (Datatypes.S (Datatypes.S f)) 0 modes st = Err.
  Proof.
    intros Hc Ht S1 D1 S2 D2 Hce. cbn [outer_loop_c]. rewrite S1. cbn [rbind]. rewrite D1.
    unfold stop_at at 1. unfold stop_rule. rewrite Ht. cbn [andb Nat.leb rbind]. rewrite S2. cbn [rbind]. rewrite D2.
    unfold stop_at, stop_rule. rewrite Ht, Hce, Hc. reflexivity.
  Qed.
  (* ... and never before: one sweep, a falsy tol_outer or a small constraint error do not look at the criterion *)
  Theorem stop_rule_skips_criterion c it cerr a b :
    (it = 0 -> stop_rule true c it cerr a b = Ok false) /\ stop_rule false c it cerr a b = Ok false /\
    (1 <= it -> stop_rule true c it true a b = Ok true).
  Proof.
    split; [intros ->; reflexivity|]. split; [reflexivity|]. intros H. unfold stop_rule.
    destruct it; [lia|]. reflexivity.
  Qed.
End Stop.

(* ---- the stopping rule with its three comparisons as real numbers (Model/ConstraintsStop.v stop_env_num at Rops): what exactly makes the
   loop stop after sweep `it`, and what makes it raise *)
Section StopNumR.
  Context {M : Type}.
  Open Scope R_scope.
  Variables (tol : R) (c : crit) (cerr err : nat -> R).
  Local Notation S := (stop_env_num (M := M) Rops tol c cerr err).

  Lemma fabs_Rabs x : fabs Rops x = Rabs x.
  Proof. unfold fabs, Rabs. cbn. unfold Rleb. destruct (Rle_dec 0 x), (Rcase_abs x); lra. Qed.
  Lemma fltb_R a b : fltb Rops a b = true <-> a < b.
  Proof. unfold fltb. cbn. unfold Rleb. destruct (Rle_dec b a); cbn; split; intros; try lra; try discriminate; try reflexivity. Qed.
  Lemma fltb_R_false a b : fltb Rops a b = false <-> b <= a.
  Proof. unfold fltb. cbn. unfold Rleb. destruct (Rle_dec b a); cbn; split; intros; try lra; try discriminate; try reflexivity. Qed.
  Lemma f_truthy_R x : f_truthy Rops x = true <-> x <> 0.
  Proof. unfold f_truthy. cbn. unfold Rleb. destruct (Rle_dec x 0), (Rle_dec 0 x); cbn; split; intros; try lra; try discriminate; reflexivity. Qed.

  (* the loop stops after sweep `it` IFF tol_outer is non-zero, it is not the first sweep, and the constraint error is below the tolerance
     or the criterion in force is: |decrease| < tol ('abs_rec_error'), decrease < tol ('rec_error') *)
  Theorem stop_num_true it (fs du : list M) :
    stop_at S it fs du = Ok true <->
    tol <> 0 /\ (1 <= it)%nat /\
    (cerr it < tol \/ (cerr it >= tol /\
       ((c = CrAbsRecError /\ Rabs (err (it - 1) - err it) < tol) \/ (c = CrRecError /\ err (it - 1) - err it < tol)))).
  Proof.
    unfold stop_at, stop_rule. cbn [s_tol s_crit s_cerr s_dabs s_drel stop_env_num]. unfold decrease. cbn [fsub Rops].
    rewrite fabs_Rabs.
    destruct (f_truthy Rops tol) eqn:T; cbn [andb].
    2:{ split; [discriminate|]. intros (H & _). apply f_truthy_R in H. congruence. }
    apply f_truthy_R in T.
    destruct (1 <=? it)%nat eqn:I.
    2:{ split; [discriminate|]. intros (_ & H & _). apply Nat.leb_le in H. congruence. }
    apply Nat.leb_le in I.
    destruct (fltb Rops (cerr it) tol) eqn:Ce.
    { apply fltb_R in Ce. split; [intros _; repeat split; auto|reflexivity]. }
    apply fltb_R_false in Ce.
    destruct c.
    - destruct (fltb Rops (Rabs (err (it - 1) - err it)) tol) eqn:D.
      + apply fltb_R in D. split; [intros _|reflexivity]. split; [exact T|]. split; [exact I|]. right. split; [lra|]. left. auto.
      + apply fltb_R_false in D. split; [discriminate|]. intros (_ & _ & [H | (_ & [(_ & H) | (H & _)])]); try lra; discriminate H.
    - destruct (fltb Rops (err (it - 1) - err it) tol) eqn:D.
      + apply fltb_R in D. split; [intros _|reflexivity]. split; [exact T|]. split; [exact I|]. right. split; [lra|]. right. auto.
      + apply fltb_R_false in D. split; [discriminate|]. intros (_ & _ & [H | (_ & [(H & _) | (_ & H)])]); try lra; discriminate H.
    - split; [discriminate|]. intros (_ & _ & [H | (_ & [(H & _) | (H & _)])]); try lra; discriminate H.
  Qed.

  (* it raises (TypeError: unknown criterion) IFF tol_outer is non-zero, it is not the first sweep, the constraint error is NOT below the
     tolerance and the criterion is neither 'abs_rec_error' nor 'rec_error' *)
  Theorem stop_num_err it (fs du : list M) :
    stop_at S it fs du = Err <-> tol <> 0 /\ (1 <= it)%nat /\ tol <= cerr it /\ c = CrUnknown.
  Proof.
    unfold stop_at, stop_rule. cbn [s_tol s_crit s_cerr s_dabs s_drel stop_env_num].
    destruct (f_truthy Rops tol) eqn:T; cbn [andb].
    2:{ split; [discriminate|]. intros (H & _). apply f_truthy_R in H. congruence. }
    apply f_truthy_R in T.
    destruct (1 <=? it)%nat eqn:I.
    2:{ split; [discriminate|]. intros (_ & H & _). apply Nat.leb_le in H. congruence. }
    apply Nat.leb_le in I.
    destruct (fltb Rops (cerr it) tol) eqn:Ce.
    { apply fltb_R in Ce. split; [discriminate|]. intros (_ & _ & H & _). lra. }
    apply fltb_R_false in Ce.
    destruct c; (split; [try discriminate; intros _; repeat split; auto | try reflexivity; intros (_ & _ & _ & H); discriminate H]).
  Qed.

  (* consequences worth knowing: with 'rec_error' and a positive tolerance a sweep that does NOT decrease the error stops the loop;
     with a negative tolerance (truthy!) 'abs_rec_error' and the constraint error can never stop it when the constraint error is >= 0 *)
  Theorem rec_error_stops_on_increase it (fs du : list M) :
    c = CrRecError -> 0 < tol -> (1 <= it)%nat -> err (it - 1) <= err it -> stop_at S it fs du = Ok true.
  Proof.
    intros Hc Ht Hi He. apply stop_num_true. split; [lra|]. split; [exact Hi|].
    destruct (Rlt_dec (cerr it) tol) as [L|L]; [left; exact L|]. right. split; [lra|]. right. split; [exact Hc|]. lra.
  Qed.
  Theorem negative_tolerance_never_stops_abs it (fs du : list M) :
    c = CrAbsRecError -> tol < 0 -> 0 <= cerr it -> stop_at S it fs du = Ok false.
  Proof.
    intros Hc Ht Hce. destruct (stop_at S it fs du) as [[|]|] eqn:H; [| reflexivity |].
    - apply stop_num_true in H. destruct H as (_ & _ & [H | (_ & [(_ & H) | (H & _)])]); [lra | pose proof (Rabs_pos (err (it - 1) - err it)); lra | congruence].
    - apply stop_num_err in H. destruct H as (_ & _ & _ & H). congruence.
  Qed.
End StopNumR.
