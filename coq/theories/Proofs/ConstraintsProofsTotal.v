(* Totality of the skeleton: a request that validate_constraints accepts is never rejected by the decomposition
   (every inner budget - 0 included since fix fe4edf7 -, exactly n initial factors), whatever the environment.  Together with zcp_rejects:
   the decomposition raises exactly on the requests validate_constraints rejects. *)
From Coq Require Import List Arith Bool Lia ZArith.
From TLV Require Import Base.PyList Base.Tensor.
From TLV Require Import Model.Constraints Proofs.ConstraintsProofs Proofs.ConstraintsProofsLoop Proofs.ConstraintsProofsKeys.
Import ListNotations.

Section Total.
  Context {P M : Type} (dM : M) (op : kind -> P -> M -> M) (msub madd : M -> M -> M).
  Variable val : nat -> res (option (kind * P)).
  Variable n : nat.
  Hypothesis val_ok : forall m, m < n -> exists c, val m = Ok c.

  Lemma proximal_operator_total m x : m < n -> exists y, proximal_operator op val m x = Ok y.
  Proof. intros Hm. unfold proximal_operator. destruct (val_ok m Hm) as (c & ->). simpl. eauto. Qed.

  Lemma admm_loop_total split conv prox : (forall v, exists y, prox v = Ok y) ->
    forall fuel it x dual xs, xs <> None \/ 0 < fuel ->
    exists x' s d', admm_loop msub madd fuel it split conv prox x dual xs = Ok (x', Some s, d').
  Proof.
    intros Hp. induction fuel as [|f IH]; intros it x dual xs H; simpl.
    - destruct H as [H | H]; [|lia]. destruct xs as [s|]; [|congruence]. eauto.
    - destruct (Hp (msub (split x dual) dual)) as (x1 & ->). simpl.
      destruct (conv it x1 (split x dual) (msub (madd dual x1) (split x dual))); [eauto|].
      apply IH. left. discriminate.
  Qed.

  (* every inner budget: 0 returns the start (fix fe4edf7), >= 1 the loop's result *)
  Lemma admm_total n_iter split conv prox x dual : (forall v, exists y, prox v = Ok y) ->
    exists r, admm msub madd n_iter split conv prox x dual = Ok r.
  Proof.
    intros Hp. destruct n_iter as [|k]; [eexists; reflexivity|]. unfold admm.
    destruct (admm_loop_total split conv prox Hp (S k) 0 x dual None (or_intror (Nat.lt_0_succ k))) as (x' & s & d' & ->). simpl. eauto.
  Qed.

  Variable E : env (M := M).

  Lemma update_mode_total inner it st mode : mode < n ->
    exists st', update_mode dM op val msub madd E inner it st mode = Ok st'.
  Proof.
    intros Hm. destruct st as [fs duals]. unfold update_mode.
    destruct (admm_total inner (e_split E fs mode) (e_conv E it mode) (proximal_operator op val mode)
                         (nth mode fs dM) (nth mode duals dM)) as ([[x s] d] & ->); auto.
    - intros v. apply proximal_operator_total. exact Hm.
    - simpl. eauto.
  Qed.

  Lemma sweep_total inner it : forall modes st, Forall (fun m => m < n) modes ->
    exists st', sweep dM op val msub madd E inner it st modes = Ok st'.
  Proof.
    induction modes as [|a r IH]; intros st F; simpl; [eauto|].
    inversion F as [|? ? Fa Fr]; subst.
    destruct (update_mode_total inner it st a Fa) as (st1 & ->). simpl. apply IH. exact Fr.
  Qed.

  Lemma err_defined_last modes fs : In (n - 1) modes -> err_defined E n modes fs = true.
  Proof.
    intros H. unfold err_defined. destruct modes as [|a r]; [contradiction|].
    apply memb_In in H. rewrite H. reflexivity.
  Qed.

  Lemma outer_loop_total inner modes : Forall (fun m => m < n) modes -> In (n - 1) modes ->
    forall fuel it st, exists st', outer_loop dM op val msub madd E n inner fuel it modes st = Ok st'.
  Proof.
    intros F Hl. induction fuel as [|f IH]; intros it st; simpl; [eauto|].
    destruct (sweep_total inner it modes st F) as (st1 & ->). simpl.
    rewrite err_defined_last by exact Hl.
    destruct (e_stop E it (fst st1) (snd st1)); [eauto | apply IH].
  Qed.

  Lemma prox_all_total : forall fs i, i + length fs <= n -> exists fs', prox_all op val i fs = Ok fs' /\ length fs' = length fs.
  Proof.
    induction fs as [|f r IH]; intros i H; simpl in *; [eauto|].
    destruct (proximal_operator_total i f) as (f' & ->); [lia|]. simpl.
    destruct (IH (S i)) as (r' & -> & L); [lia|]. simpl. eexists. split; [reflexivity | simpl; congruence].
  Qed.

  (* a run succeeds when: the order is >= 1, there are exactly n initial factors, and - unless the outer budget is 0 - the last mode is
     updated (always the case when fixed_modes has no repeated entry); every inner budget (0 included since fix fe4edf7) *)
  Theorem cp_total i0 fixed n_outer n_inner zero : 0 < n -> length (init_factors i0) = n ->
    n_outer = 0 \/ In (n - 1) (modes_list n fixed) ->
    exists fs, constrained_cp dM op val msub madd E n i0 fixed n_outer n_inner zero = Ok fs.
  Proof.
    intros Hn Hl Hu. unfold constrained_cp. destruct (val_ok 0 Hn) as (c & ->). simpl.
    assert (I : exists fs0, initialize op val i0 = Ok fs0 /\ length fs0 = n).
    { destruct i0 as [raw | ufs]; simpl in *; [|eauto].
      destruct (prox_all_total raw 0) as (fs' & -> & L); [lia|]. eexists. split; [reflexivity | congruence]. }
    destruct I as (fs0 & -> & L0). simpl. rewrite L0, Nat.eqb_refl, andb_false_r.
    destruct Hu as [-> | Hu]; [simpl; eauto|].
    destruct (outer_loop_total n_inner (modes_list n fixed)) with (fuel := n_outer) (it := 0)
      (st := (fs0, map (fun _ : M => zero) fs0)) as (st & ->).
    - apply Forall_forall. intros m Hm. eapply modes_list_lt; eauto.
    - exact Hu.
    - simpl. eauto.
  Qed.
End Total.

Section TotalKeys.
  Context {P : Type} (truthy : P -> bool) {M : Type} (dM : M) (op : kind -> P -> M -> M) (msub madd : M -> M -> M).

  (* a request that validate_constraints accepts is not rejected by the decomposition *)
  Theorem zcp_valid_request_returns n (sp : list (kind * @zspec P)) tab (E : env (M := M)) i0 fixed n_outer n_inner zero :
    zvalidate_table truthy n sp = Ok tab -> 0 < n -> length (init_factors i0) = n ->
    n_outer = 0 \/ In (n - 1) (modes_list n fixed) ->
    exists fs, constrained_cp dM op (zvalidate truthy n sp) msub madd E n i0 fixed n_outer n_inner zero = Ok fs.
  Proof.
    intros H Hn Hl Hu. apply cp_total; auto.
    intros m Hm. unfold zvalidate. rewrite H. simpl. apply Nat.ltb_lt in Hm. rewrite Hm. eauto.
  Qed.

  (* the decomposition raises exactly on the requests that put two constraints on one mode / address no existing mode *)
  Theorem zcp_err_iff n (sp : list (kind * @zspec P)) (E : env (M := M)) i0 fixed n_outer n_inner zero :
    zwf_specs sp -> 0 < n -> length (init_factors i0) = n -> n_outer = 0 \/ In (n - 1) (modes_list n fixed) ->
    (constrained_cp dM op (zvalidate truthy n sp) msub madd E n i0 fixed n_outer n_inner zero = Err <->
     zdouble truthy n sp \/ zself_alias n sp \/ zno_mode truthy n sp).
  Proof.
    intros Wf Hn Hl Hu. split.
    - intros H. apply (zvalidate_table_err_iff truthy n sp Wf).
      destruct (zvalidate_table truthy n sp) as [tab|] eqn:T; [|reflexivity].
      destruct (zcp_valid_request_returns n sp tab E i0 fixed n_outer n_inner zero T Hn Hl Hu) as (fs & X).
      rewrite X in H. discriminate H.
    - apply zcp_rejects. exact Wf.
  Qed.
End TotalKeys.
